(* BRIDGE event gate with concrete Keccak-256 (C13) -> row builder (C11).

   Model/Rows.v takes the integration's signature hash as DECLARATION DATA
   ([d_sighash], any byte string) and counts the indexed inputs of its own
   input list; Model/AbiSig.v + Model/Keccak.v say what dig.New stores there:
   [sighash = Keccak-256 (Event.Signature())], [numIndexed = Event.numIndexed()].
   Here the Rows-level declaration is BUILT from an event declaration the way
   dig.New builds the Integration, so the composed statements
   (Proofs/BridgeGateRowsP.v, stated in Properties/C13.v) have no free hash.
   Definitions only.

   * [jin]: one input of the event as the ABI JSON presents it ([jty] of
     Model/AbiParse.v: elementary or tuple base, array suffixes, indexed flag)
     together with what the integration binds to it (column, filter).
     [jin_input]: the Rows-level input: the indexed flag and the TYPE STRING of
     the JSON input ([i_ty (json_of _)]).  Model/Rows.v does not model tuple
     components (C11 is about top-level inputs), so for a tuple input only the
     gate statements are meaningful; the end-to-end statement is about [tin]
     inputs (elementary base + array suffixes, Model/RowsAbi.v), embedded by
     [tin_jin].
   * [evdecl]: what dig.New receives: the integration name, the event (name +
     inputs), the block data, the table's column names, filter_agg.
   * [decl_of]: the Integration dig.New returns, as a [Rows.decl]:
     [d_sighash := keccak256 (event_sig (event_of name js))] -- the concrete
     Keccak-256 of Model/Keccak.v on the Go-side Event.Signature() -- and the
     inputs whose indexed flags Rows.num_indexed counts.
   * [declared_log name js l]: the log has 1 + #indexed topics and topic 0 is
     Keccak-256 of the CANONICAL signature (Solidity rule, [canon_sig]).
   * [keep_logs p blocks]: the chain with every log that fails [p] erased
     (nothing else changed). *)
From Coq Require Import String Ascii List NArith ZArith Bool.
From Shovel Require Import Base.Outcome Model.Hex Model.Bint.
From Shovel Require Import Model.AbiType Model.AbiScan Model.AbiEnc Model.AbiParse Model.AbiSig Model.Keccak.
From Shovel Require Import Model.Filter Model.Rows Model.RowsAbi.
Import ListNotations.
Open Scope N_scope.

(* ---- the event declaration and the integration dig.New builds from it ---- *)
Record jin := { ji_ty : jty; ji_column : bytes; ji_filter : flt }.

Definition jin_input (x : jin) : input :=
  {| Rows.i_indexed := j_indexed (ji_ty x);
     i_type := i_ty (json_of (ji_ty x));
     i_column := ji_column x;
     i_filter := ji_filter x |}.

Record evdecl := {
  ed_ig : bytes;                 (* integration name *)
  ed_event : bytes;              (* event name *)
  ed_inputs : list jin;          (* event inputs, in declaration order *)
  ed_block : list blockdata;
  ed_table_cols : list bytes;
  ed_agg : bytes
}.

Definition ed_js (ed : evdecl) : list jty := map ji_ty (ed_inputs ed).
(* the ABI JSON event (what Event.Signature() / numIndexed() are called on) *)
Definition ed_json (ed : evdecl) : event := event_of (ed_event ed) (ed_js ed).
(* the canonical signature of the Solidity ABI specification *)
Definition ed_sig (ed : evdecl) : bytes := canon_sig (ed_event ed) (ed_js ed).

Definition decl_of (ed : evdecl) : decl :=
  {| d_name := ed_ig ed;
     d_inputs := map jin_input (ed_inputs ed);
     d_block := ed_block ed;
     d_table_cols := ed_table_cols ed;
     d_agg := ed_agg ed;
     d_sighash := keccak256 (event_sig (ed_json ed)) |}.

(* [tin] (elementary base + array suffixes) as a [jin] *)
Definition tin_jin (x : tin) : jin :=
  {| ji_ty := tin_jty x; ji_column := tn_column x; ji_filter := tn_filter x |}.
Definition tin_evdecl (ig name : bytes) (xs : list tin) (block : list blockdata)
           (cols : list bytes) (agg : bytes) : evdecl :=
  {| ed_ig := ig; ed_event := name; ed_inputs := map tin_jin xs; ed_block := block;
     ed_table_cols := cols; ed_agg := agg |}.

(* ---- "a log of the declared event" ---- *)
Definition declared_log (name : bytes) (js : list jty) (l : logr) : Prop :=
  length (l_topics l) = S (length (filter j_indexed js)) /\
  nth_error (l_topics l) 0 = Some (keccak256 (canon_sig name js)).

Definition is_declared_log (name : bytes) (js : list jty) (l : logr) : bool :=
  (length (l_topics l) =? S (length (filter j_indexed js)))%nat
  && bytes_eqb (keccak256 (canon_sig name js)) (nth 0 (l_topics l) []).

(* a log of the event (name, js): exists for every event *)
Definition log_of (name : bytes) (js : list jty) : logr :=
  {| l_idx := 0; l_addr := None;
     l_topics := keccak256 (canon_sig name js) :: repeat [] (length (filter j_indexed js));
     l_data := []; l_scan := Panic |}.

(* two environments logWithCtx.get cannot tell apart *)
Definition env_same (e1 e2 : env) : Prop := forall n, get_field e1 n = get_field e2 n.

(* ---- erasing logs from a chain ---- *)
Definition tx_keep_logs (p : logr -> bool) (t : txr) : txr :=
  {| t_hash := t_hash t; t_idx := t_idx t; t_from := t_from t; t_to := t_to t;
     t_value := t_value t; t_input := t_input t; t_type := t_type t;
     t_status := t_status t; t_gas_used := t_gas_used t; t_gas_price := t_gas_price t;
     t_eff_gas_price := t_eff_gas_price t; t_contract := t_contract t;
     t_max_prio := t_max_prio t; t_max_fee := t_max_fee t; t_nonce := t_nonce t;
     t_logs := filter p (t_logs t); t_traces := t_traces t |}.
Definition block_keep_logs (p : logr -> bool) (b : blockr) : blockr :=
  {| b_hash := b_hash b; b_num := b_num b; b_time := b_time b;
     b_txs := map (tx_keep_logs p) (b_txs b) |}.
Definition keep_logs (p : logr -> bool) (blocks : list blockr) : list blockr :=
  map (block_keep_logs p) blocks.

(* ---- what the composed statement says about ONE log of the chain ---------
   [rs] = the rows this log contributes to Insert's result, for the
   integration built from (ig, name, xs, ...):
   - not a log of the declared event: nothing;
   - a log of the declared event whose data is the ABI encoding of values
     [vs] of the declared types (anything may follow): the candidate rows of
     C11's end-to-end statement ([row_spec_v]), the accepted ones in order;
   - a log of the declared event without data: rows as [row_spec] says. *)
Definition log_contribution (name : bytes) (xs : list tin) (d : decl) (e : env) (l : logr)
           (rs : list (list gval)) : Prop :=
  (rs <> [] -> declared_log name (map tin_jty xs) l) /\
  (~ declared_log name (map tin_jty xs) l -> rs = []) /\
  (declared_log name (map tin_jty xs) l ->
     (forall vs rest,
        Forall2 has_type (decl_fields (map tin_jty xs) 0) vs ->
        l_data l = enc (tins_type xs) (VTuple vs) ++ rest -> l_data l <> [] ->
        N.of_nat (length (l_data l)) < 2 ^ 63 ->
        exists cands,
          length cands = arr_rows xs vs /\ rs = concat (map emit cands) /\
          forall i c, nth_error cands i = Some c -> row_spec_v d xs vs e l i (fst c)) /\
     (l_data l = [] -> forall r, In r rs -> row_spec d e l None [] r)).

(* ---- the concrete pair: Transfer / Approval (same layout, other name) ---- *)
Definition erc20_inputs (c1 c2 c3 : bytes) : list tin :=
  [ {| tn_indexed := true; tn_name := EAddress; tn_dims := []; tn_column := c1; tn_filter := no_filter |};
    {| tn_indexed := true; tn_name := EAddress; tn_dims := []; tn_column := c2; tn_filter := no_filter |};
    {| tn_indexed := false; tn_name := EUint 256; tn_dims := []; tn_column := c3; tn_filter := no_filter |} ].
Definition transfer_sig : bytes := str "Transfer(address,address,uint256)".
Definition approval_sig : bytes := str "Approval(address,address,uint256)".
Definition transfer_topic : bytes :=
  decode_hex (str "ddf252ad1be2c89b69c2b068fc378daa952ba7f163c4a11628f55a4df523b3ef").
Definition approval_topic : bytes :=
  decode_hex (str "8c5be1e5ebec7d5bd14f71427d1e84f3dd0314c0f7b2291e5b200ac8c7c3b925").

(* a Transfer integration: columns f, t, v; block data log_idx *)
Definition ex_transfer : evdecl :=
  tin_evdecl (s2b "erc20") (str "Transfer") (erc20_inputs (s2b "f") (s2b "t") (s2b "v"))
             [{| bd_name := s2b "log_idx"; bd_column := s2b "log_idx"; bd_filter := no_filter |}]
             [s2b "f"; s2b "t"; s2b "v"; s2b "log_idx"] [].
(* the Approval integration over the same table *)
Definition ex_approval : evdecl :=
  tin_evdecl (s2b "erc20a") (str "Approval") (erc20_inputs (s2b "f") (s2b "t") (s2b "v"))
             [{| bd_name := s2b "log_idx"; bd_column := s2b "log_idx"; bd_filter := no_filter |}]
             [s2b "f"; s2b "t"; s2b "v"; s2b "log_idx"] [].
Definition ex_addr (x : N) : bytes := repeat 0 31 ++ [x].
Definition ex_erc20_log (idx : N) (topic0 : bytes) (v : N) : logr :=
  {| l_idx := idx; l_addr := Some []; l_topics := [topic0; ex_addr 1; ex_addr 2];
     l_data := word_of_N v; l_scan := Panic |}.
Definition ex_erc20_tx (logs : list logr) : txr :=
  {| t_hash := None; t_idx := 0; t_from := None; t_to := None; t_value := 0; t_input := None;
     t_type := 0; t_status := 1; t_gas_used := 0; t_gas_price := 0; t_eff_gas_price := 0;
     t_contract := None; t_max_prio := 0; t_max_fee := 0; t_nonce := 0;
     t_logs := logs; t_traces := [] |}.
Definition ex_erc20_chain : list blockr :=
  [ {| b_hash := None; b_num := 1; b_time := 0;
       b_txs := [ex_erc20_tx [ex_erc20_log 0 approval_topic 5; ex_erc20_log 1 transfer_topic 7;
                              ex_erc20_log 2 approval_topic 9]] |} ].
Definition ex_ctx : ctxr := {| c_src := []; c_chain := 0 |}.
