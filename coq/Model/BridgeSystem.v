(* Bridge: whole-system composition.
     configuration --(C20: Manager.load_tasks)--> loaded tasks
       --(C04: TaskSys, interleaved system of tasks)--> tables
       --(C01 bridge rows->task, C11: Rows.insert)--> declared rows.
   Definitions only; proofs in Proofs/BridgeSystemP.v; statements at the end
   of Properties/C04.v.

   * [world]: everything the configuration does not decide.  Names become the
     task layer's ids through [w_enc]; the fields of a task configuration
     loadTasks does not decide are [w_id .. w_uniq] (= the [rest] of
     Proofs/BridgeManagerTaskP.to_tcfg); every integration NAME has one
     declaration [w_decl] (an integration running on several sources has one
     task per source, all with that declaration); every source NAME has one
     canonical chain of rows-level blocks [w_raw] (growth only: every version
     the node serves is a prefix of it); [w_dbs] is the fixed content of the
     tables filter references look into.

   * The task (source s, integration i) reads the chain
        sys_chain w t = inst_chain (w_decl i) (ctx of s) w_dbs
                                   (chain_with_scan (w_decl i) (w_raw s)):
     the blocks of ITS source, every log carrying the decoding of its data by
     ITS integration's event ABI (RowsAbi.chain_with_scan), every block's
     task-level rows being the keyed rows ITS declaration emits.  Two tasks of
     one source see the same raw blocks and different [b_rows].

   * In TaskSys the world answers every operation through the schedule, so
     "task t reads sys_chain w t" is a predicate on the schedule:
     [sched_growth ch]: like TaskSpec.sched_ok, with [growth_reply (ch c)] in
     place of [reply_ok] for the task of configuration c.  Crashes, injected
     faults on any operation, failed partitions and forced dependency
     readings remain allowed. *)
From Coq Require Import String List NArith Bool.
From Shovel Require Import Base.Outcome.
From Shovel Require Model.Manager Model.Hex Model.Filter Model.Rows Model.AbiParse Model.RowsAbi.
From Shovel Require Import Model.TaskTypes Model.TaskDb Model.Task Model.TaskNode Model.TaskSys
  Model.TaskSpec Model.BridgeRowsTask.
Import ListNotations.
Open Scope N_scope.

(* ================= task layer: per-task growth schedules ================= *)

(* the answer given to the op a task is about to issue is an answer of a node
   serving (a prefix of) THAT task's canonical chain [ch (ts_cfg t)] *)
Definition move_growth (ch : tcfg -> chain) (st : sys) (m : N * ans) : Prop :=
  snd m = ACrash \/
  forall t, In t (s_tasks st) -> t_id (ts_cfg t) = fst m ->
    match ts_prog t with
    | Some (Op i k) =>
        growth_reply (t_hashes (ts_cfg t)) (ch (ts_cfg t)) i
                     (snd (step_op (t_uniq (ts_cfg t)) (s_db st) (ts_cs t) i (snd m)))
    | _ => True
    end.
Fixpoint sched_growth (ch : tcfg -> chain) (sch : list (N * ans)) (st : sys) : Prop :=
  match sch with
  | [] => True
  | m :: r => move_growth ch st m /\ sched_growth ch r (sys_step st m)
  end.

(* every (source, integration) pair of the database belongs to one of [cfgs] *)
Definition owned_by (cfgs : list tcfg) (d : db) : Prop :=
  (forall r, In r (d_rows d) -> In (r_src r, r_ig r) (map pair_of cfgs))
  /\ (forall x, In x (d_curs d) -> In (c_src x, c_ig x) (map pair_of cfgs)).

(* a schedule generator: who moves, and whether the world answers honestly
   (database answers itself, node answers from the task's chain), kills the
   process, or injects a fault on the operation *)
Inductive inject := Honest | Crash | Fault (k : fkind).
Definition honest_ans (ch : tcfg -> chain) (st : sys) (tid : N) : ans :=
  match find (fun t => t_id (ts_cfg t) =? tid) (s_tasks st) with
  | Some t =>
      match ts_prog t with
      | Some (Op i _) =>
          if is_db_op i then AAuto else AReply (honest (t_hashes (ts_cfg t)) (ch (ts_cfg t)) i)
      | _ => AAuto
      end
  | None => AAuto
  end.
Definition inj_ans (ch : tcfg -> chain) (st : sys) (tid : N) (j : inject) : ans :=
  match j with Honest => honest_ans ch st tid | Crash => ACrash | Fault k => AReply (RFail k) end.
Fixpoint gen_sched (ch : tcfg -> chain) (who : list (N * inject)) (st : sys) : list (N * ans) :=
  match who with
  | [] => []
  | (tid, j) :: r =>
      let m := (tid, inj_ans ch st tid j) in m :: gen_sched ch r (sys_step st m)
  end.

(* ================= the system a configuration defines ================= *)
Record world := World {
  w_enc : Manager.name -> N;                 (* names -> ids of the task layer *)
  w_id : Manager.task -> N;                  (* connection / trace id *)
  w_tbl : Manager.task -> N;                 (* destination table *)
  w_deps : Manager.task -> list N;           (* integrations referenced by filters *)
  w_hashes : Manager.task -> bool;
  w_uniq : Manager.task -> bool;
  w_decl : Manager.name -> Rows.decl;        (* integration name -> its declaration *)
  w_dbs : Filter.db;                         (* tables filter references look into *)
  w_raw : Manager.name -> list Rows.blockr   (* source name -> its canonical chain *)
}.

(* = BridgeManagerTaskP.to_tcfg (w_enc w) (fun t => {| x_id := w_id w t; .. |}) t *)
Definition sys_cfg (w : world) (t : Manager.task) : tcfg :=
  Task (w_id w t) (w_enc w (Manager.t_src t)) (w_enc w (Manager.t_ig t)) (w_tbl w t)
       (Manager.t_start t) (Manager.t_stop t) (Manager.t_batch t) (Manager.t_conc t)
       (w_deps w t) (w_hashes w t) (w_uniq w t).
Definition sys_cfgs (w : world) (ts : list Manager.task) : list tcfg := map (sys_cfg w) ts.

Definition sys_decl (w : world) (t : Manager.task) : Rows.decl := w_decl w (Manager.t_ig t).
Definition sys_ctx (t : Manager.task) : Rows.ctxr :=
  {| Rows.c_src := Manager.t_src t; Rows.c_chain := Manager.t_chain t |}.
(* the source's blocks as this task's integration decodes them *)
Definition sys_rchain (w : world) (t : Manager.task) : list Rows.blockr :=
  RowsAbi.chain_with_scan (sys_decl w t) (w_raw w (Manager.t_src t)).
Definition sys_chain (w : world) (t : Manager.task) : chain :=
  inst_chain (sys_decl w t) (sys_ctx t) (w_dbs w) (sys_rchain w t).

(* the chain of the loaded task that has the pair of configuration [c] *)
Definition chain_of (w : world) (ts : list Manager.task) (c : tcfg) : chain :=
  match find (fun t => pair_eqb (pair_of (sys_cfg w t)) (pair_of c)) ts with
  | Some t => sys_chain w t
  | None => []
  end.

(* what the theorems need of the world, for the loaded tasks: numbers far
   below 2^63, no integration references itself, every source's chain is
   numbered from 0 with non-empty hashes and short, and Integration.Insert
   returns Ok on each of its blocks (otherwise the step fails, nothing is
   stored) *)
Definition world_ok (w : world) (ts : list Manager.task) : Prop :=
  forall t, In t ts ->
    Manager.t_batch t + Manager.t_conc t < nmax /\ Manager.t_start t < nmax /\ Manager.t_stop t < nmax
    /\ ~ In (w_enc w (Manager.t_ig t)) (w_deps w t)
    /\ rows_chain_wf (w_raw w (Manager.t_src t))
    /\ N.of_nat (length (w_raw w (Manager.t_src t))) < nmax
    /\ inserts_ok (sys_decl w t) (sys_ctx t) (w_dbs w) (sys_rchain w t).

Definition sys_start (w : world) (ts : list Manager.task) : sys := sys_init (sys_cfgs w ts) (Db [] []).

(* the pair's table is the declared projection of a contiguous range of the
   source's blocks ending at the recorded position (the conclusion of C01's
   growth_table_is_declared_projection, for task [t] of the system) *)
Definition declared_projection_of (w : world) (t : Manager.task) (d : db) : Prop :=
  let c := sys_cfg w t in
  (d_rows (pv c d) = [] /\ d_curs (pv c d) = [])
  \/ exists m k n h rows,
       1 <= k /\ m + k <= N.of_nat (length (w_raw w (Manager.t_src t)))
       /\ newest (t_src c) (t_ig c) (d_curs d) = Some (n, h) /\ n + 1 = m + k
       /\ d_rows (pv c d)
          = concat (map (declared_rows c (sys_decl w t) (sys_ctx t) (w_dbs w)) (rsegment (sys_rchain w t) m k))
       /\ Rows.insert Rows.fixed (sys_decl w t) (sys_ctx t) (w_dbs w) (rsegment (sys_rchain w t) m k) = Ok rows
       /\ map r_val (d_rows (pv c d)) = map enc_row rows.

(* ================= a concrete system (non-vacuity) =================
   One source "main" (chain id 1), two integrations on it:
     "a" = ex_decl of Model/BridgeRowsTask.v: event E(uint256 indexed a, uint256 v), sighash [7];
     "b" = event F(uint256 indexed x), sighash [9] (no data: rows without abi_idx).
   Raw chain: block 0 empty; block 1 = tx 0 with log 0 (E: a=5, v=9) and
   log 1 (F: x=11); block 2 = tx 3 with log 4 (F: x=12) and log 5 (E: a=6, v=10). *)
Definition ex2_tins : list RowsAbi.tin :=
  [ {| RowsAbi.tn_indexed := true; RowsAbi.tn_name := AbiParse.EUint 256; RowsAbi.tn_dims := [];
       RowsAbi.tn_column := Filter.s2b "x"; RowsAbi.tn_filter := Filter.no_filter |} ].
Definition ex2_decl : Rows.decl :=
  {| Rows.d_name := Filter.s2b "ig2"; Rows.d_inputs := map RowsAbi.tin_input ex2_tins;
     Rows.d_block := [ex_bd (Filter.s2b "block_num"); ex_bd (Filter.s2b "tx_idx"); ex_bd (Filter.s2b "log_idx")];
     Rows.d_table_cols := [Filter.s2b "x"; Filter.s2b "block_num"; Filter.s2b "tx_idx"; Filter.s2b "log_idx"];
     Rows.d_agg := []; Rows.d_sighash := [9] |}.
Definition ex2_log (idx x : N) : Rows.logr :=
  {| Rows.l_idx := idx; Rows.l_addr := Some []; Rows.l_topics := [[9]; Rows.word_of_N x];
     Rows.l_data := []; Rows.l_scan := Panic |}.
Definition ex_sys_raw : list Rows.blockr :=
  [ {| Rows.b_hash := Some [1]; Rows.b_num := 0; Rows.b_time := 0; Rows.b_txs := [] |};
    {| Rows.b_hash := Some [2]; Rows.b_num := 1; Rows.b_time := 0;
       Rows.b_txs := [ex_tx 0 [ex_log 0 5 9; ex2_log 1 11]] |};
    {| Rows.b_hash := Some [3]; Rows.b_num := 2; Rows.b_time := 0;
       Rows.b_txs := [ex_tx 3 [ex2_log 4 12; ex_log 5 6 10]] |} ].

Definition nm (s : String.string) : Manager.name := Filter.s2b s.
Definition ex_world : world :=
  {| w_enc := hid;
     w_id := fun t => match Manager.t_ig t with [97] => 1 | _ => 2 end;
     w_tbl := fun t => match Manager.t_ig t with [97] => 3 | _ => 4 end;
     w_deps := fun _ => [];
     w_hashes := fun _ => true;
     w_uniq := fun _ => true;
     w_decl := fun n => match n with [97] => ex_decl | _ => ex2_decl end;
     w_dbs := [];
     w_raw := fun _ => ex_sys_raw |}.
Definition ex_file_srcs : list Manager.source :=
  [ {| Manager.s_name := nm "main"; Manager.s_url := nm "u"; Manager.s_chain := 1;
       Manager.s_poll := 0; Manager.s_conc := 0; Manager.s_batch := 0 |} ].
Definition ex_file_igs : list Manager.integration :=
  [ {| Manager.i_name := nm "a"; Manager.i_enabled := true;
       Manager.i_refs := [ {| Manager.r_name := nm "main"; Manager.r_start := 1; Manager.r_stop := 0 |} ] |};
    {| Manager.i_name := nm "b"; Manager.i_enabled := true;
       Manager.i_refs := [ {| Manager.r_name := nm "main"; Manager.r_start := 1; Manager.r_stop := 0 |} ] |} ].
Definition ex_loaded : list Manager.task :=
  match Manager.load_tasks ex_file_srcs [] ex_file_igs [] with Ok ts => ts | _ => [] end.

(* who moves: the two tasks alternate, op by op; task 2 gets an injected
   error on one operation, and the process dies once in the middle *)
Fixpoint alternate (n : nat) : list (N * inject) :=
  match n with O => [] | S k => (1, Honest) :: (2, Honest) :: alternate k end.
Definition ex_who : list (N * inject) :=
  alternate 7 ++ [(2, Fault KErr)] ++ alternate 5 ++ [(1, Crash)] ++ alternate 60.
Definition ex_sched : list (N * ans) :=
  gen_sched (chain_of ex_world ex_loaded) ex_who (sys_start ex_world ex_loaded).

(* the two loaded tasks of the concrete system *)
Definition ex_ta : Manager.task := nth 0 ex_loaded (Manager.Build_task [] [] [] 0 0 0 0 0 0).
Definition ex_tb : Manager.task := nth 1 ex_loaded (Manager.Build_task [] [] [] 0 0 0 0 0 0).

(* the premise is needed: C04's [sched_ok] alone (any correctly NUMBERED
   reply) does not give the conclusion.  Witness: a node that answers task
   "a" from the chain instantiated with the declaration of "b" and vice versa *)
Definition ex_swapped (c : tcfg) : chain :=
  if t_id c =? 1 then sys_chain ex_world ex_tb else sys_chain ex_world ex_ta.
Definition ex_swapped_sched : list (N * ans) :=
  gen_sched ex_swapped (alternate 60) (sys_start ex_world ex_loaded).
Definition projection_from_sched_ok : Prop :=
  forall w fs ds fi di ts sch,
    (forall a b, w_enc w a = w_enc w b -> a = b) ->
    Manager.load_tasks fs ds fi di = Ok ts -> world_ok w ts ->
    sched_ok sch (sys_start w ts) ->
    forall t, In t ts -> declared_projection_of w t (s_db (sys_run sch (sys_start w ts))).
