(* C14 — model of shovel/glf/filter.go (any, difference, New), parametrised by
   the five tables and by the sequence of if-blocks of New (both regenerated
   from the source into Gen/GlfTables.v on every run), and of the dispatch of
   jrpc2.Client.Get (which fetches the flags lead to).  Definitions only. *)
From Coq Require Import List String Bool.
Import ListNotations.
Open Scope string_scope.

(* ---- the tables *)
Record tables := mkTables {
  t_header : list string; t_block : list string; t_receipt : list string;
  t_log : list string; t_trace : list string }.
Inductive tname := THeader | TBlock | TReceipt | TLog | TTrace.
Definition table (T : tables) (n : tname) : list string :=
  match n with
  | THeader => t_header T | TBlock => t_block T | TReceipt => t_receipt T
  | TLog => t_log T | TTrace => t_trace T
  end.

(* ---- any / difference *)
Definition mem (x : string) (l : list string) : bool := existsb (String.eqb x) l.
(* func any(a, b []string) bool *)
Definition any (a b : list string) : bool := existsb (fun x => mem x b) a.
(* func difference(ours []string, others ...[]string) []string *)
Definition difference (ours : list string) (others : list (list string)) : list string :=
  filter (fun x => negb (existsb (mem x) others)) ours.

(* ---- New: a sequence of
     if any(needs, difference(base, minus...)) { f.Use<flag> = true; needs = difference(needs, remove) } *)
Inductive flag := FHeaders | FBlocks | FReceipts | FLogs | FTraces.
Record step := mkStep { st_base : tname; st_minus : list tname; st_flag : flag; st_remove : tname }.
Record flags := mkFlags { use_headers : bool; use_blocks : bool; use_receipts : bool; use_logs : bool; use_traces : bool }.
Definition no_flags : flags := mkFlags false false false false false.
Definition set_flag (fl : flags) (f : flag) : flags :=
  match f with
  | FHeaders => mkFlags true (use_blocks fl) (use_receipts fl) (use_logs fl) (use_traces fl)
  | FBlocks => mkFlags (use_headers fl) true (use_receipts fl) (use_logs fl) (use_traces fl)
  | FReceipts => mkFlags (use_headers fl) (use_blocks fl) true (use_logs fl) (use_traces fl)
  | FLogs => mkFlags (use_headers fl) (use_blocks fl) (use_receipts fl) true (use_traces fl)
  | FTraces => mkFlags (use_headers fl) (use_blocks fl) (use_receipts fl) (use_logs fl) true
  end.

Definition step_set (T : tables) (st : step) : list string :=
  difference (table T (st_base st)) (map (table T) (st_minus st)).

Fixpoint run_steps (T : tables) (steps : list step) (needs : list string) (fl : flags) : flags :=
  match steps with
  | [] => fl
  | st :: r =>
      if any needs (step_set T st)
      then run_steps T r (difference needs [table T (st_remove st)]) (set_flag fl (st_flag st))
      else run_steps T r needs fl
  end.
Definition new (T : tables) (steps : list step) (needs : list string) : flags :=
  run_steps T steps needs no_flags.

(* ---- Client.Get: which requests the flags lead to.
   First switch: blocks | headers | bare numbers.  Then receipts | logs (first
   match).  Traces: as repaired (fixes/C14-2) in addition to receipts/logs; as
   found only when neither receipts nor logs were chosen. *)
Inductive fetch := GNumbers | GHeaders | GBlocks | GReceipts | GLogs | GTraces.
Definition fetch_eqb (a b : fetch) : bool :=
  match a, b with
  | GNumbers, GNumbers | GHeaders, GHeaders | GBlocks, GBlocks
  | GReceipts, GReceipts | GLogs, GLogs | GTraces, GTraces => true
  | _, _ => false
  end.
Definition dispatch_fx (traces_too : bool) (fl : flags) : list fetch :=
  [if use_blocks fl then GBlocks else if use_headers fl then GHeaders else GNumbers]
  ++ (if use_receipts fl then [GReceipts] else if use_logs fl then [GLogs] else [])
  ++ (if use_traces fl
      then (if traces_too || negb (use_receipts fl || use_logs fl) then [GTraces] else [])
      else []).
Definition dispatch := dispatch_fx true.
Definition legacy_dispatch := dispatch_fx false.

(* ---- the same as DATA (Gen/GetDispatch.v, regenerated from the source of Client.Get):
   a sequence of choice groups; a group is the ordered cases of one switch (or a
   single if); the first case whose guard holds contributes its requests.
   A guard is a list of flags (any of them; `case a, b:`), None = default. *)
Record dcase := mkDcase { dc_guard : option (list flag); dc_fetch : list fetch }.
Definition flag_on (fl : flags) (f : flag) : bool :=
  match f with
  | FHeaders => use_headers fl | FBlocks => use_blocks fl | FReceipts => use_receipts fl
  | FLogs => use_logs fl | FTraces => use_traces fl
  end.
Definition guard_holds (fl : flags) (c : dcase) : bool :=
  match dc_guard c with None => true | Some fs => existsb (flag_on fl) fs end.
Definition dispatch_of (groups : list (list dcase)) (fl : flags) : list fetch :=
  flat_map (fun g => match find (guard_holds fl) g with Some c => dc_fetch c | None => [] end) groups.

(* ---- the names the row builder understands (Gen/GetFields.v) *)
Inductive iclass := ICtx | IHeader | ITx | IReceipt | ILog | ITrace.
Record field := mkField { f_name : string; f_class : iclass; f_acc : string }.

(* indexing modes of dig.Integration: one row per transaction / log / trace *)
Inductive mode := MTx | MLog | MTrace.

(* config.AddRequiredFields: names added to the declared block fields *)
Definition trace_prefixed (s : string) : bool := String.prefix "trace_" s.
Definition required_b (m : mode) (has_trace : bool) : list string :=
  ["ig_name"; "src_name"; "block_num"; "tx_idx"]
  ++ (match m with MLog => ["log_idx"] | _ => [] end)
  ++ (if has_trace then ["trace_action_idx"] else []).
Definition required (m : mode) (S : list string) : list string := required_b m (existsb trace_prefixed S).

(* ---- the same computation over membership signatures: an element is
   represented by the list of booleans "is it in header / block / receipt / log / trace" *)
Definition all_tnames : list tname := [THeader; TBlock; TReceipt; TLog; TTrace].
Definition tidx (n : tname) : nat :=
  match n with THeader => 0 | TBlock => 1 | TReceipt => 2 | TLog => 3 | TTrace => 4 end.
Definition sig (T : tables) (x : string) : list bool := map (fun n => mem x (table T n)) all_tnames.
Definition sig_in (s : list bool) (n : tname) : bool := nth (tidx n) s false.

Section Generic.
  Variable E : Type.
  Variable inT : E -> tname -> bool.
  Definition in_step (st : step) (e : E) : bool :=
    inT e (st_base st) && negb (existsb (inT e) (st_minus st)).
  Fixpoint grun (steps : list step) (needs : list E) (fl : flags) : flags :=
    match steps with
    | [] => fl
    | st :: r =>
        if existsb (in_step st) needs
        then grun r (filter (fun e => negb (inT e (st_remove st))) needs) (set_flag fl (st_flag st))
        else grun r needs fl
    end.
End Generic.
