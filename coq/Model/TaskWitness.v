(* Task layer: concrete scenarios -- the witnesses of the four defects of the
   pinned code (replayed on the implementation by the Go drivers) and the
   non-vacuity examples of the theorems.  Definitions only. *)
From Coq Require Import List NArith Bool.
From Shovel Require Import Model.TaskTypes Model.TaskDb Model.Task Model.TaskNode Model.TaskSys
  Model.TaskSpec.
Import ListNotations.
Open Scope N_scope.

(* block n of fork [tag] has hash tag*1000+n; blocks at or above [fork] belong
   to [tag], below to tag 1; one row (key 1, val = hash) per block *)
Fixpoint mk_blocks (fuel : nat) (n : N) (tag fork : N) (ph : N) : list blk :=
  match fuel with
  | O => []
  | S f => let h := (if fork <=? n then tag else 1) * 1000 + n in
           Blk n h ph [(1, h)] :: mk_blocks f (n + 1) tag fork h
  end.
Definition mk_chain (tag fork len : N) : chain := mk_blocks (N.to_nat len) 0 tag fork 999.

Definition chainA : chain := mk_chain 1 0 7.     (* blocks 0..6 *)
Definition chainB : chain := mk_chain 2 4 8.     (* forks below block 4, blocks 0..7 *)

Definition wcfg (batch conc : N) : tcfg := Task 1 1 2 3 1 0 batch conc [] true true.

(* a fault-free step against an honest node serving [ch] *)
Definition hstep (v : variant) (c : tcfg) (ch : chain) (d : db) : res :=
  exec_honest 400 (t_uniq c) (t_hashes c) ch (converge_v v c) d None.
Fixpoint hsteps (v : variant) (c : tcfg) (chs : list chain) (d : db) : db * list result :=
  match chs with
  | [] => (d, [])
  | ch :: r => let x := hstep v c ch d in
               let '(d', os) := hsteps v c r (r_db x) in (d', r_out x :: os)
  end.

(* I1 as a boolean: no row of the pair beyond its newest cursor (none at all
   without a cursor) *)
Definition i1b (c : tcfg) (d : db) : bool :=
  match newest (t_src c) (t_ig c) (d_curs d) with
  | None => match filter (row_of (t_src c) (t_ig c)) (d_rows d) with [] => true | _ => false end
  | Some (n, _) => forallb (fun r => r_bnum r <=? n) (filter (row_of (t_src c) (t_ig c)) (d_rows d))
  end.

(* ---- defect 1 (C01): batch < conc ---- *)
Definition w1_cfg : tcfg := wcfg 1 4.
Definition w1_run (v : variant) : res := hstep v w1_cfg chainA (Db [] []).

(* ---- defect 2 (C02/C03): reorg with batch > 1 ---- *)
Definition w2_cfg : tcfg := wcfg 3 1.
Definition w2_run (v : variant) : db * list result :=
  hsteps v w2_cfg [chainA; chainA; chainB; chainB; chainB] (Db [] []).
(* the same with a table that has no unique index: duplicates instead of a stuck task *)
Definition w2_cfg_nouniq : tcfg := Task 1 1 2 3 1 0 3 1 [] true false.
Definition w2_run_nouniq (v : variant) : db * list result :=
  hsteps v w2_cfg_nouniq [chainA; chainA; chainB; chainB; chainB] (Db [] []).

(* ---- defect 3 (C03): two partitions served from different versions ---- *)
Definition chainC : chain := mk_chain 3 1 4.     (* forks below block 1 *)
Definition w3_cfg : tcfg := wcfg 2 2.
Definition w3_segs : list segres :=
  [SegOk (segment chainA 1 1); SegOk (segment chainC 2 1)].
(* script of one step: Begin, QLatest, RHash 0, RLatest 0, RGet (skewed), then the database *)
Definition w3_script : list ans :=
  [AAuto; AAuto; AReply (RHashV 1000); AReply (RHead 3 3003); AReply (RSegs w3_segs);
   AAuto; AAuto; AAuto; AAuto; AAuto; AAuto].
Definition w3_run (v : variant) : res := step_v v w3_cfg w3_script (Db [] []).
Definition w3_ghost_linked (d : db) : bool :=
  (* block 2's row came from version C whose parent is not block 1 of version A *)
  negb (existsb (fun r => (r_bnum r =? 2) && (r_val r =? 3002)) (d_rows d)).

(* ---- defect 4 (C05): a dependency that has not started ---- *)
Definition w4_cfg : tcfg := Task 9 1 4 3 1 0 1 1 [2; 3] true true.
(* integration 2 is at block 5, integration 3 has no cursor *)
Definition w4_db : db := Db [Cur 1 2 5 1005] [].
Definition w4_run (v : variant) : res := hstep v w4_cfg chainA w4_db.
