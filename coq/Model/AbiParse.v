(* C09: transcription of Input.ABIType, parseArray and Event.ABIType (dig.go)
   over byte strings, as REPAIRED by fixes/C09-parsearray-digit-order.diff and
   fixes/C09-bytes-array-dynamic.diff.  The behaviour before the repairs is kept
   as [legacy_*] below (parameter [lg] of the two functions that changed).

   An ABI JSON input is (indexed, type string, components, has-a-column).
   Go run-time panics (index/slice out of range in parseArray, Atoi failure) are
   [Panic]; [Err] is used ONLY for exhausted recursion fuel (the Go functions
   have no error return). *)
From Coq Require Import String Ascii.
From Coq Require Import List NArith Bool.
From Shovel Require Import Base.Outcome Model.AbiType.
Import ListNotations.
Open Scope N_scope.

Definition str (s : string) : bytes := map N_of_ascii (list_ascii_of_string s).
Definition LBR : N := 91.  (* '[' *)
Definition RBR : N := 93.  (* ']' *)

Inductive inp := Inp (indexed : bool) (ty : bytes) (comps : list inp) (col : bool).
Record event := mkevent { ev_name : bytes; ev_inputs : list inp }.

Definition i_indexed (i : inp) : bool := match i with Inp x _ _ _ => x end.
Definition i_ty (i : inp) : bytes := match i with Inp _ x _ _ => x end.
Definition i_comps (i : inp) : list inp := match i with Inp _ _ x _ => x end.
Definition i_col (i : inp) : bool := match i with Inp _ _ _ x => x end.

(* strings.HasPrefix *)
Fixpoint has_prefix (p s : bytes) : bool :=
  match p, s with
  | [], _ => true
  | a :: p', b :: s' => (a =? b) && has_prefix p' s'
  | _ :: _, [] => false
  end.
(* strings.Contains(s, "<one byte>") *)
Definition contains_byte (c : N) (s : bytes) : bool := existsb (N.eqb c) s.
(* the part before the first [c] (strings.Cut) *)
Fixpoint cut_before (c : N) (s : bytes) : bytes :=
  match s with
  | [] => []
  | x :: r => if x =? c then [] else x :: cut_before c r
  end.
Fixpoint take_while_ne (c : N) (s : bytes) : bytes :=
  match s with
  | [] => []
  | x :: r => if x =? c then [] else x :: take_while_ne c r
  end.
(* strings.TrimPrefix / TrimSuffix (used by the legacy test only) *)
Definition trim_prefix (p s : bytes) : bytes := if has_prefix p s then skipn (length p) s else s.
Definition trim_suffix (p s : bytes) : bytes :=
  if has_prefix (rev p) (rev s) then firstn (length s - length p) s else s.

(* strconv.Atoi on an unsigned decimal; anything else makes parseArray panic
   (a leading sign, which Atoi would accept, is outside every type string) *)
Definition atoi (s : bytes) : option N :=
  match s with
  | [] => None
  | _ => fold_left (fun acc c =>
                      match acc with
                      | Some n => if (48 <=? c) && (c <=? 57) then Some (n * 10 + (c - 48)) else None
                      | None => None
                      end) s (Some 0)
  end.

(* parseArray(elm, s).  [lg = true] is the code before the repair: the digits
   of the length are collected back to front. *)
Fixpoint parse_array (lg : bool) (fuel : nat) (elm : aty) (s : bytes) : outcome aty :=
  match fuel with
  | O => Err
  | S fuel' =>
      if negb (contains_byte RBR s) then Ok elm else
      match s with
      | [_] => Panic                                   (* i = -1: s[-1] *)
      | _ =>
          (* for i := len(s)-2; i != 0; i-- { if s[i] == '[' { break }; num = s[i] + num } *)
          let back := take_while_ne LBR (rev (removelast (tl s))) in
          let num := if lg then back else rev back in
          match num with
          | [] => do e <- parse_array lg fuel' elm (firstn (length s - 2) s); Ok (TArr 0 e)
          | _ =>
              match atoi num with
              | None => Panic
              | Some k =>
                  do e <- parse_array lg fuel' elm (firstn (length s - length num - 2) s);
                  Ok (TArr k e)
              end
          end
      end
  end.

(* the base type of a leaf input.  [lg = true]: the test before the repair,
   TrimSuffix(TrimPrefix(type, "bytes"), "[") == "" *)
Definition leaf_dynamic (lg : bool) (ty : bytes) : bool :=
  if has_prefix (str "bytes") ty then
    if lg then
      match trim_suffix [LBR] (trim_prefix (str "bytes") ty) with [] => true | _ => false end
    else list_eqb N.eqb (cut_before LBR ty) (str "bytes")
  else has_prefix (str "string") ty.

(* Input.ABIType(pos) *)
Fixpoint abi_type (lg : bool) (i : inp) (pos : nat) {struct i} : outcome (nat * aty) :=
  match i with
  | Inp _ ty comps col =>
      do pb <- match comps with
               | _ :: _ =>
                   do r <- (fix go (l : list inp) (p : nat) : outcome (nat * list aty) :=
                              match l with
                              | [] => Ok (p, [])
                              | c :: l' =>
                                  do x <- abi_type lg c p;
                                  do y <- go l' (fst x);
                                  Ok (fst y, snd x :: snd y)
                              end) comps pos;
                   (* base.sel on a tuple node is never read; only pos++ is visible *)
                   Ok (if col then S (fst r) else fst r, TTuple (snd r))
               | [] =>
                   let sel := if col then Some pos else None in
                   Ok (if col then S pos else pos,
                       if leaf_dynamic lg ty then TDyn sel else TWord sel)
               end;
      do t <- parse_array lg (S (length ty)) (snd pb) ty;
      Ok (fst pb, t)
  end.

(* Event.ABIType(): the tuple of the non-indexed inputs *)
Fixpoint event_fields (lg : bool) (l : list inp) (pos : nat) : outcome (list aty) :=
  match l with
  | [] => Ok []
  | i :: l' =>
      if i_indexed i then event_fields lg l' pos else
      do x <- abi_type lg i pos;
      do r <- event_fields lg l' (fst x);
      Ok (snd x :: r)
  end.
Definition event_type (lg : bool) (e : event) : outcome aty :=
  do fs <- event_fields lg (ev_inputs e) 0; Ok (TTuple fs).

(* ---- the JSON a Solidity compiler emits for a type ------------------------- *)
(* elementary names *)
Inductive ename :=
| EUint (bits : N) | EInt (bits : N) | EAddress | EBool | EBytesN (n : N) | EFunction
| EBytes | EString.

(* decimal printing *)
Fixpoint digits_fuel (fuel : nat) (n : N) : bytes :=
  match fuel with
  | O => []
  | S f => if n <? 10 then [48 + n] else digits_fuel f (n / 10) ++ [48 + n mod 10]
  end.
Definition digits (n : N) : bytes := digits_fuel (S (N.to_nat (N.log2 n))) n.

Definition ename_str (n : ename) : bytes :=
  match n with
  | EUint b => str "uint" ++ digits b
  | EInt b => str "int" ++ digits b
  | EAddress => str "address"
  | EBool => str "bool"
  | EBytesN k => str "bytes" ++ digits k
  | EFunction => str "function"
  | EBytes => str "bytes"
  | EString => str "string"
  end.
Definition ename_dynamic (n : ename) : bool :=
  match n with EBytes | EString => true | _ => false end.

(* array suffixes as written, innermost first: T[3][] = dims [3; 0] *)
Definition dim_str (k : N) : bytes := [LBR] ++ (if k =? 0 then [] else digits k) ++ [RBR].
Definition dims_str (ds : list N) : bytes := flat_map dim_str ds.

(* a type as the ABI JSON presents it: elementary or tuple base, array
   suffixes, and (leaves only) whether a column selects it *)
Inductive jty :=
| JElem (indexed : bool) (n : ename) (sel : bool) (dims : list N)
| JTuple (indexed : bool) (comps : list jty) (dims : list N).

Fixpoint json_of (j : jty) : inp :=
  match j with
  | JElem ix n sel ds => Inp ix (ename_str n ++ dims_str ds) [] sel
  | JTuple ix cs ds => Inp ix (str "tuple" ++ dims_str ds) (map json_of cs) false
  end.

Definition wrap_dims (ds : list N) (base : aty) : aty := fold_left (fun t k => TArr k t) ds base.

(* the decoder type the JSON denotes; positions count the selected leaves in order *)
Fixpoint aty_of (j : jty) (pos : nat) {struct j} : nat * aty :=
  match j with
  | JElem _ n sel ds =>
      let s := if sel then Some pos else None in
      (if sel then S pos else pos, wrap_dims ds (if ename_dynamic n then TDyn s else TWord s))
  | JTuple _ cs ds =>
      let r := (fix go (l : list jty) (p : nat) : nat * list aty :=
                  match l with
                  | [] => (p, [])
                  | c :: l' => let x := aty_of c p in let y := go l' (fst x) in (fst y, snd x :: snd y)
                  end) cs pos in
      (fst r, wrap_dims ds (TTuple (snd r)))
  end.

Definition j_indexed (j : jty) : bool := match j with JElem ix _ _ _ | JTuple ix _ _ => ix end.

(* the decoder type of a whole declaration: the tuple of its non-indexed inputs *)
Fixpoint decl_fields (js : list jty) (pos : nat) : list aty :=
  match js with
  | [] => []
  | j :: js' => if j_indexed j then decl_fields js' pos
                else let x := aty_of j pos in snd x :: decl_fields js' (fst x)
  end.
Definition decl_type (js : list jty) : aty := TTuple (decl_fields js O).

(* tuples have at least one component (Solidity has no empty structs; an input
   without components is a leaf for Input.ABIType) *)
Fixpoint wf_jty (j : jty) : bool :=
  match j with
  | JElem _ _ _ _ => true
  | JTuple _ cs _ => negb (match cs with [] => true | _ => false end) && forallb wf_jty cs
  end.
