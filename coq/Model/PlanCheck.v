(* C14 — the boolean checker over membership-signature classes (definitions
   only).  [check_plan T steps P names] enumerates every set of classes of
   field names (class = membership signature in the five tables, item class,
   "trace_" prefix), every indexing mode, and tests that every field of such a
   set is supplied by the requests that Client.Get makes for glf.New of the set
   plus the required fields.  Its soundness for ALL field sets is
   Proofs/PlanP.v: check_plan_sound. *)
From Coq Require Import List String Bool.
From Shovel Require Import Model.Plan Model.Provides.
Import ListNotations.
Open Scope string_scope.

(* a field set is selectable in a mode when every field reads an item the mode has;
   trace mode is the mode of the sets that contain a trace field *)
Definition mode_ok (m : mode) (S : list field) : Prop :=
  (forall f, In f S -> class_in_mode m (f_class f) = true)
  /\ (m = MTrace -> exists f, In f S /\ f_class f = ITrace).

(* what the integration hands to glf.New: the selected names and the required ones *)
Definition needs_of (m : mode) (S : list field) : list string :=
  map f_name S ++ required m (map f_name S).

Definition key := (list bool * iclass * bool)%type.
Definition iclass_eqb (a b : iclass) : bool :=
  match a, b with
  | ICtx, ICtx | IHeader, IHeader | ITx, ITx | IReceipt, IReceipt | ILog, ILog | ITrace, ITrace => true
  | _, _ => false
  end.
Fixpoint bools_eqb (a b : list bool) : bool :=
  match a, b with
  | [], [] => true
  | x :: a', y :: b' => Bool.eqb x y && bools_eqb a' b'
  | _, _ => false
  end.
Definition key_eqb (a b : key) : bool :=
  bools_eqb (fst (fst a)) (fst (fst b)) && iclass_eqb (snd (fst a)) (snd (fst b)) && Bool.eqb (snd a) (snd b).

Definition key_of (T : tables) (f : field) : key := (sig T (f_name f), f_class f, trace_prefixed (f_name f)).

Fixpoint nodupb (l : list key) : list key :=
  match l with
  | [] => []
  | k :: r => if existsb (key_eqb k) r then nodupb r else k :: nodupb r
  end.
Definition classes (T : tables) (names : list field) : list key := nodupb (map (key_of T) names).

Fixpoint sublists {A} (l : list A) : list (list A) :=
  match l with
  | [] => [[]]
  | x :: r => map (cons x) (sublists r) ++ sublists r
  end.

Definition is_trace (c : iclass) : bool := match c with ITrace => true | _ => false end.
Definition mode_ok_keys (m : mode) (C : list key) : bool :=
  forallb (fun k => class_in_mode m (snd (fst k))) C
  && match m with MTrace => existsb (fun k => is_trace (snd (fst k))) C | _ => true end.

Definition plan_of_keys (T : tables) (steps : list step) (m : mode) (C : list key) : flags :=
  grun (list bool) sig_in steps
       (map (fun k => fst (fst k)) C ++ map (sig T) (required_b m (existsb (fun k => snd k) C))) no_flags.

(* the first field of a class set that the requests do not supply *)
Definition bad_field (T : tables) (steps : list step) (disp : flags -> list fetch) (P : string -> list fetch)
           (names : list field) (m : mode) (C : list key) : option field :=
  if mode_ok_keys m C then
    let fs := disp (plan_of_keys T steps m C) in
    find (fun f => existsb (key_eqb (key_of T f)) C && negb (supplied_b P fs m f)) names
  else None.

Definition none_bad {A} (o : option A) : bool := match o with None => true | Some _ => false end.

Definition check_plan (T : tables) (steps : list step) (disp : flags -> list fetch) (P : string -> list fetch)
           (names : list field) : bool :=
  forallb (fun m => forallb (fun C => none_bad (bad_field T steps disp P names m C)) (sublists (classes T names)))
          [MTx; MLog; MTrace].

(* for the report: every (mode, names of the class set, offending field) that fails *)
Definition class_names (T : tables) (names : list field) (C : list key) : list string :=
  map f_name (filter (fun f => existsb (key_eqb (key_of T f)) C) names).
Definition counterexamples (T : tables) (steps : list step) (disp : flags -> list fetch) (P : string -> list fetch)
           (names : list field) : list (mode * list string * string) :=
  flat_map (fun m =>
    flat_map (fun C => match bad_field T steps disp P names m C with
                       | Some f => [(m, class_names T names C, f_name f)]
                       | None => [] end)
             (sublists (classes T names))) [MTx; MLog; MTrace].

