(* C13: an executable Keccak-256 (the pre-standard "legacy" Keccak of Ethereum:
   padding byte 0x01 ... 0x80, rate 136 bytes, capacity 512, keccak-f[1600] with
   24 rounds).  The state is 25 lanes (index x + 5*y) of 64-bit words held as
   [N]; bytes are the framework's byte lists (values below 256).  Definitions
   only; validated against eth.Keccak on every C13 run (Corr/RunC13.v, CHash). *)
From Coq Require Import List NArith Bool.
From Shovel Require Import Base.Outcome.
Import ListNotations.
Open Scope N_scope.

Definition mask64 : N := 18446744073709551615.

Definition rotl64 (x n : N) : N :=
  if n =? 0 then x else N.land (N.lor (N.shiftl x n) (N.shiftr x (64 - n))) mask64.
Definition not64 (x : N) : N := N.lxor x mask64.

Definition round_constants : list N :=
  [0x0000000000000001; 0x0000000000008082; 0x800000000000808A; 0x8000000080008000;
   0x000000000000808B; 0x0000000080000001; 0x8000000080008081; 0x8000000000008009;
   0x000000000000008A; 0x0000000000000088; 0x0000000080008009; 0x000000008000000A;
   0x000000008000808B; 0x800000000000008B; 0x8000000000008089; 0x8000000000008003;
   0x8000000000008002; 0x8000000000000080; 0x000000000000800A; 0x800000008000000A;
   0x8000000080008081; 0x8000000000008080; 0x0000000080000001; 0x8000000080008008].

(* rotation offsets r[x][y] at index x + 5*y *)
Definition rotation_offsets : list N :=
  [0; 1; 62; 28; 27;   36; 44; 6; 55; 20;   3; 10; 43; 25; 39;   41; 45; 15; 21; 8;   18; 2; 61; 56; 14].

Definition state := list N.
Definition lane (s : state) (x y : nat) : N := nth (Nat.add (Nat.modulo x 5) (Nat.mul 5 (Nat.modulo y 5))) s 0.
Definition idx25 : list nat := seq 0 25.

Definition theta (s : state) : state :=
  let c := fun x => N.lxor (lane s x 0) (N.lxor (lane s x 1) (N.lxor (lane s x 2) (N.lxor (lane s x 3) (lane s x 4)))) in
  let cs := map c (seq 0 5) in
  let cx := fun x => nth (Nat.modulo x 5) cs 0 in
  let d := fun x => N.lxor (cx (Nat.add x 4)) (rotl64 (cx (S x)) 1) in
  let ds := map d (seq 0 5) in
  map (fun i => N.lxor (nth i s 0) (nth (Nat.modulo i 5) ds 0)) idx25.

(* B[y][2x+3y] = rotl(A[x][y], r[x][y]); read backwards: B[X][Y] comes from x = X+3Y, y = X *)
Definition rho_pi (s : state) : state :=
  map (fun i => let X := Nat.modulo i 5 in let Y := Nat.div i 5 in
                let x := Nat.modulo (Nat.add X (Nat.mul 3 Y)) 5 in
                rotl64 (lane s x X) (nth (Nat.add x (Nat.mul 5 X)) rotation_offsets 0)) idx25.

Definition chi (s : state) : state :=
  map (fun i => let X := Nat.modulo i 5 in let Y := Nat.div i 5 in
                N.lxor (lane s X Y) (N.land (not64 (lane s (S X) Y)) (lane s (S (S X)) Y))) idx25.

Definition iota (rc : N) (s : state) : state :=
  match s with [] => [] | a :: r => N.lxor a rc :: r end.

Definition keccak_round (s : state) (rc : N) : state := iota rc (chi (rho_pi (theta s))).
Definition keccak_f (s : state) : state := fold_left keccak_round round_constants s.

(* little-endian lanes *)
Definition le64 (b : bytes) : N := fold_right (fun x acc => x + 256 * acc) 0 b.
Definition le8 (x : N) : bytes := map (fun i => N.land (N.shiftr x (8 * N.of_nat i)) 255) (seq 0 8).

Fixpoint lanes_of (fuel : nat) (b : bytes) : list N :=
  match fuel with
  | O => []
  | S f => match b with [] => [] | _ => le64 (firstn 8 b) :: lanes_of f (skipn 8 b) end
  end.

(* xor a block (136 bytes = 17 lanes) into the first lanes of the state *)
Fixpoint xor_lanes (s : state) (ls : list N) : state :=
  match s, ls with
  | a :: s', l :: ls' => N.lxor a l :: xor_lanes s' ls'
  | _, _ => s
  end.

Definition rate : nat := 136.

Definition pad (len : nat) : bytes :=
  let q := Nat.sub rate (Nat.modulo len rate) in
  if Nat.eqb q 1 then [129] else 1 :: repeat 0 (Nat.sub q 2) ++ [128].

Fixpoint absorb (fuel : nat) (s : state) (msg : bytes) : state :=
  match fuel with
  | O => s
  | S f =>
      match msg with
      | [] => s
      | _ => absorb f (keccak_f (xor_lanes s (lanes_of 17 (firstn rate msg)))) (skipn rate msg)
      end
  end.

Definition state0 : state := repeat 0 25.

Definition keccak_state (bs : bytes) : state :=
  let msg := bs ++ pad (length bs) in absorb (S (length msg)) state0 msg.

Definition keccak256 (bs : bytes) : bytes :=
  let s := keccak_state bs in
  le8 (nth 0 s 0) ++ le8 (nth 1 s 0) ++ le8 (nth 2 s 0) ++ le8 (nth 3 s 0).
