(* Bridge JSON-RPC client (C07) -> data plan (C14) -> row builder (C11):
   "on an honest node every stored block-data cell is the NODE's value of the
   declared field".  Definitions only; proofs in Proofs/BridgeCellsP.v,
   statements at the end of Properties/C07.v.

   C07 says what a successful Client.Get returns in terms of the REPLIES; the
   plan->rows bridge (Model/BridgePlanRows.v) says every field the row builder
   reads is FILLED by a request of the selected plan; C11 says a stored cell
   is [Rows.field_of F] of the enclosing item AS DELIVERED.  Here:

   * [nch]: the node's chain, full client-level blocks (index = number): every
     payload of every block / transaction / log / trace action as the node
     holds it.  [nch_wf]: numbered by position, every hash known, distinct
     transaction indices per block, distinct log indices per transaction,
     trace actions numbered by position (CR.citems_wf).
   * [honest_on nch s l w]: the family [w] of decoded replies to the requests
     of Get(s, l) tells the truth about [nch].  SOUNDNESS of every reply kind:
     a block of the blocks reply is the node's block of its number with all
     its transactions (index, hash, type/from/to, body; [full_view]); a block
     of the headers reply carries the node's header; every receipt, every log
     of eth_getLogs, every trace of trace_block is the node's item of the
     block it names (CR.rcpt_on / logr_on / tracer_on of the cache->rows
     bridge) AND names that block's hash.  COMPLETENESS only where a field
     value depends on it: a receipt for every transaction of a requested
     block ([rcpts_all], = first half of CR.items_all).  Nothing is assumed
     about failures, error members, nulls, short batches: an honest node may
     fail in any way; Get's success is a premise of the theorems.
     [honest_world nch s l] is the executable honest family (used by the
     example; proved honest: honest_world_honest).
   * [reader]: the field-level reading of the client model's opaque payloads,
     ONE projection per Rows field, grouped by the payload component it reads
     ([field_comp]): block_time reads b_hpl (headers / blocks reply); tx_type,
     tx_signer, tx_to read t_tft (blocks or receipts reply); tx_value,
     tx_input, tx_gas_price, tx_max_*, tx_nonce read t_body (blocks reply);
     tx_status, tx_gas_used, tx_effective_gas_price, tx_contract_address read
     t_rcpt (receipts reply); log_addr (and topics / data) read the log's
     payload (receipts or eth_getLogs reply), log_idx its index; trace_* read
     the trace payload (trace_block reply), trace_action_idx its position.
     [conv rd] converts a client-level block -- delivered or the node's -- to
     the Rows-level block; the node's Rows-level item IS [conv rd] of the
     node's client-level item, so no coherence premise is left open.
     [to_c11v] maps a reader to the coarser reader of the cache->rows bridge
     (C11V.conv (to_c11v rd) = conv rd).
   * [comp_written k p]: the requests of plan [p] write component [k] of every
     delivered transaction / block that has a transaction.  [plan_comp_check]
     (decided by vm_compute on the regenerated tables of C14 on every run):
     whenever C14's [supplied_b] holds for the case label of F under the
     requests dispatched for flags fl, [comp_written (field_comp F)] holds for
     the client plan with the same flags. *)
From Coq Require Import String List NArith ZArith Bool.
From Shovel Require Import Base.Outcome.
From Shovel Require Model.Hex Model.Filter Model.Rows Model.Client Model.ClientSpec Model.Plan Model.Provides
  Model.BridgeCacheRows Model.BridgePlanRows Model.Pushdown.
Import ListNotations.
Open Scope N_scope.

Module CE.
Import Client ClientSpec.
Module CR := BridgeCacheRows.CR.

(* ---------- the node's chain ---------- *)
Definition nch_wf (nch : list block) : Prop :=
  CR.citems_wf nch
  /\ forall n cb, nth_error nch n = Some cb -> b_num cb = N.of_nat n /\ b_hash cb <> [].

(* what eth_getBlockByNumber(n, true) carries of a block: header and, per
   transaction, index, hash, type/from/to, body -- no receipt fields, logs, traces *)
Definition tx_view (ct : tx) : tx := mkTx (t_idx ct) (t_hash ct) (t_tft ct) (t_body ct) [] [] [].
Definition full_view (cb : block) : block :=
  mkBlock (b_num cb) (b_hash cb) (b_parent cb) (b_hpl cb) (map tx_view (b_txs cb)).
Definition hdr_view (cb : block) : block :=
  mkBlock (b_num cb) (b_hash cb) (b_parent cb) (b_hpl cb) [].

(* ---------- honest replies ---------- *)
Definition blocks_full (nch : list block) (r : reply (list belem)) : Prop :=
  forall es e b, r = RBody es -> In e es -> be_res e = Some b -> b_hash b <> [] ->
    exists cb, nth_error nch (N.to_nat (b_num b)) = Some cb /\ b = full_view cb.
(* headers: the node's header; transactions, if the decoded shape carries any, partial copies of the node's *)
Definition headers_on (nch : list block) (r : reply (list belem)) : Prop :=
  forall es e b, r = RBody es -> In e es -> be_res e = Some b -> b_hash b <> [] ->
    exists cb, nth_error nch (N.to_nat (b_num b)) = Some cb /\ hdr b = hdr cb
               /\ CR.txs_sub (b_txs cb) (b_txs b).

(* [h] is the hash of the node's block number [n] *)
Definition bhash_on (nch : list block) (n : N) (h : bytes) : Prop :=
  exists cb, nth_error nch (N.to_nat n) = Some cb /\ h = b_hash cb.
Definition rcpt_h (nch : list block) (r : rcpt) : Prop :=
  CR.rcpt_on nch r /\ bhash_on nch (r_bnum r) (r_bhash r).
Definition logr_h (nch : list block) (x : logr) : Prop :=
  CR.logr_on nch x /\ bhash_on nch (lr_bnum x) (lr_bhash x).
Definition tracer_h (nch : list block) (ts : list tracer) (x : tracer) : Prop :=
  CR.tracer_on nch ts x /\ bhash_on nch (tr_bnum x) (tr_bhash x).

(* a receipt for every transaction of every requested block *)
Definition rcpts_all (nch : list block) (s l : N) (w : world) : Prop :=
  forall es i e rs cb ct, w_receipts w = RBody es -> (i < N.to_nat l)%nat -> nth_error es i = Some e ->
    re_res e = Some rs -> nth_error nch (N.to_nat s + i) = Some cb -> In ct (b_txs cb) ->
    exists r, In r rs /\ r_txidx r = t_idx ct.

Definition honest_on (nch : list block) (s l : N) (w : world) : Prop :=
  blocks_full nch (w_blocks w) /\ headers_on nch (w_headers w)
  /\ (forall es e rs r, w_receipts w = RBody es -> In e es -> re_res e = Some rs -> In r rs -> rcpt_h nch r)
  /\ (forall lb ls x, w_logs w = RBody lb -> lb_logs lb = Some ls -> In (Some x) ls -> logr_h nch x)
  /\ (forall e ts x, In (RBody e) (w_traces w) -> te_res e = Some ts -> In x ts -> tracer_h nch ts x)
  /\ rcpts_all nch s l w.

(* ---------- the executable honest family ---------- *)
Definition seg (nch : list block) (s l : N) : list block := firstn (N.to_nat l) (skipn (N.to_nat s) nch).
Definition rcpt_of_tx (cb : block) (ct : tx) : rcpt :=
  mkRcpt (b_num cb) (b_hash cb) (t_idx ct) (t_hash ct) (t_tft ct) (t_rcpt ct) (t_logs ct).
Definition logrs_of (cb : block) : list logr :=
  flat_map (fun ct => map (fun lg => mkLogr (b_num cb) (b_hash cb) (t_idx ct) (t_hash ct) lg) (t_logs ct)) (b_txs cb).
Definition tracers_of (cb : block) : list tracer :=
  flat_map (fun ct => map (fun a => mkTracer (b_num cb) (b_hash cb) (t_idx ct) (t_hash ct) (ta_pl a)) (t_traces ct))
           (b_txs cb).
Definition honest_world (nch : list block) (s l : N) : world :=
  let sg := seg nch s l in
  mkWorld (RBody (map (fun cb => mkBelem false (Some (full_view cb))) sg))
          (RBody (map (fun cb => mkBelem false (Some (hdr_view cb))) sg))
          (RBody (map (fun cb => mkRelem false (Some (map (rcpt_of_tx cb) (b_txs cb)))) sg))
          (RBody (mkLbatch 2 false (option_map b_hash (nth_error nch (N.to_nat (s + l - 1)))) false
                           (Some (map Some (flat_map logrs_of sg)))))
          (map (fun cb => RBody (mkTelem false (Some (tracers_of cb)))) sg).

(* ---------- the invariant of the attach phase ---------- *)
(* written components of a delivered transaction [t] of the node's [ct]:
   kB: the blocks reply was the base; kR: the receipts stage is complete *)
Definition tx_w (kB kR : bool) (ct t : tx) : Prop :=
  (kB = true -> t_tft t = t_tft ct /\ t_body t = t_body ct)
  /\ (kR = true -> t_tft t = t_tft ct /\ t_rcpt t = t_rcpt ct /\ t_logs t = t_logs ct).
Definition txs_inv (kB kR : bool) (ctxs txs : list tx) : Prop :=
  CR.txs_sub ctxs txs
  /\ (kB || kR = true -> forall ct, In ct ctxs -> exists t, In t txs /\ t_idx t = t_idx ct)
  /\ (forall t ct, In t txs -> In ct ctxs -> t_idx t = t_idx ct -> tx_w kB kR ct t).
(* kH: the base was fetched (headers or blocks) *)
Definition blk_inv (kH kB kR : bool) (cb b : block) : Prop :=
  txs_inv kB kR (b_txs cb) (b_txs b)
  /\ (b_hash b = b_hash cb \/ (kH = false /\ b_hash b = [] /\ b_txs b = []))
  /\ (kH = true -> b_hpl b = b_hpl cb).
Definition on_node (nch : list block) (Q : block -> block -> Prop) (b : block) : Prop :=
  exists cb, nth_error nch (N.to_nat (b_num b)) = Some cb /\ Q cb b.

(* what Get delivers on an honest node, component by component *)
Definition delivered_components (p : plan) (cb b : block) : Prop :=
  b_num b = b_num cb
  /\ (fetches p = true -> b_hash b = b_hash cb /\ b_hpl b = b_hpl cb)
  /\ NoDup (map t_idx (b_txs b))
  /\ forall t, In t (b_txs b) ->
       b_hash b = b_hash cb
       /\ exists ct, In ct (b_txs cb) /\ t_idx t = t_idx ct /\ t_hash t = t_hash ct
            /\ (use_blocks p || use_receipts p = true -> t_tft t = t_tft ct)
            /\ (use_blocks p = true -> t_body t = t_body ct)
            /\ (use_receipts p = true -> t_rcpt t = t_rcpt ct /\ t_logs t = t_logs ct)
            /\ incl (t_logs t) (t_logs ct) /\ incl (t_traces t) (t_traces ct).

(* the component statement WITHOUT "the node has the requested blocks": false for a plan
   that fetches neither headers nor blocks (Client.Get makes up the bare numbers itself);
   Proofs/BridgeCellsP.v, [range_premise_needed] *)
Definition components_norange_full : Prop :=
  forall nch p s l w bs, nch_wf nch -> honest_on nch s l w -> get p s l w = Ok bs ->
    forall b, In b bs -> exists cb, nth_error nch (N.to_nat (b_num b)) = Some cb /\ delivered_components p cb b.
End CE.

(* ================================================================== *)
(* field-level reading                                                 *)
(* ================================================================== *)
Module CF.
Module CR := BridgeCacheRows.CR.
Module C11V := BridgeCacheRows.C11V.
Import Filter.

Record reader := mkReader {
  (* b_hpl: headers / blocks reply *)
  rd_time : Client.payload -> N;
  (* t_tft: blocks reply, receipts reply *)
  rd_type : Client.payload -> N; rd_from : Client.payload -> obytes; rd_to : Client.payload -> obytes;
  (* t_body: blocks reply only *)
  rd_value : Client.payload -> N; rd_input : Client.payload -> obytes; rd_gas_price : Client.payload -> N;
  rd_max_prio : Client.payload -> N; rd_max_fee : Client.payload -> N; rd_nonce : Client.payload -> N;
  (* t_rcpt: receipts reply only *)
  rd_status : Client.payload -> N; rd_gas_used : Client.payload -> N; rd_eff_gas_price : Client.payload -> N;
  rd_contract : Client.payload -> obytes;
  (* l_pl: receipts reply, eth_getLogs reply *)
  rd_addr : Client.payload -> obytes; rd_topics : Client.payload -> list bytes; rd_data : Client.payload -> bytes;
  rd_scan : Client.payload -> outcome (list (list obytes));
  (* ta_pl: trace_block reply *)
  rd_call_type : Client.payload -> bytes; rd_tfrom : Client.payload -> obytes; rd_tto : Client.payload -> obytes;
  rd_tvalue : Client.payload -> N }.

Definition conv_log (rd : reader) (lg : Client.log) : Rows.logr :=
  {| Rows.l_idx := Client.l_idx lg; Rows.l_addr := rd_addr rd (Client.l_pl lg);
     Rows.l_topics := rd_topics rd (Client.l_pl lg); Rows.l_data := rd_data rd (Client.l_pl lg);
     Rows.l_scan := rd_scan rd (Client.l_pl lg) |}.
Definition conv_trace (rd : reader) (a : Client.trace) : Rows.tracer :=
  {| Rows.ta_idx := Client.ta_idx a; Rows.ta_call_type := rd_call_type rd (Client.ta_pl a);
     Rows.ta_from := rd_tfrom rd (Client.ta_pl a); Rows.ta_to := rd_tto rd (Client.ta_pl a);
     Rows.ta_value := rd_tvalue rd (Client.ta_pl a) |}.
(* scalar fields of a transaction; logs left empty *)
Definition conv_tx0 (rd : reader) (idx : N) (h : bytes) (tft body rc : Client.payload) (trs : list Client.trace)
  : Rows.txr :=
  {| Rows.t_hash := Some h; Rows.t_idx := idx;
     Rows.t_from := rd_from rd tft; Rows.t_to := rd_to rd tft; Rows.t_value := rd_value rd body;
     Rows.t_input := rd_input rd body; Rows.t_type := rd_type rd tft; Rows.t_status := rd_status rd rc;
     Rows.t_gas_used := rd_gas_used rd rc; Rows.t_gas_price := rd_gas_price rd body;
     Rows.t_eff_gas_price := rd_eff_gas_price rd rc; Rows.t_contract := rd_contract rd rc;
     Rows.t_max_prio := rd_max_prio rd body; Rows.t_max_fee := rd_max_fee rd body; Rows.t_nonce := rd_nonce rd body;
     Rows.t_logs := []; Rows.t_traces := map (conv_trace rd) trs |}.
Definition conv_tx (rd : reader) (t : Client.tx) : Rows.txr :=
  Pushdown.tx_with_logs
    (conv_tx0 rd (Client.t_idx t) (Client.t_hash t) (Client.t_tft t) (Client.t_body t) (Client.t_rcpt t)
              (Client.t_traces t))
    (map (conv_log rd) (Client.t_logs t)).
Definition conv (rd : reader) (b : Client.block) : Rows.blockr :=
  {| Rows.b_hash := Some (Client.b_hash b); Rows.b_num := Client.b_num b;
     Rows.b_time := rd_time rd (Client.b_hpl b); Rows.b_txs := map (conv_tx rd) (Client.b_txs b) |}.

(* the reader of the cache->rows bridge that this reading refines *)
Definition to_c11v (rd : reader) : C11V.reader :=
  C11V.mkReader (conv_log rd) (conv_tx0 rd) (rd_time rd).

(* ---------- which payload component a field reads ---------- *)
Inductive comp :=
| KCtx      (* not read from the chain *)
| KNum      (* block number *)
| KHash     (* block hash: headers / blocks reply, or the hash the items name *)
| KHpl      (* header payload: headers / blocks reply *)
| KTxId     (* transaction index and hash: every reply that names the transaction *)
| KTft      (* type, from, to: blocks reply, receipts reply *)
| KBody     (* value, input, gas price, fee caps, nonce: blocks reply *)
| KRcpt     (* status, gas used, effective gas price, contract address: receipts reply *)
| KLog      (* a log of the transaction: receipts reply, eth_getLogs reply *)
| KTrace.   (* a trace action of the transaction: trace_block reply *)
Definition field_comp (F : Rows.field) : comp :=
  match F with
  | Rows.Fsrc_name | Rows.Fig_name | Rows.Fchain_id => KCtx
  | Rows.Fblock_num => KNum
  | Rows.Fblock_hash => KHash
  | Rows.Fblock_time => KHpl
  | Rows.Ftx_hash | Rows.Ftx_idx => KTxId
  | Rows.Ftx_signer | Rows.Ftx_to | Rows.Ftx_type => KTft
  | Rows.Ftx_value | Rows.Ftx_input | Rows.Ftx_gas_price | Rows.Ftx_max_priority_fee_per_gas
  | Rows.Ftx_max_fee_per_gas | Rows.Ftx_nonce => KBody
  | Rows.Ftx_status | Rows.Ftx_gas_used | Rows.Ftx_effective_gas_price | Rows.Ftx_contract_address => KRcpt
  | Rows.Flog_idx | Rows.Flog_addr => KLog
  | Rows.Ftrace_action_call_type | Rows.Ftrace_action_idx | Rows.Ftrace_action_from | Rows.Ftrace_action_to
  | Rows.Ftrace_action_value => KTrace
  end.
(* the plan's requests write the component of every delivered transaction
   (KHash: of every block that has a transaction; KLog / KTrace: a delivered
   log / trace action IS the node's, whichever request attached it) *)
Definition comp_written (k : comp) (p : Client.plan) : bool :=
  match k with
  | KHpl => Client.use_blocks p || Client.use_headers p
  | KTft => Client.use_blocks p || Client.use_receipts p
  | KBody => Client.use_blocks p
  | KRcpt => Client.use_receipts p
  | _ => true
  end.

(* the client plan of glf's flags (shovel: jrpc2.Client.Get is called with the glf.Filter) *)
Definition plan_of_flags (fl : Plan.flags) : Client.plan :=
  Client.mkPlan (Plan.use_headers fl) (Plan.use_blocks fl) (Plan.use_receipts fl) (Plan.use_logs fl)
                (Plan.use_traces fl).

Definition all_modes : list Plan.mode := [Plan.MTx; Plan.MLog; Plan.MTrace].
(* C14's "supplied" implies "written", for every field, flag value and mode *)
Definition plan_comp_check (disp : Plan.flags -> list Plan.fetch) (P : string -> list Plan.fetch)
           (names : list Plan.field) : bool :=
  forallb (fun F =>
    forallb (fun f =>
      implb (String.eqb (Plan.f_name f) (Rows.field_name F))
        (forallb (fun fl =>
           forallb (fun m => implb (Provides.supplied_b P (disp fl) m f)
                                   (comp_written (field_comp F) (plan_of_flags fl))) all_modes)
           BridgePlanRows.all_flag_values)) names) BridgePlanRows.all_fields.

(* ---------- the composed statements ---------- *)
(* delivered block [b] against the node's chain, for the fields declaration [d] reads *)
Definition delivered_is_node (rd : reader) (nch : list Client.block) (c : Rows.ctxr) (d : Rows.decl)
           (b : Client.block) : Prop :=
  exists cb, nth_error nch (N.to_nat (Client.b_num b)) = Some cb /\ Client.b_num cb = Client.b_num b /\
    forall t, In t (Client.b_txs b) ->
      exists ct, In ct (Client.b_txs cb) /\ Client.t_idx ct = Client.t_idx t
        /\ incl (Client.t_logs t) (Client.t_logs ct) /\ incl (Client.t_traces t) (Client.t_traces ct)
        /\ forall F lo ao, In (s2b (Rows.field_name F)) (BridgePlanRows.rows_read_names d) ->
             Rows.field_of F c (Rows.d_name d) (conv rd b) (conv_tx rd t) lo ao
             = Rows.field_of F c (Rows.d_name d) (conv rd cb) (conv_tx rd ct) lo ao.

(* ---------- non-vacuity instance: two blocks, ERC-20 Transfer ---------- *)
(* payload layouts of the example reader:
   b_hpl = [time]; t_tft = [type; from; to]; t_body = [value; gasprice; maxprio; maxfee; nonce];
   t_rcpt = [status; gasused; effgasprice]; l_pl = [addr; topic1; topic2; value] *)
Definition ex_ob (v : N) : obytes := Some [v].
Definition ex_rd : reader :=
  {| rd_time := fun p => nth 0 p 0;
     rd_type := fun p => nth 0 p 0; rd_from := fun p => ex_ob (nth 1 p 0); rd_to := fun p => ex_ob (nth 2 p 0);
     rd_value := fun p => nth 0 p 0; rd_input := fun _ => Some []; rd_gas_price := fun p => nth 1 p 0;
     rd_max_prio := fun p => nth 2 p 0; rd_max_fee := fun p => nth 3 p 0; rd_nonce := fun p => nth 4 p 0;
     rd_status := fun p => nth 0 p 0; rd_gas_used := fun p => nth 1 p 0; rd_eff_gas_price := fun p => nth 2 p 0;
     rd_contract := fun _ => None;
     rd_addr := fun p => Some [nth 0 p 0; nth 0 p 0 + 17];
     rd_topics := fun p => [[221; 242; 82; 173]; Rows.word_of_N (nth 1 p 0); Rows.word_of_N (nth 2 p 0)];
     rd_data := fun p => Rows.word_of_N (nth 3 p 0);
     rd_scan := fun p => Ok [[Some (Rows.word_of_N (nth 3 p 0))]];
     rd_call_type := fun _ => []; rd_tfrom := fun _ => None; rd_tto := fun _ => None; rd_tvalue := fun _ => 0 |}.
(* block 0: one transaction (status 1) with one Transfer of 5 units; block 1: two transactions,
   the first (status 0) without logs, the second (status 1) with two Transfers *)
Definition ex_nch : list Client.block :=
  [Client.mkBlock 0 [10] [9] [1700000000]
     [Client.mkTx 0 [100] [2; 1; 2] [0; 7; 1; 9; 4] [1; 50000; 7] [Client.mkLog 0 [170; 17; 34; 5]] []];
   Client.mkBlock 1 [11] [10] [1700000012]
     [Client.mkTx 0 [101] [2; 3; 4] [0; 7; 1; 9; 5] [0; 21000; 7] [] [];
      Client.mkTx 1 [102] [2; 5; 6] [0; 8; 1; 9; 6] [1; 60000; 8]
        [Client.mkLog 0 [171; 17; 35; 6]; Client.mkLog 1 [172; 35; 17; 7]] []]].
(* the cells COPY receives: from, to, value, block_time, tx_status, log_addr, ig_name, src_name,
   block_num, tx_idx, log_idx, abi_idx -- one row per Transfer *)
Definition ex_row (f t v time a blk txi li : N) : list Filter.cell :=
  [Filter.CBytes (repeat 0 19 ++ [f]); Filter.CBytes (repeat 0 19 ++ [t]); Filter.CInt (Z.of_N v);
   Filter.CInt (Z.of_N time); Filter.CInt 1%Z; Filter.CBytes [a; a + 17];
   Filter.CText (s2b "erc20"); Filter.CText (s2b "mainnet"); Filter.CInt (Z.of_N blk); Filter.CInt (Z.of_N txi);
   Filter.CInt (Z.of_N li); Filter.CInt 0%Z].
Definition ex_cells : list (list Filter.cell) :=
  [ex_row 17 34 5 1700000000 170 0 0 0; ex_row 17 35 6 1700000012 171 1 1 0; ex_row 35 17 7 1700000012 172 1 1 1].
(* the same chain on a node that reports status 0 for the first transaction: another chain *)
Definition ex_nch_lie : list Client.block :=
  match ex_nch with
  | Client.mkBlock n h p hpl (Client.mkTx i th tft body _ lgs trs :: _) :: r =>
      Client.mkBlock n h p hpl [Client.mkTx i th tft body [0; 50000; 7] lgs trs] :: r
  | x => x
  end.
End CF.
