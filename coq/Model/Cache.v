(* C08: the segment cache of jrpc2/client.go (type cache / segment, cache.get,
   pruneMaxRead, pruneSegments), transcribed.

   A call of cache.get consists of two critical sections:
     - LOOKUP, under the cache lock: pruneMaxRead, find or create the segment
       of key (start, limit), pruneSegments;
     - READ, under that segment's lock: nreads++, serve the stored blocks if
       done, else call the getter and store its result only when it succeeded.
   Between the two the caller holds nothing but the segment pointer, so other
   callers may run in between.  Segments are identified by their index in a
   heap that only grows (a pointer that stays valid after the map forgot it).
   The data type [D] of what a fetch returns is a parameter.

   Definitions only; the proofs are in Proofs/CacheP.v. *)
From Coq Require Import List NArith Bool Arith.
Import ListNotations.
Open Scope N_scope.

Definition key := (N * N)%type.            (* (start, limit) *)
Definition key_eqb (a b : key) : bool := (fst a =? fst b) && (snd a =? snd b).
Definition mem_key (k : key) (ks : list key) : bool := existsb (key_eqb k) ks.

Record seg {D : Type} := mkSeg {
  sg_key : key;                 (* ghost: the key it was created for *)
  sg_nreads : N;
  sg_data : option D            (* Some d  <->  done = true, d = seg.d *)
}.
Arguments seg : clear implicits.
Arguments mkSeg {D} _ _ _.

Record cache {D : Type} := mkCache {
  c_max : N;                           (* maxreads *)
  c_map : list (key * nat);            (* segments: key -> heap index, insertion order *)
  c_heap : list (seg D)
}.
Arguments cache : clear implicits.
Arguments mkCache {D} _ _ _.

Definition empty_cache {D} (maxreads : N) : cache D := mkCache maxreads [] [].

Fixpoint upd {A} (l : list A) (i : nat) (x : A) : list A :=
  match l, i with
  | [], _ => []
  | _ :: r, O => x :: r
  | y :: r, S i' => y :: upd r i' x
  end.

(* What a getter call returns: Go's (blocks, err).  Client.blocks/headers end
   with `return blocks, validate(...)`: when the reply decodes but is rejected
   (wrong number, broken parent link) the REJECTED blocks come back together
   with the error, so an error may be accompanied by data ([junk]).  cache.get
   looks at err first and stores nothing unless err = nil: the only thing READ
   may use of an outcome is [fetch_value]. *)
Inductive fetched (D : Type) :=
| FOk (d : D)                       (* err = nil *)
| FErr (junk : option D).           (* err != nil, whatever data came with it *)
Arguments FOk {D} d.
Arguments FErr {D} junk.
Definition fetch_value {D} (r : fetched D) : option D :=
  match r with FOk d => Some d | FErr _ => None end.

Section WithD.
Context {D : Type}.

Definition seg_nreads (h : list (seg D)) (sid : nat) : N :=
  match nth_error h sid with Some s => sg_nreads s | None => 0 end.

(* pruneMaxRead: delete every entry whose segment has nreads >= maxreads *)
Definition prune_maxread (mx : N) (h : list (seg D)) (m : list (key * nat)) : list (key * nat) :=
  filter (fun e => seg_nreads h (snd e) <? mx) m.

Definition find_key (k : key) (m : list (key * nat)) : option nat :=
  match find (fun e => key_eqb (fst e) k) m with
  | Some e => Some (snd e)
  | None => None
  end.

Definition prune_size : nat := 5.

(* pruneSegments: when more than 5 entries, sort by start descending and
   delete all but the first 5.  Go's map iteration order and sort.Slice leave
   the choice among EQUAL starts open, so the surviving key set [kept] is an
   input of the step, and the step exists only when [kept] is a legal outcome:
   exactly 5 entries survive and no deleted entry has a start above a
   surviving one. *)
Definition start_of (e : key * nat) : N := fst (fst e).
Definition prune_segments (kept : list key) (m : list (key * nat)) : option (list (key * nat)) :=
  if (length m <=? prune_size)%nat then Some m
  else
    let m' := filter (fun e => mem_key (fst e) kept) m in
    if (length m' =? prune_size)%nat
       && forallb (fun e => mem_key (fst e) kept
                            || forallb (fun e' => start_of e <=? start_of e') m') m
    then Some m' else None.

(* LOOKUP.  Result: new cache, the segment handed to the caller, and whether
   it was created by this call. *)
Definition lookup (k : key) (kept : list key) (c : cache D) : option (cache D * nat * bool) :=
  let m1 := prune_maxread (c_max c) (c_heap c) (c_map c) in
  let '(m2, h2, sid, created) :=
    match find_key k m1 with
    | Some sid => (m1, c_heap c, sid, false)
    | None => (m1 ++ [(k, length (c_heap c))],
               c_heap c ++ [mkSeg k 0 None],
               length (c_heap c), true)
    end in
  match prune_segments kept m2 with
  | Some m3 => Some (mkCache (c_max c) m3 h2, sid, created)
  | None => None
  end.

(* READ on segment [sid].  [res] is [fetch_value] of what the source answers
   IF it is asked (None = the fetch fails, with or without data).  Result: new cache, what the caller gets
   (None = error), whether the source was asked. *)
Definition read (sid : nat) (res : option D) (c : cache D) : option (cache D * option D * bool) :=
  match nth_error (c_heap c) sid with
  | None => None
  | Some s =>
      let n := sg_nreads s + 1 in
      match sg_data s with
      | Some d =>
          Some (mkCache (c_max c) (c_map c) (upd (c_heap c) sid (mkSeg (sg_key s) n (Some d))),
                Some d, false)
      | None =>
          Some (mkCache (c_max c) (c_map c) (upd (c_heap c) sid (mkSeg (sg_key s) n res)),
                res, true)
      end
  end.

(* READ / a whole get, given the getter's outcome as Go sees it *)
Definition read_f (sid : nat) (r : fetched D) (c : cache D) := read sid (fetch_value r) c.

(* One whole cache.get when nobody else runs in between. *)
Definition get (k : key) (kept : list key) (res : option D) (c : cache D)
  : option (cache D * option D * bool) :=
  match lookup k kept c with
  | None => None
  | Some (c1, sid, _) => read sid res c1
  end.

Definition get_f (k : key) (kept : list key) (r : fetched D) (c : cache D) :=
  get k kept (fetch_value r) c.

(* ---- the concurrent system: any number of callers, each between its two
   critical sections holds one segment index ---- *)
Record sys := mkSys { sy_cache : cache D; sy_pend : list nat }.

Inductive ev :=
| ELookup (k : key) (kept : list key)      (* some caller enters get(k) and finishes LOOKUP *)
| ERead (sid : nat) (res : option D).      (* some caller holding [sid] performs READ *)

Inductive obs :=
| OLookup (k : key) (sid : nat) (created : bool)
| ORead (sid : nat) (k : key) (ret : option D) (asked : bool).

Fixpoint remove_one (x : nat) (l : list nat) : option (list nat) :=
  match l with
  | [] => None
  | y :: r => if Nat.eqb x y then Some r
              else match remove_one x r with Some r' => Some (y :: r') | None => None end
  end.

Definition seg_key_of (h : list (seg D)) (sid : nat) : key :=
  match nth_error h sid with Some s => sg_key s | None => (0, 0) end.

Definition step (s : sys) (e : ev) : option (sys * obs) :=
  match e with
  | ELookup k kept =>
      match lookup k kept (sy_cache s) with
      | Some (c', sid, created) => Some (mkSys c' (sid :: sy_pend s), OLookup k sid created)
      | None => None
      end
  | ERead sid res =>
      match remove_one sid (sy_pend s) with
      | None => None
      | Some p' =>
          match read sid res (sy_cache s) with
          | Some (c', ret, asked) =>
              Some (mkSys c' p', ORead sid (seg_key_of (c_heap (sy_cache s)) sid) ret asked)
          | None => None
          end
      end
  end.

Fixpoint run (s : sys) (tr : list ev) : option (sys * list obs) :=
  match tr with
  | [] => Some (s, [])
  | e :: r =>
      match step s e with
      | None => None
      | Some (s1, o) =>
          match run s1 r with
          | None => None
          | Some (s2, os) => Some (s2, o :: os)
          end
      end
  end.

Definition init_sys (maxreads : N) : sys := mkSys (empty_cache maxreads) [].

(* at most [B] callers are ever between their two critical sections *)
Definition pend_bounded (B : nat) (s : sys) (tr : list ev) : Prop :=
  forall tr1 tr2 s1 os, tr = tr1 ++ tr2 -> run s tr1 = Some (s1, os) ->
    (length (sy_pend s1) <= B)%nat.

(* number of READs performed on segment [sid] *)
Definition is_read_of (sid : nat) (o : obs) : bool :=
  match o with ORead sid' _ _ _ => Nat.eqb sid sid' | _ => false end.
Definition reads_of (sid : nat) (os : list obs) : nat := length (filter (is_read_of sid) os).

(* ---- sequential use: a list of whole get calls ---- *)
Fixpoint seq_run (c : cache D) (ops : list (key * list key * option D))
  : option (cache D * list (key * option D * bool)) :=
  match ops with
  | [] => Some (c, [])
  | (k, kept, res) :: r =>
      match get k kept res c with
      | None => None
      | Some (c1, ret, asked) =>
          match seq_run c1 r with
          | None => None
          | Some (c2, outs) => Some (c2, (k, ret, asked) :: outs)
          end
      end
  end.

End WithD.
Arguments sys : clear implicits.
Arguments ev : clear implicits.
Arguments obs : clear implicits.
