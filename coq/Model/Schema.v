(* C16 — generated schema and data: the catalog that config.Migrate
   (wpg.Table.Migrate per integration, in configuration order) leaves behind,
   the rows dig.Integration.Insert emits for a list of blocks (at the level of
   the identity values that the unique key is made of), and COPY into a table
   that enforces the unique indexes it was told to create.  Definitions only.

   Postgres rules that matter here and that the Go-level fake follows as
   well: unquoted identifiers fold to lower case, quoted ones (wpg.quote
   quotes reserved words; pgx quotes every COPY identifier) are exact; index
   names are global, `create ... if not exists` keeps the FIRST index of a
   name; statements run in order, so an index on a column that only a later
   `alter table add column` would create is an error; a unique index treats
   NULLs as distinct; COPY is all-or-nothing. *)
From Coq Require Import List NArith Bool String Ascii.
From Shovel Require Import Base.Outcome Model.Config Model.Sql.
Import ListNotations.
Open Scope N_scope.

(* ---- catalog ---- *)
Record ptable := { pt_name : str; pt_cols : list str }.
Record pindex := { ix_name : str; ix_table : str; ix_cols : list str; ix_unique : bool }.
Record catalog := { cat_tables : list ptable; cat_indexes : list pindex }.

Definition find_table (cat : catalog) (n : str) : option ptable :=
  find (fun t => str_eqb (pt_name t) n) (cat_tables cat).
Definition has_index (cat : catalog) (n : str) : bool :=
  existsb (fun i => str_eqb (ix_name i) n) (cat_indexes cat).
Definition table_cols (cat : catalog) (n : str) : list str :=
  match find_table cat n with Some t => pt_cols t | None => [] end.

(* how a name written into DDL text is stored: quote() keeps reserved words exact *)
Definition ddl_name (res : list str) (n : str) : str :=
  if is_reserved res n then n else lower_ascii n.
Definition idx_col (res : list str) (e : str) : str :=
  if is_reserved res e then e else lower_ascii (fst (idx_split e)).

Definition set_cols (cat : catalog) (tn : str) (cols : list str) : catalog :=
  {| cat_tables := map (fun t => if str_eqb (pt_name t) tn then {| pt_name := tn; pt_cols := cols |} else t)
                       (cat_tables cat);
     cat_indexes := cat_indexes cat |}.

(* create [unique] index if not exists <name> on <tn> (<cols>) *)
Definition create_idx (cat : catalog) (name tn : str) (cols : list str) (uniq : bool) : option catalog :=
  if is_nil cols then None                                  (* "... (" without a column: syntax error *)
  else if has_index cat name then Some cat                  (* the name is taken: skipped *)
  else if forallb (fun c => mem c (table_cols cat tn)) cols
  then Some {| cat_tables := cat_tables cat;
               cat_indexes := cat_indexes cat ++
                 [{| ix_name := name; ix_table := tn; ix_cols := cols; ix_unique := uniq |}] |}
  else None.                                                (* column does not exist *)

Fixpoint fold_opt {A B} (f : A -> B -> option A) (l : list B) (a : A) : option A :=
  match l with
  | [] => Some a
  | x :: r => match f a x with Some a' => fold_opt f r a' | None => None end
  end.

Definition u_prefix : str := s2r "u_".
Definition shovel_prefix : str := s2r "shovel_".
Definition index_name (cols : list str) : str :=
  lower_ascii (shovel_prefix ++ join [95] (map replace_sp cols)).

(* wpg.Table.Migrate of one table (as repaired: create table, then the
   missing columns, then the indexes) *)
Definition create_table_cat (res : list str) (cat : catalog) (t : table) : option catalog :=
  let tn := lower_ascii (t_name t) in
  let names := map (fun c => ddl_name res (c_name c)) (t_cols t) in
  match find_table cat tn with
  | Some _ => Some cat
  | None => if nodupb names
            then Some {| cat_tables := cat_tables cat ++ [{| pt_name := tn; pt_cols := names |}];
                         cat_indexes := cat_indexes cat |}
            else None
  end.
(* Diff + alter table add column if not exists, one per declared column *)
Definition add_missing (res : list str) (cat : catalog) (t : table) : catalog :=
  let tn := lower_ascii (t_name t) in
  let names := map (fun c => ddl_name res (c_name c)) (t_cols t) in
  let have := table_cols cat tn in
  set_cols cat tn (have ++ List.filter (fun n => negb (mem n have)) names).
Definition create_indexes (res : list str) (cat : catalog) (t : table) : option catalog :=
  let tn := lower_ascii (t_name t) in
  match fold_opt (fun c u => create_idx c (u_prefix ++ tn) tn (map (ddl_name res) u) true) (t_unique t) cat with
  | None => None
  | Some cat2 => fold_opt (fun c ix => create_idx c (index_name ix) tn (map (idx_col res) ix) false) (t_index t) cat2
  end.

Definition migrate_table (res : list str) (cat : catalog) (t : table) : option catalog :=
  if is_nil (t_cols t) then Some cat else
  if is_reserved res (t_name t) then None else               (* unquoted reserved word as table name *)
  match create_table_cat res cat t with
  | None => None
  | Some cat1 => create_indexes res (add_missing res cat1 t) t
  end.

(* before the repair the indexes were created BEFORE the missing columns were
   added: an index on a column that the table did not have yet (a table that
   existed with fewer columns, or a table shared with an integration migrated
   earlier) made the migration fail *)
Definition legacy_migrate_table (res : list str) (cat : catalog) (t : table) : option catalog :=
  if is_nil (t_cols t) then Some cat else
  if is_reserved res (t_name t) then None else
  match create_table_cat res cat t with
  | None => None
  | Some cat1 => match create_indexes res cat1 t with
                 | None => None
                 | Some cat3 => Some (add_missing res cat3 t)
                 end
  end.

(* config.Migrate: integrations in configuration order *)
Definition migrate_all (res : list str) (cat : catalog) (igs : list integ) : option catalog :=
  fold_opt (fun c g => migrate_table res c (ig_table g)) igs cat.

(* ---- config.DDL (-print-schema): one table per name, columns united ---- *)
Definition union_cols (a b : list column) : list column :=
  a ++ List.filter (fun c => negb (mem (c_name c) (map c_name a))) b.
Fixpoint ddl_tables (igs : list integ) (acc : list table) : list table :=
  match igs with
  | [] => acc
  | g :: r =>
      let nt := ig_table g in
      let nt' := match find (fun t => str_eqb (t_name t) (t_name nt)) acc with
                 | Some et => {| t_name := t_name nt; t_cols := union_cols (t_cols nt) (t_cols et);
                                 t_unique := t_unique nt; t_index := t_index nt |}
                 | None => nt
                 end in
      ddl_tables r (nt' :: List.filter (fun t => negb (str_eqb (t_name t) (t_name nt))) acc)
  end.

(* ---- what Insert emits ---- *)
(* setIndexing: trace mode is decided by the block-data FIELD name (bd.Name has
   the prefix trace_), not by the name of the column it is stored in *)
Inductive shape := ShTx | ShLog | ShTrace.
Definition s_trace_ : str := s2r "trace_".
Definition ig_shape (g : integ) : shape :=
  if existsb (fun b => has_prefix s_trace_ (bd_name b)) (ig_block g) then ShTrace
  else if negb (is_nil (selected (ig_inputs g))) then ShLog
  else ShTx.

(* chain data as far as row identity is concerned; [l_match]: topic count and
   event signature are the integration's; [l_rows]: rows ABI decoding yields,
   0 for a log without data *)
Record alog := { l_idx : N; l_match : bool; l_rows : nat }.
Record atx := { x_idx : N; x_logs : list alog; x_traces : list N }.
Record ablock := { b_num : N; b_txs : list atx }.

Record ctx := { c_block : N; c_tx : N; c_log : option N; c_abi : option N; c_trace : option N }.

Definition any_selected_not_indexed (g : integ) : bool :=
  existsb (fun i => negb (i_indexed i)) (selected (ig_inputs g)).

(* contexts of the emitted rows, in order; None = Insert returns an error
   ("no rows for un-indexed data") *)
Definition log_ctxs (g : integ) (b t : N) (l : alog) : option (list ctx) :=
  if negb (l_match l) then Some [] else
  match l_rows l with
  | O => if any_selected_not_indexed g then None
         else Some [{| c_block := b; c_tx := t; c_log := Some (l_idx l); c_abi := None; c_trace := None |}]
  | n => Some (map (fun i => {| c_block := b; c_tx := t; c_log := Some (l_idx l);
                                c_abi := Some (N.of_nat i); c_trace := None |}) (seq 0 n))
  end.

Fixpoint concat_opt {A} (l : list (option (list A))) : option (list A) :=
  match l with
  | [] => Some []
  | None :: _ => None
  | Some x :: r => match concat_opt r with Some y => Some (x ++ y) | None => None end
  end.

Definition tx_ctxs (g : integ) (b : N) (t : atx) : option (list ctx) :=
  match ig_shape g with
  | ShTx => Some (if is_nil (ig_block g) then [] else
                  [{| c_block := b; c_tx := x_idx t; c_log := None; c_abi := None; c_trace := None |}])
  | ShTrace => Some (if negb (is_nil (selected (ig_inputs g))) then [] else
                     map (fun a => {| c_block := b; c_tx := x_idx t; c_log := None; c_abi := None;
                                      c_trace := Some a |}) (x_traces t))
  | ShLog => concat_opt (map (log_ctxs g b (x_idx t)) (x_logs t))
  end.
Definition emit (g : integ) (bs : list ablock) : option (list ctx) :=
  concat_opt (flat_map (fun b => map (tx_ctxs g (b_num b)) (b_txs b)) bs).

(* ---- cells ---- *)
Inductive cell := CNull | CStr (s : str) | CNum (n : N) | CData.
Definition cell_eqb (a b : cell) : bool :=
  match a, b with
  | CNull, CNull => true
  | CStr x, CStr y => str_eqb x y
  | CNum x, CNum y => x =? y
  | CData, CData => true
  | _, _ => false
  end.
Definition is_null (c : cell) : bool := match c with CNull => true | _ => false end.
Definition opt_num (o : option N) : cell := match o with Some n => CNum n | None => CNull end.

Definition n_ig_name := s2r "ig_name".
Definition n_src_name := s2r "src_name".
Definition n_block_num := s2r "block_num".
Definition n_tx_idx := s2r "tx_idx".
Definition n_log_idx := s2r "log_idx".
Definition n_abi_idx := s2r "abi_idx".
Definition n_trace_idx := s2r "trace_action_idx".

(* logWithCtx.get for the identity fields; every other field is payload *)
Definition field_cell (ig src : str) (name : str) (c : ctx) : cell :=
  if str_eqb name n_ig_name then CStr ig
  else if str_eqb name n_src_name then CStr src
  else if str_eqb name n_block_num then CNum (c_block c)
  else if str_eqb name n_tx_idx then CNum (c_tx c)
  else if str_eqb name n_log_idx then opt_num (c_log c)
  else if str_eqb name n_abi_idx then opt_num (c_abi c)
  else if str_eqb name n_trace_idx then opt_num (c_trace c)
  else CData.

(* one COPY row: written column -> cell, selected inputs first *)
Definition row := list (str * cell).
Definition row_of (g : integ) (src : str) (c : ctx) : row :=
  map (fun i => (get_col (ig_table g) (i_col i), CData)) (selected (ig_inputs g)) ++
  map (fun b => (get_col (ig_table g) (bd_col b), field_cell (ig_name g) src (bd_name b) c)) (ig_block g).

Fixpoint lookup (k : str) (r : row) : cell :=
  match r with
  | [] => CNull
  | (n, v) :: r' => if str_eqb n k then v else lookup k r'
  end.
Definition key (u : list str) (r : row) : list cell := map (fun k => lookup k r) u.
(* two keys violate a unique index: no NULL part and equal *)
Definition conflict (a b : list cell) : bool :=
  forallb (fun c => negb (is_null c)) a && list_eqb cell_eqb a b.

(* ---- COPY ---- *)
Inductive copyres := CopyOk (n : nat) | CopyDup | CopyColErr | InsertErr.
Definition db := list (str * list row).        (* table name -> rows *)
Definition rows_of (d : db) (tn : str) : list row :=
  match find (fun p => str_eqb (fst p) tn) d with Some p => snd p | None => [] end.
Definition put_rows (d : db) (tn : str) (rs : list row) : db :=
  (tn, rs) :: List.filter (fun p => negb (str_eqb (fst p) tn)) d.

Fixpoint first_dup (u : list str) (seen : list (list cell)) (rs : list row) : bool :=
  match rs with
  | [] => false
  | r :: rest =>
      let k := key u r in
      if existsb (conflict k) seen then true else first_dup u (k :: seen) rest
  end.

Definition copy_into (cat : catalog) (d : db) (g : integ) (rs : list row) : copyres * db :=
  let tn := t_name (ig_table g) in
  let cols := written_columns g in
  match find_table cat tn with
  | None => (CopyColErr, d)
  | Some t =>
      if negb (forallb (fun c => negb (is_nil c) && mem c (pt_cols t)) cols && nodupb cols) then (CopyColErr, d)
      else
        let all := rows_of d tn ++ rs in
        if existsb (fun ix => ix_unique ix && str_eqb (ix_table ix) tn && first_dup (ix_cols ix) [] all)
                   (cat_indexes cat)
        then (CopyDup, d)
        else (CopyOk (List.length rs), put_rows d tn all)
  end.

Definition insert (cat : catalog) (d : db) (g : integ) (src : str) (bs : list ablock) : copyres * db :=
  match emit g bs with
  | None => (InsertErr, d)
  | Some cs => copy_into cat d g (map (row_of g src) cs)
  end.

(* ---- the generated key and the "plain identity" domain ---- *)
Definition generated_key (possible : list str) (g : integ) : list str :=
  List.filter (fun p => has_col p (ig_table g)) possible.

(* Every key column is written by the block field of the same name and by
   nothing else; log_idx / abi_idx / trace_action_idx are part of the key only
   for integrations whose rows have them. *)
Definition identity_plain (possible u : list str) (g : integ) : bool :=
  forallb (fun k => has_bd k g) u
  && forallb (fun i => negb (mem (get_col (ig_table g) (i_col i)) possible)) (selected (ig_inputs g))
  && forallb (fun b => if mem (bd_name b) possible
                       then str_eqb (get_col (ig_table g) (bd_col b)) (bd_name b)
                       else negb (mem (get_col (ig_table g) (bd_col b)) possible)) (ig_block g)
  && (negb (mem n_log_idx u) || match ig_shape g with ShLog => true | _ => false end)
  && (negb (mem n_abi_idx u) || (match ig_shape g with ShLog => true | _ => false end
                                 && any_selected_not_indexed g))
  && (negb (mem n_trace_idx u) || match ig_shape g with ShTrace => true | _ => false end)
  && (match ig_shape g with ShTrace => mem n_trace_idx u | _ => true end)
  && (match ig_shape g with ShLog => mem n_log_idx u | _ => true end)
  && (negb (any_selected_not_indexed g) || mem n_abi_idx u)
  && mem n_block_num u && mem n_tx_idx u
  && forallb (fun k => mem k [n_ig_name; n_src_name; n_block_num; n_tx_idx; n_log_idx; n_abi_idx; n_trace_idx]) u
  && forallb (fun k => mem k possible) u.

(* well-formed chain data: block numbers, transaction indices per block, log
   indices and trace addresses per transaction are pairwise different; a log
   yields more than one row only for an integration that selects a
   non-indexed input (the rows come from a selected array) *)
Definition nodupN (l : list N) : bool :=
  (fix go (l : list N) : bool :=
     match l with [] => true | x :: r => negb (existsb (N.eqb x) r) && go r end) l.
Definition wf_blocks (g : integ) (bs : list ablock) : bool :=
  nodupN (map b_num bs)
  && forallb (fun b => nodupN (map x_idx (b_txs b))
                       && forallb (fun t => nodupN (map l_idx (x_logs t)) && nodupN (x_traces t)
                                            && forallb (fun l => any_selected_not_indexed g
                                                                 || Nat.leb (l_rows l) 1) (x_logs t))
                                  (b_txs b)) bs.
