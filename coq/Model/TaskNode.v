(* Task layer: the node half of the world.  A chain version is the list of
   its blocks from block 0 (index = number); a history is a list of versions.
   Every answer of the node is taken from SOME version of the history, a
   different one for every call and for every partition of a load.  What a
   Get answer looks like (per partition: a correctly numbered, internally
   linked segment of one version) is the post-condition C07 proves of the
   client and C08 proves the caches preserve.  Definitions only. *)
From Coq Require Import List NArith Bool.
From Shovel Require Import Model.TaskTypes Model.Task.
Import ListNotations.
Open Scope N_scope.

Definition chain := list blk.

Definition blk_at (ch : chain) (n : N) : option blk := nth_error ch (N.to_nat n).
Definition height (ch : chain) : N := N.of_nat (length ch).   (* head number + 1 *)

(* numbered from 0, non-empty hashes, every block's parent is its predecessor *)
Fixpoint wf_from (n : N) (ph : N) (ch : chain) : Prop :=
  match ch with
  | [] => True
  | b :: r => b_num b = n /\ b_hash b <> 0 /\ b_parent b = ph /\ wf_from (n + 1) (b_hash b) r
  end.
Definition wf_chain (ch : chain) : Prop :=
  match ch with
  | [] => False
  | g :: r => b_num g = 0 /\ b_hash g <> 0 /\ wf_from 1 (b_hash g) r
  end.
Fixpoint wf_fromb (n : N) (ph : N) (ch : chain) : bool :=
  match ch with
  | [] => true
  | b :: r => (b_num b =? n) && negb (b_hash b =? 0) && (b_parent b =? ph) && wf_fromb (n + 1) (b_hash b) r
  end.
Definition wf_chainb (ch : chain) : bool :=
  match ch with
  | [] => false
  | g :: r => (b_num g =? 0) && negb (b_hash g =? 0) && wf_fromb 1 (b_hash g) r
  end.

(* [n] blocks starting at number [m] *)
Definition segment (ch : chain) (m n : N) : list blk :=
  firstn (N.to_nat n) (skipn (N.to_nat m) ch).
Definition has_segment (ch : chain) (m n : N) : Prop := m + n <= height ch.

(* when headers are not in the plan the parent is served empty *)
Definition strip_parent (b : blk) : blk := Blk (b_num b) (b_hash b) 0 (b_rows b).
Definition view (hashes : bool) (bs : list blk) : list blk :=
  if hashes then bs else map strip_parent bs.

(* ---------- what the node may answer, given the history ---------- *)
Definition head_ans (H : list chain) (n h : N) : Prop :=
  exists ch b, In ch H /\ blk_at ch n = Some b /\ height ch = n + 1 /\ b_hash b = h.
Definition hash_ans (H : list chain) (n h : N) : Prop :=
  exists ch b, In ch H /\ blk_at ch n = Some b /\ b_hash b = h.
Definition seg_ans (hashes : bool) (H : list chain) (p : N * N) (r : segres) : Prop :=
  match r with
  | SegFail _ => True
  | SegOk bs => exists ch, In ch H /\ has_segment ch (fst p) (snd p)
                           /\ bs = view hashes (segment ch (fst p) (snd p))
  end.
Definition node_ans (hashes : bool) (H : list chain) (o : io) (r : reply) : Prop :=
  match o, r with
  | _, RFail _ => True
  | RLatest _, RHead n h => head_ans H n h
  | RHash n, RHashV h => hash_ans H n h
  | RGet ps, RSegs rs => Forall2 (seg_ans hashes H) ps rs
  | _, _ => False
  end.

(* ---------- histories ---------- *)
Fixpoint is_prefix (a b : chain) : Prop :=
  match a, b with
  | [], _ => True
  | x :: a', y :: b' => x = y /\ is_prefix a' b'
  | _ :: _, [] => False
  end.
(* growth only: every version is a prefix of the canonical chain *)
Definition growth_only (H : list chain) (canon : chain) : Prop :=
  wf_chain canon /\ Forall (fun ch => ch <> [] /\ is_prefix ch canon) H.
Definition wf_history (H : list chain) : Prop := Forall wf_chain H.
(* block hashes identify blocks across all versions *)
Definition hash_identifies (H : list chain) : Prop :=
  forall ch ch' b b', In ch H -> In ch' H -> In b ch -> In b' ch' -> b_hash b = b_hash b' -> b = b'.

(* ---------- an honest, fault-free node serving one chain ---------- *)
Definition honest (hashes : bool) (ch : chain) (o : io) : reply :=
  match o with
  | RLatest _ =>
      match blk_at ch (height ch - 1) with
      | Some b => RHead (b_num b) (b_hash b)
      | None => RFail KErr
      end
  | RHash n =>
      match blk_at ch n with Some b => RHashV (b_hash b) | None => RFail KErr end
  | RGet ps =>
      RSegs (map (fun p => if fst p + snd p <=? height ch
                           then SegOk (view hashes (segment ch (fst p) (snd p)))
                           else SegFail KErr) ps)
  | _ => RFail KErr
  end.
