(* Bridge rows -> task on REORG histories (C03).  Model/BridgeRowsTask.v
   instantiates ONE task-level chain from a rows-level canonical chain; here a
   rows-level HISTORY -- a list of versions, each a list of [Rows.blockr] from
   block 0 -- is instantiated version by version to the [list chain] the C03
   theorems quantify over.  Definitions only; proofs in
   Proofs/BridgeRowsReorgP.v, statements at the end of Properties/C03.v.

   * [inst_history d c dbs RH = map (inst_chain d c dbs) RH]: every version is
     instantiated on its own.  A [blockr] carries no parent hash; inside a
     version the parent of block i is the hash id of the version's block i-1
     ([parent_id], 0 for block 0).  Two versions that agree on their first n
     rows-level blocks therefore instantiate to the same first n task-level
     blocks (inst_chain_prefix), and a version that replaces block i gives
     block i+1 a different parent id than the old one had -- which is how the
     task model detects the reorg.

   * Well-formedness asked of the history: [rows_history_wf] (every version
     non-empty, numbered from 0, non-empty hashes, shorter than nmax) -- this
     gives C03's [history_ok].  C03's premise [hash_identifies] (used by the
     canonical-table and liveness theorems only) is implied by its rows-level
     reading [rows_hash_identifies]: two positions carrying the same block
     hash carry the same block AND the same predecessor hash.  Nothing else
     is required of the versions; that versions sharing a hash share the whole
     prefix up to it FOLLOWS (rows_hash_identifies_prefix).

   * As in the growth bridge a block whose Insert does not return Ok has no
     rows; every table theorem carries [rows_inserts_ok] / [inserts_ok] and
     concludes [insert .. = Ok rows]. *)
From Coq Require Import String List NArith ZArith Bool.
From Shovel Require Import Base.Outcome Model.Hex Model.Filter Model.Rows Model.BridgeRowsTask.
From Shovel Require Model.TaskTypes Model.TaskDb Model.Task Model.TaskNode Model.TaskSys
  Model.TaskSpec Model.TaskWitness.
Import ListNotations.
Open Scope N_scope.

(* ---------- rows-level histories and their instantiation ---------- *)
Definition rhistory := list (list blockr).

Definition inst_history (d : decl) (c : ctxr) (dbs : db) (RH : rhistory) : list TaskNode.chain :=
  map (inst_chain d c dbs) RH.

(* every version: non-empty, numbered from 0, non-empty hashes, below nmax *)
Definition rows_history_wf (RH : rhistory) : Prop :=
  forall v, In v RH -> rows_chain_wf v /\ N.of_nat (length v) < TaskSpec.nmax.

(* the hash of the block before position [i] of version [v]; empty at position 0 *)
Definition prev_hash (v : list blockr) (i : nat) : bytes :=
  match i with
  | O => []
  | S k => match nth_error v k with Some p => ob (b_hash p) | None => [] end
  end.
(* ... as the parent id [inst_chain] gives position [i] *)
Definition parent_id (v : list blockr) (i : nat) : N := hid (prev_hash v i).

(* block hashes identify blocks across versions: the same hash at two
   positions means the same block and the same predecessor hash (a hash commits
   to the block's content and to its parent) *)
Definition rows_hash_identifies (RH : rhistory) : Prop :=
  forall v v' i j b b', In v RH -> In v' RH ->
    nth_error v i = Some b -> nth_error v' j = Some b' ->
    ob (b_hash b) = ob (b_hash b') ->
    b = b' /\ prev_hash v i = prev_hash v' j.

Definition rows_inserts_ok (d : decl) (c : ctxr) (dbs : db) (RH : rhistory) : Prop :=
  forall v, In v RH -> inserts_ok d c dbs v.

(* ---------- what a table over a reorg history consists of ---------- *)
(* [b] is the block version [v] of the history has at number [b_num b] *)
Definition rblock_of (RH : rhistory) (v : list blockr) (b : blockr) : Prop :=
  In v RH /\ nth_error v (N.to_nat (b_num b)) = Some b.

(* (version, block) [y] follows [x]: next number, and the block BEFORE y's
   block in y's own version carries the hash of x's block (parents link) *)
Definition rlinks (x y : list blockr * blockr) : Prop :=
  b_num (snd y) = b_num (snd x) + 1
  /\ exists p, nth_error (fst y) (N.to_nat (b_num (snd x))) = Some p
               /\ ob (b_hash p) = ob (b_hash (snd x)).
Fixpoint rlinked_from (x : list blockr * blockr) (l : list (list blockr * blockr)) : Prop :=
  match l with
  | [] => True
  | y :: r => rlinks x y /\ rlinked_from y r
  end.
Definition rlinked (l : list (list blockr * blockr)) : Prop :=
  match l with [] => True | x :: r => rlinked_from x r end.

(* task-level block [x] is the instantiation of block [snd vb] inside version [fst vb] *)
Definition src_of (d : decl) (c : ctxr) (dbs : db) (x : TaskTypes.blk) (vb : list blockr * blockr) : Prop :=
  x = inst_blk d c dbs (parent_id (fst vb) (N.to_nat (b_num (snd vb)))) (snd vb).

(* the pair's table in database [dbt]: the declared rows of a hash-linked run
   of blocks [bl], each the block some version of the history has at its
   number; exactly the rows ONE Insert over these blocks returns; every row the
   encoding of a declared row of its block *)
Definition declared_table (tc : TaskTypes.tcfg) (d : decl) (c : ctxr) (dbs : db) (RH : rhistory)
           (dbt : TaskTypes.db) : Prop :=
  exists bl rows,
    Forall (fun vb => rblock_of RH (fst vb) (snd vb)) bl
    /\ rlinked bl
    /\ TaskTypes.d_rows (TaskSpec.pv tc dbt)
       = concat (map (fun vb => declared_rows tc d c dbs (snd vb)) bl)
    /\ insert fixed d c dbs (map snd bl) = Ok rows
    /\ map TaskTypes.r_val (TaskTypes.d_rows (TaskSpec.pv tc dbt)) = map enc_row rows
    /\ forall r, In r (TaskTypes.d_rows (TaskSpec.pv tc dbt)) ->
         exists v b k gr, In (v, b) bl /\ rblock_of RH v b
           /\ r = trow_of tc (b_num b) (k, gr) /\ declared_row d c dbs b k gr.

(* ---------- a concrete reorg (non-vacuity; Properties/C03.v) ----------
   Version A = [ex_rchain] of the growth bridge (blocks 0, 1, 2; block 2 =
   hash [3], tx 3 with log 4: a = 6, v = 10).  Version B keeps blocks 0 and 1,
   REPLACES block 2 (hash [4], tx 1 with log 2: a = 7, v = 11) and adds block 3
   (hash [5], tx 0 with log 0: a = 8, v = 12): the fork is one block below the
   head a task following A has indexed. *)
Definition ex_rchainB : list blockr :=
  RowsAbi.chain_with_scan ex_decl
    [ {| b_hash := Some [1]; b_num := 0; b_time := 0; b_txs := [] |};
      {| b_hash := Some [2]; b_num := 1; b_time := 0; b_txs := [ex_tx 0 [ex_log 0 5 9]] |};
      {| b_hash := Some [4]; b_num := 2; b_time := 0; b_txs := [ex_tx 1 [ex_log 2 7 11]] |};
      {| b_hash := Some [5]; b_num := 3; b_time := 0; b_txs := [ex_tx 0 [ex_log 0 8 12]] |} ].
Definition ex_rhist : rhistory := [ex_rchain; ex_rchainB].
Definition ex_chainB : TaskNode.chain := inst_chain ex_decl ex_ctx [] ex_rchainB.
(* the node serves A for two steps, then B *)
Definition ex_reorg_run (batch conc : N) (nA nB : nat) : TaskTypes.db * list TaskSys.result :=
  TaskWitness.hsteps Task.repaired (ex_task batch conc) (repeat ex_chain nA ++ repeat ex_chainB nB)
                     (TaskTypes.Db [] []).
(* the C11 rows expected after the reorg, with block numbers and identity keys *)
Definition ex_expectedB : list (N * (ikey * list gval)) :=
  [ (1, (Key 0 (Some 0) (Some 0%nat) None,
         [VU256 5; VU256 9; VU64 1; VU64 0; VU64 0; VInt 0]));
    (2, (Key 1 (Some 2) (Some 0%nat) None,
         [VU256 7; VU256 11; VU64 2; VU64 1; VU64 2; VInt 0]));
    (3, (Key 0 (Some 0) (Some 0%nat) None,
         [VU256 8; VU256 12; VU64 3; VU64 0; VU64 0; VInt 0])) ].

(* a history violating [rows_hash_identifies]: the two versions give hash [4]
   to block 2 but differ below it -- the instantiated blocks 2 carry the same
   hash id and different parent ids, C03's [hash_identifies] fails *)
Definition ex_rchain_badfork : list blockr :=
  [ {| b_hash := Some [1]; b_num := 0; b_time := 0; b_txs := [] |};
    {| b_hash := Some [9]; b_num := 1; b_time := 0; b_txs := [] |};
    {| b_hash := Some [4]; b_num := 2; b_time := 0; b_txs := [] |} ].
Definition ex_rchain_goodfork : list blockr :=
  [ {| b_hash := Some [1]; b_num := 0; b_time := 0; b_txs := [] |};
    {| b_hash := Some [2]; b_num := 1; b_time := 0; b_txs := [] |};
    {| b_hash := Some [4]; b_num := 2; b_time := 0; b_txs := [] |} ].
Definition hash_identifies_unconditional : Prop :=
  forall d c dbs RH, rows_history_wf RH -> TaskNode.hash_identifies (inst_history d c dbs RH).
