(* C18 — locking discipline of the concurrent indexing pipeline.

   A small concurrent language, its interleaving semantics, the definition of
   a data race in that semantics, and an executable checker [check_region].
   Definitions only; the soundness proof is Proofs/LocksetP.v.

   A REGION is one fork/join span of the program: the goroutine bodies that
   may run in parallel there (ROLES; a role is REPLICATED when any number of
   instances of it run at once: a closure forked inside a loop, one task per
   integration).  A role body is built from
     Acc a        one memory access: kind (read / write / atomic), location
                  class (a struct field such as "eth.Header.Hash", or a captured
                  variable), receiver, and its source site
     Sync l p     l.Lock(); p; l.Unlock()   (also Lock(); defer Unlock(); p)
     Star p       a loop
     Seq p q, Skip
   Locks and locations are (class, receiver) pairs.  A receiver is
     RGlob g      one object for the whole region (a variable captured from the
                  forking function: the same for every goroutine of the region)
     RVar v       an object chosen by the ADVERSARY each time it is evaluated,
                  except that inside [Sync (c, RVar v) p] every occurrence of
                  [RVar v] denotes the object that was locked (Go: the variable
                  is not reassigned between Lock and Unlock; the translator
                  refuses otherwise).  Two goroutines' [RVar]s may or may not
                  denote the same object: no alias information is assumed.
     ROwn         an object private to the executing goroutine (fresh and not
                  yet published, or a local of its own stack).
   A thread may SKIP any statement: [if], [switch], early [return], [break],
   [continue] are all over-approximated by "any subsequence, in order". *)
From Coq Require Import List String Bool NArith Arith.
Import ListNotations.
Open Scope string_scope.

Inductive kind := Rd | Wr | At.
Inductive recv := RGlob (g : string) | RVar (v : string) | ROwn.

Record lock := { lcls : string; lrecv : recv }.
Record access := { akind : kind; acls : string; arecv : recv;
                   apath : list string;   (* call path from the role's entry to the function containing the access *)
                   apos : string }.       (* file:line *)

Inductive prog :=
| Skip
| Seq (p q : prog)
| Acc (a : access)
| Sync (l : lock) (p : prog)
| Star (p : prog).

(* short constructors for the generated skeleton *)
Definition mkA (k : kind) (c : string) (r : recv) (p : list string) (pos : string) : prog :=
  Acc {| akind := k; acls := c; arecv := r; apath := p; apos := pos |}.
Definition mkL (c : string) (r : recv) : lock := {| lcls := c; lrecv := r |}.

Fixpoint seq (ps : list prog) : prog :=
  match ps with [] => Skip | p :: r => Seq p (seq r) end.

Record role := { rname : string; rrepl : bool; rbody : prog }.
Record region := { gname : string; groles : list role }.

(* ------------------------------------------------------------ semantics *)

(* concrete objects: shared ones are numbered, private ones belong to a thread *)
Inductive cobj := OSh (n : N) | OPriv (tid : nat).
Definition clock := (string * cobj)%type.

(* a thread is a stack: programs still to run and the releases that close the
   Syncs it is inside of; [IRel l o]: static lock [l] was acquired on object [o] *)
Inductive item := IProg (p : prog) | IRel (l : lock) (o : cobj).
Definition cont := list item.

Definition recv_eqb (a b : recv) : bool :=
  match a, b with
  | RGlob x, RGlob y => String.eqb x y
  | RVar x, RVar y => String.eqb x y
  | ROwn, ROwn => true
  | _, _ => false
  end.

(* the object bound to variable [v] by the innermost enclosing Sync on it *)
Fixpoint lookup (v : string) (k : cont) : option cobj :=
  match k with
  | [] => None
  | IRel l o :: k' => if recv_eqb (lrecv l) (RVar v) then Some o else lookup v k'
  | IProg _ :: k' => lookup v k'
  end.

(* [resolve gl tid k r o]: receiver [r], evaluated by thread [tid] whose
   enclosing Syncs are those of [k], may denote object [o] *)
Definition resolve (gl : string -> N) (tid : nat) (k : cont) (r : recv) (o : cobj) : Prop :=
  match r with
  | RGlob g => o = OSh (gl g)
  | ROwn => o = OPriv tid
  | RVar v => match lookup v k with
              | Some o' => o = o'
              | None => exists n, o = OSh n
              end
  end.

Fixpoint held (k : cont) : list clock :=
  match k with
  | [] => []
  | IRel l o :: k' => (lcls l, o) :: held k'
  | IProg _ :: k' => held k'
  end.

Inductive event := ETau | EAcq (c : clock) | ERel (c : clock) | EAcc (a : access) (o : cobj).

Inductive tstep (gl : string -> N) (tid : nat) : cont -> event -> cont -> Prop :=
| TSkipAny p k : tstep gl tid (IProg p :: k) ETau k
| TSeq p q k : tstep gl tid (IProg (Seq p q) :: k) ETau (IProg p :: IProg q :: k)
| TStar p k : tstep gl tid (IProg (Star p) :: k) ETau (IProg p :: IProg (Star p) :: k)
| TAcc a o k : resolve gl tid k (arecv a) o ->
    tstep gl tid (IProg (Acc a) :: k) (EAcc a o) k
| TSync l p o k : resolve gl tid k (lrecv l) o ->
    tstep gl tid (IProg (Sync l p) :: k) (EAcq (lcls l, o)) (IProg p :: IRel l o :: k)
| TRel l o k : tstep gl tid (IRel l o :: k) (ERel (lcls l, o)) k.

Definition state := list cont.

Definition all_held (s : state) : list clock := flat_map held s.

Fixpoint upd {A} (l : list A) (i : nat) (x : A) : list A :=
  match l, i with
  | [], _ => []
  | _ :: r, O => x :: r
  | y :: r, S i' => y :: upd r i' x
  end.

(* one step of the whole region: a thread moves; a lock is acquired only when
   nobody (the thread itself included: Go mutexes are not reentrant) holds it *)
Inductive gstep (gl : string -> N) : state -> state -> Prop :=
| GStep s i k ev k' :
    nth_error s i = Some k ->
    tstep gl i k ev k' ->
    (forall c, ev = EAcq c -> ~ In c (all_held s)) ->
    gstep gl s (upd s i k').

Inductive steps (gl : string -> N) : state -> state -> Prop :=
| StepsRefl s : steps gl s s
| StepsTrans s1 s2 s3 : steps gl s1 s2 -> gstep gl s2 s3 -> steps gl s1 s3.

(* instances: thread i runs role [nth (is_ i)]; a role that is not replicated
   has at most one instance; any number of instances of the others *)
Definition valid_inst (rs : list role) (inst : list nat) : Prop :=
  (forall i, In i inst -> (i < List.length rs)%nat) /\
  (forall p q k ro, p <> q -> nth_error inst p = Some k -> nth_error inst q = Some k ->
                    nth_error rs k = Some ro -> rrepl ro = true).

Definition role_body (rs : list role) (k : nat) : prog :=
  match nth_error rs k with Some ro => rbody ro | None => Skip end.

Definition init (rs : list role) (inst : list nat) : state :=
  map (fun k => [IProg (role_body rs k)]) inst.

Definition kinds_conflict (a b : kind) : bool :=
  match a, b with
  | Rd, Rd => false
  | At, At => false
  | _, _ => true
  end.

Fixpoint locks_of (k : cont) : list lock :=
  match k with
  | [] => []
  | IRel l _ :: k' => l :: locks_of k'
  | IProg _ :: k' => locks_of k'
  end.

(* A DATA RACE: two different threads are each about to perform an access,
   the accesses conflict (same location class, not both reads, not both
   atomic) and may denote the same object.  [L1], [L2] are the static locks of
   the Syncs the two threads are inside of. *)
Definition race_at (gl : string -> N) (s : state) (i j : nat)
           (a1 : access) (L1 : list lock) (a2 : access) (L2 : list lock) : Prop :=
  i <> j /\
  exists k1 k2 o,
    nth_error s i = Some (IProg (Acc a1) :: k1) /\
    nth_error s j = Some (IProg (Acc a2) :: k2) /\
    L1 = locks_of k1 /\ L2 = locks_of k2 /\
    acls a1 = acls a2 /\ kinds_conflict (akind a1) (akind a2) = true /\
    resolve gl i k1 (arecv a1) o /\ resolve gl j k2 (arecv a2) o.

Definition race (gl : string -> N) (s : state) : Prop :=
  exists i j a1 L1 a2 L2, race_at gl s i j a1 L1 a2 L2.

(* ------------------------------------------------------------ the checker *)

Definition gacc := (access * list lock)%type.

(* every access of a body with the locks of the Syncs around it, innermost first *)
Fixpoint accs_of (p : prog) (L : list lock) : list gacc :=
  match p with
  | Skip => []
  | Seq a b => accs_of a L ++ accs_of b L
  | Acc a => [(a, L)]
  | Sync l q => accs_of q (l :: L)
  | Star q => accs_of q L
  end.

(* [if]s rather than [&&]/[||]: vm_compute is call-by-value, the boolean
   operators would evaluate both operands for each of the millions of pairs *)
Definition conflict (x y : gacc) : bool :=
  if kinds_conflict (akind (fst x)) (akind (fst y)) then String.eqb (acls (fst x)) (acls (fst y)) else false.

Definition is_glob (r : recv) : bool := match r with RGlob _ => true | _ => false end.

(* two held locks exclude each other for this pair of accesses: same lock
   class and either the same region-wide object, or each lock is taken on the
   very receiver its access goes through (self-lock discipline: b.Lock()
   guards the fields of b) *)
Definition excl (x y : gacc) (l1 l2 : lock) : bool :=
  if String.eqb (lcls l1) (lcls l2) then
    if (if is_glob (lrecv l1) then recv_eqb (lrecv l1) (lrecv l2) else false) then true
    else if recv_eqb (lrecv l1) (arecv (fst x)) then recv_eqb (lrecv l2) (arecv (fst y)) else false
  else false.

Definition some_own (x y : gacc) : bool :=
  if recv_eqb (arecv (fst x)) ROwn then true else recv_eqb (arecv (fst y)) ROwn.

Definition protected (x y : gacc) : bool :=
  if some_own x y then true else existsb (fun l1 => existsb (excl x y l1) (snd y)) (snd x).

(* an exemption is a set of access pairs the caller accepts as known *)
Definition exemption := gacc -> gacc -> bool.
Definition no_exempt : exemption := fun _ _ => false.

Definition pair_ok (ex : exemption) (x y : gacc) : bool :=
  if conflict x y then
    if protected x y then true else if ex x y then true else ex y x
  else true.

Definition check_roles (ex : exemption) (r1 r2 : role) : bool :=
  let ys := accs_of (rbody r2) [] in
  forallb (fun x => forallb (pair_ok ex x) ys) (accs_of (rbody r1) []).

Fixpoint check_roles_list (ex : exemption) (rs : list role) : bool :=
  match rs with
  | [] => true
  | ro :: rest =>
      (if rrepl ro then check_roles ex ro ro else true) &&
      forallb (check_roles ex ro) rest && check_roles_list ex rest
  end.

Definition check_region (ex : exemption) (g : region) : bool := check_roles_list ex (groles g).
Definition check_regions (ex : exemption) (gs : list region) : bool := forallb (check_region ex) gs.

(* ------------------------------------------------------------ reporting *)

(* the pairs [check_region] rejects, as (site, site) for the evidence and for
   the correspondence with the harness *)
Definition bad_pairs_roles (ex : exemption) (r1 r2 : role) : list (gacc * gacc) :=
  let ys := accs_of (rbody r2) [] in
  flat_map (fun x => map (fun y => (x, y)) (filter (fun y => negb (pair_ok ex x y)) ys))
           (accs_of (rbody r1) []).

Fixpoint bad_pairs_list (ex : exemption) (rs : list role) : list (gacc * gacc) :=
  match rs with
  | [] => []
  | ro :: rest =>
      (if rrepl ro then bad_pairs_roles ex ro ro else []) ++
      flat_map (bad_pairs_roles ex ro) rest ++ bad_pairs_list ex rest
  end.

Definition bad_pairs (ex : exemption) (g : region) : list (gacc * gacc) := bad_pairs_list ex (groles g).

(* the same, as readable sites: "Wr eth.Header.Hash jrpc2/client.go:808" *)
Definition kind_str (k : kind) : string := match k with Rd => "Rd" | Wr => "Wr" | At => "At" end.
Definition site (x : gacc) : string :=
  kind_str (akind (fst x)) ++ " " ++ acls (fst x) ++ " " ++ apos (fst x).
Definition pair_sites (ps : list (gacc * gacc)) : list (string * string) :=
  map (fun p => (site (fst p), site (snd p))) ps.
Definition residual (ex : exemption) (gs : list region) : list (string * string) :=
  flat_map (fun g => pair_sites (bad_pairs ex g)) gs.
