(* C07 — declarative vocabulary of the property statements (definitions only).
   Nothing here is executed by the correspondence run. *)
From Coq Require Import List Arith NArith Bool.
From Shovel Require Import Base.Outcome Model.Client.
Import ListNotations.
Open Scope N_scope.

(* the requested numbers start, start+1, ... (n of them) *)
Definition seqN (s : N) (n : nat) : list N := map (fun i => s + N.of_nat i) (seq 0 n).
Definition numbered (s : N) (bs : list block) : Prop := map b_num bs = seqN s (length bs).

(* every block names its predecessor's hash as parent *)
Fixpoint linked (bs : list block) : Prop :=
  match bs with
  | b1 :: r => match r with b2 :: _ => b_parent b2 = b_hash b1 /\ linked r | [] => True end
  | [] => True
  end.

Definition fetches (p : plan) : bool := use_blocks p || use_headers p.

(* which attachment request the second switch of Get makes (traces come after it, in addition) *)
Inductive akind := AReceipts | ALogs | ANone.
Definition attach_kind (p : plan) : akind :=
  if use_receipts p then AReceipts else if use_logs p then ALogs else ANone.

(* header part of a block: what eth_getBlockByNumber alone determines *)
Definition hdr (b : block) : N * bytes * bytes * payload := (b_num b, b_hash b, b_parent b, b_hpl b).

(* the transaction fields that receipts / logs / traces never touch *)
Definition tx_fixed (t : tx) : N * payload := (t_idx t, t_body t).

(* ---- one receipts element, requested for block number n, took base block
   [b] (None: no such block) to [b'] *)
Definition rcpt_of (r : rcpt) (t : tx) : Prop :=
  t_idx t = r_txidx r /\ t_hash t = r_txhash r /\ t_tft t = r_tft r /\ t_rcpt t = r_pl r /\ t_logs t = r_logs r.

Definition receipts_elem_ok (n : N) (e : relem) (ob ob' : option block) : Prop :=
  re_err e = false /\
  exists rs, re_res e = Some rs
    /\ (forall r, In r rs -> r_bnum r = n)                                   (* names the requested block *)
    /\ (rs = [] -> ob' = ob)                                                 (* a block without transactions *)
    /\ (rs <> [] -> exists b b', ob = Some b /\ ob' = Some b'
          /\ b_num b' = n /\ b_parent b' = b_parent b /\ b_hpl b' = b_hpl b
          /\ (b_hash b = [] \/ b_hash b' = b_hash b)                         (* a known hash is never replaced *)
          (* every receipt names this block's hash (a receipt WITHOUT a block hash is tolerated only
             while no hash is known for the block) *)
          /\ (forall r, In r rs -> r_bhash r = b_hash b' \/ (r_bhash r = [] /\ b_hash b = []))
          (* every receipt is attached to the transaction it names ... *)
          /\ (forall r, In r rs -> exists t r', In t (b_txs b') /\ In r' rs /\ r_txidx r' = r_txidx r /\ rcpt_of r' t)
          (* ... and every transaction of the result is a base transaction left alone or carries a receipt naming it *)
          /\ (forall t, In t (b_txs b') ->
                In t (b_txs b)
                \/ exists r t0, In r rs /\ rcpt_of r t /\ t_body t = t_body t0 /\ t_traces t = t_traces t0
                                /\ t_idx t0 = t_idx t /\ (In t0 (b_txs b) \/ t0 = new_tx (t_idx t)))).

(* ---- one trace_block reply *)
Definition traces_of (ts : list tracer) (idx : N) : list tracer := filter (fun t => tr_txidx t =? idx) ts.

Definition traces_elem_ok (n : N) (r : reply telem) (ob ob' : option block) : Prop :=
  exists e ts, r = RBody e /\ te_err e = false /\ te_res e = Some ts /\ ts <> []
    /\ (forall t, In t ts -> tr_bnum t = n)
    /\ exists b b', ob = Some b /\ ob' = Some b'
          /\ b_num b' = n /\ b_parent b' = b_parent b /\ b_hpl b' = b_hpl b
          /\ (b_hash b = [] \/ b_hash b' = b_hash b)
          /\ (forall t, In t ts -> tr_bhash t = b_hash b' \/ (tr_bhash t = [] /\ b_hash b = []))
          (* the transaction a trace names carries exactly the traces naming it, in reply order, renumbered from 0 *)
          /\ (forall t, In t ts -> exists x, In x (b_txs b') /\ t_idx x = tr_txidx t
                 /\ t_traces x = number_from 0 (map tr_pl (traces_of ts (tr_txidx t)))
                 /\ exists t1, In t1 ts /\ tr_txidx t1 = tr_txidx t /\ t_hash x = tr_txhash t1)
          /\ (forall x, In x (b_txs b') ->
                In x (b_txs b)
                \/ exists t x0, In t ts /\ tr_txidx t = t_idx x
                     /\ t_tft x = t_tft x0 /\ t_body x = t_body x0 /\ t_rcpt x = t_rcpt x0 /\ t_logs x = t_logs x0
                     /\ t_idx x0 = t_idx x /\ (In x0 (b_txs b) \/ x0 = new_tx (t_idx x))).

(* ---- the logs of one block.  [ls]: the logs of the reply (all of them) *)
Definition logs_block_ok (ls : list logr) (b b' : block) : Prop :=
  let mine := filter (fun l => lr_bnum l =? b_num b) ls in
  b_num b' = b_num b /\ b_parent b' = b_parent b /\ b_hpl b' = b_hpl b
  /\ (mine = [] -> b' = b)
  /\ (b_hash b = [] \/ b_hash b' = b_hash b)
  /\ (forall l, In l mine -> lr_bhash l = b_hash b' \/ (lr_bhash l = [] /\ b_hash b = []))
  (* every log is attached to the transaction it names (one log per log index: Logs.Add) *)
  /\ (forall l, In l mine -> exists t x, In t (b_txs b') /\ t_idx t = lr_txidx l
         /\ In x (t_logs t) /\ l_idx x = l_idx (lr_log l))
  (* every attached log was there before or is a log of the reply naming this block and transaction, unchanged *)
  /\ (forall t x, In t (b_txs b') -> In x (t_logs t) ->
        (exists t0, In t0 (b_txs b) /\ t_idx t0 = t_idx t /\ In x (t_logs t0))
        \/ exists l, In l mine /\ lr_txidx l = t_idx t /\ lr_log l = x)
  (* transactions: base transactions, plus one per transaction index named *)
  /\ (forall t, In t (b_txs b') ->
        exists t0, t_tft t = t_tft t0 /\ t_body t = t_body t0 /\ t_rcpt t = t_rcpt t0 /\ t_traces t = t_traces t0
           /\ t_idx t0 = t_idx t
           /\ ((In t0 (b_txs b) /\ (t = t0 \/ exists l, In l mine /\ lr_txidx l = t_idx t))
               \/ (t0 = new_tx (t_idx t) /\ exists l, In l mine /\ lr_txidx l = t_idx t))).

(* ---- decoded batch of block / header replies is what the request asked for *)
Definition blocks_reply_ok (s l : N) (r : reply (list belem)) (base : list block) : Prop :=
  exists es, r = RBody es
    /\ (forall e, In e es -> be_err e = false)
    /\ (N.to_nat l <= length es)%nat /\ 0 < l
    /\ length base = N.to_nat l
    /\ forall i, (i < N.to_nat l)%nat ->
         exists e b, nth_error es i = Some e /\ be_res e = Some b /\ nth_error base i = Some b
           /\ b_hash b <> [] /\ b_num b = s + N.of_nat i.

(* ---- what a successful Get did with the attachment replies, block by block:
   first the receipts or the logs (base -> mid), then the traces (mid -> result) *)
Definition stage1_faithful (p : plan) (s l : N) (w : world) (base mid : list block) : Prop :=
  length mid = length base /\
  match attach_kind p with
  | AReceipts =>
      exists es, w_receipts w = RBody es
        /\ (forall e, In e es -> re_err e = false)
        /\ (N.to_nat l <= length es)%nat
        /\ forall i, (i < N.to_nat l)%nat ->
             exists e, nth_error es i = Some e
               /\ receipts_elem_ok (s + N.of_nat i) e (nth_error base i) (nth_error mid i)
  | ALogs =>
      exists lb ls, w_logs w = RBody lb
        /\ (2 <= lb_len lb)%nat /\ lb_herr lb = false /\ lb_lerr lb = false
        /\ (exists h, lb_hdr lb = Some h
              (* the header that came with the logs is the one known for the last block *)
              /\ forall b, nth_error base (N.to_nat l - 1) = Some b -> b_hash b <> [] -> b_hash b = h)
        /\ lb_logs lb = Some (map Some ls)
        /\ (forall x, In x ls -> s <= lr_bnum x < s + l)
        /\ forall j b, nth_error base j = Some b ->
             exists b', nth_error mid j = Some b' /\ logs_block_ok ls b b'
  | ANone => mid = base
  end.

Definition stage2_faithful (p : plan) (s l : N) (w : world) (mid bs : list block) : Prop :=
  length bs = length mid /\
  if use_traces p then
    forall i, (i < N.to_nat l)%nat ->
      exists r, nth_error (w_traces w) i = Some r
        /\ traces_elem_ok (s + N.of_nat i) r (nth_error mid i) (nth_error bs i)
  else bs = mid.

Definition attach_faithful (p : plan) (s l : N) (w : world) (base bs : list block) : Prop :=
  exists mid, stage1_faithful p s l w base mid /\ stage2_faithful p s l w mid bs.

Definition block_reply (p : plan) (w : world) : reply (list belem) :=
  if use_blocks p then w_blocks w else w_headers w.

(* ---- the corruption classes of the property text, per reply that Get consults.
   [i] is a position of the request (block number s + i). *)
Inductive corrupted (p : plan) (s l : N) (w : world) : Prop :=
(* block / header batch *)
| CBlkFail : fetches p = true -> block_reply p w = RFail -> corrupted p s l w
| CBlkNone : fetches p = true -> l = 0 -> corrupted p s l w
| CBlkErr : forall es e, fetches p = true -> block_reply p w = RBody es -> In e es -> be_err e = true -> corrupted p s l w
| CBlkShort : forall es, fetches p = true -> block_reply p w = RBody es -> (length es < N.to_nat l)%nat -> corrupted p s l w
| CBlkNull : forall es i e, fetches p = true -> block_reply p w = RBody es -> (i < N.to_nat l)%nat ->
    nth_error es i = Some e -> be_res e = None -> corrupted p s l w
| CBlkNoHash : forall es i e b, fetches p = true -> block_reply p w = RBody es -> (i < N.to_nat l)%nat ->
    nth_error es i = Some e -> be_res e = Some b -> b_hash b = [] -> corrupted p s l w
(* renumbered, reordered, duplicated-in-place-of: some position holds another number *)
| CBlkNumber : forall es i e b, fetches p = true -> block_reply p w = RBody es -> (i < N.to_nat l)%nat ->
    nth_error es i = Some e -> be_res e = Some b -> b_num b <> s + N.of_nat i -> corrupted p s l w
| CBlkParent : forall es i ea a eb b, fetches p = true -> block_reply p w = RBody es -> (S i < N.to_nat l)%nat ->
    nth_error es i = Some ea -> be_res ea = Some a -> nth_error es (S i) = Some eb -> be_res eb = Some b ->
    b_parent b <> b_hash a -> corrupted p s l w
(* receipts batch *)
| CRcFail : attach_kind p = AReceipts -> w_receipts w = RFail -> corrupted p s l w
| CRcErr : forall es e, attach_kind p = AReceipts -> w_receipts w = RBody es -> In e es -> re_err e = true -> corrupted p s l w
| CRcShort : forall es, attach_kind p = AReceipts -> w_receipts w = RBody es -> (length es < N.to_nat l)%nat -> corrupted p s l w
| CRcNull : forall es i e, attach_kind p = AReceipts -> w_receipts w = RBody es -> (i < N.to_nat l)%nat ->
    nth_error es i = Some e -> re_res e = None -> corrupted p s l w
| CRcNumber : forall es i e rs r, attach_kind p = AReceipts -> w_receipts w = RBody es -> (i < N.to_nat l)%nat ->
    nth_error es i = Some e -> re_res e = Some rs -> In r rs -> r_bnum r <> s + N.of_nat i -> corrupted p s l w
| CRcHash : forall bes be b es i e rs r, attach_kind p = AReceipts -> fetches p = true ->
    block_reply p w = RBody bes -> nth_error bes i = Some be -> be_res be = Some b ->
    w_receipts w = RBody es -> (i < N.to_nat l)%nat -> nth_error es i = Some e -> re_res e = Some rs -> In r rs ->
    r_bhash r <> b_hash b -> corrupted p s l w
(* logs batch *)
| CLgFail : attach_kind p = ALogs -> w_logs w = RFail -> corrupted p s l w
| CLgShort : forall lb, attach_kind p = ALogs -> w_logs w = RBody lb -> (lb_len lb < 2)%nat -> corrupted p s l w
| CLgErr : forall lb, attach_kind p = ALogs -> w_logs w = RBody lb -> lb_herr lb = true \/ lb_lerr lb = true -> corrupted p s l w
| CLgNoHeader : forall lb, attach_kind p = ALogs -> w_logs w = RBody lb -> lb_hdr lb = None -> corrupted p s l w
(* the header fetched in the batch of eth_getLogs names another hash than the header fetched before
   (the logs come from another chain; with an empty log list nothing else would show it) *)
| CLgHeaderHash : forall bes be b lb h, attach_kind p = ALogs -> fetches p = true ->
    block_reply p w = RBody bes -> (0 < N.to_nat l)%nat -> nth_error bes (N.to_nat l - 1) = Some be -> be_res be = Some b ->
    w_logs w = RBody lb -> lb_hdr lb = Some h -> h <> b_hash b -> corrupted p s l w
| CLgNull : forall lb, attach_kind p = ALogs -> w_logs w = RBody lb -> lb_logs lb = None -> corrupted p s l w
| CLgNullLog : forall lb lo, attach_kind p = ALogs -> w_logs w = RBody lb -> lb_logs lb = Some lo -> In None lo -> corrupted p s l w
| CLgRange : forall lb lo x, attach_kind p = ALogs -> w_logs w = RBody lb -> lb_logs lb = Some lo -> In (Some x) lo ->
    ~ (s <= lr_bnum x < s + l) -> corrupted p s l w
| CLgHash : forall bes be b lb lo x i, attach_kind p = ALogs -> fetches p = true ->
    block_reply p w = RBody bes -> (i < N.to_nat l)%nat -> nth_error bes i = Some be -> be_res be = Some b ->
    w_logs w = RBody lb -> lb_logs lb = Some lo -> In (Some x) lo -> lr_bnum x = s + N.of_nat i ->
    lr_bhash x <> b_hash b -> corrupted p s l w
(* trace_block replies *)
| CTrFail : forall i, use_traces p = true -> (i < N.to_nat l)%nat ->
    nth_error (w_traces w) i = Some RFail \/ nth_error (w_traces w) i = None -> corrupted p s l w
| CTrErr : forall i e, use_traces p = true -> (i < N.to_nat l)%nat -> nth_error (w_traces w) i = Some (RBody e) ->
    te_err e = true -> corrupted p s l w
| CTrNull : forall i e, use_traces p = true -> (i < N.to_nat l)%nat -> nth_error (w_traces w) i = Some (RBody e) ->
    te_res e = None \/ te_res e = Some [] -> corrupted p s l w
| CTrNumber : forall i e ts t, use_traces p = true -> (i < N.to_nat l)%nat -> nth_error (w_traces w) i = Some (RBody e) ->
    te_res e = Some ts -> In t ts -> tr_bnum t <> s + N.of_nat i -> corrupted p s l w
| CTrHash : forall bes be b i e ts t, use_traces p = true -> fetches p = true ->
    block_reply p w = RBody bes -> nth_error bes i = Some be -> be_res be = Some b ->
    (i < N.to_nat l)%nat -> nth_error (w_traces w) i = Some (RBody e) -> te_res e = Some ts -> In t ts ->
    tr_bhash t <> b_hash b -> corrupted p s l w.
