(* Bridge cached client -> task layer: vocabulary (definitions only).

   The task layer (Model/TaskSpec.v) proves C01..C06 under premises on what the
   source returns: [reply_ok] and, for growth-only histories, [growth_reply].
   Properties/C01.v discharges [reply_ok] for the UNCACHED [Client.get].  The
   running system reads through the segment cache (Model/Cache.v, composed
   with the client in Model/CacheClient.v: [ccrun]) and the head cache
   (Model/HeadCache.v).  The definitions here state "what a task receives
   THROUGH THE CACHES" and "the node answers from versions that are prefixes of
   one canonical chain" in the vocabulary of the client model
   ([Client.world], [Client.reply], [ClientSpec.hdr]), with the block mapping
   of the existing client bridge ([BridgeClientTaskP.abs hid rowsf]). *)
From Coq Require Import List NArith Bool.
From Shovel Require Import Base.Outcome.
From Shovel Require Model.Cache Model.Client Model.ClientSpec Model.CacheClient Model.HeadCache
  Proofs.BridgeClientTaskP.
From Shovel Require Import Model.TaskTypes Model.TaskDb Model.Task Model.TaskNode Model.TaskSys
  Model.TaskSpec.
Import ListNotations.
Open Scope N_scope.

(* number, hash, parent of a client block: what of a header reaches the task *)
Definition nhp (b : Client.block) : N * bytes * bytes := fst (ClientSpec.hdr b).

(* the [i]-th Get of a run of the caching client -- any sequence of Gets of
   any plans and ranges, every call seeing its own reply family, any eviction
   choices, starting from the empty caches: the state in which the [i]-th call
   starts is ANY sequentially reachable state of the two caches -- was the
   call [op] and handed out [bs] *)
Definition cached_result (mx : N) (ops : list CacheClient.ccop) (i : nat)
           (op : CacheClient.ccop) (bs : list Client.block) : Prop :=
  exists cl outs, CacheClient.ccrun (CacheClient.new_cclient mx) ops = Some (cl, outs)
    /\ nth_error ops i = Some op /\ nth_error outs i = Some (Ok bs).

Section Defs.
Variable hid : bytes -> N.
Variable rowsf : Client.block -> list (N * N).

(* a partition of a load answered through the caches (or failed) *)
Definition cache_answer (pr : N * N) (r : segres) : Prop :=
  match r with
  | SegFail _ => True
  | SegOk xs => exists mx ops i op bs,
      cached_result mx ops i op bs
      /\ CacheClient.cc_s op = fst pr /\ CacheClient.cc_l op = snd pr
      /\ xs = map (BridgeClientTaskP.abs hid rowsf) bs
  end.

(* ---------- growth-only node, client vocabulary ---------- *)
(* [cch]: the canonical chain as the node holds it (full client-level blocks,
   index = number); the task-level canonical chain is its image *)
Variable cch : list Client.block.
Definition canon : chain := map (BridgeClientTaskP.abs hid rowsf) cch.
Definition cseg (s l : N) : list Client.block := firstn (N.to_nat l) (skipn (N.to_nat s) cch).

(* numbered from 0, every hash known, every block names its predecessor *)
Fixpoint cwf_from (n : N) (ph : bytes) (c : list Client.block) : Prop :=
  match c with
  | [] => True
  | b :: r => Client.b_num b = n /\ Client.b_hash b <> [] /\ Client.b_parent b = ph
              /\ cwf_from (n + 1) (Client.b_hash b) r
  end.
Definition cchain_wf (c : list Client.block) : Prop :=
  match c with
  | [] => False
  | g :: r => Client.b_num g = 0 /\ Client.b_hash g <> [] /\ cwf_from 1 (Client.b_hash g) r
  end.

(* every block WITH A HASH that a blocks/headers batch reply carries is the
   block version [v] has at that block's own number (number, hash, parent;
   timestamps and blooms are not constrained).  Nothing is said about
   failures, error elements, null results, short batches, blocks without a
   hash: the node may fail in any way. *)
Definition blocks_of (v : list Client.block) (r : Client.reply (list Client.belem)) : Prop :=
  forall es e b, r = Client.RBody es -> In e es -> Client.be_res e = Some b -> Client.b_hash b <> [] ->
    exists x, nth_error v (N.to_nat (Client.b_num b)) = Some x /\ nhp b = nhp x.

(* the reply family of one call comes from ONE version that is a prefix of the
   canonical chain (a different, shorter or longer, version for every call) *)
Definition world_on (w : Client.world) : Prop :=
  exists v, is_prefix_of v cch /\ blocks_of v (Client.w_blocks w) /\ blocks_of v (Client.w_headers w).

(* ---------- an invariant of segment contents carried through the cache ---------- *)
(* [J s l bs]: any property of the blocks a segment of key (s, l) may hold.
   A call KEEPS J when what its getter accepts has J and its attach phase --
   however far it gets -- takes J to J. *)
Variable J : N -> N -> list Client.block -> Prop.
Definition op_keeps (op : CacheClient.ccop) : Prop :=
  let p := CacheClient.cc_plan op in let s := CacheClient.cc_s op in
  let l := CacheClient.cc_l op in let w := CacheClient.cc_world op in
  (forall fb, ClientSpec.fetches p = true ->
              Client.fetch_blocks Client.repaired s l (ClientSpec.block_reply p w) = Ok fb -> J s l fb)
  /\ (forall bs bs' ok, J s l bs -> CacheClient.attach_p p s l w bs = (bs', ok) -> J s l bs').

(* the rows premise of the growth theorem: whatever J-base with canon's
   headers the cache hands to this call, the rows the task derives from what
   the call's (accepted) attach replies make of it are canon's rows *)
Definition rows_canon (op : CacheClient.ccop) : Prop :=
  let p := CacheClient.cc_plan op in let s := CacheClient.cc_s op in
  let l := CacheClient.cc_l op in let w := CacheClient.cc_world op in
  forall base bs, J s l base -> map nhp base = map nhp (cseg s l) ->
    Client.attach Client.repaired p s l w base = Ok bs ->
    map rowsf bs = map rowsf (cseg s l).

(* a partition of a load answered through the caches (or failed) by a node
   that answers every call of that client's history from a prefix version of
   canon, every call keeping J and satisfying the rows premise *)
Definition growth_cache_answer (pr : N * N) (r : segres) : Prop :=
  match r with
  | SegFail _ => True
  | SegOk xs => exists mx ops i op bs,
      Forall (fun o => world_on (CacheClient.cc_world o)) ops
      /\ Forall op_keeps ops /\ rows_canon op
      /\ cached_result mx ops i op bs
      /\ ClientSpec.fetches (CacheClient.cc_plan op) = true
      /\ CacheClient.cc_s op = fst pr /\ CacheClient.cc_l op = snd pr
      /\ xs = map (BridgeClientTaskP.abs hid rowsf) bs
  end.

(* ---------- head cache ---------- *)
(* an announced / directly fetched (number, hash) pair is a block of canon *)
Definition head_on (p : N * bytes) : Prop :=
  exists x, nth_error cch (N.to_nat (fst p)) = Some x /\ Client.b_hash x = snd p.
Definition hashes32 : Prop := forall x, In x cch -> length (Client.b_hash x) = 32%nat.
End Defs.

(* the direct request of Client.Latest, as the head cache sees it *)
Definition latest_src (r : Client.reply Client.hreply) : option (N * bytes) :=
  match Client.latest r with Ok nh => Some nh | _ => None end.

(* the full statement of the growth goal WITHOUT a rows premise: refuted in
   Proofs/BridgeCacheTaskP.v ([growth_needs_rows_premise]) *)
Definition cached_growth_unconditional_full : Prop :=
  forall hid rowsf cch mx ops i op bs,
    (forall h, hid h = 0 <-> h = []) ->
    Forall (fun o => world_on cch (CacheClient.cc_world o)) ops ->
    cached_result mx ops i op bs -> ClientSpec.fetches (CacheClient.cc_plan op) = true ->
    canon_seg true (canon hid rowsf cch) (CacheClient.cc_s op, CacheClient.cc_l op)
              (SegOk (map (BridgeClientTaskP.abs hid rowsf) bs)).

(* ---------- concrete instance for the non-vacuity examples ---------- *)
Definition xb (n h p : N) (txs : list Client.tx) : Client.block := Client.mkBlock n [h] [p] [n] txs.
(* canonical chain 0..3; block 2 has one transaction with two logs *)
Definition ex_cch : list Client.block :=
  [xb 0 10 0 []; xb 1 11 10 [];
   xb 2 12 11 [Client.mkTx 0 [100] [2] [] [1] [Client.mkLog 0 [7]; Client.mkLog 1 [8]] []];
   xb 3 13 12 []].
Definition ex_hid (h : bytes) : N := match h with [] => 0 | x :: _ => x + 1 end.
(* rows: one per log, key = (tx idx, log idx) folded into a number *)
Definition ex_rowsf (b : Client.block) : list (N * N) :=
  flat_map (fun t => map (fun l => (Client.t_idx t * 1000 + Client.l_idx l, hd 0 (Client.l_pl l)))
                         (Client.t_logs t)) (Client.b_txs b).
Definition hdr_only (b : Client.block) : Client.block :=
  Client.mkBlock (Client.b_num b) (Client.b_hash b) (Client.b_parent b) (Client.b_hpl b) [].
Definition hdr_reply (v : list Client.block) (s l : N) : Client.reply (list Client.belem) :=
  Client.RBody (map (fun b => Client.mkBelem false (Some (hdr_only b)))
                    (firstn (N.to_nat l) (skipn (N.to_nat s) v))).
Definition ex_rcpt (bn h : N) : Client.rcpt := Client.mkRcpt bn [h] 0 [100] [2] [1] [Client.mkLog 0 [7]; Client.mkLog 1 [8]].
(* the honest reply family for (headers + receipts, 1, 2) of the version of
   height [n] *)
Definition ex_world (n : nat) : Client.world :=
  Client.mkWorld Client.RFail (hdr_reply (firstn n ex_cch) 1 2)
    (Client.RBody [Client.mkRelem false (Some []); Client.mkRelem false (Some [ex_rcpt 2 12])])
    Client.RFail [].
Definition ex_plan : Client.plan := Client.mkPlan true false true false false.
(* reader 1 is answered from the version of height 3 (blocks 0..2), reader 2
   asks when the node is at height 4 -- and is served from the cache, its own
   block reply is not even looked at (here: a transport failure) *)
Definition ex_op1 : CacheClient.ccop := CacheClient.mkCcop ex_plan 1 2 (ex_world 3) [].
Definition ex_op2 : CacheClient.ccop :=
  CacheClient.mkCcop ex_plan 1 2
    (Client.mkWorld Client.RFail Client.RFail (Client.w_receipts (ex_world 4)) Client.RFail []) [].

(* witness for the refutation: same run, but reader 2's receipts reply drops a
   log (a node that is honest about headers only) *)
Definition ex_op2_bad : CacheClient.ccop :=
  CacheClient.mkCcop ex_plan 1 2
    (Client.mkWorld Client.RFail Client.RFail
       (Client.RBody [Client.mkRelem false (Some []);
                      Client.mkRelem false (Some [Client.mkRcpt 2 [12] 0 [100] [2] [1] [Client.mkLog 0 [7]]])])
       Client.RFail []) [].

(* an instance of the invariant premises: headers-only plan over blocks 0..1
   (no transactions); J: "no transaction attached" *)
Definition ex_plan_h : Client.plan := Client.mkPlan true false false false false.
Definition ex_op_h : CacheClient.ccop :=
  CacheClient.mkCcop ex_plan_h 0 2
    (Client.mkWorld Client.RFail (hdr_reply (firstn 3 ex_cch) 0 2) Client.RFail Client.RFail []) [].
Definition ex_J (s l : N) (bs : list Client.block) : Prop := Forall (fun b => Client.b_txs b = []) bs.

(* a chain with 32-byte hashes for the head cache examples *)
Definition ex_h32 (n : N) : bytes := repeat (n + 1) 32.
Definition ex_cch32 : list Client.block :=
  map (fun n => Client.mkBlock n (ex_h32 n) (match n with 0 => [] | _ => ex_h32 (n - 1) end) [] []) [0; 1; 2; 3].
(* the poller announces block 2; a first Latest(1) hits *)
Definition ex_head_ops : list HeadCache.lop :=
  [HeadCache.LUpdate 2 (ex_h32 2); HeadCache.LLatest 1 None].
