(* C19 — dashboard authentication.  Executable model of shovel/web/web.go:
   New (password choice), Handler.Authn, Handler.Login, isLoopback, and of the
   route table of cmd/shovel/main.go (ServeMux dispatch over simple patterns).
   Definitions only; the proofs are in Proofs/AuthnP.v.

   What is abstracted:
   * a session cookie is a symbolic token [CTok i n]: the n-th session issued
     by handler instance i (i = one call of web.New = one age identity).  Whether
     session.Get accepts a cookie is a parameter [verifies] of the model; the
     theorems assume it accepts exactly the unexpired tokens this instance
     issued (cryptography of filippo.io/age + kr/session, trusted);
   * subtle.ConstantTimeCompare(a, b) == 1 is byte-string equality;
   * net.SplitHostPort / net.ParseIP / IP.IsLoopback act on address classes. *)
From Coq Require Import List NArith Bool String Ascii.
From Shovel Require Import Base.Outcome.
Import ListNotations.

(* ------------------------------------------------------------------ *)
(* remote addresses (http.Request.RemoteAddr), by class                *)

Inductive host :=
| HLoop4            (* 127.0.0.1 *)
| HLoop4Net         (* any other 127.x.y.z *)
| HLoop6            (* ::1 *)
| HLoopMapped       (* ::ffff:127.0.0.1 (IPv4-mapped) *)
| HPrivate          (* 10.0.0.1, 192.168.x.y, ::ffff:10.0.0.1 ... *)
| HPublic           (* 8.8.8.8 ... *)
| HUnspecified      (* 0.0.0.0, :: *)
| HZone             (* ::1%lo0 : an address with a zone, net.ParseIP returns nil *)
| HName             (* localhost, 127.1, 127.0.0.1.evil.com, "" : not an IP literal *).

Inductive remote :=
| RHostPort (h : host)   (* "host:port" / "[host]:port": SplitHostPort succeeds *)
| RNoPort (h : host)     (* bare host without ":port": SplitHostPort fails *)
| RMalformed.            (* "", "garbage", "[::1", "a:b:c" ...: SplitHostPort fails *)

(* net.ParseIP(host): None = nil *)
Inductive ipclass := IPLoopback | IPOther.
Definition parse_ip (h : host) : option ipclass :=
  match h with
  | HLoop4 | HLoop4Net | HLoop6 | HLoopMapped => Some IPLoopback
  | HPrivate | HPublic | HUnspecified => Some IPOther
  | HZone | HName => None
  end.
Definition split_host_port (r : remote) : option host :=
  match r with RHostPort h => Some h | RNoPort _ => None | RMalformed => None end.
(* isLoopback(r): host, _, err := SplitHostPort; if err != nil {false}; ParseIP(host).IsLoopback()
   (IsLoopback of the nil IP is false) *)
Definition is_loopback (r : remote) : bool :=
  match split_host_port r with
  | None => false
  | Some h => match parse_ip h with Some IPLoopback => true | _ => false end
  end.

(* ------------------------------------------------------------------ *)
(* requests and responses                                              *)

Inductive meth := MGet | MPost | MOther.   (* Login switches on "GET", "POST", default *)

Inductive cookie :=
| CNone                            (* no cookie named "session" *)
| CGarbage                         (* a value that no instance ever produced *)
| CTok (inst serial : nat)         (* the serial-th session issued by instance inst *)
| CExpired (inst : nat).           (* encrypted to inst's key, expiry in the past *)

Inductive target := TProtected | TLogin.

Record request := {
  tgt : target; rmeth : meth; rem : remote; cook : cookie;
  guess : option bytes   (* form value "password"; None: the form does not parse *)
}.

Record response := {
  ran : bool;                       (* did the wrapped (protected) handler run *)
  status : N;
  location : bytes;                 (* Location header, [] when absent *)
  set_cookie : option (nat * nat)   (* token carried by a Set-Cookie: session=... *)
}.

Definition loc_login : bytes := [47; 108; 111; 103; 105; 110]%N.  (* "/login" *)
Definition loc_root : bytes := [47]%N.                              (* "/" *)

(* the wrapped handler of the correspondence run answers 200 *)
Definition served : response := {| ran := true; status := 200%N; location := []; set_cookie := None |}.
Definition redirect_login : response :=
  {| ran := false; status := 303%N; location := loc_login; set_cookie := None |}.
Definition plain (st : N) : response := {| ran := false; status := st; location := []; set_cookie := None |}.

(* ------------------------------------------------------------------ *)
(* the handler                                                         *)

Record config := {
  disable_authn : bool;
  enable_loopback_authn : bool;
  root_password : bytes        (* "" : not configured *)
}.

Record handler := {
  conf : config;
  password : bytes;            (* h.password *)
  inst : nat;                  (* identity of h.sess.Keys[0] *)
  issued : list nat            (* ghost: serials of the sessions issued so far *)
}.

Definition is_nil {A} (l : list A) : bool := match l with [] => true | _ => false end.

(* web.New: the configured password, or a generated one when none is configured *)
Definition new (c : config) (generated : bytes) (i : nat) : handler :=
  {| conf := c;
     password := if is_nil (root_password c) then generated else root_password c;
     inst := i; issued := [] |}.

Section WithSession.
  (* session.Get(r, _, &h.sess) == nil *)
  Variable verifies : handler -> cookie -> bool.

  (* Handler.Authn(next) *)
  Definition authn (h : handler) (r : request) : response :=
    if disable_authn (conf h) then served
    else if negb (enable_loopback_authn (conf h)) && is_loopback (rem r) then served
    else if verifies h (cook r) then served
    else redirect_login.

  Definition issue (h : handler) : handler * nat :=
    let n := List.length (issued h) in
    ({| conf := conf h; password := password h; inst := inst h; issued := issued h ++ [n] |}, n).

  (* Handler.Login *)
  Definition login (h : handler) (r : request) : handler * response :=
    match rmeth r with
    | MGet => (h, plain 200%N)
    | MPost =>
        match guess r with
        | None => (h, plain 400%N)
        | Some g =>
            if bytes_eqb g (password h) then
              let (h', n) := issue h in
              (h', {| ran := false; status := 303%N; location := loc_root;
                      set_cookie := Some (inst h, n) |})
            else (h, plain 401%N)
        end
    | MOther => (h, plain 405%N)
    end.

  Definition step (h : handler) (r : request) : handler * response :=
    match tgt r with
    | TProtected => (h, authn h r)
    | TLogin => login h r
    end.

  Fixpoint run_hist (h : handler) (rs : list request) : handler * list response :=
    match rs with
    | [] => (h, [])
    | r :: rs' =>
        let (h1, o) := step h r in
        let (h2, os) := run_hist h1 rs' in (h2, o :: os)
    end.
End WithSession.

(* the instance of [verifies] used by the correspondence run: a cookie is
   accepted iff it is an unexpired token of this instance that was issued *)
Definition verifies_issued (h : handler) (c : cookie) : bool :=
  match c with
  | CTok i n => Nat.eqb i (inst h) && existsb (Nat.eqb n) (issued h)
  | _ => false
  end.

(* ------------------------------------------------------------------ *)
(* the route table of cmd/shovel/main.go                               *)

Record route := {
  pattern : string;      (* first argument of mux.Handle / mux.HandleFunc *)
  hname : string;        (* method of the web handler that is registered (or "ext:..." ) *)
  wrapped : bool         (* registered as wh.Authn(wh.<hname>) *)
}.

Definition mutating : list string :=
  ["SaveSource"; "SaveIntegration"; "AddSource"; "AddIntegration"; "Updates"]%string.

Definition required : list (string * string) :=
  [("/save-source", "SaveSource"); ("/save-integration", "SaveIntegration");
   ("/add-source", "AddSource"); ("/add-integration", "AddIntegration");
   ("/task-updates", "Updates")]%string.

Definition mem (s : string) (l : list string) : bool := existsb (String.eqb s) l.

Definition ends_with_slash (s : string) : bool :=
  match rev (list_ascii_of_string s) with
  | c :: _ => Ascii.eqb c "/"%char
  | [] => false
  end.

(* http.ServeMux over literal patterns: an exact match wins; otherwise the
   longest registered pattern ending in "/" that is a prefix of the path *)
Definition exact_match (rs : list route) (path : string) : option route :=
  find (fun r => String.eqb (pattern r) path) rs.
Definition longer (a b : route) : route :=
  if Nat.ltb (String.length (pattern a)) (String.length (pattern b)) then b else a.
Fixpoint prefix_match (rs : list route) (path : string) : option route :=
  match rs with
  | [] => None
  | r :: rs' =>
      let rest := prefix_match rs' path in
      if ends_with_slash (pattern r) && String.prefix (pattern r) path then
        match rest with Some r' => Some (longer r r') | None => Some r end
      else rest
  end.
Definition dispatch (rs : list route) (path : string) : option route :=
  match exact_match rs path with
  | Some r => Some r
  | None => prefix_match rs path
  end.

(* the checker run on the regenerated table (Gen/Routes.v) *)
Definition route_ok (r : route) : bool :=
  implb (mem (hname r) mutating || mem (pattern r) (map fst required)) (wrapped r).
Definition required_ok (rs : list route) (p : string * string) : bool :=
  match dispatch rs (fst p) with
  | Some r => String.eqb (hname r) (snd p) && wrapped r
  | None => false
  end.
Definition check_routes (rs : list route) : bool :=
  forallb route_ok rs && forallb (required_ok rs) required.

(* ------------------------------------------------------------------ *)
(* the handler chain of cmd/shovel/main.go between the server and the  *)
(* mux (e.g. log(true, mux)), outermost wrapper first: for each        *)
(* wrapper, which parts of the request it writes before it calls the   *)
(* inner handler ("*" = the whole request)                             *)

Record wrapper := { wname : string; writes_before : list string }.

(* what Authn's decision reads from the request: the TCP peer address and
   the Cookie header *)
Definition authn_reads : list string := ["RemoteAddr"; "Header"]%string.

Definition wrapper_ok (w : wrapper) : bool :=
  forallb (fun f => negb (mem f authn_reads) && negb (String.eqb f "*")) (writes_before w).
Definition check_chain (ws : list wrapper) : bool := forallb wrapper_ok ws.

(* a request as a valuation of its parts; a wrapper may change exactly the
   parts it writes (anything at all when it writes "*") *)
Definition req := string -> N.
Definition wrapper_rel (w : wrapper) (r r' : req) : Prop :=
  mem "*"%string (writes_before w) = false /\
  forall f, mem f (writes_before w) = false -> r' f = r f.
Definition wrapper_sem (w : wrapper) (r r' : req) : Prop :=
  mem "*"%string (writes_before w) = true \/ wrapper_rel w r r'.
Fixpoint chain_sem (ws : list wrapper) (r r' : req) : Prop :=
  match ws with
  | [] => r' = r
  | w :: rest => exists m, wrapper_sem w r m /\ chain_sem rest m r'
  end.
