(* C17: transcription of eth/types.go (decode, Uint64/Byte/Bytes.UnmarshalJSON,
   Bytes.Write), eth/encoding.go (DecodeHex, EncodeHex) and encoding/hex.Decode
   as used there.  Tokens and strings are byte lists (list N, each < 256). *)
From Coq Require Import List NArith Bool.
From Shovel Require Import Base.Outcome.
Import ListNotations.
Open Scope N_scope.

Definition two64 : N := 18446744073709551616.

(* the three-way switch of eth.decode / encoding/hex's reverse table *)
Definition nibble (c : N) : option N :=
  if (48 <=? c) && (c <=? 57) then Some (c - 48)
  else if (97 <=? c) && (c <=? 102) then Some (c - 97 + 10)
  else if (65 <=? c) && (c <=? 70) then Some (c - 65 + 10)
  else None.

(* eth.decode: every character is examined; a value that does not fit 64 bits
   is an error (res >> 60 != 0 before the shift). *)
Fixpoint decode_from (res : N) (b : bytes) : option N :=
  match b with
  | [] => Some res
  | c :: r =>
      match nibble c with
      | None => None
      | Some n =>
          if 1152921504606846976 <=? res (* res >> 60 != 0 *) then None
          else decode_from (N.lor (res * 16) n) r
      end
  end.
Definition decode (b : bytes) : option N := decode_from 0 b.

(* data[1:len-1][2:] for len >= 4: drop three in front, one at the back *)
Definition strip (tok : bytes) : bytes :=
  skipn 3 (removelast tok).

Definition uint64_unmarshal (tok : bytes) : outcome N :=
  if N.of_nat (length tok) <? 4 then Err
  else match decode (strip tok) with Some n => Ok n | None => Err end.

Definition byte_unmarshal (tok : bytes) : outcome N :=
  if N.of_nat (length tok) <? 4 then Err
  else match decode (strip tok) with Some n => Ok (n mod 256) | None => Err end.

(* encoding/hex.Decode(dst, src): writes dst[i] for each valid pair, in order,
   stops at the first invalid character; odd length is an error after the
   pairs (and after checking the dangling character).  Returns the bytes
   written and whether it succeeded. *)
Fixpoint hex_pairs (src : bytes) : list N * bool :=
  match src with
  | [] => ([], true)
  | [p] => ([], false)
  | p :: q :: r =>
      match nibble p, nibble q with
      | Some a, Some b =>
          let '(l, ok) := hex_pairs r in ((a * 16 + b) :: l, ok)
      | _, _ => ([], false)
      end
  end.

(* overwrite a prefix of [dst] by [w] *)
Fixpoint overwrite (dst w : bytes) : bytes :=
  match w, dst with
  | [], _ => dst
  | x :: w', _ :: d' => x :: overwrite d' w'
  | _ :: _, [] => []
  end.

(* visible part of the destination after  append-zeros / re-slice to n *)
Definition resize (hb : bytes) (n : nat) : bytes :=
  firstn n hb ++ repeat 0 (n - length hb).

(* Bytes.UnmarshalJSON on destination [hb]: outcome (ok/err) and the new
   visible destination contents *)
Definition bytes_unmarshal (hb tok : bytes) : bool * bytes :=
  if N.of_nat (length tok) <? 4 then (false, hb)
  else
    let data := strip tok in
    let n := Nat.div (length data) 2 in
    let '(w, ok) := hex_pairs data in
    (ok, overwrite (resize hb n) w).

Definition bytes_write (hb p : bytes) : bytes :=
  overwrite (resize hb (length p)) p.

(* destination operations, for "any sequence of decodes into one destination" *)
Inductive dop := DUnmarshal (tok : bytes) | DWrite (p : bytes).
Definition dstep (hb : bytes) (o : dop) : bool * bytes :=
  match o with
  | DUnmarshal tok => bytes_unmarshal hb tok
  | DWrite p => (true, bytes_write hb p)
  end.
Fixpoint drun (hb : bytes) (ops : list dop) : list (bool * bytes) :=
  match ops with
  | [] => []
  | o :: r => let res := dstep hb o in res :: drun (snd res) r
  end.

(* eth.DecodeHex: optional 0x/0X prefix, odd length padded with a leading
   zero digit, errors ignored (the prefix decoded so far is returned) *)
Definition strip0x (s : bytes) : bytes :=
  match s with
  | 48 :: x :: r => if (x =? 120) || (x =? 88) then r else s
  | _ => s
  end.
Definition decode_hex (s : bytes) : bytes :=
  let s := strip0x s in
  let s := if Nat.odd (length s) then 48 :: s else s in
  fst (hex_pairs s).

Definition hexdigit (n : N) : N := if n <? 10 then 48 + n else 97 + (n - 10).
Definition encode_hex (b : bytes) : bytes :=
  48 :: 120 :: flat_map (fun x => [hexdigit (x / 16); hexdigit (x mod 16)]) b.
