(* Go-semantics primitives shared by all models: three-valued outcomes
   (normal return, error return, run-time panic), byte strings. *)
From Coq Require Import List NArith ZArith Bool.
Import ListNotations.

Inductive outcome (A : Type) : Type :=
| Ok (a : A)
| Err
| Panic.
Arguments Ok {A} a.
Arguments Err {A}.
Arguments Panic {A}.

Definition bind {A B} (o : outcome A) (f : A -> outcome B) : outcome B :=
  match o with Ok a => f a | Err => Err | Panic => Panic end.

Notation "'do' x <- o ; f" := (bind o (fun x => f))
  (at level 200, x name, o at level 100, f at level 200).

Definition is_ok {A} (o : outcome A) : bool :=
  match o with Ok _ => true | _ => false end.
Definition is_panic {A} (o : outcome A) : bool :=
  match o with Panic => true | _ => false end.

(* bytes are N below 256; the well-formedness predicate is explicit *)
Definition byte := N.
Definition bytes := list N.
Definition wf_bytes (b : bytes) : Prop := Forall (fun x => (x < 256)%N) b.
Definition wf_bytesb (b : bytes) : bool := forallb (fun x => (x <? 256)%N) b.

Fixpoint list_eqb {A} (eqb : A -> A -> bool) (a b : list A) : bool :=
  match a, b with
  | [], [] => true
  | x :: a', y :: b' => eqb x y && list_eqb eqb a' b'
  | _, _ => false
  end.
Definition bytes_eqb := list_eqb N.eqb.

Definition option_eqb {A} (eqb : A -> A -> bool) (a b : option A) : bool :=
  match a, b with
  | None, None => true
  | Some x, Some y => eqb x y
  | _, _ => false
  end.

Definition outcome_eqb {A} (eqb : A -> A -> bool) (a b : outcome A) : bool :=
  match a, b with
  | Ok x, Ok y => eqb x y
  | Err, Err => true
  | Panic, Panic => true
  | _, _ => false
  end.

(* indices (0-based) of the cases on which [f] is false *)
Fixpoint mismatches_from {A} (f : A -> bool) (i : nat) (l : list A) : list nat :=
  match l with
  | [] => []
  | x :: r => if f x then mismatches_from f (S i) r else i :: mismatches_from f (S i) r
  end.
Definition mismatches {A} (f : A -> bool) (l : list A) : list nat := mismatches_from f 0 l.
