(* Generic case syntax for the correspondence runner.  The harness prints every
   case as an s-expression; the (extracted or vm_compute'd) model decodes it
   with the total functions below.  Atoms are decimal numbers or tags, [SB] are
   raw byte strings (written #hex by the harness). *)
From Coq Require Import List NArith ZArith Bool String Ascii.
From Shovel Require Import Base.Outcome.
Import ListNotations.
Open Scope N_scope.

Inductive sx := SA (a : bytes) | SB (b : bytes) | SL (l : list sx).

Definition tag (s : string) : bytes := map N_of_ascii (list_ascii_of_string s).
Definition is_tag (s : string) (x : sx) : bool :=
  match x with SA a => bytes_eqb a (tag s) | _ => false end.

Definition dec_digits (a : bytes) : option N :=
  fold_left (fun acc c =>
               match acc with
               | None => None
               | Some n => if (48 <=? c) && (c <=? 57) then Some (n * 10 + (c - 48)) else None
               end) a (Some 0).

Definition sx_N (x : sx) : option N :=
  match x with
  | SA [] => None
  | SA a => dec_digits a
  | _ => None
  end.
Definition sx_nat (x : sx) : option nat := option_map N.to_nat (sx_N x).
Definition sx_Z (x : sx) : option Z :=
  match x with
  | SA (45 :: a) => option_map (fun n => Z.opp (Z.of_N n)) (sx_N (SA a))
  | _ => option_map Z.of_N (sx_N x)
  end.
Definition sx_bool (x : sx) : option bool :=
  match sx_N x with Some 0 => Some false | Some 1 => Some true | _ => None end.
Definition sx_bytes (x : sx) : option bytes :=
  match x with SB b => Some b | _ => None end.

Fixpoint all_some {A} (l : list (option A)) : option (list A) :=
  match l with
  | [] => Some []
  | None :: _ => None
  | Some x :: r => option_map (cons x) (all_some r)
  end.
Definition sx_list {A} (f : sx -> option A) (x : sx) : option (list A) :=
  match x with SL l => all_some (map f l) | _ => None end.
Definition sx_pair {A B} (f : sx -> option A) (g : sx -> option B) (x : sx) : option (A * B) :=
  match x with
  | SL [a; b] => match f a, g b with Some a', Some b' => Some (a', b') | _, _ => None end
  | _ => None
  end.
(* (none) | (some v) *)
Definition sx_opt {A} (f : sx -> option A) (x : sx) : option (option A) :=
  match x with
  | SL [t] => if is_tag "none" t then Some None else None
  | SL [t; v] => if is_tag "some" t then option_map Some (f v) else None
  | _ => None
  end.
(* (ok v) | (err) | (panic) *)
Definition sx_outcome {A} (f : sx -> option A) (x : sx) : option (outcome A) :=
  match x with
  | SL [t] => if is_tag "err" t then Some Err else if is_tag "panic" t then Some Panic else None
  | SL [t; v] => if is_tag "ok" t then option_map Ok (f v) else None
  | _ => None
  end.

Definition obind {A B} (o : option A) (f : A -> option B) : option B :=
  match o with Some a => f a | None => None end.
Notation "'let?' x := o 'in' f" := (obind o (fun x => f))
  (at level 200, x name, o at level 100, f at level 200).

(* a case that does not parse counts as a mismatch *)
Definition checked {A} (parse : sx -> option A) (check : A -> bool) (x : sx) : bool :=
  match parse x with Some c => check c | None => false end.
