(* C09: the (repaired) decoder applied to the Solidity ABI encoding of any
   well-typed value of any type in the row-rule domain, followed by arbitrary
   bytes, returns exactly the rows the value-level rule prescribes
   ([scan_enc_exact_l]).  Structure: layout lemmas for the head/tail encoding,
   view of a decoder state as byte strings, effect of [scan] on the view by the
   nested induction over the type tree ([scan_enc]). *)
From Coq Require Import List NArith ZArith Bool Lia ZifyN ZifyNat ZifyBool.
From Shovel Require Import Base.Outcome Model.Hex Model.Bint Model.AbiType Model.AbiScan Model.AbiEnc
     Proofs.BintP Proofs.AbiScanP.
Import ListNotations.
Open Scope N_scope.
Ltac Zify.zify_post_hook ::= Z.div_mod_to_equations.
Arguments N.add : simpl never.
Arguments N.sub : simpl never.
Arguments N.mul : simpl never.
Arguments N.div : simpl never.
Arguments N.ltb : simpl never.
Arguments N.leb : simpl never.
Arguments N.eqb : simpl never.
Arguments N.pow : simpl never.

(* ---- [At D o b]: the byte string [b] occurs in [D] at offset [o] ---- *)
Definition At (D : bytes) (o : N) (b : bytes) : Prop :=
  exists pre post, D = pre ++ b ++ post /\ blen pre = o.

Lemma blen_app a b : blen (a ++ b) = blen a + blen b.
Proof. unfold blen. rewrite app_length. lia. Qed.

Lemma At_len D o b : At D o b -> o + blen b <= L D.
Proof.
  intros (pre & post & -> & <-). unfold L, blen. rewrite !app_length. lia.
Qed.

Lemma At_app_l D o a b : At D o (a ++ b) -> At D o a.
Proof.
  intros (pre & post & -> & <-). exists pre, (b ++ post). rewrite <- app_assoc. auto.
Qed.

Lemma At_app_r D o a b : At D o (a ++ b) -> At D (o + blen a) b.
Proof.
  intros (pre & post & -> & <-). exists (pre ++ a), post. rewrite <- !app_assoc. split; [reflexivity|].
  apply blen_app.
Qed.

Lemma At_mid D o a b c : At D o (a ++ b ++ c) -> At D (o + blen a) b.
Proof. intros H. apply At_app_r in H. apply At_app_l in H. exact H. Qed.

Lemma At_read D o b : At D o b -> firstn (length b) (skipn (N.to_nat o) D) = b.
Proof.
  intros (pre & post & -> & <-). unfold blen. rewrite Nat2N.id.
  rewrite skipn_app, skipn_all, Nat.sub_diag. cbn [skipn app].
  rewrite firstn_app, firstn_all, Nat.sub_diag. cbn. apply app_nil_r.
Qed.

Lemma At_whole b rest : At (b ++ rest) 0 b.
Proof. exists [], rest. split; reflexivity. Qed.

(* ---- words ---- *)
Lemma word32_length n : length (word32 n) = 32%nat.
Proof. apply be_length. Qed.
Lemma blen_word32 n : blen (word32 n) = 32.
Proof. unfold blen. rewrite word32_length. reflexivity. Qed.

Lemma decode64_word32 n : n < two64 -> decode64 (word32 n) = n.
Proof.
  intros H. unfold word32. rewrite decode64_dec_from.
  rewrite dec_from_be; [lia| |lia].
  unfold two64 in H. change (256 ^ N.of_nat 32) with (2 ^ 256).
  assert (2 ^ 64 < 2 ^ 256) by (apply N.pow_lt_mono_r; lia).
  change (2 ^ 64) with 18446744073709551616 in H0. lia.
Qed.

Lemma word_at_At D o a w :
  At D (o + a) w -> length w = 32%nat -> word_at D o a = Ok (decode64 w).
Proof.
  intros H Hl. pose proof (At_len _ _ _ H) as Hlen. unfold blen in Hlen. rewrite Hl in Hlen.
  unfold word_at. replace (slen D o <? a + 32) with false by (unfold slen; lia).
  pose proof (At_read _ _ _ H) as Hr. rewrite Hl in Hr. rewrite Hr. reflexivity.
Qed.

(* ---- static-ness and sizes agree with the Solidity definition ---- *)
Lemma is_static_dyn t : is_static t = negb (dyn_ty t).
Proof.
  induction t as [s|s|k e IH|fs IH] using aty_ind'; cbn [is_static dyn_ty]; try reflexivity.
  - destruct (k =? 0); cbn; [reflexivity|exact IH].
  - induction IH as [|f fs Hf _ IH2]; cbn; [reflexivity|]. rewrite Hf, IH2.
    destruct (dyn_ty f); reflexivity.
Qed.

Lemma heads_len ms : forall off, blen (heads ms off) = hsum ms.
Proof.
  induction ms as [|[d e] ms IH]; intros off; cbn [heads hsum fold_right]; [reflexivity|].
  destruct d; rewrite blen_app, IH; unfold hsz; cbn [fst snd]; [rewrite blen_word32|]; reflexivity.
Qed.

Lemma hsum_app a b : hsum (a ++ b) = hsum a + hsum b.
Proof.
  unfold hsum. induction a as [|m a IH]; cbn [app fold_right]; [lia|]. rewrite IH. lia.
Qed.

Lemma tails_app a b : tails (a ++ b) = tails a ++ tails b.
Proof.
  induction a as [|[d e] a IH]; cbn [app tails]; [reflexivity|]. destruct d; [rewrite <- app_assoc|]; rewrite IH; reflexivity.
Qed.

(* layout: where the member after the prefix [a] lies *)
Lemma heads_app a : forall b off, heads (a ++ b) off = heads a off ++ heads b (off + blen (tails a)).
Proof.
  induction a as [|[d e] a IH]; intros b off; cbn [app heads tails].
  - unfold blen; cbn. f_equal. lia.
  - destruct d.
    + rewrite <- app_assoc. f_equal. rewrite IH. f_equal. f_equal. rewrite blen_app. lia.
    + rewrite <- app_assoc. f_equal. apply IH.
Qed.

Lemma enc_seq_len ms : blen (enc_seq ms) = hsum ms + blen (tails ms).
Proof. unfold enc_seq. rewrite blen_app, heads_len. reflexivity. Qed.

(* a static member sits in the head area at the sum of the earlier head sizes *)
Lemma enc_seq_static D base (a : list member) e (b : list member) :
  At D base (enc_seq (a ++ ((false, e) : member) :: b)) -> At D (base + hsum a) e.
Proof.
  intros H. unfold enc_seq in H. rewrite heads_app in H. cbn [heads] in H.
  rewrite <- !app_assoc in H. apply At_mid in H. rewrite heads_len in H. exact H.
Qed.

(* a dynamic member: its head word holds the offset (relative to the start of
   the sequence) at which its encoding sits *)
Lemma enc_seq_dynamic D base (a : list member) e (b : list member) :
  let ms := a ++ ((true, e) : member) :: b in
  let w := hsum ms + blen (tails a) in
  At D base (enc_seq ms) -> At D (base + hsum a) (word32 w) /\ At D (base + w) e.
Proof.
  intros ms w H. split.
  - unfold enc_seq, ms in H. rewrite heads_app in H. cbn [heads] in H.
    rewrite <- !app_assoc in H. apply At_mid in H. rewrite heads_len in H. exact H.
  - unfold enc_seq in H. apply At_app_r in H. rewrite heads_len in H.
    unfold ms in H at 2. rewrite tails_app in H. cbn [tails] in H.
    apply At_mid in H. unfold w. replace (base + (hsum ms + blen (tails a))) with (base + hsum ms + blen (tails a)) by lia.
    exact H.
Qed.

Lemma hsum_ge ms : Forall (fun m => 32 <= hsz m) ms -> 32 * N.of_nat (length ms) <= hsum ms.
Proof.
  unfold hsum. induction 1 as [|m ms Hm _ IH]; cbn [length fold_right]; lia.
Qed.

(* all-static sequences are plain concatenations *)
Lemma enc_seq_static_len ms : Forall (fun m => fst m = false) ms -> blen (enc_seq ms) = hsum ms.
Proof.
  intros H. rewrite enc_seq_len. assert (E : tails ms = []).
  { induction H as [|[d e] ms Hd _ IH]; [reflexivity|]. cbn in Hd. subst. exact IH. }
  rewrite E. unfold blen; cbn. lia.
Qed.

(* the member lists of the two composite encodings *)
Fixpoint tmembers (fs : list aty) (vs : list aval) : list member :=
  match vs, fs with
  | v :: vs', f :: fs' => (dyn_ty f, enc f v) :: tmembers fs' vs'
  | _, _ => []
  end.
Definition amembers (e : aty) (vs : list aval) : list member := map (fun v => (dyn_ty e, enc e v)) vs.

Lemma enc_tuple fs vs : enc (TTuple fs) (VTuple vs) = enc_seq (tmembers fs vs).
Proof.
  cbn [enc]. f_equal. revert fs. induction vs as [|v vs IH]; intros [|f fs]; try reflexivity.
  cbn [tmembers]. f_equal. apply IH.
Qed.

Lemma enc_arr k e vs :
  enc (TArr k e) (VArr vs) = (if k =? 0 then word32 (N.of_nat (length vs)) else []) ++ enc_seq (amembers e vs).
Proof. reflexivity. Qed.

(* inversion of typing *)
Lemma ht_word s v : has_type (TWord s) v -> exists w, v = VWord w /\ length w = 32%nat.
Proof. intros H. inversion H; subst. eauto. Qed.
Lemma ht_dyn s v : has_type (TDyn s) v -> exists b, v = VBytes b.
Proof. intros H. inversion H; subst. eauto. Qed.
Lemma ht_arr k e v : has_type (TArr k e) v ->
  exists vs, v = VArr vs /\ (k = 0 \/ N.of_nat (length vs) = k) /\ Forall (has_type e) vs.
Proof. intros H. inversion H; subst. eauto. Qed.
Lemma ht_tuple fs v : has_type (TTuple fs) v -> exists vs, v = VTuple vs /\ Forall2 has_type fs vs.
Proof. intros H. inversion H; subst. eauto. Qed.

Lemma tmembers_static fs : Forall (fun f => dyn_ty f = false) fs ->
  forall vs, Forall (fun m => fst m = false) (tmembers fs vs).
Proof.
  induction 1 as [|f fs Hf _ IH]; intros [|v vs]; cbn [tmembers]; constructor; auto.
Qed.

Lemma static_size t : forall v, dyn_ty t = false -> has_type t v -> blen (enc t v) = size t.
Proof.
  induction t as [s|s|k e IH|fs IH] using aty_ind'; intros v Hd Ht; cbn [dyn_ty] in Hd.
  - apply ht_word in Ht. destruct Ht as (w & -> & Hw). cbn [enc size]. unfold blen. rewrite Hw. reflexivity.
  - discriminate.
  - apply ht_arr in Ht. destruct Ht as (vs & -> & Hk & Hvs).
    apply orb_false_iff in Hd. destruct Hd as [Hk0 He].
    rewrite enc_arr, Hk0. cbn [app size].
    destruct Hk as [Hk|Hk]; [subst; discriminate|]. subst k.
    rewrite enc_seq_static_len.
    + clear Hk0. induction Hvs as [|v vs Hv _ IH2]; [reflexivity|].
      change (hsum (amembers e (v :: vs))) with (hsz (dyn_ty e, enc e v) + hsum (amembers e vs)).
      unfold hsz. cbn [fst snd]. rewrite He, (IH v He Hv), IH2. cbn [length]. lia.
    + unfold amembers. apply Forall_forall. intros m Hm. apply in_map_iff in Hm.
      destruct Hm as (v & <- & _). exact He.
  - apply ht_tuple in Ht. destruct Ht as (vs & -> & Hvs).
    rewrite enc_tuple. cbn [size].
    assert (Hall : Forall (fun f => dyn_ty f = false) fs).
    { apply Forall_forall. intros f Hf. destruct (dyn_ty f) eqn:E; [|reflexivity].
      exfalso. assert (existsb dyn_ty fs = true) by (apply existsb_exists; eauto). congruence. }
    rewrite enc_seq_static_len by (apply tmembers_static; exact Hall).
    clear Hd. revert IH Hall. induction Hvs as [|f v fs vs Hfv _ IH2]; intros IH Hall.
    + reflexivity.
    + inversion IH as [|? ? Hf IHr]; subst. inversion Hall as [|? ? Hdf Hallr]; subst.
      change (hsum (tmembers (f :: fs) (v :: vs))) with (hsz (dyn_ty f, enc f v) + hsum (tmembers fs vs)).
      unfold hsz. cbn [fst snd fold_right]. rewrite Hdf, (Hf v Hdf Hfv), (IH2 IHr Hallr). reflexivity.
Qed.

(* ---- lists ---- *)
Definition upd {A} (i : nat) (f : A -> A) (l : list A) : list A :=
  match nth_error l i with Some x => set_nth i (f x) l | None => l end.

Lemma nth_error_set_nth_eq {A} i (x : A) l : (i < length l)%nat -> nth_error (set_nth i x l) i = Some x.
Proof.
  revert l. induction i as [|i IH]; intros [|h t] H; cbn in *; try lia; [reflexivity|]. apply IH. lia.
Qed.
Lemma set_nth_set_nth {A} i (x y : A) l : set_nth i y (set_nth i x l) = set_nth i y l.
Proof. revert l. induction i as [|i IH]; intros [|h t]; cbn; auto. f_equal. apply IH. Qed.
Lemma set_nth_same {A} i (x : A) l : nth_error l i = Some x -> set_nth i x l = l.
Proof.
  revert l. induction i as [|i IH]; intros [|h t] H; cbn in *; try discriminate.
  - inversion H. reflexivity.
  - f_equal. apply IH. exact H.
Qed.
Lemma map_set_nth {A B} (f : A -> B) i x l : map f (set_nth i x l) = set_nth i (f x) (map f l).
Proof. revert l. induction i as [|i IH]; intros [|h t]; cbn; auto. f_equal. apply IH. Qed.

Lemma upd_id {A} i (f : A -> A) l : (forall x, f x = x) -> upd i f l = l.
Proof.
  intros Hf. unfold upd. destruct (nth_error l i) eqn:E; [|reflexivity]. rewrite Hf. apply set_nth_same. exact E.
Qed.
Lemma upd_comp {A} i (f g : A -> A) l : upd i g (upd i f l) = upd i (fun x => g (f x)) l.
Proof.
  unfold upd. destruct (nth_error l i) as [x|] eqn:E.
  - assert (Hi : (i < length l)%nat) by (apply nth_error_Some; congruence).
    rewrite nth_error_set_nth_eq by exact Hi. apply set_nth_set_nth.
  - rewrite E. reflexivity.
Qed.
Lemma upd_ext {A} i (f g : A -> A) l : (forall x, f x = g x) -> upd i f l = upd i g l.
Proof. intros H. unfold upd. destruct (nth_error l i); [rewrite H|]; reflexivity. Qed.
Lemma upd_snoc {A} (f : A -> A) l x : upd (length l) f (l ++ [x]) = l ++ [f x].
Proof.
  unfold upd. rewrite nth_error_app2 by lia. rewrite Nat.sub_diag. cbn [nth_error].
  induction l as [|h t IH]; cbn; [reflexivity|]. f_equal. exact IH.
Qed.
Lemma map_upd {A B} (g : A -> B) (f : A -> A) (f' : B -> B) i l :
  (forall x, g (f x) = f' (g x)) -> map g (upd i f l) = upd i f' (map g l).
Proof.
  intros H. unfold upd. rewrite nth_error_map. destruct (nth_error l i); cbn [option_map]; [|reflexivity].
  rewrite map_set_nth, H. reflexivity.
Qed.

Lemma wr_app a b r : wr (a ++ b) r = wr b (wr a r).
Proof. unfold wr. apply fold_left_app. Qed.

(* ---- the effect of a scan on the byte-level view of the decoder state ---- *)
Definition vstate := (vrowT * list vrowT)%type.

Definition eff (nc : nat) (c : cur) (lc : cells) (er : list cells) (v : vstate) : vstate :=
  match c with
  | CSingle => (wr lc (fst v), snd v ++ map (mkrow nc) er)
  | CRow i => (fst v, upd i (wr lc) (snd v))
  end.

Lemma eff_nil nc c v : eff nc c [] [] v = v.
Proof.
  destruct v as [a b]. destruct c; cbn [eff fst snd map wr fold_left].
  - rewrite app_nil_r. reflexivity.
  - rewrite upd_id; reflexivity.
Qed.

Lemma eff_app nc c l1 l2 e1 e2 v :
  eff nc c (l1 ++ l2) (e1 ++ e2) v = eff nc c l2 e2 (eff nc c l1 e1 v).
Proof.
  destruct v as [a b]. destruct c; cbn [eff fst snd].
  - rewrite wr_app, map_app, app_assoc. reflexivity.
  - rewrite upd_comp. f_equal. apply upd_ext. intros x. apply wr_app.
Qed.

Section Exact.
Variable D : bytes.
Variable ncols : nat.
Hypothesis HL : L D < two64.
Notation Inv := (Inv D ncols).

Definition view (s : st) : vstate := (vrow D (single s), vrows D s).

Lemma vrow_blank : vrow D (blank ncols) = repeat None ncols.
Proof. unfold vrow, blank. induction ncols as [|n IH]; cbn; [reflexivity|]. f_equal. exact IH. Qed.

Lemma view_tick s : view (tick s) = view s.
Proof. reflexivity. Qed.

Lemma get_row_view s :
  Inv s -> exists s', get_row ncols s = Some (s', CRow (nrows s)) /\ Inv s' /\ nrows s' = S (nrows s) /\
                      view s' = (fst (view s), snd (view s) ++ [repeat None ncols]) /\
                      length (snd (view s)) = nrows s.
Proof.
  intros HI. destruct (get_row_post D ncols s HI) as (s' & Hg & I' & Hn & _ & Hs & _ & _ & Hr).
  exists s'. split; [exact Hg|]. split; [exact I'|]. split; [exact Hn|]. split.
  - unfold view, vrows. rewrite Hr, Hs, map_app. cbn [map fst snd]. rewrite vrow_blank. reflexivity.
  - unfold view, vrows, rows_out. cbn [snd]. rewrite map_length, firstn_length.
    destruct HI as (_ & _ & H3 & _). lia.
Qed.

Lemma put_view s c p off len b :
  Inv s -> cur_ok s c -> (p < ncols)%nat ->
  firstn (N.to_nat len) (skipn (N.to_nat off) D) = b ->
  exists s', put s c p (off, len) = SOk s' /\ view s' = eff ncols c [(p, b)] [] (view s).
Proof.
  intros (I1 & I2 & I3 & I4 & I5) Hc Hp Hb. unfold put. destruct c as [|i].
  - rewrite I1. replace (Nat.ltb p ncols) with true by lia. eexists. split; [reflexivity|].
    unfold view, with_single, vrows, rows_out. cbn [single coll nrows eff fst snd map wr fold_left].
    rewrite app_nil_r. f_equal. unfold vrow. rewrite map_set_nth. cbn [vcell]. rewrite Hb. reflexivity.
  - cbn in Hc. destruct (nth_error (coll s) i) as [r|] eqn:En.
    2:{ apply nth_error_None in En. lia. }
    assert (Hr : length r = ncols) by exact (nth_error_Forall _ _ _ _ I2 En).
    rewrite Hr. replace (Nat.ltb p ncols) with true by lia. eexists. split; [reflexivity|].
    unfold view, with_coll, vrows, rows_out. cbn [single coll nrows eff fst snd wr fold_left].
    f_equal. rewrite firstn_set_nth_lt by lia.
    unfold upd. rewrite nth_error_map, nth_error_firstn_lt, En by lia. cbn [option_map].
    rewrite map_set_nth. f_equal. unfold vrow. rewrite map_set_nth. cbn [vcell]. rewrite Hb. reflexivity.
Qed.

(* facts about the final state of a successful scan, from the safety induction *)
Lemma scan_ok_inv t s c o s' :
  sel_ok ncols t -> Inv s -> cur_ok s c -> o <= L D -> scan D ncols t s c o = SOk s' ->
  Inv s' /\ (nrows s <= nrows s')%nat.
Proof.
  intros Hsel HI Hc Ho Hs. pose proof (scan_post D ncols t Hsel s c o HI Hc Ho) as Hp.
  rewrite Hs in Hp. destruct Hp as (a & b & _). split; assumption.
Qed.

Lemma leaf_cells_nosel t : forall v, has_select t = false -> leaf_cells t v = [].
Proof.
  induction t as [s|s|k e IH|fs IH] using aty_ind'; intros v Hs; cbn [has_select] in Hs.
  - destruct s; [discriminate|]. destruct v; reflexivity.
  - destruct s; [discriminate|]. destruct v; reflexivity.
  - destruct v; reflexivity.
  - destruct v as [| |vs|vs]; try reflexivity. cbn [leaf_cells].
    revert vs. induction IH as [|f fs Hf _ IH2]; intros [|v vs]; try reflexivity.
    cbn in Hs. apply orb_false_iff in Hs. destruct Hs as [Hs1 Hs2].
    rewrite (Hf v Hs1). cbn [app]. apply IH2. exact Hs2.
Qed.

Lemma elem_rows_nosel t : forall v, has_select t = false -> elem_rows t v = [].
Proof.
  induction t as [s|s|k e IH|fs IH] using aty_ind'; intros v Hs; cbn [has_select] in Hs.
  - destruct v; reflexivity.
  - destruct v; reflexivity.
  - destruct v; try reflexivity. cbn [elem_rows]. rewrite Hs. reflexivity.
  - destruct v as [| |vs|vs]; try reflexivity. cbn [elem_rows].
    revert vs. induction IH as [|f fs Hf _ IH2]; intros [|v vs]; try reflexivity.
    cbn in Hs. apply orb_false_iff in Hs. destruct Hs as [Hs1 Hs2].
    rewrite (Hf v Hs1). cbn [app]. apply IH2. exact Hs2.
Qed.

Definition Pexact (t : aty) : Prop := forall v s c o,
  has_type t v -> dom t = true -> sel_ok ncols t ->
  Inv s -> cur_ok s c -> (forall i, c = CRow i -> no_sel_arr t = true) ->
  At D o (enc t v) ->
  exists s', scan D ncols t s c o = SOk s' /\
             view s' = eff ncols c (leaf_cells t v) (elem_rows t v) (view s).

Lemma exact_word sel : Pexact (TWord sel).
Proof.
  intros v s c o Ht _ Hsel HI Hc _ HA. apply ht_word in Ht. destruct Ht as (w & -> & Hw).
  cbn [enc] in HA. pose proof (At_len _ _ _ HA) as Hlen. unfold blen in Hlen. rewrite Hw in Hlen.
  cbn [scan]. replace (slen D o <? 32) with false by (unfold slen; lia).
  destruct sel as [p|].
  - rewrite srange_ok by (unfold slen; lia). cbn [lift].
    cbn [leaf_cells elem_rows]. apply put_view; auto.
    + unfold sel_ok in Hsel. cbn in Hsel. inversion Hsel; assumption.
    + replace (o + 0) with o by lia. replace (N.to_nat (32 - 0)) with (length w) by (rewrite Hw; reflexivity).
      apply At_read. exact HA.
  - exists s. split; [reflexivity|]. cbn [leaf_cells elem_rows]. rewrite eff_nil. reflexivity.
Qed.

Lemma pad32_app b : exists z, pad32 b = b ++ z.
Proof. unfold pad32. eauto. Qed.

Lemma exact_dyn sel : Pexact (TDyn sel).
Proof.
  intros v s c o Ht _ Hsel HI Hc _ HA. apply ht_dyn in Ht. destruct Ht as (b & ->).
  cbn [enc] in HA. pose proof (At_len _ _ _ HA) as Hlen. rewrite blen_app, blen_word32 in Hlen.
  assert (Hb : blen b < two64).
  { destruct (pad32_app b) as [z Hz]. rewrite Hz, blen_app in Hlen. lia. }
  cbn [scan]. replace (slen D o <? 32) with false by (unfold slen; lia).
  rewrite (word_at_At D o 0 (word32 (blen b))).
  2:{ replace (o + 0) with o by lia. apply At_app_l in HA. exact HA. }
  2:{ apply word32_length. }
  rewrite decode64_word32 by exact Hb. cbn [lift].
  destruct (blen b =? 0) eqn:E0.
  - assert (b = []) by (destruct b; [reflexivity|unfold blen in E0; cbn in E0; lia]). subst b.
    exists s. split; [reflexivity|]. destruct sel; cbn [leaf_cells elem_rows]; rewrite eff_nil; reflexivity.
  - destruct (pad32_app b) as [z Hz].
    replace (slen D o - 32 <? blen b) with false by (rewrite Hz, blen_app in Hlen; unfold slen; lia).
    destruct sel as [p|].
    + rewrite srange_ok by (rewrite Hz, blen_app in Hlen; unfold slen; lia). cbn [lift].
      assert (Hlc : leaf_cells (TDyn (Some p)) (VBytes b) = [(p, b)]).
      { destruct b; [unfold blen in E0; cbn in E0; lia|reflexivity]. }
      rewrite Hlc. cbn [elem_rows]. apply put_view; auto.
      * unfold sel_ok in Hsel. cbn in Hsel. inversion Hsel; assumption.
      * replace (N.to_nat (32 + blen b - 32)) with (length b) by (unfold blen; lia).
        apply At_read. apply At_app_r in HA. rewrite blen_word32 in HA. rewrite Hz in HA.
        apply At_app_l in HA. exact HA.
    + exists s. split; [reflexivity|]. cbn [leaf_cells elem_rows]. rewrite eff_nil. reflexivity.
Qed.

Lemma no_sel_arr_dom t : no_sel_arr t = true -> dom t = true.
Proof.
  induction t as [s|s|k e IH|fs IH] using aty_ind'; cbn [no_sel_arr dom]; intros H; try reflexivity.
  - apply negb_true_iff in H. rewrite H. reflexivity.
  - induction IH as [|f fs Hf _ IH2]; cbn in *; [reflexivity|].
    apply andb_prop in H. destruct H as [H1 H2]. rewrite (Hf H1), (IH2 H2). reflexivity.
Qed.

Lemma leaf_cells_arr e v : is_arr e = true -> leaf_cells e v = [].
Proof. destruct e; try discriminate. intros _. destruct v; reflexivity. Qed.

(* rows contributed by the elements [vs] of an array of [e] *)
Definition arows (e : aty) (vs : list aval) : list cells :=
  if is_arr e then flat_map (elem_rows e) vs else map (leaf_cells e) vs.

Section ArrLoop.
  Variable e : aty.
  Hypothesis IHe : Pexact e.
  Hypothesis Es : has_select e = true.
  Hypothesis Hd : (if is_arr e then dom e else no_sel_arr e) = true.
  Hypothesis Hsel : sel_ok ncols e.

  Lemma dom_e : dom e = true.
  Proof. destruct (is_arr e); [exact Hd|apply no_sel_arr_dom; exact Hd]. Qed.

  (* the row the element is decoded into *)
  Lemma body_row s0 : Inv s0 ->
    exists s1 c1,
      (if is_arr e then Some (tick s0, CSingle) else get_row ncols (tick s0)) = Some (s1, c1) /\
      Inv s1 /\ cur_ok s1 c1 /\ (forall i, c1 = CRow i -> no_sel_arr e = true) /\
      (forall v, eff ncols c1 (leaf_cells e v) (elem_rows e v) (view s1) =
                 (fst (view s0), snd (view s0) ++ map (mkrow ncols) (arows e [v]))).
  Proof.
    intros HI. unfold arows. destruct (is_arr e) eqn:Ea.
    - exists (tick s0), CSingle. split; [reflexivity|]. split; [exact HI|]. split; [exact I|].
      split; [discriminate|]. intros v. cbn [eff flat_map]. rewrite view_tick, app_nil_r.
      rewrite leaf_cells_arr by exact Ea. reflexivity.
    - destruct (get_row_view (tick s0) HI) as (s1 & Hg & I1 & Hn & Hv & Hlen).
      exists s1, (CRow (nrows (tick s0))). split; [exact Hg|]. split; [exact I1|]. split; [unfold cur_ok; lia|].
      split; [intros _ _; exact Hd|]. intros v. cbn [eff map]. rewrite Hv. cbn [fst snd].
      rewrite view_tick in *. f_equal. rewrite <- Hlen. unfold mkrow. apply upd_snoc.
  Qed.

  Variable o start : N.
  Variable vs : list aval.
  Hypothesis Hvs : Forall (has_type e) vs.
  Hypothesis HA : At D (o + start) (enc_seq (amembers e vs)).

  Lemma amembers_app a b : amembers e (a ++ b) = amembers e a ++ amembers e b.
  Proof. apply map_app. Qed.

  Lemma arr_loop_exact : forall rest done s0 fuel,
    vs = done ++ rest -> Inv s0 -> (length rest < fuel)%nat ->
    exists s',
      arr_loop D ncols e (scan D ncols e) o CSingle fuel (N.of_nat (length done)) (N.of_nat (length vs))
               (start + hsum (amembers e done)) start s0 = SOk s' /\
      view s' = (fst (view s0), snd (view s0) ++ map (mkrow ncols) (arows e rest)).
  Proof.
    induction rest as [|v rest IH]; intros done s0 fuel Hsplit HI Hfuel.
    - destruct fuel as [|fuel]; [cbn in Hfuel; lia|]. cbn [arr_loop].
      rewrite app_nil_r in Hsplit. subst done.
      replace (N.of_nat (length vs) <=? N.of_nat (length vs)) with true by lia.
      exists s0. split; [reflexivity|]. unfold arows. destruct (is_arr e); cbn [flat_map map]; rewrite app_nil_r;
        destruct (view s0); reflexivity.
    - destruct fuel as [|fuel]; [cbn in Hfuel; lia|]. cbn [arr_loop].
      assert (Hlen : length vs = (length done + S (length rest))%nat) by (rewrite Hsplit, app_length; reflexivity).
      replace (N.of_nat (length vs) <=? N.of_nat (length done)) with false by lia.
      assert (Hv : has_type e v).
      { rewrite Hsplit in Hvs. apply Forall_app in Hvs. destruct Hvs as [_ H2]. inversion H2; assumption. }
      assert (Hms : amembers e vs = amembers e done ++ ((dyn_ty e, enc e v) : member) :: amembers e rest).
      { rewrite Hsplit, amembers_app. reflexivity. }
      unfold arr_body.
      destruct (body_row s0 HI) as (s1 & c1 & Hsc & I1 & Hc1 & Hrow1 & Heff).
      rewrite Hsc.
      (* where the element sits, and that the body is the scan of the element there *)
      assert (Hsub : exists sub, At D sub (enc e v) /\
        (if is_static e
         then if slen D o <? start + hsum (amembers e done) then SErr s1
              else lift (sfrom D o (start + hsum (amembers e done))) s1 (fun sub => scan D ncols e s1 c1 sub)
         else if slen D o <? start + hsum (amembers e done) + 32 then SErr s1
              else lift (word_at D o (start + hsum (amembers e done))) s1 (fun w =>
                   if slen D o - start <? w then SErr s1
                   else lift (sfrom D o (start + w)) s1 (fun sub => scan D ncols e s1 c1 sub)))
        = scan D ncols e s1 c1 sub).
      { rewrite is_static_dyn. rewrite Hms in HA. destruct (dyn_ty e) eqn:Ed; cbn [negb].
        - try rewrite Ed in Hms. destruct (enc_seq_dynamic D (o + start) _ _ _ HA) as [Hw Ht]. rewrite <- Hms in Hw, Ht.
          set (w := hsum (amembers e vs) + blen (tails (amembers e done))) in *.
          pose proof (At_len _ _ _ Hw) as Hl1. rewrite blen_word32 in Hl1.
          pose proof (At_len _ _ _ Ht) as Hl2.
          exists (o + (start + w)). split; [replace (o + (start + w)) with (o + start + w) by lia; exact Ht|].
          replace (slen D o <? start + hsum (amembers e done) + 32) with false by (unfold slen; lia).
          rewrite (word_at_At D o _ (word32 w)).
          2:{ replace (o + (start + hsum (amembers e done))) with (o + start + hsum (amembers e done)) by lia. exact Hw. }
          2:{ apply word32_length. }
          rewrite decode64_word32 by lia. cbn [lift].
          replace (slen D o - start <? w) with false by (unfold slen; lia).
          rewrite sfrom_ok by (unfold slen; lia). reflexivity.
        - pose proof (enc_seq_static D (o + start) _ _ _ HA) as Ht.
          pose proof (At_len _ _ _ Ht) as Hl2.
          exists (o + (start + hsum (amembers e done))).
          split; [replace (o + (start + hsum (amembers e done))) with (o + start + hsum (amembers e done)) by lia; exact Ht|].
          replace (slen D o <? start + hsum (amembers e done)) with false by (unfold slen; lia).
          rewrite sfrom_ok by (unfold slen; lia). reflexivity. }
      destruct Hsub as (sub & Hat & ->).
      destruct (IHe v s1 c1 sub Hv dom_e Hsel I1 Hc1 Hrow1 Hat) as (s2 & Hs2 & Hv2).
      rewrite Hs2.
      pose proof (At_len _ _ _ Hat) as Hsubl.
      destruct (scan_ok_inv e s1 c1 sub s2 Hsel I1 Hc1 ltac:(lia) Hs2) as [I2 _].
      specialize (IH (done ++ [v]) s2 fuel).
      rewrite app_length in IH. cbn [length] in IH.
      replace (N.of_nat (length done) + 1) with (N.of_nat (length done + 1)) by lia.
      assert (Hpos : start + hsum (amembers e done) + step e = start + hsum (amembers e (done ++ [v]))).
      { rewrite amembers_app, hsum_app. cbn [amembers map]. unfold hsum at 3. cbn [fold_right]. unfold hsz, step. cbn [fst snd].
        rewrite is_static_dyn. destruct (dyn_ty e) eqn:Ed; cbn [negb]; [lia|].
        rewrite (static_size e v Ed Hv). lia. }
      rewrite Hpos.
      destruct IH as (s' & Hl & Hv').
      { rewrite <- app_assoc. exact Hsplit. }
      { exact I2. }
      { cbn [length] in Hfuel. lia. }
      exists s'. split; [exact Hl|]. rewrite Hv', Hv2, Heff. cbn [fst snd].
      rewrite <- app_assoc, <- map_app. f_equal. f_equal. f_equal.
      unfold arows. destruct (is_arr e); cbn [flat_map map]; [rewrite app_nil_r|]; reflexivity.
  Qed.
End ArrLoop.

Lemma amembers_heads e vs : has_select e = true -> Forall (has_type e) vs ->
  32 * N.of_nat (length vs) <= blen (enc_seq (amembers e vs)).
Proof.
  intros Es Hvs. rewrite enc_seq_len.
  assert (H : 32 * N.of_nat (length (amembers e vs)) <= hsum (amembers e vs)).
  { apply hsum_ge. unfold amembers. apply Forall_forall. intros m Hm. apply in_map_iff in Hm.
    destruct Hm as (v & <- & Hv). unfold hsz. cbn [fst snd]. destruct (dyn_ty e) eqn:Ed; [lia|].
    rewrite Forall_forall in Hvs. rewrite (static_size e v Ed (Hvs v Hv)).
    apply size_static_select; [exact Es|]. rewrite is_static_dyn, Ed. reflexivity. }
  unfold amembers in H at 1. rewrite map_length in H. lia.
Qed.

Lemma exact_arr k e : Pexact e -> Pexact (TArr k e).
Proof.
  intros IHe v s c o Ht Hdom Hsel HI Hc Hrow HA.
  apply ht_arr in Ht. destruct Ht as (vs & -> & Hk & Hvs).
  cbn [scan]. destruct (has_select e) eqn:Es; cbn [negb].
  2:{ exists s. split; [reflexivity|]. cbn [leaf_cells elem_rows]. rewrite Es, eff_nil. reflexivity. }
  assert (c = CSingle).
  { destruct c as [|i]; [reflexivity|]. specialize (Hrow i eq_refl). cbn [no_sel_arr] in Hrow.
    rewrite Es in Hrow. discriminate. }
  subst c. cbn [dom] in Hdom. rewrite Es in Hdom.
  rewrite enc_arr in HA. pose proof (At_len _ _ _ HA) as Hlen. rewrite blen_app in Hlen.
  pose proof (amembers_heads e vs Es Hvs) as Hh.
  assert (Hfuel : (length vs < fuel0 D)%nat).
  { unfold fuel0. unfold L in Hlen. lia. }
  assert (Hres : forall s', view s' = (fst (view s), snd (view s) ++ map (mkrow ncols) (arows e vs)) ->
                 view s' = eff ncols CSingle (leaf_cells (TArr k e) (VArr vs)) (elem_rows (TArr k e) (VArr vs)) (view s)).
  { intros s' ->. cbn [leaf_cells elem_rows eff wr fold_left]. rewrite Es. reflexivity. }
  destruct (k =? 0) eqn:Ek.
  - rewrite blen_word32 in Hlen.
    replace (slen D o <? 32) with false by (unfold slen; lia).
    rewrite (word_at_At D o 0 (word32 (N.of_nat (length vs)))).
    2:{ replace (o + 0) with o by lia. apply At_app_l in HA. exact HA. }
    2:{ apply word32_length. }
    rewrite decode64_word32 by lia. cbn [lift].
    replace ((slen D o - 32) / 32 <? N.of_nat (length vs)) with false by (unfold slen; lia).
    apply At_app_r in HA. rewrite blen_word32 in HA.
    destruct (arr_loop_exact e IHe Hdom Hsel o 32 vs Hvs HA vs [] s (fuel0 D) eq_refl HI Hfuel) as (s' & Hl & Hv).
    cbn [length amembers map hsum fold_right] in Hl. change (N.of_nat 0) with 0 in Hl.
    replace (32 + 0) with 32 in Hl by lia.
    exists s'. split; [exact Hl|]. apply Hres. exact Hv.
  - destruct Hk as [Hk|Hk]; [subst k; discriminate|]. subst k.
    cbn [app] in HA. replace o with (o + 0) in HA by lia.
    destruct (arr_loop_exact e IHe Hdom Hsel o 0 vs Hvs HA vs [] s (fuel0 D) eq_refl HI Hfuel) as (s' & Hl & Hv).
    cbn [length amembers map hsum fold_right] in Hl. change (N.of_nat 0) with 0 in Hl.
    replace (0 + 0) with 0 in Hl by lia.
    exists s'. split; [exact Hl|]. apply Hres. exact Hv.
Qed.

(* tuples *)
Fixpoint tlc (fs : list aty) (vs : list aval) : cells :=
  match vs, fs with v :: vs', f :: fs' => leaf_cells f v ++ tlc fs' vs' | _, _ => [] end.
Fixpoint ter (fs : list aty) (vs : list aval) : list cells :=
  match vs, fs with v :: vs', f :: fs' => elem_rows f v ++ ter fs' vs' | _, _ => [] end.

Lemma leaf_cells_tuple fs vs : leaf_cells (TTuple fs) (VTuple vs) = tlc fs vs.
Proof.
  cbn [leaf_cells]. revert fs. induction vs as [|v vs IH]; intros [|f fs]; try reflexivity.
  cbn [tlc]. f_equal. apply IH.
Qed.
Lemma elem_rows_tuple fs vs : elem_rows (TTuple fs) (VTuple vs) = ter fs vs.
Proof.
  cbn [elem_rows]. revert fs. induction vs as [|v vs IH]; intros [|f fs]; try reflexivity.
  cbn [ter]. f_equal. apply IH.
Qed.

Lemma tmembers_app fa va fb vb : length fa = length va ->
  tmembers (fa ++ fb) (va ++ vb) = tmembers fa va ++ tmembers fb vb.
Proof.
  revert va. induction fa as [|f fa IH]; intros [|v va] H; cbn in H; try lia; [reflexivity|].
  cbn [app tmembers]. f_equal. apply IH. lia.
Qed.

Lemma exact_tuple fs : Forall Pexact fs -> Pexact (TTuple fs).
Proof.
  intros IH v s c o Ht Hdom Hsel HI Hc Hrow HA.
  apply ht_tuple in Ht. destruct Ht as (vs & -> & Hvs).
  rewrite leaf_cells_tuple, elem_rows_tuple.
  cbn [scan]. destruct (existsb has_select fs) eqn:Es; cbn [negb].
  2:{ exists s. split; [reflexivity|].
      rewrite <- leaf_cells_tuple, <- elem_rows_tuple.
      rewrite leaf_cells_nosel, elem_rows_nosel by exact Es. rewrite eff_nil. reflexivity. }
  rewrite enc_tuple in HA.
  apply sel_ok_tuple in Hsel. cbn [dom] in Hdom.
  assert (Hdoms : Forall (fun f => dom f = true) fs) by (apply Forall_forall; apply forallb_forall; exact Hdom).
  assert (Hrows : forall i, c = CRow i -> Forall (fun f => no_sel_arr f = true) fs).
  { intros i Hi. specialize (Hrow i Hi). cbn [no_sel_arr] in Hrow.
    apply Forall_forall. apply forallb_forall. exact Hrow. }
  clear Hdom Hrow Es.
  match goal with |- exists s', ?F fs 0 s = SOk s' /\ _ =>
    cut (forall frest vrest fdone vdone s0,
            Forall2 has_type frest vrest -> Forall Pexact frest -> Forall (fun f => dom f = true) frest ->
            Forall (sel_ok ncols) frest -> (forall i, c = CRow i -> Forall (fun f => no_sel_arr f = true) frest) ->
            length fdone = length vdone ->
            At D o (enc_seq (tmembers (fdone ++ frest) (vdone ++ vrest))) ->
            Inv s0 -> cur_ok s0 c ->
            exists s', F frest (hsum (tmembers fdone vdone)) s0 = SOk s' /\
                       view s' = eff ncols c (tlc frest vrest) (ter frest vrest) (view s0)) end.
  { intros HH. apply (HH fs vs [] [] s); auto. }
  clear IH Hvs Hsel HI Hc HA Hdoms Hrows. clear s vs fs. intros frest vrest fdone vdone s0 Hvs. revert fdone vdone s0.
  induction Hvs as [|f v frest vrest Hfv Hvs IHl]; intros fdone vdone s0 IH Hdoms Hsels Hrows Hlen HA HI Hc.
  - exists s0. split; [reflexivity|]. cbn [tlc ter]. rewrite eff_nil. reflexivity.
  - inversion IH as [|? ? Pf IHr]; subst. inversion Hdoms as [|? ? Hdf Hdr]; subst.
    inversion Hsels as [|? ? Hsf Hsr]; subst.
    assert (Hrowf : forall i, c = CRow i -> no_sel_arr f = true).
    { intros i Hi. specialize (Hrows i Hi). inversion Hrows; assumption. }
    assert (Hrowr : forall i, c = CRow i -> Forall (fun f => no_sel_arr f = true) frest).
    { intros i Hi. specialize (Hrows i Hi). inversion Hrows; assumption. }
    assert (Hms : tmembers (fdone ++ f :: frest) (vdone ++ v :: vrest)
                  = tmembers fdone vdone ++ ((dyn_ty f, enc f v) : member) :: tmembers frest vrest).
    { rewrite tmembers_app by exact Hlen. reflexivity. }
    assert (Hsub : exists sub, At D sub (enc f v) /\
      (if is_static f
       then if slen D o <? hsum (tmembers fdone vdone) then SErr s0
            else lift (sfrom D o (hsum (tmembers fdone vdone))) s0 (fun sub =>
                 match scan D ncols f s0 c sub with
                 | SOk s1 => (fix fields (fs : list aty) (pos : N) (s0 : st) {struct fs} : sres :=
                                match fs with
                                | [] => SOk s0
                                | f :: fs' =>
                                    if is_static f
                                    then if slen D o <? pos then SErr s0
                                         else lift (sfrom D o pos) s0 (fun sub : N =>
                                              match scan D ncols f s0 c sub with
                                              | SOk s1 => fields fs' (pos + size f) s1
                                              | r => r
                                              end)
                                    else if slen D o <? pos + 32 then SErr s0
                                         else lift (word_at D o pos) s0 (fun w : N =>
                                              if slen D o <? w then SErr s0
                                              else lift (sfrom D o w) s0 (fun sub : N =>
                                                   match scan D ncols f s0 c sub with
                                                   | SOk s1 => fields fs' (pos + 32) s1
                                                   | r => r
                                                   end))
                                end) frest (hsum (tmembers fdone vdone) + size f) s1
                 | r => r
                 end)
       else if slen D o <? hsum (tmembers fdone vdone) + 32 then SErr s0
            else lift (word_at D o (hsum (tmembers fdone vdone))) s0 (fun w =>
                 if slen D o <? w then SErr s0
                 else lift (sfrom D o w) s0 (fun sub =>
                      match scan D ncols f s0 c sub with
                      | SOk s1 => (fix fields (fs : list aty) (pos : N) (s0 : st) {struct fs} : sres :=
                                     match fs with
                                     | [] => SOk s0
                                     | f :: fs' =>
                                         if is_static f
                                         then if slen D o <? pos then SErr s0
                                              else lift (sfrom D o pos) s0 (fun sub : N =>
                                                   match scan D ncols f s0 c sub with
                                                   | SOk s1 => fields fs' (pos + size f) s1
                                                   | r => r
                                                   end)
                                         else if slen D o <? pos + 32 then SErr s0
                                              else lift (word_at D o pos) s0 (fun w : N =>
                                                   if slen D o <? w then SErr s0
                                                   else lift (sfrom D o w) s0 (fun sub : N =>
                                                        match scan D ncols f s0 c sub with
                                                        | SOk s1 => fields fs' (pos + 32) s1
                                                        | r => r
                                                        end))
                                     end) frest (hsum (tmembers fdone vdone) + 32) s1
                      | r => r
                      end)))
      = match scan D ncols f s0 c sub with
        | SOk s1 => (fix fields (fs : list aty) (pos : N) (s0 : st) {struct fs} : sres :=
                       match fs with
                       | [] => SOk s0
                       | f :: fs' =>
                           if is_static f
                           then if slen D o <? pos then SErr s0
                                else lift (sfrom D o pos) s0 (fun sub : N =>
                                     match scan D ncols f s0 c sub with
                                     | SOk s1 => fields fs' (pos + size f) s1
                                     | r => r
                                     end)
                           else if slen D o <? pos + 32 then SErr s0
                                else lift (word_at D o pos) s0 (fun w : N =>
                                     if slen D o <? w then SErr s0
                                     else lift (sfrom D o w) s0 (fun sub : N =>
                                          match scan D ncols f s0 c sub with
                                          | SOk s1 => fields fs' (pos + 32) s1
                                          | r => r
                                          end))
                       end) frest (hsum (tmembers (fdone ++ [f]) (vdone ++ [v]))) s1
        | r => r
        end).
    { assert (Hnext : hsum (tmembers (fdone ++ [f]) (vdone ++ [v]))
                      = hsum (tmembers fdone vdone) + (if dyn_ty f then 32 else size f)).
      { rewrite tmembers_app by exact Hlen. rewrite hsum_app. cbn [tmembers]. unfold hsum at 2. cbn [fold_right].
        unfold hsz. cbn [fst snd]. destruct (dyn_ty f) eqn:Ed; [lia|]. rewrite (static_size f v Ed Hfv). lia. }
      rewrite Hnext. rewrite is_static_dyn. rewrite Hms in HA. destruct (dyn_ty f) eqn:Ed; cbn [negb].
      - try rewrite Ed in Hms. destruct (enc_seq_dynamic D o _ _ _ HA) as [Hw Ht]. rewrite <- Hms in Hw, Ht.
        set (w := hsum (tmembers (fdone ++ f :: frest) (vdone ++ v :: vrest)) + blen (tails (tmembers fdone vdone))) in *.
        pose proof (At_len _ _ _ Hw) as Hl1. rewrite blen_word32 in Hl1.
        pose proof (At_len _ _ _ Ht) as Hl2.
        exists (o + w). split; [exact Ht|].
        replace (slen D o <? hsum (tmembers fdone vdone) + 32) with false by (unfold slen; lia).
        rewrite (word_at_At D o _ (word32 w) Hw (word32_length w)).
        rewrite decode64_word32 by lia. cbn [lift].
        replace (slen D o <? w) with false by (unfold slen; lia).
        rewrite sfrom_ok by (unfold slen; lia). reflexivity.
      - pose proof (enc_seq_static D o _ _ _ HA) as Ht.
        pose proof (At_len _ _ _ Ht) as Hl2.
        exists (o + hsum (tmembers fdone vdone)). split; [exact Ht|].
        replace (slen D o <? hsum (tmembers fdone vdone)) with false by (unfold slen; lia).
        rewrite sfrom_ok by (unfold slen; lia). reflexivity. }
    destruct Hsub as (sub & Hat & Hbody). cbv beta. rewrite Hbody. clear Hbody.
    destruct (Pf v s0 c sub Hfv Hdf Hsf HI Hc Hrowf Hat) as (s1 & Hs1 & Hv1).
    rewrite Hs1.
    pose proof (At_len _ _ _ Hat) as Hsubl.
    destruct (scan_ok_inv f s0 c sub s1 Hsf HI Hc ltac:(lia) Hs1) as [I1 Hn1].
    destruct (IHl (fdone ++ [f]) (vdone ++ [v]) s1 IHr Hdr Hsr Hrowr) as (s' & Hl & Hv').
    { rewrite !app_length. cbn [length]. lia. }
    { rewrite <- !app_assoc. exact HA. }
    { exact I1. }
    { eapply cur_ok_mono; eassumption. }
    exists s'. split; [exact Hl|]. rewrite Hv', Hv1. cbn [tlc ter]. rewrite eff_app. reflexivity.
Qed.

(* the nested induction *)
Lemma scan_enc t : Pexact t.
Proof.
  induction t as [s|s|k e IH|fs IH] using aty_ind'.
  - apply exact_word.
  - apply exact_dyn.
  - apply exact_arr. exact IH.
  - apply exact_tuple. exact IH.
Qed.
End Exact.

(* ---- Result.Scan on an encoding followed by arbitrary bytes ---- *)
Lemma vrow_overlay D sg r : cells_ok D sg ->
  vrow D (overlay sg r) = overlayv (vrow D sg) (vrow D r).
Proof.
  unfold vrow. intros Hs. revert r.
  induction Hs as [|x sg Hx _ IH]; intros [|y r]; cbn [overlay overlayv map]; try reflexivity.
  f_equal; [|apply IH].
  destruct x as [[o l]|]; [|reflexivity]. cbn in Hx. replace (0 <? l) with true by lia. reflexivity.
Qed.

Lemma vrow_reset D ncols (r : row) : length r = ncols -> vrow D (map (fun _ => None) r) = repeat None ncols.
Proof.
  intros <-. induction r as [|x r IH]; cbn; [reflexivity|]. f_equal. exact IH.
Qed.

Lemma scan_enc_exact_l ncols t v rest s :
  has_type t v -> dom t = true -> sel_ok ncols t -> st_ok ncols s ->
  N.of_nat (length (enc t v ++ rest)) < 2 ^ 63 ->
  exists s', result_scan (enc t v ++ rest) ncols t s = SOk s' /\
             vrows (enc t v ++ rest) s' = rows_spec ncols t v.
Proof.
  intros Ht Hdom Hsel Hs Hlen. set (D := enc t v ++ rest) in *.
  assert (HL : L D < two64).
  { unfold L, two64. assert (2 ^ 63 < 18446744073709551616) by reflexivity. lia. }
  unfold result_scan. fold (reset s).
  pose proof (reset_inv D ncols s Hs) as HI0.
  assert (Hv0 : view D (reset s) = (repeat None ncols, [])).
  { unfold view, reset, vrows, rows_out. cbn [single coll nrows firstn map].
    rewrite (vrow_reset D ncols) by (destruct Hs as (H1 & _); exact H1). reflexivity. }
  destruct (scan_enc D ncols HL t v (reset s) CSingle 0 Ht Hdom Hsel HI0 I) as (s1 & Hs1 & Hv1).
  { discriminate. }
  { apply At_whole. }
  rewrite Hs1. rewrite Hv0 in Hv1. cbn [eff fst snd app] in Hv1.
  destruct (scan_ok_inv D ncols t (reset s) CSingle 0 s1 Hsel HI0 I ltac:(lia) Hs1) as [I1 _].
  assert (Hn1 : nrows s1 = length (elem_rows t v)).
  { assert (E : length (snd (view D s1)) = nrows s1).
    { unfold view, vrows, rows_out. cbn [snd]. rewrite map_length, firstn_length.
      destruct I1 as (_ & _ & H3 & _). lia. }
    rewrite Hv1 in E. cbn [snd] in E. rewrite map_length in E. lia. }
  assert (Hs2 : exists s2, (if Nat.eqb (nrows s1) 0 then option_map fst (get_row ncols s1) else Some s1) = Some s2 /\
                Inv D ncols s2 /\
                view D s2 = (mkrow ncols (leaf_cells t v),
                             map (mkrow ncols) (match elem_rows t v with [] => [[]] | l => l end))).
  { destruct (elem_rows t v) as [|r0 er] eqn:Eer.
    - cbn [length] in Hn1. rewrite Hn1. cbn [Nat.eqb].
      destruct (get_row_view D ncols HL s1 I1) as (s2 & Hg & I2 & _ & Hv2 & _).
      exists s2. rewrite Hg. cbn [option_map fst]. split; [reflexivity|]. split; [exact I2|].
      rewrite Hv2, Hv1. reflexivity.
    - cbn [length] in Hn1. rewrite Hn1. cbn [Nat.eqb]. exists s1. split; [reflexivity|]. split; [exact I1|].
      rewrite Hv1. reflexivity. }
  destruct Hs2 as (s2 & -> & I2 & Hv2).
  eexists. split; [reflexivity|].
  unfold vrows, rows_out, with_coll. cbn [coll nrows].
  rewrite firstn_map_first, map_map.
  destruct I2 as (_ & _ & _ & J4 & _).
  transitivity (map (overlayv (vrow D (single s2))) (map (vrow D) (firstn (nrows s2) (coll s2)))).
  { rewrite map_map. apply map_ext. intros r. apply vrow_overlay. exact J4. }
  unfold view, vrows, rows_out in Hv2. injection Hv2 as Hsg Hrows. rewrite Hsg, Hrows.
  unfold rows_spec. rewrite map_map. reflexivity.
Qed.

(* repeated use: whatever the instance decoded (or failed to decode) before *)
Lemma scan_reuse_l ncols t v rest history :
  has_type t v -> dom t = true -> sel_ok ncols t ->
  N.of_nat (length (enc t v ++ rest)) < 2 ^ 63 ->
  exists s', result_scan (enc t v ++ rest) ncols t (after_scans ncols t (new_result ncols) history) = SOk s' /\
             vrows (enc t v ++ rest) s' = rows_spec ncols t v.
Proof.
  intros Ht Hd Hsel Hlen. apply scan_enc_exact_l; auto.
  apply after_scans_ok; [exact Hsel|apply new_result_ok].
Qed.

Lemma wr_length cs r : length (wr cs r) = length r.
Proof.
  unfold wr. revert r. induction cs as [|c cs IH]; intros r; cbn [fold_left]; [reflexivity|].
  rewrite IH. apply set_nth_length.
Qed.
Lemma overlayv_length sg r : length (overlayv sg r) = length r.
Proof. revert r. induction sg as [|x sg IH]; intros [|y r]; cbn; auto. Qed.

(* shape of the row rule: one row per element of the selected innermost arrays,
   a single row when there is none; every row has ncols cells *)
Lemma rows_spec_shape_l ncols t v :
  length (rows_spec ncols t v) = Nat.max 1 (length (elem_rows t v)) /\
  Forall (fun r => length r = ncols) (rows_spec ncols t v).
Proof.
  unfold rows_spec. split.
  - rewrite map_length. destruct (elem_rows t v); cbn [length]; lia.
  - apply Forall_forall. intros r Hr. apply in_map_iff in Hr. destruct Hr as (cs & <- & _).
    rewrite overlayv_length. unfold mkrow. rewrite wr_length. apply repeat_length.
Qed.
