(* C11 composed with C09: from the VALUES a log encodes to the CELLS of the rows
   processLog emits, the decoder (Model/AbiScan.v) inside the model. *)
From Coq Require Import String Ascii List NArith ZArith Bool Lia ZifyBool ZifyN ZifyNat.
From Shovel Require Import Base.Outcome Model.Hex Model.Bint.
From Shovel Require Import Model.AbiType Model.AbiScan Model.AbiEnc Model.AbiParse Model.AbiSig.
From Shovel Require Import Proofs.AbiScanP Proofs.AbiEncP Proofs.AbiParseP.
From Shovel Require Import Model.Filter Model.Rows Model.RowsAbi Proofs.FilterP Proofs.RowsP.
Import ListNotations.
Open Scope N_scope.

(* ================= the declaration's decoder type ================= *)
Lemma event_of_tins d xs : d_inputs d = map tin_input xs ->
  event_of_decl d = event_of (d_name d) (map tin_jty xs).
Proof.
  intros E. unfold event_of_decl, event_of. rewrite E, !map_map. f_equal.
Qed.

Lemma tins_wf xs : forallb wf_jty (map tin_jty xs) = true.
Proof. induction xs; [reflexivity|exact IHxs]. Qed.

Lemma abi_ty_tins d xs : d_inputs d = map tin_input xs -> abi_ty d = Ok (tins_type xs).
Proof.
  intros E. unfold abi_ty. rewrite (event_of_tins d xs E).
  apply abi_type_of_print_l. apply tins_wf.
Qed.

(* every elementary-based declaration is in the domain of the row rule *)
Lemma dom_wrap ds : forall base,
  dom base = true -> (is_arr base = true \/ no_sel_arr base = true) ->
  dom (wrap_dims ds base) = true
  /\ (is_arr (wrap_dims ds base) = true \/ no_sel_arr (wrap_dims ds base) = true).
Proof.
  unfold wrap_dims. induction ds as [|k ds IH]; intros base D H; [split; assumption|].
  cbn [fold_left]. apply IH.
  - cbn [dom]. destruct (has_select base); [|reflexivity].
    destruct (is_arr base) eqn:A; [exact D|]. destruct H as [H|H]; [discriminate|exact H].
  - left. reflexivity.
Qed.

Lemma dom_fields xs : forall p, forallb dom (decl_fields (map tin_jty xs) p) = true.
Proof.
  induction xs as [|x xs IH]; intros p; [reflexivity|]. cbn [map decl_fields tin_jty j_indexed].
  destruct (tn_indexed x); [apply IH|]. cbn [forallb]. rewrite IH, andb_true_r.
  change (tin_jty x) with (JElem (tn_indexed x) (tn_name x) (tin_sel x) (tn_dims x)).
  cbn [aty_of snd]. apply dom_wrap; destruct (ename_dynamic (tn_name x)); cbn; auto.
Qed.

Lemma dom_tins xs : dom (tins_type xs) = true.
Proof. unfold tins_type, decl_type. cbn [dom]. apply dom_fields. Qed.

Lemma count_map {A B} (p : B -> bool) (f : A -> B) l : count p (map f l) = count (fun x => p (f x)) l.
Proof.
  unfold count. induction l as [|x l IH]; [reflexivity|]. simpl. destruct (p (f x)); simpl; rewrite IH; reflexivity.
Qed.

Lemma fields_selected xs : forall p,
  flat_map AbiType.selected (decl_fields (map tin_jty xs) p) = seq p (count tin_data xs).
Proof.
  induction xs as [|x xs IH]; intros p; [reflexivity|]. cbn [map decl_fields tin_jty j_indexed].
  rewrite count_cons. unfold tin_data at 1.
  destruct (tn_indexed x); [rewrite andb_false_r; apply IH|].
  rewrite andb_true_r. cbn [flat_map].
  change (tin_jty x) with (JElem (tn_indexed x) (tn_name x) (tin_sel x) (tn_dims x)). cbn [aty_of fst snd].
  rewrite selected_wrap, IH.
  destruct (tin_sel x); destruct (ename_dynamic (tn_name x)); reflexivity.
Qed.

Lemma ncols_tins xs : ncols_of (tins_type xs) = count tin_data xs.
Proof.
  unfold ncols_of, tins_type, decl_type. cbn [AbiType.selected]. rewrite fields_selected, seq_length. reflexivity.
Qed.

(* the model's own decoding of a well-formed encoding: the row rule on the values *)
Lemma scan_rows_enc d xs v rest :
  d_inputs d = map tin_input xs -> has_type (tins_type xs) v ->
  N.of_nat (length (enc (tins_type xs) v ++ rest)) < 2 ^ 63 ->
  scan_rows d (enc (tins_type xs) v ++ rest)
  = Ok (rows_spec (count tin_data xs) (tins_type xs) v).
Proof.
  intros E T Lb. unfold scan_rows. rewrite (abi_ty_tins d xs E).
  destruct (scan_enc_exact_l (ncols_of (tins_type xs)) (tins_type xs) v rest
              (new_result (ncols_of (tins_type xs))) T (dom_tins xs)
              (decl_type_sel_ok _) (new_result_ok _) Lb) as [s' [H1 H2]].
  rewrite H1, H2, ncols_tins. reflexivity.
Qed.

(* ================= the row rule on a flat declaration ================= *)
Definition cell1 (p : nat) (v : aval) : cells :=
  match leaf_bytes v with Some b => [(p, b)] | None => [] end.

Fixpoint scal_cells (xs : list tin) (vs : list aval) (p : nat) : cells :=
  match xs with
  | [] => []
  | x :: r =>
      if tn_indexed x then scal_cells r vs p else
      match vs with
      | [] => []
      | v :: vs' =>
          if tin_sel x then (if is_nil (tn_dims x) then cell1 p v else []) ++ scal_cells r vs' (S p)
          else scal_cells r vs' p
      end
  end.

Fixpoint arr_cells (xs : list tin) (vs : list aval) (p : nat) : list cells :=
  match xs with
  | [] => []
  | x :: r =>
      if tn_indexed x then arr_cells r vs p else
      match vs with
      | [] => []
      | v :: vs' =>
          if tin_sel x then
            (if sel_array1 x then match v with VArr es => map (cell1 p) es | _ => [] end else [])
              ++ arr_cells r vs' (S p)
          else arr_cells r vs' p
      end
  end.

Lemma has_select_wrap ds : forall b, has_select (wrap_dims ds b) = has_select b.
Proof. unfold wrap_dims. induction ds as [|k ds IH]; intros b; [reflexivity|]. cbn [fold_left]. rewrite IH. reflexivity. Qed.

Lemma is_arr_wrap_arr ds : forall t, is_arr t = true -> is_arr (wrap_dims ds t) = true.
Proof. unfold wrap_dims. induction ds as [|k ds IH]; intros t H; [exact H|]. cbn [fold_left]. apply IH. reflexivity. Qed.

Definition leaf_of (x : tin) (p : nat) : aty :=
  let s := if tin_sel x then Some p else None in
  if ename_dynamic (tn_name x) then TDyn s else TWord s.

Lemma field_of_tin x p :
  aty_of (tin_jty x) p = (if tin_sel x then S p else p, wrap_dims (tn_dims x) (leaf_of x p)).
Proof. reflexivity. Qed.

Lemma e2e_dom_cons x r seen : e2e_dom (x :: r) seen = true ->
  exists seen', e2e_dom r seen' = true /\
    (tin_data x = true -> tn_dims x = [] \/ (sel_array1 x = true /\ seen = false /\ seen' = true)).
Proof.
  cbn [e2e_dom]. unfold sel_scalar. destruct (tin_data x) eqn:Dx; cbn [negb orb].
  - destruct (is_nil (tn_dims x)) eqn:Nl.
    + intros H. exists seen. split; [exact H|]. intros _. left. destruct (tn_dims x); [reflexivity|discriminate].
    + destruct (sel_array1 x) eqn:A; [|discriminate]. destruct seen; [discriminate|]. cbn.
      intros H. exists true. split; [exact H|]. intros _. right. auto.
  - intros H. exists seen. split; [exact H|]. discriminate.
Qed.

Lemma leaf_cells_leaf x p v : has_type (leaf_of x p) v -> tin_sel x = true ->
  leaf_cells (leaf_of x p) v = cell1 p v.
Proof.
  unfold leaf_of. intros T S. rewrite S in *. destruct (ename_dynamic (tn_name x)).
  - apply ht_dyn in T. destruct T as [b ->]. destruct b; reflexivity.
  - apply ht_word in T. destruct T as [w [-> _]]. reflexivity.
Qed.

Lemma tlc_scal xs : forall p vs seen,
  e2e_dom xs seen = true -> Forall2 has_type (decl_fields (map tin_jty xs) p) vs ->
  tlc (decl_fields (map tin_jty xs) p) vs = scal_cells xs vs p.
Proof.
  induction xs as [|x xs IH]; intros p vs seen Dm T.
  - cbn in *. destruct vs; reflexivity.
  - cbn [map decl_fields scal_cells]. cbn [map decl_fields] in T.
    change (j_indexed (tin_jty x)) with (tn_indexed x) in *.
    destruct (e2e_dom_cons _ _ _ Dm) as [seen' [Dr Hx]].
    destruct (tn_indexed x) eqn:Ix; [eapply IH; eassumption|].
    rewrite field_of_tin in *. cbn [fst snd] in *.
    inversion T as [|f v fs vs' Tf Tr]; subst. cbn [tlc].
    destruct (tin_sel x) eqn:Sx.
    + rewrite (IH _ _ _ Dr Tr). f_equal.
      assert (Dx : tin_data x = true) by (unfold tin_data; rewrite Sx, Ix; reflexivity).
      destruct (Hx Dx) as [Nl|[A _]].
      * rewrite Nl in *. cbn [is_nil wrap_dims fold_left] in *. apply leaf_cells_leaf; assumption.
      * unfold sel_array1 in A. rewrite Dx in A. destruct (tn_dims x) as [|k [|? ?]]; try discriminate.
        cbn [is_nil]. apply leaf_cells_arr. reflexivity.
    + rewrite (IH _ _ _ Dr Tr). rewrite leaf_cells_nosel; [reflexivity|].
      rewrite has_select_wrap. unfold leaf_of. rewrite Sx. destruct (ename_dynamic (tn_name x)); reflexivity.
Qed.

Lemma ter_arr xs : forall p vs seen,
  e2e_dom xs seen = true -> Forall2 has_type (decl_fields (map tin_jty xs) p) vs ->
  ter (decl_fields (map tin_jty xs) p) vs = arr_cells xs vs p.
Proof.
  induction xs as [|x xs IH]; intros p vs seen Dm T.
  - cbn in *. destruct vs; reflexivity.
  - cbn [map decl_fields arr_cells]. cbn [map decl_fields] in T.
    change (j_indexed (tin_jty x)) with (tn_indexed x) in *.
    destruct (e2e_dom_cons _ _ _ Dm) as [seen' [Dr Hx]].
    destruct (tn_indexed x) eqn:Ix; [eapply IH; eassumption|].
    rewrite field_of_tin in *. cbn [fst snd] in *.
    inversion T as [|f v fs vs' Tf Tr]; subst. cbn [ter].
    destruct (tin_sel x) eqn:Sx.
    + rewrite (IH _ _ _ Dr Tr). f_equal.
      assert (Dx : tin_data x = true) by (unfold tin_data; rewrite Sx, Ix; reflexivity).
      destruct (Hx Dx) as [Nl|[A _]].
      * assert (A0 : sel_array1 x = false) by (unfold sel_array1; rewrite Nl, andb_false_r; reflexivity).
        rewrite A0, Nl in *. cbn [wrap_dims fold_left] in *.
        unfold leaf_of in *. destruct (ename_dynamic (tn_name x)); destruct v; reflexivity.
      * rewrite A. unfold sel_array1 in A. rewrite Dx in A.
        destruct (tn_dims x) as [|k [|? ?]]; try discriminate. cbn [wrap_dims fold_left] in *.
        apply ht_arr in Tf. destruct Tf as [es [-> [_ Te]]]. cbn [elem_rows].
        replace (has_select (leaf_of x p)) with true
          by (unfold leaf_of; rewrite Sx; destruct (ename_dynamic (tn_name x)); reflexivity).
        replace (is_arr (leaf_of x p)) with false
          by (unfold leaf_of; destruct (ename_dynamic (tn_name x)); reflexivity).
        apply map_ext_in. intros e He. rewrite Forall_forall in Te. apply leaf_cells_leaf; auto.
    + rewrite (IH _ _ _ Dr Tr). rewrite elem_rows_nosel; [reflexivity|].
      rewrite has_select_wrap. unfold leaf_of. rewrite Sx. destruct (ename_dynamic (tn_name x)); reflexivity.
Qed.

(* ---- looking a position up in a written row ---- *)
Lemma nth_set_nth {A} (x d : A) : forall p q l,
  nth q (set_nth p x l) d = if (q =? p)%nat && (p <? length l)%nat then x else nth q l d.
Proof.
  induction p as [|p IH]; intros q l; destruct l as [|h t]; cbn [set_nth].
  - destruct q; simpl; rewrite ?andb_false_r; reflexivity.
  - destruct q; reflexivity.
  - destruct q; simpl; rewrite ?andb_false_r; reflexivity.
  - destruct q as [|q]; [reflexivity|]. cbn [nth length]. rewrite IH. reflexivity.
Qed.

Lemma set_nth_length {A} (x : A) : forall p l, length (set_nth p x l) = length l.
Proof. induction p; intros [|h t]; simpl; auto. Qed.

Lemma wr_other cs : forall r q, (forall c, In c cs -> fst c <> q) ->
  nth q (wr cs r) None = nth q r None.
Proof.
  unfold wr. induction cs as [|c cs IH]; intros r q H; [reflexivity|]. cbn [fold_left].
  rewrite IH by (intros c' Hc'; apply H; right; exact Hc'). rewrite nth_set_nth.
  destruct (q =? fst c)%nat eqn:E; [apply Nat.eqb_eq in E; exfalso; apply (H c (or_introl eq_refl)); auto|].
  reflexivity.
Qed.

Lemma wr_cell1 p v r : (p < length r)%nat ->
  nth p (wr (cell1 p v) r) None = match leaf_bytes v with Some b => Some b | None => nth p r None end.
Proof.
  intros H. unfold cell1. destruct (leaf_bytes v); [|reflexivity]. unfold wr. cbn [fold_left fst snd].
  rewrite nth_set_nth, Nat.eqb_refl. replace (p <? length r)%nat with true by lia. reflexivity.
Qed.

Lemma cell1_pos p v c : In c (cell1 p v) -> fst c = p.
Proof. unfold cell1. destruct (leaf_bytes v); [intros [<-|[]]; reflexivity|intros []]. Qed.

Lemma scal_lower xs : forall vs p c, In c (scal_cells xs vs p) -> (p <= fst c)%nat.
Proof.
  induction xs as [|x xs IH]; intros vs p c H; cbn [scal_cells] in H; [destruct H|].
  destruct (tn_indexed x); [eapply IH; exact H|]. destruct vs as [|v vs]; [destruct H|].
  destruct (tin_sel x); [|eapply IH; exact H]. apply in_app_or in H. destruct H as [H|H].
  - destruct (is_nil (tn_dims x)); [apply cell1_pos in H; lia|destruct H].
  - apply IH in H. lia.
Qed.

Lemma arr_lower xs : forall vs p cs c, In cs (arr_cells xs vs p) -> In c cs -> (p <= fst c)%nat.
Proof.
  induction xs as [|x xs IH]; intros vs p cs c H Hc; cbn [arr_cells] in H; [destruct H|].
  destruct (tn_indexed x); [eapply IH; eassumption|]. destruct vs as [|v vs]; [destruct H|].
  destruct (tin_sel x); [|eapply IH; eassumption]. apply in_app_or in H. destruct H as [H|H].
  - destruct (sel_array1 x); [|destruct H]. destruct v; try destruct H.
    apply in_map_iff in H. destruct H as [e [<- _]]. apply cell1_pos in Hc. lia.
  - specialize (IH _ _ _ _ H Hc). lia.
Qed.

Lemma data_val_cons_idx y pre vs : tn_indexed y = true -> data_val (y :: pre) vs = data_val pre vs.
Proof. intros H. unfold data_val. rewrite count_cons, H. reflexivity. Qed.
Lemma data_val_cons y pre v vs : tn_indexed y = false -> data_val (y :: pre) (v :: vs) = data_val pre vs.
Proof. intros H. unfold data_val. rewrite count_cons, H. reflexivity. Qed.
Lemma data_val_nil pre : data_val pre [] = VTuple [].
Proof. unfold data_val. destruct (count _ pre); reflexivity. Qed.

Lemma tin_data_cons y pre : count tin_data (y :: pre) = ((if tin_data y then 1 else 0) + count tin_data pre)%nat.
Proof. apply count_cons. Qed.

(* the singleton row at the position of a selected data input *)
Lemma scal_lookup pre : forall p vs r x post,
  tin_data x = true -> (p + count tin_data pre < length r)%nat ->
  nth (p + count tin_data pre) (wr (scal_cells (pre ++ x :: post) vs p) r) None =
  if is_nil (tn_dims x)
  then match leaf_bytes (data_val pre vs) with Some b => Some b | None => nth (p + count tin_data pre) r None end
  else nth (p + count tin_data pre) r None.
Proof.
  induction pre as [|y pre IH]; intros p vs r x post Dx Hl.
  - cbn [app]. unfold count at 1 2 3. cbn [filter length]. rewrite Nat.add_0_r in *.
    cbn [scal_cells]. unfold tin_data in Dx. apply andb_true_iff in Dx. destruct Dx as [Sx Ix].
    apply negb_true_iff in Ix. rewrite Ix, Sx. destruct vs as [|v vs].
    + rewrite data_val_nil. cbn. destruct (is_nil (tn_dims x)); reflexivity.
    + rewrite wr_app. rewrite wr_other by (intros c Hc; apply scal_lower in Hc; lia).
      unfold data_val, count. cbn [filter length nth].
      destruct (is_nil (tn_dims x)); [apply wr_cell1; exact Hl|reflexivity].
  - cbn [app scal_cells]. rewrite tin_data_cons in *.
    destruct (tn_indexed y) eqn:Iy.
    + assert (Dy : tin_data y = false) by (unfold tin_data; rewrite Iy, andb_false_r; reflexivity).
      rewrite Dy in *. cbn [Nat.add] in *. rewrite data_val_cons_idx by exact Iy. apply IH; assumption.
    + destruct vs as [|v vs].
      * rewrite data_val_nil. cbn. destruct (is_nil (tn_dims x)); reflexivity.
      * rewrite data_val_cons by exact Iy. destruct (tin_sel y) eqn:Sy.
        -- assert (Dy : tin_data y = true) by (unfold tin_data; rewrite Iy, Sy; reflexivity).
           rewrite Dy in *. rewrite wr_app.
           replace (p + (1 + count tin_data pre))%nat with (S p + count tin_data pre)%nat in * by lia.
           rewrite IH; [|exact Dx|rewrite wr_length; exact Hl].
           rewrite wr_other; [reflexivity|].
           intros c Hc. destruct (is_nil (tn_dims y)); [apply cell1_pos in Hc; lia|destruct Hc].
        -- assert (Dy : tin_data y = false) by (unfold tin_data; rewrite Sy; reflexivity).
           rewrite Dy in *. cbn [Nat.add] in *. apply IH; assumption.
Qed.

(* a scalar's position is not written by any array-element row *)
Lemma arr_lookup_scalar pre : forall p vs r x post cs,
  In cs (arr_cells (pre ++ x :: post) vs p) -> tin_data x = true -> sel_array1 x = false ->
  nth (p + count tin_data pre) (wr cs r) None = nth (p + count tin_data pre) r None.
Proof.
  induction pre as [|y pre IH]; intros p vs r x post cs H Dx Ax.
  - cbn [app arr_cells] in H. unfold count. cbn [filter length]. rewrite Nat.add_0_r.
    pose proof Dx as Dx'. unfold tin_data in Dx'. apply andb_true_iff in Dx'. destruct Dx' as [Sx Ix].
    apply negb_true_iff in Ix. rewrite Ix, Sx, Ax in H. destruct vs as [|v vs]; [destruct H|].
    cbn [app] in H. apply wr_other. intros c Hc. pose proof (arr_lower _ _ _ _ _ H Hc). lia.
  - cbn [app arr_cells] in H. rewrite tin_data_cons.
    destruct (tn_indexed y) eqn:Iy.
    + assert (Dy : tin_data y = false) by (unfold tin_data; rewrite Iy, andb_false_r; reflexivity).
      rewrite Dy. cbn [Nat.add]. eapply IH; eassumption.
    + destruct vs as [|v vs]; [destruct H|]. destruct (tin_sel y) eqn:Sy.
      * assert (Dy : tin_data y = true) by (unfold tin_data; rewrite Iy, Sy; reflexivity). rewrite Dy.
        replace (p + (1 + count tin_data pre))%nat with (S p + count tin_data pre)%nat by lia.
        apply in_app_or in H. destruct H as [H|H]; [|eapply IH; eassumption].
        apply wr_other. intros c Hc. destruct (sel_array1 y); [|destruct H]. destruct v; try destruct H.
        apply in_map_iff in H. destruct H as [e [<- _]]. apply cell1_pos in Hc. lia.
      * assert (Dy : tin_data y = false) by (unfold tin_data; rewrite Sy; reflexivity). rewrite Dy.
        cbn [Nat.add]. eapply IH; eassumption.
Qed.

(* the array-element rows of a declaration with one selected array *)
Lemma e2e_dom_true x r : e2e_dom (x :: r) true = true -> e2e_dom r true = true /\ sel_array1 x = false.
Proof.
  cbn [e2e_dom]. unfold sel_scalar, sel_array1. destruct (tin_data x); cbn [negb orb andb].
  - destruct (tn_dims x) as [|k [|? ?]]; cbn; intros H; try discriminate; auto.
  - auto.
Qed.

Lemma arr_cells_none xs : forall vs p, e2e_dom xs true = true -> arr_cells xs vs p = [].
Proof.
  induction xs as [|x xs IH]; intros vs p Dm; [reflexivity|]. cbn [arr_cells].
  apply e2e_dom_true in Dm. destruct Dm as [Dr A]. rewrite A.
  destruct (tn_indexed x); [apply IH; exact Dr|]. destruct vs as [|v vs]; [reflexivity|].
  destruct (tin_sel x); cbn [app]; apply IH; exact Dr.
Qed.

Lemma sel_array1_not_scalar x : sel_array1 x = true -> sel_scalar x = false /\ tin_data x = true /\ is_nil (tn_dims x) = false.
Proof.
  unfold sel_array1, sel_scalar. destruct (tin_data x); cbn; [|discriminate].
  destruct (tn_dims x) as [|k [|? ?]]; try discriminate. auto.
Qed.

Lemma sel_scalar_not_array x : sel_scalar x = true -> sel_array1 x = false.
Proof.
  unfold sel_array1, sel_scalar. destruct (tin_data x); cbn; [|reflexivity].
  destruct (tn_dims x) as [|k [|? ?]]; try discriminate; reflexivity.
Qed.

Lemma e2e_true_no_arr pre : forall x post,
  e2e_dom (pre ++ x :: post) true = true -> sel_array1 x = true -> False.
Proof.
  induction pre as [|y pre IH]; intros x post Dm A; cbn [app] in Dm; apply e2e_dom_true in Dm.
  - destruct Dm as [_ B]. congruence.
  - destruct Dm as [Dr _]. eapply IH; eassumption.
Qed.

Lemma arr_split pre : forall p vs x post,
  e2e_dom (pre ++ x :: post) false = true -> sel_array1 x = true ->
  arr_cells (pre ++ x :: post) vs p =
  match data_val pre vs with VArr es => map (cell1 (p + count tin_data pre)) es | _ => [] end.
Proof.
  induction pre as [|y pre IH]; intros p vs x post Dm A.
  - cbn [app] in *. destruct (sel_array1_not_scalar x A) as [Sc [Dx _]].
    cbn [e2e_dom] in Dm. rewrite Sc, A in Dm. cbn in Dm.
    unfold tin_data in Dx. apply andb_true_iff in Dx. destruct Dx as [Sx Ix]. apply negb_true_iff in Ix.
    cbn [arr_cells]. rewrite Ix, Sx, A. unfold count. cbn [filter length]. rewrite Nat.add_0_r.
    destruct vs as [|v vs]; [rewrite data_val_nil; reflexivity|].
    rewrite (arr_cells_none post vs (S p) Dm), app_nil_r. unfold data_val, count. cbn [filter length nth].
    reflexivity.
  - cbn [app] in *. cbn [e2e_dom] in Dm. rewrite tin_data_cons.
    destruct (sel_scalar y) eqn:Sy.
    + pose proof (sel_scalar_not_array y Sy) as Ay. cbn [arr_cells]. rewrite Ay.
      destruct (tn_indexed y) eqn:Iy.
      * assert (Dy : tin_data y = false) by (unfold tin_data; rewrite Iy, andb_false_r; reflexivity).
        rewrite Dy. cbn [Nat.add]. rewrite data_val_cons_idx by exact Iy. apply IH; assumption.
      * destruct vs as [|v vs]; [rewrite data_val_nil; reflexivity|].
        rewrite data_val_cons by exact Iy. destruct (tin_sel y) eqn:Sly.
        -- assert (Dy : tin_data y = true) by (unfold tin_data; rewrite Iy, Sly; reflexivity). rewrite Dy.
           cbn [app]. rewrite IH by assumption. replace (S p + count tin_data pre)%nat with (p + (1 + count tin_data pre))%nat by lia.
           reflexivity.
        -- assert (Dy : tin_data y = false) by (unfold tin_data; rewrite Sly; reflexivity). rewrite Dy.
           cbn [Nat.add]. apply IH; assumption.
    + destruct (sel_array1 y); cbn in Dm; [|discriminate]. exfalso. eapply e2e_true_no_arr; eassumption.
Qed.

(* no selected array at all *)
Lemma arr_cells_noarr xs : forall vs p, (forall x, In x xs -> sel_array1 x = false) -> arr_cells xs vs p = [].
Proof.
  induction xs as [|x xs IH]; intros vs p H; [reflexivity|]. cbn [arr_cells].
  rewrite (H x (or_introl eq_refl)).
  assert (H' : forall y, In y xs -> sel_array1 y = false) by (intros y Hy; apply H; right; exact Hy).
  destruct (tn_indexed x); [apply IH; exact H'|]. destruct vs as [|v vs]; [reflexivity|].
  destruct (tin_sel x); cbn [app]; apply IH; exact H'.
Qed.

(* the value of every non-indexed input has the type of its field *)
Lemma field_typing pre : forall p vs x post,
  Forall2 has_type (decl_fields (map tin_jty (pre ++ x :: post)) p) vs -> tn_indexed x = false ->
  has_type (wrap_dims (tn_dims x) (leaf_of x (p + count tin_data pre))) (data_val pre vs).
Proof.
  induction pre as [|y pre IH]; intros p vs x post T Ix.
  - cbn [app map decl_fields] in T. change (j_indexed (tin_jty x)) with (tn_indexed x) in T.
    rewrite Ix, field_of_tin in T. cbn [fst snd] in T. inversion T; subst.
    unfold count, data_val. cbn [filter length nth]. rewrite Nat.add_0_r. assumption.
  - cbn [app map decl_fields] in T. change (j_indexed (tin_jty y)) with (tn_indexed y) in T.
    rewrite tin_data_cons. destruct (tn_indexed y) eqn:Iy.
    + assert (Dy : tin_data y = false) by (unfold tin_data; rewrite Iy, andb_false_r; reflexivity).
      rewrite Dy, data_val_cons_idx by exact Iy. cbn [Nat.add]. apply IH with (post := post); assumption.
    + rewrite field_of_tin in T. cbn [fst snd] in T. inversion T as [|f v fs vs' Tf Tr]; subst.
      rewrite data_val_cons by exact Iy. unfold tin_data at 1. rewrite Iy, andb_true_r.
      destruct (tin_sel y).
      * replace (p + (1 + count tin_data pre))%nat with (S p + count tin_data pre)%nat by lia.
        apply IH with (post := post); assumption.
      * cbn [Nat.add]. apply IH with (post := post); assumption.
Qed.

Lemma overlayv_nth sg : forall r q, length sg = length r ->
  nth q (overlayv sg r) None = match nth q sg None with Some a => Some a | None => nth q r None end.
Proof.
  induction sg as [|x sg IH]; intros [|y r] q L; try discriminate; simpl in *.
  - destruct q; reflexivity.
  - destruct q as [|q]; [destruct x; reflexivity|]. apply IH. lia.
Qed.

Lemma nth_error_nth_len {A} (l : list A) q d : (q < length l)%nat -> nth_error l q = Some (nth q l d).
Proof. revert q. induction l as [|x l IH]; intros [|q] H; simpl in *; try lia; [reflexivity|apply IH; lia]. Qed.

Lemma split_count_lt {A} (p : A -> bool) pre x post : p x = true ->
  (count p pre < count p (pre ++ x :: post))%nat.
Proof. intros H. rewrite count_app, count_cons, H. lia. Qed.

(* ================= K: the decoded rows, cell by cell, from the values ================= *)
Lemma rows_spec_cells xs vs :
  e2e_dom xs false = true -> Forall2 has_type (decl_fields (map tin_jty xs) 0) vs ->
  forall i srow, nth_error (rows_spec (count tin_data xs) (tins_type xs) (VTuple vs)) i = Some srow ->
  forall pre x post, xs = pre ++ x :: post -> tin_data x = true ->
    nth_error srow (count tin_data pre) = Some (val_cell (data_val pre vs) i).
Proof.
  intros Dm T i srow Hi pre x post E Dx.
  set (n := count tin_data xs) in *. set (q := count tin_data pre).
  assert (Hq : (q < n)%nat) by (unfold q, n; rewrite E; apply split_count_lt; exact Dx).
  unfold rows_spec, tins_type, decl_type in Hi.
  rewrite leaf_cells_tuple, elem_rows_tuple, (tlc_scal xs 0 vs false Dm T), (ter_arr xs 0 vs false Dm T) in Hi.
  rewrite nth_error_map in Hi.
  assert (Hcs : exists cs, nth_error (match arr_cells xs vs 0 with [] => [[]] | _ :: _ => arr_cells xs vs 0 end) i = Some cs
                 /\ srow = overlayv (mkrow n (scal_cells xs vs 0)) (mkrow n cs)).
  { match type of Hi with option_map _ ?X = _ => destruct X as [cs|] eqn:Ecs end; [|discriminate].
    cbn [option_map] in Hi. injection Hi as <-. exists cs. split; [|reflexivity].
    revert Ecs. destruct (arr_cells xs vs 0); intros Ecs; exact Ecs. }
  clear Hi. destruct Hcs as [cs [Ecs ->]].
  assert (Ix : tn_indexed x = false).
  { unfold tin_data in Dx. apply andb_true_iff in Dx. destruct Dx as [_ Dx]. apply negb_true_iff in Dx. exact Dx. }
  pose proof (field_typing pre 0 vs x post) as Tx. rewrite <- E in Tx. specialize (Tx T Ix). cbn [Nat.add] in Tx.
  fold q in Tx.
  rewrite (nth_error_nth_len _ q None) by (rewrite overlayv_length; unfold mkrow; rewrite wr_length, repeat_length; exact Hq).
  f_equal. rewrite overlayv_nth by (unfold mkrow; rewrite !wr_length; reflexivity).
  unfold mkrow at 1.
  pose proof (scal_lookup pre 0 vs (repeat None n) x post Dx) as SL. cbn [Nat.add] in SL. fold q in SL.
  rewrite <- E in SL. rewrite SL by (rewrite repeat_length; exact Hq). clear SL.
  assert (Rn : nth q (repeat (@None bytes) n) None = None) by (apply nth_repeat).
  rewrite Rn.
  destruct (sel_array1 x) eqn:Ax.
  - (* the selected array *)
    destruct (sel_array1_not_scalar x Ax) as [_ [_ Nl]]. rewrite Nl.
    pose proof (arr_split pre 0 vs x post) as AS. rewrite <- E in AS. specialize (AS Dm Ax). cbn [Nat.add] in AS. fold q in AS.
    unfold sel_array1 in Ax. rewrite Dx in Ax. destruct (tn_dims x) as [|k [|? ?]] eqn:Ed; try discriminate.
    cbn [wrap_dims fold_left] in Tx. apply ht_arr in Tx. destruct Tx as [es [Ev [_ Te]]].
    rewrite Ev in *. rewrite AS in Ecs. unfold val_cell.
    destruct es as [|e0 es'].
    + cbn [map] in Ecs. destruct i as [|i]; [|destruct i; discriminate]. injection Ecs as <-.
      unfold mkrow, wr. cbn [fold_left]. rewrite Rn. reflexivity.
    + cbn [map] in Ecs. change (cell1 q e0 :: map (cell1 q) es') with (map (cell1 q) (e0 :: es')) in Ecs.
      rewrite nth_error_map in Ecs. destruct (nth_error (e0 :: es') i) as [e|] eqn:Ee; [|discriminate].
      cbn [option_map] in Ecs. injection Ecs as <-. unfold mkrow.
      rewrite wr_cell1 by (rewrite repeat_length; exact Hq). rewrite Rn. destruct (leaf_bytes e); reflexivity.
  - (* a scalar *)
    assert (Nl : tn_dims x = []).
    { destruct (e2e_dom xs false) eqn:Dm'; [|discriminate]. clear Dm.
      assert (G : forall l seen, e2e_dom l seen = true -> forall y, In y l -> tin_data y = true -> sel_array1 y = false -> tn_dims y = []).
      { induction l as [|z l IH]; intros seen H y Hy Dy Ay; [destruct Hy|].
        destruct (e2e_dom_cons _ _ _ H) as [seen' [Hr Hz]]. destruct Hy as [<-|Hy].
        - destruct (Hz Dy) as [N|[A _]]; [exact N|congruence].
        - eapply IH; eassumption. }
      apply (G xs false Dm' x); [rewrite E; apply in_or_app; right; left; reflexivity|exact Dx|exact Ax]. }
    rewrite Nl in *. cbn [is_nil wrap_dims fold_left] in *.
    assert (Vc : val_cell (data_val pre vs) i = leaf_bytes (data_val pre vs)).
    { unfold leaf_of in Tx. destruct (ename_dynamic (tn_name x)).
      - apply ht_dyn in Tx. destruct Tx as [b ->]. reflexivity.
      - apply ht_word in Tx. destruct Tx as [w [-> _]]. reflexivity. }
    rewrite Vc. destruct (leaf_bytes (data_val pre vs)) as [b|]; [reflexivity|].
    (* nothing decoded: no element row writes this position either *)
    destruct (arr_cells xs vs 0) as [|c0 cl] eqn:Ea.
    + destruct i as [|i]; [|destruct i; discriminate]. injection Ecs as <-.
      unfold mkrow, wr. cbn [fold_left]. exact Rn.
    + unfold mkrow. pose proof (arr_lookup_scalar pre 0 vs (repeat None n) x post cs) as AL.
      cbn [Nat.add] in AL. fold q in AL. rewrite <- E, Ea in AL.
      rewrite AL; [exact Rn| |exact Dx|exact Ax]. eapply nth_error_In. exact Ecs.
Qed.

Lemma arr_rows_count xs : forall vs p seen,
  e2e_dom xs seen = true -> Forall2 has_type (decl_fields (map tin_jty xs) p) vs ->
  Nat.max 1 (length (arr_cells xs vs p)) = arr_rows xs vs.
Proof.
  induction xs as [|x xs IH]; intros vs p seen Dm T; [reflexivity|].
  cbn [arr_cells arr_rows]. cbn [map decl_fields] in T.
  change (j_indexed (tin_jty x)) with (tn_indexed x) in T.
  destruct (tn_indexed x) eqn:Ix.
  - destruct (e2e_dom_cons _ _ _ Dm) as [seen' [Dr _]]. eapply IH; eassumption.
  - rewrite field_of_tin in T. cbn [fst snd] in T. inversion T as [|f v fs vs' Tf Tr]; subst.
    destruct (sel_array1 x) eqn:Ax.
    + destruct (sel_array1_not_scalar x Ax) as [Sc [Dx _]].
      cbn [e2e_dom] in Dm. rewrite Sc, Ax in Dm. destruct seen; [discriminate|]. cbn in Dm.
      pose proof Dx as Dx'. unfold tin_data in Dx'. apply andb_true_iff in Dx'. destruct Dx' as [Sx _]. rewrite Sx.
      rewrite (arr_cells_none xs vs' (S p) Dm), app_nil_r.
      unfold sel_array1 in Ax. rewrite Dx in Ax. destruct (tn_dims x) as [|k [|? ?]]; try discriminate.
      cbn [wrap_dims fold_left] in Tf. apply ht_arr in Tf. destruct Tf as [es [-> _]].
      rewrite map_length. reflexivity.
    + destruct (e2e_dom_cons _ _ _ Dm) as [seen' [Dr _]].
      destruct (tin_sel x); cbn [app]; eapply IH; eassumption.
Qed.

(* one candidate of the data branch, column by column (from RowsP.process_log_row_spec) *)
Lemma data_cells_row_spec d dbs e l srow i r fr :
  data_cells fixed (kind_is_and (d_agg d)) dbs e (l_topics l) srow i (coldefs d) 1 0 frs0 = Ok (r, fr) ->
  row_spec d e l (Some i) srow r.
Proof.
  intros Hd. apply data_cells_inv in Hd. destruct Hd as [rs [_ [L [_ Hn]]]].
  split; [rewrite L; apply coldefs_length|]. split.
  - intros pre inp post E Sel. destruct (coldefs_input_nth d pre inp post E Sel) as [N F].
    destruct (Hn _ _ N) as [v [rr [Hv [_ [Hrel _]]]]]. rewrite Hv.
    unfold data_cell_rel in Hrel. rewrite F in Hrel.
    destruct (input_coldefs_counts (d_table_cols d) pre 0) as [C1 C2]. rewrite C2 in Hrel.
    destruct (input_coldef_flags (d_table_cols d) pre inp) as [F1 F2]. rewrite F1, F2 in Hrel.
    unfold spec_input_cell. destruct (Rows.i_indexed inp) eqn:Ei2.
    + destruct Hrel as [tp [Ht ->]]. simpl in Ht. rewrite Ei2 in Ht.
      replace (1 + count Rows.i_indexed pre)%nat with (count Rows.i_indexed pre + 1)%nat by lia.
      rewrite Ht. simpl. split; [reflexivity|discriminate].
    + destruct Hrel as [c [Hc ->]]. simpl in Hc. rewrite Hc. simpl. split; [reflexivity|discriminate].
  - intros k bd Hk Hne. pose proof (coldefs_bd_nth d k bd Hk) as N.
    destruct (Hn _ _ N) as [v [rr [Hv [_ [Hrel _]]]]]. rewrite Hv.
    unfold data_cell_rel in Hrel.
    destruct (bd_coldef_flags (d_table_cols d) bd Hne) as [F1 F2]. rewrite F1, F2 in Hrel.
    simpl in Hrel. rewrite (get_field_spec bd e (Some i) v Hrel). split; [reflexivity|discriminate].
Qed.

(* ================= from values to cells ================= *)
Lemma end_to_end d xs vs rest dbs e l rows :
  d_inputs d = map tin_input xs -> e2e_dom xs false = true ->
  Forall2 has_type (decl_fields (map tin_jty xs) 0) vs ->
  l_data l = enc (tins_type xs) (VTuple vs) ++ rest -> l_data l <> [] ->
  N.of_nat (length (l_data l)) < 2 ^ 63 ->
  gate d l = true ->
  process_log fixed d dbs e (with_scan d l) = Ok rows ->
  exists cands,
    length cands = arr_rows xs vs /\ rows = concat (map emit cands) /\
    forall i c, nth_error cands i = Some c -> row_spec_v d xs vs e l i (fst c).
Proof.
  intros E Dm T Hd Hne Hlen G H.
  assert (Tt : has_type (tins_type xs) (VTuple vs)) by (constructor; exact T).
  assert (G' : gate d (with_scan d l) = true) by exact G.
  destruct (process_log_data _ _ _ _ _ _ H G' Hne) as [srows [cands [S [L [Er Hn]]]]].
  cbn [with_scan l_scan l_data] in S. rewrite Hd in S.
  rewrite (scan_rows_enc d xs (VTuple vs) rest E Tt) in S by (rewrite <- Hd; exact Hlen).
  injection S as S'. subst srows.
  exists cands. split.
  - rewrite L. destruct (rows_spec_shape_l (count tin_data xs) (tins_type xs) (VTuple vs)) as [Ls _].
    transitivity (Nat.max 1 (length (elem_rows (tins_type xs) (VTuple vs)))); [exact Ls|]. unfold tins_type, decl_type. rewrite elem_rows_tuple, (ter_arr xs 0 vs false Dm T).
    apply (arr_rows_count xs vs 0%nat false Dm T).
  - split; [exact Er|]. intros i c Hc.
    assert (Hlt : (i < length cands)%nat) by (apply nth_error_Some; congruence).
    destruct (nth_error (rows_spec (count tin_data xs) (tins_type xs) (VTuple vs)) i) as [srow|] eqn:Es;
      [|apply nth_error_None in Es; exfalso; revert Es Hlt; rewrite L; unfold vrowT, obytes; intros; lia].
    destruct (Hn i srow Es) as [c' [Hc' Hdc]]. rewrite Hc in Hc'. injection Hc' as <-.
    destruct c as [r fr]. cbn [fst]. cbn [with_scan l_topics] in Hdc.
    destruct (data_cells_row_spec d dbs e l srow i r fr Hdc) as [R1 [R2 R3]].
    split; [exact R1|]. split; [|exact R3].
    intros pre x post Ex Sx.
    assert (Ed : d_inputs d = map tin_input pre ++ tin_input x :: map tin_input post)
      by (rewrite E, Ex, map_app; reflexivity).
    destruct (R2 _ _ _ Ed Sx) as [A B].
    unfold spec_input_cell in A, B. rewrite ?count_map in A, B.
    change (fun x0 : tin => Rows.selected (tin_input x0)) with tin_sel in A.
    change (Rows.i_indexed (tin_input x)) with (tn_indexed x) in A, B.
    change (fun x0 : tin => Rows.i_indexed (tin_input x0)) with tn_indexed in A, B.
    destruct (tn_indexed x) eqn:Ix.
    + destruct (nth_error (l_topics l) (1 + count tn_indexed pre)) as [tp|]; [|contradiction B; reflexivity].
      exists tp. split; [reflexivity|exact A].
    + assert (Dx : tin_data x = true) by (unfold tin_data; rewrite Sx, Ix; reflexivity).
      pose proof (rows_spec_cells xs vs Dm T i srow Es pre x post Ex Dx) as K.
      assert (Cq : count is_data (map tin_input pre) = count tin_data pre)
        by exact (count_map is_data tin_input pre).
      rewrite Cq in A. unfold obytes in *.
      match type of A with context [nth_error srow ?n] =>
        replace (nth_error srow n) with (Some (val_cell (data_val pre vs) i)) in A by (symmetry; exact K) end.
      exact A.
Qed.
