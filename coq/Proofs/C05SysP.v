(* C05 in the interleaved system: the dependency position a dependent task
   reads inside its transaction is what the committed database says AT THAT
   MOMENT (other tasks may commit before and after), and every position it
   writes afterwards in the same Converge call is bounded by the most recent
   such reading.  Part 1: a property of all paths of the program tree.
   Part 2: the system invariant over the ghost history of every task. *)
From Coq Require Import List NArith Bool Lia ZifyBool ZifyN ZifyNat.
From Shovel Require Import Model.TaskTypes Model.TaskDb Model.Task Model.TaskNode Model.TaskSys
  Model.TaskSpec Proofs.TaskArithP Proofs.TaskDbP Proofs.TaskExecP Proofs.TaskLoadP Proofs.TaskInvP
  Proofs.TaskStepP Proofs.C04P Proofs.C02P Proofs.TaskSysP.
Import ListNotations.
Open Scope N_scope.

Arguments N.add : simpl never.
Arguments N.sub : simpl never.
Arguments N.mul : simpl never.
Arguments N.div : simpl never.
Arguments N.ltb : simpl never.
Arguments N.leb : simpl never.
Arguments N.eqb : simpl never.
Arguments N.min : simpl never.

Section Paths.
Variable c : tcfg.
Hypothesis Hc : cfg_ok c.

(* what a reply to the dependency query is worth: a position, if every
   referenced integration was counted *)
Definition reading (r : reply) : option N :=
  match r with
  | RDep (Some (dn, _, cnt)) => if ndeps c <=? cnt then Some dn else None
  | _ => None
  end.

(* on every path whose replies are numbered as requested: a position is
   written only under a reading, and it is at most the most recent one *)
Fixpoint DepOK (b : option N) (p : prog) : Prop :=
  match p with
  | Ret _ => True
  | Op i k =>
      match i with
      | InsCursor cur _ _ _ => match b with Some dn => c_num cur <= dn | None => False end
      | _ => True
      end
      /\ forall r, reply_ok i r ->
           DepOK (match i with QLatestDep _ _ => reading r | _ => b end) (k r)
  end.

Lemma D_rb : forall b o, DepOK b (rb o).
Proof. intros b o. cbn. split; [exact I|]. intros r _. exact I. Qed.

Lemma D_bad : forall b r, DepOK b (bad_reply r).
Proof. intros b r. unfold bad_reply. destruct r as [| |k| | | | | | |]; try apply D_rb. destruct k; apply D_rb. Qed.

Lemma D_insert : forall dn bs tn th delta, b_num (last_blk bs) <= dn ->
  DepOK (Some dn) (insert_tx c bs tn th delta).
Proof.
  intros dn bs tn th delta H. cbn. split; [exact I|]. intros r1 _. unfold tx1_commit.
  destruct (is_fail r1); [exact I|]. cbn. split; [exact I|]. intros r2 _. unfold tx2_begin.
  destruct (is_fail r2); [exact I|]. cbn. split; [exact I|]. intros r3 _. unfold tx2_copy.
  destruct (is_fail r3); [apply D_rb|]. cbn. split; [exact H|]. intros r4 _. unfold tx2_cursor.
  destruct (is_fail r4); [apply D_rb|]. cbn. split; [exact I|]. intros r5 _. unfold tx2_done.
  destruct (is_fail r5); exact I.
Qed.

Definition again_dep (again : prog) : Prop := forall b, DepOK b again.

Lemma D_unwind : forall b ln again, again_dep again -> DepOK b (unwind repaired c ln again).
Proof.
  intros b ln again Ha. cbn. split; [exact I|]. intros r _. unfold unwind_k.
  destruct (is_fail r); [apply D_rb|]. cbn. split; [exact I|]. intros r' _. unfold unwind_prev.
  destruct r' as [| | | | |o| | | |]; try apply D_rb.
  destruct o; (cbn; split; [exact I|]; intros r'' _; unfold del_rows_k; destruct (is_fail r''); [apply D_rb|apply Ha]).
Qed.

Lemma D_after_get : forall dn ln lh tn th again r,
  again_dep again -> ln < tn -> tn <= dn -> tn < nmax ->
  reply_ok (RGet (partitions repaired c (ln + 1) (delta_of c ln tn))) r ->
  DepOK (Some dn) (after_get repaired c again ln lh tn th (delta_of c ln tn) r).
Proof.
  intros dn ln lh tn th again r Ha Hlt Hle Hmax Hr. unfold after_get.
  destruct r as [| | | | | | | | |segs]; try apply D_bad.
  set (delta := delta_of c ln tn) in *.
  assert (Hd : 1 <= delta /\ delta <= t_batch c /\ ln + delta <= tn).
  { unfold delta, delta_of. destruct Hc as (Hb & _). lia. }
  destruct Hd as (D1 & D2 & D3).
  assert (T : tiles (ln + 1) (ln + 1 + delta) (partitions repaired c (ln + 1) delta)).
  { apply partitions_tile; try assumption. unfold nmax, two63 in *. lia. }
  cbn in Hr. pose proof (load_check_cases lh ln delta _ segs T D1 Hr) as L.
  destruct (load_check repaired lh segs) as [bs| | |].
  - destruct L as [[Hn _ _] _]. apply D_insert.
    destruct (N.to_nat delta) as [|k] eqn:Ek; [lia|]. rewrite (nums_from_last k (ln + 1) bs Hn). lia.
  - apply D_unwind. exact Ha.
  - apply D_rb.
  - apply D_rb.
Qed.

Lemma clipl : forall tn, clip c tn <= tn.
Proof. intros tn. unfold clip. destruct (N.ltb_spec 0 (t_stop c)), (N.ltb_spec (t_stop c) tn); cbn; lia. Qed.

Lemma D_after_target : forall dn ln lh tn th again,
  again_dep again -> tn <= dn -> tn < nmax ->
  DepOK (Some dn) (after_target repaired c again ln lh tn th).
Proof.
  intros dn ln lh tn th again Ha Hle Hmax. unfold after_target. pose proof (clipl tn) as Hcl.
  destruct (N.ltb_spec (clip c tn) ln); [apply D_rb|].
  destruct (N.eqb_spec ln (clip c tn)); [apply D_rb|].
  destruct (N.eqb_spec (delta_of c ln (clip c tn)) 0); [apply D_rb|].
  assert (Hln : ln + 1 < two64) by (unfold nmax, two64 in *; lia).
  rewrite (w64_small _ Hln). cbn. split; [exact I|]. intros r Hr.
  apply D_after_get; try assumption; lia.
Qed.

Lemma D_after_dep : forall ln lh gn gh again r,
  again_dep again -> gn < nmax ->
  DepOK (reading r) (after_dep repaired c again ln lh gn gh r).
Proof.
  intros ln lh gn gh again r Ha Hmax. unfold after_dep.
  destruct r as [| | | |o| | | | |]; try apply D_rb.
  destruct o as [[[dn dh] cnt]|]; [|apply D_rb]. cbn [v_depall repaired andb reading].
  destruct (N.ltb_spec cnt (ndeps c)); [apply D_rb|].
  destruct (N.leb_spec (ndeps c) cnt); [|lia].
  destruct (N.eqb_spec dn 0); [apply D_rb|].
  destruct (N.ltb_spec dn gn); apply D_after_target; try assumption; lia.
Qed.

Hypothesis Hdeps : t_deps c <> [].

Lemma D_after_head : forall b ln lh again r,
  again_dep again -> reply_ok (RLatest ln) r ->
  DepOK b (after_head repaired c again ln lh r).
Proof.
  intros b ln lh again r Ha Hr. unfold after_head.
  destruct r as [| | | | | | |gn gh| |]; try apply D_bad. cbn in Hr.
  destruct (t_deps c) as [|dep deps] eqn:Ed; [congruence|].
  cbn. split; [exact I|]. intros r' _. apply D_after_dep; assumption.
Qed.

Lemma D_with_local : forall b ln lh again, again_dep again -> DepOK b (with_local repaired c again ln lh).
Proof.
  intros b ln lh again Ha. unfold with_local.
  destruct ((0 <? t_stop c) && (t_stop c <=? ln)); [apply D_rb|].
  cbn. split; [exact I|]. intros r Hr. apply D_after_head; assumption.
Qed.

Lemma D_position : forall b again, again_dep again -> DepOK b (position repaired c again).
Proof.
  intros b again Ha. cbn. split; [exact I|]. intros r _. unfold pos_query.
  destruct r as [| | |o| | | | | |]; try apply D_rb.
  destruct o as [[n h]|]; [apply D_with_local; exact Ha|].
  destruct (0 <? t_start c).
  - cbn. split; [exact I|]. intros r _. unfold pos_hash. destruct r; try apply D_bad.
    apply D_with_local. exact Ha.
  - cbn. split; [exact I|]. intros r _. unfold pos_head. destruct r; try apply D_bad.
    cbn. split; [exact I|]. intros r' _. unfold pos_hash. destruct r'; try apply D_bad.
    apply D_with_local. exact Ha.
Qed.

Lemma D_reorg_loop : forall f, again_dep (reorg_loop repaired f c).
Proof. induction f as [|f IH]; intros b; [apply D_rb|]. cbn [reorg_loop]. apply D_position. exact IH. Qed.

Lemma D_converge : forall b, DepOK b (converge c).
Proof.
  intros b. unfold converge, converge_v. cbn. split; [exact I|]. intros r _. unfold begun.
  destruct (is_fail r); [exact I|]. apply D_reorg_loop.
Qed.
End Paths.

(* ---------- Part 2: the interleaved system ---------- *)
Definition is_dep_io (i : io) : bool := match i with QLatestDep _ _ => true | _ => false end.

(* the bound in force: the reading of the most recent dependency query *)
Fixpoint hbound (c : tcfg) (h : list (io * reply * db)) : option N :=
  match h with
  | [] => None
  | (i, r, _) :: rest => if is_dep_io i then reading c r else hbound c rest
  end.

(* every recorded reading is what the committed database of that moment says *)
Definition hist_sound (c : tcfg) (h : list (io * reply * db)) : Prop :=
  Forall (fun e => match e with
                   | (QLatestDep s deps, RDep x, d) =>
                       s = t_src c /\ deps = t_deps c
                       /\ x = dep_query (t_src c) (t_deps c) (d_curs d)
                   | _ => True
                   end) h.

Definition dep_good (seen : list db) (t : tstate) : Prop :=
  let c := ts_cfg t in
  cfg_ok c /\ ts_ok t /\ hist_sound c (ts_hist t)
  /\ Forall (fun e => In (snd e) seen) (ts_hist t)
  /\ (t_deps c <> [] ->
      match ts_prog t with Some p => DepOK c (hbound c (ts_hist t)) p | None => True end).

Lemma dep_good_seen : forall seen seen' t, (forall x, In x seen -> In x seen') ->
  dep_good seen t -> dep_good seen' t.
Proof.
  intros seen seen' t H (A & B & C & D & E). split; [exact A|]. split; [exact B|]. split; [exact C|].
  split; [|exact E]. eapply Forall_impl; [|exact D]. intros e. apply H.
Qed.

Lemma task_move_dep : forall d a t seen, a <> ACrash -> unforced a ->
  dep_good (d :: seen) t ->
  match ts_prog t with
  | Some (Op i k) => reply_ok i (snd (step_op (t_uniq (ts_cfg t)) d (ts_cs t) i a))
  | _ => True
  end ->
  dep_good (d :: seen) (snd (task_move d a t)).
Proof.
  intros d a t seen Ha Hu (Hc & Hok & Hs & Hseen & Hd) Hr.
  destruct (task_move_ok d a t Ha Hok) as (Hok' & Hcfg & _).
  unfold task_move in *. destruct (ts_prog t) as [[o|i k]|] eqn:Ep.
  - cbn [snd ts_cfg ts_hist ts_prog] in *. split; [exact Hc|]. split; [exact Hok'|]. split; [constructor|].
    split; [constructor|]. intros _. exact I.
  - destruct Hok as [Hown Hk]. rewrite Ep in Hk. destruct Hk as [Hki Hkk].
    assert (Hsound : match i with
                     | QLatestDep s deps =>
                         match snd (step_op (t_uniq (ts_cfg t)) d (ts_cs t) i a) with
                         | RDep x => s = t_src (ts_cfg t) /\ deps = t_deps (ts_cfg t)
                                     /\ x = dep_query (t_src (ts_cfg t)) (t_deps (ts_cfg t)) (d_curs d)
                         | _ => True
                         end
                     | _ => True
                     end).
    { destruct i; try exact I. destruct Hki as [-> ->].
      unfold step_op. cbn [is_db_op].
      assert (Ef : forced_dep (QLatestDep (t_src (ts_cfg t)) (t_deps (ts_cfg t))) a = None).
      { unfold forced_dep. destruct a as [|r|]; try reflexivity. destruct r; try reflexivity.
        exfalso. eapply Hu. reflexivity. }
      rewrite Ef. destruct a as [|r|]; try congruence.
      - cbn [db_step snd]. split; [reflexivity|split; [reflexivity|]].
        destruct (ts_cs t) as [ws|]; cbn [vis]; [|reflexivity].
        apply (dep_query_own (ts_cfg t) ws d Hown). apply cfg_self. exact Hc.
      - destruct r; try (cbn [db_step snd]; split; [reflexivity|split; [reflexivity|]];
                         destruct (ts_cs t) as [ws|]; cbn [vis]; [|reflexivity];
                         apply (dep_query_own (ts_cfg t) ws d Hown); apply cfg_self; exact Hc).
        unfold fault. destruct k0; cbn [snd]; try exact I;
          destruct (db_step _ _ _ _) as [[? ?] ?]; exact I. }
    destruct (step_op (t_uniq (ts_cfg t)) d (ts_cs t) i a) as [[d1 cs1] r] eqn:Es.
    cbn [snd fst ts_cfg ts_hist ts_prog ts_cs] in *.
    split; [exact Hc|]. split; [exact Hok'|]. split; [|split].
    + constructor; [|exact Hs]. destruct i; try exact I. destruct r; try exact I. exact Hsound.
    + constructor; [left; reflexivity|exact Hseen].
    + intros Hne. specialize (Hd Hne). cbn [DepOK] in Hd. destruct Hd as [_ Hd].
      specialize (Hd r Hr). cbn [hbound]. destruct i; cbn [is_dep_io]; exact Hd.
  - cbn [snd ts_cfg ts_hist ts_prog] in *. split; [exact Hc|]. split; [exact Hok'|]. split; [constructor|].
    split; [constructor|]. intros Hne. cbn [hbound]. apply D_converge; assumption.
Qed.

Lemma move_task_dep : forall tid a ts d seen, a <> ACrash -> unforced a ->
  Forall (dep_good (d :: seen)) ts ->
  (forall t, In t ts -> t_id (ts_cfg t) = tid ->
     match ts_prog t with
     | Some (Op i k) => reply_ok i (snd (step_op (t_uniq (ts_cfg t)) d (ts_cs t) i a))
     | _ => True
     end) ->
  Forall (dep_good (d :: seen)) (snd (move_task tid a d ts)).
Proof.
  intros tid a ts. induction ts as [|t ts IH]; intros d seen Ha Hu Hg Hr; [constructor|].
  inversion Hg as [|? ? Ht Hts]; subst. cbn [move_task].
  destruct (N.eqb_spec (t_id (ts_cfg t)) tid) as [E|E].
  - pose proof (task_move_dep d a t seen Ha Hu Ht (Hr t (or_introl eq_refl) E)) as Hm.
    destruct (task_move d a t) as [d1 t1]. cbn [fst snd] in *. constructor; assumption.
  - specialize (IH d seen Ha Hu Hts (fun t2 H2 => Hr t2 (or_intror H2))).
    destruct (move_task tid a d ts) as [d1 ts1]. cbn [fst snd] in *. constructor; assumption.
Qed.

Lemma sys_step_dep : forall st m seen, unforced (snd m) -> move_ok st m ->
  Forall (dep_good (s_db st :: seen)) (s_tasks st) ->
  Forall (dep_good (s_db (sys_step st m) :: s_db st :: seen)) (s_tasks (sys_step st m)).
Proof.
  intros st [tid a] seen Hu Hm Hg. cbn [fst snd] in *. unfold move_ok in Hm. cbn [fst snd] in Hm.
  assert (Hgrow : forall x, In x (s_db st :: seen) -> In x (s_db (sys_step st (tid, a)) :: s_db st :: seen))
    by (intros x Hx; right; exact Hx).
  destruct (match a with ACrash => true | _ => false end) eqn:Ea.
  - destruct a; try discriminate. unfold sys_step. cbn [snd s_db s_tasks]. unfold crash_all.
    apply Forall_forall. intros t Ht. apply in_map_iff in Ht. destruct Ht as (t0 & <- & Ht0).
    rewrite Forall_forall in Hg. destruct (Hg t0 Ht0) as (Hc & _).
    split; [exact Hc|]. split; [split; exact I|]. split; [constructor|]. split; [constructor|]. intros _. exact I.
  - assert (Hna : a <> ACrash) by (destruct a; congruence).
    destruct Hm as [Hm|Hm]; [congruence|].
    assert (E : sys_step st (tid, a)
                = Sys (fst (move_task tid a (s_db st) (s_tasks st))) (snd (move_task tid a (s_db st) (s_tasks st)))).
    { unfold sys_step. cbn [fst snd]. destruct a; try discriminate;
        destruct (move_task tid _ (s_db st) (s_tasks st)); reflexivity. }
    rewrite E in *. cbn [s_db s_tasks] in *.
    eapply Forall_impl; [|apply (move_task_dep tid a (s_tasks st) (s_db st) seen Hna Hu Hg Hm)].
    intros t. apply dep_good_seen. exact Hgrow.
Qed.

Lemma sys_states_dep : forall sch st seen,
  Forall (fun m => unforced (snd m)) sch -> sched_ok sch st ->
  Forall (dep_good (s_db st :: seen)) (s_tasks st) ->
  forall st', In st' (sys_states sch st) ->
  exists seen', Forall (dep_good seen') (s_tasks st')
                /\ forall x, In x seen' -> In x (map s_db (sys_states sch st)) \/ In x seen.
Proof.
  induction sch as [|m sch IH]; intros st seen Hu Hs Hg st' Hin; cbn [sys_states] in *.
  - destruct Hin as [<-|[]]. exists (s_db st :: seen). split; [exact Hg|].
    intros x [<-|Hx]; [left; left; reflexivity|right; exact Hx].
  - destruct Hin as [<-|Hin].
    + exists (s_db st :: seen). split; [exact Hg|].
      intros x [<-|Hx]; [left; left; reflexivity|right; exact Hx].
    + inversion Hu as [|? ? Hu1 Hu2]; subst. destruct Hs as [Hm Hs].
      destruct (IH (sys_step st m) (s_db st :: seen) Hu2 Hs (sys_step_dep st m seen Hu1 Hm Hg) st' Hin)
        as (seen' & A & B).
      exists seen'. split; [exact A|]. intros x Hx. destruct (B x Hx) as [H1|[<-|H1]].
      * left. cbn [map]. right. exact H1.
      * left. cbn [map]. left. reflexivity.
      * right. exact H1.
Qed.

Lemma dep_query_count : forall s deps cs dn dh cnt,
  dep_query s deps cs = Some (dn, dh, cnt) -> cnt <= N.of_nat (length (distinct_deps deps)).
Proof.
  intros s deps cs dn dh cnt H. unfold dep_query in H.
  destruct (fold_left lower _ None) as [[n' h']|]; [|discriminate]. inversion H; subst.
  generalize (distinct_deps deps). intros l. induction l as [|x l IH]; cbn [dep_latest length]; [lia|].
  destruct (newest s x cs); cbn [length]; lia.
Qed.

(* C05, interleaved: when a task with filter references is about to write a
   position, the most recent dependency reading of this Converge call -- taken
   from the committed database [d_r] of a state of this run, at the moment of
   the read -- bounds it, and in [d_r] EVERY referenced integration had a
   committed cursor at or beyond that reading *)
Lemma system_dep_lemma : forall cfgs d sch,
  Forall cfg_ok cfgs -> Forall (fun m => unforced (snd m)) sch -> sched_ok sch (sys_init cfgs d) ->
  forall st t cur a b n k,
  In st (sys_states sch (sys_init cfgs d)) -> In t (s_tasks st) ->
  t_deps (ts_cfg t) <> [] -> ts_prog t = Some (Op (InsCursor cur a b n) k) ->
  exists dn dh d_r,
    In (QLatestDep (t_src (ts_cfg t)) (t_deps (ts_cfg t)), RDep (Some (dn, dh, ndeps (ts_cfg t))), d_r) (ts_hist t)
    /\ In d_r (map s_db (sys_states sch (sys_init cfgs d)))
    /\ c_num cur <= dn
    /\ dep_query (t_src (ts_cfg t)) (t_deps (ts_cfg t)) (d_curs d_r) = Some (dn, dh, ndeps (ts_cfg t))
    /\ forall R, In R (t_deps (ts_cfg t)) ->
         exists n' h', newest (t_src (ts_cfg t)) R (d_curs d_r) = Some (n', h') /\ dn <= n'.
Proof.
  intros cfgs d sch Hc Hu Hs st t cur a b n k Hst Ht Hdeps Hp.
  assert (Hinit : Forall (dep_good (s_db (sys_init cfgs d) :: [])) (s_tasks (sys_init cfgs d))).
  { unfold sys_init. cbn [s_db s_tasks]. apply Forall_forall. intros t0 H0. apply in_map_iff in H0.
    destruct H0 as (c0 & <- & Hin). rewrite Forall_forall in Hc.
    split; [apply Hc; exact Hin|]. split; [split; exact I|]. split; [constructor|]. split; [constructor|].
    intros _. exact I. }
  destruct (sys_states_dep sch _ [] Hu Hs Hinit st Hst) as (seen' & Hg & Hsub).
  rewrite Forall_forall in Hg. destruct (Hg t Ht) as (Hcf & _ & Hsound & Hseen & Hd).
  specialize (Hd Hdeps). rewrite Hp in Hd. cbn [DepOK] in Hd. destruct Hd as [Hb _].
  (* the bound comes from the most recent dependency query of the history *)
  revert Hb Hsound Hseen. generalize (ts_hist t). intros h. induction h as [|[[i r] dr] h IH]; intros Hb Hsound Hseen.
  - destruct Hb.
  - inversion Hsound as [|? ? Hs1 Hs2]; subst. inversion Hseen as [|? ? Hse1 Hse2]; subst.
    cbn [hbound] in Hb. destruct (is_dep_io i) eqn:Ei.
    + destruct i; try discriminate. unfold reading in Hb.
      destruct r as [| | | |o| | | | |]; try destruct Hb. destruct o as [[[dn dh] cnt]|]; [|destruct Hb].
      destruct (N.leb_spec (ndeps (ts_cfg t)) cnt); [|destruct Hb].
      destruct Hs1 as (-> & -> & Eq). symmetry in Eq.
      pose proof (dep_query_count _ _ _ _ _ _ Eq) as Hle. assert (cnt = ndeps (ts_cfg t)) by (unfold ndeps in *; lia).
      subst cnt. exists dn, dh, dr. split; [left; reflexivity|]. split.
      { cbn [snd] in Hse1. destruct (Hsub dr Hse1) as [H1|[]]. exact H1. }
      split; [exact Hb|]. split; [exact Eq|].
      intros R HR. apply (dep_query_full _ _ _ _ _ Eq R HR).
    + destruct (IH Hb Hs2 Hse2) as (dn & dh & d_r & A & B).
      exists dn, dh, d_r. split; [right; exact A|exact B].
Qed.
