(* Lemmas about Model/Schema.v, part 4: end to end.  After a successful
   migration the catalog holds, for the table of a plain integration that is
   not shared with an integration of another key, exactly the generated key
   as unique index and every written column; the COPY of the rows of
   well-formed blocks is accepted, the same COPY again is rejected. *)
From Coq Require Import List NArith Bool String Ascii Lia.
From Shovel Require Import Base.Outcome Model.Config Model.Sql Model.Schema
  Proofs.ConfigP Proofs.SchemaP Proofs.SchemaKeyP Proofs.C16P.
Import ListNotations.
Open Scope N_scope.

(* ---- first_dup ---- *)
Lemma existsb_false_forall : forall {A} (p : A -> bool) l, existsb p l = false <-> forall x, In x l -> p x = false.
Proof.
  intros A p l. split.
  - intros H x Hx. destruct (p x) eqn:E; [|reflexivity].
    assert (existsb p l = true) by (apply existsb_exists; exists x; auto). congruence.
  - intros H. destruct (existsb p l) eqn:E; [|reflexivity].
    apply existsb_exists in E as [x [Hx Hp]]. rewrite (H x Hx) in Hp. discriminate.
Qed.


Section FirstDup.
  Variable u : list str.

  Fixpoint noconf (seen : list (list cell)) (rs : list row) : Prop :=
    match rs with
    | [] => True
    | r :: rest => (forall s, In s seen -> conflict (key u r) s = false) /\ noconf (key u r :: seen) rest
    end.

  Lemma first_dup_noconf : forall rs seen, first_dup u seen rs = false <-> noconf seen rs.
  Proof.
    induction rs as [|r rs IH]; intros seen; simpl; [tauto|].
    destruct (existsb (conflict (key u r)) seen) eqn:E.
    - split; [discriminate|]. intros [H _]. apply (proj2 (existsb_false_forall _ _)) in H. congruence.
    - rewrite IH. pose proof (proj1 (existsb_false_forall _ _) E) as E'. tauto.
  Qed.

  Lemma noconf_mono : forall rs s1 s2, (forall x, In x s2 -> In x s1) -> noconf s1 rs -> noconf s2 rs.
  Proof.
    induction rs as [|r rs IH]; intros s1 s2 Hs H; simpl in *; [exact I|]. destruct H as [H1 H2]. split.
    - intros s Hin. apply H1. apply Hs. exact Hin.
    - apply (IH (key u r :: s1)); [|exact H2]. intros x [Hx|Hx]; [left; exact Hx|right; apply Hs; exact Hx].
  Qed.

  Lemma noconf_app : forall A B seen, noconf seen A -> noconf (map (key u) A ++ seen) B -> noconf seen (A ++ B).
  Proof.
    induction A as [|a A IH]; intros B seen HA HB; simpl in *; [exact HB|]. destruct HA as [H1 H2].
    split; [exact H1|]. apply IH; [exact H2|]. apply (noconf_mono B _ _ (fun x => id)) in HB.
    eapply noconf_mono; [|exact HB]. intros x Hx. apply in_app_or in Hx as [Hx|[Hx|Hx]].
    - right. apply in_or_app. left. exact Hx.
    - left. exact Hx.
    - right. apply in_or_app. right. exact Hx.
  Qed.

  (* pairwise non-conflicting rows (stated by position) and nothing in [seen] conflicts *)
  Lemma noconf_intro : forall rs seen d,
    (forall r s, In r rs -> In s seen -> conflict (key u r) s = false) ->
    (forall i j, (i < List.length rs)%nat -> (j < List.length rs)%nat -> i <> j ->
                 conflict (key u (nth i rs d)) (key u (nth j rs d)) = false) ->
    noconf seen rs.
  Proof.
    induction rs as [|r rs IH]; intros seen d H1 H2; simpl; [exact I|]. split.
    - intros s Hs. apply H1; [left; reflexivity|exact Hs].
    - apply (IH _ d).
      + intros r' s Hr' [Hs|Hs].
        * subst s. destruct (In_nth rs r' d Hr') as [i [Hi Hn]].
          specialize (H2 (S i) O). simpl in H2. rewrite Hn in H2. apply H2; lia.
        * apply H1; [right; exact Hr'|exact Hs].
      + intros i j Hi Hj Hne. specialize (H2 (S i) (S j)). simpl in H2. apply H2; lia.
  Qed.

  (* a row that occurs twice and conflicts with itself is found *)
  Lemma first_dup_seen : forall rs seen r s,
    In s seen -> In r rs -> conflict (key u r) s = true -> first_dup u seen rs = true.
  Proof.
    induction rs as [|r0 rs IH]; intros seen r s Hs Hr Hc; simpl; [contradiction|].
    destruct (existsb (conflict (key u r0)) seen) eqn:E; [reflexivity|].
    destruct Hr as [Hr|Hr].
    - subst r0. pose proof (proj1 (existsb_false_forall _ _) E s Hs). congruence.
    - apply (IH _ r s); [right; exact Hs|exact Hr|exact Hc].
  Qed.

  Lemma first_dup_twice : forall A B r seen,
    In r B -> conflict (key u r) (key u r) = true -> first_dup u seen (A ++ r :: B) = true.
  Proof.
    induction A as [|a A IH]; intros B r seen Hr Hc; simpl.
    - destruct (existsb (conflict (key u r)) seen); [reflexivity|].
      apply (first_dup_seen B _ r (key u r)); [left; reflexivity|exact Hr|exact Hc].
    - destruct (existsb (conflict (key u a)) seen); [reflexivity|]. apply IH; assumption.
  Qed.
End FirstDup.

(* ---- the index in force on a table ---- *)
Definition uname (tn : str) : str := u_prefix ++ tn.

(* every unique index on tn has the columns u, and the name u_<tn> is not
   taken by anything else *)
Definition KeyInv (tn : str) (u : list str) (cat : catalog) : Prop :=
  forall ix, In ix (cat_indexes cat) ->
    (ix_unique ix = true -> ix_table ix = tn -> ix_cols ix = u) /\
    (ix_name ix = uname tn -> ix_table ix = tn /\ ix_unique ix = true /\ ix_cols ix = u).

Definition idx_le (c1 c2 : catalog) : Prop := forall ix, In ix (cat_indexes c1) -> In ix (cat_indexes c2).

Lemma create_idx_spec : forall cat name tn cols uq cat',
  create_idx cat name tn cols uq = Some cat' ->
  idx_le cat cat' /\ has_index cat' name = true /\
  forall ix, In ix (cat_indexes cat') ->
    In ix (cat_indexes cat) \/ ix = {| ix_name := name; ix_table := tn; ix_cols := cols; ix_unique := uq |}.
Proof.
  intros cat name tn cols uq cat' H. unfold create_idx in H.
  destruct (is_nil cols); [discriminate|]. destruct (has_index cat name) eqn:Eh.
  - inversion H; subst. split; [intros ix Hx; exact Hx|]. split; [exact Eh|]. intros ix Hx. left. exact Hx.
  - destruct (forallb _ cols); [|discriminate]. inversion H; subst; clear H. simpl. split; [|split].
    + intros ix Hx. simpl. apply in_or_app. left. exact Hx.
    + unfold has_index. simpl. rewrite existsb_app. simpl. rewrite str_eqb_refl, orb_true_r. reflexivity.
    + intros ix Hx. apply in_app_or in Hx as [Hx|[Hx|[]]]; [left; exact Hx|right; symmetry; exact Hx].
Qed.

Lemma has_index_le : forall c1 c2 n, idx_le c1 c2 -> has_index c1 n = true -> has_index c2 n = true.
Proof.
  intros c1 c2 n Hle H. unfold has_index in *. apply existsb_exists in H as [ix [Hx Hn]].
  apply existsb_exists. exists ix. split; [apply Hle; exact Hx|exact Hn].
Qed.

Lemma index_name_not_u : forall cols tn, index_name cols <> uname tn.
Proof. intros cols tn H. unfold index_name, uname, shovel_prefix, u_prefix in H. simpl in H. discriminate. Qed.

Lemma uname_inj : forall a b, uname a = uname b -> a = b.
Proof. intros a b H. unfold uname in H. apply app_inv_head in H. exact H. Qed.

Section MigIdx.
  Variable res : list str.
  Variables (tn : str) (u : list str).

  (* an integration's table is compatible with (tn, u): another table, or every
     unique list it declares is u *)
  Definition compat (t : table) : Prop :=
    lower_ascii (t_name t) <> tn \/ Forall (fun k => map (ddl_name res) k = u) (t_unique t).

  Lemma fold_unique_inv : forall tn' l cat cat',
    (tn' <> tn \/ Forall (fun k => map (ddl_name res) k = u) l) ->
    fold_opt (fun c k => create_idx c (uname tn') tn' (map (ddl_name res) k) true) l cat = Some cat' ->
    KeyInv tn u cat -> KeyInv tn u cat' /\ idx_le cat cat' /\ (l <> [] -> has_index cat' (uname tn') = true).
  Proof.
    intros tn'. induction l as [|k l IH]; intros cat cat' Hc H Hinv; simpl in H.
    - inversion H; subst. split; [exact Hinv|]. split; [intros ix Hx; exact Hx|]. intros Hn. contradiction.
    - destruct (create_idx cat (uname tn') tn' (map (ddl_name res) k) true) as [c1|] eqn:E; [|discriminate].
      destruct (create_idx_spec _ _ _ _ _ _ E) as [Hle1 [Hhas Hnew]].
      assert (Hinv1 : KeyInv tn u c1).
      { intros ix Hx. destruct (Hnew ix Hx) as [Hold|Heq]; [apply Hinv; exact Hold|]. subst ix. simpl.
        destruct Hc as [Hne|Hall].
        - split; [intros _ Ht; contradiction|]. intros Hn. apply uname_inj in Hn. contradiction.
        - apply Forall_cons_iff in Hall as [Hk _]. split; [intros _ _; exact Hk|].
          intros Hn. apply uname_inj in Hn. auto. }
      assert (Hc' : tn' <> tn \/ Forall (fun k0 => map (ddl_name res) k0 = u) l).
      { destruct Hc as [Hne|Hall]; [left; exact Hne|right]. apply Forall_cons_iff in Hall as [_ Hl]. exact Hl. }
      destruct (IH c1 cat' Hc' H Hinv1) as [Hinv' [Hle' _]]. split; [exact Hinv'|]. split.
      + intros ix Hx. apply Hle', Hle1, Hx.
      + intros _. apply (has_index_le c1 cat' _ Hle' Hhas).
  Qed.

  Lemma fold_plain_inv : forall tn' l cat cat',
    fold_opt (fun c ix => create_idx c (index_name ix) tn' (map (idx_col res) ix) false) l cat = Some cat' ->
    KeyInv tn u cat -> KeyInv tn u cat' /\ idx_le cat cat'.
  Proof.
    intros tn'. induction l as [|k l IH]; intros cat cat' H Hinv; simpl in H.
    - inversion H; subst. split; [exact Hinv|intros ix Hx; exact Hx].
    - destruct (create_idx cat (index_name k) tn' (map (idx_col res) k) false) as [c1|] eqn:E; [|discriminate].
      destruct (create_idx_spec _ _ _ _ _ _ E) as [Hle1 [_ Hnew]].
      assert (Hinv1 : KeyInv tn u c1).
      { intros ix Hx. destruct (Hnew ix Hx) as [Hold|Heq]; [apply Hinv; exact Hold|]. subst ix. simpl.
        split; [discriminate|]. intros Hn. exfalso. exact (index_name_not_u _ _ Hn). }
      destruct (IH c1 cat' H Hinv1) as [Hinv' Hle']. split; [exact Hinv'|]. intros ix Hx. apply Hle', Hle1, Hx.
  Qed.

  Lemma migrate_table_idx : forall cat t cat', migrate_table res cat t = Some cat' -> compat t ->
    KeyInv tn u cat ->
    KeyInv tn u cat' /\ idx_le cat cat' /\
    (is_nil (t_cols t) = false -> t_unique t <> [] -> has_index cat' (uname (lower_ascii (t_name t))) = true).
  Proof.
    intros cat t cat' H Hc Hinv. unfold migrate_table in H. destruct (is_nil (t_cols t)) eqn:En.
    { inversion H; subst. split; [exact Hinv|]. split; [intros ix Hx; exact Hx|discriminate]. }
    destruct (is_reserved res (t_name t)); [discriminate|].
    destruct (create_table_cat res cat t) as [cat1|] eqn:E1; [|discriminate].
    assert (I1 : cat_indexes (add_missing res cat1 t) = cat_indexes cat).
    { unfold add_missing, set_cols. simpl. unfold create_table_cat in E1.
      destruct (find_table cat (lower_ascii (t_name t))); [inversion E1; reflexivity|].
      destruct (nodupb _); [inversion E1; reflexivity|discriminate]. }
    unfold create_indexes in H.
    destruct (fold_opt _ (t_unique t) (add_missing res cat1 t)) as [cat2|] eqn:E2; [|discriminate].
    assert (Hinv0 : KeyInv tn u (add_missing res cat1 t)) by (intros ix Hx; rewrite I1 in Hx; apply Hinv; exact Hx).
    destruct (fold_unique_inv (lower_ascii (t_name t)) (t_unique t) _ cat2 Hc E2 Hinv0) as [Hinv2 [Hle2 Hhas2]].
    destruct (fold_plain_inv _ _ _ _ H Hinv2) as [Hinv3 Hle3].
    split; [exact Hinv3|]. split.
    - intros ix Hx. apply Hle3, Hle2. rewrite I1. exact Hx.
    - intros _ Hne. apply (has_index_le cat2 cat' _ Hle3 (Hhas2 Hne)).
  Qed.

  Lemma migrate_all_idx : forall igs cat cat',
    migrate_all res cat igs = Some cat' -> Forall (fun g => compat (ig_table g)) igs -> KeyInv tn u cat ->
    KeyInv tn u cat' /\ idx_le cat cat' /\
    forall g, In g igs -> is_nil (t_cols (ig_table g)) = false -> t_unique (ig_table g) <> [] ->
              has_index cat' (uname (lower_ascii (t_name (ig_table g)))) = true.
  Proof.
    unfold migrate_all. induction igs as [|g0 igs IH]; intros cat cat' H Hc Hinv; simpl in H.
    - inversion H; subst. split; [exact Hinv|]. split; [intros ix Hx; exact Hx|]. intros g [].
    - destruct (migrate_table res cat (ig_table g0)) as [c1|] eqn:E; [|discriminate].
      apply Forall_cons_iff in Hc as [Hc0 Hcs].
      destruct (migrate_table_idx _ _ _ E Hc0 Hinv) as [Hinv1 [Hle1 Hhas1]].
      destruct (IH c1 cat' H Hcs Hinv1) as [Hinv' [Hle' Hhas']]. split; [exact Hinv'|]. split.
      + intros ix Hx. apply Hle', Hle1, Hx.
      + intros g [Hg|Hg] Hn Hu; [subst g0; apply (has_index_le c1 cat' _ Hle' (Hhas1 Hn Hu))|apply Hhas'; assumption].
  Qed.
End MigIdx.

(* ---- db ---- *)
Lemma rows_of_put : forall d tn rs, rows_of (put_rows d tn rs) tn = rs.
Proof. intros. unfold rows_of, put_rows. simpl. rewrite str_eqb_refl. reflexivity. Qed.

(* ---- assembly ---- *)
Section E2E.
  Variables (res possible : list str).

  Definition plain_domain (g : integ) : Prop :=
    validate_col_refs g = true /\ plain_names res g = true /\
    t_unique (ig_table g) = [generated_key possible g] /\
    identity_plain possible (generated_key possible g) g = true /\
    nodupb (written_columns g) = true.

  Lemma key_plain : forall g, plain_names res g = true ->
    map (ddl_name res) (generated_key possible g) = generated_key possible g.
  Proof.
    intros g Hp. unfold plain_names in Hp. apply andb_true_iff in Hp as [_ Hc]. rewrite forallb_forall in Hc.
    rewrite <- (map_id (generated_key possible g)) at 2. apply map_ext_in. intros k Hk.
    unfold generated_key in Hk. apply filter_In in Hk as [_ Hk]. unfold has_col in Hk. apply mem_In in Hk.
    unfold col_names in Hk. apply in_map_iff in Hk as [c [Hn Hin]]. subst k. apply plain_ddl_name. apply Hc. exact Hin.
  Qed.

  Lemma written_nonnil : forall g x, validate_col_refs g = true -> In x (written_columns g) -> is_nil x = false.
  Proof.
    intros g x Hv Hx. pose proof Hv as Hv0. unfold validate_col_refs in Hv.
    apply andb_true_iff in Hv as [Hv V6]. apply andb_true_iff in Hv as [Hv V5]. apply andb_true_iff in Hv as [Hv V4].
    rewrite forallb_forall in V4, V5.
    unfold written_columns in Hx. apply in_app_or in Hx as [Hx|Hx]; apply in_map_iff in Hx as [y [Hy Hin]].
    - destruct (get_col_found _ _ (V4 y Hin)) as [c [_ [Hg Hn]]]. rewrite <- Hy, Hg, Hn.
      unfold selected in Hin. apply in_flat_map in Hin as [top [_ Hin]].
      clear - Hin. revert y Hin. induction top as [ix n c f cs IH] using input_ind'. intros y Hin. simpl in Hin.
      apply in_app_or in Hin as [Hin|Hin].
      + apply in_flat_map in Hin as [z [Hz Hin]]. rewrite Forall_forall in IH. exact (IH z Hz y Hin).
      + destruct (is_nil c) eqn:E; [contradiction|]. destruct Hin as [Hin|[]]. subst y. simpl. exact E.
    - specialize (V5 y Hin). apply andb_true_iff in V5 as [Vn Vm].
      destruct (get_col_found _ _ Vm) as [c [_ [Hg Hn]]]. rewrite <- Hy, Hg, Hn. apply negb_true_iff. exact Vn.
  Qed.

  (* what the migrated catalog holds for a plain integration (a) *)
  Theorem migrated_catalog : forall cat0 igs cat g,
    let tn := t_name (ig_table g) in let u := generated_key possible g in
    migrate_all res cat0 igs = Some cat -> In g igs -> plain_domain g ->
    KeyInv tn u cat0 -> Forall (fun g' => compat res tn u (ig_table g')) igs ->
    (exists t, find_table cat tn = Some t /\ forall x, In x (written_columns g) -> In x (pt_cols t)) /\
    (exists ix, In ix (cat_indexes cat) /\ ix_unique ix = true /\ ix_table ix = tn /\ ix_cols ix = u) /\
    (forall ix, In ix (cat_indexes cat) -> ix_unique ix = true -> ix_table ix = tn -> ix_cols ix = u).
  Proof.
    intros cat0 igs cat g tn u Hm Hin [Hv [Hp [Hu [Hid Hnd]]]] Hinv Hc.
    assert (Htn : lower_ascii tn = tn).
    { unfold plain_names in Hp. apply andb_true_iff in Hp as [Ht _]. apply str_eqb_eq. exact Ht. }
    assert (Hblk : exists x, In x (written_columns g)).
    { unfold identity_plain in Hid. repeat (apply andb_true_iff in Hid as [Hid ?]).
      destruct (written_columns g) as [|x l] eqn:E; [|exists x; left; reflexivity].
      exfalso. unfold written_columns in E. apply app_eq_nil in E as [_ E]. apply map_eq_nil in E.
      rewrite forallb_forall in Hid. fold u in Hid, H0.
      pose proof (Hid n_block_num (mem_In _ _ H2)) as Hb. unfold has_bd in Hb. rewrite E in Hb. discriminate. }
    destruct (migrate_all_idx res tn u igs cat0 cat Hm Hc Hinv) as [Hinv' [_ Hhas]].
    split; [|split].
    - destruct Hblk as [x0 Hx0].
      pose proof (written_columns_exist_lemma res cat0 igs cat g x0 Hm Hin Hv Hp Hx0) as H0. fold tn in H0.
      unfold table_cols in H0. destruct (find_table cat tn) as [t|] eqn:Ef; [|contradiction].
      exists t. split; [reflexivity|]. intros x Hx.
      pose proof (written_columns_exist_lemma res cat0 igs cat g x Hm Hin Hv Hp Hx) as H1. fold tn in H1.
      unfold table_cols in H1. rewrite Ef in H1. exact H1.
    - assert (Hne : is_nil (t_cols (ig_table g)) = false).
      { destruct Hblk as [x0 Hx0]. destruct (written_declared g x0 Hv Hx0) as [c [Hc0 _]].
        destruct (t_cols (ig_table g)); [contradiction|reflexivity]. }
      assert (Hun : t_unique (ig_table g) <> []) by (rewrite Hu; discriminate).
      pose proof (Hhas g Hin Hne Hun) as Hh. fold tn in Hh. rewrite Htn in Hh.
      unfold has_index in Hh. apply existsb_exists in Hh as [ix [Hx Hn]]. apply str_eqb_eq in Hn.
      destruct (Hinv' ix Hx) as [_ H2]. destruct (H2 Hn) as [Ht [Hq Hcols]]. exists ix. auto.
    - intros ix Hx Hq Ht. exact (proj1 (Hinv' ix Hx) Hq Ht).
  Qed.

  (* the two COPYs (b), for any rows already in the table that neither conflict
     among themselves nor with the new rows *)
  Theorem insert_twice_lemma : forall cat0 igs cat g src bs cs d,
    let tn := t_name (ig_table g) in let u := generated_key possible g in
    migrate_all res cat0 igs = Some cat -> In g igs -> plain_domain g ->
    KeyInv tn u cat0 -> Forall (fun g' => compat res tn u (ig_table g')) igs ->
    wf_blocks g bs = true -> emit g bs = Some cs ->
    first_dup u [] (rows_of d tn) = false ->
    (forall c r, In c cs -> In r (rows_of d tn) -> conflict (key u (row_of g src c)) (key u r) = false) ->
    let rs := map (row_of g src) cs in
    insert cat d g src bs = (CopyOk (List.length cs), put_rows d tn (rows_of d tn ++ rs)) /\
    (cs <> [] -> insert cat (put_rows d tn (rows_of d tn ++ rs)) g src bs
                 = (CopyDup, put_rows d tn (rows_of d tn ++ rs))).
  Proof.
    intros cat0 igs cat g src bs cs d tn u Hm Hin Hdom Hinv Hc Hwf He Hold Hcross rs.
    destruct (migrated_catalog cat0 igs cat g Hm Hin Hdom Hinv Hc) as [[t [Hft Hcols]] [[ix0 [Hix0 [Hq0 [Ht0 Hc0]]]] Hall]].
    fold tn in Hft, Ht0, Hall. fold u in Hc0, Hall.
    destruct Hdom as [Hv [Hp [Hu [Hid Hnd]]]].
    assert (Hchk : negb (forallb (fun c => negb (is_nil c) && mem c (pt_cols t)) (written_columns g)
                         && nodupb (written_columns g)) = false).
    { rewrite Hnd, andb_true_r. apply negb_false_iff. apply forallb_forall. intros x Hx.
      rewrite (written_nonnil g x Hv Hx). simpl. apply In_mem. apply Hcols. exact Hx. }
    assert (Hnc : noconf u [] (rows_of d tn ++ rs)).
    { apply noconf_app; [apply first_dup_noconf; exact Hold|]. rewrite app_nil_r.
      apply (noconf_intro u rs _ (row_of g src (Build_ctx 0 0 None None None))).
      - intros r s Hr Hs. unfold rs in Hr. apply in_map_iff in Hr as [c [Hr Hc1]]. subst r.
        apply in_map_iff in Hs as [r0 [Hs Hr0]]. subst s. apply Hcross; assumption.
      - intros i j Hi Hj Hne. unfold rs in *. rewrite map_length in Hi, Hj. rewrite !map_nth.
        apply (key_separates_lemma possible u g src Hid bs cs); assumption. }
    assert (Hlen : List.length rs = List.length cs) by (unfold rs; apply map_length).
    split.
    - unfold insert. rewrite He. fold rs. unfold copy_into. fold tn. rewrite Hft, Hchk.
      replace (existsb _ (cat_indexes cat)) with false; [rewrite Hlen; reflexivity|].
      symmetry. apply (proj2 (existsb_false_forall _ _)). intros ix Hx.
      destruct (ix_unique ix) eqn:Eq; [|reflexivity]. destruct (str_eqb (ix_table ix) tn) eqn:Et; [|reflexivity].
      apply str_eqb_eq in Et. rewrite (Hall ix Hx Eq Et). simpl. apply first_dup_noconf. exact Hnc.
    - intros Hne. unfold insert. rewrite He. fold rs. unfold copy_into. fold tn. rewrite Hft, Hchk.
      rewrite rows_of_put.
      replace (existsb _ (cat_indexes cat)) with true; [reflexivity|].
      symmetry. apply existsb_exists. exists ix0. split; [exact Hix0|].
      rewrite Hq0, Ht0, str_eqb_refl, Hc0. simpl.
      destruct cs as [|c0 cs']; [contradiction|]. unfold rs. simpl.
      rewrite <- app_assoc. simpl.
      apply (first_dup_twice u (rows_of d tn) (map (row_of g src) cs' ++ row_of g src c0 :: map (row_of g src) cs')).
      + apply in_or_app. right. left. reflexivity.
      + apply (reinsert_collides_lemma possible u g src Hid bs (c0 :: cs') c0 He). left. reflexivity.
  Qed.
End E2E.

(* ---- the two instances ---- *)
Section Instances.
  Variables (res possible : list str).

  (* own table (nothing in it yet) *)
  Theorem insert_twice_own_lemma : forall cat0 igs cat g src bs cs d,
    migrate_all res cat0 igs = Some cat -> In g igs -> plain_domain res possible g ->
    KeyInv (t_name (ig_table g)) (generated_key possible g) cat0 ->
    Forall (fun g' => compat res (t_name (ig_table g)) (generated_key possible g) (ig_table g')) igs ->
    wf_blocks g bs = true -> emit g bs = Some cs ->
    rows_of d (t_name (ig_table g)) = [] ->
    insert cat d g src bs
      = (CopyOk (List.length cs), put_rows d (t_name (ig_table g)) (map (row_of g src) cs)) /\
    (cs <> [] -> insert cat (put_rows d (t_name (ig_table g)) (map (row_of g src) cs)) g src bs
                 = (CopyDup, put_rows d (t_name (ig_table g)) (map (row_of g src) cs))).
  Proof.
    intros cat0 igs cat g src bs cs d Hm Hin Hdom Hinv Hc Hwf He Hempty.
    pose proof (insert_twice_lemma res possible cat0 igs cat g src bs cs d Hm Hin Hdom Hinv Hc Hwf He) as H.
    cbv zeta in H. rewrite Hempty in H. simpl in H. apply H; [reflexivity|]. intros c r _ [].
  Qed.

  (* a table that already holds the rows of another integration with the same key *)
  Theorem insert_twice_shared_lemma : forall cat0 igs cat g src bs cs d g2 src2 bs2 cs2,
    migrate_all res cat0 igs = Some cat -> In g igs -> plain_domain res possible g ->
    KeyInv (t_name (ig_table g)) (generated_key possible g) cat0 ->
    Forall (fun g' => compat res (t_name (ig_table g)) (generated_key possible g) (ig_table g')) igs ->
    wf_blocks g bs = true -> emit g bs = Some cs ->
    identity_plain possible (generated_key possible g) g2 = true ->
    In n_ig_name (generated_key possible g) -> ig_name g <> ig_name g2 ->
    wf_blocks g2 bs2 = true -> emit g2 bs2 = Some cs2 ->
    rows_of d (t_name (ig_table g)) = map (row_of g2 src2) cs2 ->
    insert cat d g src bs
      = (CopyOk (List.length cs),
         put_rows d (t_name (ig_table g)) (map (row_of g2 src2) cs2 ++ map (row_of g src) cs)) /\
    (cs <> [] ->
     insert cat (put_rows d (t_name (ig_table g)) (map (row_of g2 src2) cs2 ++ map (row_of g src) cs)) g src bs
       = (CopyDup, put_rows d (t_name (ig_table g)) (map (row_of g2 src2) cs2 ++ map (row_of g src) cs))).
  Proof.
    intros cat0 igs cat g src bs cs d g2 src2 bs2 cs2 Hm Hin Hdom Hinv Hc Hwf He Hid2 Hign Hne Hwf2 He2 Hrows.
    pose proof (insert_twice_lemma res possible cat0 igs cat g src bs cs d Hm Hin Hdom Hinv Hc Hwf He) as H.
    cbv zeta in H. rewrite Hrows in H. apply H.
    - apply first_dup_noconf.
      apply (noconf_intro _ _ _ (row_of g2 src2 (Build_ctx 0 0 None None None))); [intros r s _ []|].
      intros i j Hi Hj Hd. rewrite map_length in Hi, Hj. rewrite !map_nth.
      apply (key_separates_lemma possible _ g2 src2 Hid2 bs2 cs2); assumption.
    - intros c r _ Hr. apply in_map_iff in Hr as [c2 [Hr _]]. subst r.
      destruct Hdom as [_ [_ [_ [Hid _]]]].
      apply (cross_no_conflict possible _ g g2 src src2 c c2 Hid Hid2 Hign Hne).
  Qed.
End Instances.
