(* The behaviour before the repairs, refuted by concrete witnesses (each was
   replayed on the unrepaired Go code: see design.d/C09.md, design.d/C10.md). *)
From Coq Require Import String.
From Coq Require Import List NArith ZArith Bool.
From Shovel Require Import Base.Outcome Model.Hex Model.Bint Model.AbiType Model.AbiScan Model.AbiEnc
     Model.AbiParse Model.AbiSig Model.AbiLegacy Proofs.AbiScanP.
Import ListNotations.
Open Scope N_scope.

Definition t_bytes : aty := TTuple [TDyn (Some 0%nat)].          (* event E(bytes a) with a selected *)
Definition t_strings : aty := TTuple [TArr 0 (TDyn (Some 0%nat))]. (* event E(string[] a) *)

Lemma t_bytes_sel_ok : sel_ok 1 t_bytes. Proof. repeat constructor. Qed.
Lemma t_strings_sel_ok : sel_ok 1 t_strings. Proof. repeat constructor. Qed.

(* dynamic length 2^63, 2^64-32, truncated data, tuple offset 2^63, array element offset 2^63 *)
Lemma legacy_panics :
  legacy_result_scan (word32 32 ++ word32 (2 ^ 63)) 1 t_bytes (new_result 1) = SPanic /\
  legacy_result_scan (word32 32 ++ word32 (2 ^ 64 - 32)) 1 t_bytes (new_result 1) = SPanic /\
  legacy_result_scan (word32 32) 1 t_bytes (new_result 1) = SPanic /\
  legacy_result_scan (word32 (2 ^ 63)) 1 t_bytes (new_result 1) = SPanic /\
  legacy_result_scan (word32 32 ++ word32 1 ++ word32 (2 ^ 63)) 1 t_strings (new_result 1) = SPanic.
Proof. repeat split; vm_compute; reflexivity. Qed.

Lemma legacy_scan_no_panic_refuted_l :
  ~ (forall D ncols t s, sel_ok ncols t -> st_ok ncols s -> legacy_result_scan D ncols t s <> SPanic).
Proof.
  intros H. destruct legacy_panics as (H1 & _).
  exact (H _ _ _ _ t_bytes_sel_ok (new_result_ok 1) H1).
Qed.

(* the repaired decoder answers the same inputs with an error *)
Lemma repaired_rejects :
  (exists s, result_scan (word32 32 ++ word32 (2 ^ 63)) 1 t_bytes (new_result 1) = SErr s) /\
  (exists s, result_scan (word32 32 ++ word32 (2 ^ 64 - 32)) 1 t_bytes (new_result 1) = SErr s) /\
  (exists s, result_scan (word32 32) 1 t_bytes (new_result 1) = SErr s) /\
  (exists s, result_scan (word32 (2 ^ 63)) 1 t_bytes (new_result 1) = SErr s) /\
  (exists s, result_scan (word32 32 ++ word32 1 ++ word32 (2 ^ 63)) 1 t_strings (new_result 1) = SErr s).
Proof. repeat split; eexists; vm_compute; reflexivity. Qed.

(* the type parser before the repairs: uint256[12] has 21 elements, bytes[] has static elements *)
Definition j_u12 : jty := JElem false (EUint 256) true [12].
Definition j_bytes_arr : jty := JElem false EBytes true [0].

Lemma legacy_parser_witnesses :
  event_type true (event_of (str "E") [j_u12]) = Ok (TTuple [TArr 21 (TWord (Some 0%nat))]) /\
  event_type true (event_of (str "E") [j_bytes_arr]) = Ok (TTuple [TArr 0 (TWord (Some 0%nat))]) /\
  decl_type [j_u12] = TTuple [TArr 12 (TWord (Some 0%nat))] /\
  decl_type [j_bytes_arr] = TTuple [TArr 0 (TDyn (Some 0%nat))].
Proof. repeat split; vm_compute; reflexivity. Qed.

Lemma legacy_abi_type_of_print_refuted_l :
  ~ (forall name js, forallb wf_jty js = true -> event_type true (event_of name js) = Ok (decl_type js)).
Proof.
  intros H. specialize (H (str "E") [j_u12] eq_refl).
  destruct legacy_parser_witnesses as (H1 & _). rewrite H1 in H. vm_compute in H. discriminate.
Qed.
