(* Proofs about Model/Authn.v (property C19). *)
From Coq Require Import List Arith PeanoNat NArith Bool String Lia.
From Shovel Require Import Base.Outcome Model.Authn.
Import ListNotations.

Lemma bytes_eqb_eq : forall a b, bytes_eqb a b = true <-> a = b.
Proof.
  unfold bytes_eqb. induction a as [|x a IH]; destruct b as [|y b]; simpl; split; intro H;
    try reflexivity; try discriminate.
  - apply andb_true_iff in H. destruct H as [Hx Hr]. apply N.eqb_eq in Hx. apply IH in Hr. congruence.
  - inversion H; subst. apply andb_true_iff. split; [apply N.eqb_refl | apply IH; reflexivity].
Qed.

(* the cookie is a token this instance issued *)
Definition token_of (h : handler) (c : cookie) : Prop :=
  exists n, c = CTok (inst h) n /\ In n (issued h).

(* the request is a POST to /login carrying exactly the handler's password *)
Definition correct_login (h : handler) (r : request) : Prop :=
  tgt r = TLogin /\ rmeth r = MPost /\ guess r = Some (password h).

Lemma verifies_issued_spec : forall h c, verifies_issued h c = true <-> token_of h c.
Proof.
  intros h c. unfold token_of. split.
  - destruct c as [| |i n|i]; simpl; intro H; try discriminate.
    apply andb_true_iff in H. destruct H as [Hi Hn]. apply Nat.eqb_eq in Hi. subst i.
    apply existsb_exists in Hn. destruct Hn as [m [Hin Hm]]. apply Nat.eqb_eq in Hm. subst m.
    exists n. split; [reflexivity | assumption].
  - intros [m [Hc Hin]]. subst c. simpl. apply andb_true_iff. split.
    + apply Nat.eqb_refl.
    + apply existsb_exists. exists m. split; [assumption | apply Nat.eqb_refl].
Qed.

(* cryptographic assumption: session.Get accepts exactly the (unexpired)
   sessions issued by this handler instance *)
Definition session_crypto (verifies : handler -> cookie -> bool) : Prop :=
  forall h c, verifies h c = true <-> token_of h c.

Section Authn.
  Variable verifies : handler -> cookie -> bool.
  Hypothesis verifies_spec : session_crypto verifies.

  Definition allowed (h : handler) (r : request) : Prop :=
    disable_authn (conf h) = true
    \/ (enable_loopback_authn (conf h) = false /\ is_loopback (rem r) = true)
    \/ token_of h (cook r).

  Lemma authn_cases : forall h r,
    (allowed h r /\ authn verifies h r = served) \/ (~ allowed h r /\ authn verifies h r = redirect_login).
  Proof.
    intros h r. unfold authn, allowed.
    destruct (disable_authn (conf h)) eqn:Hd; [left; split; [left; reflexivity | reflexivity]|].
    destruct (enable_loopback_authn (conf h)) eqn:He; destruct (is_loopback (rem r)) eqn:Hl; simpl;
      try (left; split; [right; left; split; reflexivity | reflexivity]);
      (destruct (verifies h (cook r)) eqn:Hv;
       [ left; split; [right; right; apply verifies_spec; exact Hv | reflexivity]
       | right; split; [| reflexivity];
         intros [Hc | [[Hc1 Hc2] | Hc]]; try discriminate;
         apply verifies_spec in Hc; congruence ]).
  Qed.

  Lemma authn_serves_iff_l : forall h r, ran (authn verifies h r) = true <-> allowed h r.
  Proof.
    intros h r. destruct (authn_cases h r) as [[Ha He] | [Ha He]]; rewrite He; simpl; split; intro H;
      try assumption; try reflexivity; try discriminate. contradiction.
  Qed.

  Lemma authn_redirects_else_l : forall h r,
    ~ allowed h r ->
    authn verifies h r = redirect_login
    /\ ran (authn verifies h r) = false /\ status (authn verifies h r) = 303%N
    /\ location (authn verifies h r) = loc_login /\ set_cookie (authn verifies h r) = None.
  Proof.
    intros h r Hn. destruct (authn_cases h r) as [[Ha _] | [_ He]]; [contradiction|].
    rewrite He. repeat split.
  Qed.

  Lemma authn_two_outcomes : forall h r,
    authn verifies h r = served \/ authn verifies h r = redirect_login.
  Proof.
    intros h r. unfold authn. destruct (disable_authn (conf h)); [left; reflexivity|].
    destruct (negb (enable_loopback_authn (conf h)) && is_loopback (rem r)); [left; reflexivity|].
    destruct (verifies h (cook r)); [left | right]; reflexivity.
  Qed.

  (* ---- one step ---- *)
  Lemma step_static : forall h r,
    conf (fst (step verifies h r)) = conf h /\ password (fst (step verifies h r)) = password h
    /\ inst (fst (step verifies h r)) = inst h.
  Proof.
    intros h r. unfold step, login, issue. destruct (tgt r); simpl; [repeat split|].
    destruct (rmeth r); simpl; try (repeat split; fail).
    destruct (guess r) as [g|]; simpl; [|repeat split].
    destruct (bytes_eqb g (password h)); simpl; repeat split.
  Qed.

  (* what a step can do to the issued set: nothing, or one fresh serial, and
     the latter exactly when it is a correct login, which then carries it *)
  Lemma step_issue : forall h r,
    (issued (fst (step verifies h r)) = issued h /\ set_cookie (snd (step verifies h r)) = None)
    \/ (correct_login h r
        /\ issued (fst (step verifies h r)) = issued h ++ [List.length (issued h)]
        /\ snd (step verifies h r) =
             {| ran := false; status := 303%N; location := loc_root;
                set_cookie := Some (inst h, List.length (issued h)) |}).
  Proof.
    intros h r. unfold step, login, issue, correct_login.
    destruct (tgt r) eqn:Ht; simpl.
    - left. split; [reflexivity|]. destruct (authn_two_outcomes h r) as [H | H]; rewrite H; reflexivity.
    - destruct (rmeth r) eqn:Hm; simpl; try (left; split; reflexivity).
      destruct (guess r) as [g|] eqn:Hg; simpl; [|left; split; reflexivity].
      destruct (bytes_eqb g (password h)) eqn:Hp; simpl; [|left; split; reflexivity].
      right. apply bytes_eqb_eq in Hp. subst g. repeat split.
  Qed.

  Lemma wrong_password_never_issues_l : forall h r,
    guess r <> Some (password h) ->
    issued (fst (step verifies h r)) = issued h /\ set_cookie (snd (step verifies h r)) = None.
  Proof.
    intros h r Hw. destruct (step_issue h r) as [H | [[_ [_ Hg]] _]]; [exact H | contradiction].
  Qed.

  Lemma set_cookie_only_by_correct_login : forall h r t,
    set_cookie (snd (step verifies h r)) = Some t ->
    correct_login h r /\ t = (inst h, List.length (issued h)) /\ ran (snd (step verifies h r)) = false.
  Proof.
    intros h r t Hs. destruct (step_issue h r) as [[_ Hn] | [Hc [_ Ho]]].
    - rewrite Hn in Hs. discriminate.
    - rewrite Ho in *. simpl in *. inversion Hs. split; [exact Hc | split; reflexivity].
  Qed.

  (* ---- histories ---- *)
  Definition issued_at (h0 : handler) (rs : list request) (os : list response) (n : nat) : Prop :=
    exists k r o, nth_error rs k = Some r /\ nth_error os k = Some o
                  /\ correct_login h0 r /\ set_cookie o = Some (inst h0, n).

  Lemma run_length : forall rs h, List.length (snd (run_hist verifies h rs)) = List.length rs.
  Proof.
    induction rs as [|r rs IH]; intro h; simpl; [reflexivity|].
    destruct (step verifies h r) as [h1 o] eqn:Hs.
    specialize (IH h1). destruct (run_hist verifies h1 rs) as [h2 os]. simpl in *. congruence.
  Qed.

  Lemma run_invariant : forall rs h h' os,
    run_hist verifies h rs = (h', os) ->
    conf h' = conf h /\ password h' = password h /\ inst h' = inst h
    /\ forall n, In n (issued h') -> In n (issued h) \/ issued_at h rs os n.
  Proof.
    induction rs as [|r rs IH]; intros h h' os Hr; simpl in Hr.
    - inversion Hr; subst. repeat split. intros n Hn. left. exact Hn.
    - destruct (step verifies h r) as [h1 o] eqn:Hs.
      destruct (run_hist verifies h1 rs) as [h2 os'] eqn:Hr'. inversion Hr; subst h2 os. clear Hr.
      destruct (IH _ _ _ Hr') as [Hc [Hp [Hi Hiss]]].
      pose proof (step_static h r) as [Sc [Sp Si]]. rewrite Hs in Sc, Sp, Si. simpl in Sc, Sp, Si.
      repeat split; try congruence.
      intros n Hn. destruct (Hiss n Hn) as [Hin | [k [r' [o' [Hk [Ho [Hl Hsc]]]]]]].
      + pose proof (step_issue h r) as St. rewrite Hs in St. simpl in St.
        destruct St as [[Heq _] | [Hl [Heq Ho]]].
        * left. rewrite <- Heq. exact Hin.
        * rewrite Heq in Hin. apply in_app_or in Hin. destruct Hin as [Hin | Hin]; [left; exact Hin|].
          right. simpl in Hin. destruct Hin as [Hin | []]. subst n.
          exists 0, r, o. simpl. repeat split; try apply Hl. rewrite Ho. reflexivity.
      + right. exists (S k), r', o'. simpl. repeat split; try assumption.
        * destruct Hl as [H1 [H2 H3]]. assumption.
        * destruct Hl as [H1 [H2 H3]]. assumption.
        * destruct Hl as [H1 [H2 H3]]. rewrite H3. rewrite Sp. reflexivity.
        * rewrite Hsc. rewrite Si. reflexivity.
  Qed.

  Lemma issued_only_by_correct_password_l : forall c gen i rs h' os,
    run_hist verifies (new c gen i) rs = (h', os) ->
    forall n, In n (issued h') -> issued_at (new c gen i) rs os n.
  Proof.
    intros c gen i rs h' os Hr n Hn.
    destruct (run_invariant _ _ _ _ Hr) as [_ [_ [_ H]]].
    destruct (H n Hn) as [Hin | Hat]; [destruct Hin | exact Hat].
  Qed.

  (* splitting a history at position k *)
  Lemma run_app : forall a b h,
    run_hist verifies h (a ++ b) =
      let (h1, oa) := run_hist verifies h a in
      let (h2, ob) := run_hist verifies h1 b in (h2, oa ++ ob).
  Proof.
    induction a as [|r a IH]; intros b h; simpl.
    - destruct (run_hist verifies h b); reflexivity.
    - destruct (step verifies h r) as [h1 o]. rewrite IH.
      destruct (run_hist verifies h1 a) as [h2 oa]. destruct (run_hist verifies h2 b) as [h3 ob]. reflexivity.
  Qed.

  (* End to end: in ANY history of requests to a freshly created handler, a
     protected request is served only for one of the three reasons of the
     property, the third one being: its cookie was set by the response to an
     EARLIER correct-password POST /login of this same history. *)
  Lemma served_only_if_authenticated_l : forall c gen i pre r post h' os,
    tgt r = TProtected ->
    run_hist verifies (new c gen i) (pre ++ r :: post) = (h', os) ->
    forall o, nth_error os (List.length pre) = Some o ->
    (ran o = true ->
       disable_authn c = true
       \/ (enable_loopback_authn c = false /\ is_loopback (rem r) = true)
       \/ exists n j rj oj, cook r = CTok i n /\ j < List.length pre
            /\ nth_error pre j = Some rj /\ nth_error os j = Some oj
            /\ correct_login (new c gen i) rj /\ set_cookie oj = Some (i, n))
    /\ (ran o = false -> o = redirect_login).
  Proof.
    intros c gen i pre r post h' os Ht Hr o Ho.
    rewrite run_app in Hr.
    destruct (run_hist verifies (new c gen i) pre) as [h1 opre] eqn:Hpre.
    simpl in Hr. unfold step in Hr. rewrite Ht in Hr.
    destruct (run_hist verifies h1 post) as [h2 opost] eqn:Hpost. inversion Hr; subst h2 os. clear Hr.
    assert (Hlen : List.length opre = List.length pre).
    { pose proof (run_length pre (new c gen i)) as L. rewrite Hpre in L. exact L. }
    rewrite nth_error_app2 in Ho by lia. rewrite Hlen, Nat.sub_diag in Ho. simpl in Ho.
    inversion Ho; subst o. clear Ho.
    destruct (run_invariant _ _ _ _ Hpre) as [Hc [Hp [Hi Hiss]]]. simpl in Hc, Hi.
    split.
    - intro Hran. apply authn_serves_iff_l in Hran. destruct Hran as [Hd | [[He Hl] | [n [Hck Hin]]]].
      + left. rewrite <- Hc. exact Hd.
      + right. left. rewrite <- Hc. split; assumption.
      + right. right. destruct (Hiss n Hin) as [[] | [k [rk [ok [Hk [Hok [Hl Hsc]]]]]]].
        exists n, k, rk, ok. rewrite Hi in Hck. simpl in Hsc.
        assert (Hklt : k < List.length pre) by (apply nth_error_Some; congruence).
        repeat split; try assumption; try apply Hl.
        rewrite nth_error_app1 by lia. exact Hok.
    - intro Hran. destruct (authn_two_outcomes h1 r) as [H | H]; rewrite H in *; [discriminate | reflexivity].
  Qed.

  Lemma other_instance_cookie_rejected_l : forall h r i n,
    i <> inst h -> cook r = CTok i n ->
    disable_authn (conf h) = false ->
    (enable_loopback_authn (conf h) = true \/ is_loopback (rem r) = false) ->
    authn verifies h r = redirect_login.
  Proof.
    intros h r i n Hi Hc Hd Hl. apply authn_redirects_else_l.
    intros [H | [[H1 H2] | [m [Hm _]]]]; try congruence.
    destruct Hl; congruence.
  Qed.

  Lemma invalid_cookie_rejected_l : forall h r,
    (cook r = CNone \/ cook r = CGarbage \/ exists i, cook r = CExpired i) ->
    disable_authn (conf h) = false ->
    (enable_loopback_authn (conf h) = true \/ is_loopback (rem r) = false) ->
    authn verifies h r = redirect_login.
  Proof.
    intros h r Hc Hd Hl. apply authn_redirects_else_l.
    intros [H | [[H1 H2] | [m [Hm _]]]]; try congruence.
    - destruct Hl; congruence.
    - destruct Hc as [Hc | [Hc | [i Hc]]]; congruence.
  Qed.
End Authn.

(* ------------------------------------------------------------------ *)
(* loopback classification *)
Lemma is_loopback_iff : forall r,
  is_loopback r = true <->
  exists h, r = RHostPort h /\ (h = HLoop4 \/ h = HLoop4Net \/ h = HLoop6 \/ h = HLoopMapped).
Proof.
  intro r. split.
  - destruct r as [h|h|]; simpl; try discriminate. destruct h; simpl; try discriminate; intros _;
      eexists; split; try reflexivity; tauto.
  - intros [h [Hr Hh]]. subst r. destruct Hh as [H | [H | [H | H]]]; subst h; reflexivity.
Qed.

(* ------------------------------------------------------------------ *)
(* route table *)
Lemma prefix_match_in : forall rs path r, prefix_match rs path = Some r -> In r rs.
Proof.
  induction rs as [|x rs IH]; intros path r H; simpl in H; [discriminate|].
  destruct (ends_with_slash (pattern x) && String.prefix (pattern x) path).
  - destruct (prefix_match rs path) as [r'|] eqn:Hp.
    + inversion H. unfold longer. destruct (Nat.ltb _ _); [right; apply (IH path); exact Hp | left; reflexivity].
    + inversion H. left. reflexivity.
  - right. apply (IH path). exact H.
Qed.

Lemma dispatch_in : forall rs path r, dispatch rs path = Some r -> In r rs.
Proof.
  intros rs path r H. unfold dispatch in H. destruct (exact_match rs path) as [r'|] eqn:He.
  - inversion H; subst. unfold exact_match in He. apply find_some in He. apply He.
  - apply prefix_match_in in H. exact H.
Qed.

Lemma mem_in : forall s l, mem s l = true <-> In s l.
Proof.
  intros s l. unfold mem. rewrite existsb_exists. split.
  - intros [x [Hin He]]. apply String.eqb_eq in He. subst. exact Hin.
  - intro H. exists s. split; [exact H | apply String.eqb_refl].
Qed.

(* whatever path is requested: if the mux hands it to one of the mutating
   handlers (or to whatever is registered under one of the five patterns),
   that handler was registered through Authn *)
Lemma routes_protected_l : forall rs,
  check_routes rs = true ->
  forall path r, dispatch rs path = Some r ->
    (In (hname r) mutating \/ In (pattern r) (map fst required)) -> wrapped r = true.
Proof.
  intros rs Hc path r Hd Hm. unfold check_routes in Hc. apply andb_true_iff in Hc. destruct Hc as [Hall _].
  rewrite forallb_forall in Hall. specialize (Hall r (dispatch_in _ _ _ Hd)).
  unfold route_ok in Hall. destruct (wrapped r); [reflexivity|].
  assert (Ht : mem (hname r) mutating || mem (pattern r) (map fst required) = true).
  { apply orb_true_iff. destruct Hm as [H | H]; [left | right]; apply mem_in; exact H. }
  rewrite Ht in Hall. discriminate.
Qed.

Lemma routes_required_l : forall rs,
  check_routes rs = true ->
  forall p hn, In (p, hn) required ->
    exists r, dispatch rs p = Some r /\ hname r = hn /\ wrapped r = true.
Proof.
  intros rs Hc p hn Hin. unfold check_routes in Hc. apply andb_true_iff in Hc. destruct Hc as [_ Hreq].
  rewrite forallb_forall in Hreq. specialize (Hreq _ Hin). unfold required_ok in Hreq. simpl in Hreq.
  destruct (dispatch rs p) as [r|]; [|discriminate].
  apply andb_true_iff in Hreq. destruct Hreq as [Hn Hw]. apply String.eqb_eq in Hn.
  exists r. repeat split; assumption.
Qed.

Lemma routes_checker_sound_l : forall rs,
  check_routes rs = true ->
  (forall path r, dispatch rs path = Some r ->
     (In (hname r) mutating \/ In (pattern r) (map fst required)) -> wrapped r = true)
  /\ (forall p hn, In (p, hn) required ->
        exists r, dispatch rs p = Some r /\ hname r = hn /\ wrapped r = true).
Proof. intros rs H. split; [exact (routes_protected_l rs H) | exact (routes_required_l rs H)]. Qed.

(* ------------------------------------------------------------------ *)
(* handler chain *)
Lemma wrapper_ok_keeps : forall w r r' f,
  wrapper_ok w = true -> wrapper_sem w r r' -> In f authn_reads -> r' f = r f.
Proof.
  intros w r r' f Hok Hs Hin. unfold wrapper_ok in Hok. rewrite forallb_forall in Hok.
  assert (Hstar : mem "*"%string (writes_before w) = false).
  { destruct (mem "*"%string (writes_before w)) eqn:E; [|reflexivity].
    apply mem_in in E. specialize (Hok _ E). apply andb_true_iff in Hok. destruct Hok as [_ H].
    rewrite String.eqb_refl in H. discriminate. }
  destruct Hs as [Hs | [_ Hs]]; [congruence|].
  apply Hs. destruct (mem f (writes_before w)) eqn:E; [|reflexivity].
  apply mem_in in E. specialize (Hok _ E). apply andb_true_iff in Hok. destruct Hok as [H _].
  apply negb_true_iff in H. apply mem_in in Hin. congruence.
Qed.

(* if the chain passes the check, the request that reaches the mux (and hence
   Authn) has the same peer address and the same headers (cookies) as the
   request the server received *)
Lemma chain_checker_sound_l : forall ws r r',
  check_chain ws = true -> chain_sem ws r r' ->
  r' "RemoteAddr"%string = r "RemoteAddr"%string /\ r' "Header"%string = r "Header"%string.
Proof.
  induction ws as [|w ws IH]; intros r r' Hc Hs; simpl in *.
  - subst. split; reflexivity.
  - apply andb_true_iff in Hc. destruct Hc as [Hw Hrest]. destruct Hs as [m [Hwm Hm]].
    destruct (IH _ _ Hrest Hm) as [A B].
    rewrite A, B. split; apply (wrapper_ok_keeps w r m _ Hw Hwm); simpl; auto.
Qed.
