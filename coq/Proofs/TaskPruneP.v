(* PruneTask keeps, per pair, the n newest cursor rows.  It never touches a
   table row, never deletes the newest cursor of any pair (n >= 1), and leaves
   of a pair satisfying TaskInv exactly the cursors of its last n batches:
   the observable part of TaskInv (I1: no row beyond the position, no position
   without rows; position = last indexed block) is preserved.  What is lost
   is the ability to unwind further back than the retained batches: this is
   the "retained position history" of C03. *)
From Coq Require Import List NArith Arith Bool Lia ZifyBool ZifyN ZifyNat.
From Shovel Require Import Model.TaskTypes Model.TaskDb Model.Task Model.TaskNode Model.TaskSys
  Model.TaskSpec Model.TaskWitness Proofs.TaskDbP Proofs.TaskLegacyP.
Import ListNotations.
Open Scope N_scope.

Lemma prune_rows : forall n d, d_rows (prune n d) = d_rows d.
Proof. reflexivity. Qed.

(* a cursor's rank only looks at its own pair *)
Lemma newer_count_pair : forall x cs,
  newer_count x cs = newer_count x (filter (cur_of (c_src x) (c_ig x)) cs).
Proof.
  intros x cs. unfold newer_count. f_equal. symmetry. apply filter_imp.
  intros y Hy. apply andb_prop in Hy. apply Hy.
Qed.

(* strictly ascending numbers, one pair *)
Fixpoint asc (s i : N) (l : list cursor) : Prop :=
  match l with
  | [] => True
  | x :: r => cur_of s i x = true /\ Forall (fun y => c_num x < c_num y) r /\ asc s i r
  end.

Lemma prune_asc : forall n s i l, asc s i l ->
  filter (prune_keep n l) l = skipn (length l - n) l.
Proof.
  intros n s i l. induction l as [|x l IH]; intros H; [destruct (0 - n)%nat; reflexivity|].
  destruct H as (Hx & Hlt & Ha). unfold cur_of in Hx. apply andb_prop in Hx. destruct Hx as [Hs Hi].
  apply N.eqb_eq in Hs, Hi.
  assert (Hall : Forall (fun y => cur_of s i y = true) l).
  { clear -Ha. induction l as [|y l IH]; [constructor|]. destruct Ha as (A & _ & B). constructor; [exact A|apply IH; exact B]. }
  (* rank of the head: everything behind it is newer *)
  assert (Hc : newer_count x (x :: l) = length l).
  { unfold newer_count. cbn [filter]. rewrite Hs, Hi.
    assert (E0 : cur_of s i x && (c_num x <? c_num x) = false).
    { destruct (N.ltb_spec (c_num x) (c_num x)); [lia|apply andb_false_r]. }
    rewrite E0. f_equal. apply filter_all. rewrite Forall_forall in Hlt, Hall. apply Forall_forall.
    intros y Hy. rewrite (Hall y Hy). cbn. destruct (N.ltb_spec (c_num x) (c_num y)); [reflexivity|].
    specialize (Hlt y Hy). lia. }
  (* rank of the others: the head does not count *)
  assert (Hr : filter (prune_keep n (x :: l)) l = filter (prune_keep n l) l).
  { apply filter_ext_in'. rewrite Forall_forall in Hlt. apply Forall_forall. intros y Hy.
    unfold prune_keep, newer_count. cbn [filter].
    assert (E0 : cur_of (c_src y) (c_ig y) x && (c_num y <? c_num x) = false).
    { destruct (N.ltb_spec (c_num y) (c_num x)); [specialize (Hlt y Hy); lia|apply andb_false_r]. }
    rewrite E0. reflexivity. }
  cbn [filter]. unfold prune_keep at 1. rewrite Hc, Hr, (IH Ha). cbn [length].
  destruct (Nat.ltb_spec (length l) n).
  - replace (S (length l) - n)%nat with 0%nat by lia. replace (length l - n)%nat with 0%nat by lia. reflexivity.
  - replace (S (length l) - n)%nat with (S (length l - n)) by lia. reflexivity.
Qed.

Lemma render_asc : forall c g, wf_ghost c g -> asc (t_src c) (t_ig c) (map (bcur c) g).
Proof.
  intros c g. induction g as [|b g IH]; intros Hw; [exact I|]. cbn [map asc]. split; [|split].
  - unfold cur_of, bcur. cbn. rewrite !N.eqb_refl. reflexivity.
  - destruct Hw as (Hne & Hch & _). apply Forall_forall. intros y Hy. apply in_map_iff in Hy.
    destruct Hy as (q & <- & Hq). cbn [bcur c_num]. inversion Hne as [|? ? Hb Hne']; subst.
    rewrite Forall_forall in Hne'. cbn [concat] in Hch.
    apply (chain_ok_app_lt _ _ Hch); [apply last_blk_in; exact Hb|].
    apply (in_concat_batch g q); [exact Hq|]. apply last_blk_in. apply Hne'. exact Hq.
  - apply IH. destruct Hw as (Hne & Hch & Hr). inversion Hne; subst. cbn [concat] in Hch, Hr.
    split; [assumption|]. split; [eapply chain_ok_app_r; exact Hch|]. apply Forall_app in Hr. apply Hr.
Qed.

Lemma skipn_map : forall {A B} (f : A -> B) k l, skipn k (map f l) = map f (skipn k l).
Proof. intros A B f k. induction k as [|k IH]; intros l; [reflexivity|]. destruct l; [reflexivity|]. cbn. apply IH. Qed.

(* the pair view after pruning *)
Lemma prune_pv : forall n c d g, pv c d = render c g -> wf_ghost c g ->
  d_curs (pv c (prune n d)) = map (bcur c) (skipn (length g - n) g)
  /\ d_rows (pv c (prune n d)) = rows_of c (concat g).
Proof.
  intros n c d g Hpv Hw. split.
  - unfold pv, restrict, prune. cbn [d_curs].
    assert (Hc : filter (cur_of (t_src c) (t_ig c)) (d_curs d) = map (bcur c) g).
    { change (filter (cur_of (t_src c) (t_ig c)) (d_curs d)) with (d_curs (pv c d)). rewrite Hpv. reflexivity. }
    rewrite filter_comm.
    rewrite (filter_ext_in' (prune_keep n (d_curs d)) (prune_keep n (map (bcur c) g))).
    + rewrite Hc. rewrite (prune_asc n _ _ _ (render_asc c g Hw)), map_length. apply skipn_map.
    + apply Forall_forall. intros x Hx. apply filter_In in Hx. destruct Hx as [_ Hx].
      unfold prune_keep. rewrite newer_count_pair.
      unfold cur_of in Hx. apply andb_prop in Hx. destruct Hx as [A B]. apply N.eqb_eq in A, B.
      rewrite A, B, Hc. rewrite (newer_count_pair x (map (bcur c) g)), A, B.
      rewrite (filter_all _ (map (bcur c) g)); [reflexivity|apply bcur_own].
  - change (d_rows (pv c (prune n d))) with (d_rows (pv c d)). rewrite Hpv. reflexivity.
Qed.

Lemma wf_ghost_suffix : forall c k g, wf_ghost c g -> wf_ghost c (skipn k g).
Proof.
  intros c k g (Hne & Hch & Hr). rewrite <- (firstn_skipn k g) in Hne, Hch, Hr.
  rewrite concat_app in Hch, Hr. apply Forall_app in Hne, Hr.
  split; [apply Hne|]. split; [eapply chain_ok_app_r; exact Hch|apply Hr].
Qed.

Lemma gpos_skipn : forall k (g : list (list blk)), (k < length g)%nat -> gpos (skipn k g) = gpos g.
Proof.
  intros k g H. unfold gpos. rewrite <- (firstn_skipn k g) at 2. rewrite rev_app_distr.
  destruct (rev (skipn k g)) as [|b r] eqn:E; [|reflexivity].
  apply (f_equal (@length _)) in E. rewrite rev_length, skipn_length in E. cbn in E. lia.
Qed.

(* never the newest cursor; the observable invariant survives *)
Lemma prune_inv : forall n c d, (1 <= n)%nat -> TaskInv c d ->
  newest (t_src c) (t_ig c) (d_curs (prune n d)) = newest (t_src c) (t_ig c) (d_curs d)
  /\ d_rows (prune n d) = d_rows d
  /\ i1b c (prune n d) = true
  /\ exists g, wf_ghost c g
       /\ d_rows (pv c (prune n d)) = rows_of c (concat g)
       /\ d_curs (pv c (prune n d)) = map (bcur c) (skipn (length g - n) g).
Proof.
  intros n c d Hn (g & Hpv & Hw). destruct (prune_pv n c d g Hpv Hw) as [Hc Hr].
  assert (Hnew : newest (t_src c) (t_ig c) (d_curs (prune n d)) = newest (t_src c) (t_ig c) (d_curs d)).
  { rewrite <- (newest_pv c (prune n d)), <- (newest_pv c d), Hpv, Hc.
    change (map (bcur c) (skipn (length g - n) g)) with (d_curs (render c (skipn (length g - n) g))).
    rewrite !newest_render; [|exact Hw|apply wf_ghost_suffix; exact Hw].
    destruct g as [|b g']; [reflexivity|]. apply gpos_skipn. cbn [length]. lia. }
  split; [exact Hnew|]. split; [reflexivity|]. split.
  - pose proof (TaskInv_i1b c d (ex_intro _ g (conj Hpv Hw))) as Hi. unfold i1b in *.
    rewrite Hnew. exact Hi.
  - exists g. split; [exact Hw|]. split; [exact Hr|exact Hc].
Qed.

(* for EVERY pair, whatever its state: a cursor that no cursor of its pair is
   newer than survives *)
Lemma prune_keeps_max : forall n d x, (1 <= n)%nat -> In x (d_curs d) ->
  newer_count x (d_curs d) = 0%nat -> In x (d_curs (prune n d)).
Proof.
  intros n d x Hn Hx H0. unfold prune. cbn [d_curs]. apply filter_In. split; [exact Hx|].
  unfold prune_keep. rewrite H0. apply Nat.ltb_lt. lia.
Qed.

(* concrete: keep 2 of the three cursors of witness 2's final state *)
Lemma prune_example :
  map c_num (d_curs (prune 2 (fst (w2_run repaired)))) = [6; 7]
  /\ d_rows (prune 2 (fst (w2_run repaired))) = d_rows (fst (w2_run repaired)).
Proof. vm_compute. split; reflexivity. Qed.
