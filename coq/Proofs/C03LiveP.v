(* C03 liveness: once the source has settled on a final chain [ch] that is
   longer than everything recorded, ONE fault-free step unwinds every orphaned
   batch (each costs one reorg iteration) and indexes the next blocks of the
   final chain; the following steps are growth steps (Proofs/TaskLiveP.v). *)
From Coq Require Import List NArith Bool Lia ZifyBool ZifyN ZifyNat.
From Shovel Require Import Model.TaskTypes Model.TaskDb Model.Task Model.TaskNode Model.TaskSys
  Model.TaskSpec Proofs.TaskArithP Proofs.TaskDbP Proofs.TaskExecP Proofs.TaskLoadP Proofs.TaskInvP
  Proofs.TaskLegacyP Proofs.TaskStepP Proofs.TaskChainP Proofs.C03P Proofs.TaskLiveP.
From Shovel Require Proofs.C01P.
Import ListNotations.
Open Scope N_scope.

Arguments N.add : simpl never.
Arguments N.sub : simpl never.
Arguments N.mul : simpl never.
Arguments N.div : simpl never.
Arguments N.modulo : simpl never.
Arguments N.ltb : simpl never.
Arguments N.leb : simpl never.
Arguments N.eqb : simpl never.
Arguments N.min : simpl never.
Opaque exec_honest.

Section Settle.
Variable c : tcfg.
Variable ch : chain.
Hypothesis Hc : cfg_ok c.
Hypothesis Hwf : wf_chain ch.
Hypothesis Hsmall : height ch < nmax.
Hypothesis Hdeps : t_deps c = [].
Hypothesis Hkeys : forall b, In b ch -> NoDup (map fst (b_rows b)).
Hypothesis Hhs : t_hashes c = true.

Notation tn := (clip c (height ch - 1)).
Notation H := (hx c ch).

(* a batch whose last block is not the final chain's block at that height *)
Definition orphan (b : list blk) : Prop :=
  forall x, blk_at ch (b_num (last_blk b)) = Some x -> b_hash (last_blk b) <> b_hash x.

Lemma load_reorg_honest : forall ln lh delta x,
  1 <= delta -> delta <= t_batch c -> ln + delta < height ch -> blk_at ch ln = Some x ->
  lh <> b_hash x ->
  load_check repaired lh
    (map (fun p => SegOk (view (t_hashes c) (segment ch (fst p) (snd p))))
         (partitions repaired c (ln + 1) delta))
  = LReorg.
Proof.
  intros ln lh delta x Hd Hb Hh Hx Hne.
  assert (Ed : delta = N.of_nat (N.to_nat delta)) by lia.
  revert Ed. generalize (N.to_nat delta). intros kk Ed. subst delta.
  assert (T : tiles (ln + 1) (ln + 1 + N.of_nat kk) (partitions repaired c (ln + 1) (N.of_nat kk))).
  { apply partitions_tile; try assumption. unfold nmax, two63 in *. lia. }
  unfold load_check. destruct (merge_tiles (t_hashes c) ch _ _ _ T) as [M _]. rewrite M.
  replace (ln + 1 + N.of_nat kk - (ln + 1)) with (N.of_nat kk) by lia.
  destruct (segment_facts (t_hashes c) ch kk (ln + 1) Hwf ltac:(lia)) as [_ Hn].
  rewrite (sort_run _ _ _ Hn).
  destruct kk as [|k]; [lia|].
  destruct (nth_error ch (N.to_nat (ln + 1))) as [y|] eqn:E.
  2:{ apply nth_error_None in E. unfold height in Hh. lia. }
  assert (Hy : blk_at ch (ln + 1) = Some y) by exact E.
  rewrite (segment_S ch (ln + 1) k y Hy), view_map. cbn [map]. rewrite Hhs. cbn [vblk].
  destruct (wf_chain_at ch (ln + 1) y Hwf Hy) as (_ & _ & Hpar).
  replace (ln + 1 - 1) with ln in Hpar by lia. specialize (Hpar x ltac:(lia) Hx).
  destruct (wf_chain_at ch ln x Hwf Hx) as (_ & Hnz & _).
  rewrite Hpar.
  destruct (N.eqb_spec (b_hash x) 0); [congruence|]. destruct (N.eqb_spec lh (b_hash x)); [congruence|].
  reflexivity.
Qed.

Variable d : db.

(* one reorg iteration on an orphaned last batch *)
Lemma unwind_iter : forall f ws p b x again,
  Forall (own_wop c) ws -> apply_ws ws (pv c d) = render c (p ++ [b]) -> wf_ghost c (p ++ [b]) ->
  blk_at ch (b_num (last_blk b)) = Some x -> b_hash (last_blk b) <> b_hash x ->
  b_num (last_blk b) < tn ->
  H (6 + f) (position repaired c again) d (Some ws)
  = H f again d (Some (ws ++ unwind_ws c p b)).
Proof.
  intros f ws p b x again Hown Happ Hw Hx Hne Hlt.
  set (ln := b_num (last_blk b)) in *. set (lh := b_hash (last_blk b)) in *.
  assert (Hwp : wf_ghost c p) by (eapply wf_ghost_prefix; exact Hw).
  pose proof (blk_at_height ch _ x Hx) as Hh1.
  assert (Hcl : tn <= height ch - 1) by apply clip_le'.
  assert (Hd : 1 <= delta_of c ln tn /\ delta_of c ln tn <= t_batch c /\ ln + delta_of c ln tn <= tn).
  { unfold delta_of. destruct Hc as (Hb & _). lia. }
  destruct Hd as (D1 & D2 & D3).
  unfold position. cbn [Nat.add].
  rewrite hx_db by reflexivity. cbn [db_step fst snd vis].
  assert (Hnew : newest (t_src c) (t_ig c) (d_curs (apply_ws ws d)) = Some (ln, lh)).
  { rewrite <- newest_pv, pv_apply_ws_own by exact Hown. rewrite Happ, newest_render by exact Hw.
    apply gpos_snoc. }
  rewrite Hnew. unfold pos_query, with_local.
  assert (Hstop : (0 <? t_stop c) && (t_stop c <=? ln) = false).
  { pose proof (clip_stop' c (height ch - 1)).
    destruct (N.ltb_spec 0 (t_stop c)); [|reflexivity]. destruct (N.leb_spec (t_stop c) ln); [lia|reflexivity]. }
  rewrite Hstop.
  rewrite hx_node by reflexivity. destruct (honest_latest c ch Hwf Hsmall Hkeys ln) as (tb & Htb & ->).
  unfold after_head. rewrite Hdeps. unfold after_target.
  destruct (N.ltb_spec tn ln); [lia|]. destruct (N.eqb_spec ln tn); [lia|].
  destruct (N.eqb_spec (delta_of c ln tn) 0); [lia|].
  assert (Hln : ln < nmax) by lia. rewrite (w64_nmax' ln Hln).
  rewrite hx_node by reflexivity.
  assert (T : tiles (ln + 1) (ln + 1 + delta_of c ln tn) (partitions repaired c (ln + 1) (delta_of c ln tn))).
  { apply partitions_tile; try assumption. unfold nmax, two63 in *. lia. }
  rewrite (honest_get c ch Hsmall _ _ _ T) by lia.
  unfold after_get.
  rewrite (load_reorg_honest ln lh (delta_of c ln tn) x D1 D2 ltac:(lia) Hx Hne).
  (* Task.Delete *)
  unfold unwind. rewrite hx_db by reflexivity. cbn [db_step do_write fst snd].
  unfold unwind_k. cbn [is_fail v_unwind repaired].
  rewrite hx_db by reflexivity. cbn [db_step fst snd vis].
  assert (Hown1 : Forall (own_wop c) (ws ++ [WDelCur (t_src c) (t_ig c) ln])).
  { apply Forall_app. split; [exact Hown|]. constructor; [|constructor]. cbn. split; reflexivity. }
  assert (Hprev : newest (t_src c) (t_ig c) (d_curs (apply_ws (ws ++ [WDelCur (t_src c) (t_ig c) ln]) d)) = gpos p).
  { rewrite <- newest_pv, pv_apply_ws_own by exact Hown1.
    rewrite apply_ws_app. unfold apply_ws at 1. cbn [fold_left]. rewrite Happ.
    unfold ln. rewrite del_cur_render by exact Hw. cbn [d_curs]. apply (newest_render c p Hwp). }
  rewrite Hprev. unfold unwind_prev, unwind_ws.
  destruct (gpos p) as [[pn ph]|] eqn:Gp; cbn [option_map fst].
  - assert (Hn : pn < nmax).
    { pose proof (ghost_below_pos c (p ++ [b]) ln lh Hw (gpos_snoc p b)) as Hb.
      unfold gpos in Gp. destruct (rev p) as [|q r] eqn:Er; [discriminate|]. inversion Gp; subst pn ph.
      apply (f_equal (@rev _)) in Er. rewrite rev_involutive in Er. cbn [rev] in Er.
      destruct Hwp as (Hne' & _). rewrite Forall_forall in Hne'.
      assert (Hq : q <> []) by (apply Hne'; rewrite Er; apply in_or_app; right; left; reflexivity).
      assert (Hin : In (last_blk q) (concat (p ++ [b]))).
      { rewrite concat_app. apply in_or_app. left. rewrite Er.
        apply (in_concat_batch _ q); [apply in_or_app; right; left; reflexivity|apply last_blk_in; exact Hq]. }
      specialize (Hb _ Hin). lia. }
    rewrite (w64_nmax' pn Hn). unfold del_rows.
    rewrite hx_db by reflexivity. cbn [db_step do_write fst snd]. unfold del_rows_k. cbn [is_fail].
    rewrite <- app_assoc. reflexivity.
  - unfold del_rows.
    rewrite hx_db by reflexivity. cbn [db_step do_write fst snd]. unfold del_rows_k. cbn [is_fail].
    rewrite <- app_assoc. reflexivity.
Qed.

Lemma unwind_ws_own : forall p b, Forall (own_wop c) (unwind_ws c p b).
Proof.
  intros p b. unfold unwind_ws. constructor; [cbn; split; reflexivity|].
  constructor; [cbn; split; reflexivity|constructor].
Qed.

(* all orphaned batches, one iteration each *)
Lemma unwind_loop : forall q p ws fuel f,
  Forall (own_wop c) ws -> apply_ws ws (pv c d) = render c (p ++ q) -> wf_ghost c (p ++ q) ->
  Forall orphan q -> (forall y, In y (concat (p ++ q)) -> b_num y < tn) ->
  exists ws',
    H (6 * length q + f) (reorg_loop repaired (length q + fuel) c) d (Some ws)
    = H f (reorg_loop repaired fuel c) d (Some ws')
    /\ Forall (own_wop c) ws' /\ apply_ws ws' (pv c d) = render c p.
Proof.
  intros q. induction q as [|b q IH] using rev_ind; intros p ws fuel f Hown Happ Hw Hor Hlt.
  - exists ws. rewrite app_nil_r in Happ. cbn [length Nat.mul Nat.add]. split; [reflexivity|]. split; assumption.
  - rewrite app_assoc in Happ, Hw, Hlt.
    apply Forall_app in Hor. destruct Hor as [Hor Hb]. inversion Hb as [|? ? Hob _]; subst.
    assert (Hbn : b <> []).
    { destruct Hw as (Hne & _). rewrite Forall_forall in Hne. apply Hne. apply in_or_app. right. left. reflexivity. }
    assert (Hin : In (last_blk b) (concat ((p ++ q) ++ [b]))).
    { apply (in_concat_batch _ b); [apply in_or_app; right; left; reflexivity|apply last_blk_in; exact Hbn]. }
    pose proof (Hlt _ Hin) as Hl.
    assert (Hcl : tn <= height ch - 1) by apply clip_le'.
    destruct (nth_error ch (N.to_nat (b_num (last_blk b)))) as [x|] eqn:En.
    2:{ apply nth_error_None in En. unfold height in *. lia. }
    rewrite app_length. cbn [length]. 
    replace (6 * (length q + 1) + f)%nat with (6 + (6 * length q + f))%nat by lia.
    replace (length q + 1 + fuel)%nat with (S (length q + fuel)) by lia.
    rewrite (reorg_loop_S' c).
    rewrite (unwind_iter _ ws (p ++ q) b x _ Hown Happ Hw En (Hob x En) Hl).
    destruct (IH p (ws ++ unwind_ws c (p ++ q) b) fuel f) as (ws' & E & A & B).
    + apply Forall_app. split; [exact Hown|apply unwind_ws_own].
    + rewrite apply_ws_app, Happ. apply unwind_exact. exact Hw.
    + eapply wf_ghost_prefix. exact Hw.
    + exact Hor.
    + intros y Hy. apply Hlt. rewrite concat_app. apply in_or_app. left. exact Hy.
    + exists ws'. split; [exact E|]. split; assumption.
Qed.


(* ---------- the step that settles ---------- *)
Section SettleStep.
Variables (p q : list batch) (ln : N) (x : blk).
Hypothesis Hpv : pv c d = render c (p ++ q).
Hypothesis Hw : wf_ghost c (p ++ q).
Hypothesis Hon : Forall (on_chain (t_hashes c) ch) (concat p).   (* below the fork: blocks of the final chain *)
Hypothesis Hor : Forall orphan q.                                 (* above it: orphaned batches *)
Hypothesis Hbelow : forall y, In y (concat (p ++ q)) -> b_num y < tn.   (* the head exceeds everything recorded *)
Hypothesis Hq : (length q <= 1000)%nat.                           (* within the reorg bound of one step *)
Hypothesis Hx : blk_at ch ln = Some x.
Hypothesis Hpos : at_pos c p ln.
Hypothesis Hlt : ln < tn.

Notation delta := (delta_of c ln tn).
Notation bs := (view (t_hashes c) (segment ch (ln + 1) delta)).

Lemma settled_step : forall f, exists ws',
  Forall (own_wop c) ws' /\ apply_ws ws' (pv c d) = render c p
  /\ H (6 * length q + 12 + f) (converge c) d None
     = (Fin OConverged, apply_ws [WCopy (rows_of c bs); WInsCur (bcur c bs)] (apply_ws ws' d), None).
Proof.
  intros f.
  assert (Hwp : wf_ghost c p) by (eapply wf_ghost_prefix; exact Hw).
  destruct (unwind_loop q p [] (S (1000 - length q)) (11 + f) (Forall_nil _) Hpv Hw Hor Hbelow)
    as (ws' & E & Hown & Happ).
  exists ws'. split; [exact Hown|]. split; [exact Happ|].
  assert (Hpv1 : pv c (apply_ws ws' d) = render c p) by (rewrite pv_apply_ws_own by exact Hown; exact Happ).
  unfold converge, converge_v.
  replace (6 * length q + 12 + f)%nat with (S (6 * length q + (11 + f)))%nat by lia.
  rewrite hx_db by reflexivity. cbn [db_step fst snd]. unfold begun. cbn [is_fail].
  replace 1001%nat with (length q + S (1000 - length q))%nat by lia.
  rewrite E. rewrite (reorg_loop_S' c). unfold position.
  change (11 + f)%nat with (S (10 + f)). rewrite hx_db by reflexivity. cbn [db_step fst snd vis].
  assert (Hnew : newest (t_src c) (t_ig c) (d_curs (apply_ws ws' d)) = gpos p).
  { rewrite <- newest_pv, Hpv1. apply newest_render. exact Hwp. }
  rewrite Hnew. unfold pos_query.
  assert (Hmatch : forall h, gpos p = Some (ln, h) -> h = b_hash x).
  { intros h Gp. apply (pos_hash_ok c ch p ln x Hwp Hon Hx Hpos Hlt h Gp). }
  destruct Hpos as [(h & Gp)|(Ep & Hs & El)].
  - rewrite Gp.
    destruct (hx_to_insert c ch Hc Hwf Hsmall Hdeps Hkeys p ln x Hon Hx (or_introl (ex_intro _ h Gp)) Hlt
                           (8 + f) h (reorg_loop repaired (1000 - length q) c) d (Some ws')
                           (fun _ => Hmatch h Gp)) as (th & E2).
    change (10 + f)%nat with (2 + (8 + f))%nat. rewrite E2. unfold insert_tx.
    change (8 + f)%nat with (S (7 + f)). rewrite hx_db by reflexivity. cbn [db_step fst snd vis].
    unfold tx1_commit. cbn [is_fail].
    pose proof (hx_mono c ch (5 + f) _ _ _ _ _ _
                  (hx_tail c ch Hc Hwf Hsmall Hkeys p (apply_ws ws' d) ln x Hpv1 Hwp Hon
                           (or_introl (ex_intro _ h Gp)) Hlt f th) 2) as M.
    replace (7 + f)%nat with (5 + f + 2)%nat by lia. exact M.
  - rewrite Ep. cbn [gpos rev]. destruct (N.ltb_spec 0 (t_start c)); [|lia].
    change (10 + f)%nat with (S (9 + f)). rewrite hx_node by reflexivity. cbn [honest].
    rewrite <- El, Hx. unfold pos_hash.
    destruct (hx_to_insert c ch Hc Hwf Hsmall Hdeps Hkeys p ln x Hon Hx
                           (or_intror (conj Ep (conj Hs El))) Hlt
                           (7 + f) (b_hash x) (reorg_loop repaired (1000 - length q) c) d (Some ws')
                           (fun _ => eq_refl)) as (th & E2).
    change (9 + f)%nat with (2 + (7 + f))%nat. rewrite E2. unfold insert_tx.
    change (7 + f)%nat with (S (6 + f)). rewrite hx_db by reflexivity. cbn [db_step fst snd vis].
    unfold tx1_commit. cbn [is_fail].
    pose proof (hx_mono c ch (5 + f) _ _ _ _ _ _
                  (hx_tail c ch Hc Hwf Hsmall Hkeys p (apply_ws ws' d) ln x Hpv1 Hwp Hon
                           (or_intror (conj Ep (conj Hs El))) Hlt f th) 1) as M.
    replace (6 + f)%nat with (5 + f + 1)%nat by lia. exact M.
Qed.

(* C03 settled_converges (no stale answers: the node serves the final chain):
   the step above, then at most target - position growth steps, reach
   "every indexed block is the final chain's, position = min(head, stop)" *)
Lemma settled_lemma :
  let F := (6 * length q + 12)%nat in
  let x1 := exec_honest F (t_uniq c) (t_hashes c) ch (converge c) d None in
  r_out x1 = Fin OConverged
  /\ exists n g', (n <= N.to_nat (tn - ln))%nat
       /\ pv c (iter (hstepf c ch) n (r_db x1)) = render c g' /\ wf_ghost c g'
       /\ Forall (on_chain (t_hashes c) ch) (concat g')
       /\ (exists h, gpos g' = Some (tn, h))
       /\ outside c (iter (hstepf c ch) n (r_db x1)) = outside c d.
Proof.
  cbn zeta. destruct (settled_step 0%nat) as (ws' & Hown & Happ & E).
  replace (6 * length q + 12 + 0)%nat with (6 * length q + 12)%nat in E by lia.
  unfold hx in E.
  pose proof (f_equal (fun t => fst (fst t)) E) as E1. pose proof (f_equal (fun t => snd (fst t)) E) as E2.
  cbn [fst snd] in E1, E2. rewrite E1, E2. split; [reflexivity|].
  assert (Hwp : wf_ghost c p) by (eapply wf_ghost_prefix; exact Hw).
  assert (Hpv1 : pv c (apply_ws ws' d) = render c p) by (rewrite pv_apply_ws_own by exact Hown; exact Happ).
  destruct (honest_step_state c ch Hc Hwf Hsmall Hkeys p (apply_ws ws' d) ln x Hpv1 Hwp Hon Hx Hpos Hlt)
    as (A & B & C & D & G).
  rewrite (outside_apply_ws_own c ws' d Hown) in B.
  assert (Hle : ln + delta <= tn) by (unfold delta_of; lia).
  destruct (N.eq_dec (ln + delta) tn) as [Et|Et].
  - exists 0%nat, (p ++ [bs]). split; [lia|]. cbn [iter]. split; [exact A|]. split; [exact C|].
    split; [exact D|]. split; [exists (b_hash (last_blk bs)); rewrite G; f_equal; f_equal; exact Et|exact B].
  - assert (Hcl : tn <= height ch - 1) by apply clip_le'.
    pose proof (blk_at_height ch _ x Hx) as Hh1.
    destruct (nth_error ch (N.to_nat (ln + delta))) as [x'|] eqn:En.
    2:{ apply nth_error_None in En. unfold height in *. lia. }
    destruct (reach_lemma c ch Hc Hwf Hsmall Hdeps Hkeys (p ++ [bs]) _ (ln + delta) x' A C D En
                          (or_introl (ex_intro _ _ G)) ltac:(lia))
      as (n & g' & Hn & P1 & P2 & P3 & P4 & P5).
    exists n, g'. split; [lia|]. split; [exact P1|]. split; [exact P2|]. split; [exact P3|].
    split; [exact P4|]. rewrite P5. exact B.
Qed.
End SettleStep.
End Settle.

(* ---------- from ANY state the safety theorems allow ---------- *)
(* Whatever happened before (stale answers, faults, reorgs): a ghost whose
   blocks belong to versions of a history containing the final chain splits
   into batches that are the final chain's (below the fork) and orphaned
   batches (above it).  Needs "block hashes identify blocks". *)
Section Split.
Variable c : tcfg.
Variable H : list chain.
Variable ch : chain.
Hypothesis HH : history_ok H.
Hypothesis Hin : In ch H.
Hypothesis Hid : hash_identifies H.

Lemma ghost_split : forall g,
  wf_ghost c g -> Forall (in_history H) (concat g) ->
  exists p q, g = p ++ q /\ Forall (on_chain true ch) (concat p) /\ Forall (orphan ch) q.
Proof.
  intros g. induction g as [|b g IH] using rev_ind; intros Hw Hb.
  - exists [], []. split; [reflexivity|]. split; constructor.
  - assert (Hbn : b <> []).
    { destruct Hw as (Hne & _). rewrite Forall_forall in Hne. apply Hne. apply in_or_app. right. left. reflexivity. }
    destruct (exists_last Hbn) as (b' & z & Eb).
    assert (Ez : last_blk b = z) by (rewrite Eb; apply last_blk_last).
    assert (Ec : concat (g ++ [b]) = (concat g ++ b') ++ [z]).
    { rewrite concat_snoc, Eb, app_assoc. reflexivity. }
    assert (Hzin : in_history H z).
    { rewrite Forall_forall in Hb. apply Hb. rewrite Ec. apply in_or_app. right. left. reflexivity. }
    assert (Hcase : (exists x, blk_at ch (b_num z) = Some x /\ b_hash z = b_hash x) \/ orphan ch b).
    { destruct (blk_at ch (b_num z)) as [x|] eqn:Ex.
      - destruct (N.eq_dec (b_hash z) (b_hash x)) as [E|E].
        + left. exists x. split; [reflexivity|exact E].
        + right. intros x' Hx'. rewrite Ez, Ex in Hx'. inversion Hx'; subst. rewrite Ez. exact E.
      - right. intros x' Hx'. rewrite Ez, Ex in Hx'. discriminate. }
    destruct Hcase as [(x & Hx & Eh)|Hor].
    + (* the last block is the final chain's: so is everything before it *)
      destruct Hzin as (chz & Hchz & Hz).
      assert (Ezx : z = x).
      { apply (Hid chz ch z x Hchz Hin (blk_at_in _ _ _ Hz) (blk_at_in _ _ _ Hx) Eh). }
      subst x.
      assert (Hs : strong_linked ((concat g ++ b') ++ [z])).
      { rewrite <- Ec. destruct Hw as (_ & Hch & _). destruct (concat (g ++ [b])) as [|f l]; [exact I|].
        inversion Hb; subst. apply (weak_strong H HH); assumption. }
      rewrite Ec in Hb.
      pose proof (back_on_final H HH ch Hin Hid _ z Hs Hb Hx) as Hon.
      exists (g ++ [b]), []. split; [rewrite app_nil_r; reflexivity|]. split; [|constructor].
      rewrite Ec. eapply Forall_impl; [|exact Hon]. intros y Hy. exists y. split; [exact Hy|reflexivity].
    + destruct (IH (wf_ghost_prefix c g [b] Hw)) as (p & q & Eg & Hp & Hq).
      { rewrite concat_snoc in Hb. apply Forall_app in Hb. apply Hb. }
      exists p, (q ++ [b]). split; [rewrite Eg, app_assoc; reflexivity|]. split; [exact Hp|].
      apply Forall_app. split; [exact Hq|constructor; [exact Hor|constructor]].
Qed.
End Split.

(* C03 liveness from ANY state satisfying TaskInvH: after an arbitrary past
   (any number of stale answers, faults, nested reorgs -- the safety theorems
   keep TaskInvH), once the node serves the final chain [ch] and its head
   exceeds every recorded position, the fault-free steps converge *)
Lemma settled_any_lemma : forall c H ch,
  cfg_ok c -> history_ok H -> In ch H -> hash_identifies H ->
  t_deps c = [] -> (forall b, In b ch -> NoDup (map fst (b_rows b))) -> t_hashes c = true ->
  forall d g,
  pv c d = render c g -> wf_ghost c g -> Forall (in_history H) (concat g) ->
  (forall y, In y (concat g) -> b_num y < clip c (height ch - 1)) ->
  (length g <= 1000)%nat ->
  0 < t_start c -> t_start c - 1 < clip c (height ch - 1) ->
  exists F ln,
    let x1 := exec_honest F (t_uniq c) (t_hashes c) ch (converge c) d None in
    r_out x1 = Fin OConverged
    /\ exists n g', (n <= N.to_nat (clip c (height ch - 1) - ln))%nat
         /\ pv c (iter (hstepf c ch) n (r_db x1)) = render c g' /\ wf_ghost c g'
         /\ Forall (on_chain (t_hashes c) ch) (concat g')
         /\ (exists h, gpos g' = Some (clip c (height ch - 1), h))
         /\ outside c (iter (hstepf c ch) n (r_db x1)) = outside c d.
Proof.
  intros c H ch Hc HH Hin Hid Hdeps Hkeys Hhs d g Hpv Hw Hb Hbelow Hlen Hs0 Hs1.
  destruct (HH ch Hin) as [Hwf Hsmall].
  destruct (ghost_split c H ch HH Hin Hid g Hw Hb) as (p & q & Eg & Hp & Hq). subst g.
  assert (Hlq : (length q <= 1000)%nat) by (rewrite app_length in Hlen; lia).
  assert (Hcl : clip c (height ch - 1) <= height ch - 1) by apply clip_le'.
  (* the position below the fork *)
  assert (Hpos : exists ln x, blk_at ch ln = Some x /\ at_pos c p ln /\ ln < clip c (height ch - 1)).
  { destruct (gpos p) as [[n h]|] eqn:Gp.
    - unfold gpos in Gp. destruct (rev p) as [|b r] eqn:Er; [discriminate|]. inversion Gp; subst.
      apply (f_equal (@rev _)) in Er. rewrite rev_involutive in Er. cbn [rev] in Er.
      assert (Hwp : wf_ghost c p) by (eapply wf_ghost_prefix; exact Hw).
      pose proof Hwp as (Hne & _). rewrite Forall_forall in Hne.
      assert (Hbn : b <> []) by (apply Hne; rewrite Er; apply in_or_app; right; left; reflexivity).
      assert (Hl : In (last_blk b) (concat p)).
      { rewrite Er. apply (in_concat_batch _ b); [apply in_or_app; right; left; reflexivity|apply last_blk_in; exact Hbn]. }
      rewrite Forall_forall in Hp. destruct (Hp _ Hl) as (x & Hx & Ex).
      exists (b_num (last_blk b)), x. split; [exact Hx|]. split.
      + left. exists (b_hash (last_blk b)). unfold gpos. rewrite Er, rev_unit. reflexivity.
      + apply Hbelow. rewrite concat_app. apply in_or_app. left. exact Hl.
    - assert (Ep : p = []).
      { unfold gpos in Gp. destruct (rev p) eqn:Er; [|discriminate].
        apply (f_equal (@rev _)) in Er. rewrite rev_involutive in Er. exact Er. }
      destruct (nth_error ch (N.to_nat (t_start c - 1))) as [x|] eqn:En.
      2:{ apply nth_error_None in En. unfold height in *. lia. }
      exists (t_start c - 1), x. split; [exact En|]. split; [right; split; [exact Ep|split; [exact Hs0|reflexivity]]|exact Hs1]. }
  destruct Hpos as (ln & x & Hx & Hat & Hlt).
  exists (6 * length q + 12)%nat, ln.
  rewrite <- Hhs in Hp.
  exact (settled_lemma c ch Hc Hwf Hsmall Hdeps Hkeys Hhs d p q ln x Hpv Hw Hp Hq Hbelow Hlq Hx Hat Hlt).
Qed.

(* C03 settled_converges: ANY past, then the settled future *)
Lemma settled_full_lemma : forall c H ch ss d0,
  cfg_ok c -> history_ok H -> In ch H -> hash_identifies H ->
  t_deps c = [] -> (forall b, In b ch -> NoDup (map fst (b_rows b))) -> t_hashes c = true ->
  TaskInvH c H d0 -> runs_sat (node_ans true H) c ss d0 ->
  let d := run_end c ss d0 in
  (forall x, In x (d_curs (pv c d)) -> c_num x < clip c (height ch - 1)) ->
  (length (d_curs (pv c d)) <= 1000)%nat ->
  0 < t_start c -> t_start c - 1 < clip c (height ch - 1) ->
  exists F ln,
    let x1 := exec_honest F (t_uniq c) (t_hashes c) ch (converge c) d None in
    r_out x1 = Fin OConverged
    /\ exists n g', (n <= N.to_nat (clip c (height ch - 1) - ln))%nat
         /\ pv c (iter (hstepf c ch) n (r_db x1)) = render c g' /\ wf_ghost c g'
         /\ Forall (on_chain (t_hashes c) ch) (concat g')
         /\ (exists h, gpos g' = Some (clip c (height ch - 1), h))
         /\ outside c (iter (hstepf c ch) n (r_db x1)) = outside c d.
Proof.
  intros c H ch ss d0 Hc HH Hin Hid Hdeps Hkeys Hhs Hi Hs d Hcur Hlen Hs0 Hs1.
  destruct (hist_runs c H Hc HH ss d0 Hi Hs) as [_ (g & Hpv & Hw & Hb)]. fold d in Hpv.
  apply (settled_any_lemma c H ch Hc HH Hin Hid Hdeps Hkeys Hhs d g Hpv Hw Hb); try assumption.
  - intros y Hy. destruct (gpos g) as [[n h]|] eqn:Gp.
    + pose proof (ghost_below_pos c g n h Hw Gp y Hy) as Hle.
      assert (Hn : n < clip c (height ch - 1)).
      { unfold gpos in Gp. destruct (rev g) as [|b r] eqn:Er; [discriminate|]. inversion Gp; subst.
        apply (f_equal (@rev _)) in Er. rewrite rev_involutive in Er. cbn [rev] in Er.
        apply (Hcur (bcur c b)). rewrite Hpv. cbn [render d_curs]. apply in_map. rewrite Er.
        apply in_or_app. right. left. reflexivity. }
      lia.
    + assert (g = []).
      { unfold gpos in Gp. destruct (rev g) eqn:Er; [|discriminate].
        apply (f_equal (@rev _)) in Er. rewrite rev_involutive in Er. exact Er. }
      subst g. destruct Hy.
  - rewrite Hpv in Hlen. cbn [render d_curs] in Hlen. rewrite map_length in Hlen. exact Hlen.
Qed.

(* ---------- retry_equiv on reorg histories ---------- *)
(* The node serves the final chain [ch] (answers are its blocks, or fail); the
   recorded batches are [p] (the final chain's) followed by orphaned [q].  A
   step under ANY fault plan that does not report success can only have
   unwound orphaned batches: it leaves p ++ q' with q = q' ++ q''.  The
   fault-free retry from that state ends in the same pair and outside as the
   fault-free step from the original state. *)
Section Retry.
Variable c : tcfg.
Variable ch : chain.
Hypothesis Hc : cfg_ok c.
Hypothesis Hwf : wf_chain ch.
Hypothesis Hsmall : height ch < nmax.
Hypothesis Hdeps : t_deps c = [].
Hypothesis Hkeys : forall b, In b ch -> NoDup (map fst (b_rows b)).
Hypothesis Hhs : t_hashes c = true.

Notation Gr := (growth_reply true ch).
Definition NDAr (i : io) (r : reply) : Prop := growth_reply true ch i r /\ r <> RFail KDropAfter.
Definition HPr (n h : N) : Prop := exists b, blk_at ch n = Some b /\ b_hash b = h.
Definition RJr (p' : list batch) : Prop :=
  match rev p' with [] => True | b :: _ => orphan ch b end.

Lemma Gr_ok : forall i r, NDAr i r -> reply_ok i r.
Proof.
  intros i r [H _]. pose proof (C01P.Gg_ok c ch Hwf Hsmall i r) as K. rewrite Hhs in K. apply K. exact H.
Qed.

Lemma Gr_on_chain : forall ps segs f, Gr (RGet ps) (RSegs segs) ->
  In f (concat (map seg_blocks segs)) -> on_chain true ch f.
Proof.
  intros ps segs f Hg Hin. pose proof (C01P.Gg_bp c ch Hwf Hsmall ps segs) as K. rewrite Hhs in K.
  specialize (K Hg). rewrite Forall_forall in K. apply K. exact Hin.
Qed.

Lemma rj_orphan : forall p' ln lh ps segs f,
  W c (fun _ => True) p' -> pos_of c HPr (fun _ => True) p' ln lh -> NDAr (RGet ps) (RSegs segs) ->
  In f (concat (map seg_blocks segs)) -> b_num f = ln + 1 -> b_parent f <> 0 -> lh <> b_parent f -> RJr p'.
Proof.
  intros p' ln lh ps segs f Hw Hpos [Hg _] Hin Hn Hp Hl. unfold RJr.
  unfold pos_of, gpos in Hpos. destruct (rev p') as [|b r]; [exact I|]. destruct Hpos as [-> ->].
  destruct (Gr_on_chain ps segs f Hg Hin) as (x & Hx & Ef). cbn [vblk] in Ef. subst f.
  intros y Hy. intros E. apply Hl. rewrite E.
  rewrite Hn in Hx. destruct (wf_chain_at ch _ x Hwf Hx) as (_ & _ & Hpar).
  replace (b_num (last_blk b) + 1 - 1) with (b_num (last_blk b)) in Hpar by lia.
  symmetry. apply (Hpar y ltac:(lia) Hy).
Qed.

(* unwinding justified by orphans never enters the final chain's batches *)
Lemma unw_orphans : forall g p2, unw RJr g p2 ->
  forall p q, g = p ++ q ->
  (match rev p with [] => True | b :: _ => ~ orphan ch b end) ->
  exists q', p2 = p ++ q' /\ exists q'', q = q' ++ q''.
Proof.
  intros g p2 Hu. induction Hu as [|p2 b _ IH Hrj]; intros p q Eg Hp.
  - exists q. split; [exact Eg|]. exists []. symmetry. apply app_nil_r.
  - destruct (IH p q Eg Hp) as (q' & E1 & q'' & E2).
    destruct q' as [|x q1] using rev_ind.
    + rewrite app_nil_r in E1. exfalso. subst p. unfold RJr in Hrj. rewrite rev_unit in Hrj, Hp.
      exact (Hp Hrj).
    + clear IHq1. rewrite app_assoc in E1. apply app_inj_tail in E1. destruct E1 as [E1 _].
      exists q1. split; [exact E1|]. exists (x :: q''). rewrite E2, <- app_assoc. reflexivity.
Qed.

Lemma retry_reorg_lemma : forall d p q ln x s o,
  pv c d = render c (p ++ q) -> wf_ghost c (p ++ q) ->
  Forall (on_chain (t_hashes c) ch) (concat p) -> Forall (orphan ch) q ->
  (forall y, In y (concat (p ++ q)) -> b_num y < clip c (height ch - 1)) ->
  (length q <= 1000)%nat ->
  blk_at ch ln = Some x -> at_pos c p ln -> ln < clip c (height ch - 1) ->
  (* the failed step: any faults, answers of the final chain or failures *)
  trace_sat NDAr (step c s d) -> r_out (step c s d) = Fin o -> o <> OConverged ->
  let F := (6 * length q + 12)%nat in
  let d' := r_db (step c s d) in
  r_out (exec_honest F (t_uniq c) (t_hashes c) ch (converge c) d' None) = Fin OConverged
  /\ pv c (r_db (exec_honest F (t_uniq c) (t_hashes c) ch (converge c) d' None))
     = pv c (r_db (exec_honest F (t_uniq c) (t_hashes c) ch (converge c) d None))
  /\ outside c (r_db (exec_honest F (t_uniq c) (t_hashes c) ch (converge c) d' None))
     = outside c (r_db (exec_honest F (t_uniq c) (t_hashes c) ch (converge c) d None)).
Proof.
  intros d p q ln x s o Hpv Hw Hon Hor Hbelow Hq Hx Hpos Hlt Ht Ho Hne. cbn zeta.
  (* what the failed step left *)
  assert (HW : W c (fun _ => True) (p ++ q)) by (split; [exact Hw|apply Forall_True]).
  destruct (step_not_converged c NDAr (fun _ => True) True (fun _ => True) HPr (fun _ => True) RJr Hc
              Gr_ok (fun _ _ _ => Forall_True _) (fun n h H => proj1 H) (fun _ _ _ _ => I) (fun _ _ => I)
              rj_orphan (p ++ q) d s Hpv HW (Forall_True s) Ht o (fun i r H => proj2 H) Ho Hne)
    as (p2 & q2 & Eg & Hu & Hp2).
  destruct (step_all c NDAr (fun _ => True) True (fun _ => True) HPr (fun _ => True) RJr Hc
              Gr_ok (fun _ _ _ => Forall_True _) (fun n h H => proj1 H) (fun _ _ _ _ => I) (fun _ _ => I)
              rj_orphan (p ++ q) d s Hpv HW (Forall_True s) Ht) as (_ & (Hout & _) & _).
  assert (Hpne : match rev p with [] => True | b :: _ => ~ orphan ch b end).
  { destruct (rev p) as [|b r] eqn:Er; [exact I|].
    apply (f_equal (@rev _)) in Er. rewrite rev_involutive in Er. cbn [rev] in Er.
    assert (Hwp : wf_ghost c p) by (eapply wf_ghost_prefix; exact Hw).
    pose proof Hwp as (Hne' & _). rewrite Forall_forall in Hne'.
    assert (Hb : b <> []) by (apply Hne'; rewrite Er; apply in_or_app; right; left; reflexivity).
    assert (Hl : In (last_blk b) (concat p)).
    { rewrite Er. apply (in_concat_batch _ b); [apply in_or_app; right; left; reflexivity|apply last_blk_in; exact Hb]. }
    rewrite Forall_forall in Hon. destruct (Hon _ Hl) as (y & Hy & Ey). rewrite Hhs in Ey. cbn [vblk] in Ey.
    intros Horph. apply (Horph y Hy). rewrite <- Ey. reflexivity. }
  destruct (unw_orphans _ _ Hu p q eq_refl Hpne) as (q' & -> & q'' & ->).
  (* both fault-free steps *)
  assert (Hw' : wf_ghost c (p ++ q')).
  { rewrite app_assoc in Hw. eapply wf_ghost_prefix. exact Hw. }
  assert (Hor' : Forall (orphan ch) q') by (apply Forall_app in Hor; apply Hor).
  assert (Hbelow' : forall y, In y (concat (p ++ q')) -> b_num y < clip c (height ch - 1)).
  { intros y Hy. apply Hbelow. rewrite app_assoc, concat_app. apply in_or_app. left. exact Hy. }
  assert (Hq' : (length q' <= 1000)%nat) by (rewrite app_length in Hq; lia).
  set (d' := r_db (step c s d)) in *.
  destruct (settled_step c ch Hc Hwf Hsmall Hdeps Hkeys Hhs d p (q' ++ q'') ln x Hpv Hw Hon Hor Hbelow Hq Hx Hpos Hlt 0%nat)
    as (ws1 & Hown1 & Happ1 & E1).
  destruct (settled_step c ch Hc Hwf Hsmall Hdeps Hkeys Hhs d' p q' ln x Hp2 Hw' Hon Hor' Hbelow' Hq' Hx Hpos Hlt
                         (6 * length q'')%nat)
    as (ws2 & Hown2 & Happ2 & E2).
  replace (6 * length (q' ++ q'') + 12 + 0)%nat with (6 * length (q' ++ q'') + 12)%nat in E1 by lia.
  replace (6 * length q' + 12 + 6 * length q'')%nat with (6 * length (q' ++ q'') + 12)%nat in E2
    by (rewrite app_length; lia).
  unfold hx in E1, E2.
  pose proof (f_equal (fun t => fst (fst t)) E2) as O2. pose proof (f_equal (fun t => snd (fst t)) E1) as D1.
  pose proof (f_equal (fun t => snd (fst t)) E2) as D2. cbn [fst snd] in O2, D1, D2.
  rewrite O2, D1, D2. split; [reflexivity|].
  assert (Hwp : wf_ghost c p) by (eapply wf_ghost_prefix; exact Hw').
  assert (P1 : pv c (apply_ws ws1 d) = render c p) by (rewrite pv_apply_ws_own by exact Hown1; exact Happ1).
  assert (P2 : pv c (apply_ws ws2 d') = render c p) by (rewrite pv_apply_ws_own by exact Hown2; exact Happ2).
  destruct (honest_step_state c ch Hc Hwf Hsmall Hkeys p (apply_ws ws1 d) ln x P1 Hwp Hon Hx Hpos Hlt) as (A1 & B1 & _).
  destruct (honest_step_state c ch Hc Hwf Hsmall Hkeys p (apply_ws ws2 d') ln x P2 Hwp Hon Hx Hpos Hlt) as (A2 & B2 & _).
  split; [rewrite A1, A2; reflexivity|].
  rewrite B1, B2, (outside_apply_ws_own c ws1 d Hown1), (outside_apply_ws_own c ws2 d' Hown2). exact Hout.
Qed.
End Retry.
