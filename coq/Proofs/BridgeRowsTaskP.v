(* Bridge rows -> task: proofs for Model/BridgeRowsTask.v.
   1. the encodings are injective;
   2. the keyed row builder emits exactly the rows of Rows.insert (C11), and
      Insert over a list of blocks is the concatenation of the per-block Inserts;
   3. every keyed row is a row C11's theorems speak about ([declared_row]);
   4. identity keys are distinct inside a well-formed block ([wf_items]), and
      may collide otherwise (witness);
   5. the instantiated chain is a well-formed task-level chain; the table of
      a growth history is the declared projection. *)
From Coq Require Import List NArith ZArith Bool Lia ZifyBool ZifyN ZifyNat.
From Shovel Require Import Model.TaskTypes Model.TaskDb Model.Task Model.TaskNode Model.TaskSys
  Model.TaskSpec Proofs.TaskDbP Proofs.TaskChainP Proofs.TaskLegacyP Proofs.C01P Proofs.TaskLiveP.
(* imported last: unqualified b_num, b_hash, c_src, db, outcome, count, fixed
   ... are the ROWS-level ones; the task-level ones are written qualified *)
From Shovel Require Import Base.Outcome Model.Hex Model.Filter Model.Rows Proofs.RowsP
  Model.BridgeRowsTask.
Import ListNotations.
Open Scope N_scope.

(* ================= 1. encodings ================= *)
Definition pinj {A} (f : A -> bits -> bits) : Prop :=
  forall x y k k', f x k = f y k' -> x = y /\ k = k'.

Lemma code_pos_inj : pinj code_pos.
Proof.
  intros x. induction x as [p IH|p IH|]; intros [q|q|] k k' H; cbn [code_pos] in H;
    try discriminate H.
  - injection H as H. destruct (IH _ _ _ H) as [-> ->]. split; reflexivity.
  - injection H as H. destruct (IH _ _ _ H) as [-> ->]. split; reflexivity.
  - injection H as ->. split; reflexivity.
Qed.

Lemma code_N_inj : pinj code_N.
Proof.
  intros [|p] [|q] k k' H; cbn [code_N] in H; try discriminate H.
  - injection H as ->. split; reflexivity.
  - injection H as H. destruct (code_pos_inj _ _ _ _ H) as [-> ->]. split; reflexivity.
Qed.

Lemma code_nat_inj : pinj code_nat.
Proof.
  intros x y k k' H. unfold code_nat in H. destruct (code_N_inj _ _ _ _ H) as [E ->].
  split; [lia|reflexivity].
Qed.

Lemma code_Z_inj : pinj code_Z.
Proof.
  intros [|p|p] [|q|q] k k' H; cbn [code_Z] in H; try discriminate H.
  - injection H as ->. split; reflexivity.
  - injection H as H. destruct (code_pos_inj _ _ _ _ H) as [-> ->]. split; reflexivity.
  - injection H as H. destruct (code_pos_inj _ _ _ _ H) as [-> ->]. split; reflexivity.
Qed.

Lemma code_bool_inj : pinj code_bool.
Proof. intros x y k k' H. unfold code_bool in H. injection H as -> ->. split; reflexivity. Qed.

Lemma code_list_inj {A} (f : A -> bits -> bits) : pinj f -> pinj (code_list f).
Proof.
  intros Hf x. induction x as [|a x IH]; intros [|b y] k k' H; cbn [code_list] in H;
    try discriminate H.
  - injection H as ->. split; reflexivity.
  - injection H as H. destruct (Hf _ _ _ _ H) as [-> H']. destruct (IH _ _ _ H') as [-> ->].
    split; reflexivity.
Qed.

Lemma code_opt_inj {A} (f : A -> bits -> bits) : pinj f -> pinj (code_opt f).
Proof.
  intros Hf [a|] [b|] k k' H; cbn [code_opt] in H; try discriminate H.
  - injection H as H. destruct (Hf _ _ _ _ H) as [-> ->]. split; reflexivity.
  - injection H as ->. split; reflexivity.
Qed.

Lemma code_bytes_inj : pinj code_bytes.
Proof. apply code_list_inj, code_N_inj. Qed.

Lemma code_gval_inj : pinj code_gval.
Proof.
  intros x y k k' H. destruct x, y; unfold code_gval in H;
    apply code_N_inj in H; destruct H as [Htag H]; try discriminate Htag; clear Htag.
  - destruct (code_opt_inj _ code_bytes_inj _ _ _ _ H) as [-> ->]. split; reflexivity.
  - destruct (code_bytes_inj _ _ _ _ H) as [-> ->]. split; reflexivity.
  - destruct (code_N_inj _ _ _ _ H) as [-> ->]. split; reflexivity.
  - destruct (code_N_inj _ _ _ _ H) as [-> ->]. split; reflexivity.
  - destruct (code_N_inj _ _ _ _ H) as [-> ->]. split; reflexivity.
  - destruct (code_bool_inj _ _ _ _ H) as [-> ->]. split; reflexivity.
  - destruct (code_N_inj _ _ _ _ H) as [-> ->]. split; reflexivity.
  - destruct (code_Z_inj _ _ _ _ H) as [-> ->]. split; reflexivity.
  - subst. split; reflexivity.
Qed.

Lemma code_key_inj : pinj code_key.
Proof.
  intros [a b c d] [a' b' c' d'] k k' H. unfold code_key in H. cbn [k_tx k_log k_abi k_trace] in H.
  destruct (code_N_inj _ _ _ _ H) as [-> H1].
  destruct (code_opt_inj _ code_N_inj _ _ _ _ H1) as [-> H2].
  destruct (code_opt_inj _ code_nat_inj _ _ _ _ H2) as [-> H3].
  destruct (code_opt_inj _ code_N_inj _ _ _ _ H3) as [-> ->]. split; reflexivity.
Qed.

Lemma pos_of_bits_inj : forall a b, pos_of_bits a = pos_of_bits b -> a = b.
Proof.
  induction a as [|x a IH]; intros [|y b] H; cbn [pos_of_bits] in H.
  - reflexivity.
  - destruct y; discriminate H.
  - destruct x; discriminate H.
  - destruct x, y; try discriminate H; injection H as H; rewrite (IH _ H); reflexivity.
Qed.

Lemma N_of_bits_inj : forall a b, N_of_bits a = N_of_bits b -> a = b.
Proof. intros a b H. unfold N_of_bits in H. injection H as H. apply pos_of_bits_inj, H. Qed.

(* equality of encoded keys / rows is equality of keys / of C11 rows *)
Lemma enc_key_inj : forall x y, enc_key x = enc_key y -> x = y.
Proof. intros x y H. apply N_of_bits_inj in H. apply (code_key_inj _ _ _ _ H). Qed.

Lemma enc_row_inj : forall x y : list gval, enc_row x = enc_row y -> x = y.
Proof.
  intros x y H. apply N_of_bits_inj in H. apply (code_list_inj _ code_gval_inj _ _ _ _ H).
Qed.

Lemma enc_kr_inj : forall x y, enc_kr x = enc_kr y -> x = y.
Proof.
  intros [k r] [k' r'] H. unfold enc_kr in H. cbn [fst snd] in H.
  assert (H1 : enc_key k = enc_key k') by congruence.
  assert (H2 : enc_row r = enc_row r') by congruence.
  rewrite (enc_key_inj _ _ H1), (enc_row_inj _ _ H2). reflexivity.
Qed.

Lemma hid_nil : forall h, hid h = 0 <-> h = [].
Proof. intros [|x h]; cbn [hid]; split; intros H; try reflexivity; discriminate H. Qed.

Lemma hid_inj : forall a b, hid a = hid b -> a = b.
Proof.
  intros [|x a] [|y b] H; cbn [hid] in H; try reflexivity; try discriminate H.
  apply N_of_bits_inj in H. apply (code_bytes_inj _ _ _ _ H).
Qed.

(* ================= 2. the keyed builder emits Rows.insert's rows ================= *)
Lemma omap_ok {A B} (h : A -> B) (o : outcome A) y :
  omap h o = Ok y -> exists x, o = Ok x /\ y = h x.
Proof.
  unfold omap. intros H. apply bind_ok in H. destruct H as [x [Hx H]]. injection H as <-.
  exists x. split; [exact Hx|reflexivity].
Qed.

Lemma tagged_ok {K A} (k : K) (o : outcome (list A)) out :
  tagged k o = Ok out -> exists rows, o = Ok rows /\ out = map (pair k) rows.
Proof. apply omap_ok. Qed.

Lemma omap_snd_tagged {K A} (k : K) (o : outcome (list A)) : omap (map snd) (tagged k o) = o.
Proof.
  destruct o as [a| |]; try reflexivity. unfold tagged, omap. cbn [bind].
  rewrite map_map. cbn [snd]. rewrite map_id. reflexivity.
Qed.

Lemma concatM_i_omap {A B C} (h : B -> C) (fk : nat -> A -> outcome (list B))
      (f : nat -> A -> outcome (list C)) l :
  (forall i x, In x l -> omap (map h) (fk i x) = f i x) ->
  forall i, omap (map h) (concatM_i fk i l) = concatM_i f i l.
Proof.
  induction l as [|x r IH]; intros Hf i; [reflexivity|]. cbn [concatM_i].
  rewrite <- (Hf i x (or_introl eq_refl)). rewrite <- (IH (fun j y Hy => Hf j y (or_intror Hy)) (S i)).
  destruct (fk i x) as [a| |]; try reflexivity. unfold omap at 2. cbn [bind].
  destruct (concatM_i fk (S i) r) as [b| |]; try reflexivity. unfold omap. cbn [bind].
  rewrite map_app. reflexivity.
Qed.

Lemma concatM_omap {A B C} (h : B -> C) (fk : A -> outcome (list B)) (f : A -> outcome (list C)) l :
  (forall x, In x l -> omap (map h) (fk x) = f x) ->
  omap (map h) (concatM fk l) = concatM f l.
Proof. intros Hf. unfold concatM. apply concatM_i_omap. intros _ x Hx. apply Hf, Hx. Qed.

Lemma kprocess_log_rows d dbs e l :
  omap (map snd) (kprocess_log d dbs e l) = process_log fixed d dbs e l.
Proof.
  unfold kprocess_log, process_log. destruct (negb (gate d l)); [reflexivity|].
  destruct (negb (is_nil (l_data l))).
  - destruct (l_scan l) as [srows| |]; try reflexivity. cbn [bind].
    apply concatM_i_omap. intros i x _. apply omap_snd_tagged.
  - apply omap_snd_tagged.
Qed.

Lemma kprocess_tx_rows d dbs e : omap (map snd) (kprocess_tx d dbs e) = process_tx d dbs e.
Proof. apply omap_snd_tagged. Qed.

Lemma concatM_single {A B} (f : A -> outcome (list B)) x : concatM f [x] = f x.
Proof.
  rewrite concatM_cons, concatM_nil. destruct (f x) as [a| |]; try reflexivity.
  cbn [bind]. rewrite app_nil_r. reflexivity.
Qed.

(* the tags change nothing: forgetting them gives Integration.Insert on the block *)
Lemma kinsert_rows d c dbs b :
  omap (map snd) (kinsert d c dbs b) = insert fixed d c dbs [b].
Proof.
  unfold kinsert, insert. destruct (indexing fixed d); rewrite concatM_single.
  - apply concatM_omap. intros t _. apply kprocess_tx_rows.
  - apply concatM_omap. intros t _. apply concatM_omap. intros a _. apply kprocess_tx_rows.
  - apply concatM_omap. intros t _. apply concatM_omap. intros l _. apply kprocess_log_rows.
Qed.

(* Insert over a batch is the concatenation of the per-block Inserts *)
Lemma insert_per_block d c dbs bs :
  insert fixed d c dbs bs = concatM (fun b => insert fixed d c dbs [b]) bs.
Proof.
  unfold insert. destruct (indexing fixed d); apply concatM_ext; intros b _;
    rewrite concatM_single; reflexivity.
Qed.

Lemma concatM_all_ok {A B} (f : A -> outcome (list B)) l :
  (forall x, In x l -> exists o, f x = Ok o) ->
  exists outs, concatM f l = Ok (concat outs) /\ Forall2 (fun x o => f x = Ok o) l outs.
Proof.
  induction l as [|x r IH]; intros H.
  - exists []. split; [reflexivity|constructor].
  - destruct (H x (or_introl eq_refl)) as [o Ho].
    destruct (IH (fun y Hy => H y (or_intror Hy))) as [outs [E F]].
    exists (o :: outs). split; [|constructor; assumption].
    rewrite concatM_cons, Ho, E. reflexivity.
Qed.

Lemma kinsert_of_insert d c dbs b rows :
  insert fixed d c dbs [b] = Ok rows ->
  exists krs, kinsert d c dbs b = Ok krs /\ map snd krs = rows.
Proof.
  intros H. rewrite <- kinsert_rows in H. apply omap_ok in H. destruct H as [krs [E ->]].
  exists krs. split; [exact E|reflexivity].
Qed.

(* ================= 3. every keyed row is a row C11 speaks about ================= *)
(* RowsP.process_log_row_spec, per candidate (the index is needed here) *)
Lemma data_cells_row_spec d dbs e l srow i r fr :
  data_cells fixed (kind_is_and (d_agg d)) dbs e (l_topics l) srow i (coldefs d) 1 0 frs0 = Ok (r, fr) ->
  row_spec d e l (Some i) srow r.
Proof.
  intros Hd. apply data_cells_inv in Hd. destruct Hd as [rs [_ [L [_ Hn]]]].
  split; [rewrite L; apply coldefs_length|]. split.
  - intros pre inp post E Sel. destruct (coldefs_input_nth d pre inp post E Sel) as [N F].
    destruct (Hn _ _ N) as [v [rr [Hv [_ [Hrel _]]]]]. rewrite Hv.
    unfold data_cell_rel in Hrel. rewrite F in Hrel.
    destruct (input_coldefs_counts (d_table_cols d) pre 0) as [C1 C2]. rewrite C2 in Hrel.
    destruct (input_coldef_flags (d_table_cols d) pre inp) as [F1 F2]. rewrite F1, F2 in Hrel.
    unfold spec_input_cell. destruct (i_indexed inp) eqn:Ei2.
    + destruct Hrel as [tp [Ht ->]]. simpl in Ht. rewrite Ei2 in Ht.
      replace (1 + count i_indexed pre)%nat with (count i_indexed pre + 1)%nat by lia.
      rewrite Ht. simpl. split; [reflexivity|discriminate].
    + destruct Hrel as [c [Hc ->]]. simpl in Hc. rewrite Hc. simpl. split; [reflexivity|discriminate].
  - intros k bd Hk Hne. pose proof (coldefs_bd_nth d k bd Hk) as N.
    destruct (Hn _ _ N) as [v [rr [Hv [_ [Hrel _]]]]]. rewrite Hv.
    unfold data_cell_rel in Hrel.
    destruct (bd_coldef_flags (d_table_cols d) bd Hne) as [F1 F2]. rewrite F1, F2 in Hrel.
    simpl in Hrel. rewrite (get_field_spec bd e (Some i) v Hrel). split; [reflexivity|discriminate].
Qed.

Lemma nodata_cells_row_spec d dbs e l r fr :
  nodata_cells fixed (kind_is_and (d_agg d)) dbs e (l_topics l) (coldefs d) 0 frs0 = Ok (r, fr) ->
  row_spec d e l None [] r.
Proof.
  intros Hd. apply nodata_cells_inv in Hd. destruct Hd as [rs [_ [L [_ Hn]]]].
  split; [rewrite L; apply coldefs_length|]. split.
  - intros pre inp post E Sel. destruct (coldefs_input_nth d pre inp post E Sel) as [N F].
    destruct (Hn _ _ N) as [v [rr [Hv [_ [Hrel _]]]]]. rewrite Hv.
    unfold nodata_cell_rel in Hrel.
    destruct (input_coldef_flags (d_table_cols d) pre inp) as [F1 F2]. rewrite F1, F2 in Hrel.
    unfold spec_input_cell. destruct (i_indexed inp) eqn:Ei2.
    + destruct Hrel as [tp [Ht ->]]. simpl in Ht. rewrite Ei2 in Ht.
      replace (1 + count i_indexed pre)%nat with (count i_indexed pre + 1)%nat by lia.
      rewrite Ht. simpl. split; [reflexivity|discriminate].
    + destruct Hrel as [Hb _]. discriminate.
  - intros k bd Hk Hne. pose proof (coldefs_bd_nth d k bd Hk) as N.
    destruct (Hn _ _ N) as [v [rr [Hv [_ [Hrel _]]]]]. rewrite Hv.
    unfold nodata_cell_rel in Hrel.
    destruct (bd_coldef_flags (d_table_cols d) bd Hne) as [F1 F2]. rewrite F1 in Hrel.
    destruct Hrel as [_ Hg]. simpl in Hg.
    rewrite (get_field_spec bd e None v Hg). split; [reflexivity|discriminate].
Qed.

Lemma in_tagged {K A} (k k' : K) (x : A) rows : In (k', x) (map (pair k) rows) -> k' = k /\ In x rows.
Proof.
  intros H. apply in_map_iff in H. destruct H as [y [E Hy]]. injection E as <- <-.
  split; [reflexivity|exact Hy].
Qed.

Lemma kprocess_log_origin d dbs e l out k gr :
  kprocess_log d dbs e l = Ok out -> In (k, gr) out ->
  k_tx k = t_idx (e_t e) /\ k_log k = Some (l_idx l) /\ k_trace k = None /\ gate d l = true /\
  ((l_data l <> [] /\ exists srows i srow,
       l_scan l = Ok srows /\ nth_error srows i = Some srow /\ k_abi k = Some i
       /\ row_spec d e l (Some i) srow gr)
   \/ (l_data l = [] /\ k_abi k = None /\ row_spec d e l None [] gr)).
Proof.
  unfold kprocess_log. destruct (gate d l) eqn:G; cbn [negb];
    [|intros H Hin; injection H as <-; destruct Hin].
  destruct (l_data l) as [|x0 dd] eqn:D; cbn [is_nil negb].
  - intros H Hin. apply tagged_ok in H. destruct H as [rows [H ->]].
    apply in_tagged in Hin. destruct Hin as [-> Hin]. cbn [k_tx k_log k_abi k_trace].
    inv_bind_as H c Hc. injection H as <-. apply in_emit in Hin. destruct Hin as [-> _].
    repeat (split; [reflexivity|]). right. split; [reflexivity|]. split; [reflexivity|].
    destruct c as [cells fr]. apply (nodata_cells_row_spec _ _ _ _ _ _ Hc).
  - intros H Hin. inv_bind_as H srows Hs. apply concatM_i_inv in H.
    destruct H as [outs [-> [L Hn]]]. apply in_concat in Hin. destruct Hin as [o [Ho Hin]].
    apply In_nth_error in Ho. destruct Ho as [n Ho].
    assert (Hlt : (n < length srows)%nat) by (rewrite <- L; apply nth_error_Some; congruence).
    destruct (nth_error srows n) as [srow|] eqn:Es; [|apply nth_error_None in Es; lia].
    destruct (Hn n srow Es) as [o' [Ho' Hf]]. rewrite Ho in Ho'. injection Ho' as <-.
    cbn [Nat.add] in Hf. apply tagged_ok in Hf. destruct Hf as [rows [Hf ->]].
    apply in_tagged in Hin. destruct Hin as [-> Hin]. cbn [k_tx k_log k_abi k_trace].
    inv_bind_as Hf c Hc. injection Hf as <-. apply in_emit in Hin. destruct Hin as [-> _].
    repeat (split; [reflexivity|]). left. split; [discriminate|].
    exists srows, n, srow. repeat (split; [first [exact Hs|exact Es|reflexivity]|]).
    destruct c as [cells fr]. apply (data_cells_row_spec _ _ _ _ _ _ _ _ Hc).
Qed.

Lemma kprocess_tx_origin d dbs e out k gr :
  kprocess_tx d dbs e = Ok out -> In (k, gr) out ->
  k = Key (t_idx (e_t e)) None None (option_map ta_idx (e_ta e))
  /\ exists rows, process_tx d dbs e = Ok rows /\ In gr rows.
Proof.
  unfold kprocess_tx. intros H Hin. apply tagged_ok in H. destruct H as [rows [H ->]].
  apply in_tagged in Hin. destruct Hin as [-> Hin]. split; [reflexivity|]. exists rows. split; assumption.
Qed.

(* the block-data columns of a row satisfying row_spec hold the enclosing item's fields *)
Lemma row_spec_enclosing d c b t lo ao l io srow r :
  row_spec d (mk_env c d b t lo ao) l io srow r ->
  enclosing_fields d c b t lo ao (num_selected d) r.
Proof.
  intros [_ [_ Hbd]] k bd f Hk Hname.
  assert (Hne : bd_name bd <> []) by (rewrite Hname; apply field_name_nonempty).
  destruct (Hbd _ _ Hk Hne) as [A B].
  pose proof (spec_block_cell_field f _ _ _ _ _ _ _ _ Hname B) as Q. rewrite Q in A, B. split; assumption.
Qed.

Lemma tx_row_enclosing d c b t ao dbs rows r :
  process_tx d dbs (mk_env c d b t None ao) = Ok rows -> In r rows ->
  enclosing_fields d c b t None ao 0 r /\ length r = num_bd d.
Proof.
  intros Hp Hr. destruct (process_tx_row_spec _ _ _ _ _ Hp Hr) as [_ [Hl Hbd]]. split; [|exact Hl].
  intros k bd f Hk Hname. destruct (Hbd _ _ Hk) as [A B].
  pose proof (spec_block_cell_field f _ _ _ _ _ _ _ _ Hname B) as Q. rewrite Q in A, B. split; assumption.
Qed.

Lemma concatM_in {A B} (f : A -> outcome (list B)) l out y :
  concatM f l = Ok out -> In y out -> exists x o, In x l /\ f x = Ok o /\ In y o.
Proof.
  intros H Hy. apply concatM_inv in H. destruct H as [outs [-> F]].
  apply in_concat in Hy. destruct Hy as [o [Ho Hy]].
  destruct (Forall2_In_l _ _ _ _ F Ho) as [x [Hx Px]]. exists x, o. repeat split; assumption.
Qed.

(* every row the keyed builder emits for block [b] is, cell by cell, what the
   declaration says, and its key names the item it was built from *)
Lemma kinsert_declared d c dbs b krs k gr :
  kinsert d c dbs b = Ok krs -> In (k, gr) krs -> declared_row d c dbs b k gr.
Proof.
  unfold kinsert, declared_row. destruct (indexing fixed d); intros H Hin.
  - destruct (concatM_in _ _ _ _ H Hin) as [t [o [Ht [Ho Hy]]]].
    destruct (kprocess_tx_origin _ _ _ _ _ _ Ho Hy) as [-> [rows [Hp Hr]]].
    exists t. split; [exact Ht|]. split; [reflexivity|]. apply (tx_row_enclosing _ _ _ _ _ _ _ _ Hp Hr).
  - destruct (concatM_in _ _ _ _ H Hin) as [t [o [Ht [Ho Hy]]]].
    destruct (concatM_in _ _ _ _ Ho Hy) as [a [o' [Ha [Ho' Hy']]]].
    destruct (kprocess_tx_origin _ _ _ _ _ _ Ho' Hy') as [-> [rows [Hp Hr]]].
    exists t, a. split; [exact Ht|]. split; [exact Ha|]. split; [reflexivity|].
    apply (tx_row_enclosing _ _ _ _ _ _ _ _ Hp Hr).
  - destruct (concatM_in _ _ _ _ H Hin) as [t [o [Ht [Ho Hy]]]].
    destruct (concatM_in _ _ _ _ Ho Hy) as [l [o' [Hl [Ho' Hy']]]].
    destruct (kprocess_log_origin _ _ _ _ _ _ _ Ho' Hy') as [K1 [K2 [K3 [G X]]]].
    exists t, l. split; [exact Ht|]. split; [exact Hl|]. split; [exact K1|]. split; [exact K2|].
    split; [exact K3|]. split; [|split; [exact G|exact X]].
    destruct X as [[_ [srows [i [srow [_ [_ [_ Hs]]]]]]]|[_ [_ Hs]]];
      apply (row_spec_enclosing _ _ _ _ _ _ _ _ _ _ Hs).
Qed.

(* the key and the block number are what the unique-index columns hold *)
Lemma declared_row_key_columns d c dbs b k gr :
  declared_row d c dbs b k gr -> key_columns d b k gr.
Proof.
  unfold declared_row, key_columns. destruct (indexing fixed d) eqn:M.
  - intros [t [Ht [-> [Hf _]]]] j bd Hj. cbn [k_tx k_log k_abi k_trace].
    split; [intros Hn; apply (proj1 (Hf j bd Fblock_num Hj Hn))|].
    split; [intros Hn; apply (proj1 (Hf j bd Ftx_idx Hj Hn))|].
    split; [intros _ Hm; discriminate Hm|]. split; [intros _ Hm; discriminate Hm|].
    intros _ i Hi. discriminate Hi.
  - intros [t [a [Ht [Ha [-> [Hf _]]]]]] j bd Hj. cbn [k_tx k_log k_abi k_trace].
    split; [intros Hn; apply (proj1 (Hf j bd Fblock_num Hj Hn))|].
    split; [intros Hn; apply (proj1 (Hf j bd Ftx_idx Hj Hn))|].
    split; [intros _ Hm; discriminate Hm|].
    split; [intros Hn _; exists (ta_idx a); split; [reflexivity|apply (proj1 (Hf j bd Ftrace_action_idx Hj Hn))]|].
    intros _ i Hi. discriminate Hi.
  - intros [t [l [Ht [Hl [K1 [K2 [K3 [Hf [_ X]]]]]]]]] j bd Hj.
    split; [intros Hn; apply (proj1 (Hf j bd Fblock_num Hj Hn))|].
    split; [intros Hn; rewrite K1; apply (proj1 (Hf j bd Ftx_idx Hj Hn))|].
    split; [intros Hn _; exists (l_idx l); split; [exact K2|apply (proj1 (Hf j bd Flog_idx Hj Hn))]|].
    split; [intros _ Hm; discriminate Hm|].
    intros Hn i Hi.
    assert (Hne : bd_name bd <> []) by (rewrite Hn; discriminate).
    destruct X as [[_ [srows [i' [srow [_ [_ [Ki [_ [_ Hbd]]]]]]]]]|[_ [Ki _]]];
      [|rewrite Ki in Hi; discriminate Hi].
    rewrite Ki in Hi. injection Hi as <-. destruct (Hbd j bd Hj Hne) as [A _].
    rewrite A. unfold spec_block_cell. rewrite Hn. reflexivity.
Qed.

(* ================= 4. identity keys inside a block ================= *)
Lemma nodup_app {A} (a b : list A) :
  NoDup a -> NoDup b -> (forall x, In x a -> ~ In x b) -> NoDup (a ++ b).
Proof.
  induction a as [|x a IH]; intros Ha Hb Hd; [exact Hb|]. inversion Ha as [|? ? Hx Ha']; subst.
  cbn [app]. constructor.
  - intros Hin. apply in_app_or in Hin. destruct Hin as [Hin|Hin]; [exact (Hx Hin)|].
    exact (Hd x (or_introl eq_refl) Hin).
  - apply IH; [exact Ha'|exact Hb|]. intros y Hy. apply Hd. right. exact Hy.
Qed.

(* sequencing over items with distinct indices [kf]: if every emitted element
   remembers ([p (g y)]) the index of its item, keys stay distinct *)
Lemma concatM_nodup {A B K X} (f : A -> outcome (list B)) (g : B -> K) (p : K -> X) (kf : A -> X) l :
  forall out, concatM f l = Ok out -> NoDup (map kf l) ->
  (forall x o, In x l -> f x = Ok o -> NoDup (map g o) /\ forall y, In y o -> p (g y) = kf x) ->
  NoDup (map g out) /\ forall y, In y out -> In (p (g y)) (map kf l).
Proof.
  induction l as [|x r IH]; intros out H Hnd Hf.
  - injection H as <-. split; [constructor|intros y []].
  - rewrite concatM_cons in H. inv_bind_as H a Ha. inv_bind_as H b0 Hb. injection H as <-.
    cbn [map] in Hnd. inversion Hnd as [|? ? Hx Hnd']; subst.
    destruct (Hf x a (or_introl eq_refl) Ha) as [Na Pa].
    destruct (IH _ Hb Hnd' (fun y o Hy => Hf y o (or_intror Hy))) as [Nb Pb].
    split.
    + rewrite map_app. apply nodup_app; [exact Na|exact Nb|].
      intros z Hz Hz'. apply in_map_iff in Hz. destruct Hz as [y [<- Hy]].
      apply in_map_iff in Hz'. destruct Hz' as [y' [E Hy']].
      apply Hx. rewrite <- (Pa _ Hy), <- E. apply Pb, Hy'.
    + intros y Hy. apply in_app_or in Hy. destruct Hy as [Hy|Hy]; cbn [map].
      * left. symmetry. apply Pa, Hy.
      * right. apply Pb, Hy.
Qed.

(* the same for the indexed loop of processLog's data branch *)
Lemma concatM_i_nodup {A B K} (f : nat -> A -> outcome (list B)) (g : B -> K) (p : K -> nat) l :
  forall i out, concatM_i f i l = Ok out ->
  (forall n x o, f n x = Ok o -> NoDup (map g o) /\ forall y, In y o -> p (g y) = n) ->
  NoDup (map g out) /\ forall y, In y out -> (i <= p (g y))%nat.
Proof.
  induction l as [|x r IH]; intros i out H Hf; cbn [concatM_i] in H.
  - injection H as <-. split; [constructor|intros y []].
  - inv_bind_as H a Ha. inv_bind_as H b0 Hb. injection H as <-.
    destruct (Hf _ _ _ Ha) as [Na Pa]. destruct (IH _ _ Hb Hf) as [Nb Pb]. split.
    + rewrite map_app. apply nodup_app; [exact Na|exact Nb|].
      intros z Hz Hz'. apply in_map_iff in Hz. destruct Hz as [y [<- Hy]].
      apply in_map_iff in Hz'. destruct Hz' as [y' [E Hy']].
      pose proof (Pa _ Hy) as Q1. pose proof (Pb _ Hy') as Q2. rewrite E in Q2. lia.
    + intros y Hy. apply in_app_or in Hy. destruct Hy as [Hy|Hy].
      * rewrite (Pa _ Hy). lia.
      * pose proof (Pb _ Hy). lia.
Qed.

Lemma emit_le1 (c : list gval * frs) : emit c = [] \/ emit c = [fst c].
Proof. unfold emit. destruct (frs_accept (snd c)); [right|left]; reflexivity. Qed.

Lemma nodup_tag_emit {K} (k : K) c : NoDup (map fst (map (pair k) (emit c))).
Proof.
  destruct (emit_le1 c) as [-> | ->]; cbn [map]; [constructor|].
  constructor; [intros []|constructor].
Qed.

Lemma process_tx_le1 d dbs e rows :
  process_tx d dbs e = Ok rows -> rows = [] \/ exists r, rows = [r].
Proof.
  unfold process_tx. destruct (0 <? num_selected d)%nat; [intros H; injection H as <-; left; reflexivity|].
  destruct (0 <? num_bd d)%nat; [|intros H; injection H as <-; left; reflexivity].
  intros H. inv_bind_as H c Hc. injection H as <-.
  destruct (emit_le1 c) as [-> | ->]; [left; reflexivity|right; eexists; reflexivity].
Qed.

Definition abi_of (k : ikey) : nat := match k_abi k with Some i => i | None => O end.
Definition log_of (k : ikey) : N := match k_log k with Some i => i | None => 0 end.
Definition trace_of (k : ikey) : N := match k_trace k with Some i => i | None => 0 end.

Lemma kprocess_log_keys d dbs e l out :
  kprocess_log d dbs e l = Ok out ->
  NoDup (map fst out) /\ forall y, In y out -> log_of (fst y) = l_idx l /\ k_tx (fst y) = t_idx (e_t e).
Proof.
  intros H. split.
  - revert H. unfold kprocess_log. destruct (negb (gate d l)); [intros H; injection H as <-; constructor|].
    destruct (negb (is_nil (l_data l))).
    + intros H. inv_bind_as H srows Hs.
      refine (proj1 (concatM_i_nodup _ fst abi_of srows 0%nat out H _)).
      intros n x o Ho. apply tagged_ok in Ho. destruct Ho as [rows [Ho ->]].
      inv_bind_as Ho c Hc. injection Ho as <-. split; [apply nodup_tag_emit|].
      intros y Hy. apply in_map_iff in Hy. destruct Hy as [r [<- _]]. reflexivity.
    + intros H. apply tagged_ok in H. destruct H as [rows [H ->]].
      inv_bind_as H c Hc. injection H as <-. apply nodup_tag_emit.
  - intros [k gr] Hy. destruct (kprocess_log_origin _ _ _ _ _ _ _ H Hy) as [K1 [K2 _]].
    cbn [fst]. unfold log_of. rewrite K2. split; [reflexivity|exact K1].
Qed.

Lemma kprocess_tx_keys d dbs e out :
  kprocess_tx d dbs e = Ok out ->
  NoDup (map fst out)
  /\ forall y, In y out -> fst y = Key (t_idx (e_t e)) None None (option_map ta_idx (e_ta e)).
Proof.
  intros H. split.
  - unfold kprocess_tx in H. apply tagged_ok in H. destruct H as [rows [H ->]].
    destruct (process_tx_le1 _ _ _ _ H) as [-> | [r ->]]; cbn [map]; [constructor|].
    constructor; [intros []|constructor].
  - intros [k gr] Hy. destruct (kprocess_tx_origin _ _ _ _ _ _ H Hy) as [-> _]. reflexivity.
Qed.

(* (2) distinct identity keys inside a well-formed block *)
Lemma kinsert_keys_nodup d c dbs b krs :
  wf_items b -> kinsert d c dbs b = Ok krs -> NoDup (map fst krs).
Proof.
  intros [Htx Hit] H. unfold kinsert in H. destruct (indexing fixed d).
  - refine (proj1 (concatM_nodup _ fst k_tx t_idx (b_txs b) krs H Htx _)).
    intros t o _ Ho. destruct (kprocess_tx_keys _ _ _ _ Ho) as [Nd Hk]. split; [exact Nd|].
    intros y Hy. rewrite (Hk _ Hy). reflexivity.
  - refine (proj1 (concatM_nodup _ fst k_tx t_idx (b_txs b) krs H Htx _)).
    intros t o Ht Ho. rewrite Forall_forall in Hit. destruct (Hit _ Ht) as [_ Hta].
    destruct (concatM_nodup _ fst trace_of ta_idx (t_traces t) o Ho Hta) as [Nd Hk].
    + intros a o' _ Ho'. destruct (kprocess_tx_keys _ _ _ _ Ho') as [Nd' Hk']. split; [exact Nd'|].
      intros y Hy. rewrite (Hk' _ Hy). reflexivity.
    + split; [exact Nd|]. intros y Hy.
      destruct (concatM_in _ _ _ _ Ho Hy) as [a [o' [_ [Ho' Hy']]]].
      destruct (kprocess_tx_keys _ _ _ _ Ho') as [_ Hk']. rewrite (Hk' _ Hy'). reflexivity.
  - refine (proj1 (concatM_nodup _ fst k_tx t_idx (b_txs b) krs H Htx _)).
    intros t o Ht Ho. rewrite Forall_forall in Hit. destruct (Hit _ Ht) as [Hlg _].
    destruct (concatM_nodup _ fst log_of l_idx (t_logs t) o Ho Hlg) as [Nd Hk].
    + intros l o' _ Ho'. destruct (kprocess_log_keys _ _ _ _ _ Ho') as [Nd' Hk']. split; [exact Nd'|].
      intros y Hy. apply (Hk' _ Hy).
    + split; [exact Nd|]. intros y Hy.
      destruct (concatM_in _ _ _ _ Ho Hy) as [l [o' [_ [Ho' Hy']]]].
      destruct (kprocess_log_keys _ _ _ _ _ Ho') as [_ Hk']. apply (Hk' _ Hy').
Qed.

Lemma nodup_map_inj {A B} (f : A -> B) l :
  (forall x y, f x = f y -> x = y) -> NoDup l -> NoDup (map f l).
Proof.
  intros Hf. induction l as [|x l IH]; intros H; [constructor|].
  inversion H as [|? ? Hx Hl]; subst. cbn [map]. constructor; [|apply IH, Hl].
  intros Hin. apply in_map_iff in Hin. destruct Hin as [y [E Hy]].
  apply Hf in E. subst y. exact (Hx Hy).
Qed.

Lemma map_fst_enc_kr krs : map fst (map enc_kr krs) = map enc_key (map fst krs).
Proof. rewrite !map_map. reflexivity. Qed.

Lemma block_kv_nodup d c dbs b : wf_items b -> NoDup (map fst (block_kv d c dbs b)).
Proof.
  intros Hw. unfold block_kv, block_krows. destruct (kinsert d c dbs b) as [krs| |] eqn:E;
    try constructor.
  rewrite map_fst_enc_kr. apply nodup_map_inj; [exact enc_key_inj|].
  apply (kinsert_keys_nodup _ _ _ _ _ Hw E).
Qed.

(* ================= 5. the instantiated chain ================= *)
Section Inst.
Variable dcl : decl.
Variable ctx : ctxr.
Variable dbs : db.
Notation ichain := (inst_chain dcl ctx dbs).
Notation ifrom := (inst_from dcl ctx dbs).

Lemma inst_from_length : forall bs p, length (ifrom p bs) = length bs.
Proof. induction bs as [|b r IH]; intros p; [reflexivity|]. cbn [inst_from length]. rewrite IH. reflexivity. Qed.

Lemma inst_chain_height bs : height (ichain bs) = N.of_nat (length bs).
Proof. unfold height, inst_chain. rewrite inst_from_length. reflexivity. Qed.

Lemma bhash_id_nz b : ob (b_hash b) <> [] -> bhash_id b <> 0.
Proof. intros H E. apply hid_nil in E. exact (H E). Qed.

Lemma inst_from_wf : forall bs n p, numbered_from n bs -> wf_from n p (ifrom p bs).
Proof.
  induction bs as [|b r IH]; intros n p H; [exact I|]. destruct H as [Hn [Hh Hr]].
  cbn [inst_from wf_from inst_blk TaskTypes.b_num TaskTypes.b_hash b_parent].
  split; [exact Hn|]. split; [apply bhash_id_nz, Hh|]. split; [reflexivity|]. apply IH, Hr.
Qed.

(* the instantiated chain is a well-formed task-level chain *)
Lemma inst_chain_wf bs : rows_chain_wf bs -> wf_chain (ichain bs).
Proof.
  intros [Hne H]. destruct bs as [|b r]; [congruence|]. destruct H as [Hn [Hh Hr]].
  unfold inst_chain. cbn [inst_from wf_chain inst_blk TaskTypes.b_num TaskTypes.b_hash].
  split; [exact Hn|]. split; [apply bhash_id_nz, Hh|]. apply inst_from_wf, Hr.
Qed.

Lemma numbered_fromb_ok : forall bs n, numbered_fromb n bs = true -> numbered_from n bs.
Proof.
  induction bs as [|b r IH]; intros n H; [exact I|]. cbn [numbered_fromb] in H.
  apply andb_prop in H. destruct H as [H Hr]. apply andb_prop in H. destruct H as [Hn Hh].
  split; [apply N.eqb_eq, Hn|]. split; [|apply IH, Hr].
  intros E. rewrite E in Hh. discriminate Hh.
Qed.

(* (2) every block of the instantiated chain has distinct row keys *)
Lemma inst_from_keys : forall bs p, Forall wf_items bs ->
  forall x, In x (ifrom p bs) -> NoDup (map fst (b_rows x)).
Proof.
  induction bs as [|b r IH]; intros p Hw x Hx; [destruct Hx|]. inversion Hw as [|? ? Hb Hr]; subst.
  cbn [inst_from] in Hx. destruct Hx as [<-|Hx]; [|apply (IH _ Hr _ Hx)].
  cbn [inst_blk b_rows]. apply block_kv_nodup, Hb.
Qed.

Lemma inst_from_nums : forall bs p x, In x (ifrom p bs) ->
  exists b q, In b bs /\ x = inst_blk dcl ctx dbs q b.
Proof.
  induction bs as [|b r IH]; intros p x Hx; [destruct Hx|]. cbn [inst_from] in Hx.
  destruct Hx as [<-|Hx]; [exists b, p; split; [left; reflexivity|reflexivity]|].
  destruct (IH _ _ Hx) as [b' [q [Hb' E]]]. exists b', q. split; [right; exact Hb'|exact E].
Qed.

(* segments *)
Lemma firstn_inst : forall n bs p, firstn n (ifrom p bs) = ifrom p (firstn n bs).
Proof.
  induction n as [|n IH]; intros bs p; [reflexivity|]. destruct bs as [|b r]; [reflexivity|].
  cbn [inst_from firstn]. rewrite IH. reflexivity.
Qed.

Lemma skipn_inst : forall n bs p, exists q, skipn n (ifrom p bs) = ifrom q (skipn n bs).
Proof.
  induction n as [|n IH]; intros bs p; [exists p; reflexivity|]. destruct bs as [|b r]; [exists p; reflexivity|].
  cbn [inst_from skipn]. apply IH.
Qed.

Lemma segment_inst bs m k : exists q, segment (ichain bs) m k = ifrom q (rsegment bs m k).
Proof.
  unfold segment, rsegment, inst_chain. destruct (skipn_inst (N.to_nat m) bs 0) as [q E].
  exists q. rewrite E. apply firstn_inst.
Qed.

Lemma rsegment_incl bs m k x : In x (rsegment bs m k) -> In x bs.
Proof.
  unfold rsegment. intros H.
  rewrite <- (firstn_skipn (N.to_nat m) bs). apply in_or_app. right.
  rewrite <- (firstn_skipn (N.to_nat k) (skipn (N.to_nat m) bs)). apply in_or_app. left. exact H.
Qed.

(* projection of instantiated blocks = the declared rows *)
Lemma proj_inst (c : tcfg) hs p b :
  proj c (vblk hs (inst_blk dcl ctx dbs p b)) = declared_rows c dcl ctx dbs b.
Proof.
  unfold declared_rows, proj. destruct hs; cbn [vblk strip_parent inst_blk b_rows TaskTypes.b_num];
    unfold block_kv; rewrite map_map; reflexivity.
Qed.

Lemma rows_of_inst (c : tcfg) hs : forall bs p,
  rows_of c (view hs (ifrom p bs)) = concat (map (declared_rows c dcl ctx dbs) bs).
Proof.
  intros bs p. rewrite view_map. revert p.
  induction bs as [|b r IH]; intros p; [reflexivity|].
  cbn [inst_from map concat]. rewrite rows_of_cons, proj_inst, IH. reflexivity.
Qed.

(* per block: the declared rows are Insert's rows, keyed and encoded *)
Lemma declared_rows_block (c : tcfg) b rows :
  insert fixed dcl ctx dbs [b] = Ok rows ->
  exists krs, kinsert dcl ctx dbs b = Ok krs /\ map snd krs = rows
    /\ declared_rows c dcl ctx dbs b = map (trow_of c (b_num b)) krs.
Proof.
  intros H. destruct (kinsert_of_insert _ _ _ _ _ H) as [krs [E M]]. exists krs.
  split; [exact E|]. split; [exact M|]. unfold declared_rows, block_krows. rewrite E. reflexivity.
Qed.

Lemma declared_rows_vals (c : tcfg) b rows :
  insert fixed dcl ctx dbs [b] = Ok rows ->
  map r_val (declared_rows c dcl ctx dbs b) = map enc_row rows.
Proof.
  intros H. destruct (declared_rows_block c b rows H) as [krs [_ [<- ->]]].
  rewrite !map_map. reflexivity.
Qed.

Lemma declared_rows_vals_all (c : tcfg) : forall bs outs,
  Forall2 (fun b o => insert fixed dcl ctx dbs [b] = Ok o) bs outs ->
  map r_val (concat (map (declared_rows c dcl ctx dbs) bs)) = map enc_row (concat outs).
Proof.
  induction 1 as [|b o bs outs Hb _ IH]; [reflexivity|].
  cbn [map concat]. rewrite !map_app, IH, (declared_rows_vals c b o Hb). reflexivity.
Qed.

(* (1) on a growing chain obtained by the instantiation the table is the
   declared projection: block by block the keyed rows of the row builder, and
   as a whole the rows ONE Insert over the indexed range returns *)
Lemma declared_projection : forall rbs (c : tcfg) (d : TaskTypes.db),
  inserts_ok dcl ctx dbs rbs -> N.of_nat (length rbs) < nmax ->
  TaskInvG c (ichain rbs) d ->
  (d_rows (pv c d) = [] /\ d_curs (pv c d) = [])
  \/ exists m k n h rows,
       1 <= k /\ m + k <= N.of_nat (length rbs)
       /\ newest (t_src c) (t_ig c) (d_curs d) = Some (n, h) /\ n + 1 = m + k
       /\ d_rows (pv c d) = concat (map (declared_rows c dcl ctx dbs) (rsegment rbs m k))
       /\ insert fixed dcl ctx dbs (rsegment rbs m k) = Ok rows
       /\ map r_val (d_rows (pv c d)) = map enc_row rows.
Proof.
  intros rbs c d Hok Hsmall Hinv.
  assert (Hh : height (ichain rbs) < nmax) by (rewrite inst_chain_height; exact Hsmall).
  destruct (growth_projection c (ichain rbs) Hh d Hinv) as [L|(m & k & n & h & Hrows & Hk & Hmk & Hnew & Hn)];
    [left; exact L|right].
  rewrite inst_chain_height in Hmk.
  destruct (segment_inst rbs m k) as [q Eseg]. rewrite Eseg, rows_of_inst in Hrows.
  destruct (concatM_all_ok (fun b => insert fixed dcl ctx dbs [b]) (rsegment rbs m k)) as [outs [Eins F]].
  { intros b Hb. apply Hok. apply (rsegment_incl _ _ _ _ Hb). }
  exists m, k, n, h, (concat outs).
  split; [exact Hk|]. split; [exact Hmk|]. split; [exact Hnew|]. split; [exact Hn|].
  split; [exact Hrows|]. split; [rewrite insert_per_block; exact Eins|].
  rewrite Hrows. apply declared_rows_vals_all, F.
Qed.

(* ... hence every stored row is a row C11's theorems speak about, and nothing else is stored *)
Lemma stored_row_declared : forall rbs (c : tcfg) (d : TaskTypes.db),
  inserts_ok dcl ctx dbs rbs -> N.of_nat (length rbs) < nmax ->
  TaskInvG c (ichain rbs) d ->
  forall r, In r (d_rows (pv c d)) ->
  exists b k gr, In b rbs /\ r = trow_of c (b_num b) (k, gr) /\ declared_row dcl ctx dbs b k gr.
Proof.
  intros rbs c d Hok Hsmall Hinv r Hr.
  destruct (declared_projection rbs c d Hok Hsmall Hinv) as [[L _]|(m & k & n & h & rows & _ & _ & _ & _ & Hrows & _)].
  - rewrite L in Hr. destruct Hr.
  - rewrite Hrows in Hr. apply in_concat in Hr. destruct Hr as [rs [Hrs Hr]].
    apply in_map_iff in Hrs. destruct Hrs as [b [<- Hb]]. apply rsegment_incl in Hb.
    destruct (Hok b Hb) as [rows' Hi].
    destruct (declared_rows_block c b rows' Hi) as [krs [Ek [_ Ed]]]. rewrite Ed in Hr.
    apply in_map_iff in Hr. destruct Hr as [[k0 gr] [<- Hkr]].
    exists b, k0, gr. split; [exact Hb|]. split; [reflexivity|].
    apply (kinsert_declared _ _ _ _ _ _ _ Ek Hkr).
Qed.

(* liveness composed: fault-free steps against an honest node serving the
   instantiated chain reach the target, and the table then is the declared
   projection of the blocks up to the target *)
Lemma declared_reaches_head : forall rbs (c : tcfg),
  cfg_ok c -> rows_chain_wf rbs -> Forall wf_items rbs -> inserts_ok dcl ctx dbs rbs ->
  N.of_nat (length rbs) < nmax -> t_deps c = [] ->
  forall g (d : TaskTypes.db) ln x,
  pv c d = render c g -> wf_ghost c g -> Forall (on_chain (t_hashes c) (ichain rbs)) (concat g) ->
  blk_at (ichain rbs) ln = Some x -> at_pos c g ln -> ln < clip c (N.of_nat (length rbs) - 1) ->
  exists n m k h rows,
    (1 <= n <= N.to_nat (clip c (N.of_nat (length rbs) - 1) - ln))%nat
    /\ 1 <= k /\ m + k = clip c (N.of_nat (length rbs) - 1) + 1
    /\ newest (t_src c) (t_ig c) (d_curs (iter (hstepf c (ichain rbs)) n d))
       = Some (clip c (N.of_nat (length rbs) - 1), h)
    /\ d_rows (pv c (iter (hstepf c (ichain rbs)) n d))
       = concat (map (declared_rows c dcl ctx dbs) (rsegment rbs m k))
    /\ insert fixed dcl ctx dbs (rsegment rbs m k) = Ok rows
    /\ map r_val (d_rows (pv c (iter (hstepf c (ichain rbs)) n d))) = map enc_row rows
    /\ outside c (iter (hstepf c (ichain rbs)) n d) = outside c d.
Proof.
  intros rbs c Hc Hwf Hit Hok Hsmall Hdeps g d ln x Hpv Hw Hon Hx Hpos Hlt.
  assert (Hh : height (ichain rbs) < nmax) by (rewrite inst_chain_height; exact Hsmall).
  assert (Hkeys : forall b, In b (ichain rbs) -> NoDup (map fst (b_rows b))).
  { intros b Hb. apply (inst_from_keys rbs 0 Hit b Hb). }
  rewrite <- inst_chain_height in Hlt.
  destruct (reach_lemma c (ichain rbs) Hc (inst_chain_wf rbs Hwf) Hh Hdeps Hkeys g d ln x Hpv Hw Hon Hx Hpos Hlt)
    as (n & g' & Hn & Hpv' & Hw' & Hon' & (h & Hg') & Hout).
  rewrite inst_chain_height in Hn, Hg'.
  assert (Hinv : TaskInvG c (ichain rbs) (iter (hstepf c (ichain rbs)) n d)).
  { exists g'. split; [exact Hpv'|]. split; [exact Hw'|exact Hon']. }
  assert (Hnew : newest (t_src c) (t_ig c) (d_curs (iter (hstepf c (ichain rbs)) n d))
                 = Some (clip c (N.of_nat (length rbs) - 1), h)).
  { rewrite <- newest_pv, Hpv', <- Hg'. apply newest_render, Hw'. }
  destruct (declared_projection rbs c _ Hok Hsmall Hinv)
    as [[_ L]|(m & k & n' & h' & rows & Hk & Hmk & Hnew' & Hnn & Hrows & Hins & Hvals)].
  - exfalso. rewrite <- newest_pv, L in Hnew. discriminate Hnew.
  - rewrite Hnew in Hnew'. injection Hnew' as <- <-.
    exists n, m, k, h, rows. split; [exact Hn|]. split; [exact Hk|]. split; [lia|].
    split; [exact Hnew|]. split; [exact Hrows|]. split; [exact Hins|]. split; [exact Hvals|exact Hout].
Qed.
End Inst.

(* composition with the client bridge: BridgeClientTaskP.abs with the row
   function [rowsf_of conv ..] serves, for every client-level block [cb], the
   instantiated rows of its rows-level reading [conv cb] *)
Lemma rowsf_of_rows {CB} (conv : CB -> blockr) d c dbs cb parent :
  rowsf_of conv d c dbs cb = b_rows (inst_blk d c dbs parent (conv cb)).
Proof. reflexivity. Qed.

(* ================= 6. statements as used in Properties/C01.v ================= *)
Lemma encodings_injective :
  (forall x y, enc_key x = enc_key y -> x = y)
  /\ (forall x y : list gval, enc_row x = enc_row y -> x = y)
  /\ (forall a b, hid a = hid b -> a = b)
  /\ (forall h, hid h = 0 <-> h = []).
Proof. exact (conj enc_key_inj (conj enc_row_inj (conj hid_inj hid_nil))). Qed.

Lemma keyed_builder_is_insert :
  (forall d c dbs b, omap (map snd) (kinsert d c dbs b) = insert fixed d c dbs [b])
  /\ (forall d c dbs bs, insert fixed d c dbs bs = concatM (fun b => insert fixed d c dbs [b]) bs).
Proof. exact (conj kinsert_rows insert_per_block). Qed.

Lemma inst_from_bnums d c dbs : forall bs p,
  map TaskTypes.b_num (inst_from d c dbs p bs) = map b_num bs.
Proof.
  induction bs as [|b r IH]; intros p; [reflexivity|].
  cbn [inst_from map inst_blk TaskTypes.b_num]. rewrite IH. reflexivity.
Qed.

Lemma inst_chain_ok d c dbs bs :
  rows_chain_wf bs ->
  wf_chain (inst_chain d c dbs bs) /\ height (inst_chain d c dbs bs) = N.of_nat (length bs)
  /\ map TaskTypes.b_num (inst_chain d c dbs bs) = map b_num bs.
Proof.
  intros H. split; [apply inst_chain_wf, H|]. split; [apply inst_chain_height|].
  apply inst_from_bnums.
Qed.

(* (2) as stated in C01: keys distinct, and the block is the instantiation of
   a rows-level block of the chain (so its number is that block's number) *)
Lemma inst_keys_distinct d c dbs bs parent x :
  Forall wf_items bs -> In x (inst_from d c dbs parent bs) ->
  NoDup (map fst (b_rows x))
  /\ exists b q, In b bs /\ x = inst_blk d c dbs q b /\ TaskTypes.b_num x = b_num b.
Proof.
  intros Hw Hx. split; [apply (inst_from_keys d c dbs bs parent Hw x Hx)|].
  destruct (inst_from_nums d c dbs bs parent x Hx) as [b [q [Hb ->]]].
  exists b, q. split; [exact Hb|]. split; reflexivity.
Qed.

(* ... and it is needed: a transaction with two matching logs of the same
   log index yields two rows with one key; with the unique index present the
   COPY is refused and the step fails, leaving the database as it was *)
Lemma keys_unconditional_refuted : ~ keys_distinct_unconditional.
Proof.
  intros H. specialize (H ex_decl ex_ctx [] 0 (nth 1 ex_bad_rchain (nth 0 ex_bad_rchain
    {| b_hash := None; b_num := 0; b_time := 0; b_txs := [] |}))).
  vm_compute in H. inversion H as [|? ? Hn _]; subst. apply Hn. left. reflexivity.
Qed.

Lemma dup_keys_step_fails :
  let x := exec_honest 400 true true (inst_chain ex_decl ex_ctx [] ex_bad_rchain)
                       (converge (ex_task 1 1)) (Db [] []) None in
  r_out x = Fin OFailed /\ r_db x = Db [] [].
Proof. vm_compute. split; reflexivity. Qed.

(* the scenario: hypotheses hold, and the executable task model ends with
   exactly the expected C11 rows *)
Lemma ex_hyps :
  cfg_ok (ex_task 1 1) /\ rows_chain_wf ex_rchain /\ Forall wf_items ex_rchain
  /\ inserts_ok ex_decl ex_ctx [] ex_rchain.
Proof.
  split; [|split; [|split]].
  - unfold cfg_ok, ex_task, nmax. cbn. repeat split; try lia; try (intros []).
  - split; [discriminate|]. apply numbered_fromb_ok. vm_compute. reflexivity.
  - repeat constructor; cbn; intros F; repeat (destruct F as [F|F]; try discriminate F); exact F.
  - intros b Hb. vm_compute in Hb.
    repeat (destruct Hb as [<-|Hb]; [eexists; vm_compute; reflexivity|]). destruct Hb.
Qed.

Lemma ex_run :
  let c := ex_task 1 1 in
  let d := iter (hstepf c ex_chain) 2 (Db [] []) in
  d_rows d = map (fun x => trow_of c (fst x) (snd x)) ex_expected
  /\ d_curs d = [Cur 1 2 1 (hid [2]); Cur 1 2 2 (hid [3])]
  /\ insert fixed ex_decl ex_ctx [] (rsegment ex_rchain 1 2) = Ok (map (fun x => snd (snd x)) ex_expected).
Proof. vm_compute. repeat split; reflexivity. Qed.
