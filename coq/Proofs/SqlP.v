(* Lemmas about Model/Sql.v: every spliced value of every generated statement
   comes from a position of the configuration that is listed in [spliced];
   when CheckUserInput covers [spliced] (check_paths) an accepted
   configuration has only safe values there; safe strings contain no SQL
   metacharacter. *)
From Coq Require Import List NArith Bool String Ascii Lia.
From Shovel Require Import Base.Outcome Model.Config Model.Sql Proofs.ConfigP.
Import ListNotations.
Open Scope N_scope.

Definition spliced_paths : list string := map snd spliced.

Section Sql.
  Variable U : uni.

  (* ---- from the checks to the structural predicate ---- *)
  Definition kind_pred (k : string) (v : str) : bool :=
    if String.eqb k "checkIndexCol" then idx_ok U v else safe U v.

  Lemma checked_values_ok : forall checked c k p vs,
    check_paths checked spliced = true -> check_user_input U checked c = true ->
    In (k, p) spliced -> values_at p c = Some vs ->
    Forall (fun v => kind_pred k v = true) vs.
  Proof.
    intros checked c k p vs Hcp Hcu Hin Hv.
    unfold check_paths in Hcp. apply andb_true_iff in Hcp as [Hcp _].
    rewrite forallb_forall in Hcp. specialize (Hcp _ Hin). simpl in Hcp.
    apply existsb_exists in Hcp as [[k' p'] [Hin' Hm]]. simpl in Hm.
    apply andb_true_iff in Hm as [Hp Hk]. apply String.eqb_eq in Hp. subst p'.
    unfold check_user_input in Hcu. rewrite forallb_forall in Hcu. specialize (Hcu _ Hin').
    unfold check_one in Hcu. simpl in Hcu. rewrite Hv in Hcu.
    assert (Hkk : k = "check"%string \/ k = "checkIndexCol"%string).
    { unfold spliced in Hin. simpl in Hin.
      repeat (destruct Hin as [Hin|Hin]; [inversion Hin; auto|]). contradiction. }
    apply orb_true_iff in Hk as [Hk|Hk]; apply String.eqb_eq in Hk; subst k'.
    - simpl in Hcu. apply Forall_forall. intros v Hvin. rewrite forallb_forall in Hcu.
      specialize (Hcu v Hvin). unfold kind_pred. destruct (String.eqb k "checkIndexCol"); [|assumption].
      apply safe_idx_ok. assumption.
    - destruct Hkk as [Hkk|Hkk]; subst k; simpl in Hcu; apply Forall_forall; intros v Hvin;
        rewrite forallb_forall in Hcu; specialize (Hcu v Hvin); unfold kind_pred; simpl; assumption.
  Qed.

  Lemma Forall_flat_map_map : forall {A B C} (P : C -> Prop) (f : A -> list B) (h : B -> C) (l : list A),
    Forall P (flat_map (fun a => map h (f a)) l) -> forall a, In a l -> Forall (fun b => P (h b)) (f a).
  Proof.
    intros A B C P f h l H a Ha. apply Forall_forall. intros b Hb. rewrite Forall_forall in H. apply H.
    apply in_flat_map. exists a. split; auto. apply in_map. assumption.
  Qed.
  Lemma Forall_flat_map_concat : forall {A C} (P : C -> Prop) (f : A -> list (list C)) (l : list A),
    Forall P (flat_map (fun a => List.concat (f a)) l) -> forall a, In a l -> Forall (Forall P) (f a).
  Proof.
    intros A C P f l H a Ha. apply Forall_forall. intros x Hx. apply Forall_forall. intros y Hy.
    rewrite Forall_forall in H. apply H. apply in_flat_map. exists a. split; auto.
    apply in_concat. exists x. split; assumption.
  Qed.
  Lemma Forall_map_iff : forall {A B} (P : B -> Prop) (f : A -> B) (l : list A),
    Forall P (map f l) -> Forall (fun a => P (f a)) l.
  Proof. intros. apply Forall_map. assumption. Qed.

  Theorem checked_cfg_safe : forall checked c,
    check_paths checked spliced = true -> check_user_input U checked c = true -> SafeCfg U c.
  Proof.
    intros checked c Hcp Hcu.
    pose proof (fun k p vs Hin Hv => checked_values_ok checked c k p vs Hcp Hcu Hin Hv) as HK.
    assert (Hsrc := HK "check"%string P_src _ ltac:(simpl; auto) eq_refl).
    assert (Hig := HK "check"%string P_ig _ ltac:(simpl; auto) eq_refl).
    assert (Htn := HK "check"%string P_tn _ ltac:(simpl; auto) eq_refl).
    assert (Hcn := HK "check"%string P_cn _ ltac:(simpl; auto 10) eq_refl).
    assert (Hct := HK "check"%string P_ct _ ltac:(simpl; auto 10) eq_refl).
    assert (Hun := HK "check"%string P_un _ ltac:(simpl; auto 10) eq_refl).
    assert (Hix := HK "checkIndexCol"%string P_ix _ ltac:(simpl; auto 10) eq_refl).
    assert (Hirt := HK "check"%string P_irt _ ltac:(simpl; auto 12) eq_refl).
    assert (Hirc := HK "check"%string P_irc _ ltac:(simpl; auto 12) eq_refl).
    assert (Hbrt := HK "check"%string P_brt _ ltac:(simpl; auto 14) eq_refl).
    assert (Hbrc := HK "check"%string P_brc _ ltac:(simpl; auto 14) eq_refl).
    unfold kind_pred in *. simpl in *.
    split; [exact Hsrc|]. apply Forall_forall. intros g Hg.
    apply Forall_map_iff in Hig. apply Forall_map_iff in Htn.
    rewrite Forall_forall in Hig, Htn.
    repeat split.
    - apply Hig. assumption.
    - apply Htn. assumption.
    - pose proof (Forall_flat_map_map _ _ _ _ Hcn g Hg) as H1.
      pose proof (Forall_flat_map_map _ _ _ _ Hct g Hg) as H2.
      apply Forall_forall. intros x Hx. rewrite Forall_forall in H1, H2. split; auto.
    - exact (Forall_flat_map_concat _ _ _ Hun g Hg).
    - exact (Forall_flat_map_concat _ _ _ Hix g Hg).
    - pose proof (Forall_flat_map_map _ _ _ _ Hirt g Hg) as H1.
      pose proof (Forall_flat_map_map _ _ _ _ Hirc g Hg) as H2.
      apply Forall_forall. intros x Hx. rewrite Forall_forall in H1, H2. split; auto.
    - pose proof (Forall_flat_map_map _ _ _ _ Hbrt g Hg) as H1.
      pose proof (Forall_flat_map_map _ _ _ _ Hbrc g Hg) as H2.
      apply Forall_forall. intros x Hx. rewrite Forall_forall in H1, H2. split; auto.
  Qed.

  (* the converse direction used for "rejected before any SQL": an unsafe
     value at a spliced position makes CheckUserInput fail *)
  Theorem unsafe_value_rejected : forall checked c k p vs v,
    check_paths checked spliced = true -> In (k, p) spliced -> values_at p c = Some vs ->
    In v vs -> kind_pred k v = false -> check_user_input U checked c = false.
  Proof.
    intros checked c k p vs v Hcp Hin Hv Hvin Hbad.
    destruct (check_user_input U checked c) eqn:Hcu; [|reflexivity].
    pose proof (checked_values_ok _ _ _ _ _ Hcp Hcu Hin Hv) as H.
    rewrite Forall_forall in H. rewrite (H v Hvin) in Hbad. discriminate.
  Qed.

  (* ---- every piece of every statement ---- *)
  Definition piece_ok (pc : piece) : Prop :=
    match pc with
    | Lit _ => True
    | Splice p v => safe U v = true /\ In p spliced_paths
    end.
  Definition stmt_ok (s : stmt) : Prop := Forall piece_ok (st_text s).

  Lemma join_ok : forall sep l, Forall piece_ok sep -> Forall (Forall piece_ok) l ->
    Forall piece_ok (join sep l).
  Proof.
    intros sep. induction l as [|x l IH]; intros Hs Hl; simpl; [constructor|].
    apply Forall_cons_iff in Hl as [Hx Hl]. destruct l as [|y l]; [assumption|].
    apply Forall_app. split; [assumption|]. apply Forall_app. split; [assumption|]. apply IH; assumption.
  Qed.
  Lemma close_list_ok : forall l, Forall (Forall piece_ok) l -> Forall piece_ok (close_list l).
  Proof.
    intros l H. unfold close_list. destruct (is_nil l); [constructor|].
    apply Forall_app. split; [apply join_ok; [repeat constructor|assumption]|repeat constructor].
  Qed.
  Lemma Forall_map_intro : forall {A B} (P : B -> Prop) (f : A -> B) (l : list A),
    (forall a, In a l -> P (f a)) -> Forall P (map f l).
  Proof. intros. apply Forall_forall. intros b Hb. apply in_map_iff in Hb as [a [Ha Hin]]. subst. auto. Qed.

  Ltac in_spliced := unfold spliced_paths, spliced; simpl; auto 15.
  Ltac solve_pieces :=
    repeat match goal with
    | |- Forall stmt_ok [] => apply Forall_nil
    | |- Forall piece_ok [] => apply Forall_nil
    | |- Forall piece_ok (_ :: _) => apply Forall_cons
    | |- piece_ok (Lit _) => exact I
    | |- piece_ok dq => exact I
    | |- piece_ok (L _) => exact I
    | |- piece_ok (Splice _ _) => split; [try assumption | try (in_spliced)]
    end.

  Lemma quote_pieces_ok : forall res p v, safe U v = true -> In p spliced_paths ->
    Forall piece_ok (quote_pieces res p v).
  Proof.
    intros. unfold quote_pieces. destruct (is_reserved res v); solve_pieces.
  Qed.

  Lemma replace_sp_safe : forall s, safe U s = true -> safe U (replace_sp s) = true.
  Proof.
    intros s H. unfold safe, replace_sp in *. rewrite forallb_forall in *. intros c Hc.
    apply in_map_iff in Hc as [c0 [Hc0 Hin]]. destruct (c0 =? 32) eqn:E; subst c.
    - unfold ident_char. simpl. rewrite orb_true_r. reflexivity.
    - apply H. assumption.
  Qed.

  Lemma create_table_ok : forall res t, SafeTable U t -> stmt_ok (create_table res t).
  Proof.
    intros res t [Htn [Hc _]]. unfold stmt_ok, create_table. simpl.
    constructor; [exact I|]. constructor; [split; [assumption|in_spliced]|]. constructor; [exact I|].
    apply close_list_ok. apply Forall_map_intro. intros c Hin. rewrite Forall_forall in Hc.
    destruct (Hc c Hin) as [Hn Ht]. apply Forall_app. split.
    - apply quote_pieces_ok; [assumption|in_spliced].
    - constructor; [exact I|]. constructor; [split; [assumption|in_spliced]|constructor].
  Qed.

  Lemma create_unique_ok : forall res t cols, SafeTable U t -> Forall (fun s => safe U s = true) cols ->
    stmt_ok (create_unique res t cols).
  Proof.
    intros res t cols [Htn _] Hcols. unfold stmt_ok, create_unique. simpl.
    constructor; [exact I|]. constructor; [split; [assumption|in_spliced]|]. constructor; [exact I|].
    constructor; [split; [assumption|in_spliced]|]. constructor; [exact I|].
    apply close_list_ok. apply Forall_map_intro. intros c Hin. rewrite Forall_forall in Hcols.
    apply quote_pieces_ok; [auto|in_spliced].
  Qed.

  Lemma create_index_ok : forall res t cols, SafeTable U t -> Forall (fun e => idx_ok U e = true) cols ->
    stmt_ok (create_index res t cols).
  Proof.
    intros res t cols [Htn _] Hcols. unfold stmt_ok, create_index. rewrite Forall_forall in Hcols.
    apply Forall_app. split; [repeat constructor|]. apply Forall_app. split.
    - apply join_ok; [repeat constructor|]. apply Forall_map_intro. intros e Hin.
      unfold idx_name_part. constructor; [|repeat constructor].
      split; [apply replace_sp_safe; apply (Hcols e Hin)|in_spliced].
    - apply Forall_app. split.
      + constructor; [exact I|]. constructor; [split; [assumption|in_spliced]|repeat constructor].
      + apply close_list_ok. apply Forall_map_intro. intros e Hin. unfold quote_idx.
        assert (Hs : piece_ok (Splice P_ix (fst (idx_split e)))) by (split; [apply (Hcols e Hin)|in_spliced]).
        destruct (is_reserved res e); solve_pieces; apply Hs.
  Qed.

  Lemma ddl_ok : forall res t, SafeTable U t -> Forall stmt_ok (ddl res t).
  Proof.
    intros res t Ht. unfold ddl. destruct (is_nil (t_cols t)); [constructor|].
    constructor; [apply create_table_ok; assumption|]. pose proof Ht as [Htn [Hc [Hu Hix]]].
    rewrite Forall_forall in Hu, Hix.
    apply Forall_app. split; apply Forall_map_intro; intros cols Hin.
    - apply create_unique_ok; [exact Ht|]. apply Hu. assumption.
    - apply create_index_ok; [exact Ht|]. apply Hix. assumption.
  Qed.

  Lemma alter_add_ok : forall res t c, SafeTable U t -> SafeCol U c -> stmt_ok (alter_add res t c).
  Proof.
    intros res t c [Htn _] [Hn Ht]. unfold stmt_ok, alter_add. simpl.
    constructor; [exact I|]. constructor; [split; [assumption|in_spliced]|]. constructor; [exact I|].
    apply Forall_app. split; [apply quote_pieces_ok; [assumption|in_spliced]|].
    constructor; [exact I|]. constructor; [split; [assumption|in_spliced]|constructor].
  Qed.

  Lemma migrate_sql_ok : forall res t, SafeTable U t -> Forall stmt_ok (migrate_sql res t).
  Proof.
    intros res t Ht. unfold migrate_sql.
    assert (Ha : Forall stmt_ok (map (alter_add res t) (t_cols t))).
    { apply Forall_map_intro. intros c Hin. apply alter_add_ok; [assumption|].
      destruct Ht as [_ [Hc _]]. rewrite Forall_forall in Hc. auto. }
    assert (Hq : stmt_ok diff_query) by (unfold stmt_ok, diff_query; simpl; solve_pieces).
    pose proof (ddl_ok res t Ht) as Hd. destruct (ddl res t) as [|ct ixs].
    - constructor; assumption.
    - apply Forall_cons_iff in Hd as [Hct Hix]. constructor; [assumption|]. constructor; [assumption|].
      apply Forall_app. split; assumption.
  Qed.

  Lemma delete_sql_ok : forall t, SafeTable U t -> stmt_ok (delete_sql t).
  Proof.
    intros t [Htn _]. unfold stmt_ok, delete_sql. simpl.
    constructor; [exact I|]. constructor; [exact I|]. constructor; [split; [assumption|in_spliced]|].
    repeat constructor.
  Qed.

  Lemma accept_sql_ok : forall pt pc f, SafeFilter U f -> In pt spliced_paths -> In pc spliced_paths ->
    Forall stmt_ok (accept_sql pt pc f).
  Proof.
    intros pt pc f [Ht Hc] Hpt Hpc. unfold accept_sql.
    destruct (_ && _); [constructor|]. destruct (_ && _); [|constructor].
    constructor; [|constructor]. unfold stmt_ok. simpl.
    constructor; [exact I|]. constructor; [split; assumption|]. constructor; [exact I|].
    constructor; [split; assumption|]. repeat constructor.
  Qed.

  Lemma get_col_safe : forall t name, SafeTable U t -> safe U (get_col t name) = true.
  Proof.
    intros t name [_ [Hc _]]. unfold get_col.
    destruct (find _ (t_cols t)) as [c|] eqn:Hf; [|reflexivity].
    apply find_some in Hf as [Hin _]. rewrite Forall_forall in Hc. apply (Hc c Hin).
  Qed.

  Lemma written_columns_safe : forall g, SafeTable U (ig_table g) ->
    Forall (fun s => safe U s = true) (written_columns g).
  Proof.
    intros g Ht. unfold written_columns. apply Forall_app.
    split; apply Forall_map_intro; intros; apply get_col_safe; assumption.
  Qed.

  Lemma qid_ok : forall p v, safe U v = true -> In p spliced_paths -> Forall piece_ok (qid p v).
  Proof. intros. unfold qid. solve_pieces. Qed.

  Lemma qid_cols_ok : forall g, SafeTable U (ig_table g) ->
    Forall piece_ok (join [L ", "] (map (qid P_cn) (written_columns g))).
  Proof.
    intros g Ht. apply join_ok; [repeat constructor|]. apply Forall_map_intro. intros c Hin.
    pose proof (written_columns_safe g Ht) as H. rewrite Forall_forall in H.
    apply qid_ok; [auto|in_spliced].
  Qed.

  Lemma copy_describe_ok : forall g, SafeTable U (ig_table g) -> stmt_ok (copy_describe g).
  Proof.
    intros g Ht. unfold stmt_ok, copy_describe. simpl. constructor; [exact I|].
    apply Forall_app. split; [apply qid_cols_ok; assumption|]. constructor; [exact I|].
    apply qid_ok; [apply Ht|in_spliced].
  Qed.
  Lemma copy_sql_ok : forall g, SafeTable U (ig_table g) -> stmt_ok (copy_sql g).
  Proof.
    intros g Ht. unfold stmt_ok, copy_sql, qid. simpl.
    constructor; [exact I|]. constructor; [exact I|]. constructor; [split; [apply Ht|in_spliced]|].
    constructor; [exact I|]. constructor; [exact I|].
    apply Forall_app. split; [apply qid_cols_ok; assumption|solve_pieces].
  Qed.

  Lemma notify_sql_ok : forall src g, safe U src = true -> safe U (ig_name g) = true ->
    Forall stmt_ok (notify_sql src g).
  Proof.
    intros src g Hs Hn. unfold notify_sql. destruct (is_nil (ig_notif g)); [constructor|].
    constructor; [|constructor]. unfold stmt_ok. simpl.
    constructor; [exact I|]. constructor; [split; [assumption|in_spliced]|]. constructor; [exact I|].
    constructor; [split; [assumption|in_spliced]|]. repeat constructor.
  Qed.

  Lemma app_name_sql_ok : forall ver src g, safe U src = true -> safe U (ig_name g) = true ->
    stmt_ok (app_name_sql ver src g).
  Proof.
    intros ver src g Hs Hn. unfold stmt_ok, app_name_sql. simpl.
    constructor; [exact I|]. constructor; [split; [assumption|in_spliced]|]. constructor; [exact I|].
    constructor; [split; [assumption|in_spliced]|]. repeat constructor.
  Qed.

  Lemma accepts_of_ok : forall g, SafeIg U g -> Forall stmt_ok (accepts_of g).
  Proof.
    intros g [_ [_ [Hi Hb]]]. unfold accepts_of. apply Forall_app. split.
    - apply Forall_forall. intros s Hs. apply in_flat_map in Hs as [i [Hin Hs]].
      apply selected_sub in Hin. rewrite Forall_forall in Hi. specialize (Hi i Hin).
      pose proof (accept_sql_ok P_irt P_irc (i_flt i) Hi ltac:(in_spliced) ltac:(in_spliced)) as H.
      rewrite Forall_forall in H. auto.
    - apply Forall_forall. intros s Hs. apply in_flat_map in Hs as [b [Hin Hs]].
      rewrite Forall_forall in Hb. specialize (Hb b Hin).
      pose proof (accept_sql_ok P_brt P_brc (bd_flt b) Hb ltac:(in_spliced) ltac:(in_spliced)) as H.
      rewrite Forall_forall in H. auto.
  Qed.

  Lemma task_conn_sql_ok : forall src g, safe U src = true -> SafeIg U g ->
    Forall stmt_ok (task_conn_sql src g).
  Proof.
    intros src g Hs Hg. pose proof Hg as [Hn [Ht _]]. unfold task_conn_sql.
    apply Forall_app. split; [constructor; [apply delete_sql_ok; assumption|constructor]|].
    apply Forall_app. split; [apply accepts_of_ok; assumption|]. apply Forall_app. split.
    - constructor; [apply copy_describe_ok; assumption|]. constructor; [apply copy_sql_ok; assumption|constructor].
    - apply notify_sql_ok; assumption.
  Qed.

  Lemma running_sql_ok : forall srcs igs, Forall (fun s => safe U s = true) srcs -> Forall (SafeIg U) igs ->
    Forall stmt_ok (running_sql srcs igs).
  Proof.
    intros srcs igs Hs Hi. unfold running_sql. destruct (load_ok srcs igs) eqn:Hl; [|constructor].
    unfold load_ok in Hl. rewrite forallb_forall in Hl. rewrite Forall_forall in Hs, Hi.
    apply Forall_forall. intros st Hst. apply in_flat_map in Hst as [g [Hg Hst]].
    apply in_flat_map in Hst as [s [Hin Hst]]. unfold refs_of in Hin.
    specialize (Hl g Hg). destruct (ig_enabled g); [|contradiction]. simpl in Hl.
    rewrite forallb_forall in Hl. pose proof (mem_In _ _ (Hl s Hin)) as Hm.
    pose proof (task_conn_sql_ok s g (Hs s Hm) (Hi g Hg)) as H. rewrite Forall_forall in H. auto.
  Qed.

  Lemma take_while_sub : forall {A} (p : A -> bool) l x, In x (take_while p l) -> In x l /\ p x = true.
  Proof.
    induction l as [|y l IH]; simpl; intros x H; [contradiction|]. destruct (p y) eqn:E; [|contradiction].
    destruct H as [H|H]; [subst; auto|]. destruct (IH x H). auto.
  Qed.

  Theorem all_sql_file_ok : forall res ver c, SafeCfg U c -> Forall stmt_ok (all_sql_file res ver c).
  Proof.
    intros res ver c [Hs Hi]. unfold all_sql_file. apply Forall_app. split; [|apply Forall_app; split].
    - apply Forall_forall. intros st Hst. apply in_flat_map in Hst as [g [Hg Hst]].
      rewrite Forall_forall in Hi. destruct (Hi g Hg) as [_ [Ht _]].
      pose proof (migrate_sql_ok res _ Ht) as H. rewrite Forall_forall in H. auto.
    - apply Forall_forall. intros st Hst. apply in_flat_map in Hst as [g [Hg Hst]].
      apply in_map_iff in Hst as [s [Hst Hin]]. subst st. apply filter_In in Hin as [_ Hm].
      rewrite Forall_forall in Hs, Hi. apply app_name_sql_ok; [apply Hs; apply mem_In; exact Hm|apply (Hi g Hg)].
    - apply running_sql_ok; assumption.
  Qed.

  Theorem all_sql_dash_ok : forall ver srcs g, Forall (fun s => safe U s = true) srcs -> SafeIg U g ->
    Forall stmt_ok (all_sql_dash ver srcs g).
  Proof.
    intros ver srcs g Hs Hg. unfold all_sql_dash. apply Forall_app. split.
    - apply Forall_forall. intros st Hst. apply in_map_iff in Hst as [s [Hst Hin]]. subst st.
      apply take_while_sub in Hin as [_ Hm]. rewrite Forall_forall in Hs.
      apply app_name_sql_ok; [apply Hs; apply mem_In; exact Hm|apply Hg].
    - apply running_sql_ok; [assumption|]. constructor; [assumption|constructor].
  Qed.

  Lemma stmt_ok_splice : forall l st p v, Forall stmt_ok l -> In st l -> In (Splice p v) (st_text st) ->
    safe U v = true /\ In p spliced_paths.
  Proof.
    intros l st p v Hl Hst Hp. rewrite Forall_forall in Hl. specialize (Hl st Hst).
    unfold stmt_ok in Hl. rewrite Forall_forall in Hl. exact (Hl _ Hp).
  Qed.

  (* ---- file path ---- *)
  Theorem file_splices_safe : forall G res ver c c',
    ascii_ok U -> gen_ascii G = true -> check_paths (g_checked G) spliced = true ->
    validate_fix U G c = Some c' ->
    forall st p v, In st (all_sql_file res ver c') -> In (Splice p v) (st_text st) ->
    safe U v = true /\ In p spliced_paths.
  Proof.
    intros G res ver c c' HA HG Hcp Hv st p v Hst Hp.
    assert (Hc : SafeCfg U c) by (eapply checked_cfg_safe; [eassumption|eapply validate_fix_checked; eassumption]).
    assert (Hc' : SafeCfg U c') by (eapply validate_fix_safe; [apply gen_ascii_safe; eassumption|eassumption|eassumption]).
    eapply stmt_ok_splice; [apply all_sql_file_ok; eassumption|eassumption|eassumption].
  Qed.

  (* ---- dashboard path: CheckUserInput only ---- *)
  Theorem dash_splices_safe : forall checked ver srcs g,
    check_paths checked spliced = true ->
    check_user_input U checked (root_of g) = true -> Forall (fun s => safe U s = true) srcs ->
    forall st p v, In st (all_sql_dash ver srcs g) -> In (Splice p v) (st_text st) ->
    safe U v = true /\ In p spliced_paths.
  Proof.
    intros checked ver srcs g Hcp Hcu Hs st p v Hst Hp.
    pose proof (checked_cfg_safe _ _ Hcp Hcu) as [_ Hi]. simpl in Hi.
    apply Forall_cons_iff in Hi as [Hg _].
    eapply stmt_ok_splice; [apply all_sql_dash_ok; eassumption|eassumption|eassumption].
  Qed.

  (* ---- a configuration with an unsafe value at a spliced position is rejected ---- *)
  Theorem file_unsafe_rejected : forall G c k p vs v,
    check_paths (g_checked G) spliced = true -> In (k, p) spliced -> values_at p c = Some vs ->
    In v vs -> kind_pred k v = false -> validate_fix U G c = None.
  Proof.
    intros G c k p vs v Hcp Hin Hv Hvin Hbad. unfold validate_fix.
    rewrite (unsafe_value_rejected _ _ _ _ _ _ Hcp Hin Hv Hvin Hbad). reflexivity.
  Qed.

  (* ---- safe strings contain no SQL metacharacter ---- *)
  Definition uni_ok : Prop :=
    forall c, In c metachars -> is_letter U c = false /\ is_digit U c = false.

  Theorem safe_no_metachar_lemma : forall s, uni_ok -> safe U s = true ->
    forall c, In c s -> ~ In c metachars.
  Proof.
    intros s HU Hs c Hc Hm. unfold safe in Hs. rewrite forallb_forall in Hs. specialize (Hs c Hc).
    destruct (HU c Hm) as [Hl Hd]. unfold ident_char in Hs. rewrite Hl, Hd in Hs. simpl in Hs.
    apply orb_true_iff in Hs as [Hs|Hs]; apply N.eqb_eq in Hs; subst c;
      unfold metachars in Hm; simpl in Hm;
      repeat (destruct Hm as [Hm|Hm]; [discriminate|]); contradiction.
  Qed.
End Sql.
