(* C14 — the instance for the tables regenerated from the source, and the
   refutation for the tables and the dispatch as found. *)
From Coq Require Import List String Bool.
From Shovel Require Import Model.Plan Model.Provides Model.PlanCheck Proofs.PlanP Gen.GlfTables Gen.GetFields Gen.FetchFills Gen.GetDispatch.
Import ListNotations.
Open Scope string_scope.

(* The full statement of C14 for a planner (tables, steps) and a dispatch *)
Definition C14_full (T : tables) (steps : list step) (disp : flags -> list fetch)
           (P : string -> list fetch) (names : list field) : Prop :=
  forall m S, incl S names -> mode_ok m S ->
  forall f, In f S -> supplied_b P (disp (new T steps (needs_of m S))) m f = true.

Lemma check_plan_gives_full : forall T steps disp P names,
  check_plan T steps disp P names = true -> C14_full T steps disp P names.
Proof. intros T steps disp P names H m S Hi Hm f Hf. eapply check_plan_sound_l; eauto. Qed.

(* the dispatch and the provides-relation REGENERATED from the source of this run *)
Definition disp_gen : flags -> list fetch := dispatch_of get_dispatch.
Definition provides_gen : string -> list fetch := provides_of fetch_fills.

(* The hand-written [dispatch] (Model/Plan.v) and [provides] (Model/Provides.v) were compared with the
   generated ones on /repo eb0d25d (all 32 flag combinations; every case label of get): equal.  They
   now serve only the statements about the code AS FOUND below. *)

(* the planner as found (shovel/glf/filter.go before fixes/C14-1) *)
Definition legacy_tables : tables := {|
  t_header := ["block_hash"; "block_num"; "block_time"];
  t_block := ["block_hash"; "block_num"; "block_time"; "tx_hash"; "tx_idx"; "tx_nonce"; "tx_signer"; "tx_to";
              "tx_input"; "tx_value"; "tx_type"; "tx_max_priority_fee_per_gas"; "tx_max_fee_per_gas"];
  t_receipt := ["block_hash"; "block_num"; "tx_hash"; "tx_idx"; "tx_signer"; "tx_to"; "tx_type"; "tx_status";
                "tx_gas_used"; "tx_contract_address"; "log_addr"; "log_idx"];
  t_log := ["block_hash"; "block_num"; "tx_hash"; "tx_idx"; "log_addr"; "log_idx"];
  t_trace := ["trace_action_call_type"; "trace_action_from"; "trace_action_to"; "trace_action_value"]
|}.
Definition legacy_steps : list step := [
  mkStep TReceipt [TBlock; TLog] FReceipts TReceipt;
  mkStep TLog [TBlock] FLogs TLog;
  mkStep TTrace [TBlock] FTraces TTrace;
  mkStep TBlock [THeader] FBlocks TBlock;
  mkStep THeader [] FHeaders THeader
].

Definition f_egp := mkField "tx_effective_gas_price" IReceipt "Receipt.EffectiveGasPrice".
Definition f_gp := mkField "tx_gas_price" ITx "Tx.GasPrice".
Definition f_status := mkField "tx_status" IReceipt "Receipt.Status".
Definition f_tfrom := mkField "trace_action_from" ITrace "TraceAction.From".
Definition f_tidx := mkField "trace_action_idx" ITrace "TraceAction.Idx".
Definition f_addr := mkField "log_addr" ILog "Log.Address".

(* tx_effective_gas_price alone: blocks are fetched, receipts are not *)
Lemma legacy_egp_not_fetched :
  dispatch (new legacy_tables legacy_steps (needs_of MTx [f_egp])) = [GBlocks]
  /\ supplied_b provides (dispatch (new legacy_tables legacy_steps (needs_of MTx [f_egp]))) MTx f_egp = false.
Proof. split; vm_compute; reflexivity. Qed.

(* tx_gas_price next to a receipt-only field: receipts are fetched, blocks are not *)
Lemma legacy_gas_price_not_fetched :
  dispatch (new legacy_tables legacy_steps (needs_of MTx [f_gp; f_status])) = [GNumbers; GReceipts]
  /\ supplied_b provides (dispatch (new legacy_tables legacy_steps (needs_of MTx [f_gp; f_status]))) MTx f_gp = false.
Proof. split; vm_compute; reflexivity. Qed.

(* tx_gas_price with an event: eth_getLogs only *)
Lemma legacy_gas_price_with_event :
  dispatch (new legacy_tables legacy_steps (needs_of MLog [f_gp; f_addr])) = [GNumbers; GLogs]
  /\ supplied_b provides (dispatch (new legacy_tables legacy_steps (needs_of MLog [f_gp; f_addr]))) MLog f_gp = false.
Proof. split; vm_compute; reflexivity. Qed.

(* trace_action_idx alone: no table lists it, no trace is fetched, no row exists *)
Lemma legacy_trace_idx_alone :
  supplied_b provides (dispatch (new legacy_tables legacy_steps (needs_of MTrace [f_tidx]))) MTrace f_tidx = false.
Proof. vm_compute. reflexivity. Qed.

(* a receipt-only field next to a trace field: the plan has receipts AND traces, Get (as found) requests receipts only;
   with the repaired dispatch the same plan is served *)
Lemma legacy_receipts_and_traces :
  let fl := new glf_tables glf_steps (needs_of MTrace [f_status; f_tfrom]) in
  use_receipts fl = true /\ use_traces fl = true
  /\ legacy_dispatch fl = [GNumbers; GReceipts]
  /\ supplied_b provides (legacy_dispatch fl) MTrace f_tfrom = false
  /\ supplied_b provides (dispatch fl) MTrace f_tfrom = true.
Proof. vm_compute. repeat split; reflexivity. Qed.

Lemma in_get_fields : forall f, existsb (fun g => String.eqb (f_name f) (f_name g) && iclass_eqb (f_class f) (f_class g)
                                                 && String.eqb (f_acc f) (f_acc g)) get_fields = true -> In f get_fields.
Proof.
  intros [n c a] H. apply existsb_exists in H. destruct H as [[n' c' a'] [Hin He]]. simpl in He.
  apply andb_true_iff in He. destruct He as [He H3]. apply andb_true_iff in He. destruct He as [H1 H2].
  apply String.eqb_eq in H1. apply String.eqb_eq in H3. apply iclass_eqb_eq in H2. subst. exact Hin.
Qed.

Lemma C14_legacy_tables_refuted : ~ C14_full legacy_tables legacy_steps dispatch provides get_fields.
Proof.
  intros H. assert (Hin : In f_egp get_fields) by (apply in_get_fields; vm_compute; reflexivity).
  specialize (H MTx [f_egp]).
  assert (Hi : incl [f_egp] get_fields) by (intros x [Hx|[]]; subst; exact Hin).
  assert (Hm : mode_ok MTx [f_egp]) by (split; [intros x [Hx|[]]; subst; reflexivity | discriminate]).
  specialize (H Hi Hm f_egp (or_introl eq_refl)). destruct legacy_egp_not_fetched as [_ E]. congruence.
Qed.

Lemma C14_legacy_dispatch_refuted : ~ C14_full glf_tables glf_steps legacy_dispatch provides get_fields.
Proof.
  intros H.
  assert (Hin1 : In f_status get_fields) by (apply in_get_fields; vm_compute; reflexivity).
  assert (Hin2 : In f_tfrom get_fields) by (apply in_get_fields; vm_compute; reflexivity).
  specialize (H MTrace [f_status; f_tfrom]).
  assert (Hi : incl [f_status; f_tfrom] get_fields) by (intros x [Hx|[Hx|[]]]; subst; assumption).
  assert (Hm : mode_ok MTrace [f_status; f_tfrom]).
  { split; [intros x [Hx|[Hx|[]]]; subst; reflexivity|]. intros _. exists f_tfrom. split; [right; left; reflexivity | reflexivity]. }
  specialize (H Hi Hm f_tfrom (or_intror (or_introl eq_refl))).
  destruct legacy_receipts_and_traces as [_ [_ [_ [E _]]]]. congruence.
Qed.

(* the checker itself finds them: it rejects the tables as found *)
Lemma checker_rejects_legacy_tables : check_plan legacy_tables legacy_steps dispatch provides get_fields = false.
Proof. vm_compute. reflexivity. Qed.
