(* The system invariant: in every state of every interleaved run of several
   tasks with pairwise distinct (source, integration) pairs -- any schedule,
   any faults, forced dependency readings, crashes -- EVERY task's TaskInv
   holds.  Composition of the single-task invariant (Proofs/TaskInvP.v) with
   the frame (Proofs/C04P.v) through the observation that what a step does to
   its own pair depends on the rest of the database only through the
   dependency readings, which the single-task logic allows to be anything. *)
From Coq Require Import List NArith Bool Lia.
From Shovel Require Import Model.TaskTypes Model.TaskDb Model.Task Model.TaskNode Model.TaskSys
  Model.TaskSpec Proofs.TaskArithP Proofs.TaskDbP Proofs.TaskExecP Proofs.TaskLoadP Proofs.TaskInvP
  Proofs.TaskStepP Proofs.C04P Proofs.C02P.
Import ListNotations.
Open Scope N_scope.

Arguments N.add : simpl never.
Arguments N.leb : simpl never.
Arguments N.eqb : simpl never.

(* ---------- what a keyed op answers depends on the pair view only ---------- *)
Lemma existsb_filter_imp : forall {A} (f q : A -> bool) l,
  (forall y, f y = true -> q y = true) -> existsb f l = existsb f (filter q l).
Proof.
  intros A f q l H. induction l as [|x l IH]; [reflexivity|]. cbn [existsb filter].
  destruct (q x) eqn:Q; cbn [existsb]; [rewrite IH; reflexivity|].
  destruct (f x) eqn:F; [rewrite (H x F) in Q; discriminate|exact IH].
Qed.

Lemma existsb_ext_in' : forall {A} (f g : A -> bool) l,
  (forall x, In x l -> f x = g x) -> existsb f l = existsb g l.
Proof.
  intros A f g l H. induction l as [|x l IH]; [reflexivity|]. cbn [existsb].
  rewrite (H x (or_introl eq_refl)), IH; [reflexivity|]. intros y Hy. apply H. right. exact Hy.
Qed.

Lemma count_filter_imp : forall {A} (p q : A -> bool) l,
  (forall y, p y = true -> q y = true) -> count p l = count p (filter q l).
Proof. intros A p q l H. unfold count. rewrite (filter_imp p q l H). reflexivity. Qed.

Section Det.
Variable u : bool.
Variable c : tcfg.
Notation s0 := (t_src c).
Notation i0 := (t_ig c).

Lemma vis_pv : forall d d' cs, cs_own c cs -> pv c d' = pv c d -> pv c (vis d' cs) = pv c (vis d cs).
Proof.
  intros d d' cs Hown E. destruct cs as [ws|]; cbn [vis]; [|exact E].
  rewrite !pv_apply_ws_own by exact Hown. rewrite E. reflexivity.
Qed.

Lemma do_write_pv : forall d d' cs w, own_wop c w -> pv c d' = pv c d ->
  snd (do_write d' cs w) = snd (do_write d cs w)
  /\ pv c (fst (do_write d' cs w)) = pv c (fst (do_write d cs w)).
Proof.
  intros d d' cs w Hw E. unfold do_write. destruct cs as [ws|]; cbn [fst snd].
  - split; [reflexivity|exact E].
  - split; [reflexivity|]. rewrite !pv_apply_own by exact Hw. rewrite E. reflexivity.
Qed.

Lemma curs_pv : forall d d', pv c d' = pv c d ->
  filter (cur_of s0 i0) (d_curs d') = filter (cur_of s0 i0) (d_curs d).
Proof. intros d d' E. apply (f_equal d_curs) in E. exact E. Qed.
Lemma rows_pv : forall d d', pv c d' = pv c d ->
  filter (row_of s0 i0) (d_rows d') = filter (row_of s0 i0) (d_rows d).
Proof. intros d d' E. apply (f_equal d_rows) in E. exact E. Qed.

Definition same3 (t t' : db * cstate * reply) : Prop :=
  snd t' = snd t /\ snd (fst t') = snd (fst t) /\ pv c (fst (fst t')) = pv c (fst (fst t)).

(* every keyed database op except the dependency query *)
Lemma db_step_pv : forall d d' cs o,
  keyed c o -> (forall s deps, o <> QLatestDep s deps) -> cs_own c cs -> pv c d' = pv c d ->
  same3 (db_step u d cs o) (db_step u d' cs o).
Proof.
  intros d d' cs o Hk Hnd Hown E. pose proof (vis_pv d d' cs Hown E) as Ev.
  pose proof (curs_pv _ _ Ev) as Ec. pose proof (rows_pv _ _ Ev) as Er.
  unfold same3. destruct o; cbn [db_step]; cbn [fst snd]; try (split; [reflexivity|split; [reflexivity|exact E]]).
  - (* Commit *) split; [reflexivity|split; [reflexivity|exact Ev]].
  - (* QLatest *) destruct Hk as [-> ->]. split; [|split; [reflexivity|exact E]].
    unfold newest. rewrite Ec. reflexivity.
  - (* QLatestDep *) exfalso. eapply Hnd. reflexivity.
  - (* DelCursors *) destruct Hk as [-> ->].
    assert (Hw : own_wop c (WDelCur s0 i0 n)) by (cbn; split; reflexivity).
    destruct (do_write_pv d d' cs _ Hw E) as [A B].
    destruct (do_write d cs (WDelCur s0 i0 n)) as [x1 x2], (do_write d' cs (WDelCur s0 i0 n)) as [y1 y2].
    cbn [fst snd] in *. split; [|split; [exact A|exact B]]. f_equal.
    rewrite (count_filter_imp (del_cur_p s0 i0 n) (cur_of s0 i0) (d_curs (vis d' cs))),
            (count_filter_imp (del_cur_p s0 i0 n) (cur_of s0 i0) (d_curs (vis d cs))), Ec; [reflexivity| |];
      intros y Hy; unfold del_cur_p in Hy; apply andb_prop in Hy; apply Hy.
  - (* QPrev *) destruct Hk as [-> ->]. split; [|split; [reflexivity|exact E]].
    unfold newest. rewrite Ec. reflexivity.
  - (* DelRows *) destruct Hk as (-> & -> & ->).
    assert (Hw : own_wop c (WDelRows (t_tbl c) s0 i0 n)) by (cbn; split; reflexivity).
    destruct (do_write_pv d d' cs _ Hw E) as [A B].
    destruct (do_write d cs (WDelRows (t_tbl c) s0 i0 n)) as [x1 x2],
             (do_write d' cs (WDelRows (t_tbl c) s0 i0 n)) as [y1 y2].
    cbn [fst snd] in *. split; [|split; [exact A|exact B]]. f_equal.
    rewrite (count_filter_imp (del_row_p (t_tbl c) s0 i0 n) (row_of s0 i0) (d_rows (vis d' cs))),
            (count_filter_imp (del_row_p (t_tbl c) s0 i0 n) (row_of s0 i0) (d_rows (vis d cs))), Er; [reflexivity| |];
      intros y Hy; unfold del_row_p in Hy; apply andb_prop in Hy; destruct Hy as [Hy _];
      apply andb_prop in Hy; apply Hy.
  - (* CopyRows *) destruct Hk as [-> Hr].
    assert (Hw : own_wop c (WCopy rows)).
    { cbn. eapply Forall_impl; [|exact Hr]. cbn. intros r (_ & A & B). apply row_of_stamped; assumption. }
    assert (Hcol : copy_collides (d_rows (vis d' cs)) rows = copy_collides (d_rows (vis d cs)) rows).
    { unfold copy_collides. f_equal. apply existsb_ext_in'. intros x Hx.
      rewrite Forall_forall in Hr. destruct (Hr x Hx) as (_ & A & B).
      rewrite (existsb_filter_imp (same_ukey x) (row_of s0 i0) (d_rows (vis d' cs))),
              (existsb_filter_imp (same_ukey x) (row_of s0 i0) (d_rows (vis d cs))), Er; [reflexivity| |];
        intros y Hy; unfold same_ukey in Hy; unfold row_of;
        repeat (apply andb_prop in Hy; destruct Hy as [Hy ?]);
        match goal with H1 : (r_src x =? r_src y) = true, H2 : (r_ig x =? r_ig y) = true |- _ =>
          apply N.eqb_eq in H1, H2; rewrite <- H1, <- H2, A, B, !N.eqb_refl; reflexivity end. }
    rewrite Hcol. destruct (u && copy_collides (d_rows (vis d cs)) rows); cbn [fst snd].
    + split; [reflexivity|split; [reflexivity|exact E]].
    + destruct (do_write_pv d d' cs _ Hw E) as [A B].
      destruct (do_write d cs (WCopy rows)) as [x1 x2], (do_write d' cs (WCopy rows)) as [y1 y2].
      cbn [fst snd] in *. split; [reflexivity|split; [exact A|exact B]].
  - (* InsCursor *) destruct Hk as [A0 B0].
    assert (Hw : own_wop c (WInsCur c0)) by (cbn; unfold cur_of; rewrite A0, B0, !N.eqb_refl; reflexivity).
    assert (Hcol : cur_collides (d_curs (vis d' cs)) c0 = cur_collides (d_curs (vis d cs)) c0).
    { unfold cur_collides. rewrite A0, B0.
      rewrite (existsb_filter_imp _ (cur_of s0 i0) (d_curs (vis d' cs))),
              (existsb_filter_imp _ (cur_of s0 i0) (d_curs (vis d cs))), Ec; [reflexivity| |];
        intros y Hy; apply andb_prop in Hy; apply Hy. }
    rewrite Hcol. destruct (cur_collides (d_curs (vis d cs)) c0); cbn [fst snd].
    + split; [reflexivity|split; [reflexivity|exact E]].
    + destruct (do_write_pv d d' cs _ Hw E) as [A B].
      destruct (do_write d cs (WInsCur c0)) as [x1 x2], (do_write d' cs (WInsCur c0)) as [y1 y2].
      cbn [fst snd] in *. split; [reflexivity|split; [exact A|exact B]].
  - (* QRef *) destruct Hk.
Qed.

(* the answer to give at [d] so that the op behaves as it did at [d'] under
   [a']: the same, except that a dependency reading the database produced at
   [d'] is forced at [d] *)
Definition mirror (d' : db) (cs : cstate) (o : io) (a' : ans) : ans :=
  match o with
  | QLatestDep _ _ =>
      match a' with
      | AReply (RFail _) | AReply (RDep _) | ACrash => a'
      | _ => AReply (snd (db_step u d' cs o))
      end
  | _ => a'
  end.

Lemma mirror_nocrash : forall d' cs o a', a' <> ACrash -> mirror d' cs o a' <> ACrash.
Proof.
  intros d' cs o a' H. unfold mirror. destruct o; try exact H.
  destruct a' as [|r|]; try discriminate; [|congruence]. destruct r; try discriminate; exact H.
Qed.

Lemma fault_pv : forall d d' cs o k,
  keyed c o -> cs_own c cs -> pv c d' = pv c d ->
  same3 (fault u d cs o k) (fault u d' cs o k).
Proof.
  intros d d' cs o k Hk Hown E. unfold same3, fault. destruct k.
  - destruct o; cbn [fst snd]; (split; [reflexivity|split; [reflexivity|exact E]]).
  - cbn [fst snd]. split; [reflexivity|split; [reflexivity|exact E]].
  - assert (Hs : pv c (fst (fst (db_step u d' cs o))) = pv c (fst (fst (db_step u d cs o)))).
    { destruct o; try (apply (db_step_pv d d' cs _ Hk); [discriminate|exact Hown|exact E]).
      cbn [db_step fst]. exact E. }
    destruct (db_step u d cs o) as [[x1 x2] x3], (db_step u d' cs o) as [[y1 y2] y3]. cbn [fst snd] in *.
    split; [reflexivity|split; [reflexivity|exact Hs]].
  - destruct o; cbn [fst snd]; (split; [reflexivity|split; [reflexivity|exact E]]).
  - destruct o; cbn [fst snd]; (split; [reflexivity|split; [reflexivity|exact E]]).
Qed.

Lemma step_op_pv : forall d d' cs o a', a' <> ACrash ->
  keyed c o -> cs_own c cs -> pv c d' = pv c d ->
  same3 (step_op u d cs o (mirror d' cs o a')) (step_op u d' cs o a').
Proof.
  intros d d' cs o a' Hnc Hk Hown E.
  destruct (is_db_op o) eqn:Hdb.
  2:{ unfold step_op, mirror. rewrite Hdb. destruct o; try discriminate;
        (destruct a'; cbn [fst snd]; (split; [reflexivity|split; [reflexivity|exact E]])). }
  assert (Hnd : (forall s deps, o <> QLatestDep s deps) \/ exists s deps, o = QLatestDep s deps).
  { destruct o; try (left; discriminate). right. eauto. }
  destruct Hnd as [Hnd|(s & deps & ->)].
  - assert (Em : mirror d' cs o a' = a') by (unfold mirror; destruct o; try reflexivity; exfalso; eapply Hnd; reflexivity).
    rewrite Em. unfold step_op. rewrite Hdb.
    assert (Ef : forced_dep o a' = None).
    { unfold forced_dep. destruct a' as [|r|]; try reflexivity. destruct r; try reflexivity.
      destruct o; try reflexivity. exfalso. eapply Hnd. reflexivity. }
    rewrite Ef. destruct a' as [|r|]; try (apply db_step_pv; assumption).
    destruct r; try (apply db_step_pv; assumption). apply fault_pv; assumption.
  - unfold step_op, mirror. cbn [is_db_op].
    destruct a' as [|r|].
    + cbn [forced_dep db_step snd fst]. split; [reflexivity|split; [reflexivity|exact E]].
    + destruct r; cbn [forced_dep db_step snd fst];
        try (split; [reflexivity|split; [reflexivity|exact E]]).
      apply fault_pv; assumption.
    + congruence.
Qed.
End Det.

(* ---------- the logic: monotone in the invariant, closed under own moves,
   insensitive to what happens outside the pair ---------- *)
Notation SAall := (fun _ : ans => True).

Lemma safe_mono : forall u (I I' : db -> Prop) G SA p d cs (Q Q' : post),
  (forall x, I x -> I' x) -> (forall o x y, Q o x y -> Q' o x y) ->
  safe u I G SA p d cs Q -> safe u I' G SA p d cs Q'.
Proof.
  intros u I I' G SA p d cs Q Q' HI HQ H s Hsa Ht. destruct (H s Hsa Ht) as (A & B & C).
  split; [eapply Forall_impl; [|exact A]; intros e; apply HI|]. split; [apply HI; exact B|].
  intros o E. apply HQ. apply C. exact E.
Qed.

Lemma safe_now : forall u I G SA p d cs Q, safe u I G SA p d cs Q -> I d.
Proof.
  intros u I G SA p d cs Q H. destruct (H [] (Forall_nil _)) as (_ & B & _).
  - destruct p; constructor.
  - destruct p; exact B.
Qed.

Lemma safe_ret_inv : forall u I G SA o d cs (Q : post), safe u I G SA (Ret o) d cs Q -> Q o d cs.
Proof.
  intros u I G SA o d cs Q H. destruct (H [] (Forall_nil _)) as (_ & _ & C); [constructor|].
  apply (C o). reflexivity.
Qed.

(* one own move *)
Lemma safe_step : forall u I G SA i k d cs Q a,
  safe u I G SA (Op i k) d cs Q -> a <> ACrash -> SA a -> G i (snd (step_op u d cs i a)) ->
  safe u I G SA (k (snd (step_op u d cs i a))) (fst (fst (step_op u d cs i a)))
       (snd (fst (step_op u d cs i a))) Q.
Proof.
  intros u I G SA i k d cs Q a H Ha Hsa Hg s Hs Ht.
  assert (Ht' : trace_sat G (exec u (Op i k) (a :: s) d cs)).
  { rewrite exec_op by exact Ha. cbn zeta. unfold trace_sat. cbn [r_trace]. constructor; [exact Hg|exact Ht]. }
  destruct (H (a :: s) (Forall_cons _ Hsa Hs) Ht') as (A & B & C).
  rewrite exec_op in A, B, C by exact Ha. cbn zeta in A, B, C. cbn [r_trace r_db r_out r_cs] in A, B, C.
  inversion A as [|? ? _ A']; subst. split; [exact A'|]. split; [exact B|exact C].
Qed.

Section Transfer.
Variable u : bool.
Variable c : tcfg.
Variable I : db -> Prop.
Variable G : io -> reply -> Prop.
Variable Q : post.
Hypothesis I_pv : forall x y, pv c x = pv c y -> I x -> I y.
Hypothesis Q_pv : forall o x y cs, pv c x = pv c y -> Q o x cs -> Q o y cs.

(* what a keyed program does is the same, up to the pair view, from any two
   databases with the same pair view: safety transfers *)
Lemma safe_pv : forall s' p d d' cs,
  all_ops (keyed c) p -> cs_own c cs -> pv c d' = pv c d ->
  safe u I G SAall p d cs Q ->
  trace_sat G (exec u p s' d' cs) ->
  Forall (fun e => I (snd e)) (r_trace (exec u p s' d' cs))
  /\ I (r_db (exec u p s' d' cs))
  /\ forall o, r_out (exec u p s' d' cs) = Fin o ->
               Q o (r_db (exec u p s' d' cs)) (r_cs (exec u p s' d' cs)).
Proof.
  induction s' as [|a' s' IH]; intros p d d' cs Hk Hown E Hs Ht.
  - pose proof (safe_now _ _ _ _ _ _ _ _ Hs) as Hi. destruct p as [o|i k]; cbn.
    + split; [constructor|]. split; [apply (I_pv d d'); [symmetry; exact E|exact Hi]|].
      intros o' Eo. inversion Eo; subst. apply (Q_pv o' d d'); [symmetry; exact E|].
      apply (safe_ret_inv _ _ _ _ _ _ _ _ Hs).
    + split; [constructor|]. split; [apply (I_pv d d'); [symmetry; exact E|exact Hi]|discriminate].
  - pose proof (safe_now _ _ _ _ _ _ _ _ Hs) as Hi. destruct p as [o|i k].
    + cbn. split; [constructor|]. split; [apply (I_pv d d'); [symmetry; exact E|exact Hi]|].
      intros o' Eo. inversion Eo; subst. apply (Q_pv o' d d'); [symmetry; exact E|].
      apply (safe_ret_inv _ _ _ _ _ _ _ _ Hs).
    + destruct (match a' with ACrash => true | _ => false end) eqn:Ea.
      { destruct a'; try discriminate. rewrite exec_crash. cbn.
        split; [constructor|]. split; [apply (I_pv d d'); [symmetry; exact E|exact Hi]|discriminate]. }
      assert (Hna : a' <> ACrash) by (destruct a'; congruence).
      destruct Hk as [Hki Hkk].
      rewrite exec_op in * by exact Hna. cbn zeta in *. cbn [r_trace r_db r_out r_cs] in *.
      unfold trace_sat in Ht. cbn [r_trace] in Ht. inversion Ht as [|? ? Hg Hrest]; subst. cbn [fst snd] in Hg.
      destruct (step_op_pv u c d d' cs i a' Hna Hki Hown E) as (R1 & R2 & R3).
      set (a := mirror u d' cs i a') in *.
      assert (Hna2 : a <> ACrash) by (apply mirror_nocrash; exact Hna).
      rewrite R1 in Hg.
      pose proof (safe_step _ _ _ _ _ _ _ _ _ a Hs Hna2 Logic.I Hg) as Hs1.
      destruct (step_op_frame u c d cs i a Hki Hown) as [_ Hown1].
      rewrite <- R1, <- R2 in Hs1.
      assert (Hown1' : cs_own c (snd (fst (step_op u d' cs i a')))) by (rewrite R2; exact Hown1).
      destruct (IH (k (snd (step_op u d' cs i a'))) _ _ _ (Hkk _) Hown1' R3 Hs1 Hrest) as (A & B & C).
      split; [|split; [exact B|exact C]].
      constructor; [|exact A]. cbn [snd].
      apply (I_pv (fst (fst (step_op u d cs i a)))); [symmetry; exact R3|].
      apply (safe_now _ _ _ _ _ _ _ _ Hs1).
Qed.
End Transfer.

(* ---------- the system invariant ---------- *)
Definition Qclosed : post := fun _ _ cs => cs = None.

Definition task_good (d : db) (t : tstate) : Prop :=
  cfg_ok (ts_cfg t) /\ cs_own (ts_cfg t) (ts_cs t)
  /\ match ts_prog t with
     | None => ts_cs t = None /\ TaskInv (ts_cfg t) d
     | Some p => all_ops (keyed (ts_cfg t)) p
                 /\ safe (t_uniq (ts_cfg t)) (TaskInv (ts_cfg t)) reply_ok SAall p d (ts_cs t) Qclosed
     end.

Lemma TaskInv_pv : forall c x y, pv c x = pv c y -> TaskInv c x -> TaskInv c y.
Proof. intros c x y E (g & Hp & Hw). exists g. split; [rewrite <- E; exact Hp|exact Hw]. Qed.

Lemma task_good_inv : forall d t, task_good d t -> TaskInv (ts_cfg t) d.
Proof.
  intros d t (_ & _ & H). destruct (ts_prog t); [|apply H].
  destruct H as [_ H]. apply (safe_now _ _ _ _ _ _ _ _ H).
Qed.

Lemma task_good_ok : forall d t, task_good d t -> ts_ok t.
Proof.
  intros d t (_ & Hown & H). split; [exact Hown|]. destruct (ts_prog t); [apply H|exact I].
Qed.

(* a state change that leaves the task's pair alone *)
Lemma task_good_pv : forall d d' t, pv (ts_cfg t) d' = pv (ts_cfg t) d -> task_good d t -> task_good d' t.
Proof.
  intros d d' t E (Hc & Hown & H). split; [exact Hc|]. split; [exact Hown|].
  destruct (ts_prog t) as [p|].
  - destruct H as [Hk Hs]. split; [exact Hk|]. intros s _ Ht.
    apply (safe_pv (t_uniq (ts_cfg t)) (ts_cfg t) (TaskInv (ts_cfg t)) reply_ok Qclosed
                   (TaskInv_pv (ts_cfg t)) (fun _ _ _ _ _ H => H) s p d d' (ts_cs t) Hk Hown E Hs Ht).
  - destruct H as [A B]. split; [exact A|]. apply (TaskInv_pv _ d d'); [symmetry; exact E|exact B].
Qed.

Lemma converge_safe : forall c d, cfg_ok c -> TaskInv c d ->
  safe (t_uniq c) (TaskInv c) reply_ok SAall (converge c) d None Qclosed.
Proof.
  intros c d Hc (g & Hpv & Hw).
  pose proof (S_converge c reply_ok SAall True Tr Tr2 Tr1 TrG g (outside c d) d Hc
                (fun _ _ H => H) (fun _ _ _ => forall_true _) (fun _ _ _ => I) (fun _ _ _ _ => I)
                (cfg_self c Hc) (fun _ _ => I) (fun _ _ _ _ _ _ _ _ _ _ _ _ _ => I)
                eq_refl Hpv (W_true c g Hw)) as HS.
  eapply safe_mono; [| |exact HS].
  - intros x. apply Inv_TaskInv.
  - intros o x y Hq. apply Hq.
Qed.

(* the task that moves *)
Lemma task_move_good : forall d a t, a <> ACrash -> task_good d t ->
  match ts_prog t with
  | Some (Op i k) => reply_ok i (snd (step_op (t_uniq (ts_cfg t)) d (ts_cs t) i a))
  | _ => True
  end ->
  task_good (fst (task_move d a t)) (snd (task_move d a t)).
Proof.
  intros d a t Ha (Hc & Hown & H) Hr. unfold task_move. destruct (ts_prog t) as [[o|i k]|].
  - destruct H as [_ Hs]. cbn [fst snd]. split; [exact Hc|]. split; [exact Hown|]. cbn [ts_prog ts_cs ts_cfg].
    split; [apply (safe_ret_inv _ _ _ _ _ _ _ _ Hs)|apply (safe_now _ _ _ _ _ _ _ _ Hs)].
  - destruct H as [[Hki Hkk] Hs].
    pose proof (safe_step _ _ _ _ _ _ _ _ _ a Hs Ha I Hr) as Hs1.
    destruct (step_op_frame (t_uniq (ts_cfg t)) (ts_cfg t) d (ts_cs t) i a Hki Hown) as [_ Hown1].
    destruct (step_op (t_uniq (ts_cfg t)) d (ts_cs t) i a) as [[d1 cs1] r]. cbn [fst snd] in *.
    split; [exact Hc|]. split; [exact Hown1|]. cbn [ts_prog ts_cs ts_cfg]. split; [apply Hkk|exact Hs1].
  - destruct H as [Hn Hi]. cbn [fst snd]. split; [exact Hc|]. split; [exact Hown|]. cbn [ts_prog ts_cs ts_cfg].
    split; [apply K_converge|]. rewrite Hn. apply converge_safe; assumption.
Qed.

Definition pairs (ts : list tstate) : list (N * N) := map (fun t => pair_of (ts_cfg t)) ts.

Lemma move_task_good : forall tid a ts d, a <> ACrash ->
  Forall (task_good d) ts -> NoDup (pairs ts) ->
  (forall t, In t ts -> t_id (ts_cfg t) = tid ->
     match ts_prog t with
     | Some (Op i k) => reply_ok i (snd (step_op (t_uniq (ts_cfg t)) d (ts_cs t) i a))
     | _ => True
     end) ->
  Forall (task_good (fst (move_task tid a d ts))) (snd (move_task tid a d ts)).
Proof.
  intros tid a ts. induction ts as [|t ts IH]; intros d Ha Hg Hnd Hr; [constructor|].
  inversion Hg as [|? ? Ht Hts]; subst. inversion Hnd as [|? ? Hnin Hnd']; subst.
  cbn [move_task]. destruct (N.eqb_spec (t_id (ts_cfg t)) tid) as [E|E].
  - pose proof (task_move_good d a t Ha Ht (Hr t (or_introl eq_refl) E)) as Hm.
    destruct (task_move_ok d a t Ha (task_good_ok _ _ Ht)) as (_ & Hcfg & Hout).
    destruct (task_move d a t) as [d1 t1]. cbn [fst snd] in *.
    constructor; [exact Hm|].
    apply Forall_forall. intros t2 Ht2. rewrite Forall_forall in Hts.
    apply (task_good_pv d d1 t2); [|apply Hts; exact Ht2].
    assert (Hne : (t_src (ts_cfg t), t_ig (ts_cfg t)) <> (t_src (ts_cfg t2), t_ig (ts_cfg t2))).
    { intros Eq. apply Hnin. unfold pairs. apply in_map_iff. exists t2. split; [symmetry; exact Eq|exact Ht2]. }
    unfold pv. rewrite <- (restrict_outside (ts_cfg t) _ _ d1 Hne), Hout. apply restrict_outside. exact Hne.
  - assert (Hok : Forall ts_ok ts) by (eapply Forall_impl; [|exact Hts]; intros x; apply task_good_ok).
    destruct (move_task_ok tid a ts d Ha Hok) as (_ & _ & Hfr).
    specialize (IH d Ha Hts Hnd' (fun t2 H2 => Hr t2 (or_intror H2))).
    destruct (move_task tid a d ts) as [d1 ts1]. cbn [fst snd] in *.
    constructor; [|exact IH].
    apply (task_good_pv d d1 t); [|exact Ht]. unfold pv. apply Hfr.
    intros t2 Ht2 _ Eq. apply Hnin. unfold pairs. apply in_map_iff. exists t2. split; [exact Eq|exact Ht2].
Qed.

Definition sys_good (st : sys) : Prop :=
  Forall (task_good (s_db st)) (s_tasks st) /\ NoDup (pairs (s_tasks st)).

Lemma pairs_cfg : forall ts ts', map ts_cfg ts' = map ts_cfg ts -> pairs ts' = pairs ts.
Proof.
  intros ts ts' E. unfold pairs. rewrite <- (map_map ts_cfg pair_of ts'), <- (map_map ts_cfg pair_of ts), E.
  reflexivity.
Qed.

Lemma sys_step_good : forall st m, sys_good st -> move_ok st m -> sys_good (sys_step st m).
Proof.
  intros st [tid a] [Hg Hnd] Hm. unfold move_ok in Hm. cbn [fst snd] in Hm.
  destruct (match a with ACrash => true | _ => false end) eqn:Ea.
  - destruct a; try discriminate. unfold sys_step. cbn [snd s_db s_tasks]. split.
    + unfold crash_all. apply Forall_forall. intros t Ht. apply in_map_iff in Ht.
      destruct Ht as (t0 & <- & Ht0). rewrite Forall_forall in Hg. pose proof (Hg t0 Ht0) as H0.
      destruct H0 as (Hc & _ & _). split; [exact Hc|]. split; [exact I|]. cbn [ts_prog ts_cs ts_cfg].
      split; [reflexivity|apply task_good_inv; apply Hg; exact Ht0].
    + cbn [s_tasks]. rewrite (pairs_cfg (s_tasks st)); [exact Hnd|]. unfold crash_all. rewrite map_map. reflexivity.
  - assert (Hna : a <> ACrash) by (destruct a; congruence).
    destruct Hm as [Hm|Hm]; [congruence|].
    assert (E : sys_step st (tid, a)
                = Sys (fst (move_task tid a (s_db st) (s_tasks st))) (snd (move_task tid a (s_db st) (s_tasks st)))).
    { unfold sys_step. cbn [fst snd]. destruct a; try discriminate;
        destruct (move_task tid _ (s_db st) (s_tasks st)); reflexivity. }
    rewrite E. split; cbn [s_db s_tasks].
    + apply move_task_good; assumption.
    + assert (Hok : Forall ts_ok (s_tasks st)) by (eapply Forall_impl; [|exact Hg]; intros x; apply task_good_ok).
      destruct (move_task_ok tid a (s_tasks st) (s_db st) Hna Hok) as (_ & Hcfg & _).
      rewrite (pairs_cfg _ _ Hcfg). exact Hnd.
Qed.

(* every state of every run *)
Lemma sys_states_good : forall sch st, sys_good st -> sched_ok sch st ->
  Forall sys_good (sys_states sch st).
Proof.
  induction sch as [|m sch IH]; intros st Hg Hs; cbn [sys_states]; [constructor; [exact Hg|constructor]|].
  destruct Hs as [Hm Hs]. constructor; [exact Hg|]. apply IH; [apply sys_step_good; assumption|exact Hs].
Qed.

Lemma sys_init_good : forall cfgs d,
  Forall cfg_ok cfgs -> NoDup (map pair_of cfgs) -> Forall (fun c => TaskInv c d) cfgs ->
  sys_good (sys_init cfgs d).
Proof.
  intros cfgs d Hc Hnd Hi. unfold sys_good, sys_init. cbn [s_db s_tasks]. split.
  - apply Forall_forall. intros t Ht. apply in_map_iff in Ht. destruct Ht as (c & <- & Hin).
    rewrite Forall_forall in Hc, Hi. split; [apply Hc; exact Hin|]. split; [exact I|].
    cbn [ts_prog ts_cs ts_cfg]. split; [reflexivity|apply Hi; exact Hin].
  - unfold pairs. rewrite map_map. cbn [ts_cfg]. exact Hnd.
Qed.

(* THE SYSTEM INVARIANT *)
Lemma system_inv_lemma : forall cfgs d sch,
  Forall cfg_ok cfgs -> NoDup (map pair_of cfgs) -> Forall (fun c => TaskInv c d) cfgs ->
  sched_ok sch (sys_init cfgs d) ->
  forall st, In st (sys_states sch (sys_init cfgs d)) ->
  forall c, In c cfgs -> TaskInv c (s_db st).
Proof.
  intros cfgs d sch Hc Hnd Hi Hs st Hst c Hin.
  pose proof (sys_states_good sch _ (sys_init_good cfgs d Hc Hnd Hi) Hs) as Hall.
  rewrite Forall_forall in Hall. destruct (Hall st Hst) as [Hg _].
  (* the configurations of the tasks never change *)
  assert (Hcfg : forall sch0 st0 st1, In st1 (sys_states sch0 st0) -> sys_ok st0 ->
                   map ts_cfg (s_tasks st1) = map ts_cfg (s_tasks st0)).
  { induction sch0 as [|m sch0 IH0]; intros st0 st1 H1 Hok; cbn [sys_states] in H1.
    - destruct H1 as [<-|[]]. reflexivity.
    - destruct H1 as [<-|H1]; [reflexivity|].
      destruct (sys_step_ok st0 m Hok) as (A & B & _). rewrite (IH0 _ _ H1 A). exact B. }
  pose proof (Hcfg sch _ st Hst (sys_init_ok cfgs d)) as E.
  unfold sys_init in E. cbn [s_tasks] in E. rewrite map_map in E. cbn [ts_cfg] in E. rewrite map_id in E.
  assert (Hc_in : In c (map ts_cfg (s_tasks st))) by (rewrite E; exact Hin).
  apply in_map_iff in Hc_in. destruct Hc_in as (t & <- & Ht).
  rewrite Forall_forall in Hg. apply task_good_inv. apply Hg. exact Ht.
Qed.
