(* Proofs about the segment cache model (Model/Cache.v). *)
From Coq Require Import List NArith Bool Arith Lia ZifyBool ZifyN ZifyNat.
From Shovel Require Import Model.Cache.
Import ListNotations.
Open Scope N_scope.

(* ---------- small list facts ---------- *)
Lemma nth_error_upd_eq {A} (l : list A) i x :
  (i < length l)%nat -> nth_error (upd l i x) i = Some x.
Proof.
  revert i; induction l as [|y r IH]; intros [|i] H; simpl in *; try lia; auto.
  apply IH; lia.
Qed.

Lemma nth_error_upd_neq {A} (l : list A) i j x :
  i <> j -> nth_error (upd l i x) j = nth_error l j.
Proof.
  revert i j; induction l as [|y r IH]; intros [|i] [|j] H; simpl; auto; try congruence.
Qed.

Lemma length_upd {A} (l : list A) i x : length (upd l i x) = length l.
Proof. revert i; induction l as [|y r IH]; intros [|i]; simpl; auto. Qed.

Lemma nth_error_lt {A} (l : list A) i x : nth_error l i = Some x -> (i < length l)%nat.
Proof. intros H. apply nth_error_Some. congruence. Qed.

Lemma remove_one_spec x l l' :
  remove_one x l = Some l' ->
  count_occ Nat.eq_dec l x = S (count_occ Nat.eq_dec l' x)
  /\ (forall y, y <> x -> count_occ Nat.eq_dec l y = count_occ Nat.eq_dec l' y)
  /\ length l = S (length l')
  /\ (forall y, In y l' -> In y l)
  /\ In x l.
Proof.
  revert l'; induction l as [|y r IH]; intros l' H; simpl in H; [discriminate|].
  destruct (Nat.eqb x y) eqn:E.
  - apply Nat.eqb_eq in E; subst y. inversion H; subst l'. simpl.
    destruct (Nat.eq_dec x x); [|congruence].
    split; [reflexivity|]. split.
    { intros z Hz. destruct (Nat.eq_dec x z); congruence. }
    split; [reflexivity|]. split; [intros z Hz; right; exact Hz|left; reflexivity].
  - apply Nat.eqb_neq in E.
    destruct (remove_one x r) as [r'|] eqn:R; [|discriminate].
    inversion H; subst l'. destruct (IH r' eq_refl) as (H1 & H2 & H3 & H4 & H5).
    simpl. destruct (Nat.eq_dec y x); [congruence|].
    split; [exact H1|]. split.
    { intros z Hz. destruct (Nat.eq_dec y z); auto. }
    split; [lia|]. split; [|right; exact H5].
    intros z [Hz|Hz]; [left|right]; auto.
Qed.

Lemma count_occ_le_length l (x : nat) : (count_occ Nat.eq_dec l x <= length l)%nat.
Proof. induction l as [|y r IH]; simpl; [lia|]. destruct (Nat.eq_dec y x); lia. Qed.

Lemma snoc_split {A} (os : list A) o os1 x os2 :
  os ++ [o] = os1 ++ x :: os2 ->
  (os2 = [] /\ os = os1 /\ o = x) \/ (exists os2', os2 = os2' ++ [o] /\ os = os1 ++ x :: os2').
Proof.
  destruct (@exists_last A (x :: os2)) as (l' & z & Hl); [discriminate|].
  intros H. rewrite Hl in H. rewrite app_assoc in H.
  apply app_inj_tail in H. destruct H as [H1 H2]. subst z.
  destruct l' as [|y l'].
  - simpl in Hl. inversion Hl; subst. left. rewrite app_nil_r. auto.
  - simpl in Hl. inversion Hl; subst. right. exists l'. auto.
Qed.

Lemma NoDup_snoc {A} (l : list A) x : NoDup l -> ~ In x l -> NoDup (l ++ [x]).
Proof.
  induction l as [|y r IH]; intros ND Hn; simpl.
  - constructor; [intros []|constructor].
  - inversion ND; subst. constructor.
    + intros Hin. apply in_app_or in Hin. destruct Hin as [Hin|[Hin|[]]]; [auto|].
      subst. apply Hn. left; auto.
    + apply IH; auto. intros Hin. apply Hn. right; auto.
Qed.

(* ---------- pruneSegments ---------- *)
Lemma key_eqb_eq a b : key_eqb a b = true <-> a = b.
Proof.
  unfold key_eqb. destruct a, b; simpl. rewrite andb_true_iff, !N.eqb_eq.
  split; [intros [-> ->]; auto | intros H; inversion H; auto].
Qed.

Lemma key_eqb_refl a : key_eqb a a = true.
Proof. apply key_eqb_eq; auto. Qed.

Lemma prune_segments_spec kept m m' :
  prune_segments kept m = Some m' ->
  (length m' <= prune_size)%nat
  /\ (forall e, In e m' -> In e m)
  /\ (forall e e', In e m -> ~ In e m' -> In e' m' -> start_of e <= start_of e')
  /\ ((length m <= prune_size)%nat -> m' = m)
  /\ (NoDup (map fst m) -> NoDup (map fst m')).
Proof.
  unfold prune_segments. intros H.
  destruct (length m <=? prune_size)%nat eqn:L.
  - inversion H; subst m'. apply Nat.leb_le in L.
    repeat split; auto. intros e e' He Hn. contradiction.
  - apply Nat.leb_gt in L.
    set (f := fun e : key * nat => mem_key (fst e) kept) in *.
    destruct (length (filter f m) =? prune_size)%nat eqn:L5; simpl in H; [|discriminate].
    match type of H with (if ?b then _ else _) = _ => destruct b eqn:FA end; [|discriminate].
    inversion H; subst m'. apply Nat.eqb_eq in L5.
    repeat split.
    + lia.
    + intros e He. apply filter_In in He. tauto.
    + intros e e' He Hn He'.
      rewrite forallb_forall in FA. specialize (FA e He).
      apply orb_true_iff in FA. destruct FA as [FA|FA].
      * exfalso. apply Hn. apply filter_In. split; auto.
      * rewrite forallb_forall in FA. specialize (FA e' He'). lia.
    + lia.
    + intros ND. clear -ND. induction m as [|e r IH]; simpl; [constructor|].
      inversion ND; subst. destruct (f e); simpl; auto.
      constructor; auto. intros Hin. apply H1.
      apply in_map_iff in Hin. destruct Hin as (x & Hx & Hin).
      apply filter_In in Hin. apply in_map_iff. exists x. tauto.
Qed.

Section WithD.
Context {D : Type}.
Implicit Types (c : cache D) (s : sys D) (os : list (obs D)).

Lemma find_key_some k (m : list (key * nat)) sid :
  find_key k m = Some sid -> In (k, sid) m.
Proof.
  unfold find_key. destruct (find _ m) as [e|] eqn:F; [|discriminate].
  intros H; inversion H; subst. apply find_some in F. destruct F as [F1 F2].
  apply key_eqb_eq in F2. destruct e; simpl in *; subst; auto.
Qed.

Lemma find_key_none k (m : list (key * nat)) :
  find_key k m = None -> ~ In k (map fst m).
Proof.
  unfold find_key. destruct (find _ m) as [e|] eqn:F; [discriminate|].
  intros _ Hin. apply in_map_iff in Hin. destruct Hin as (e & He & Hin).
  eapply find_none in F; eauto. subst k. rewrite key_eqb_refl in F. discriminate.
Qed.

(* what LOOKUP does, as facts *)
Lemma lookup_spec k kept c c' sid created :
  lookup k kept c = Some (c', sid, created) ->
  c_max c' = c_max c
  /\ (length (c_map c') <= prune_size)%nat
  /\ (created = false ->
        c_heap c' = c_heap c /\ In (k, sid) (c_map c) /\ seg_nreads (c_heap c) sid < c_max c)
  /\ (created = true ->
        c_heap c' = c_heap c ++ [mkSeg k 0 None] /\ sid = length (c_heap c))
  /\ (forall e, In e (c_map c') -> In e (c_map c) \/ (created = true /\ e = (k, sid)))
  /\ (NoDup (map fst (c_map c)) -> NoDup (map fst (c_map c'))).
Proof.
  unfold lookup. intros H.
  set (m1 := prune_maxread (c_max c) (c_heap c) (c_map c)) in *.
  assert (M1 : forall e, In e m1 -> In e (c_map c) /\ seg_nreads (c_heap c) (snd e) < c_max c).
  { intros e He. apply filter_In in He. destruct He as [He1 He2]. split; auto. lia. }
  assert (ND1 : NoDup (map fst (c_map c)) -> NoDup (map fst m1)).
  { intros ND. unfold m1, prune_maxread. clear -ND.
    induction (c_map c) as [|e r IH]; simpl; [constructor|].
    inversion ND; subst. destruct (_ <? _); simpl; auto. constructor; auto.
    intros Hin. apply H1. apply in_map_iff in Hin. destruct Hin as (x & Hx & Hin).
    apply filter_In in Hin. apply in_map_iff. exists x. tauto. }
  destruct (find_key k m1) as [sid0|] eqn:F.
  - destruct (prune_segments kept m1) as [m3|] eqn:P; [|discriminate].
    inversion H; subst c' sid created. simpl.
    destruct (prune_segments_spec _ _ _ P) as (P1 & P2 & _ & _ & P5).
    apply find_key_some in F. destruct (M1 _ F) as [F1 F2]. simpl in F2.
    repeat split; auto; try discriminate.
    intros e He. left. apply (M1 e). auto.
  - destruct (prune_segments kept (m1 ++ [(k, length (c_heap c))])) as [m3|] eqn:P; [|discriminate].
    inversion H; subst c' sid created. simpl.
    destruct (prune_segments_spec _ _ _ P) as (P1 & P2 & _ & _ & P5).
    repeat split; auto; try discriminate.
    + intros e He. apply P2 in He. apply in_app_or in He. destruct He as [He|[He|[]]].
      * left. apply (M1 e); auto.
      * right. auto.
    + intros ND. apply P5. rewrite map_app. simpl.
      apply find_key_none in F.
      apply NoDup_snoc; auto.
Qed.

(* what READ does, as facts *)
Lemma read_spec sid res c c' ret asked :
  read sid res c = Some (c', ret, asked) ->
  exists sg, nth_error (c_heap c) sid = Some sg
    /\ c_max c' = c_max c /\ c_map c' = c_map c
    /\ c_heap c' = upd (c_heap c) sid (mkSeg (sg_key sg) (sg_nreads sg + 1) (if asked then res else sg_data sg))
    /\ (asked = false -> sg_data sg = ret /\ ret <> None)
    /\ (asked = true -> sg_data sg = None /\ ret = res).
Proof.
  unfold read. destruct (nth_error (c_heap c) sid) as [sg|] eqn:N; [|discriminate].
  destruct (sg_data sg) as [d|] eqn:Dd; intros H; inversion H; subst; exists sg; simpl;
    repeat split; auto; try discriminate; try (rewrite Dd; reflexivity).
Qed.

(* a failed fetch yields an error and leaves the segment unfilled; an unfilled
   segment always asks the source *)
Lemma read_unfilled c sid sg res :
  nth_error (c_heap c) sid = Some sg -> sg_data sg = None ->
  exists c', read sid res c = Some (c', res, true)
    /\ nth_error (c_heap c') sid = Some (mkSeg (sg_key sg) (sg_nreads sg + 1) res).
Proof.
  intros N Dn. unfold read. rewrite N, Dn. eexists. split; [reflexivity|]. simpl.
  apply nth_error_upd_eq. eapply nth_error_lt; eauto.
Qed.

(* data that come back together with an error are dropped: the outcome of the
   read and the state afterwards do not depend on them, and nothing is stored *)
Lemma rejected_dropped c sid sg junk :
  nth_error (c_heap c) sid = Some sg -> sg_data sg = None ->
  exists c', read_f sid (FErr junk) c = Some (c', None, true)
    /\ nth_error (c_heap c') sid = Some (mkSeg (sg_key sg) (sg_nreads sg + 1) None)
    /\ read_f sid (FErr junk) c = read_f sid (FErr None) c.
Proof.
  intros N Dn. destruct (read_unfilled c sid sg None N Dn) as (c' & H1 & H2).
  exists c'. unfold read_f. simpl. auto.
Qed.

Lemma read_filled c sid sg d res :
  nth_error (c_heap c) sid = Some sg -> sg_data sg = Some d ->
  exists c', read sid res c = Some (c', Some d, false).
Proof. intros N Dn. unfold read. rewrite N, Dn. eexists. reflexivity. Qed.

(* ---------- reachability and the invariant ---------- *)
Inductive reach (mx : N) : sys D -> list (obs D) -> Prop :=
| reach_init : reach mx (init_sys mx) []
| reach_step s os e s' o :
    reach mx s os -> step s e = Some (s', o) -> reach mx s' (os ++ [o]).

Lemma run_app s tr1 tr2 :
  run s (tr1 ++ tr2) =
  match run s tr1 with
  | None => None
  | Some (s1, os1) =>
      match run s1 tr2 with None => None | Some (s2, os2) => Some (s2, os1 ++ os2) end
  end.
Proof.
  revert s; induction tr1 as [|e r IH]; intros s; simpl.
  - destruct (run s tr2) as [[s2 os2]|]; auto.
  - destruct (step s e) as [[s1 o]|]; auto. rewrite IH.
    destruct (run s1 r) as [[s2 os]|]; auto.
    destruct (run s2 tr2) as [[s3 os3]|]; auto.
Qed.

Lemma run_reach mx s os tr s' os' :
  reach mx s os -> run s tr = Some (s', os') -> reach mx s' (os ++ os').
Proof.
  revert s os s' os'; induction tr as [|e r IH]; intros s os s' os' R H; simpl in H.
  - inversion H; subst. rewrite app_nil_r. auto.
  - destruct (step s e) as [[s1 o]|] eqn:S; [|discriminate].
    destruct (run s1 r) as [[s2 os2]|] eqn:R2; [|discriminate].
    inversion H; subst. replace (os ++ o :: os2) with ((os ++ [o]) ++ os2)
      by (rewrite <- app_assoc; reflexivity).
    eapply IH; eauto. econstructor; eauto.
Qed.

Lemma run_init_reach mx tr s os :
  run (init_sys mx) tr = Some (s, os) -> reach mx s os.
Proof. intros H. apply (run_reach mx _ [] _ _ _ (reach_init mx) H). Qed.

(* every data item served so far was fetched successfully, on the same
   segment, at or before the moment it was served *)
Inductive served_ok : list (obs D) -> Prop :=
| so_nil : served_ok []
| so_snoc os o :
    served_ok os ->
    (forall sid k d a, o = ORead sid k (Some d) a -> In (ORead sid k (Some d) true) (os ++ [o])) ->
    served_ok (os ++ [o]).

Lemma served_ok_split os :
  served_ok os ->
  forall os1 os2 sid k d a, os = os1 ++ ORead sid k (Some d) a :: os2 ->
    In (ORead sid k (Some d) true) (os1 ++ [ORead sid k (Some d) a]).
Proof.
  induction 1 as [|os o Hs IH Ho]; intros os1 os2 sid k d a E.
  - destruct os1; discriminate.
  - apply snoc_split in E. destruct E as [(E1 & E2 & E3)|(os2' & E1 & E2)].
    + subst. apply (Ho sid k d a eq_refl).
    + eapply IH; eauto.
Qed.

Definition reads_nat (c : cache D) (sid : nat) : nat := N.to_nat (seg_nreads (c_heap c) sid).

Record inv (mx : N) (s : sys D) (os : list (obs D)) : Prop := {
  inv_max : c_max (sy_cache s) = mx;
  inv_map : forall k sid, In (k, sid) (c_map (sy_cache s)) ->
            exists sg, nth_error (c_heap (sy_cache s)) sid = Some sg /\ sg_key sg = k;
  inv_nodup : NoDup (map fst (c_map (sy_cache s)));
  inv_pend : forall sid, In sid (sy_pend s) -> (sid < length (c_heap (sy_cache s)))%nat;
  inv_data : forall sid sg d, nth_error (c_heap (sy_cache s)) sid = Some sg -> sg_data sg = Some d ->
             In (ORead sid (sg_key sg) (Some d) true) os;
  inv_count : forall sid, reads_of sid os = reads_nat (sy_cache s) sid;
  inv_size : (length (c_map (sy_cache s)) <= prune_size)%nat;
  inv_served : served_ok os;
  inv_lookup : forall k sid cr, In (OLookup k sid cr) os ->
               exists sg, nth_error (c_heap (sy_cache s)) sid = Some sg /\ sg_key sg = k;
  inv_readkey : forall sid k r a, In (ORead sid k r a) os ->
               exists sg, nth_error (c_heap (sy_cache s)) sid = Some sg /\ sg_key sg = k
}.

Lemma reads_of_snoc sid os o :
  reads_of sid (os ++ [o]) = (reads_of sid os + (if is_read_of sid o then 1 else 0))%nat.
Proof.
  unfold reads_of. rewrite filter_app, app_length. simpl.
  destruct (is_read_of sid o); simpl; lia.
Qed.

Lemma nth_error_app_old {A} (l : list A) x i y :
  nth_error l i = Some y -> nth_error (l ++ [x]) i = Some y.
Proof. intros H. rewrite nth_error_app1; auto. eapply nth_error_lt; eauto. Qed.

Lemma inv_init mx : inv mx (init_sys mx) [].
Proof.
  constructor; simpl; auto; try (intros; contradiction).
  - constructor.
  - intros sid sg d H. destruct sid; discriminate.
  - intros sid. unfold reads_nat, seg_nreads. simpl. destruct sid; reflexivity.
  - unfold prune_size; lia.
  - constructor.
Qed.

Lemma inv_step mx s os e s' o :
  inv mx s os -> step s e = Some (s', o) -> inv mx s' (os ++ [o]).
Proof.
  intros I S. destruct I as [Imax Imap Ind Ipend Idata Icount Isize Iserved Ilook Ireadkey].
  destruct e as [k kept | sid res]; simpl in S.
  - (* LOOKUP *)
    destruct (lookup k kept (sy_cache s)) as [[[c' sid] created]|] eqn:L; [|discriminate].
    inversion S; subst s' o. clear S. simpl.
    destruct (lookup_spec _ _ _ _ _ _ L) as (L1 & L2 & L3 & L4 & L5 & L6).
    assert (HEAP : forall i sg, nth_error (c_heap (sy_cache s)) i = Some sg ->
                                nth_error (c_heap c') i = Some sg).
    { intros i sg Hn. destruct created.
      - destruct (L4 eq_refl) as [-> _]. apply nth_error_app_old; auto.
      - destruct (L3 eq_refl) as [-> _]. auto. }
    assert (NEW : exists sg, nth_error (c_heap c') sid = Some sg /\ sg_key sg = k).
    { destruct created.
      - destruct (L4 eq_refl) as [-> ->]. exists (mkSeg k 0 None). split; auto.
        rewrite nth_error_app2; [|lia]. rewrite Nat.sub_diag. reflexivity.
      - destruct (L3 eq_refl) as (_ & Hin & _). destruct (Imap _ _ Hin) as (sg & H1 & H2).
        exists sg. split; auto. }
    constructor; simpl.
    + congruence.
    + intros k0 sid0 Hin. apply L5 in Hin. destruct Hin as [Hin|[-> Hin]].
      * destruct (Imap _ _ Hin) as (sg & H1 & H2). exists sg. split; auto.
      * inversion Hin; subst. exact NEW.
    + auto.
    + intros sid0 [<-|Hin].
      * destruct NEW as (sg & H1 & _). eapply nth_error_lt; eauto.
      * specialize (Ipend _ Hin). destruct created.
        -- destruct (L4 eq_refl) as [-> _]. rewrite app_length. simpl. lia.
        -- destruct (L3 eq_refl) as [-> _]. auto.
    + intros sid0 sg d Hn Hd. apply in_or_app. left.
      destruct created.
      * destruct (L4 eq_refl) as [Hh Hs]. rewrite Hh in Hn.
        destruct (Nat.lt_ge_cases sid0 (length (c_heap (sy_cache s)))) as [Hlt|Hge].
        -- rewrite nth_error_app1 in Hn by auto. eapply Idata; eauto.
        -- rewrite nth_error_app2 in Hn by auto.
           destruct (sid0 - length (c_heap (sy_cache s)))%nat as [|j]; simpl in Hn.
           ++ inversion Hn; subst sg. discriminate.
           ++ destruct j; discriminate.
      * destruct (L3 eq_refl) as [Hh _]. rewrite Hh in Hn. eapply Idata; eauto.
    + intros sid0. rewrite reads_of_snoc. simpl. rewrite Icount. unfold reads_nat, seg_nreads.
      destruct created.
      * destruct (L4 eq_refl) as [Hh Hs]. rewrite Hh.
        destruct (Nat.lt_ge_cases sid0 (length (c_heap (sy_cache s)))) as [Hlt|Hge].
        -- rewrite nth_error_app1 by auto. lia.
        -- rewrite nth_error_app2 by auto.
           assert (E : nth_error (c_heap (sy_cache s)) sid0 = None) by (apply nth_error_None; auto).
           rewrite E.
           destruct (sid0 - length (c_heap (sy_cache s)))%nat as [|j]; simpl; [reflexivity|].
           destruct j; reflexivity.
      * destruct (L3 eq_refl) as [Hh _]. rewrite Hh. lia.
    + exact L2.
    + constructor; auto. intros; discriminate.
    + intros k0 sid0 cr Hin. apply in_app_or in Hin. destruct Hin as [Hin|[Hin|[]]].
      * destruct (Ilook _ _ _ Hin) as (sg & H1 & H2). exists sg; split; auto.
      * inversion Hin; subst. exact NEW.
    + intros sid0 k0 r a Hin. apply in_app_or in Hin. destruct Hin as [Hin|[Hin|[]]]; [|discriminate].
      destruct (Ireadkey _ _ _ _ Hin) as (sg & H1 & H2). exists sg; split; auto.
  - (* READ *)
    destruct (remove_one sid (sy_pend s)) as [p'|] eqn:R; [|discriminate].
    destruct (read sid res (sy_cache s)) as [[[c' ret] asked]|] eqn:Rd; [|discriminate].
    inversion S; subst s' o. clear S. simpl.
    destruct (read_spec _ _ _ _ _ _ Rd) as (sg & N0 & R1 & R2 & R3 & R4 & R5).
    destruct (remove_one_spec _ _ _ R) as (_ & _ & _ & P4 & _).
    assert (LT : (sid < length (c_heap (sy_cache s)))%nat) by (eapply nth_error_lt; eauto).
    assert (KEY : seg_key_of (c_heap (sy_cache s)) sid = sg_key sg).
    { unfold seg_key_of. rewrite N0. reflexivity. }
    rewrite KEY.
    assert (HEAPK : forall i sg0, nth_error (c_heap (sy_cache s)) i = Some sg0 ->
                    exists sg1, nth_error (c_heap c') i = Some sg1 /\ sg_key sg1 = sg_key sg0).
    { intros i sg0 Hn. rewrite R3. destruct (Nat.eq_dec sid i) as [<-|Hne].
      - rewrite nth_error_upd_eq; auto. eexists; split; [reflexivity|]. simpl. congruence.
      - rewrite nth_error_upd_neq; auto. eexists; split; eauto. }
    constructor; simpl.
    + congruence.
    + intros k0 sid0 Hin. rewrite R2 in Hin. destruct (Imap _ _ Hin) as (sg0 & H1 & H2).
      destruct (HEAPK _ _ H1) as (sg1 & H3 & H4). exists sg1. split; auto. congruence.
    + rewrite R2. auto.
    + intros sid0 Hin. rewrite R3, length_upd. apply Ipend. auto.
    + intros sid0 sg0 d Hn Hd. rewrite R3 in Hn.
      destruct (Nat.eq_dec sid sid0) as [<-|Hne].
      * rewrite nth_error_upd_eq in Hn; auto. inversion Hn; subst sg0. simpl in *.
        destruct asked.
        -- destruct (R5 eq_refl) as [_ ->]. subst res. apply in_or_app. right. left. reflexivity.
        -- apply in_or_app. left. eapply Idata; eauto.
      * rewrite nth_error_upd_neq in Hn; auto. apply in_or_app. left. eapply Idata; eauto.
    + intros sid0. rewrite reads_of_snoc. simpl. rewrite Icount. unfold reads_nat, seg_nreads.
      rewrite R3. destruct (Nat.eq_dec sid0 sid) as [->|Hne].
      * rewrite Nat.eqb_refl. rewrite nth_error_upd_eq; auto. rewrite N0. simpl. lia.
      * rewrite nth_error_upd_neq; auto.
        replace (Nat.eqb sid0 sid) with false by (symmetry; apply Nat.eqb_neq; auto). lia.
    + rewrite R2. auto.
    + constructor; auto. intros sid0 k0 d a E. inversion E; subst sid0 k0 ret a. clear E.
      destruct asked.
      * apply in_or_app. right. left. reflexivity.
      * destruct (R4 eq_refl) as [Hd _]. apply in_or_app. left. eapply Idata; eauto.
    + intros k0 sid0 cr Hin. apply in_app_or in Hin. destruct Hin as [Hin|[Hin|[]]]; [|discriminate].
      destruct (Ilook _ _ _ Hin) as (sg0 & H1 & H2).
      destruct (HEAPK _ _ H1) as (sg1 & H3 & H4). exists sg1. split; auto. congruence.
    + intros sid0 k0 r a Hin. apply in_app_or in Hin. destruct Hin as [Hin|[Hin|[]]].
      * destruct (Ireadkey _ _ _ _ Hin) as (sg0 & H1 & H2).
        destruct (HEAPK _ _ H1) as (sg1 & H3 & H4). exists sg1. split; auto. congruence.
      * inversion Hin; subst sid0 k0 r a.
        destruct (HEAPK _ _ N0) as (sg1 & H3 & H4). exists sg1. split; auto.
Qed.

Lemma reach_inv mx s os : reach mx s os -> inv mx s os.
Proof. induction 1; [apply inv_init | eapply inv_step; eauto]. Qed.

Lemma run_inv mx tr s os : run (init_sys mx) tr = Some (s, os) -> inv mx s os.
Proof. intros H. apply reach_inv. eapply run_init_reach; eauto. Qed.

(* ---------- the theorems ---------- *)

(* data served = result of a successful fetch on the same segment, at or
   before that moment *)
Lemma read_is_fetch mx tr s os :
  run (init_sys mx) tr = Some (s, os) ->
  forall os1 os2 sid k d a, os = os1 ++ ORead sid k (Some d) a :: os2 ->
    In (ORead sid k (Some d) true) (os1 ++ [ORead sid k (Some d) a]).
Proof. intros H. apply served_ok_split. apply (inv_served _ _ _ (run_inv _ _ _ _ H)). Qed.

(* the segment handed out for key k is only ever read as a segment of key k *)
Lemma segment_key_stable mx tr s os :
  run (init_sys mx) tr = Some (s, os) ->
  forall k sid cr k' r a, In (OLookup k sid cr) os -> In (ORead sid k' r a) os -> k = k'.
Proof.
  intros H k sid cr k' r a H1 H2. pose proof (run_inv _ _ _ _ H) as I.
  destruct (inv_lookup _ _ _ I _ _ _ H1) as (sg & N1 & K1).
  destruct (inv_readkey _ _ _ I _ _ _ _ H2) as (sg' & N2 & K2). congruence.
Qed.

(* when the source was asked, the caller gets exactly the source's answer *)
Lemma asked_ret_is_res s sid res s' sid' k ret :
  step s (ERead sid res) = Some (s', ORead sid' k ret true) -> ret = res /\ sid' = sid.
Proof.
  simpl. destruct (remove_one sid (sy_pend s)); [|discriminate].
  destruct (read sid res (sy_cache s)) as [[[c' r] a]|] eqn:R; [|discriminate].
  intros H; inversion H; subst. destruct (read_spec _ _ _ _ _ _ R) as (sg & _ & _ & _ & _ & _ & R5).
  destruct (R5 eq_refl); auto.
Qed.

(* unchanging honest source F: whatever is served for key k is F k *)
Lemma transparent (F : key -> D) mx tr s os :
  run (init_sys mx) tr = Some (s, os) ->
  (forall sid k d, In (ORead sid k (Some d) true) os -> d = F k) ->
  forall sid k d a, In (ORead sid k (Some d) a) os -> d = F k.
Proof.
  intros H HF sid k d a Hin. apply in_split in Hin. destruct Hin as (os1 & os2 & E).
  pose proof (read_is_fetch _ _ _ _ H _ _ _ _ _ _ E) as Hf.
  apply (HF sid). rewrite E. apply in_app_or in Hf. apply in_or_app.
  destruct Hf as [Hf|[Hf|[]]]; [left; auto|right; left; auto].
Qed.

(* stored data always stem from a successful fetch *)
Lemma stored_is_fetched mx tr s os :
  run (init_sys mx) tr = Some (s, os) ->
  forall sid sg d, nth_error (c_heap (sy_cache s)) sid = Some sg -> sg_data sg = Some d ->
    In (ORead sid (sg_key sg) (Some d) true) os.
Proof. intros H. apply (inv_data _ _ _ (run_inv _ _ _ _ H)). Qed.

(* an error result: the source was asked, it failed, nothing was stored *)
Lemma error_not_stored s sid res s' sid' k a :
  step s (ERead sid res) = Some (s', ORead sid' k None a) ->
  a = true /\ res = None
  /\ exists sg, nth_error (c_heap (sy_cache s')) sid = Some sg /\ sg_data sg = None.
Proof.
  simpl. destruct (remove_one sid (sy_pend s)); [|discriminate].
  destruct (read sid res (sy_cache s)) as [[[c' r] a']|] eqn:R; [|discriminate].
  intros H; inversion H; subst. destruct (read_spec _ _ _ _ _ _ R) as (sg & N0 & _ & _ & R3 & R4 & R5).
  destruct a.
  - destruct (R5 eq_refl) as [Hd Hr]. subst res. repeat split; auto. simpl. rewrite R3.
    eexists. split; [apply nth_error_upd_eq; eapply nth_error_lt; eauto|reflexivity].
  - destruct (R4 eq_refl) as [_ Hn]. congruence.
Qed.

Lemma size_bounded k kept c c' sid cr :
  lookup k kept c = Some (c', sid, cr) -> (length (c_map c') <= 5)%nat.
Proof. intros H. destruct (lookup_spec _ _ _ _ _ _ H) as (_ & L2 & _). exact L2. Qed.

Lemma size_bounded_always mx tr s os :
  run (init_sys mx) tr = Some (s, os) -> (length (c_map (sy_cache s)) <= 5)%nat.
Proof. intros H. apply (inv_size _ _ _ (run_inv _ _ _ _ H)). Qed.

Lemma lookup_hit_fresh k kept c c' sid :
  lookup k kept c = Some (c', sid, false) ->
  In (k, sid) (c_map c) /\ seg_nreads (c_heap c) sid < c_max c.
Proof. intros H. destruct (lookup_spec _ _ _ _ _ _ H) as (_ & _ & L3 & _). destruct (L3 eq_refl); tauto. Qed.

(* reads counted on a segment = READ steps performed on it; with at most B
   callers between their two steps, never more than maxreads + B - 1 *)
Definition bound_inv (mx : N) (B : nat) (s : sys D) : Prop :=
  forall sid, (sid < length (c_heap (sy_cache s)))%nat ->
    (reads_nat (sy_cache s) sid + count_occ Nat.eq_dec (sy_pend s) sid <= N.to_nat mx + B - 1)%nat.

Lemma pend_bounded_prefix B s tr e : pend_bounded B s (tr ++ [e]) -> pend_bounded B s tr.
Proof.
  intros H tr1 tr2 s1 os E R. apply (H tr1 (tr2 ++ [e]) s1 os); auto.
  rewrite E, app_assoc. reflexivity.
Qed.

Lemma reads_bound_inv mx B tr : 1 <= mx ->
  forall s os, run (init_sys mx) tr = Some (s, os) -> pend_bounded B (init_sys mx) tr ->
  bound_inv mx B s.
Proof.
  intros Hmx. induction tr as [|e tr IH] using rev_ind; intros s os R PB.
  - simpl in R. inversion R; subst. intros sid Hlt. simpl in Hlt. lia.
  - rewrite run_app in R.
    destruct (run (init_sys mx) tr) as [[s1 os1]|] eqn:R1; [|discriminate].
    simpl in R. destruct (step s1 e) as [[s2 o]|] eqn:S; [|discriminate].
    inversion R; subst s2 os. clear R.
    pose proof (IH _ _ eq_refl (pend_bounded_prefix _ _ _ _ PB)) as BI.
    pose proof (run_inv _ _ _ _ R1) as I.
    assert (PL : (length (sy_pend s) <= B)%nat).
    { apply (PB (tr ++ [e]) [] s (os1 ++ [o])); [rewrite app_nil_r; auto|].
      rewrite run_app, R1. simpl. rewrite S. reflexivity. }
    destruct e as [k kept|sid res]; simpl in S.
    + destruct (lookup k kept (sy_cache s1)) as [[[c' sid] created]|] eqn:L; [|discriminate].
      inversion S; subst s o. clear S. simpl in *.
      destruct (lookup_spec _ _ _ _ _ _ L) as (L1 & L2 & L3 & L4 & L5 & L6).
      intros sid0 Hlt. simpl in *. unfold reads_nat in *.
      destruct created.
      * destruct (L4 eq_refl) as [Hh Hs]. rewrite Hh in *. rewrite app_length in Hlt. simpl in Hlt.
        unfold seg_nreads in *.
        destruct (Nat.eq_dec sid sid0) as [<-|Hne].
        -- subst sid. rewrite nth_error_app2 by lia. rewrite Nat.sub_diag. simpl.
           assert (C0 : count_occ Nat.eq_dec (sy_pend s1) (length (c_heap (sy_cache s1))) = 0%nat).
           { apply count_occ_not_In. intros Hin. apply (inv_pend _ _ _ I) in Hin. lia. }
           rewrite C0. lia.
        -- assert (Hlt0 : (sid0 < length (c_heap (sy_cache s1)))%nat) by lia.
           rewrite nth_error_app1 by lia. specialize (BI sid0 Hlt0). unfold reads_nat, seg_nreads in BI. lia.
      * destruct (L3 eq_refl) as (Hh & Hin & Hnr). rewrite Hh in *.
        destruct (Nat.eq_dec sid sid0) as [<-|Hne].
        -- pose proof (count_occ_le_length (sy_pend s1) sid). rewrite (inv_max _ _ _ I) in Hnr. lia.
        -- specialize (BI sid0 Hlt). unfold reads_nat in BI. lia.
    + destruct (remove_one sid (sy_pend s1)) as [p'|] eqn:Rm; [|discriminate].
      destruct (read sid res (sy_cache s1)) as [[[c' ret] asked]|] eqn:Rd; [|discriminate].
      inversion S; subst s o. clear S. simpl in *.
      destruct (read_spec _ _ _ _ _ _ Rd) as (sg & N0 & R1' & R2 & R3 & _ & _).
      destruct (remove_one_spec _ _ _ Rm) as (C1 & C2 & _ & _ & _).
      assert (LT : (sid < length (c_heap (sy_cache s1)))%nat) by (eapply nth_error_lt; eauto).
      intros sid0 Hlt. simpl in *. rewrite R3, length_upd in Hlt.
      specialize (BI sid0 Hlt). unfold reads_nat, seg_nreads in *. rewrite R3.
      destruct (Nat.eq_dec sid sid0) as [<-|Hne].
      * rewrite nth_error_upd_eq by auto. rewrite N0 in BI. simpl. lia.
      * rewrite nth_error_upd_neq by auto. rewrite (C2 sid0) in BI by auto. lia.
Qed.

Lemma reads_bounded mx B tr s os : 1 <= mx ->
  run (init_sys mx) tr = Some (s, os) -> pend_bounded B (init_sys mx) tr ->
  forall sid, (reads_of sid os <= N.to_nat mx + B - 1)%nat.
Proof.
  intros Hmx R PB sid. pose proof (reads_bound_inv mx B tr Hmx _ _ R PB) as BI.
  rewrite (inv_count _ _ _ (run_inv _ _ _ _ R)).
  destruct (Nat.lt_ge_cases sid (length (c_heap (sy_cache s)))) as [Hlt|Hge].
  - specialize (BI sid Hlt). lia.
  - unfold reads_nat, seg_nreads.
    assert (E : nth_error (c_heap (sy_cache s)) sid = None) by (apply nth_error_None; auto).
    rewrite E. simpl. lia.
Qed.

(* ---------- sequential runs are runs of the system with one caller ---------- *)
Fixpoint seq_trace (c : cache D) (ops : list (key * list key * option D)) : list (ev D) :=
  match ops with
  | [] => []
  | (k, kept, res) :: r =>
      match lookup k kept c with
      | Some (c1, sid, _) =>
          match read sid res c1 with
          | Some (c2, _, _) => ELookup k kept :: ERead sid res :: seq_trace c2 r
          | None => []
          end
      | None => []
      end
  end.

Lemma seq_run_is_run ops : forall c c' outs,
  seq_run c ops = Some (c', outs) ->
  exists os, run (mkSys c []) (seq_trace c ops) = Some (mkSys c' [], os)
    /\ pend_bounded 1 (mkSys c []) (seq_trace c ops).
Proof.
  induction ops as [|[[k kept] res] r IH]; intros c c' outs H; simpl in H.
  - inversion H; subst. exists []. split; [reflexivity|].
    intros tr1 tr2 s1 os E R. simpl in E. destruct tr1; [|discriminate].
    simpl in R. inversion R; subst. simpl. lia.
  - unfold get in H. destruct (lookup k kept c) as [[[c1 sid] cr]|] eqn:L; [|discriminate].
    destruct (read sid res c1) as [[[c2 ret] asked]|] eqn:Rd; [|discriminate].
    destruct (seq_run c2 r) as [[c3 outs']|] eqn:SR; [|discriminate].
    inversion H; subst c' outs. clear H.
    destruct (IH _ _ _ SR) as (os & R & PB).
    simpl. rewrite L, Rd. simpl. rewrite L. simpl. rewrite Nat.eqb_refl. rewrite Rd. rewrite R.
    eexists. split; [reflexivity|].
    intros tr1 tr2 s1 os1 E R1.
    destruct tr1 as [|e1 tr1]; [simpl in R1; inversion R1; subst; simpl; lia|].
    simpl in E. inversion E; subst e1. simpl in R1. rewrite L in R1.
    destruct tr1 as [|e2 tr1]; [simpl in R1; inversion R1; subst; simpl; lia|].
    inversion H1; subst e2. simpl in R1. rewrite Nat.eqb_refl, Rd in R1.
    destruct (run {| sy_cache := c2; sy_pend := [] |} tr1) as [[s2 os2]|] eqn:R2; [|discriminate].
    inversion R1; subst s1 os1. eapply PB; eauto.
Qed.

Lemma seq_reads_bounded mx ops c outs : 1 <= mx ->
  seq_run (empty_cache mx) ops = Some (c, outs) ->
  forall sid, seg_nreads (c_heap c) sid <= mx.
Proof.
  intros Hmx H sid. destruct (seq_run_is_run _ _ _ _ H) as (os & R & PB).
  pose proof (reads_bounded mx 1 _ _ _ Hmx R PB sid) as Hb.
  rewrite (inv_count _ _ _ (run_inv _ _ _ _ R)) in Hb. unfold reads_nat in Hb. simpl in Hb. lia.
Qed.

End WithD.

(* ---------- the model never blocks ---------- *)
Lemma exists_min_start (m : list (key * nat)) :
  m <> [] -> exists e, In e m /\ forall e', In e' m -> start_of e <= start_of e'.
Proof.
  induction m as [|a r IH]; intros H; [congruence|].
  destruct r as [|b r'].
  - exists a. split; [left; auto|]. intros e' [<-|[]]. lia.
  - destruct IH as (e & He & Hm); [discriminate|].
    destruct (start_of a <=? start_of e) eqn:C.
    + exists a. split; [left; auto|]. intros e' [<-|Hin]; [lia|]. specialize (Hm e' Hin). lia.
    + exists e. split; [right; auto|]. intros e' [<-|Hin]; [lia|auto].
Qed.

Lemma filter_other_length (m : list (key * nat)) e :
  NoDup (map fst m) -> In e m ->
  length (filter (fun e' => negb (key_eqb (fst e') (fst e))) m) = (length m - 1)%nat.
Proof.
  induction m as [|a r IH]; intros ND Hin; [contradiction|].
  inversion ND; subst. simpl. destruct Hin as [->|Hin].
  - rewrite key_eqb_refl. simpl. rewrite Nat.sub_0_r.
    clear IH ND. induction r as [|b r' IHr]; simpl; auto.
    assert (fst b <> fst e). { intros E. apply H1. left. auto. }
    destruct (key_eqb (fst b) (fst e)) eqn:K; [apply key_eqb_eq in K; contradiction|].
    simpl. f_equal. apply IHr.
    + intros Hin. apply H1. right. auto.
    + inversion H2; auto.
  - assert (fst a <> fst e). { intros E. apply H1. rewrite E. apply in_map. auto. }
    destruct (key_eqb (fst a) (fst e)) eqn:K; [apply key_eqb_eq in K; contradiction|].
    simpl. rewrite IH; auto. destruct r; [contradiction|simpl; lia].
Qed.

Lemma prune_total (kept0 : list key) (m : list (key * nat)) :
  NoDup (map fst m) -> (length m <= 6)%nat ->
  exists kept m', prune_segments kept m = Some m'.
Proof.
  intros ND L. unfold prune_segments.
  destruct (length m <=? prune_size)%nat eqn:C.
  - exists kept0, m. reflexivity.
  - apply Nat.leb_gt in C. unfold prune_size in *.
    destruct (exists_min_start m) as (e & He & Hmin); [intros ->; simpl in C; lia|].
    set (others := filter (fun e' => negb (key_eqb (fst e') (fst e))) m).
    exists (map fst others).
    assert (F : filter (fun e0 => mem_key (fst e0) (map fst others)) m = others).
    { unfold others. apply filter_ext_in. intros e0 H0. unfold mem_key.
      destruct (key_eqb (fst e0) (fst e)) eqn:K; simpl.
      - apply not_true_is_false. intros Hx. apply existsb_exists in Hx. destruct Hx as (k & Hk & Ek).
        apply in_map_iff in Hk. destruct Hk as (e1 & <- & H1). apply filter_In in H1. destruct H1 as [_ H1].
        apply key_eqb_eq in Ek. apply key_eqb_eq in K. rewrite <- Ek, K, key_eqb_refl in H1. discriminate.
      - apply existsb_exists. exists (fst e0). split; [|apply key_eqb_refl].
        apply in_map. apply filter_In. split; auto. rewrite K. reflexivity. }
    rewrite F.
    assert (LO : length others = 5%nat).
    { unfold others. rewrite filter_other_length; auto. lia. }
    rewrite LO. simpl.
    match goal with |- context [forallb ?f m] => assert (FA : forallb f m = true) end.
    { apply forallb_forall. intros e0 H0. unfold mem_key.
      destruct (key_eqb (fst e0) (fst e)) eqn:K.
      - apply orb_true_iff. right. apply forallb_forall. intros e' He'.
        unfold others in He'. apply filter_In in He'. destruct He' as [He' _].
        apply key_eqb_eq in K. specialize (Hmin e' He'). unfold start_of in *. rewrite K. lia.
      - apply orb_true_iff. left. apply existsb_exists. exists (fst e0). split; [|apply key_eqb_refl].
        apply in_map. apply filter_In. split; auto. rewrite K. reflexivity. }
    rewrite FA. eexists. reflexivity.
Qed.

Section WithD.
Context {D : Type}.

Lemma prune_maxread_nodup mx (h : list (seg D)) m :
  NoDup (map fst m) -> NoDup (map fst (prune_maxread mx h m)) /\ (length (prune_maxread mx h m) <= length m)%nat.
Proof.
  intros ND. unfold prune_maxread. split;
    [|clear; induction m as [|e r IH]; simpl; auto; destruct (_ <? _); simpl; lia].
  induction m as [|e r IH]; simpl; [constructor|].
  inversion ND; subst. destruct (_ <? _); simpl; auto. constructor; auto.
  intros Hin. apply H1. apply in_map_iff in Hin. destruct Hin as (x & Hx & Hin).
  apply filter_In in Hin. apply in_map_iff. exists x. tauto.
Qed.

Lemma lookup_total (c : cache D) k :
  NoDup (map fst (c_map c)) -> (length (c_map c) <= 5)%nat ->
  exists kept c' sid cr, lookup k kept c = Some (c', sid, cr).
Proof.
  intros ND L. unfold lookup.
  destruct (prune_maxread_nodup (c_max c) (c_heap c) (c_map c) ND) as [ND1 L1].
  set (m1 := prune_maxread (c_max c) (c_heap c) (c_map c)) in *.
  destruct (find_key k m1) as [sid|] eqn:F.
  - destruct (prune_total [] m1 ND1) as (kept & m' & P); [lia|].
    exists kept. rewrite P. eauto.
  - destruct (prune_total [] (m1 ++ [(k, length (c_heap c))])) as (kept & m' & P).
    + rewrite map_app. simpl. apply NoDup_snoc; auto. apply find_key_none; auto.
    + rewrite app_length. simpl. lia.
    + exists kept. rewrite P. eauto.
Qed.

(* in every reachable state every caller can take its next step *)
Lemma never_stuck mx (tr : list (ev D)) s os :
  run (init_sys mx) tr = Some (s, os) ->
  (forall k, exists kept s' o, step s (ELookup k kept) = Some (s', o))
  /\ (forall sid res, In sid (sy_pend s) -> exists s' o, step s (ERead sid res) = Some (s', o)).
Proof.
  intros H. pose proof (run_inv _ _ _ _ H) as I. split.
  - intros k. destruct (lookup_total (sy_cache s) k (inv_nodup _ _ _ I) (inv_size _ _ _ I)) as (kept & c' & sid & cr & L).
    exists kept. simpl. rewrite L. eauto.
  - intros sid res Hin. simpl.
    assert (R : exists p', remove_one sid (sy_pend s) = Some p').
    { clear -Hin. induction (sy_pend s) as [|y r IH]; [contradiction|]. simpl.
      destruct (Nat.eqb sid y) eqn:E; [eauto|]. destruct Hin as [->|Hin]; [rewrite Nat.eqb_refl in E; discriminate|].
      destruct (IH Hin) as (p' & ->). eauto. }
    destruct R as (p' & ->).
    pose proof (inv_pend _ _ _ I sid Hin) as Hlt.
    destruct (nth_error (c_heap (sy_cache s)) sid) as [sg|] eqn:N0.
    + unfold read. rewrite N0. destruct (sg_data sg); eauto.
    + apply nth_error_None in N0. lia.
Qed.
End WithD.
