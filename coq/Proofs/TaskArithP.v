(* Task.load partition arithmetic (repaired: part = ceil(batch/conc)): for
   EVERY batch >= 1, conc >= 1 and 1 <= limit <= batch the partitions tile
   [start, start+limit) exactly -- including batch < conc and non-divisible
   pairs -- and the legacy arithmetic does not. *)
From Coq Require Import List NArith ZArith Bool Lia ZifyBool ZifyN ZifyNat.
From Shovel Require Import Model.TaskTypes Model.TaskDb Model.Task Model.TaskNode Model.TaskSys Model.TaskSpec.
Import ListNotations.
Open Scope N_scope.

Arguments N.add : simpl never.
Arguments N.sub : simpl never.
Arguments N.mul : simpl never.
Arguments N.div : simpl never.
Arguments N.modulo : simpl never.
Arguments N.ltb : simpl never.
Arguments N.leb : simpl never.
Arguments N.eqb : simpl never.
Arguments N.min : simpl never.

Definition two63 : N := 9223372036854775808.

Lemma w64_small : forall n, n < two64 -> w64 n = n.
Proof. intros n H. unfold w64. apply N.mod_small. exact H. Qed.

Lemma sub64_ge : forall a b, b <= a -> sub64 a b = a - b.
Proof. intros a b H. unfold sub64. destruct (N.leb_spec b a); [reflexivity|lia]. Qed.

Lemma sub64_lt : forall a b, a < b -> sub64 a b = a + two64 - b.
Proof. intros a b H. unfold sub64. destruct (N.leb_spec b a); [lia|reflexivity]. Qed.

(* [ps] tiles [m, e): contiguous, every piece non-empty *)
Inductive tiles : N -> N -> list (N * N) -> Prop :=
| tiles_nil : forall m, tiles m m []
| tiles_cons : forall m n e r, 1 <= n -> tiles (m + n) e r -> tiles m e ((m, n) :: r).

Lemma part_at_inside : forall start limit part i,
  1 <= part -> i * part < limit -> start + limit < two64 -> limit < two63 ->
  part_at start limit part i = Some (start + i * part, N.min part (limit - i * part)).
Proof.
  intros start limit part i Hp Hi Hs Hl. unfold part_at.
  assert (Hip : i * part < two64) by (unfold two64, two63 in *; lia).
  rewrite (w64_small (i * part)) by exact Hip.
  rewrite (w64_small (start + limit)) by exact Hs.
  rewrite (w64_small (start + i * part)) by lia.
  rewrite sub64_ge by lia.
  destruct (N.ltb_spec (start + limit) (start + i * part)); [lia|].
  destruct (N.eqb_spec (N.min part (limit - i * part)) 0); [lia|].
  reflexivity.
Qed.

Lemma part_at_outside : forall start limit part i,
  limit <= i * part -> i * part < two63 -> start + limit < two64 -> start < two63 ->
  part_at start limit part i = None.
Proof.
  intros start limit part i Hi Hip Hs Hst. unfold part_at.
  assert (Hip' : i * part < two64) by (unfold two64, two63 in *; lia).
  rewrite (w64_small (i * part)) by exact Hip'.
  rewrite (w64_small (start + limit)) by exact Hs.
  rewrite (w64_small (start + i * part)) by (unfold two64, two63 in *; lia).
  destruct (N.eq_dec limit (i * part)) as [E|E].
  - rewrite sub64_ge by lia. replace (limit - i * part) with 0 by lia.
    replace (N.min part 0) with 0 by lia.
    rewrite N.eqb_refl. rewrite orb_true_r. reflexivity.
  - destruct (N.ltb_spec (start + limit) (start + i * part)); [reflexivity|lia].
Qed.

Lemma parts_from_outside : forall fuel start limit part i,
  limit <= i * part -> (i + N.of_nat fuel) * part < two63 ->
  start + limit < two64 -> start < two63 ->
  parts_from fuel i start limit part = [].
Proof.
  induction fuel as [|f IH]; intros start limit part i Hi Hb Hs Hst; [reflexivity|].
  cbn [parts_from]. rewrite part_at_outside; [|lia|nia|lia|lia].
  apply IH; [nia|nia|lia|lia].
Qed.

Lemma parts_from_tiles : forall fuel start limit part i,
  1 <= part -> i * part <= limit -> limit <= (i + N.of_nat fuel) * part ->
  (i + N.of_nat fuel) * part < two63 ->
  start + limit < two64 -> start < two63 -> limit < two63 ->
  tiles (start + i * part) (start + limit) (parts_from fuel i start limit part).
Proof.
  induction fuel as [|f IH]; intros start limit part i Hp Hi Hc Hb Hs Hst Hl.
  - cbn [parts_from]. replace (i * part) with limit by (cbn in Hc; nia). constructor.
  - cbn [parts_from].
    destruct (N.eq_dec (i * part) limit) as [E|E].
    + rewrite part_at_outside by lia.
      rewrite parts_from_outside; [|nia|nia|lia|lia]. rewrite E. constructor.
    + rewrite part_at_inside by lia.
      constructor; [lia|].
      destruct (N.le_gt_cases ((i + 1) * part) limit) as [L|L].
      * replace (N.min part (limit - i * part)) with part by lia.
        replace (start + i * part + part) with (start + (i + 1) * part) by lia.
        apply IH; try lia; nia.
      * replace (N.min part (limit - i * part)) with (limit - i * part) by lia.
        replace (start + i * part + (limit - i * part)) with (start + limit) by lia.
        rewrite parts_from_outside; [constructor|lia|nia|lia|lia].
Qed.

Lemma ceil_div_bound : forall b c, 1 <= c -> b <= c * ((b + c - 1) / c) /\ c * ((b + c - 1) / c) < b + c.
Proof.
  intros b c Hc.
  pose proof (N.div_mod (b + c - 1) c ltac:(lia)) as E.
  pose proof (N.mod_upper_bound (b + c - 1) c ltac:(lia)) as U.
  split; lia.
Qed.

(* C01: all batch x conc, through the load arithmetic *)
Lemma partitions_tile : forall c start limit,
  cfg_ok c -> 1 <= limit -> limit <= t_batch c -> start < two63 ->
  tiles start (start + limit) (partitions repaired c start limit).
Proof.
  intros c start limit (Hb & Hc & Hbc & _ & _) Hl1 Hl2 Hs.
  unfold partitions, part_size. cbn [v_ceil repaired].
  pose proof (ceil_div_bound (t_batch c) (t_conc c) Hc) as [B1 B2].
  assert (Hp : 1 <= (t_batch c + t_conc c - 1) / t_conc c).
  { destruct (N.eq_dec ((t_batch c + t_conc c - 1) / t_conc c) 0) as [E|E]; [|lia].
    rewrite E in B1. lia. }
  assert (H63 : nmax = 2305843009213693952) by reflexivity.
  assert (T : two63 = 9223372036854775808) by reflexivity.
  assert (T64 : two64 = 18446744073709551616) by reflexivity.
  replace start with (start + 0 * ((t_batch c + t_conc c - 1) / t_conc c)) at 1 by lia.
  apply parts_from_tiles; rewrite ?N2Nat.id; try lia.
Qed.

(* the pieces are non-empty, so there is at least one partition *)
Lemma tiles_nonempty : forall m e ps, tiles m e ps -> m < e -> ps <> [].
Proof. intros m e ps H L. destruct H; [lia|discriminate]. Qed.

(* legacy arithmetic: batch < conc gives no partition at all *)
Lemma legacy_partitions_empty :
  partitions legacy (Task 1 1 2 3 1 0 1 4 [] true true) 1 1 = [].
Proof. vm_compute. reflexivity. Qed.
(* ... and a non-divisible pair loads fewer blocks than asked *)
Lemma legacy_partitions_short :
  partitions legacy (Task 1 1 2 3 1 0 10 3 [] true true) 1 10 = [(1,3);(4,3);(7,3)].
Proof. vm_compute. reflexivity. Qed.
Lemma repaired_partitions_example :
  partitions repaired (Task 1 1 2 3 1 0 10 3 [] true true) 1 10 = [(1,4);(5,4);(9,2)]
  /\ partitions repaired (Task 1 1 2 3 1 0 1 4 [] true true) 1 1 = [(1,1)].
Proof. vm_compute. split; reflexivity. Qed.
