(* The lemmas that Properties/C11.v states as theorems. *)
From Coq Require Import String Ascii List NArith ZArith Bool Lia ZifyBool ZifyN ZifyNat.
From Shovel Require Import Base.Outcome Model.Hex Model.Filter Model.Rows Proofs.FilterP Proofs.RowsP.
Import ListNotations.
Open Scope N_scope.

Lemma indexed_input_l d dbs e l rows r pre inp post :
  process_log fixed d dbs e l = Ok rows -> In r rows ->
  d_inputs d = pre ++ inp :: post -> selected inp = true -> i_indexed inp = true ->
  exists tp, nth_error (l_topics l) (1 + count i_indexed pre) = Some tp /\
             nth_error r (count selected pre) = Some (dbtype fixed (i_type inp) (Some tp)).
Proof.
  intros H Hr E S I. destruct (process_log_row_spec _ _ _ _ _ _ H Hr) as [_ [[_ X]|[_ X]]].
  - destruct X as [srows [i [srow [_ [_ [_ [Hin _]]]]]]]. destruct (Hin _ _ _ E S) as [A B].
    unfold spec_input_cell in *. rewrite I in *.
    destruct (nth_error (l_topics l) (1 + count i_indexed pre)) as [tp|]; [|contradiction B; reflexivity].
    exists tp. split; [reflexivity|exact A].
  - destruct X as [_ [Hin _]]. destruct (Hin _ _ _ E S) as [A B].
    unfold spec_input_cell in *. rewrite I in *.
    destruct (nth_error (l_topics l) (1 + count i_indexed pre)) as [tp|]; [|contradiction B; reflexivity].
    exists tp. split; [reflexivity|exact A].
Qed.

Lemma data_input_l d dbs e l rows r pre inp post :
  process_log fixed d dbs e l = Ok rows -> In r rows ->
  d_inputs d = pre ++ inp :: post -> selected inp = true -> i_indexed inp = false ->
  exists srows i srow c,
    l_scan l = Ok srows /\ nth_error srows i = Some srow /\
    nth_error srow (count is_data pre) = Some c /\
    nth_error r (count selected pre) = Some (dbtype fixed (i_type inp) c).
Proof.
  intros H Hr E S I. destruct (process_log_row_spec _ _ _ _ _ _ H Hr) as [_ [[_ X]|[_ X]]].
  - destruct X as [srows [i [srow [Hs [Hi [_ [Hin _]]]]]]]. destruct (Hin _ _ _ E S) as [A B].
    unfold spec_input_cell in *. rewrite I in *.
    destruct (nth_error srow (count is_data pre)) as [c|] eqn:Ec; [|contradiction B; reflexivity].
    exists srows, i, srow, c. repeat split; assumption.
  - destruct X as [_ [Hin _]]. destruct (Hin _ _ _ E S) as [A B].
    unfold spec_input_cell in *. rewrite I in *. destruct (count is_data pre); contradiction B; reflexivity.
Qed.

(* candidates in decoded-row order; candidate i carries abi_idx = i *)
Lemma abi_idx_l d dbs e l rows :
  process_log fixed d dbs e l = Ok rows -> gate d l = true -> l_data l <> [] ->
  exists srows cands,
    l_scan l = Ok srows /\ length cands = length srows /\ rows = concat (map emit cands) /\
    forall i c, nth_error cands i = Some c ->
      forall k bd, nth_error (d_block d) k = Some bd -> bd_name bd = s2b "abi_idx" ->
        nth_error (fst c) (num_selected d + k) = Some (VInt (Z.of_nat i)).
Proof.
  intros H G D. destruct (process_log_data _ _ _ _ _ _ H G D) as [srows [cands [S [L [E Hn]]]]].
  exists srows, cands. repeat split; try assumption.
  intros i c Hc k bd Hk Hname.
  assert (Hlt : (i < length srows)%nat) by (rewrite <- L; apply nth_error_Some; congruence).
  destruct (nth_error srows i) as [srow|] eqn:Es; [|apply nth_error_None in Es; lia].
  destruct (Hn i srow Es) as [c' [Hc' Hd]]. rewrite Hc in Hc'. injection Hc' as <-.
  destruct c as [cells fr]. apply data_cells_inv in Hd. destruct Hd as [rs [_ [_ [_ Hj]]]].
  pose proof (coldefs_bd_nth d k bd Hk) as N.
  destruct (Hj _ _ N) as [v [rr [Hv [_ [Hrel _]]]]]. simpl. rewrite Hv.
  unfold data_cell_rel in Hrel.
  assert (Hne : bd_name bd <> []) by (rewrite Hname; discriminate).
  destruct (bd_coldef_flags (d_table_cols d) bd Hne) as [F1 F2]. rewrite F1, F2 in Hrel.
  simpl in Hrel. rewrite Hname in Hrel. simpl in Hrel. rewrite Hrel. reflexivity.
Qed.


Lemma block_field_log d c dbs blocks rows r :
  indexing fixed d = IxLog -> insert fixed d c dbs blocks = Ok rows -> In r rows ->
  exists b t l, In b blocks /\ In t (b_txs b) /\ In l (t_logs t) /\
    enclosing_fields d c b t (Some l) None (num_selected d) r.
Proof.
  intros M H Hr. destruct (insert_log_rows _ _ _ _ _ _ _ M H Hr) as [b [t [l [rs [Hi [Hp Hrs]]]]]].
  apply log_items_In in Hi. destruct Hi as [Hb [Ht Hl]].
  exists b, t, l. split; [exact Hb|]. split; [exact Ht|]. split; [exact Hl|].
  intros k bd f Hk Hname.
  assert (Hne : bd_name bd <> []) by (rewrite Hname; apply field_name_nonempty).
  destruct (process_log_row_spec _ _ _ _ _ _ Hp Hrs) as [_ [[_ X]|[_ X]]].
  - destruct X as [srows [i [srow [_ [_ [_ [_ Hbd]]]]]]]. destruct (Hbd _ _ Hk Hne) as [A B].
    pose proof (spec_block_cell_field f _ _ _ _ _ _ _ _ Hname B) as Q. rewrite Q in A, B. split; assumption.
  - destruct X as [_ [_ Hbd]]. destruct (Hbd _ _ Hk Hne) as [A B].
    pose proof (spec_block_cell_field f _ _ _ _ _ _ _ _ Hname B) as Q. rewrite Q in A, B. split; assumption.
Qed.

Lemma block_field_tx d c dbs blocks rows r :
  indexing fixed d = IxTx -> insert fixed d c dbs blocks = Ok rows -> In r rows ->
  exists b t, In b blocks /\ In t (b_txs b) /\ enclosing_fields d c b t None None 0 r.
Proof.
  intros M H Hr. destruct (insert_tx_rows _ _ _ _ _ _ _ M H Hr) as [b [t [rs [Hi [Hp Hrs]]]]].
  apply tx_items_In in Hi. destruct Hi as [Hb Ht].
  exists b, t. split; [exact Hb|]. split; [exact Ht|].
  intros k bd f Hk Hname.
  destruct (process_tx_row_spec _ _ _ _ _ Hp Hrs) as [_ [_ Hbd]]. destruct (Hbd _ _ Hk) as [A B].
  pose proof (spec_block_cell_field f _ _ _ _ _ _ _ _ Hname B) as Q. rewrite Q in A, B. split; assumption.
Qed.

Lemma block_field_trace d c dbs blocks rows r :
  indexing fixed d = IxTrace -> insert fixed d c dbs blocks = Ok rows -> In r rows ->
  exists b t a, In b blocks /\ In t (b_txs b) /\ In a (t_traces t) /\
    enclosing_fields d c b t None (Some a) 0 r.
Proof.
  intros M H Hr. destruct (insert_trace_rows _ _ _ _ _ _ _ M H Hr) as [b [t [a [rs [Hi [Hp Hrs]]]]]].
  apply trace_items_In in Hi. destruct Hi as [Hb [Ht Ha]].
  exists b, t, a. split; [exact Hb|]. split; [exact Ht|]. split; [exact Ha|].
  intros k bd f Hk Hname.
  destruct (process_tx_row_spec _ _ _ _ _ Hp Hrs) as [_ [_ Hbd]]. destruct (Hbd _ _ Hk) as [A B].
  pose proof (spec_block_cell_field f _ _ _ _ _ _ _ _ Hname B) as Q. rewrite Q in A, B. split; assumption.
Qed.

(* the column list handed to COPY follows the declaration: selected inputs, then block data *)
Lemma input_coldefs_cols cols ins : forall n,
  map cd_col (input_coldefs cols ins n) = map (fun i => get_col cols (i_column i)) (filter selected ins).
Proof.
  induction ins as [|x r IH]; intros n; simpl; [reflexivity|].
  destruct (selected x); simpl; rewrite IH; reflexivity.
Qed.

Lemma get_col_present cols name : In name cols -> get_col cols name = name.
Proof. intros H. unfold get_col. apply mem_In in H. rewrite H. reflexivity. Qed.

Lemma copy_columns_l d :
  (forall i, In i (d_inputs d) -> selected i = true -> In (i_column i) (d_table_cols d)) ->
  (forall bd, In bd (d_block d) -> In (bd_column bd) (d_table_cols d)) ->
  copy_columns d = map i_column (filter selected (d_inputs d)) ++ map bd_column (d_block d).
Proof.
  intros Hi Hb. unfold copy_columns, coldefs. rewrite map_app, input_coldefs_cols, map_map. f_equal.
  - apply map_ext_in. intros i Hin. apply filter_In in Hin. destruct Hin as [Hin Hs].
    apply get_col_present. apply Hi; assumption.
  - apply map_ext_in. intros bd Hin. simpl. apply get_col_present. apply Hb. exact Hin.
Qed.

(* every width: the w-bit pattern of z, sign-extended as the ABI prescribes, is stored as z *)
Lemma typing_int_width rest w z :
  0 < w <= 256 -> (- 2 ^ (Z.of_N w - 1) <= z < 2 ^ (Z.of_N w - 1))%Z ->
  cell_of (dbtype fixed (s2b "int" ++ rest)
                  (Some (word_of_N (sign_extend w (Z.to_N (z mod 2 ^ Z.of_N w)))))) = CInt z.
Proof.
  intros Hw Hz. rewrite sign_extend_twos by assumption. apply dbtype_int.
  assert (P : (2 ^ (Z.of_N w - 1) <= Z.of_N two255)%Z).
  { unfold two255. rewrite N2Z.inj_pow. apply Z.pow_le_mono_r; lia. }
  lia.
Qed.

Lemma typing_uint_l rest v : v < two256 ->
  cell_of (dbtype fixed (s2b "uint" ++ rest) (Some (word_of_N v))) = CInt (Z.of_N v).
Proof. intros H. rewrite dbtype_uint by exact H. reflexivity. Qed.

(* ---- the unrepaired code ---- *)

Lemma topic_statement_fixed : topic_statement fixed.
Proof. unfold topic_statement. intros. eapply indexed_input_l; eassumption. Qed.


Lemma legacy_topic_refuted_l : ~ topic_statement legacy_topic.
Proof.
  intros T.
  assert (P1 : process_log legacy_topic w_decl []
                 (mk_env w_ctx w_decl w_block w_tx (Some w_log_data) None) w_log_data = Ok [[VU256 1]])
    by apply legacy_topic_witness_data.
  assert (P2 : In [VU256 1] [[VU256 1]]) by (left; reflexivity).
  destruct (T _ _ _ _ _ _ [w_inp true ""] (w_inp true "b") [] P1 P2 eq_refl eq_refl eq_refl)
    as [tp [H1 H2]].
  vm_compute in H1. injection H1 as <-. vm_compute in H2. discriminate.
Qed.
