(* Lemmas about Model/Filter.v (C12; used by C11 as well). *)
From Coq Require Import String Ascii List NArith ZArith Bool Lia ZifyBool ZifyN ZifyNat.
From Shovel Require Import Base.Outcome Model.Hex Model.Filter.
Import ListNotations.
Open Scope N_scope.
Local Arguments N.add : simpl never.
Local Arguments N.sub : simpl never.
Local Arguments N.mul : simpl never.
Local Arguments N.leb : simpl never.
Local Arguments N.ltb : simpl never.
Local Arguments N.pow : simpl never.
Local Arguments N.modulo : simpl never.

Lemma bytes_eqb_refl a : bytes_eqb a a = true.
Proof. unfold bytes_eqb. induction a as [|x a IH]; simpl; [reflexivity|]. rewrite N.eqb_refl. exact IH. Qed.

Lemma bytes_eqb_eq a b : bytes_eqb a b = true <-> a = b.
Proof.
  split.
  - unfold bytes_eqb. revert b. induction a as [|x a IH]; intros [|y b] H; simpl in H; try discriminate; [reflexivity|].
    apply andb_true_iff in H. destruct H as [H1 H2]. apply N.eqb_eq in H1. subst y.
    f_equal. apply IH. exact H2.
  - intros ->. apply bytes_eqb_refl.
Qed.

Lemma bytes_eqb_neq a b : bytes_eqb a b = false <-> a <> b.
Proof.
  split.
  - intros H E. apply bytes_eqb_eq in E. congruence.
  - intros H. destruct (bytes_eqb a b) eqn:E; [|reflexivity]. apply bytes_eqb_eq in E. contradiction.
Qed.

Lemma mem_In x l : mem x l = true <-> In x l.
Proof.
  unfold mem. rewrite existsb_exists. split.
  - intros [y [Hy E]]. apply bytes_eqb_eq in E. subst. exact Hy.
  - intros H. exists x. split; [exact H|apply bytes_eqb_refl].
Qed.

(* ---- sub-slice containment ---- *)
Lemma has_prefix_spec p s : has_prefix p s = true <-> exists q, s = p ++ q.
Proof.
  revert s. induction p as [|x p IH]; intros s; simpl.
  - split; [intros _; exists s; reflexivity|reflexivity].
  - destruct s as [|y s].
    + split; [discriminate|intros [q H]; discriminate].
    + rewrite andb_true_iff, N.eqb_eq, IH. split.
      * intros [-> [q ->]]. exists q. reflexivity.
      * intros [q H]. injection H as -> ->. split; [reflexivity|exists q; reflexivity].
Qed.

Lemma contains_spec s sub : contains s sub = true <-> exists p q, s = p ++ sub ++ q.
Proof.
  induction s as [|x s IH].
  - simpl. rewrite orb_false_r, has_prefix_spec. split.
    + intros [q H]. exists [], q. exact H.
    + intros [p [q H]]. destruct p; simpl in H; [exists q; exact H|discriminate].
  - simpl. rewrite orb_true_iff, has_prefix_spec, IH. split.
    + intros [[q H]|[p [q H]]].
      * exists [], q. exact H.
      * exists (x :: p), q. simpl. rewrite H. reflexivity.
    + intros [p [q H]]. destruct p as [|y p]; simpl in H.
      * left. exists q. exact H.
      * right. injection H as -> H. exists p, q. exact H.
Qed.

Lemma contains_nil s : contains s [] = true.
Proof. apply contains_spec. exists [], s. reflexivity. Qed.

(* for arguments as long as the value, containment is equality *)
Lemma contains_same_length s sub :
  length s = length sub -> contains s sub = bytes_eqb s sub.
Proof.
  intros L. destruct (contains s sub) eqn:C.
  - apply contains_spec in C. destruct C as [p [q H]].
    assert (Hl : length s = (length p + (length sub + length q))%nat)
      by (rewrite H, !app_length; reflexivity).
    assert (p = []) by (destruct p; [reflexivity|simpl in Hl; lia]).
    assert (q = []) by (destruct q; [reflexivity|simpl in Hl; lia]).
    subst. simpl. rewrite app_nil_r. symmetry. apply bytes_eqb_refl.
  - symmetry. apply bytes_eqb_neq. intros ->.
    assert (contains sub sub = true) by (apply contains_spec; exists [], []; simpl; rewrite app_nil_r; reflexivity).
    congruence.
Qed.

(* ---- filterResults ---- *)
Lemma frs_add_idem k fr b : frs_add k (frs_add k fr b) b = frs_add k fr b.
Proof.
  unfold frs_add. destruct (fr_set fr); simpl; f_equal; destruct k, (fr_val fr), b; reflexivity.
Qed.

Lemma frs_fold_set k rs : forall fr, fr_set fr = true ->
  fold_left (frs_add k) rs fr =
  {| fr_set := true;
     fr_val := if k then fr_val fr && forallb (fun b => b) rs else fr_val fr || existsb (fun b => b) rs |}.
Proof.
  induction rs as [|b rs IH]; intros fr Hs; simpl.
  - destruct fr as [s v]; simpl in *; subst. destruct k; [rewrite andb_true_r|rewrite orb_false_r]; reflexivity.
  - rewrite IH; [|unfold frs_add; rewrite Hs; reflexivity].
    unfold frs_add. rewrite Hs. simpl. f_equal. destruct k; [rewrite andb_assoc|rewrite orb_assoc]; reflexivity.
Qed.

(* the accumulator computes the declared aggregation; nothing added accepts *)
Lemma frs_fold_agg k rs : frs_accept (fold_left (frs_add k) rs frs0) = agg k rs.
Proof.
  destruct rs as [|b rs]; [reflexivity|].
  simpl fold_left. unfold frs_add at 2. simpl.
  rewrite frs_fold_set by reflexivity. unfold frs_accept, agg. simpl. reflexivity.
Qed.

Definition frs_step (k : bool) (fr : frs) (r : option bool) : frs :=
  match r with Some b => frs_add k fr b | None => fr end.

Lemma frs_steps_somes k rs : forall fr,
  fold_left (frs_step k) rs fr = fold_left (frs_add k) (somes rs) fr.
Proof.
  induction rs as [|[b|] rs IH]; intros fr; simpl; [reflexivity| |]; apply IH.
Qed.

(* Accept adds exactly the one decision of [filter_result] (the second add of
   the contains branch changes nothing) *)
Lemma accept_spec k d f v fr :
  accept k d f v fr = (do r <- filter_result d f v; Ok (frs_step k fr r)).
Proof.
  unfold accept, filter_result.
  destruct (is_nil (f_args f) && is_nil (f_ref_ig f)); [reflexivity|].
  destruct v as [o|s|n|n|n|b|n|z|]; try reflexivity.
  - destruct (has_suffix (s2b "contains") (f_op f)).
    + destruct (negb (is_nil (f_ref_table f))).
      * destruct (db_lookup d (f_ref_table f) (f_ref_col f)); simpl; [|reflexivity].
        rewrite frs_add_idem. reflexivity.
      * simpl. rewrite frs_add_idem. reflexivity.
    + destruct (op_is f "eq") eqn:E1; simpl.
      * destruct (op_is f "ne") eqn:E2; [|reflexivity].
        unfold op_is in *. apply bytes_eqb_eq in E1, E2. rewrite E1 in E2. discriminate.
      * destruct (op_is f "ne"); reflexivity.
  - destruct (op_is f "contains"); [reflexivity|].
    destruct (op_is f "!contains"); [reflexivity|].
    destruct (op_is f "eq"); [destruct (f_args f); reflexivity|].
    destruct (op_is f "ne"); [destruct (f_args f); reflexivity|reflexivity].
  - destruct (f_args f) as [|a ?]; [reflexivity|]. destruct (parse_u64 a); [|reflexivity].
    destruct (op_is f "eq"); [reflexivity|]. destruct (op_is f "ne"); [reflexivity|].
    destruct (op_is f "gt"); [reflexivity|]. destruct (op_is f "lt"); reflexivity.
  - destruct (f_args f) as [|a ?]; [reflexivity|]. destruct (parse_u256 a); [|reflexivity].
    destruct (op_is f "eq"); [reflexivity|]. destruct (op_is f "ne"); [reflexivity|].
    destruct (op_is f "gt"); [reflexivity|]. destruct (op_is f "lt"); reflexivity.
Qed.

Lemma filter_result_inactive d f v :
  is_nil (f_args f) && is_nil (f_ref_ig f) = true -> filter_result d f v = Ok None.
Proof. intros H. unfold filter_result. rewrite H. reflexivity. Qed.

(* ---- decimal arguments ---- *)
Definition dec_val (ds : list N) : N := fold_left (fun a d => a * 10 + d) ds 0.
Definition digit_chars (ds : list N) : bytes := map (fun d => 48 + d) ds.

Lemma dec_digits_from ds : Forall (fun d => d < 10) ds -> forall acc,
  fold_left (fun acc c =>
               match acc with
               | None => None
               | Some n => if (48 <=? c) && (c <=? 57) then Some (n * 10 + (c - 48)) else None
               end) (digit_chars ds) (Some acc)
  = Some (fold_left (fun a d => a * 10 + d) ds acc).
Proof.
  induction 1 as [|d ds Hd _ IH]; intros acc; simpl; [reflexivity|].
  replace ((48 <=? 48 + d) && (48 + d <=? 57)) with true by lia.
  replace (48 + d - 48) with d by lia. apply IH.
Qed.

(* a non-empty string of decimal digits (leading zeros allowed) below the
   bound parses to its value; at or above the bound it is an error *)
Lemma parse_dec_exact bound ds :
  ds <> [] -> Forall (fun d => d < 10) ds ->
  parse_dec bound (digit_chars ds) = if dec_val ds <? bound then Some (dec_val ds) else None.
Proof.
  intros Hne Hd. unfold parse_dec, dec_digits. rewrite dec_digits_from by exact Hd.
  destruct ds; [contradiction|reflexivity].
Qed.

Lemma parse_dec_nondigit bound a :
  Exists (fun c => c < 48 \/ 57 < c) a -> parse_dec bound a = None.
Proof.
  intros H. unfold parse_dec. destruct a as [|c0 a0]; [reflexivity|].
  assert (E : dec_digits (c0 :: a0) = None).
  { unfold dec_digits. generalize (Some 0). induction H as [c r Hc|c r _ IH]; intros acc; simpl.
    - destruct acc; [replace ((48 <=? c) && (c <=? 57)) with false by lia|];
        (clear; induction r; simpl; auto).
    - apply IH. }
  rewrite E. reflexivity.
Qed.
