(* C09: the (repaired) type parser returns, for the ABI JSON of every type, the
   decoder type that JSON denotes: T[k] for every k, bytes vs bytesN, bytes[],
   string[], tuples, arrays of tuples, any nesting; and the selected positions
   it assigns are 0 .. n-1 in order. *)
From Coq Require Import String Ascii.
From Coq Require Import List NArith ZArith Bool Lia ZifyN ZifyNat ZifyBool.
From Shovel Require Import Base.Outcome Model.AbiType Model.AbiParse.
Import ListNotations.
Open Scope N_scope.
Ltac Zify.zify_post_hook ::= Z.div_mod_to_equations.

(* ---- decimal numbers ---- *)
Definition atoi_step (acc : option N) (c : N) : option N :=
  match acc with
  | Some n => if (48 <=? c) && (c <=? 57) then Some (n * 10 + (c - 48)) else None
  | None => None
  end.
Definition is_digit (c : N) : Prop := 48 <= c <= 57.

Lemma digits_fuel_spec fuel : forall n, (N.to_nat (N.log2 n) < fuel)%nat ->
  fold_left atoi_step (digits_fuel fuel n) (Some 0) = Some n /\
  Forall is_digit (digits_fuel fuel n) /\ digits_fuel fuel n <> [].
Proof.
  induction fuel as [|fuel IH]; intros n Hf; [lia|]. cbn [digits_fuel].
  destruct (n <? 10) eqn:E.
  - cbn [fold_left atoi_step]. replace ((48 <=? 48 + n) && (48 + n <=? 57)) with true by lia.
    split; [f_equal; lia|]. split; [|discriminate]. constructor; [unfold is_digit; lia|constructor].
  - assert (Hlog : (N.to_nat (N.log2 (n / 10)) < fuel)%nat).
    { assert (n / 10 <= n / 2) by (apply N.div_le_compat_l; lia).
      assert (N.log2 (n / 2) = N.log2 n - 1).
      { rewrite <- N.div2_div. rewrite N.div2_spec. rewrite N.log2_shiftr. reflexivity. }
      assert (N.log2 (n / 10) <= N.log2 (n / 2)) by (apply N.log2_le_mono; assumption).
      assert (1 <= N.log2 n). { change 1 with (N.log2 2). apply N.log2_le_mono. lia. }
      lia. }
    destruct (IH (n / 10) Hlog) as (H1 & H2 & H3).
    rewrite fold_left_app, H1. cbn [fold_left atoi_step].
    replace ((48 <=? 48 + n mod 10) && (48 + n mod 10 <=? 57)) with true by lia.
    split; [f_equal; lia|]. split.
    + apply Forall_app. split; [exact H2|]. constructor; [unfold is_digit; lia|constructor].
    + intros Habs. apply app_eq_nil in Habs. destruct Habs as [_ Habs]. discriminate.
Qed.

Lemma digits_spec n : atoi (digits n) = Some n /\ Forall is_digit (digits n) /\ digits n <> [].
Proof.
  unfold digits. destruct (digits_fuel_spec (S (N.to_nat (N.log2 n))) n ltac:(lia)) as (H1 & H2 & H3).
  split; [|split; assumption]. unfold atoi.
  destruct (digits_fuel (S (N.to_nat (N.log2 n))) n) eqn:E; [congruence|]. exact H1.
Qed.

(* ---- strings ---- *)
Definition nobr (s : bytes) : Prop := Forall (fun c => c <> LBR /\ c <> RBR) s.

Lemma digits_nobr n : nobr (digits n).
Proof.
  destruct (digits_spec n) as (_ & H & _). unfold nobr. eapply Forall_impl; [|exact H].
  intros c Hc. unfold is_digit, LBR, RBR in *. lia.
Qed.

Lemma nobr_app a b : nobr a -> nobr b -> nobr (a ++ b).
Proof. intros. apply Forall_app. split; assumption. Qed.

Lemma contains_nobr s : nobr s -> contains_byte RBR s = false.
Proof.
  unfold contains_byte. induction 1 as [|c s [_ Hc] _ IH]; cbn [existsb]; [reflexivity|]. rewrite IH.
  replace (RBR =? c) with false by (unfold RBR in *; lia). reflexivity.
Qed.

Lemma contains_app_r a b : contains_byte RBR (a ++ b ++ [RBR]) = true.
Proof.
  unfold contains_byte. rewrite !existsb_app. cbn. rewrite !orb_true_r. reflexivity.
Qed.

Lemma take_while_ne_app a b : Forall (fun c => c <> LBR) a -> take_while_ne LBR (a ++ LBR :: b) = a.
Proof.
  induction 1 as [|c a Hc _ IH]; cbn [app take_while_ne].
  - replace (LBR =? LBR) with true by reflexivity. reflexivity.
  - replace (c =? LBR) with false by (unfold LBR in *; lia). rewrite IH. reflexivity.
Qed.

Lemma cut_before_app a b : Forall (fun c => c <> LBR) a -> (b = [] \/ exists b', b = LBR :: b') ->
  cut_before LBR (a ++ b) = a.
Proof.
  intros Ha Hb. induction Ha as [|c a Hc _ IH]; cbn [app cut_before].
  - destruct Hb as [->|(b' & ->)]; [reflexivity|]. cbn. reflexivity.
  - replace (c =? LBR) with false by (unfold LBR in *; lia). rewrite IH. reflexivity.
Qed.

Lemma dims_str_head ds : dims_str ds = [] \/ exists b', dims_str ds = LBR :: b'.
Proof. destruct ds as [|k ds]; [left; reflexivity|right]. cbn. eauto. Qed.

Lemma dims_str_app a b : dims_str (a ++ b) = dims_str a ++ dims_str b.
Proof. unfold dims_str. apply flat_map_app. Qed.

Lemma removelast_snoc {A} (l : list A) x : removelast (l ++ [x]) = l.
Proof. apply removelast_last. Qed.

Lemma firstn_app_exact {A} (a b : list A) n : n = length a -> firstn n (a ++ b) = a.
Proof. intros ->. rewrite firstn_app, Nat.sub_diag, firstn_all. cbn. apply app_nil_r. Qed.

Lemma dims_str_length ds : (length ds <= length (dims_str ds))%nat.
Proof.
  induction ds as [|k ds IH]; [cbn; lia|].
  change (dims_str (k :: ds)) with (dim_str k ++ dims_str ds). rewrite app_length.
  unfold dim_str. rewrite app_length. cbn [length]. lia.
Qed.

(* parseArray on "<name><suffixes>" *)
Lemma parse_array_dims elm name : nobr name -> name <> [] ->
  forall ds fuel, (length ds < fuel)%nat ->
    parse_array false fuel elm (name ++ dims_str ds) = Ok (wrap_dims ds elm).
Proof.
  intros Hn Hne ds. induction ds as [|k ds IH] using rev_ind; intros fuel Hf.
  - destruct fuel; [cbn in Hf; lia|]. cbn [parse_array dims_str flat_map]. rewrite app_nil_r.
    rewrite contains_nobr by exact Hn. reflexivity.
  - destruct fuel as [|fuel]; [cbn in Hf; lia|]. rewrite app_length in Hf. cbn [length] in Hf.
    set (num := if k =? 0 then [] else digits k).
    assert (Hs : name ++ dims_str (ds ++ [k]) = (name ++ dims_str ds) ++ LBR :: num ++ [RBR]).
    { rewrite dims_str_app. cbn [dims_str flat_map dim_str]. rewrite app_nil_r.
      unfold num. rewrite <- !app_assoc. reflexivity. }
    rewrite Hs. set (pre := name ++ dims_str ds) in *.
    assert (Hnum : Forall (fun c => c <> LBR) num).
    { unfold num. destruct (k =? 0); [constructor|].
      eapply Forall_impl; [|apply digits_nobr]. intros c [H _]. exact H. }
    destruct name as [|c0 name']; [congruence|].
    cbn [parse_array].
    replace (contains_byte RBR (pre ++ LBR :: num ++ [RBR])) with true
      by (symmetry; change (LBR :: num ++ [RBR]) with ((LBR :: num) ++ [RBR]); apply contains_app_r).
    cbn [negb].
    assert (Hpre : exists pre', pre = c0 :: pre') by (unfold pre; cbn; eauto).
    destruct Hpre as (pre' & Hpre).
    assert (Hback : take_while_ne LBR (rev (removelast (tl (pre ++ LBR :: num ++ [RBR])))) = rev num).
    { rewrite Hpre. cbn [app tl].
      replace (pre' ++ LBR :: num ++ [RBR]) with ((pre' ++ LBR :: num) ++ [RBR]) by (rewrite <- app_assoc; reflexivity).
      rewrite removelast_snoc, rev_app_distr. cbn [rev]. rewrite <- app_assoc. cbn [app].
      apply take_while_ne_app. apply Forall_rev. exact Hnum. }
    assert (Hshape : match pre ++ LBR :: num ++ [RBR] with [_] => False | _ => True end).
    { rewrite Hpre. cbn. destruct (pre' ++ LBR :: num ++ [RBR]) eqn:E; [|exact I].
      apply app_eq_nil in E. destruct E as [_ E]. discriminate. }
    destruct (pre ++ LBR :: num ++ [RBR]) as [|x [|y rest]] eqn:Es;
      [exfalso; rewrite Hpre in Es; discriminate|contradiction|].
    rewrite <- Es in *. clear Hshape.
    rewrite Hback, rev_involutive.
    assert (Hlen : length (pre ++ LBR :: num ++ [RBR]) = (length pre + length num + 2)%nat).
    { rewrite !app_length. cbn [length]. rewrite app_length. cbn. lia. }
    unfold num in *. destruct (k =? 0) eqn:Ek.
    + assert (k = 0) by lia. subst k.
      rewrite firstn_app_exact by (rewrite Hlen; cbn; lia).
      unfold pre. rewrite IH by lia. cbn [bind]. unfold wrap_dims. rewrite fold_left_app. reflexivity.
    + destruct (digits_spec k) as (Ha & _ & Hne').
      destruct (digits k) as [|d0 dr] eqn:Ed; [congruence|]. rewrite <- Ed in *.
      rewrite Ha.
      rewrite firstn_app_exact by (rewrite Hlen; lia).
      unfold pre. rewrite IH by lia. cbn [bind]. unfold wrap_dims. rewrite fold_left_app. reflexivity.
Qed.

(* ---- elementary names ---- *)
Lemma str_nobr_digits p n : nobr p -> nobr (p ++ digits n).
Proof. intros. apply nobr_app; [assumption|apply digits_nobr]. Qed.

Ltac nobr_lit := unfold nobr; apply Forall_forall; intros c Hc; vm_compute in Hc; unfold LBR, RBR; intuition lia.

Lemma ename_nobr n : nobr (ename_str n) /\ ename_str n <> [].
Proof.
  destruct n; cbn [ename_str]; (split; [|discriminate]);
    try (apply str_nobr_digits); nobr_lit.
Qed.

Lemma leaf_dynamic_ename n ds : leaf_dynamic false (ename_str n ++ dims_str ds) = ename_dynamic n.
Proof.
  unfold leaf_dynamic.
  assert (Hcut : cut_before LBR (ename_str n ++ dims_str ds) = ename_str n).
  { apply cut_before_app; [|apply dims_str_head].
    destruct (ename_nobr n) as [H _]. eapply Forall_impl; [|exact H]. intros c [Hc _]. exact Hc. }
  rewrite Hcut.
  destruct n; cbn [ename_str ename_dynamic]; try reflexivity.
  (* bytesN: "bytes" ++ digits is not "bytes" *)
  destruct (digits_spec n) as (_ & _ & Hne). destruct (digits n); [congruence|]. reflexivity.
Qed.

(* ---- induction over the JSON type AST ---- *)
Section JtyInd.
  Variable P : jty -> Prop.
  Hypothesis He : forall ix n sel ds, P (JElem ix n sel ds).
  Hypothesis Ht : forall ix cs ds, Forall P cs -> P (JTuple ix cs ds).
  Fixpoint jty_ind' (j : jty) : P j :=
    match j with
    | JElem ix n sel ds => He ix n sel ds
    | JTuple ix cs ds =>
        Ht ix cs ds ((fix go (l : list jty) : Forall P l :=
                        match l with
                        | [] => Forall_nil _
                        | x :: r => Forall_cons _ (jty_ind' x) (go r)
                        end) cs)
    end.
End JtyInd.

Lemma tuple_nobr : nobr (str "tuple") /\ str "tuple" <> [].
Proof. split; [nobr_lit|discriminate]. Qed.

(* Input.ABIType on the JSON of [j] is the type [j] denotes *)
Lemma abi_type_json j : wf_jty j = true -> forall pos, abi_type false (json_of j) pos = Ok (aty_of j pos).
Proof.
  induction j as [ix n sel ds|ix cs ds IH] using jty_ind'; intros Hwf pos.
  - cbn [json_of abi_type aty_of]. rewrite leaf_dynamic_ename. cbn [bind fst snd].
    destruct (ename_nobr n) as [Hn Hne].
    rewrite parse_array_dims; [|exact Hn|exact Hne|].
    2:{ rewrite app_length. pose proof (dims_str_length ds). lia. }
    cbn [bind]. destruct sel; reflexivity.
  - cbn [wf_jty] in Hwf. apply andb_prop in Hwf. destruct Hwf as [Hne Hall].
    destruct cs as [|c0 cs']; [discriminate|]. clear Hne.
    cbn [json_of abi_type aty_of].
    set (comps := c0 :: cs') in *.
    assert (Hgo : forall p,
      (fix go (l : list inp) (p : nat) {struct l} : outcome (nat * list aty) :=
         match l with
         | [] => Ok (p, [])
         | c :: l' => do x <- abi_type false c p; do y <- go l' (fst x); Ok (fst y, snd x :: snd y)
         end) (map json_of comps) p
      = Ok ((fix go (l : list jty) (p : nat) {struct l} : nat * list aty :=
               match l with
               | [] => (p, [])
               | c :: l' => let x := aty_of c p in let y := go l' (fst x) in (fst y, snd x :: snd y)
               end) comps p)).
    { clearbody comps. clear - IH Hall. induction IH as [|c cs Hc _ IH2]; intros p; [reflexivity|].
      cbn [forallb] in Hall. apply andb_prop in Hall. destruct Hall as [H1 H2].
      cbn [map]. rewrite (Hc H1 p). cbn [bind]. rewrite (IH2 H2). cbn [bind]. reflexivity. }
    change (map json_of comps) with (json_of c0 :: map json_of cs') at 1.
    cbv iota. change (json_of c0 :: map json_of cs') with (map json_of comps).
    rewrite Hgo. cbn [bind fst snd].
    destruct tuple_nobr as [Hn Hne].
    rewrite parse_array_dims; [|exact Hn|exact Hne|].
    2:{ rewrite app_length. pose proof (dims_str_length ds). lia. }
    reflexivity.
Qed.

(* Event.ABIType *)
Lemma event_fields_json js : forallb wf_jty js = true ->
  forall pos, event_fields false (map json_of js) pos = Ok (decl_fields js pos).
Proof.
  induction js as [|j js IH]; intros Hwf pos; [reflexivity|].
  cbn [forallb] in Hwf. apply andb_prop in Hwf. destruct Hwf as [H1 H2].
  cbn [map event_fields decl_fields].
  assert (Hix : i_indexed (json_of j) = j_indexed j) by (destruct j; reflexivity).
  rewrite Hix. destruct (j_indexed j); [apply IH; exact H2|].
  rewrite (abi_type_json j H1 pos). cbn [bind]. rewrite (IH H2). reflexivity.
Qed.

Lemma abi_type_of_print_l name js : forallb wf_jty js = true ->
  event_type false (mkevent name (map json_of js)) = Ok (decl_type js).
Proof.
  intros Hwf. unfold event_type, decl_type. cbn [ev_inputs]. rewrite (event_fields_json js Hwf). reflexivity.
Qed.

(* ---- the positions are 0 .. n-1 in order ---- *)
Lemma selected_wrap ds base : selected (wrap_dims ds base) = selected base.
Proof.
  unfold wrap_dims. revert base. induction ds as [|k ds IH]; intros base; [reflexivity|].
  cbn [fold_left]. rewrite IH. reflexivity.
Qed.

Lemma seq_split p a b : (p <= a)%nat -> (a <= b)%nat -> seq p (a - p) ++ seq a (b - a) = seq p (b - p).
Proof.
  intros H1 H2. replace (b - p)%nat with ((a - p) + (b - a))%nat by lia. rewrite seq_app.
  f_equal. f_equal. lia.
Qed.

Lemma aty_of_selected j : forall pos,
  (pos <= fst (aty_of j pos))%nat /\ selected (snd (aty_of j pos)) = seq pos (fst (aty_of j pos) - pos).
Proof.
  induction j as [ix n sel ds|ix cs ds IH] using jty_ind'; intros pos.
  - cbn [aty_of fst snd]. rewrite selected_wrap. destruct sel; destruct (ename_dynamic n); cbn [selected];
      (split; [lia|]); try (replace (S pos - pos)%nat with 1%nat by lia; reflexivity);
      replace (pos - pos)%nat with 0%nat by lia; reflexivity.
  - cbn [aty_of fst snd]. rewrite selected_wrap. cbn [selected].
    revert pos. induction IH as [|c cs Hc _ IH2]; intros pos.
    + cbn. split; [lia|]. replace (pos - pos)%nat with 0%nat by lia. reflexivity.
    + cbn [flat_map fst snd]. destruct (Hc pos) as [H1 H2]. destruct (IH2 (fst (aty_of c pos))) as [H3 H4].
      cbn [fst snd] in *. split; [lia|]. rewrite H2, H4. apply seq_split; lia.
Qed.

Lemma decl_fields_selected js : forall pos,
  exists n, flat_map selected (decl_fields js pos) = seq pos n.
Proof.
  induction js as [|j js IH]; intros pos; [exists 0%nat; reflexivity|].
  cbn [decl_fields]. destruct (j_indexed j); [apply IH|].
  cbn [flat_map]. destruct (aty_of_selected j pos) as [H1 H2]. destruct (IH (fst (aty_of j pos))) as [n Hn].
  cbn [fst snd]. rewrite H2, Hn. exists ((fst (aty_of j pos) - pos) + n)%nat. rewrite seq_app.
  f_equal. f_equal. lia.
Qed.

Lemma decl_type_sel_ok js : sel_ok (ncols_of (decl_type js)) (decl_type js).
Proof.
  unfold sel_ok, ncols_of, decl_type. cbn [selected].
  destruct (decl_fields_selected js 0) as [n Hn]. rewrite Hn, seq_length.
  apply Forall_forall. intros p Hp. apply in_seq in Hp. lia.
Qed.
