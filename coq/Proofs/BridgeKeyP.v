(* Bridge unique key <-> rows: proofs for Model/BridgeKey.v.
   A. Config side: AddRequiredFields in closed form; the generated key of a
      user_plain declaration is [cfg_key]; which block fields write it.
   B. Transfer along [same_decl] to the Rows-level declaration: [key_written].
   C. Rows side: the projection of a declared row to the key columns is
      [key_cells] of (integration, source, block number, ikey); injectivity.
   D. Composition with the rows->task bridge; witnesses; the ERC-20 example. *)
From Coq Require Import String List NArith ZArith Bool Lia ZifyBool ZifyN ZifyNat.
From Shovel Require Model.Config Model.Schema Model.ConfigGen Proofs.ConfigP Proofs.SchemaP.
From Shovel Require Model.TaskTypes Model.TaskSpec Proofs.BridgeRowsTaskP.
From Shovel Require Import Base.Outcome Model.Hex Model.Filter Model.Rows Proofs.RowsP
  Model.BridgeRowsTask Model.BridgeKey.
Import ListNotations.
Open Scope N_scope.

(* ================= 0. small things ================= *)
Lemma beqb_eq (a b : bytes) : bytes_eqb a b = true -> a = b.
Proof. apply ConfigP.list_eqb_N_eq. Qed.
Lemma beqb_refl (a : bytes) : bytes_eqb a a = true.
Proof. apply ConfigP.str_eqb_refl. Qed.
Lemma beqb_neq (a b : bytes) : a <> b -> bytes_eqb a b = false.
Proof. intros H. destruct (bytes_eqb a b) eqn:E; [apply beqb_eq in E; contradiction|reflexivity]. Qed.
Lemma beqb_sym (a b : bytes) : bytes_eqb a b = bytes_eqb b a.
Proof.
  destruct (bytes_eqb a b) eqn:E.
  - apply beqb_eq in E. subst. symmetry. apply beqb_refl.
  - destruct (bytes_eqb b a) eqn:E'; [|reflexivity]. apply beqb_eq in E'. subst.
    rewrite beqb_refl in E. discriminate E.
Qed.
Lemma cmem_In (s : bytes) l : Config.mem s l = true <-> In s l.
Proof. split; [apply ConfigP.mem_In|apply ConfigP.In_mem]. Qed.
Lemma cmem_false (s : bytes) l : Config.mem s l = false <-> ~ In s l.
Proof.
  split.
  - intros H Hin. apply cmem_In in Hin. congruence.
  - intros H. destruct (Config.mem s l) eqn:E; [apply cmem_In in E; contradiction|reflexivity].
Qed.

Lemma in_key_of_guards s dt tr k :
  In k (key_of_guards s dt tr) <->
  k = kn_ig \/ k = kn_src \/ k = kn_block \/ k = kn_tx
  \/ (k = kn_log /\ s = true) \/ (k = kn_abi /\ dt = true) \/ (k = kn_trace /\ tr = true).
Proof.
  unfold key_of_guards. split.
  - intros H. cbn [app In] in H. destruct H as [<-|[<-|[<-|[<-|H]]]]; auto 7.
    apply in_app_or in H. destruct H as [H|H].
    { destruct s; [|destruct H]. destruct H as [<-|[]]. do 4 right. left. split; reflexivity. }
    apply in_app_or in H. destruct H as [H|H].
    { destruct dt; [|destruct H]. destruct H as [<-|[]]. do 5 right. left. split; reflexivity. }
    destruct tr; [|destruct H]. destruct H as [<-|[]]. do 6 right. split; reflexivity.
  - intros H. cbn [app In].
    destruct H as [->|[->|[->|[->|[[-> ->]|[[-> ->]|[-> ->]]]]]]]; auto.
    + do 4 right. apply in_or_app. left. left. reflexivity.
    + do 4 right. apply in_or_app. right. apply in_or_app. left. left. reflexivity.
    + do 4 right. apply in_or_app. right. apply in_or_app. right. left. reflexivity.
Qed.

Lemma key_of_guards_id s dt tr k : In k (key_of_guards s dt tr) -> In k id_names.
Proof.
  intros H. apply in_key_of_guards in H. unfold id_names. cbn [In].
  destruct H as [->|[->|[->|[->|[[-> _]|[[-> _]|[-> _]]]]]]]; auto 8.
Qed.

Lemma map_eq_in {A B} (f g : A -> B) l x : map f l = map g l -> In x l -> f x = g x.
Proof.
  induction l as [|y l IH]; intros H Hx; [destruct Hx|]. cbn [map] in H. injection H as H0 H.
  destruct Hx as [<-|Hx]; [exact H0|apply IH; assumption].
Qed.

Lemma nodup_map_eq {A B} (f : A -> B) l x y :
  NoDup (map f l) -> In x l -> In y l -> f x = f y -> x = y.
Proof.
  induction l as [|z l IH]; intros Hn Hx Hy E; [destruct Hx|].
  cbn [map] in Hn. inversion Hn as [|? ? Hz Hn']; subst.
  destruct Hx as [<-|Hx]; destruct Hy as [<-|Hy]; try reflexivity.
  - exfalso. apply Hz. rewrite E. apply in_map, Hy.
  - exfalso. apply Hz. rewrite <- E. apply in_map, Hx.
  - apply IH; assumption.
Qed.

Lemma nodupb_NoDup l : Config.nodupb l = true -> NoDup l.
Proof.
  induction l as [|x l IH]; intros H; [constructor|]. cbn [Config.nodupb] in H.
  apply andb_prop in H. destruct H as [Hx Hl]. constructor; [|apply IH, Hl].
  apply negb_true_iff in Hx. apply cmem_false, Hx.
Qed.

Lemma Forall2_nth_l {A B} (R : A -> B -> Prop) l l' j x :
  Forall2 R l l' -> nth_error l j = Some x -> exists y, nth_error l' j = Some y /\ R x y.
Proof.
  intros F. revert j. induction F as [|a b l l' Hab _ IH]; intros j H; [destruct j; discriminate H|].
  destruct j as [|j]; cbn [nth_error] in *.
  - injection H as <-. exists b. split; [reflexivity|exact Hab].
  - apply IH, H.
Qed.
Lemma Forall2_nth_r {A B} (R : A -> B -> Prop) l l' j y :
  Forall2 R l l' -> nth_error l' j = Some y -> exists x, nth_error l j = Some x /\ R x y.
Proof.
  intros F. revert j. induction F as [|a b l l' Hab _ IH]; intros j H; [destruct j; discriminate H|].
  destruct j as [|j]; cbn [nth_error] in *.
  - injection H as <-. exists a. split; [reflexivity|exact Hab].
  - apply IH, H.
Qed.
Lemma Forall2_In_r {A B} (R : A -> B -> Prop) l l' y :
  Forall2 R l l' -> In y l' -> exists x, In x l /\ R x y.
Proof.
  intros F Hy. apply In_nth_error in Hy. destruct Hy as [j Hj].
  destruct (Forall2_nth_r _ _ _ _ _ F Hj) as [x [Hx Rx]]. exists x. split; [|exact Rx].
  apply nth_error_In in Hx. exact Hx.
Qed.

(* ================= A. Config side ================= *)
Lemma gen_tables_standard :
  Config.g_required ConfigGen.G = std_required /\ Config.g_possible ConfigGen.G = id_names.
Proof. vm_compute. split; reflexivity. Qed.

Lemma has_prefix_same p s : Config.has_prefix p s = has_prefix p s.
Proof. revert s. induction p as [|a p IH]; intros [|b s]; cbn; try reflexivity; try (rewrite IH; reflexivity). Qed.

(* one add(name, type) *)
Lemma add_field_block n t g :
  Config.ig_block (Config.add_field n t g)
  = Config.ig_block g ++ (if Config.has_bd n g then []
                          else [{| Config.bd_name := n; Config.bd_col := n; Config.bd_flt := Config.no_filter |}]).
Proof. unfold Config.add_field. cbn [Config.ig_block]. destruct (Config.has_bd n g); [rewrite app_nil_r|]; reflexivity. Qed.

Lemma add_field_has_col n t g x :
  Config.has_col x (Config.ig_table (Config.add_field n t g))
  = Config.has_col x (Config.ig_table g) || Config.str_eqb x n.
Proof.
  unfold Config.add_field. cbn [Config.ig_table]. destruct (Config.has_col n (Config.ig_table g)) eqn:E.
  - unfold Config.has_col, Config.col_names in *. cbn [Config.t_cols].
    destruct (Config.str_eqb x n) eqn:Ex; [|rewrite orb_false_r; reflexivity].
    apply ConfigP.str_eqb_eq in Ex. subst x. rewrite E. reflexivity.
  - unfold Config.has_col, Config.col_names, Config.mem. cbn [Config.t_cols].
    rewrite map_app, existsb_app. cbn [map existsb Config.c_name]. rewrite orb_false_r. reflexivity.
Qed.

Lemma add_field_has_bd n t g x :
  Config.has_bd x (Config.add_field n t g) = Config.has_bd x g || Config.str_eqb x n.
Proof.
  unfold Config.has_bd at 1. rewrite add_field_block. rewrite existsb_app.
  fold (Config.has_bd x g). destruct (Config.has_bd n g) eqn:E.
  - cbn [existsb]. rewrite orb_false_r.
    destruct (Config.str_eqb x n) eqn:Ex; [|rewrite orb_false_r; reflexivity].
    apply ConfigP.str_eqb_eq in Ex. subst x. rewrite E. reflexivity.
  - cbn [existsb Config.bd_name]. rewrite orb_false_r. rewrite (SchemaP.str_eqb_sym n x). reflexivity.
Qed.

(* a list of unconditional adds *)
Lemma add_fields_cons nt l g : add_fields (nt :: l) g = add_fields l (Config.add_field (fst nt) (snd nt) g).
Proof. reflexivity. Qed.

Lemma add_fields_keeps l : forall g,
  Config.ig_inputs (add_fields l g) = Config.ig_inputs g
  /\ Config.ig_name (add_fields l g) = Config.ig_name g
  /\ Config.t_unique (Config.ig_table (add_fields l g)) = Config.t_unique (Config.ig_table g).
Proof.
  induction l as [|nt l IH]; intros g; [repeat split; reflexivity|]. rewrite add_fields_cons.
  destruct (IH (Config.add_field (fst nt) (snd nt) g)) as [H1 [H2 H3]]. rewrite H1, H2, H3.
  repeat split; reflexivity.
Qed.

Lemma add_fields_has_col l : forall g x,
  Config.has_col x (Config.ig_table (add_fields l g))
  = Config.has_col x (Config.ig_table g) || Config.mem x (map fst l).
Proof.
  induction l as [|nt l IH]; intros g x; [cbn; rewrite orb_false_r; reflexivity|].
  rewrite add_fields_cons, IH, add_field_has_col. cbn [map Config.mem existsb].
  fold (Config.mem x (map fst l)). rewrite orb_assoc. reflexivity.
Qed.

Lemma add_fields_has_bd l : forall g x,
  Config.has_bd x (add_fields l g) = Config.has_bd x g || Config.mem x (map fst l).
Proof.
  induction l as [|nt l IH]; intros g x; [cbn; rewrite orb_false_r; reflexivity|].
  rewrite add_fields_cons, IH, add_field_has_bd. cbn [map Config.mem existsb].
  fold (Config.mem x (map fst l)). rewrite orb_assoc. reflexivity.
Qed.

Lemma add_fields_block l : forall g, exists extra,
  Config.ig_block (add_fields l g) = Config.ig_block g ++ extra
  /\ Forall (fun b => Config.bd_col b = Config.bd_name b /\ In (Config.bd_name b) (map fst l)) extra.
Proof.
  induction l as [|nt l IH]; intros g.
  - exists []. split; [cbn; rewrite app_nil_r; reflexivity|constructor].
  - rewrite add_fields_cons. destruct (IH (Config.add_field (fst nt) (snd nt) g)) as [ex [E F]].
    rewrite add_field_block in E. rewrite <- app_assoc in E. eexists. split; [exact E|].
    apply Forall_app. split.
    + destruct (Config.has_bd (fst nt) g); constructor; [|constructor].
      cbn [Config.bd_col Config.bd_name map]. split; [reflexivity|left; reflexivity].
    + eapply Forall_impl; [|exact F]. intros b [Hc Hn]. split; [exact Hc|right; exact Hn].
Qed.

(* AddRequiredFields over the regenerated table = the closed form *)
Lemma arf_always n t r g :
  Config.add_required_fields ((Config.GAlways, n, t) :: r) g
  = Config.add_required_fields r (Config.add_field n t g).
Proof. reflexivity. Qed.
Lemma arf_sel n t r g :
  Config.add_required_fields ((Config.GAnySelected, n, t) :: r) g
  = Config.add_required_fields r (if cfg_sel g then Config.add_field n t g else g).
Proof. reflexivity. Qed.
Lemma arf_data n t r g :
  Config.add_required_fields ((Config.GAnySelectedNotIndexed, n, t) :: r) g
  = Config.add_required_fields r (if cfg_data g then Config.add_field n t g else g).
Proof. reflexivity. Qed.
Lemma arf_trace n t r g :
  Config.add_required_fields ((Config.GAnyBlockPrefix (s2b "trace_"), n, t) :: r) g
  = Config.add_required_fields r (if cfg_trace g then Config.add_field n t g else g).
Proof. reflexivity. Qed.

Lemma cfg_trace_add_field n t g :
  Config.has_prefix (Config.s2r "trace_") n = false ->
  cfg_trace (Config.add_field n t g) = cfg_trace g.
Proof.
  intros H. unfold cfg_trace. rewrite add_field_block, existsb_app.
  destruct (Config.has_bd n g); cbn [existsb Config.bd_name]; rewrite ?H; rewrite ?orb_false_r; reflexivity.
Qed.

Lemma arf_closed g :
  Config.add_required_fields std_required g
  = add_fields (req_closed (cfg_sel g) (cfg_data g) (cfg_trace g)) g.
Proof.
  unfold std_required. rewrite !arf_always, arf_sel.
  set (g4 := Config.add_field kn_tx _ _).
  change (cfg_sel g4) with (cfg_sel g).
  assert (T4 : cfg_trace g4 = cfg_trace g).
  { unfold g4. rewrite !cfg_trace_add_field by reflexivity. reflexivity. }
  rewrite arf_data.
  set (g5 := if cfg_sel g then _ else _).
  assert (D5 : cfg_data g5 = cfg_data g) by (unfold g5; destruct (cfg_sel g); reflexivity).
  assert (T5 : cfg_trace g5 = cfg_trace g).
  { unfold g5. destruct (cfg_sel g); [rewrite cfg_trace_add_field by reflexivity|]; exact T4. }
  rewrite D5, arf_trace.
  set (g6 := if cfg_data g then _ else _).
  assert (T6 : cfg_trace g6 = cfg_trace g).
  { unfold g6. destruct (cfg_data g); [rewrite cfg_trace_add_field by reflexivity|]; exact T5. }
  rewrite T6. unfold g6, g5, g4.
  destruct (cfg_sel g), (cfg_data g), (cfg_trace g); reflexivity.
Qed.

Lemma req_closed_names s dt tr : map fst (req_closed s dt tr) = key_of_guards s dt tr.
Proof. destruct s, dt, tr; reflexivity. Qed.

Lemma filter_key_of_guards s dt tr :
  filter (fun p => Config.mem p (key_of_guards s dt tr)) id_names = key_of_guards s dt tr.
Proof. destruct s, dt, tr; vm_compute; reflexivity. Qed.

(* the user_plain clauses, as propositions *)
Lemma user_plain_inv g : user_plain g = true ->
  (forall b, In b (Config.ig_block g) ->
     (In (Config.bd_name b) id_names -> Config.bd_col b = Config.bd_name b)
     /\ (In (Config.bd_col b) id_names -> Config.bd_name b = Config.bd_col b))
  /\ (forall i, In i (Config.selected (Config.ig_inputs g)) -> ~ In (Config.i_col i) id_names)
  /\ (forall n, In n id_names -> Config.has_col n (Config.ig_table g) = true \/ Config.has_bd n g = true ->
                In n (cfg_key g)).
Proof.
  unfold user_plain. intros H. apply andb_prop in H. destruct H as [H H3].
  apply andb_prop in H. destruct H as [H1 H2].
  rewrite forallb_forall in H1, H2, H3. split; [|split].
  - intros b Hb. specialize (H1 b Hb). destruct (Config.mem (Config.bd_name b) id_names) eqn:E.
    + apply ConfigP.str_eqb_eq in H1. split; intros _; [exact H1|symmetry; exact H1].
    + apply cmem_false in E. apply negb_true_iff, cmem_false in H1. split; intros X; contradiction.
  - intros i Hi. specialize (H2 i Hi). apply negb_true_iff, cmem_false in H2. exact H2.
  - intros n Hn Hd. specialize (H3 n Hn). apply orb_prop in H3. destruct H3 as [H3|H3].
    + apply negb_true_iff, orb_false_elim in H3. destruct H3 as [A B]. destruct Hd; congruence.
    + apply cmem_In, H3.
Qed.

Lemma with_agg_same g a :
  user_plain (Config.with_agg g a) = user_plain g /\ cfg_key (Config.with_agg g a) = cfg_key g
  /\ Config.ig_block (Config.with_agg g a) = Config.ig_block g
  /\ Config.ig_inputs (Config.with_agg g a) = Config.ig_inputs g
  /\ Config.ig_table (Config.with_agg g a) = Config.ig_table g.
Proof. repeat split; reflexivity. Qed.

(* what fix_one leaves, for a user_plain declaration without a user key *)
Record key_facts (g g' : Config.integ) : Prop := {
  kf_unique : Config.t_unique (Config.ig_table g') = [cfg_key g];
  kf_inputs : Config.ig_inputs g' = Config.ig_inputs g;
  kf_name : Config.ig_name g' = Config.ig_name g;
  kf_trace : cfg_trace g' = cfg_trace g;
  kf_col : forall k, In k (cfg_key g) -> Config.has_col k (Config.ig_table g') = true;
  kf_colx : forall p, In p id_names -> Config.has_col p (Config.ig_table g') = Config.mem p (cfg_key g);
  kf_bd : forall k, In k (cfg_key g) -> Config.has_bd k g' = true;
  kf_bdcol : forall b, In b (Config.ig_block g') ->
     (In (Config.bd_name b) id_names -> Config.bd_col b = Config.bd_name b)
     /\ (In (Config.bd_col b) id_names -> Config.bd_name b = Config.bd_col b);
  kf_incol : forall i, In i (Config.selected (Config.ig_inputs g')) -> ~ In (Config.i_col i) id_names;
  kf_nodup : NoDup (map Config.bd_name (Config.ig_block g'));
  kf_valid : Config.validate_col_refs g' = true
}.

Lemma fix_one_key_facts g g' :
  user_plain g = true -> Config.t_unique (Config.ig_table g) = [] ->
  Config.fix_one ConfigGen.G g = Some g' -> key_facts g g'.
Proof.
  intros Hp Hu Hf. unfold Config.fix_one in Hf.
  destruct gen_tables_standard as [Ereq Epos]. rewrite Ereq, Epos in Hf.
  set (a := if Config.is_nil (Config.ig_agg g) then Config.s_or else Config.ig_agg g) in Hf.
  destruct (negb _) in Hf; [discriminate Hf|].
  rewrite arf_closed in Hf.
  destruct (with_agg_same g a) as [_ [_ [Wb [Wi Wt]]]].
  change (cfg_sel (Config.with_agg g a)) with (cfg_sel g) in Hf.
  change (cfg_data (Config.with_agg g a)) with (cfg_data g) in Hf.
  change (cfg_trace (Config.with_agg g a)) with (cfg_trace g) in Hf.
  set (L := req_closed (cfg_sel g) (cfg_data g) (cfg_trace g)) in Hf.
  set (g1 := add_fields L (Config.with_agg g a)) in Hf.
  destruct (Config.validate_col_refs _) eqn:Hv in Hf; [|discriminate Hf]. injection Hf as <-.
  destruct (user_plain_inv g Hp) as [P1 [P2 P3]].
  destruct (add_fields_keeps L (Config.with_agg g a)) as [K1 [K2 K3]]. fold g1 in K1, K2, K3.
  assert (Hnames : map fst L = cfg_key g) by apply req_closed_names.
  assert (Hcol : forall p, In p id_names ->
            Config.has_col p (Config.ig_table g1) = Config.mem p (cfg_key g)).
  { intros p Hin. unfold g1. rewrite add_fields_has_col, Hnames, Wt.
    destruct (Config.has_col p (Config.ig_table g)) eqn:E; [|reflexivity].
    symmetry. apply cmem_In. apply P3; [exact Hin|left; exact E]. }
  assert (Hgen : filter (fun p => Config.has_col p (Config.ig_table g1)) id_names = cfg_key g).
  { transitivity (filter (fun p => Config.mem p (cfg_key g)) id_names);
      [apply filter_ext_in, Hcol|apply filter_key_of_guards]. }
  assert (Hne : cfg_key g <> []) by (unfold cfg_key, key_of_guards; discriminate).
  assert (Htab : Config.add_unique_index id_names (Config.ig_table g1)
                 = {| Config.t_name := Config.t_name (Config.ig_table g1);
                      Config.t_cols := Config.t_cols (Config.ig_table g1);
                      Config.t_unique := [cfg_key g]; Config.t_index := Config.t_index (Config.ig_table g1) |}).
  { unfold Config.add_unique_index. rewrite K3, Wt, Hu. cbn [Config.is_nil negb]. rewrite Hgen.
    destruct (cfg_key g); [congruence|reflexivity]. }
  rewrite Htab in Hv |- *.
  set (g' := Config.with_table g1 _) in *.
  assert (Bg' : Config.ig_block g' = Config.ig_block g1) by reflexivity.
  assert (Cg' : forall x, Config.has_col x (Config.ig_table g') = Config.has_col x (Config.ig_table g1))
    by reflexivity.
  destruct (add_fields_block L (Config.with_agg g a)) as [extra [Eb Fx]]. fold g1 in Eb.
  rewrite Wb in Eb. rewrite Hnames in Fx. rewrite Forall_forall in Fx.
  constructor.
  - reflexivity.
  - change (Config.ig_inputs g') with (Config.ig_inputs g1). rewrite K1. exact Wi.
  - change (Config.ig_name g') with (Config.ig_name g1). rewrite K2. reflexivity.
  - unfold cfg_trace. rewrite Bg', Eb, existsb_app. fold (cfg_trace g).
    destruct (cfg_trace g) eqn:Et; [reflexivity|]. cbn [orb].
    destruct (existsb _ extra) eqn:Ex; [|reflexivity]. exfalso.
    apply existsb_exists in Ex. destruct Ex as [b [Hb Hpre]]. destruct (Fx b Hb) as [_ Hn].
    unfold cfg_key in Hn. rewrite Et in Hn. apply in_key_of_guards in Hn.
    destruct Hn as [E|[E|[E|[E|[[E _]|[[E _]|[_ E]]]]]]]; try discriminate E;
      rewrite E in Hpre; vm_compute in Hpre; discriminate Hpre.
  - intros k Hk. rewrite Cg', (Hcol k (key_of_guards_id _ _ _ _ Hk)). apply cmem_In, Hk.
  - intros p Hin. rewrite Cg'. apply Hcol, Hin.
  - intros k Hk. change (Config.has_bd k g') with (Config.has_bd k g1). unfold g1.
    rewrite add_fields_has_bd, Hnames. apply orb_true_intro. right. apply cmem_In, Hk.
  - intros b Hb. rewrite Bg', Eb in Hb. apply in_app_or in Hb. destruct Hb as [Hb|Hb]; [apply P1, Hb|].
    destruct (Fx b Hb) as [Hc _]. split; intros _; [exact Hc|symmetry; exact Hc].
  - intros i Hi. change (Config.ig_inputs g') with (Config.ig_inputs g1) in Hi. rewrite K1, Wi in Hi.
    apply P2, Hi.
  - apply nodupb_NoDup. unfold Config.validate_col_refs in Hv.
    repeat (apply andb_prop in Hv; destruct Hv as [Hv ?]). assumption.
  - exact Hv.
Qed.

(* ================= B. along same_decl ================= *)
Lemma id_names_nonempty k : In k id_names -> k <> [].
Proof.
  intros H E. subst k. vm_compute in H.
  repeat (destruct H as [H|H]; [discriminate H|]). exact H.
Qed.

Lemma same_inputs_guards cl rl : Forall2 same_input cl rl ->
  Config.is_nil (Config.selected cl) = (length (filter selected rl) =? 0)%nat
  /\ existsb (fun i => negb (Config.i_indexed i)) (Config.selected cl) = existsb is_data rl.
Proof.
  induction 1 as [|ci ri cl rl [Hi [Hc Hk]] _ [IH1 IH2]]; [split; reflexivity|].
  destruct ci as [ix n col f comps]. cbn [Config.i_indexed Config.i_col Config.i_comps] in Hi, Hc, Hk.
  subst comps. unfold Config.selected in *. cbn [flat_map Config.selected1 app filter existsb].
  unfold is_data, selected. rewrite <- Hc, <- Hi.
  destruct col as [|c0 col]; cbn [Config.is_nil is_nil negb andb app orb length Nat.eqb existsb Config.i_indexed].
  - split; [exact IH1|exact IH2].
  - split; [reflexivity|]. rewrite IH2. reflexivity.
Qed.

Lemma same_block_trace cl rl : Forall2 same_bd cl rl ->
  existsb (fun b => Config.has_prefix (Config.s2r "trace_") (Config.bd_name b)) cl
  = (0 <? length (filter (fun bd => has_prefix trace_pfx (bd_name bd)) rl))%nat.
Proof.
  induction 1 as [|cb rb cl rl [Hn _] _ IH]; [reflexivity|]. cbn [existsb filter].
  rewrite has_prefix_same, Hn. change (Config.s2r "trace_") with trace_pfx.
  destruct (has_prefix trace_pfx (bd_name rb)); [reflexivity|exact IH].
Qed.

Lemma same_decl_guards g d : same_decl g d ->
  has_sel d = cfg_sel g /\ has_data d = cfg_data g /\ has_trace d = cfg_trace g.
Proof.
  intros [_ [_ [Fi Fb]]]. destruct (same_inputs_guards _ _ Fi) as [H1 H2]. split; [|split].
  - unfold has_sel, cfg_sel, num_selected. rewrite H1.
    destruct (length (filter selected (d_inputs d))); reflexivity.
  - unfold has_data, cfg_data. symmetry. exact H2.
  - unfold has_trace, cfg_trace. rewrite (same_block_trace _ _ Fb). reflexivity.
Qed.

Lemma in_selected_top l ci : In ci l -> Config.i_col ci <> [] -> In ci (Config.selected l).
Proof.
  intros Hin Hne. unfold Config.selected. apply in_flat_map. exists ci. split; [exact Hin|].
  destruct ci as [ix n col f comps]. cbn [Config.selected1 Config.i_col] in *.
  apply in_or_app. right. destruct col; [congruence|left; reflexivity].
Qed.

Lemma input_coldefs_in cols ins : forall n cd, In cd (input_coldefs cols ins n) ->
  exists i, In i ins /\ selected i = true /\ cd_col cd = get_col cols (i_column i).
Proof.
  induction ins as [|i r IH]; intros n cd H; [destruct H|]. cbn [input_coldefs] in H.
  destruct (selected i) eqn:S.
  - destruct H as [<-|H].
    + exists i. split; [left; reflexivity|]. split; [exact S|reflexivity].
    + destruct (IH _ _ H) as [i' [A B]]. exists i'. split; [right; exact A|exact B].
  - destruct (IH _ _ H) as [i' [A B]]. exists i'. split; [right; exact A|exact B].
Qed.

Lemma get_col_eq cols c k : k <> [] -> get_col cols c = k -> c = k.
Proof. unfold get_col. intros Hk H. destruct (mem c cols); [exact H|congruence]. Qed.

Lemma get_col_in cols k : In k cols -> get_col cols k = k.
Proof.
  intros H. unfold get_col, mem. replace (existsb (bytes_eqb k) cols) with true; [reflexivity|].
  symmetry. apply existsb_exists. exists k. split; [exact H|apply beqb_refl].
Qed.

Lemma key_written_of_facts g g' d :
  key_facts g g' -> same_decl g' d ->
  identity_key d = cfg_key g /\ key_written d (cfg_key g).
Proof.
  intros K Hs. destruct (same_decl_guards _ _ Hs) as [G1 [G2 G3]].
  assert (Ekey : identity_key d = cfg_key g).
  { unfold identity_key, cfg_key. rewrite G1, G2, G3, (kf_trace _ _ K).
    unfold cfg_sel, cfg_data. rewrite (kf_inputs _ _ K). reflexivity. }
  split; [exact Ekey|]. split; [symmetry; exact Ekey|].
  destruct Hs as [_ [Hcols [Fi Fb]]].
  intros k Hk. assert (Hid : In k id_names) by apply (key_of_guards_id _ _ _ _ Hk).
  assert (Hne : k <> []) by apply (id_names_nonempty _ Hid).
  assert (Hin : In k (d_table_cols d)).
  { rewrite Hcols. apply cmem_In. apply (kf_col _ _ K k Hk). }
  split; [exact Hin|].
  pose proof (kf_bd _ _ K k Hk) as Hb. unfold Config.has_bd in Hb. apply existsb_exists in Hb.
  destruct Hb as [cb [Hcb Hname]]. apply ConfigP.str_eqb_eq in Hname.
  apply In_nth_error in Hcb. destruct Hcb as [j Hj].
  destruct (Forall2_nth_l _ _ _ _ _ Fb Hj) as [rb [Hrb [Rn Rc]]].
  assert (Hcbcol : Config.bd_col cb = k).
  { destruct (kf_bdcol _ _ K cb (nth_error_In _ _ Hj)) as [A _]. rewrite <- Hname. apply A.
    rewrite Hname. exact Hid. }
  exists j, rb. split; [exact Hrb|]. split; [congruence|]. split; [congruence|].
  intros p Hp. unfold copy_columns in Hp. rewrite nth_error_map in Hp.
  destruct (nth_error (coldefs d) p) as [cd|] eqn:Ecd; [|discriminate Hp]. cbn [option_map] in Hp.
  injection Hp as Hcd. unfold coldefs in Ecd.
  destruct (Nat.lt_ge_cases p (length (input_coldefs (d_table_cols d) (d_inputs d) 0))) as [Hlt|Hge].
  - exfalso. rewrite nth_error_app1 in Ecd by exact Hlt. apply nth_error_In in Ecd.
    destruct (input_coldefs_in _ _ _ _ Ecd) as [ri [Hri [Sri Eri]]].
    rewrite Eri in Hcd. apply (get_col_eq _ _ _ Hne) in Hcd.
    destruct (Forall2_In_r _ _ _ _ Fi Hri) as [ci [Hci [_ [Cc _]]]].
    apply (kf_incol _ _ K ci).
    + apply in_selected_top; [exact Hci|]. rewrite Cc, Hcd. exact Hne.
    + rewrite Cc, Hcd. exact Hid.
  - rewrite nth_error_app2 in Ecd by exact Hge. rewrite num_selected_length in Ecd, Hge.
    rewrite nth_error_map in Ecd.
    destruct (nth_error (d_block d) (p - num_selected d)) as [rb'|] eqn:Erb'; [|discriminate Ecd].
    cbn [option_map] in Ecd. injection Ecd as <-. cbn [bd_coldef cd_col] in Hcd.
    apply (get_col_eq _ _ _ Hne) in Hcd.
    destruct (Forall2_nth_r _ _ _ _ _ Fb Erb') as [cb' [Hcb' [Rn' Rc']]].
    assert (Hn' : Config.bd_name cb' = k).
    { destruct (kf_bdcol _ _ K cb' (nth_error_In _ _ Hcb')) as [_ B]. rewrite B; [congruence|].
      rewrite Rc', Hcd. exact Hid. }
    assert (Ejj : j = (p - num_selected d)%nat).
    { pose proof (kf_nodup _ _ K) as Nd. rewrite NoDup_nth_error in Nd. apply Nd.
      - rewrite map_length. apply nth_error_Some. congruence.
      - rewrite !nth_error_map, Hj, Hcb'. cbn [option_map]. congruence. }
    lia.
Qed.

(* which columns the key has, by indexing mode *)
Lemma indexing_guards d :
  indexing fixed d = if has_trace d then IxTrace else if has_sel d then IxLog else IxTx.
Proof. reflexivity. Qed.

Lemma has_data_sel d : has_data d = true -> has_sel d = true.
Proof.
  unfold has_data, has_sel, num_selected. intros H. apply existsb_exists in H.
  destruct H as [i [Hi Hd]]. unfold is_data in Hd. apply andb_prop in Hd. destruct Hd as [Hs _].
  assert (Hin : In i (filter selected (d_inputs d))) by (apply filter_In; split; assumption).
  destruct (filter selected (d_inputs d)); [destruct Hin|reflexivity].
Qed.

Lemma has_sel_false d : has_sel d = false -> num_selected d = 0%nat.
Proof. unfold has_sel. intros H. apply Nat.ltb_ge in H. lia. Qed.

Lemma mode_table_holds d : mode_table d.
Proof.
  unfold mode_table, identity_key. rewrite indexing_guards.
  destruct (has_trace d) eqn:Tr; [|destruct (has_sel d) eqn:S].
  - split; [discriminate|]. split; [discriminate|]. intros _. split.
    + intros S. rewrite S. destruct (has_data d) eqn:Dt; [apply has_data_sel in Dt; congruence|]. reflexivity.
    + intros S. split; [apply in_key_of_guards; auto 10|].
      intros c dbs bs rows Hins. destruct rows as [|r rows]; [reflexivity|exfalso].
      assert (M : indexing fixed d = IxTrace) by (rewrite indexing_guards, Tr; reflexivity).
      destruct (insert_trace_rows _ _ _ _ _ _ r M Hins (or_introl eq_refl)) as [b [t [a [rs [_ [Hp Hr]]]]]].
      unfold process_tx in Hp. unfold has_sel in S. rewrite S in Hp. injection Hp as <-. destruct Hr.
  - split; [discriminate|]. split; [|discriminate]. intros _. destruct (has_data d); reflexivity.
  - split; [|split; discriminate]. intros _.
    destruct (has_data d) eqn:Dt; [apply has_data_sel in Dt; congruence|]. reflexivity.
Qed.

(* (1) *)
Lemma default_unique_is_identity_key_lemma g g' d :
  user_plain g = true -> Config.t_unique (Config.ig_table g) = [] ->
  Config.fix_one ConfigGen.G g = Some g' -> same_decl g' d ->
  Config.t_unique (Config.ig_table g') = [identity_key d]
  /\ Schema.generated_key (Config.g_possible ConfigGen.G) g' = identity_key d
  /\ key_written d (identity_key d)
  /\ mode_table d.
Proof.
  intros Hp Hu Hf Hs. pose proof (fix_one_key_facts _ _ Hp Hu Hf) as K.
  destruct (key_written_of_facts _ _ _ K Hs) as [E W]. rewrite E.
  split; [apply (kf_unique _ _ K)|]. split; [|split; [exact W|apply mode_table_holds]].
  destruct gen_tables_standard as [_ ->]. unfold Schema.generated_key.
  transitivity (filter (fun p => Config.mem p (cfg_key g)) id_names); [|apply filter_key_of_guards].
  apply filter_ext_in. intros p Hin. apply (kf_colx _ _ K p Hin).
Qed.

(* ================= C. Rows side ================= *)
Lemma index_of_some k l : forall p, nth_error l p = Some k ->
  exists q, index_of k l = Some q /\ nth_error l q = Some k.
Proof.
  induction l as [|x l IH]; intros p H; [destruct p; discriminate H|]. cbn [index_of].
  destruct (bytes_eqb x k) eqn:E.
  - apply beqb_eq in E. subst x. exists O. split; reflexivity.
  - destruct p as [|p]; cbn [nth_error] in H.
    + injection H as ->. rewrite beqb_refl in E. discriminate E.
    + destruct (IH _ H) as [q [Hq Hn]]. exists (S q). rewrite Hq. split; [reflexivity|exact Hn].
Qed.

Lemma col_value_bd d k gr j bd :
  In k (d_table_cols d) -> nth_error (d_block d) j = Some bd -> bd_column bd = k ->
  (forall p, nth_error (copy_columns d) p = Some k -> p = (num_selected d + j)%nat) ->
  col_value d k gr = nth_error gr (num_selected d + j).
Proof.
  intros Hin Hj Hc Hun.
  assert (Hn : nth_error (copy_columns d) (num_selected d + j) = Some k).
  { unfold copy_columns. rewrite nth_error_map, (coldefs_bd_nth d j bd Hj). cbn [option_map bd_coldef cd_col].
    rewrite Hc, (get_col_in _ _ Hin). reflexivity. }
  destruct (index_of_some _ _ _ Hn) as [q [Hq Hnq]]. unfold col_value. rewrite Hq, (Hun q Hnq). reflexivity.
Qed.

(* the value of a key column bound to the field F of the enclosing item *)
Lemma cv_field d k gr f c b t lo ao :
  written_by_field d k -> k = s2b (field_name f) ->
  enclosing_fields d c b t lo ao (num_selected d) gr ->
  col_value d k gr = field_of f c (d_name d) b t lo ao.
Proof.
  intros [Hin [j [bd [Hj [Hn [Hc Hun]]]]]] Hk Hf.
  rewrite (col_value_bd d k gr j bd Hin Hj Hc Hun). apply (Hf j bd f Hj). congruence.
Qed.

(* what a declared row is, mode by mode, in one shape *)
Record row_shape (d : decl) (c : ctxr) (b : blockr) (k : ikey) (gr : list gval)
       (t : txr) (lo : option logr) (ao : option tracer) : Prop := {
  rs_t : In t (b_txs b);
  rs_tx : k_tx k = t_idx t;
  rs_enc : enclosing_fields d c b t lo ao (num_selected d) gr;
  rs_log : k_log k = option_map l_idx lo;
  rs_trace : k_trace k = option_map ta_idx ao;
  rs_lin : match lo with Some l => In l (t_logs t) | None => True end;
  rs_sel : has_sel d = true -> exists l, lo = Some l;
  rs_nsel : has_sel d = false -> lo = None;
  rs_tr : has_trace d = true -> exists a, ao = Some a;
  rs_ntr : has_trace d = false -> ao = None;
  rs_abi_d : has_data d = true ->
             exists i, k_abi k = Some i /\ col_value d kn_abi gr = Some (VInt (Z.of_nat i));
  rs_abi_n : has_data d = false ->
             match lo with
             | None => k_abi k = None
             | Some l => (l_data l = [] /\ k_abi k = None)
                         \/ (l_data l <> [] /\ exists srows i, l_scan l = Ok srows
                                                 /\ (i < length srows)%nat /\ k_abi k = Some i)
             end
}.

Lemma nodata_no_data_input d e l gr : has_data d = true -> row_spec d e l None [] gr -> False.
Proof.
  intros Hd [_ [Hin _]]. unfold has_data in Hd. apply existsb_exists in Hd. destruct Hd as [i [Hi Hdt]].
  apply in_split in Hi. destruct Hi as [pre [post E]]. unfold is_data in Hdt. apply andb_prop in Hdt.
  destruct Hdt as [Hs Hix]. apply negb_true_iff in Hix.
  destruct (Hin pre i post E Hs) as [_ Hne]. apply Hne. unfold spec_input_cell. rewrite Hix.
  destruct (count is_data pre); reflexivity.
Qed.

Lemma declared_row_shape d u c dbs b k gr :
  key_written d u -> declared_row d c dbs b k gr -> exists t lo ao, row_shape d c b k gr t lo ao.
Proof.
  intros [Eu Hw]. unfold declared_row. rewrite indexing_guards.
  assert (Hdata_sel := has_data_sel d).
  destruct (has_trace d) eqn:Tr; [|destruct (has_sel d) eqn:S].
  - (* trace *)
    intros [t [a [Ht [Ha [-> [Hf Hl]]]]]]. destruct (has_sel d) eqn:S.
    { exfalso. assert (Hk : In kn_log u) by (rewrite Eu; apply in_key_of_guards; rewrite S; auto 10).
      destruct (Hw _ Hk) as [_ [j [bd [Hj [Hn _]]]]].
      destruct (Hf j bd Flog_idx Hj Hn) as [_ B]. apply B. reflexivity. }
    rewrite <- (has_sel_false d S) in Hf.
    exists t, None, (Some a). constructor; cbn [k_tx k_log k_abi k_trace option_map].
    + exact Ht.
    + reflexivity.
    + exact Hf.
    + reflexivity.
    + reflexivity.
    + exact I.
    + intros Hcg. congruence.
    + intros _. reflexivity.
    + intros _. exists a. reflexivity.
    + intros Hcg. congruence.
    + intros Hd. apply Hdata_sel in Hd. discriminate Hd.
    + intros _. reflexivity.
  - (* log *)
    intros [t [l [Ht [Hl [K1 [K2 [K3 [Hf [G X]]]]]]]]].
    exists t, (Some l), None. constructor; cbn [option_map].
    + exact Ht.
    + exact K1.
    + exact Hf.
    + exact K2.
    + exact K3.
    + exact Hl.
    + intros _. exists l. reflexivity.
    + intros Hcg. congruence.
    + intros Hcg. congruence.
    + intros _. reflexivity.
    + intros Hd.
      assert (Hk : In kn_abi u) by (rewrite Eu; apply in_key_of_guards; rewrite Hd; auto 10).
      destruct (Hw _ Hk) as [Hin [j [bd [Hj [Hn [Hc Hun]]]]]].
      destruct X as [[_ [srows [i [srow [_ [_ [Ki [_ [_ Hbd]]]]]]]]]|[_ [_ Hs]]];
        [|exfalso; apply (nodata_no_data_input _ _ _ _ Hd Hs)].
      exists i. split; [exact Ki|].
      rewrite (col_value_bd d kn_abi gr j bd Hin Hj Hc Hun).
      assert (Hne : bd_name bd <> []) by (rewrite Hn; discriminate).
      destruct (Hbd j bd Hj Hne) as [A _]. rewrite A. unfold spec_block_cell. rewrite Hn. reflexivity.
    + intros _. destruct X as [[Hd [srows [i [srow [Hsc [Hnth [Ki _]]]]]]]|[Hd [Ki _]]].
      * right. split; [exact Hd|]. exists srows, i. split; [exact Hsc|]. split; [|exact Ki].
        apply nth_error_Some. congruence.
      * left. split; assumption.
  - (* tx *)
    intros [t [Ht [-> [Hf Hl]]]]. rewrite <- (has_sel_false d S) in Hf.
    exists t, None, None. constructor; cbn [k_tx k_log k_abi k_trace option_map].
    + exact Ht.
    + reflexivity.
    + exact Hf.
    + reflexivity.
    + reflexivity.
    + exact I.
    + intros Hcg. congruence.
    + intros _. reflexivity.
    + intros Hcg. congruence.
    + intros _. reflexivity.
    + intros Hd. apply Hdata_sel in Hd. discriminate Hd.
    + intros _. reflexivity.
Qed.

(* every key column holds the identity cell: a function of (ig, src, block number, ikey) *)
Lemma key_column_value d u c b k gr t lo ao k0 :
  key_written d u -> row_shape d c b k gr t lo ao -> In k0 u ->
  col_value d k0 gr = key_cell (d_name d) (c_src c) (b_num b) k k0
  /\ not_null (key_cell (d_name d) (c_src c) (b_num b) k k0).
Proof.
  intros [Eu Hw] R Hk0. pose proof (Hw _ Hk0) as W. rewrite Eu in Hk0. apply in_key_of_guards in Hk0.
  pose proof (rs_enc _ _ _ _ _ _ _ _ R) as Hf.
  destruct Hk0 as [->|[->|[->|[->|[[-> S]|[[-> Dt]|[-> Tr]]]]]]].
  - rewrite (cv_field d _ gr Fig_name c b t lo ao W eq_refl Hf). split; [reflexivity|].
    eexists. split; [reflexivity|discriminate].
  - rewrite (cv_field d _ gr Fsrc_name c b t lo ao W eq_refl Hf). split; [reflexivity|].
    eexists. split; [reflexivity|discriminate].
  - rewrite (cv_field d _ gr Fblock_num c b t lo ao W eq_refl Hf). split; [reflexivity|].
    eexists. split; [reflexivity|discriminate].
  - rewrite (cv_field d _ gr Ftx_idx c b t lo ao W eq_refl Hf).
    change (key_cell (d_name d) (c_src c) (b_num b) k kn_tx) with (Some (VU64 (k_tx k))).
    rewrite (rs_tx _ _ _ _ _ _ _ _ R). split; [reflexivity|]. eexists. split; [reflexivity|discriminate].
  - rewrite (cv_field d _ gr Flog_idx c b t lo ao W eq_refl Hf).
    change (key_cell (d_name d) (c_src c) (b_num b) k kn_log) with (option_map VU64 (k_log k)).
    rewrite (rs_log _ _ _ _ _ _ _ _ R). destruct (rs_sel _ _ _ _ _ _ _ _ R S) as [l ->].
    split; [reflexivity|]. eexists. split; [reflexivity|discriminate].
  - change (key_cell (d_name d) (c_src c) (b_num b) k kn_abi)
      with (option_map (fun i => VInt (Z.of_nat i)) (k_abi k)).
    destruct (rs_abi_d _ _ _ _ _ _ _ _ R Dt) as [i [Ki Hv]]. rewrite Hv, Ki.
    split; [reflexivity|]. eexists. split; [reflexivity|discriminate].
  - rewrite (cv_field d _ gr Ftrace_action_idx c b t lo ao W eq_refl Hf).
    change (key_cell (d_name d) (c_src c) (b_num b) k kn_trace) with (option_map VU64 (k_trace k)).
    rewrite (rs_trace _ _ _ _ _ _ _ _ R). destruct (rs_tr _ _ _ _ _ _ _ _ R Tr) as [a ->].
    split; [reflexivity|]. eexists. split; [reflexivity|discriminate].
Qed.

Lemma uproj_key_cells d u c dbs b k gr :
  key_written d u -> declared_row d c dbs b k gr ->
  uproj d u gr = key_cells (d_name d) (c_src c) (b_num b) k u /\ Forall not_null (uproj d u gr).
Proof.
  intros Hkw Hd. destruct (declared_row_shape _ _ _ _ _ _ _ Hkw Hd) as [t [lo [ao R]]].
  assert (E : uproj d u gr = key_cells (d_name d) (c_src c) (b_num b) k u).
  { apply map_ext_in. intros k0 Hk0. apply (key_column_value _ _ _ _ _ _ _ _ _ _ Hkw R Hk0). }
  split; [exact E|]. rewrite E. apply Forall_forall. intros x Hx. apply in_map_iff in Hx.
  destruct Hx as [k0 [<- Hk0]]. apply (key_column_value _ _ _ _ _ _ _ _ _ _ Hkw R Hk0).
Qed.

Lemma basics_in_key d : In kn_src (identity_key d) /\ In kn_block (identity_key d) /\ In kn_tx (identity_key d).
Proof. repeat split; apply in_key_of_guards; auto 10. Qed.

(* no false collision *)
Lemma uproj_injective d u c c' dbs dbs' b b' k k' gr gr' :
  key_written d u ->
  declared_row d c dbs b k gr -> declared_row d c' dbs' b' k' gr' ->
  wf_items b -> single_row_scans d b ->
  (c_src c = c_src c' -> b_num b = b_num b' -> b = b') ->
  uproj d u gr = uproj d u gr' ->
  c_src c = c_src c' /\ b_num b = b_num b' /\ k = k'.
Proof.
  intros Hkw Hd Hd' [Htx Hit] Hsingle Hsame Hu.
  destruct (uproj_key_cells _ _ _ _ _ _ _ Hkw Hd) as [E _].
  destruct (uproj_key_cells _ _ _ _ _ _ _ Hkw Hd') as [E' _].
  rewrite E, E' in Hu. unfold key_cells in Hu.
  destruct (declared_row_shape _ _ _ _ _ _ _ Hkw Hd) as [t [lo [ao R]]].
  destruct (declared_row_shape _ _ _ _ _ _ _ Hkw Hd') as [t' [lo' [ao' R']]].
  destruct Hkw as [Eu Hw]. destruct (basics_in_key d) as [I1 [I2 I3]]. rewrite <- Eu in I1, I2, I3.
  pose proof (map_eq_in _ _ _ _ Hu I1) as Q1. injection Q1 as Hsrc.
  pose proof (map_eq_in _ _ _ _ Hu I2) as Q2. injection Q2 as Hnum.
  pose proof (map_eq_in _ _ _ _ Hu I3) as Q3.
  change (Some (VU64 (k_tx k)) = Some (VU64 (k_tx k'))) in Q3. injection Q3 as Htxk.
  split; [exact Hsrc|]. split; [exact Hnum|].
  pose proof (Hsame Hsrc Hnum) as Hb. subst b'.
  assert (Ht : t = t').
  { apply (nodup_map_eq t_idx (b_txs b)); [exact Htx|apply (rs_t _ _ _ _ _ _ _ _ R)|apply (rs_t _ _ _ _ _ _ _ _ R')|].
    rewrite <- (rs_tx _ _ _ _ _ _ _ _ R), <- (rs_tx _ _ _ _ _ _ _ _ R'). exact Htxk. }
  subst t'.
  (* log index *)
  assert (Hlog : k_log k = k_log k').
  { destruct (has_sel d) eqn:S.
    - assert (Hk : In kn_log u) by (rewrite Eu; apply in_key_of_guards; rewrite S; auto 10).
      pose proof (map_eq_in _ _ _ _ Hu Hk) as Q.
      change (option_map VU64 (k_log k) = option_map VU64 (k_log k')) in Q.
      destruct (k_log k), (k_log k'); cbn [option_map] in Q; congruence.
    - rewrite (rs_log _ _ _ _ _ _ _ _ R), (rs_log _ _ _ _ _ _ _ _ R'),
        (rs_nsel _ _ _ _ _ _ _ _ R S), (rs_nsel _ _ _ _ _ _ _ _ R' S). reflexivity. }
  assert (Htrace : k_trace k = k_trace k').
  { destruct (has_trace d) eqn:Tr.
    - assert (Hk : In kn_trace u) by (rewrite Eu; apply in_key_of_guards; rewrite Tr; auto 10).
      pose proof (map_eq_in _ _ _ _ Hu Hk) as Q.
      change (option_map VU64 (k_trace k) = option_map VU64 (k_trace k')) in Q.
      destruct (k_trace k), (k_trace k'); cbn [option_map] in Q; congruence.
    - rewrite (rs_trace _ _ _ _ _ _ _ _ R), (rs_trace _ _ _ _ _ _ _ _ R'),
        (rs_ntr _ _ _ _ _ _ _ _ R Tr), (rs_ntr _ _ _ _ _ _ _ _ R' Tr). reflexivity. }
  assert (Habi : k_abi k = k_abi k').
  { destruct (has_data d) eqn:Dt.
    - assert (Hk : In kn_abi u) by (rewrite Eu; apply in_key_of_guards; rewrite Dt; auto 10).
      pose proof (map_eq_in _ _ _ _ Hu Hk) as Q.
      change (option_map (fun i => VInt (Z.of_nat i)) (k_abi k)
              = option_map (fun i => VInt (Z.of_nat i)) (k_abi k')) in Q.
      destruct (k_abi k) as [i|], (k_abi k') as [i'|]; cbn [option_map] in Q; try congruence.
      injection Q as Q. apply Nat2Z.inj in Q. congruence.
    - pose proof (rs_abi_n _ _ _ _ _ _ _ _ R Dt) as A. pose proof (rs_abi_n _ _ _ _ _ _ _ _ R' Dt) as A'.
      pose proof (rs_log _ _ _ _ _ _ _ _ R) as L. pose proof (rs_log _ _ _ _ _ _ _ _ R') as L'.
      pose proof (rs_lin _ _ _ _ _ _ _ _ R) as Li. pose proof (rs_lin _ _ _ _ _ _ _ _ R') as Li'.
      rewrite L, L' in Hlog.
      destruct lo as [l|], lo' as [l'|]; cbn [option_map] in Hlog; try discriminate Hlog; [|congruence].
      injection Hlog as Hidx.
      assert (El : l = l').
      { rewrite Forall_forall in Hit. destruct (Hit _ (rs_t _ _ _ _ _ _ _ _ R)) as [Nl _].
        apply (nodup_map_eq l_idx (t_logs t)); assumption. }
      subst l'.
      destruct A as [[D K]|[D [srows [i [Sc [Hi K]]]]]]; destruct A' as [[D' K']|[D' [srows' [i' [Sc' [Hi' K']]]]]];
        try congruence.
      rewrite Sc in Sc'. injection Sc' as <-.
      pose proof (Hsingle Dt t l srows (rs_t _ _ _ _ _ _ _ _ R) Li Sc) as Hlen.
      rewrite K, K'. f_equal. lia. }
  destruct k as [a1 a2 a3 a4], k' as [b1 b2 b3 b4]. cbn [k_tx k_log k_abi k_trace] in *. congruence.
Qed.

(* (2) *)
Lemma unique_projection_injective_lemma d u c c' dbs dbs' b b' k k' gr gr' :
  key_written d u ->
  declared_row d c dbs b k gr -> declared_row d c' dbs' b' k' gr' ->
  uproj d u gr = key_cells (d_name d) (c_src c) (b_num b) k u
  /\ Forall not_null (uproj d u gr)
  /\ (c_src c = c_src c' -> b_num b = b_num b' -> k = k' -> uproj d u gr = uproj d u gr')
  /\ (wf_items b -> single_row_scans d b -> (c_src c = c_src c' -> b_num b = b_num b' -> b = b') ->
      uproj d u gr = uproj d u gr' -> c_src c = c_src c' /\ b_num b = b_num b' /\ k = k').
Proof.
  intros Hkw Hd Hd'. destruct (uproj_key_cells _ _ _ _ _ _ _ Hkw Hd) as [E N].
  destruct (uproj_key_cells _ _ _ _ _ _ _ Hkw Hd') as [E' _].
  split; [exact E|]. split; [exact N|]. split.
  - intros Hs Hn Hk. rewrite E, E', Hs, Hn, Hk. reflexivity.
  - intros Hwf Hsg Hsame Hu. apply (uproj_injective _ _ _ _ _ _ _ _ _ _ _ _ Hkw Hd Hd' Hwf Hsg Hsame Hu).
Qed.

(* ================= D. composition, witnesses, example ================= *)
Lemma inputs_of_same cis : forallb (fun i => Config.is_nil (Config.i_comps i)) cis = true ->
  forall tys, Forall2 same_input cis (inputs_of cis tys).
Proof.
  induction cis as [|ci r IH]; intros H tys; [constructor|]. cbn [forallb] in H.
  apply andb_prop in H. destruct H as [Hc Hr]. cbn [inputs_of]. constructor; [|apply IH, Hr].
  split; [reflexivity|]. split; [reflexivity|]. destruct (Config.i_comps ci); [reflexivity|discriminate Hc].
Qed.

Lemma decl_of_same g tys sig : flat_inputs g = true -> same_decl g (decl_of g tys sig).
Proof.
  intros H. split; [reflexivity|]. split; [reflexivity|]. split; [apply inputs_of_same, H|].
  cbn [decl_of d_block]. induction (Config.ig_block g) as [|b r IH]; [constructor|].
  cbn [map]. constructor; [split; reflexivity|exact IH].
Qed.

(* ---- the task model's collision IS the generated unique index's collision ---- *)
Lemma numbered_from_ge : forall bs n b, numbered_from n bs -> In b bs -> n <= b_num b.
Proof.
  induction bs as [|x r IH]; intros n b H Hb; [destruct Hb|]. destruct H as [Hn [_ Hr]].
  destruct Hb as [<-|Hb]; [lia|]. specialize (IH _ _ Hr Hb). lia.
Qed.

Lemma numbered_from_same : forall bs n b b', numbered_from n bs -> In b bs -> In b' bs ->
  b_num b = b_num b' -> b = b'.
Proof.
  induction bs as [|x r IH]; intros n b b' H Hb Hb' E; [destruct Hb|]. destruct H as [Hn [_ Hr]].
  destruct Hb as [<-|Hb]; destruct Hb' as [<-|Hb']; try reflexivity.
  - pose proof (numbered_from_ge _ _ _ Hr Hb'). lia.
  - pose proof (numbered_from_ge _ _ _ Hr Hb). lia.
  - apply (IH _ _ _ Hr Hb Hb' E).
Qed.

Lemma task_collision_is_index_collision_lemma dcl ctx dbs rbs (c : TaskTypes.tcfg) (d : TaskTypes.db) u :
  key_written dcl u ->
  rows_chain_wf rbs -> Forall wf_items rbs -> Forall (single_row_scans dcl) rbs ->
  inserts_ok dcl ctx dbs rbs -> N.of_nat (length rbs) < TaskSpec.nmax ->
  TaskSpec.TaskInvG c (inst_chain dcl ctx dbs rbs) d ->
  forall r r', In r (TaskTypes.d_rows (TaskSpec.pv c d)) -> In r' (TaskTypes.d_rows (TaskSpec.pv c d)) ->
  exists gr gr',
    TaskTypes.r_val r = enc_row gr /\ TaskTypes.r_val r' = enc_row gr'
    /\ Forall not_null (uproj dcl u gr) /\ Forall not_null (uproj dcl u gr')
    /\ (uproj dcl u gr = uproj dcl u gr'
        <-> TaskTypes.r_bnum r = TaskTypes.r_bnum r' /\ TaskTypes.r_key r = TaskTypes.r_key r').
Proof.
  intros Hkw [_ Hnum] Hwf Hsg Hok Hsmall Hinv r r' Hr Hr'.
  destruct (BridgeRowsTaskP.stored_row_declared dcl ctx dbs rbs c d Hok Hsmall Hinv r Hr)
    as [b [k [gr [Hb [-> Hd]]]]].
  destruct (BridgeRowsTaskP.stored_row_declared dcl ctx dbs rbs c d Hok Hsmall Hinv r' Hr')
    as [b' [k' [gr' [Hb' [-> Hd']]]]].
  exists gr, gr'. unfold trow_of. cbn [TaskTypes.r_val TaskTypes.r_bnum TaskTypes.r_key fst snd].
  split; [reflexivity|]. split; [reflexivity|].
  destruct (unique_projection_injective_lemma dcl u ctx ctx dbs dbs b b' k k' gr gr' Hkw Hd Hd')
    as [_ [N [Hcol Hinj]]].
  destruct (unique_projection_injective_lemma dcl u ctx ctx dbs dbs b' b k' k gr' gr Hkw Hd' Hd)
    as [_ [N' _]].
  split; [exact N|]. split; [exact N'|]. split.
  - intros E. rewrite Forall_forall in Hwf, Hsg.
    destruct (Hinj (Hwf _ Hb) (Hsg _ Hb)) as [_ [Hn Hk]]; [|exact E|].
    + intros _ En. apply (numbered_from_same _ _ _ _ Hnum Hb Hb' En).
    + split; [exact Hn|rewrite Hk; reflexivity].
  - intros [Hn Hk]. apply BridgeRowsTaskP.enc_key_inj in Hk. apply Hcol; [reflexivity|exact Hn|exact Hk].
Qed.

(* ... from the configuration: the unique index that ValidateFix generates for a
   user_plain declaration is the index on which the task model's collision is decided *)
Lemma configured_index_is_task_key_lemma g g' dcl ctx dbs rbs (c : TaskTypes.tcfg) (d : TaskTypes.db) :
  user_plain g = true -> Config.t_unique (Config.ig_table g) = [] ->
  Config.fix_one ConfigGen.G g = Some g' -> same_decl g' dcl ->
  rows_chain_wf rbs -> Forall wf_items rbs -> Forall (single_row_scans dcl) rbs ->
  inserts_ok dcl ctx dbs rbs -> N.of_nat (length rbs) < TaskSpec.nmax ->
  TaskSpec.TaskInvG c (inst_chain dcl ctx dbs rbs) d ->
  exists u, Config.t_unique (Config.ig_table g') = [u] /\
  forall r r', In r (TaskTypes.d_rows (TaskSpec.pv c d)) -> In r' (TaskTypes.d_rows (TaskSpec.pv c d)) ->
  exists gr gr',
    TaskTypes.r_val r = enc_row gr /\ TaskTypes.r_val r' = enc_row gr'
    /\ Forall not_null (uproj dcl u gr) /\ Forall not_null (uproj dcl u gr')
    /\ (uproj dcl u gr = uproj dcl u gr'
        <-> TaskTypes.r_bnum r = TaskTypes.r_bnum r' /\ TaskTypes.r_key r = TaskTypes.r_key r').
Proof.
  intros Hp Hu Hf Hs Hch Hwf Hsg Hok Hsmall Hinv.
  destruct (default_unique_is_identity_key_lemma g g' dcl Hp Hu Hf Hs) as [Eu [_ [Hkw _]]].
  exists (identity_key dcl). split; [exact Eu|].
  apply (task_collision_is_index_collision_lemma dcl ctx dbs rbs c d _ Hkw Hch Hwf Hsg Hok Hsmall Hinv).
Qed.

(* ---- where the preconditions are needed ---- *)
Lemma remap_fix : Config.fix_one ConfigGen.G remap_ig = Some remap_fixed.
Proof. vm_compute. reflexivity. Qed.

(* known finding C16-remapped-identity-field: the generated key contains the
   column log_idx, which no block-data entry writes: [user_plain] fails *)
Lemma remapped_identity_key_refuted_lemma : ~ generated_key_written_unconditional.
Proof.
  intros H.
  assert (Hs : same_decl remap_fixed remap_decl) by (apply decl_of_same; vm_compute; reflexivity).
  assert (Hu : Config.t_unique (Config.ig_table remap_fixed) = [[kn_ig; kn_src; kn_block; kn_tx; kn_log]])
    by (vm_compute; reflexivity).
  specialize (H remap_ig remap_fixed remap_decl _ eq_refl remap_fix Hs Hu kn_log).
  destruct H as [_ [j [bd [Hj [Hn [Hc _]]]]]]; [cbn [In]; auto 6|].
  destruct j as [|[|[|[|[|j]]]]]; vm_compute in Hj; try (destruct j; discriminate Hj);
    injection Hj as <-; vm_compute in Hn, Hc; first [discriminate Hn|discriminate Hc].
Qed.

Lemma remapped_key_column_null_lemma :
  user_plain remap_ig = false
  /\ Config.t_unique (Config.ig_table remap_fixed) = [[kn_ig; kn_src; kn_block; kn_tx; kn_log]]
  /\ (forall gr, col_value remap_decl kn_log gr = None)
  /\ exists gr1 gr2, kinsert remap_decl erc_ctx [] two_block
                     = Ok [(Key 0 (Some 0) (Some 0%nat) None, gr1); (Key 0 (Some 0) (Some 1%nat) None, gr2)].
Proof.
  split; [vm_compute; reflexivity|]. split; [vm_compute; reflexivity|]. split; [intros gr; reflexivity|].
  eexists. eexists. vm_compute. reflexivity.
Qed.

Lemma two_fix : Config.fix_one ConfigGen.G two_ig = Some two_fixed.
Proof. vm_compute. reflexivity. Qed.

(* [single_row_scans] is needed: a declaration without selected non-indexed
   input (key without abi_idx) and a log whose given decoding has two rows:
   two rows with different ikeys and one projection *)
Lemma single_row_scans_needed_refuted_lemma : ~ projection_injective_unconditional.
Proof.
  intros H.
  assert (Hkw : key_written two_decl (identity_key two_decl)).
  { apply (default_unique_is_identity_key_lemma two_ig two_fixed two_decl);
      [vm_compute; reflexivity|reflexivity|exact two_fix|apply decl_of_same; vm_compute; reflexivity]. }
  assert (Hwf : wf_items two_block).
  { split.
    - cbn. constructor; [intros []|constructor].
    - cbn. constructor; [|constructor]. split; cbn; [constructor; [intros []|constructor]|constructor]. }
  assert (E : kinsert two_decl erc_ctx [] two_block
              = Ok [(Key 0 (Some 0) (Some 0%nat) None,
                     [VU256 5; VStr [97]; VStr [109; 97; 105; 110]; VU64 1; VU64 0; VU64 0]);
                    (Key 0 (Some 0) (Some 1%nat) None,
                     [VU256 5; VStr [97]; VStr [109; 97; 105; 110]; VU64 1; VU64 0; VU64 0])])
    by (vm_compute; reflexivity).
  specialize (H two_decl erc_ctx [] two_block _ _ _ _ _ Hkw Hwf E (or_introl eq_refl)
                (or_intror (or_introl eq_refl)) eq_refl).
  discriminate H.
Qed.

(* ---- the ERC-20 Transfer declaration through both models ---- *)
Lemma erc_fix : Config.fix_one ConfigGen.G erc_ig = Some erc_fixed.
Proof. vm_compute. reflexivity. Qed.

Lemma erc_hyps :
  user_plain erc_ig = true /\ Config.t_unique (Config.ig_table erc_ig) = []
  /\ Config.fix_one ConfigGen.G erc_ig = Some erc_fixed /\ same_decl erc_fixed erc_decl
  /\ wf_items erc_block /\ single_row_scans erc_decl erc_block.
Proof.
  split; [vm_compute; reflexivity|]. split; [reflexivity|]. split; [exact erc_fix|].
  split; [apply decl_of_same; vm_compute; reflexivity|]. split.
  - split.
    + cbn. constructor; [intros []|constructor].
    + cbn. constructor; [|constructor]. split; cbn; [constructor; [intros []|constructor]|constructor].
  - intros Hd. vm_compute in Hd. discriminate Hd.
Qed.

Lemma erc_run :
  Config.t_unique (Config.ig_table erc_fixed) = [[kn_ig; kn_src; kn_block; kn_tx; kn_log; kn_abi]]
  /\ identity_key erc_decl = [kn_ig; kn_src; kn_block; kn_tx; kn_log; kn_abi]
  /\ copy_columns erc_decl = [s2b "f"; s2b "t"; s2b "v"; kn_ig; kn_src; kn_block; kn_tx; kn_log; kn_abi]
  /\ exists gr,
       kinsert erc_decl erc_ctx [] erc_block = Ok [(Key 2 (Some 5) (Some 0%nat) None, gr)]
       /\ insert fixed erc_decl erc_ctx [] [erc_block] = Ok [gr]
       /\ gr = [VBytes (Some (repeat 0 19 ++ [10])); VBytes (Some (repeat 0 19 ++ [11])); VU256 1000;
                VStr (s2b "erc20"); VStr (s2b "main"); VU64 1; VU64 2; VU64 5; VInt 0]
       /\ uproj erc_decl (identity_key erc_decl) gr
          = [Some (VStr (s2b "erc20")); Some (VStr (s2b "main")); Some (VU64 1); Some (VU64 2);
             Some (VU64 5); Some (VInt 0)].
Proof.
  split; [vm_compute; reflexivity|]. split; [vm_compute; reflexivity|]. split; [vm_compute; reflexivity|].
  eexists. split; [vm_compute; reflexivity|]. split; [vm_compute; reflexivity|].
  split; [vm_compute; reflexivity|]. vm_compute. reflexivity.
Qed.
