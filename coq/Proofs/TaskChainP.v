(* Facts about well-formed chains and about lists of blocks that lie on one. *)
From Coq Require Import List NArith Bool Lia ZifyBool ZifyN ZifyNat.
From Shovel Require Import Model.TaskTypes Model.TaskDb Model.Task Model.TaskNode Model.TaskSys
  Model.TaskSpec Proofs.TaskArithP Proofs.TaskDbP Proofs.TaskExecP Proofs.TaskLoadP.
Import ListNotations.
Open Scope N_scope.

Lemma wf_from_at : forall ch n ph k x,
  wf_from n ph ch -> nth_error ch k = Some x ->
  b_num x = n + N.of_nat k /\ b_hash x <> 0
  /\ (k = O -> b_parent x = ph)
  /\ (forall y, k <> O -> nth_error ch (pred k) = Some y -> b_parent x = b_hash y).
Proof.
  induction ch as [|b ch IH]; intros n ph k x Hw Hk; [destruct k; discriminate|].
  destruct Hw as (Hn & Hh & Hp & Hr). destruct k as [|k].
  - cbn in Hk. injection Hk as <-. split; [lia|]. split; [exact Hh|]. split; [intros _; exact Hp|].
    intros y H. congruence.
  - cbn [nth_error] in Hk. destruct (IH _ _ _ _ Hr Hk) as (A & B & C & D).
    split; [lia|]. split; [exact B|]. split; [discriminate|].
    intros y _ Hy. cbn [pred] in Hy. destruct k as [|k'].
    + cbn in Hy. injection Hy as <-. apply C. reflexivity.
    + apply (D y); [discriminate|]. exact Hy.
Qed.

(* block n of a well-formed chain: numbered n, non-empty hash, and for n >= 1
   its parent is the hash of block n-1 *)
Lemma wf_chain_at : forall ch n x, wf_chain ch -> blk_at ch n = Some x ->
  b_num x = n /\ b_hash x <> 0
  /\ (forall y, 1 <= n -> blk_at ch (n - 1) = Some y -> b_parent x = b_hash y).
Proof.
  intros ch n x Hw Hx. destruct ch as [|g r]; [destruct Hw|]. destruct Hw as (Hg & Hh & Hr).
  unfold blk_at in *. destruct (N.to_nat n) as [|k] eqn:Ek.
  - cbn in Hx. injection Hx as <-. split; [lia|]. split; [exact Hh|]. intros y Hn _. lia.
  - cbn [nth_error] in Hx. destruct (wf_from_at _ _ _ _ _ Hr Hx) as (A & B & C & D).
    split; [lia|]. split; [exact B|].
    intros y Hn Hy. replace (N.to_nat (n - 1)) with k in Hy by lia. destruct k as [|k'].
    + cbn in Hy. injection Hy as <-. apply C. reflexivity.
    + cbn [nth_error] in Hy. apply (D y); [discriminate|exact Hy].
Qed.

Lemma blk_at_prev : forall ch n x, blk_at ch (n + 1) = Some x -> exists y, blk_at ch n = Some y.
Proof.
  intros ch n x H. unfold blk_at in *. destruct (nth_error ch (N.to_nat n)) as [y|] eqn:E; [eauto|].
  apply nth_error_None in E. assert (nth_error ch (N.to_nat (n + 1)) = None) by (apply nth_error_None; lia).
  congruence.
Qed.

Lemma blk_at_height : forall ch n x, blk_at ch n = Some x -> n < height ch.
Proof.
  intros ch n x H. unfold blk_at, height in *.
  assert (nth_error ch (N.to_nat n) <> None) by congruence. apply nth_error_Some in H0. lia.
Qed.

(* ---------- segments ---------- *)
Lemma segment_S : forall ch m k x, blk_at ch m = Some x ->
  segment ch m (N.of_nat (S k)) = x :: segment ch (m + 1) (N.of_nat k).
Proof.
  intros ch m k x H. unfold segment, blk_at in *. rewrite !Nat2N.id.
  replace (N.to_nat (m + 1)) with (S (N.to_nat m)) by lia.
  revert ch H. generalize (N.to_nat m). intros j. induction j as [|j IH]; intros ch H.
  - destruct ch as [|y ch]; [discriminate|]. cbn in H. inversion H; subst. reflexivity.
  - destruct ch as [|y ch]; [discriminate|]. cbn [nth_error] in H. cbn [skipn]. apply IH. exact H.
Qed.

Lemma segment_0 : forall ch m, segment ch m 0 = [].
Proof. intros. unfold segment. reflexivity. Qed.

Lemma view_map : forall hashes l, view hashes l = map (vblk hashes) l.
Proof. intros [] l; unfold view, vblk; [symmetry; apply map_id|reflexivity]. Qed.

Lemma vblk_num : forall h x, b_num (vblk h x) = b_num x.
Proof. intros [] x; reflexivity. Qed.
Lemma vblk_hash : forall h x, b_hash (vblk h x) = b_hash x.
Proof. intros [] x; reflexivity. Qed.

(* blocks on the chain with consecutive numbers are a segment of it *)
Lemma on_chain_run : forall hashes ch k bs m,
  Forall (on_chain hashes ch) bs -> map b_num bs = nums_from m k ->
  bs = view hashes (segment ch m (N.of_nat k)) /\ (k <> O -> m + N.of_nat k <= height ch).
Proof.
  intros hashes ch k. induction k as [|k IH]; intros bs m Hon Hn.
  - destruct bs; [|discriminate]. rewrite segment_0, view_map. split; [reflexivity|congruence].
  - destruct bs as [|b bs]; [discriminate|]. cbn [map nums_from] in Hn. inversion Hn as [[Hb Hr]].
    inversion Hon as [|? ? (x & Hx & Ex) Hon']; subst.
    rewrite vblk_num in *.
    destruct (IH bs (b_num x + 1) Hon' Hr) as [A B].
    rewrite (segment_S ch (b_num x) k x Hx), view_map. cbn [map]. rewrite <- view_map, <- A.
    split; [reflexivity|]. intros _.
    destruct k as [|k']; [|specialize (B ltac:(discriminate)); lia].
    apply blk_at_height in Hx. lia.
Qed.


Lemma segment_facts : forall hashes ch k m,
  wf_chain ch -> m + N.of_nat k <= height ch ->
  Forall (on_chain hashes ch) (view hashes (segment ch m (N.of_nat k)))
  /\ map b_num (view hashes (segment ch m (N.of_nat k))) = nums_from m k.
Proof.
  intros hashes ch k. induction k as [|k IH]; intros m Hw Hh.
  - rewrite segment_0, view_map. split; [constructor|reflexivity].
  - destruct (nth_error ch (N.to_nat m)) as [x|] eqn:E.
    2:{ apply nth_error_None in E. unfold height in Hh. lia. }
    assert (Hx : blk_at ch m = Some x) by exact E.
    destruct (wf_chain_at ch m x Hw Hx) as (Hn & _ & _).
    rewrite (segment_S ch m k x Hx), view_map. cbn [map]. rewrite <- view_map.
    destruct (IH (m + 1) Hw ltac:(lia)) as [A B]. split.
    + constructor; [|exact A]. exists x. rewrite vblk_num, Hn. split; [exact Hx|reflexivity].
    + rewrite vblk_num, Hn, B. reflexivity.
Qed.

(* a linked list of blocks is numbered consecutively *)
Lemma linked_nums : forall l prev, linked_from prev l = true ->
  map b_num l = nums_from (b_num prev + 1) (length l).
Proof.
  induction l as [|b l IH]; intros prev H; [reflexivity|].
  cbn [linked_from] in H. apply andb_prop in H. destruct H as [H H3].
  apply andb_prop in H. destruct H as [H1 _]. apply N.eqb_eq in H1.
  cbn [map length nums_from]. rewrite <- H1. f_equal. apply IH. exact H3.
Qed.
Lemma chain_nums : forall b l, chain_ok (b :: l) = true ->
  map b_num (b :: l) = nums_from (b_num b) (length (b :: l)).
Proof. intros b l H. cbn [map length nums_from]. f_equal. apply linked_nums. exact H. Qed.
