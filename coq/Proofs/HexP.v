(* Proofs about Model/Hex.v (C17). *)
From Coq Require Import List NArith ZArith Bool Lia ZifyN ZifyNat ZifyBool.
From Shovel Require Import Base.Outcome Model.Hex.
Import ListNotations.
Open Scope N_scope.
Ltac Zify.zify_post_hook ::= Z.div_mod_to_equations.

(* ---------- nibbles ---------- *)

Lemma nibble_lt16 c d : nibble c = Some d -> d < 16.
Proof.
  unfold nibble.
  destruct ((48 <=? c) && (c <=? 57)) eqn:E1; [intros H; inversion H; lia|].
  destruct ((97 <=? c) && (c <=? 102)) eqn:E2; [intros H; inversion H; lia|].
  destruct ((65 <=? c) && (c <=? 70)) eqn:E3; [intros H; inversion H; lia|].
  discriminate.
Qed.

(* the three spellings of a digit *)
Definition digit_char (d : N) : N := 48 + d.          (* d < 10 *)
Definition lower_char (d : N) : N := 97 + (d - 10).   (* 10 <= d < 16 *)
Definition upper_char (d : N) : N := 65 + (d - 10).   (* 10 <= d < 16 *)

Lemma nibble_digit d : d < 10 -> nibble (digit_char d) = Some d.
Proof.
  intros H. unfold nibble, digit_char.
  replace ((48 <=? 48 + d) && (48 + d <=? 57)) with true by lia.
  f_equal. lia.
Qed.
Lemma nibble_lower d : 10 <= d < 16 -> nibble (lower_char d) = Some d.
Proof.
  intros H. unfold nibble, lower_char.
  replace ((48 <=? 97 + (d - 10)) && (97 + (d - 10) <=? 57)) with false by lia.
  replace ((97 <=? 97 + (d - 10)) && (97 + (d - 10) <=? 102)) with true by lia.
  f_equal. lia.
Qed.
Lemma nibble_upper d : 10 <= d < 16 -> nibble (upper_char d) = Some d.
Proof.
  intros H. unfold nibble, upper_char.
  replace ((48 <=? 65 + (d - 10)) && (65 + (d - 10) <=? 57)) with false by lia.
  replace ((97 <=? 65 + (d - 10)) && (65 + (d - 10) <=? 102)) with false by lia.
  replace ((65 <=? 65 + (d - 10)) && (65 + (d - 10) <=? 70)) with true by lia.
  f_equal. lia.
Qed.

(* conversely a character accepted as a nibble is one of the 22 hex characters *)
Lemma nibble_some_hexchar c d :
  nibble c = Some d ->
  (48 <= c <= 57) \/ (97 <= c <= 102) \/ (65 <= c <= 70).
Proof.
  unfold nibble.
  destruct ((48 <=? c) && (c <=? 57)) eqn:E1; [lia|].
  destruct ((97 <=? c) && (c <=? 102)) eqn:E2; [lia|].
  destruct ((65 <=? c) && (c <=? 70)) eqn:E3; [lia|].
  discriminate.
Qed.

Lemma lor_shift4 a n : n < 16 -> N.lor (a * 16) n = a * 16 + n.
Proof.
  intros H.
  assert (Hl : N.land (a * 16) n = 0).
  { apply N.bits_inj. intros m. rewrite N.land_spec, N.bits_0.
    change 16 with (2 ^ 4). rewrite <- N.shiftl_mul_pow2.
    destruct (N.ltb_spec m 4) as [Hm|Hm].
    - rewrite N.shiftl_spec_low by exact Hm. reflexivity.
    - assert (Hn : N.testbit n m = false).
      { destruct (N.eq_dec n 0) as [->|Hn0]; [apply N.bits_0|].
        apply N.bits_above_log2. apply N.lt_le_trans with 4; [|exact Hm].
        apply N.log2_lt_pow2; lia. }
      rewrite Hn. apply andb_false_r. }
  rewrite N.add_nocarry_lxor by exact Hl.
  symmetry. apply N.lxor_lor. exact Hl.
Qed.

(* ---------- quantities ---------- *)

Definition val_from (res : N) (ds : list N) : N := fold_left (fun a d => a * 16 + d) ds res.
Definition val (ds : list N) : N := val_from 0 ds.
Definition spells (c d : N) : Prop := nibble c = Some d.

Lemma val_from_ge res ds : res <= val_from res ds.
Proof.
  revert res. induction ds as [|d ds IH]; intros res; cbn [val_from fold_left]; [lia|].
  specialize (IH (res * 16 + d)). unfold val_from in IH. lia.
Qed.

Lemma decode_from_exact cs ds :
  Forall2 spells cs ds -> forall res,
  val_from res ds < two64 -> decode_from res cs = Some (val_from res ds).
Proof.
  induction 1 as [|c d cs ds Hcd _ IH]; intros res Hv; cbn [decode_from val_from fold_left]; [reflexivity|].
  unfold spells in Hcd. rewrite Hcd.
  cbn [val_from fold_left] in Hv.
  pose proof (val_from_ge (res * 16 + d) ds) as Hge. unfold val_from in Hge, Hv.
  unfold two64 in Hv.
  replace (1152921504606846976 <=? res) with false by lia.
  rewrite lor_shift4 by (eapply nibble_lt16; eauto).
  apply IH. unfold val_from, two64. lia.
Qed.

Lemma decode_from_overflow cs ds :
  Forall2 spells cs ds -> forall res,
  res < two64 -> two64 <= val_from res ds -> decode_from res cs = None.
Proof.
  induction 1 as [|c d cs ds Hcd _ IH]; intros res Hres Hv; cbn [decode_from val_from fold_left] in *.
  - unfold two64 in *. lia.
  - unfold spells in Hcd. rewrite Hcd.
    destruct (1152921504606846976 <=? res) eqn:E; [reflexivity|].
    rewrite lor_shift4 by (eapply nibble_lt16; eauto).
    pose proof (nibble_lt16 _ _ Hcd).
    apply IH; [unfold two64 in *; lia | exact Hv].
Qed.

Lemma decode_from_nonhex cs : forall res,
  Exists (fun c => nibble c = None) cs -> decode_from res cs = None.
Proof.
  induction cs as [|c cs IH]; intros res Hex; [inversion Hex|].
  cbn [decode_from]. destruct (nibble c) as [n|] eqn:En; [|reflexivity].
  inversion Hex as [? ? Hc|? ? Hr]; subst; [congruence|].
  destruct (1152921504606846976 <=? res); [reflexivity|]. apply IH. exact Hr.
Qed.

(* the token  q 0 x <digits> q' : positions, not contents, are stripped *)
Lemma strip_token a b c cs z : strip (a :: b :: c :: cs ++ [z]) = cs.
Proof.
  unfold strip.
  change (a :: b :: c :: cs ++ [z]) with ((a :: b :: c :: cs) ++ [z]).
  rewrite removelast_last. reflexivity.
Qed.

Lemma token_length a b c (cs : bytes) z : N.of_nat (length (a :: b :: c :: cs ++ [z])) <? 4 = false.
Proof. cbn [length]. rewrite app_length. cbn [length]. lia. Qed.

(* ---------- byte strings ---------- *)

Definition spells_byte (p : N * N) (x : N) : Prop :=
  nibble (fst p) = Some (x / 16) /\ nibble (snd p) = Some (x mod 16).
Definition flat (ps : list (N * N)) : bytes := flat_map (fun p => [fst p; snd p]) ps.

Lemma hex_pairs_exact ps bs :
  Forall2 spells_byte ps bs -> wf_bytes bs -> hex_pairs (flat ps) = (bs, true).
Proof.
  induction 1 as [|p x ps bs [H1 H2] _ IH]; intros Hwf; [reflexivity|].
  inversion Hwf as [|? ? Hx Hwf']; subst.
  cbn [flat flat_map app hex_pairs]. rewrite H1, H2.
  fold (flat ps). rewrite (IH Hwf'). f_equal. f_equal. lia.
Qed.

Lemma hex_pairs_length src : (length (fst (hex_pairs src)) <= Nat.div (length src) 2)%nat.
Proof.
  assert (H : forall n (s : bytes), (length s <= n)%nat ->
            (length (fst (hex_pairs s)) <= Nat.div (length s) 2)%nat).
  { induction n as [|n IH]; intros s Hs.
    - destruct s; [cbn; lia | cbn in Hs; lia].
    - destruct s as [|p [|q r]]; [cbn; lia | cbn; lia |].
      cbn [hex_pairs]. destruct (nibble p); [|cbn; lia]. destruct (nibble q); [|cbn; lia].
      specialize (IH r). destruct (hex_pairs r) as [l ok] eqn:E. cbn [fst length] in *.
      assert (Hr : (length r <= n)%nat) by (cbn in Hs; lia). specialize (IH Hr).
      change (length (p :: q :: r)) with (2 + length r)%nat.
      replace (Nat.div (2 + length r) 2) with (S (Nat.div (length r) 2)).
      + lia.
      + symmetry. replace (2 + length r)%nat with (1 * 2 + length r)%nat by lia.
        rewrite Nat.div_add_l by lia. lia. }
  pose proof (H (length src) src (Nat.le_refl _)). lia.
Qed.

Lemma hex_pairs_ok_length src l : hex_pairs src = (l, true) -> length src = (2 * length l)%nat.
Proof.
  assert (H : forall n (s : bytes) l, (length s <= n)%nat -> hex_pairs s = (l, true) ->
              length s = (2 * length l)%nat).
  { induction n as [|n IH]; intros s l' Hs He.
    - destruct s; [inversion He; reflexivity | cbn in Hs; lia].
    - destruct s as [|p [|q r]]; [inversion He; reflexivity | cbn in He; inversion He |].
      cbn [hex_pairs] in He. destruct (nibble p); [|inversion He]. destruct (nibble q); [|inversion He].
      destruct (hex_pairs r) as [l2 ok] eqn:E. inversion He; subst.
      cbn [length] in *. rewrite (IH r l2); [lia | lia | exact E]. }
  intros He. eapply H; [apply Nat.le_refl | exact He].
Qed.

Lemma hex_pairs_odd src : Nat.odd (length src) = true -> snd (hex_pairs src) = false.
Proof.
  intros Ho. destruct (hex_pairs src) as [l ok] eqn:E. cbn [snd]. destruct ok; [|reflexivity].
  apply hex_pairs_ok_length in E. rewrite E in Ho.
  rewrite Nat.odd_mul in Ho. cbn in Ho. discriminate.
Qed.

Lemma hex_pairs_nonhex src :
  Exists (fun c => nibble c = None) src -> snd (hex_pairs src) = false.
Proof.
  assert (H : forall n (s : bytes), (length s <= n)%nat ->
              Exists (fun c => nibble c = None) s -> snd (hex_pairs s) = false).
  { induction n as [|n IH]; intros s Hs Hex.
    - destruct s; [inversion Hex | cbn in Hs; lia].
    - destruct s as [|p [|q r]]; [inversion Hex | reflexivity |].
      cbn [hex_pairs]. destruct (nibble p) eqn:Ep; [|reflexivity]. destruct (nibble q) eqn:Eq; [|reflexivity].
      destruct (hex_pairs r) as [l ok] eqn:E. cbn [snd].
      inversion Hex as [? ? Hc|? ? Hr]; subst; [congruence|].
      inversion Hr as [? ? Hc|? ? Hr2]; subst; [congruence|].
      assert (Hlen : (length r <= n)%nat) by (cbn in Hs; lia).
      specialize (IH r Hlen Hr2). rewrite E in IH. exact IH. }
  intros Hex. eapply H; [apply Nat.le_refl | exact Hex].
Qed.

Lemma overwrite_all dst w : length dst = length w -> overwrite dst w = w.
Proof.
  revert dst. induction w as [|x w IH]; intros dst Hl.
  - destruct dst; [reflexivity | inversion Hl].
  - destruct dst as [|y dst]; [inversion Hl|]. cbn [overwrite]. f_equal. apply IH. inversion Hl; reflexivity.
Qed.

Lemma resize_length hb n : length (resize hb n) = n.
Proof.
  unfold resize. rewrite app_length, firstn_length, repeat_length. lia.
Qed.

Lemma flat_length ps : length (flat ps) = (2 * length ps)%nat.
Proof. induction ps as [|p ps IH]; [reflexivity|]. cbn [flat flat_map app length]. fold (flat ps). lia. Qed.

(* ---------- DecodeHex / EncodeHex ---------- *)

Lemma hexdigit_nibble n : n < 16 -> nibble (hexdigit n) = Some n.
Proof.
  intros H. unfold hexdigit. destruct (n <? 10) eqn:E.
  - apply nibble_digit. lia.
  - apply nibble_lower. lia.
Qed.

Lemma hex_pairs_encode b : wf_bytes b ->
  hex_pairs (flat_map (fun x => [hexdigit (x / 16); hexdigit (x mod 16)]) b) = (b, true).
Proof.
  induction 1 as [|x b Hx _ IH]; [reflexivity|].
  cbn [flat_map app hex_pairs].
  rewrite !hexdigit_nibble by lia. rewrite IH. f_equal. f_equal. lia.
Qed.

Lemma encode_body_even b :
  Nat.odd (length (flat_map (fun x => [hexdigit (x / 16); hexdigit (x mod 16)]) b)) = false.
Proof.
  induction b as [|x b IH]; [reflexivity|].
  cbn [flat_map app length]. rewrite Nat.odd_succ, Nat.even_succ. exact IH.
Qed.

Lemma decode_hex_encode_hex_l b : wf_bytes b -> decode_hex (encode_hex b) = b.
Proof.
  intros Hwf. unfold decode_hex, encode_hex.
  cbn [strip0x]. change (120 =? 120) with true. cbn [orb].
  rewrite encode_body_even. rewrite hex_pairs_encode by exact Hwf. reflexivity.
Qed.
