(* Database lemmas of the task layer: restriction to a pair is a homomorphism
   for the pair's own write operations and invisible to everybody else's; the
   effect of the unwind and insert operations on a rendered ghost. *)
From Coq Require Import List NArith Bool Lia ZifyBool ZifyN ZifyNat.
From Shovel Require Import Model.TaskTypes Model.TaskDb Model.Task Model.TaskNode Model.TaskSys
  Model.TaskSpec.
Import ListNotations.
Open Scope N_scope.

Arguments N.add : simpl never.
Arguments N.sub : simpl never.
Arguments N.mul : simpl never.
Arguments N.div : simpl never.
Arguments N.modulo : simpl never.
Arguments N.ltb : simpl never.
Arguments N.leb : simpl never.
Arguments N.eqb : simpl never.
Arguments N.min : simpl never.

(* ---------- filters ---------- *)
Lemma filter_comm : forall {A} (p q : A -> bool) l,
  filter p (filter q l) = filter q (filter p l).
Proof.
  intros A p q l. induction l as [|x l IH]; [reflexivity|].
  cbn [filter]. destruct (q x) eqn:Q, (p x) eqn:P; cbn [filter]; rewrite ?Q, ?P, IH; reflexivity.
Qed.

Lemma filter_imp : forall {A} (p q : A -> bool) l,
  (forall x, p x = true -> q x = true) -> filter p (filter q l) = filter p l.
Proof.
  intros A p q l H. induction l as [|x l IH]; [reflexivity|].
  cbn [filter]. destruct (q x) eqn:Q; cbn [filter].
  - rewrite IH. reflexivity.
  - destruct (p x) eqn:P; [rewrite (H x P) in Q; discriminate|exact IH].
Qed.

Lemma filter_all : forall {A} (p : A -> bool) l,
  Forall (fun x => p x = true) l -> filter p l = l.
Proof.
  intros A p l H. induction H as [|x l Hx _ IH]; [reflexivity|].
  cbn [filter]. rewrite Hx, IH. reflexivity.
Qed.

Lemma filter_none : forall {A} (p : A -> bool) l,
  Forall (fun x => p x = false) l -> filter p l = [].
Proof.
  intros A p l H. induction H as [|x l Hx _ IH]; [reflexivity|].
  cbn [filter]. rewrite Hx. exact IH.
Qed.

Lemma filter_ext_in' : forall {A} (p q : A -> bool) l,
  Forall (fun x => p x = q x) l -> filter p l = filter q l.
Proof.
  intros A p q l H. induction H as [|x l Hx _ IH]; [reflexivity|].
  cbn [filter]. rewrite Hx, IH. reflexivity.
Qed.

(* ---------- own / foreign write operations ---------- *)
Definition own_wop (c : tcfg) (w : wop) : Prop :=
  match w with
  | WDelCur s i _ => s = t_src c /\ i = t_ig c
  | WDelRows _ s i _ => s = t_src c /\ i = t_ig c
  | WCopy rs => Forall (fun r => row_of (t_src c) (t_ig c) r = true) rs
  | WInsCur x => cur_of (t_src c) (t_ig c) x = true
  end.
(* a write of ANOTHER pair *)
Definition foreign_wop (c : tcfg) (w : wop) : Prop :=
  match w with
  | WDelCur s i _ => (s =? t_src c) && (i =? t_ig c) = false
  | WDelRows _ s i _ => (s =? t_src c) && (i =? t_ig c) = false
  | WCopy rs => Forall (fun r => row_of (t_src c) (t_ig c) r = false) rs
  | WInsCur x => cur_of (t_src c) (t_ig c) x = false
  end.

Lemma pv_apply_own : forall c d w, own_wop c w -> pv c (apply_wop d w) = apply_wop (pv c d) w.
Proof.
  intros c d w H. unfold pv, restrict. destruct w as [s i n|t s i n|rs|x]; cbn [apply_wop d_curs d_rows].
  - f_equal. apply filter_comm.
  - f_equal. apply filter_comm.
  - f_equal. rewrite filter_app. f_equal. apply filter_all. exact H.
  - f_equal. rewrite filter_app. f_equal. cbn [filter]. cbn in H. rewrite H. reflexivity.
Qed.

Lemma outside_apply_own : forall c d w, own_wop c w -> outside c (apply_wop d w) = outside c d.
Proof.
  intros c d w H. unfold outside. destruct w as [s i n|t s i n|rs|x]; cbn [apply_wop d_curs d_rows].
  - destruct H as [-> ->]. f_equal. apply filter_imp. intros x Hx. unfold del_cur_p.
    destruct (cur_of (t_src c) (t_ig c) x); [discriminate|reflexivity].
  - destruct H as [-> ->]. f_equal. apply filter_imp. intros x Hx. unfold del_row_p.
    destruct (row_of (t_src c) (t_ig c) x); [discriminate|]. rewrite andb_false_r. reflexivity.
  - f_equal. rewrite filter_app. rewrite (filter_none _ rs); [apply app_nil_r|].
    eapply Forall_impl; [|exact H]. cbn. intros r Hr. rewrite Hr. reflexivity.
  - f_equal. rewrite filter_app. cbn [filter]. cbn in H. rewrite H. cbn. apply app_nil_r.
Qed.

Lemma pv_apply_foreign : forall c d w, foreign_wop c w -> pv c (apply_wop d w) = pv c d.
Proof.
  intros c d w H. unfold pv, restrict. destruct w as [s i n|t s i n|rs|x]; cbn [apply_wop d_curs d_rows].
  - f_equal. apply filter_imp. intros x Hx. unfold del_cur_p, cur_of in *. cbn in H.
    apply andb_prop in Hx. destruct Hx as [A B]. apply N.eqb_eq in A, B.
    destruct (N.eqb_spec (c_src x) s) as [E1|E1]; [|reflexivity].
    destruct (N.eqb_spec (c_ig x) i) as [E2|E2]; [|reflexivity].
    exfalso. rewrite <- E1, <- E2, A, B, !N.eqb_refl in H. discriminate.
  - f_equal. apply filter_imp. intros x Hx. unfold del_row_p, row_of in *. cbn in H.
    apply andb_prop in Hx. destruct Hx as [A B]. apply N.eqb_eq in A, B.
    destruct (N.eqb_spec (r_src x) s) as [E1|E1]; [|rewrite andb_false_r; reflexivity].
    destruct (N.eqb_spec (r_ig x) i) as [E2|E2]; [|rewrite andb_false_r; reflexivity].
    exfalso. rewrite <- E1, <- E2, A, B, !N.eqb_refl in H. discriminate.
  - f_equal. rewrite filter_app. rewrite (filter_none _ rs); [apply app_nil_r|exact H].
  - f_equal. rewrite filter_app. cbn [filter]. cbn in H. rewrite H. apply app_nil_r.
Qed.

Lemma pv_apply_ws_own : forall c ws d,
  Forall (own_wop c) ws -> pv c (apply_ws ws d) = apply_ws ws (pv c d).
Proof.
  intros c ws. induction ws as [|w ws IH]; intros d H; [reflexivity|].
  inversion H as [|? ? Hw Hws]; subst. unfold apply_ws in *. cbn [fold_left].
  rewrite IH by exact Hws. rewrite pv_apply_own by exact Hw. reflexivity.
Qed.

Lemma outside_apply_ws_own : forall c ws d,
  Forall (own_wop c) ws -> outside c (apply_ws ws d) = outside c d.
Proof.
  intros c ws. induction ws as [|w ws IH]; intros d H; [reflexivity|].
  inversion H as [|? ? Hw Hws]; subst. unfold apply_ws in *. cbn [fold_left].
  rewrite IH by exact Hws. apply outside_apply_own. exact Hw.
Qed.

Lemma pv_apply_ws_foreign : forall c ws d,
  Forall (foreign_wop c) ws -> pv c (apply_ws ws d) = pv c d.
Proof.
  intros c ws. induction ws as [|w ws IH]; intros d H; [reflexivity|].
  inversion H as [|? ? Hw Hws]; subst. unfold apply_ws in *. cbn [fold_left].
  rewrite IH by exact Hws. apply pv_apply_foreign. exact Hw.
Qed.

(* a pair different from the task's sees only the outside *)
Lemma restrict_outside : forall c s i d,
  (t_src c, t_ig c) <> (s, i) -> restrict s i (outside c d) = restrict s i d.
Proof.
  intros c s i d Hne. unfold restrict, outside. cbn [d_curs d_rows].
  assert (Hd : forall a b, (a =? s) && (b =? i) = true -> negb ((a =? t_src c) && (b =? t_ig c)) = true).
  { intros a b H. apply andb_prop in H. destruct H as [A B]. apply N.eqb_eq in A, B. subst.
    destruct (N.eqb_spec s (t_src c)), (N.eqb_spec i (t_ig c)); try reflexivity. subst. congruence. }
  f_equal; apply filter_imp; intros x Hx; apply Hd; exact Hx.
Qed.


Lemma restrict_apply_ws_own : forall c ws d s i,
  Forall (own_wop c) ws -> (t_src c, t_ig c) <> (s, i) ->
  restrict s i (apply_ws ws d) = restrict s i d.
Proof.
  intros c ws d s i Hown Hne.
  rewrite <- (restrict_outside c s i (apply_ws ws d) Hne), outside_apply_ws_own by exact Hown.
  apply restrict_outside. exact Hne.
Qed.

Lemma newest_restrict : forall s i d, newest s i (d_curs (restrict s i d)) = newest s i (d_curs d).
Proof.
  intros s i d. unfold newest, restrict. cbn [d_curs]. f_equal. apply filter_imp. auto.
Qed.

Lemma dep_latest_ext : forall s deps cs cs',
  (forall i, In i deps -> newest s i cs = newest s i cs') ->
  dep_latest s deps cs = dep_latest s deps cs'.
Proof.
  intros s deps cs cs' H. induction deps as [|i deps IH]; [reflexivity|].
  cbn [dep_latest]. rewrite (H i (or_introl eq_refl)).
  rewrite IH; [reflexivity|]. intros j Hj. apply H. right. exact Hj.
Qed.

Lemma in_ins_N : forall x y l, In x (ins_N y l) -> x = y \/ In x l.
Proof.
  intros x y l. induction l as [|z l IH]; cbn [ins_N]; intros H.
  - destruct H as [<-|[]]. left. reflexivity.
  - destruct (y <=? z).
    + destruct H as [<-|H]; [left; reflexivity|right; exact H].
    + destruct H as [<-|H]; [right; left; reflexivity|].
      destruct (IH H) as [A|A]; [left; exact A|right; right; exact A].
Qed.

Lemma in_dedup : forall x l, In x (dedup l) -> In x l.
Proof.
  intros x l. induction l as [|y l IH]; cbn [dedup]; intros H; [exact H|].
  destruct (existsb (N.eqb y) l); [right; apply IH; exact H|].
  destruct H as [<-|H]; [left; reflexivity|right; apply IH; exact H].
Qed.

Lemma in_distinct_deps : forall x l, In x (distinct_deps l) -> In x l.
Proof.
  intros x l H. unfold distinct_deps, sort_N in H. apply in_dedup.
  induction (dedup l) as [|y r IH]; cbn [fold_right] in H; [exact H|].
  apply in_ins_N in H. destruct H as [->|H]; [left; reflexivity|right; apply IH; exact H].
Qed.

(* the dependency query does not see the task's own uncommitted writes *)
Lemma dep_query_own : forall c ws d,
  Forall (own_wop c) ws -> ~ In (t_ig c) (t_deps c) ->
  dep_query (t_src c) (t_deps c) (d_curs (apply_ws ws d))
  = dep_query (t_src c) (t_deps c) (d_curs d).
Proof.
  intros c ws d Hown Hself. unfold dep_query.
  rewrite (dep_latest_ext (t_src c) (distinct_deps (t_deps c)) _ (d_curs d)); [reflexivity|].
  intros i Hi. apply in_distinct_deps in Hi.
  rewrite <- (newest_restrict (t_src c) i (apply_ws ws d)), <- (newest_restrict (t_src c) i d).
  rewrite (restrict_apply_ws_own c ws d (t_src c) i Hown); [reflexivity|].
  intros E. inversion E. subst i. exact (Hself Hi).
Qed.

Lemma apply_ws_app : forall a b d, apply_ws (a ++ b) d = apply_ws b (apply_ws a d).
Proof. intros. unfold apply_ws. apply fold_left_app. Qed.

(* a database is determined by its pair view and its outside *)
Lemma pv_idem : forall c d, pv c (pv c d) = pv c d.
Proof.
  intros c d. unfold pv, restrict. cbn [d_curs d_rows]. f_equal; apply filter_imp; auto.
Qed.

(* ---------- newest ---------- *)
Lemma newest_pv : forall c d,
  newest (t_src c) (t_ig c) (d_curs (pv c d)) = newest (t_src c) (t_ig c) (d_curs d).
Proof.
  intros c d. unfold newest, pv, restrict. cbn [d_curs]. f_equal. apply filter_imp. auto.
Qed.

Lemma newer_bound : forall l acc n h,
  fold_left newer l acc = Some (n, h) ->
  (acc = Some (n, h)) \/ (exists x, In x l /\ c_num x = n /\ c_hash x = h).
Proof.
  induction l as [|x l IH]; intros acc n h H; cbn [fold_left] in H.
  - left. exact H.
  - apply IH in H. destruct H as [H|(y & Hy & E1 & E2)].
    + unfold newer in H. destruct acc as [[m k]|].
      * destruct (m <? c_num x); inversion H; subst.
        -- right. exists x. split; [left; reflexivity|split; reflexivity].
        -- left. reflexivity.
      * inversion H; subst. right. exists x. split; [left; reflexivity|split; reflexivity].
    + right. exists y. split; [right; exact Hy|split; assumption].
Qed.

Lemma newer_some : forall l acc, acc <> None -> fold_left newer l acc <> None.
Proof.
  induction l as [|x l IH]; intros acc H; cbn [fold_left]; [exact H|].
  apply IH. unfold newer. destruct acc as [[m k]|]; [|congruence].
  destruct (m <? c_num x); discriminate.
Qed.

Lemma newest_snoc : forall s i l x,
  Forall (fun y => cur_of s i y = true) l -> cur_of s i x = true ->
  Forall (fun y => c_num y < c_num x) l ->
  newest s i (l ++ [x]) = Some (c_num x, c_hash x).
Proof.
  intros s i l x Hl Hx Hlt. unfold newest.
  rewrite filter_app. cbn [filter]. rewrite Hx. rewrite (filter_all _ l Hl).
  rewrite fold_left_app. cbn [fold_left].
  destruct (fold_left newer l None) as [[n h]|] eqn:E; cbn [newer]; [|reflexivity].
  apply newer_bound in E. destruct E as [E|(y & Hy & E1 & E2)]; [discriminate|].
  rewrite Forall_forall in Hlt. specialize (Hlt y Hy). subst n.
  destruct (N.ltb_spec (c_num y) (c_num x)); [reflexivity|lia].
Qed.

Lemma newest_nil : forall s i, newest s i [] = None.
Proof. reflexivity. Qed.

(* ---------- rows of blocks ---------- *)
Lemma rows_of_app : forall c a b, rows_of c (a ++ b) = rows_of c a ++ rows_of c b.
Proof. intros. unfold rows_of. rewrite map_app, concat_app. reflexivity. Qed.

Lemma rows_of_cons : forall c b l, rows_of c (b :: l) = proj c b ++ rows_of c l.
Proof. reflexivity. Qed.

Lemma rows_of_own : forall c l, Forall (fun r => row_of (t_src c) (t_ig c) r = true) (rows_of c l).
Proof.
  intros c l. induction l as [|b l IH]; [constructor|].
  rewrite rows_of_cons. apply Forall_app. split; [|exact IH].
  unfold proj. apply Forall_forall. intros r Hr. apply in_map_iff in Hr.
  destruct Hr as (kv & <- & _). unfold row_of, stamp. cbn. rewrite !N.eqb_refl. reflexivity.
Qed.

(* a filter that depends only on the block a row belongs to *)
Lemma filter_rows_of : forall c (f : trow -> bool) (f' : blk -> bool) l,
  (forall b kv, f (stamp c b kv) = f' b) ->
  filter f (rows_of c l) = rows_of c (filter f' l).
Proof.
  intros c f f' l H. induction l as [|b l IH]; [reflexivity|].
  rewrite rows_of_cons, filter_app, IH. cbn [filter].
  assert (E : filter f (proj c b) = if f' b then proj c b else []).
  { unfold proj. destruct (f' b) eqn:F.
    - apply filter_all. apply Forall_forall. intros r Hr. apply in_map_iff in Hr.
      destruct Hr as (kv & <- & _). rewrite H. exact F.
    - apply filter_none. apply Forall_forall. intros r Hr. apply in_map_iff in Hr.
      destruct Hr as (kv & <- & _). rewrite H. exact F. }
  rewrite E. destruct (f' b); [rewrite rows_of_cons|]; reflexivity.
Qed.

(* ---------- numbering of a linked list of blocks ---------- *)
Lemma linked_from_lt : forall l prev, linked_from prev l = true ->
  Forall (fun y => b_num prev < b_num y) l.
Proof.
  induction l as [|b l IH]; intros prev H; [constructor|].
  cbn [linked_from] in H. apply andb_prop in H. destruct H as [H H3].
  apply andb_prop in H. destruct H as [H1 H2].
  constructor; [lia|]. specialize (IH b H3).
  eapply Forall_impl; [|exact IH]. cbn. intros y Hy. lia.
Qed.

Lemma last_default : forall {A} (l : list A) d d', l <> [] -> last l d = last l d'.
Proof.
  intros A l d d' H. induction l as [|x l IH]; [congruence|].
  destruct l as [|y l]; [reflexivity|]. cbn [last] in *. apply IH. discriminate.
Qed.

Lemma linked_from_app : forall l1 l2 prev,
  linked_from prev (l1 ++ l2) = true ->
  linked_from prev l1 = true /\ linked_from (last l1 prev) l2 = true.
Proof.
  induction l1 as [|b l1 IH]; intros l2 prev H.
  - split; [reflexivity|exact H].
  - cbn [app linked_from] in H |- *. apply andb_prop in H. destruct H as [H H3].
    destruct (IH l2 b H3) as [A B]. split; [rewrite H, A; reflexivity|].
    destruct l1 as [|b' l1']; [exact B|].
    change (last (b :: b' :: l1') prev) with (last (b' :: l1') prev).
    rewrite (last_default _ prev b) by discriminate. exact B.
Qed.

Lemma linked_from_app_inv : forall l1 l2 prev,
  linked_from prev l1 = true -> linked_from (last l1 prev) l2 = true ->
  linked_from prev (l1 ++ l2) = true.
Proof.
  induction l1 as [|b l1 IH]; intros l2 prev A B.
  - exact B.
  - cbn [app linked_from] in A |- *. apply andb_prop in A. destruct A as [A A3].
    rewrite A. cbn [andb]. apply IH; [exact A3|].
    destruct l1 as [|b' l1']; [exact B|].
    change (last (b :: b' :: l1') prev) with (last (b' :: l1') prev) in B.
    rewrite (last_default _ prev b) in B by discriminate. exact B.
Qed.

Lemma chain_ok_app_lt : forall l1 l2, chain_ok (l1 ++ l2) = true ->
  forall x y, In x l1 -> In y l2 -> b_num x < b_num y.
Proof.
  induction l1 as [|b l1 IH]; intros l2 H x y Hx Hy; [destruct Hx|].
  cbn [app chain_ok] in H.
  pose proof (linked_from_lt _ _ H) as L. rewrite Forall_forall in L.
  destruct Hx as [<-|Hx].
  - apply L. apply in_or_app. right. exact Hy.
  - apply (IH l2); [|exact Hx|exact Hy].
    destruct l1 as [|b' l1']; [destruct Hx|].
    cbn [app chain_ok]. cbn [app linked_from] in H. apply andb_prop in H. apply H.
Qed.

Lemma chain_ok_app_l : forall l1 l2, chain_ok (l1 ++ l2) = true -> chain_ok l1 = true.
Proof.
  intros l1 l2 H. destruct l1 as [|b l1]; [reflexivity|].
  cbn [app chain_ok] in *. apply linked_from_app in H. apply H.
Qed.

Lemma chain_ok_app_r : forall l1 l2, chain_ok (l1 ++ l2) = true -> chain_ok l2 = true.
Proof.
  induction l1 as [|b l1 IH]; intros l2 H; [exact H|].
  apply IH. cbn [app chain_ok] in H. destruct l1 as [|b' l1']; cbn [app] in *.
  - destruct l2 as [|y l2]; [reflexivity|]. cbn [chain_ok linked_from] in *.
    apply andb_prop in H. apply H.
  - cbn [chain_ok linked_from] in *. apply andb_prop in H. apply H.
Qed.

Lemma last_blk_in : forall b, b <> [] -> In (last_blk b) b.
Proof.
  intros b H. unfold last_blk. destruct b as [|x b]; [congruence|].
  clear H. revert x. induction b as [|y b IH]; intros x; [left; reflexivity|].
  right. change (last (x :: y :: b) blk0) with (last (y :: b) blk0). apply IH.
Qed.

Lemma last_blk_app : forall a b, b <> [] -> last_blk (a ++ b) = last_blk b.
Proof.
  intros a b H. unfold last_blk. induction a as [|x a IH]; [reflexivity|].
  cbn [app]. destruct (a ++ b) eqn:E; [|exact IH].
  destruct a; cbn in E; [congruence|discriminate].
Qed.

Lemma last_blk_last : forall l x d, last_blk (l ++ [x]) = x /\ last (l ++ [x]) d = x.
Proof. intros. unfold last_blk. rewrite !last_last. split; reflexivity. Qed.

(* ---------- ghost facts ---------- *)
Lemma in_concat_batch : forall (g : list batch) b x, In b g -> In x b -> In x (concat g).
Proof. intros g b x Hb Hx. apply in_concat. exists b. split; assumption. Qed.

Lemma concat_snoc : forall {A} (g : list (list A)) b, concat (g ++ [b]) = concat g ++ b.
Proof. intros. rewrite concat_app. cbn. rewrite app_nil_r. reflexivity. Qed.

(* the batch ends of [p] lie strictly below every block of a later batch *)
Lemma ends_below : forall c p b,
  wf_ghost c (p ++ [b]) ->
  Forall (fun y => forall x, In x b -> c_num y < b_num x) (map (bcur c) p).
Proof.
  intros c p b (Hne & Hch & _). rewrite concat_snoc in Hch.
  apply Forall_forall. intros y Hy x Hx. apply in_map_iff in Hy.
  destruct Hy as (q & <- & Hq). cbn [bcur c_num].
  apply (chain_ok_app_lt _ _ Hch); [|exact Hx].
  apply (in_concat_batch p q); [exact Hq|]. apply last_blk_in.
  rewrite Forall_forall in Hne. apply Hne. apply in_or_app. left. exact Hq.
Qed.

Lemma wf_ghost_prefix : forall c p q, wf_ghost c (p ++ q) -> wf_ghost c p.
Proof.
  intros c p q (Hne & Hch & Hr). rewrite concat_app in Hch, Hr.
  split; [|split].
  - apply Forall_app in Hne. apply Hne.
  - eapply chain_ok_app_l. exact Hch.
  - apply Forall_app in Hr. apply Hr.
Qed.

Lemma bcur_own : forall c g, Forall (fun y => cur_of (t_src c) (t_ig c) y = true) (map (bcur c) g).
Proof.
  intros c g. apply Forall_forall. intros y Hy. apply in_map_iff in Hy.
  destruct Hy as (q & <- & _). unfold cur_of, bcur. cbn. rewrite !N.eqb_refl. reflexivity.
Qed.

(* position = newest cursor of the rendering *)
Lemma newest_render : forall c g, wf_ghost c g ->
  newest (t_src c) (t_ig c) (d_curs (render c g)) = gpos g.
Proof.
  intros c g H. unfold gpos, render. cbn [d_curs].
  destruct (rev g) as [|b r] eqn:E.
  - apply (f_equal (@rev _)) in E. rewrite rev_involutive in E. subst g. reflexivity.
  - apply (f_equal (@rev _)) in E. rewrite rev_involutive in E. cbn [rev] in E. subst g.
    rewrite map_app. cbn [map]. rewrite newest_snoc.
    + reflexivity.
    + apply bcur_own.
    + unfold cur_of, bcur. cbn. rewrite !N.eqb_refl. reflexivity.
    + pose proof (ends_below c (rev r) b H) as L.
      eapply Forall_impl; [|exact L]. cbn. intros y Hy. apply Hy.
      apply last_blk_in. destruct H as (Hne & _). rewrite Forall_forall in Hne.
      apply Hne. apply in_or_app. right. left. reflexivity.
Qed.

Lemma gpos_snoc : forall p b, gpos (p ++ [b]) = Some (b_num (last_blk b), b_hash (last_blk b)).
Proof. intros. unfold gpos. rewrite rev_unit. reflexivity. Qed.

(* ---------- the unwind of one batch on a rendered ghost ---------- *)
(* delete from task_updates where num >= (end of the last batch) *)
Lemma del_cur_render : forall c p b,
  wf_ghost c (p ++ [b]) ->
  apply_wop (render c (p ++ [b])) (WDelCur (t_src c) (t_ig c) (b_num (last_blk b)))
  = Db (map (bcur c) p) (rows_of c (concat (p ++ [b]))).
Proof.
  intros c p b H. unfold render. cbn [apply_wop d_curs d_rows]. f_equal.
  rewrite map_app, filter_app. cbn [map filter].
  assert (E : del_cur_p (t_src c) (t_ig c) (b_num (last_blk b)) (bcur c b) = true).
  { unfold del_cur_p, cur_of, bcur. cbn. rewrite !N.eqb_refl. cbn.
    destruct (N.leb_spec (b_num (last_blk b)) (b_num (last_blk b))); [reflexivity|lia]. }
  rewrite E. cbn. rewrite app_nil_r. apply filter_all.
  pose proof (ends_below c p b H) as L.
  eapply Forall_impl; [|exact L]. cbn. intros y Hy.
  assert (Hb : In (last_blk b) b).
  { apply last_blk_in. destruct H as (Hne & _). rewrite Forall_forall in Hne.
    apply Hne. apply in_or_app. right. left. reflexivity. }
  specialize (Hy _ Hb). unfold del_cur_p.
  destruct (N.leb_spec (b_num (last_blk b)) (c_num y)); [lia|].
  rewrite andb_false_r. reflexivity.
Qed.

(* delete from <tbl> where block_num >= m, with m above the remaining position
   and not above the first block of the batch *)
Lemma del_rows_render : forall c p b m curs,
  wf_ghost c (p ++ [b]) ->
  (forall x, In x (concat p) -> b_num x < m) ->
  (forall x, In x b -> m <= b_num x) ->
  apply_wop (Db curs (rows_of c (concat (p ++ [b])))) (WDelRows (t_tbl c) (t_src c) (t_ig c) m)
  = Db curs (rows_of c (concat p)).
Proof.
  intros c p b m curs H Hlo Hhi. cbn [apply_wop d_curs d_rows]. f_equal.
  rewrite (filter_rows_of c _ (fun x => negb (m <=? b_num x))).
  - f_equal. rewrite concat_snoc, filter_app.
    rewrite (filter_all _ (concat p)), (filter_none _ b); [apply app_nil_r| |].
    + apply Forall_forall. intros x Hx. specialize (Hhi x Hx).
      destruct (N.leb_spec m (b_num x)); [reflexivity|lia].
    + apply Forall_forall. intros x Hx. specialize (Hlo x Hx).
      destruct (N.leb_spec m (b_num x)); [lia|reflexivity].
  - intros x kv. unfold del_row_p, row_of, stamp. cbn. rewrite !N.eqb_refl. reflexivity.
Qed.

(* the rows of a ghost whose position is (n, _) lie at or below n *)
Lemma ghost_below_pos : forall c p n h, wf_ghost c p -> gpos p = Some (n, h) ->
  forall x, In x (concat p) -> b_num x <= n.
Proof.
  intros c p n h H G x Hx. unfold gpos in G.
  destruct (rev p) as [|b r] eqn:E; [discriminate|].
  apply (f_equal (@rev _)) in E. rewrite rev_involutive in E. cbn [rev] in E. subst p.
  inversion G; subst. clear G.
  assert (Hb : b <> []).
  { destruct H as (Hne & _). rewrite Forall_forall in Hne. apply Hne.
    apply in_or_app. right. left. reflexivity. }
  destruct H as (_ & Hch & _). rewrite concat_snoc in Hch, Hx.
  (* split the whole list just before its last block *)
  destruct (exists_last Hb) as (b' & z & ->).
  rewrite (proj1 (last_blk_last b' z blk0)).
  rewrite app_assoc in Hch, Hx. apply in_app_or in Hx. destruct Hx as [Hx|[<-|[]]]; [|lia].
  pose proof (chain_ok_app_lt _ _ Hch x z Hx (or_introl eq_refl)). lia.
Qed.

(* ---------- the insert of one batch ---------- *)
Lemma insert_render : forall c p bs,
  apply_wop (apply_wop (render c p) (WCopy (rows_of c bs))) (WInsCur (bcur c bs))
  = render c (p ++ [bs]).
Proof.
  intros c p bs. unfold render. cbn [apply_wop d_curs d_rows].
  rewrite map_app, concat_snoc, rows_of_app. reflexivity.
Qed.
