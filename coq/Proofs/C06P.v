(* C06: start, stop, resume. *)
From Coq Require Import List NArith Bool Lia ZifyBool ZifyN ZifyNat.
From Shovel Require Import Model.TaskTypes Model.TaskDb Model.Task Model.TaskNode Model.TaskSys
  Model.TaskSpec Proofs.TaskArithP Proofs.TaskDbP Proofs.TaskExecP Proofs.TaskLoadP Proofs.TaskInvP
  Proofs.TaskLegacyP Proofs.TaskStepP Proofs.C02P.
Import ListNotations.
Open Scope N_scope.

(* ---------- range (I5) ---------- *)
Lemma TaskInv_range : forall c d, TaskInv c d -> pair_in_range c d.
Proof.
  intros c d (g & Hpv & Hw). pose proof Hw as (Hne & Hch & Hr). rewrite Forall_forall in Hr. split.
  - intros x Hx Hc.
    assert (Hin : In x (d_curs (pv c d))) by (unfold pv, restrict; cbn; apply filter_In; split; assumption).
    rewrite Hpv in Hin. cbn [render d_curs] in Hin. apply in_map_iff in Hin. destruct Hin as (b & <- & Hb).
    cbn [bcur c_num]. rewrite Forall_forall in Hne.
    assert (Hl : In (last_blk b) (concat g)).
    { apply (in_concat_batch g b); [exact Hb|apply last_blk_in; apply Hne; exact Hb]. }
    destruct (Hr _ Hl) as (A & B & _). split; assumption.
  - intros r Hx Hc.
    assert (Hin : In r (d_rows (pv c d))) by (unfold pv, restrict; cbn; apply filter_In; split; assumption).
    rewrite Hpv in Hin. cbn [render d_rows] in Hin. apply in_rows_of in Hin.
    destruct Hin as (b & kv & Hb & ->). cbn. destruct (Hr _ Hb) as (A & B & _). split; assumption.
Qed.

Lemma runs_inv : forall c ss d,
  cfg_ok c -> TaskInv c d -> runs_sat reply_ok c ss d ->
  Forall (TaskInv c) (run_dbs c ss d) /\ TaskInv c (run_end c ss d).
Proof.
  intros c ss. induction ss as [|s ss IH]; intros d Hc Hi Hs.
  - split; [constructor|exact Hi].
  - destruct Hs as [Ht Hs]. destruct (converge_inv c d s Hc Hi Ht) as (A & B & _).
    destruct (IH _ Hc B Hs) as [C D]. split.
    + cbn [run_dbs]. apply Forall_app. split; [|exact C].
      apply Forall_forall. intros x Hx. apply in_map_iff in Hx. destruct Hx as (e & <- & He).
      rewrite Forall_forall in A. apply (A e He).
    + unfold run_end in *. cbn [run_steps]. fold (step c s d).
      destruct (run_steps repaired c ss (r_db (step c s d))) as [d' os] eqn:E. cbn [fst] in *. exact D.
Qed.

Lemma empty_pair_inv : forall c d, pv c d = Db [] [] -> TaskInv c d.
Proof.
  intros c d H. exists []. split; [exact H|]. split; [constructor|split; [reflexivity|constructor]].
Qed.

(* from a pair with no recorded position and no rows: every committed state of
   every step of every run has all of the pair's cursors and rows in range *)
Lemma range_lemma : forall c ss d,
  cfg_ok c -> pv c d = Db [] [] -> runs_sat reply_ok c ss d ->
  Forall (pair_in_range c) (run_dbs c ss d) /\ pair_in_range c (run_end c ss d).
Proof.
  intros c ss d Hc He Hs. destruct (runs_inv c ss d Hc (empty_pair_inv c d He) Hs) as [A B].
  split; [|apply TaskInv_range; exact B].
  eapply Forall_impl; [|exact A]. intros x. apply TaskInv_range.
Qed.

(* ---------- Done ---------- *)
Lemma reorg_loop_S : forall v f c, reorg_loop v (S f) c = position v c (reorg_loop v f c).
Proof. reflexivity. Qed.

Definition no_fail (x : res) : Prop := Forall (fun e => is_fail (snd (fst e)) = false) (r_trace x).

(* once the stop block is recorded a step touches nothing: it issues Begin,
   QLatest and Rollback only, commits nothing, and -- unless one of these
   three fails -- reports Done *)
Lemma done_recorded : forall c d s n h,
  newest (t_src c) (t_ig c) (d_curs d) = Some (n, h) -> 0 < t_stop c -> t_stop c <= n ->
  Forall (fun e => quiet_op (fst (fst e)) /\ snd e = d) (r_trace (step c s d))
  /\ r_db (step c s d) = d
  /\ (forall o, r_out (step c s d) = Fin o -> o = ODone \/ o = OFailed)
  /\ (forall o, r_out (step c s d) = Fin o -> no_fail (step c s d) -> o = ODone).
Proof.
  intros c d s n h Hn Hs Hle. unfold step, step_v, converge_v, no_fail.
  destruct s as [|a1 s]; [cbn; repeat split; try constructor; discriminate|].
  destruct (match a1 with ACrash => true | _ => false end) eqn:E1.
  { destruct a1; try discriminate. cbn. repeat split; try constructor; discriminate. }
  assert (H1 : a1 <> ACrash) by (destruct a1; congruence).
  rewrite exec_op by exact H1. cbn zeta.
  destruct (step_op_begin (t_uniq c) d a1 H1) as [B|(k & B)]; rewrite B; cbn [fst snd].
  2:{ unfold begun. cbn [is_fail]. rewrite exec_ret. cbn.
      repeat split; try (constructor; [split; [exact I|reflexivity]|constructor]).
      - intros o E. inversion E. right. reflexivity.
      - intros o E F. inversion F as [|? ? F1 _]. discriminate. }
  unfold begun. cbn [is_fail]. change 1001%nat with (S 1000). rewrite reorg_loop_S. unfold position.
  destruct s as [|a2 s].
  { cbn. repeat split; try (constructor; [split; [exact I|reflexivity]|constructor]); discriminate. }
  destruct (match a2 with ACrash => true | _ => false end) eqn:E2.
  { destruct a2; try discriminate. cbn.
    repeat split; try (constructor; [split; [exact I|reflexivity]|constructor]); discriminate. }
  assert (H2 : a2 <> ACrash) by (destruct a2; congruence).
  rewrite exec_op by exact H2. cbn zeta.
  (* the third op is always the Rollback of [rb] *)
  assert (RB : forall o (cs : cstate) (s' : list ans),
             Forall (fun e => quiet_op (fst (fst e)) /\ snd e = d) (r_trace (exec (t_uniq c) (rb o) s' d cs))
             /\ r_db (exec (t_uniq c) (rb o) s' d cs) = d
             /\ (forall o', r_out (exec (t_uniq c) (rb o) s' d cs) = Fin o' -> o' = o)).
  { intros o cs s'. unfold rb. destruct s' as [|a3 s']; [cbn; repeat split; try constructor; discriminate|].
    destruct (match a3 with ACrash => true | _ => false end) eqn:E3.
    { destruct a3; try discriminate. cbn. repeat split; try constructor; discriminate. }
    assert (H3 : a3 <> ACrash) by (destruct a3; congruence).
    rewrite exec_op by exact H3. cbn zeta.
    pose proof (step_op_rollback (t_uniq c) d cs a3 H3) as R.
    destruct (step_op (t_uniq c) d cs Rollback a3) as [[d3 cs3] r3]. cbn [fst snd] in *. inversion R; subst.
    rewrite exec_ret. cbn. repeat split; try (constructor; [split; [exact I|reflexivity]|constructor]).
    intros o' E. inversion E. reflexivity. }
  destruct (step_op_tx (t_uniq c) d [] (QLatest (t_src c) (t_ig c)) a2 eq_refl H2) as [Q|(k & cs' & Q & _)];
    rewrite Q; cbn [db_step fst snd vis apply_ws fold_left].
  - rewrite Hn. unfold pos_query, with_local.
    destruct (N.ltb_spec 0 (t_stop c)); [|lia]. destruct (N.leb_spec (t_stop c) n); [|lia]. cbn [andb].
    destruct (RB ODone (Some []) s) as (A & B' & C).
    repeat split.
    + constructor; [split; [exact I|reflexivity]|]. constructor; [split; [exact I|reflexivity]|exact A].
    + exact B'.
    + intros o E. left. apply C. exact E.
    + intros o E _. apply C. exact E.
  - unfold pos_query. destruct (RB OFailed cs' s) as (A & B' & C).
    repeat split.
    + constructor; [split; [exact I|reflexivity]|]. constructor; [split; [exact I|reflexivity]|exact A].
    + exact B'.
    + intros o E. right. apply C. exact E.
    + intros o E F. inversion F as [|? ? _ F2]. inversion F2 as [|? ? F3 _]. discriminate.
Qed.

(* ---------- resume, first block, clipping at stop ---------- *)
(* assumption on replies that also names what head numbers were answered *)
Definition head_seen (HD : N -> Prop) (i : io) (r : reply) : Prop :=
  reply_ok i r /\ match i, r with RLatest _, RHead n _ => HD n | _, _ => True end.

(* where a step starts loading: the recorded position if there is one
   (whatever [start] says), else start-1, else (start = 0) head-1 for a head
   number the node answered in this step *)
Definition resume_point (c : tcfg) (HD : N -> Prop) (p : list batch) (ln : N) : Prop :=
  match gpos p with
  | Some (n, _) => ln = n
  | None => (0 < t_start c /\ ln + 1 = t_start c)
            \/ (t_start c = 0 /\ exists n, HD n /\ ln = sub64 n 1)
  end.

Section Resume.
Variable c : tcfg.
Variable HD : N -> Prop.
Hypothesis Hc : cfg_ok c.
Variables (g : list batch) (d : db) (s : list ans).
Hypothesis Hpv : pv c d = render c g.
Hypothesis Hw : wf_ghost c g.
Hypothesis Ht : trace_sat (head_seen HD) (step c s d).

Lemma pos_resume : forall p ln lh, pos_of c Tr2 HD p ln lh -> resume_point c HD p ln.
Proof.
  intros p ln lh H. unfold pos_of, resume_point in *. destruct (gpos p) as [[n h]|].
  - apply H.
  - destruct H as [_ [[A B]|[A B]]]; [left; split; [exact A|lia]|right; split; assumption].
Qed.

Lemma resume_lemma : r_out (step c s d) = Fin OConverged ->
  exists p q bs ln,
    g = p ++ q /\ pv c (r_db (step c s d)) = render c (p ++ [bs]) /\ wf_ghost c (p ++ [bs])
    /\ resume_point c HD p ln
    /\ map b_num bs = nums_from (ln + 1) (length bs)
    /\ bs <> [] /\ N.of_nat (length bs) <= t_batch c
    /\ (forall x, In x bs -> t_start c <= b_num x /\ (t_stop c = 0 \/ b_num x <= t_stop c)).
Proof.
  intros Ho.
  destruct (step_converged c (head_seen HD) (fun _ => True) True Tr Tr2 HD TrG Hc (fun _ _ H => proj1 H)
              (fun _ _ _ => forall_true _) (fun _ _ _ => I)
              (fun k n h H => proj2 H) (fun _ _ => I) (fun _ _ _ _ _ _ _ _ _ _ _ _ _ => I)
              g d s Hpv (W_true c g Hw) (Forall_True s) Ht Ho)
    as (p & q & bs & ln & lh & Eg & _ & Hp & [Hwf _] & Hpos & Hn & Hne & Hlen & _).
  exists p, q, bs, ln. split; [exact Eg|]. split; [exact Hp|]. split; [exact Hwf|].
  split; [eapply pos_resume; exact Hpos|]. split; [exact Hn|]. split; [exact Hne|]. split; [exact Hlen|].
  intros x Hx. destruct Hwf as (_ & _ & Hr). rewrite concat_snoc in Hr. apply Forall_app in Hr.
  destruct Hr as [_ Hr]. rewrite Forall_forall in Hr. destruct (Hr x Hx) as (A & B & _). split; assumption.
Qed.

(* Done is reported only with a non-zero stop and a local position at or
   beyond it; such a step commits nothing *)
Lemma done_only_if : r_out (step c s d) = Fin ODone ->
  r_db (step c s d) = d /\ 0 < t_stop c
  /\ exists p q ln, g = p ++ q /\ resume_point c HD p ln /\ t_stop c <= ln.
Proof.
  intros Ho.
  destruct (step_done c (head_seen HD) (fun _ => True) True Tr Tr2 HD TrG Hc (fun _ _ H => proj1 H)
              (fun _ _ _ => forall_true _) (fun _ _ _ => I)
              (fun k n h H => proj2 H) (fun _ _ => I) (fun _ _ _ _ _ _ _ _ _ _ _ _ _ => I)
              g d s Hpv (W_true c g Hw) (Forall_True s) Ht Ho) as (A & B & p & q & ln & lh & Eg & Hpos & Hle).
  split; [exact A|]. split; [exact B|]. exists p, q, ln.
  split; [exact Eg|]. split; [eapply pos_resume; exact Hpos|exact Hle].
Qed.
End Resume.
