(* C18 — the checker theorem instantiated on the regenerated skeleton. *)
From Coq Require Import List String Bool NArith.
From Shovel Require Import Model.Lockset Model.LocksetKnown Proofs.LocksetP Gen.Skeleton.
Import ListNotations.

(* every pair of accesses the discipline does not cover is of the recorded
   form.  Stated on the list of offending pairs so that, when the source
   changes and this fails, the error message names them. *)
Lemma pipeline_residual : residual known_exempt Gen.Skeleton.regions = [].
Proof. vm_compute. reflexivity. Qed.

Lemma pipeline_ok : check_regions known_exempt Gen.Skeleton.regions = true.
Proof. exact (residual_nil _ _ pipeline_residual). Qed.

(* ... and such pairs exist on the pinned tree: without the exemption the check fails *)
Lemma pipeline_full_refuted : check_regions no_exempt Gen.Skeleton.regions = false.
Proof. vm_cast_no_check (eq_refl false). Qed.

Lemma pipeline_only_known :
  forall g, In g Gen.Skeleton.regions ->
  forall gl inst s, valid_inst (groles g) inst -> steps gl (init (groles g) inst) s ->
  forall i j a1 L1 a2 L2, race_at gl s i j a1 L1 a2 L2 ->
    known_exempt (a1, L1) (a2, L2) = true \/ known_exempt (a2, L2) (a1, L1) = true.
Proof.
  intros g Hg. apply lockset_sound_gen. apply (check_regions_in _ _ _ pipeline_ok Hg).
Qed.

(* ---------------------------------------------------------------- non-vacuity *)
Open Scope string_scope.

Definition ex_wr (r : recv) : access :=
  {| akind := Wr; acls := "T.x"; arecv := r; apath := ["f"]; apos := "f.go:1" |}.
Definition ex_lock (r : recv) : lock := {| lcls := "T"; lrecv := r |}.

(* 1. an unguarded write in a goroutine body that runs more than once *)
Definition racy_region : region :=
  {| gname := "racy"; groles := [{| rname := "w"; rrepl := true; rbody := Acc (ex_wr (RGlob "g")) |}] |}.

Lemma racy_rejected : check_region no_exempt racy_region = false.
Proof. vm_compute. reflexivity. Qed.

Lemma valid_two (ro : role) : rrepl ro = true -> valid_inst [ro] [0; 0]%nat.
Proof.
  intros Hr. split.
  - intros i [<-|[<-|[]]]; simpl; auto.
  - intros p q k r' _ Hp _ Hk.
    destruct p as [|[|[|p]]]; simpl in Hp; try discriminate; injection Hp as <-; simpl in Hk; injection Hk as <-; exact Hr.
Qed.

Lemma racy_races : exists gl inst s,
  valid_inst (groles racy_region) inst /\ steps gl (init (groles racy_region) inst) s /\ race gl s.
Proof.
  exists (fun _ => 0%N), [0; 0]%nat, (init (groles racy_region) [0; 0]%nat).
  split; [apply valid_two; reflexivity|]. split; [constructor|].
  exists 0%nat, 1%nat, (ex_wr (RGlob "g")), [], (ex_wr (RGlob "g")), [].
  split; [discriminate|]. exists [], [], (OSh 0).
  repeat split; reflexivity.
Qed.

(* 2. the self-lock discipline: b.Lock(); b.x = ...; b.Unlock() in any number of goroutines *)
Definition guarded_region : region :=
  {| gname := "guarded"; groles :=
      [{| rname := "w"; rrepl := true; rbody := Star (Sync (ex_lock (RVar "b")) (Acc (ex_wr (RVar "b")))) |}] |}.

Lemma guarded_accepted : check_region no_exempt guarded_region = true.
Proof. vm_compute. reflexivity. Qed.

Lemma guarded_race_free : forall gl inst s,
  valid_inst (groles guarded_region) inst -> steps gl (init (groles guarded_region) inst) s -> ~ race gl s.
Proof. apply lockset_sound_strict. exact guarded_accepted. Qed.

Lemma guarded_inhabited : exists inst, valid_inst (groles guarded_region) inst /\ List.length inst = 2%nat.
Proof. exists [0; 0]%nat. split; [apply valid_two; reflexivity | reflexivity]. Qed.

(* 3. a lock on another object than the one accessed protects nothing: the
   checker rejects it and the semantics has the race (the two goroutines lock
   two different objects and then touch the same third one) *)
Definition wrong_lock_region : region :=
  {| gname := "wrong-lock"; groles :=
      [{| rname := "w"; rrepl := true; rbody := Sync (ex_lock (RVar "b")) (Acc (ex_wr (RVar "c"))) |}] |}.

Lemma wrong_lock_rejected : check_region no_exempt wrong_lock_region = false.
Proof. vm_compute. reflexivity. Qed.

Lemma wrong_lock_races : exists gl inst s,
  valid_inst (groles wrong_lock_region) inst /\ steps gl (init (groles wrong_lock_region) inst) s /\ race gl s.
Proof.
  set (l := ex_lock (RVar "b")). set (a := ex_wr (RVar "c")).
  set (k0 := [IProg (Sync l (Acc a))]).
  set (k1 := [IProg (Acc a); IRel l (OSh 1)]).
  set (k2 := [IProg (Acc a); IRel l (OSh 2)]).
  exists (fun _ => 0%N), [0; 0]%nat, [k1; k2].
  split; [apply valid_two; reflexivity|]. split.
  - apply StepsTrans with (s2 := [k1; k0]).
    + apply StepsTrans with (s2 := [k0; k0]); [constructor|].
      apply (GStep _ [k0; k0] 0%nat k0 (EAcq ("T", OSh 1)) k1); [reflexivity | | ].
      * apply (TSync _ _ l (Acc a) (OSh 1) []). simpl. now exists 1%N.
      * intros c _ [].
    + apply (GStep _ [k1; k0] 1%nat k0 (EAcq ("T", OSh 2)) k2); [reflexivity | | ].
      * apply (TSync _ _ l (Acc a) (OSh 2) []). simpl. now exists 2%N.
      * intros c Hc [H|[]]. injection Hc as <-. discriminate.
  - exists 0%nat, 1%nat, a, [l], a, [l].
    split; [discriminate|]. exists [IRel l (OSh 1)], [IRel l (OSh 2)], (OSh 7).
    repeat split; try reflexivity; simpl; now exists 7%N.
Qed.
