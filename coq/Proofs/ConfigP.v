(* Lemmas about Model/Config.v: wstrings.Safe, the index-entry check, and the
   fact that ValidateFix keeps every spliceable position of the configuration
   inside the identifier alphabet (what it adds are values that were checked,
   or code constants). *)
From Coq Require Import List NArith Bool String Ascii Lia.
From Shovel Require Import Base.Outcome Model.Config.
Import ListNotations.
Open Scope N_scope.

(* ---- equality tests ---- *)
Lemma list_eqb_N_eq : forall a b : list N, list_eqb N.eqb a b = true -> a = b.
Proof.
  induction a as [|x a IH]; destruct b as [|y b]; simpl; intros H; try discriminate; auto.
  apply andb_true_iff in H as [H1 H2]. apply N.eqb_eq in H1. subst. f_equal. auto.
Qed.
Lemma str_eqb_eq : forall a b, str_eqb a b = true -> a = b.
Proof. exact list_eqb_N_eq. Qed.
Lemma str_eqb_refl : forall a, str_eqb a a = true.
Proof. unfold str_eqb. induction a; simpl; auto. rewrite N.eqb_refl. auto. Qed.
Lemma mem_In : forall s l, mem s l = true -> In s l.
Proof.
  unfold mem. intros s l H. apply existsb_exists in H as [x [Hx He]].
  apply str_eqb_eq in He. subst. assumption.
Qed.
Lemma In_mem : forall s l, In s l -> mem s l = true.
Proof.
  unfold mem. intros s l H. apply existsb_exists. exists s. split; auto. apply str_eqb_refl.
Qed.

(* ---- a custom induction principle for the nested input tree ---- *)
Section InputInd.
  Variable P : input -> Prop.
  Hypothesis H : forall ix n c f cs, Forall P cs -> P (Input ix n c f cs).
  Fixpoint input_ind' (i : input) : P i :=
    match i with
    | Input ix n c f cs =>
        H ix n c f cs ((fix go (l : list input) : Forall P l :=
                          match l with
                          | [] => Forall_nil P
                          | x :: r => Forall_cons x (input_ind' x) (go r)
                          end) cs)
    end.
End InputInd.

Lemma selected1_sub : forall i x, In x (selected1 i) -> In x (flat_input i).
Proof.
  induction i as [ix n c f cs IH] using input_ind'. intros x Hx. simpl in *.
  apply in_app_or in Hx as [Hx|Hx].
  - right. apply in_flat_map in Hx as [y [Hy Hxy]]. apply in_flat_map. exists y. split; auto.
    rewrite Forall_forall in IH. apply IH; auto.
  - destruct (is_nil c); simpl in Hx; [contradiction|]. destruct Hx as [Hx|[]]. left. assumption.
Qed.
Lemma selected_sub : forall l x, In x (selected l) -> In x (all_inputs l).
Proof.
  unfold selected, all_inputs. intros l x Hx. apply in_flat_map in Hx as [y [Hy Hxy]].
  apply in_flat_map. exists y. split; auto. apply selected1_sub. assumption.
Qed.
Lemma top_in_all : forall l x, In x l -> In x (all_inputs l).
Proof.
  unfold all_inputs. intros l x Hx. apply in_flat_map. exists x. split; auto.
  destruct x. simpl. left. reflexivity.
Qed.

Section Safe.
  Variable U : uni.

  Lemma safe_nil : safe U [] = true.
  Proof. reflexivity. Qed.
  Lemma safe_app : forall a b, safe U (a ++ b) = safe U a && safe U b.
  Proof. intros. unfold safe. apply forallb_app. Qed.
  Lemma safe_firstn : forall n s, safe U s = true -> safe U (firstn n s) = true.
  Proof.
    intros n s Hs. rewrite <- (firstn_skipn n s) in Hs. rewrite safe_app in Hs.
    apply andb_true_iff in Hs as [H _]. exact H.
  Qed.
  (* a string that passes Safe passes the index-entry check as well *)
  Lemma safe_idx_ok : forall e, safe U e = true -> idx_ok U e = true.
  Proof.
    intros e He. unfold idx_ok, idx_split.
    destruct (has_suffix sp_asc e); [apply safe_firstn; assumption|].
    destruct (has_suffix sp_desc e); [apply safe_firstn; assumption|]. assumption.
  Qed.
  (* the direction part of an index entry is one of three code constants *)
  Lemma idx_split_dir : forall e, In (snd (idx_split e)) [[]; sp_asc; sp_desc].
  Proof.
    intros e. unfold idx_split. destruct (has_suffix sp_asc e); simpl; auto.
    destruct (has_suffix sp_desc e); simpl; auto.
  Qed.

  (* ---- the structural predicate: every spliceable position is safe ---- *)
  Definition SafeFilter (f : cfilter) : Prop :=
    safe U (r_table (f_ref f)) = true /\ safe U (r_col (f_ref f)) = true.
  Definition SafeCol (c : column) : Prop := safe U (c_name c) = true /\ safe U (c_type c) = true.
  Definition SafeTable (t : table) : Prop :=
    safe U (t_name t) = true /\ Forall SafeCol (t_cols t) /\
    Forall (Forall (fun s => safe U s = true)) (t_unique t) /\
    Forall (Forall (fun e => idx_ok U e = true)) (t_index t).
  Definition SafeIg (g : integ) : Prop :=
    safe U (ig_name g) = true /\ SafeTable (ig_table g) /\
    Forall (fun i => SafeFilter (i_flt i)) (all_inputs (ig_inputs g)) /\
    Forall (fun b => SafeFilter (bd_flt b)) (ig_block g).
  Definition SafeCfg (c : root) : Prop :=
    Forall (fun s => safe U s = true) (sources c) /\ Forall SafeIg (integs c).

  Lemma SafeFilter_no : SafeFilter no_filter.
  Proof. split; reflexivity. Qed.

  (* ---- ValidateFilterRefs ---- *)
  Lemma nth_safe_table : forall igs k, Forall SafeIg igs ->
    safe U (t_name (ig_table (nth k igs dummy_ig))) = true.
  Proof.
    intros igs k H. destruct (nth_in_or_default k igs dummy_ig) as [Hin|Hd].
    - rewrite Forall_forall in H. apply H in Hin. destruct Hin as [_ [[Ht _] _]]. exact Ht.
    - rewrite Hd. reflexivity.
  Qed.

  Definition SafeAdds (a : list addreq) : Prop := Forall (fun x => safe U (snd x) = true) a.

  Lemma fix_filter_safe : forall igs0 f f' d a,
    Forall SafeIg igs0 -> SafeFilter f -> fix_filter igs0 f = Some (f', d, a) ->
    SafeFilter f' /\ SafeAdds a.
  Proof.
    intros igs0 f f' d a Higs Hf H. unfold fix_filter in H.
    destruct (check_ref igs0 (f_ref f)) as [| |k tn] eqn:Hc; try discriminate.
    - inversion H; subst. split; [assumption|constructor].
    - inversion H; subst; clear H. destruct Hf as [Hft Hfc].
      assert (Htn : safe U tn = true).
      { unfold check_ref in Hc. destruct (negb (is_nil (r_ig (f_ref f)))).
        - destruct (find_last_ig (r_ig (f_ref f)) igs0) as [k'|]; try discriminate.
          destruct (is_nil (r_col (f_ref f))); try discriminate.
          destruct (mem _ _); try discriminate. inversion Hc; subst. apply nth_safe_table. assumption.
        - destruct (_ || _); discriminate. }
      split; [split; simpl; assumption|]. constructor; [simpl; assumption|constructor].
  Qed.

  Lemma SafeAdds_app : forall a b, SafeAdds a -> SafeAdds b -> SafeAdds (a ++ b).
  Proof. intros. apply Forall_app. split; assumption. Qed.

  Lemma fix_input_eq : forall igs0 ix n c f cs,
    fix_input igs0 (Input ix n c f cs) =
    match fix_filter igs0 f, fix_inputs igs0 cs with
    | Some (f', d, a), Some (cs', dc, ac) => Some (Input ix n c f' cs', d ++ dc, a ++ ac)
    | _, _ => None
    end.
  Proof.
    intros igs0 ix n c f cs. simpl. destruct (fix_filter igs0 f) as [[[f' d] a]|]; [|reflexivity].
    assert (E : (fix go (l : list input) : option (list input * list str * list addreq) :=
                   match l with
                   | [] => Some ([], [], [])
                   | x :: r =>
                       match fix_input igs0 x, go r with
                       | Some (x', d0, a0), Some (r', ds, as_) => Some (x' :: r', d0 ++ ds, a0 ++ as_)
                       | _, _ => None
                       end
                   end) cs = fix_inputs igs0 cs).
    { induction cs as [|x r IH]; [reflexivity|]. simpl. rewrite IH. reflexivity. }
    rewrite E. reflexivity.
  Qed.

  Lemma fix_input_safe : forall igs0, Forall SafeIg igs0 -> forall i i' d a,
    Forall (fun x => SafeFilter (i_flt x)) (flat_input i) ->
    fix_input igs0 i = Some (i', d, a) ->
    Forall (fun x => SafeFilter (i_flt x)) (flat_input i') /\ SafeAdds a.
  Proof.
    intros igs0 Higs. induction i as [ix n c f cs IH] using input_ind'. intros i' d a Hi H.
    rewrite fix_input_eq in H.
    destruct (fix_filter igs0 f) as [[[f' d1] a1]|] eqn:Hf; [|discriminate].
    destruct (fix_inputs igs0 cs) as [[[cs' dc] ac]|] eqn:Hc; [|discriminate].
    inversion H; subst; clear H. simpl in Hi. apply Forall_cons_iff in Hi as [Hhd Hcs].
    destruct (fix_filter_safe _ _ _ _ _ Higs Hhd Hf) as [Hf' Ha1].
    assert (Hrec : Forall (fun x => SafeFilter (i_flt x)) (flat_map flat_input cs') /\ SafeAdds ac).
    { clear Hf Hf' Ha1 Hhd. revert cs' dc ac Hc. induction cs as [|x r IHr]; intros cs' dc ac Hc; simpl in Hc.
      - inversion Hc; subst. split; constructor.
      - apply Forall_cons_iff in IH as [IHx IHrest]. simpl in Hcs. apply Forall_app in Hcs as [Hx Hr].
        destruct (fix_input igs0 x) as [[[x' dx] ax]|] eqn:Ex; [|discriminate].
        destruct (fix_inputs igs0 r) as [[[r' dr] ar]|] eqn:Er; [|discriminate].
        inversion Hc; subst; clear Hc.
        destruct (IHx _ _ _ Hx eq_refl) as [Hx' Hax]. destruct (IHr IHrest Hr _ _ _ eq_refl) as [Hr' Har].
        split; [simpl; apply Forall_app; split; assumption|apply SafeAdds_app; assumption]. }
    destruct Hrec as [Hcs' Hac]. split; [|apply SafeAdds_app; assumption].
    simpl. constructor; [exact Hf'|exact Hcs'].
  Qed.

  Lemma fix_inputs_safe : forall igs0 l l' d a,
    Forall SafeIg igs0 -> Forall (fun i => SafeFilter (i_flt i)) (all_inputs l) ->
    fix_inputs igs0 l = Some (l', d, a) ->
    Forall (fun i => SafeFilter (i_flt i)) (all_inputs l') /\ SafeAdds a.
  Proof.
    intros igs0. induction l as [|i l IH]; intros l' d a Higs Hl H; simpl in H.
    - inversion H; subst. split; constructor.
    - destruct (fix_input igs0 i) as [[[i' d1] a1]|] eqn:Hi; [|discriminate].
      destruct (fix_inputs igs0 l) as [[[r' ds] as_]|] eqn:Hr; [|discriminate].
      inversion H; subst; clear H.
      unfold all_inputs in Hl. simpl in Hl. apply Forall_app in Hl as [Hhd Hrest].
      destruct (fix_input_safe igs0 Higs i i' d1 a1 Hhd Hi) as [Hi' Ha1].
      destruct (IH _ _ _ Higs Hrest eq_refl) as [Hr' Has].
      split; [|apply SafeAdds_app; assumption].
      unfold all_inputs. simpl. apply Forall_app. split; assumption.
  Qed.

  Lemma fix_block_safe : forall igs0 l l' d a,
    Forall SafeIg igs0 -> Forall (fun b => SafeFilter (bd_flt b)) l ->
    fix_block igs0 l = Some (l', d, a) ->
    Forall (fun b => SafeFilter (bd_flt b)) l' /\ SafeAdds a.
  Proof.
    intros igs0. induction l as [|b l IH]; intros l' d a Higs Hl H; simpl in H.
    - inversion H; subst. split; constructor.
    - destruct (fix_filter igs0 (bd_flt b)) as [[[f' d1] a1]|] eqn:Hf; try discriminate.
      destruct (fix_block igs0 l) as [[[r' ds] as_]|] eqn:Hr; try discriminate.
      inversion H; subst; clear H. apply Forall_cons_iff in Hl as [Hhd Htl].
      destruct (fix_filter_safe _ _ _ _ _ Higs Hhd Hf) as [Hf' Ha1].
      destruct (IH _ _ _ Higs Htl eq_refl) as [Hr' Has].
      split; [constructor; assumption|apply SafeAdds_app; assumption].
  Qed.

  Lemma fix_ig_safe : forall igs0 g g' a,
    Forall SafeIg igs0 -> SafeIg g -> fix_ig igs0 g = Some (g', a) -> SafeIg g' /\ SafeAdds a.
  Proof.
    intros igs0 g g' a Higs [Hn [Ht [Hi Hb]]] H. unfold fix_ig in H.
    destruct (fix_inputs igs0 (ig_inputs g)) as [[[ins d1] a1]|] eqn:H1; try discriminate.
    destruct (fix_block igs0 (ig_block g)) as [[[bl d2] a2]|] eqn:H2; try discriminate.
    inversion H; subst; clear H.
    destruct (fix_inputs_safe _ _ _ _ _ Higs Hi H1) as [Hi' Ha1].
    destruct (fix_block_safe _ _ _ _ _ Higs Hb H2) as [Hb' Ha2].
    split; [|apply SafeAdds_app; assumption]. repeat split; simpl; try assumption; apply Ht.
  Qed.

  Lemma fix_igs_safe : forall igs0 l l' a,
    Forall SafeIg igs0 -> Forall SafeIg l -> fix_igs igs0 l = Some (l', a) ->
    Forall SafeIg l' /\ SafeAdds a.
  Proof.
    intros igs0. induction l as [|g l IH]; intros l' a Higs Hl H; simpl in H.
    - inversion H; subst. split; constructor.
    - destruct (fix_ig igs0 g) as [[g' a1]|] eqn:Hg; try discriminate.
      destruct (fix_igs igs0 l) as [[r' as_]|] eqn:Hr; try discriminate.
      inversion H; subst; clear H. apply Forall_cons_iff in Hl as [Hhd Htl].
      destruct (fix_ig_safe _ _ _ _ Higs Hhd Hg) as [Hg' Ha1].
      destruct (IH _ _ Higs Htl eq_refl) as [Hr' Has].
      split; [constructor; assumption|apply SafeAdds_app; assumption].
  Qed.

  Lemma reqs_for_safe : forall k adds, SafeAdds adds ->
    Forall (Forall (fun e => idx_ok U e = true)) (reqs_for k adds).
  Proof.
    intros k adds H. unfold reqs_for. apply Forall_forall. intros x Hx.
    apply in_flat_map in Hx as [a [Ha Hx]]. destruct (Nat.eqb (fst a) k); [|contradiction].
    destruct Hx as [Hx|[]]. subst. constructor; [|constructor]. apply safe_idx_ok.
    unfold SafeAdds in H. rewrite Forall_forall in H. apply H. assumption.
  Qed.

  Lemma with_index_safe : forall g extra, SafeIg g ->
    Forall (Forall (fun e => idx_ok U e = true)) extra -> SafeIg (with_index g extra).
  Proof.
    intros g extra [Hn [[Htn [Hc [Hu Hix]]] [Hi Hb]]] He.
    repeat split; simpl; try assumption. apply Forall_app. split; assumption.
  Qed.

  Lemma apply_adds_safe : forall adds l k, SafeAdds adds -> Forall SafeIg l ->
    Forall SafeIg (apply_adds adds k l).
  Proof.
    intros adds. induction l as [|g l IH]; intros k Ha Hl; simpl; [constructor|].
    apply Forall_cons_iff in Hl as [Hg Hl]. constructor.
    - apply with_index_safe; [assumption|apply reqs_for_safe; assumption].
    - apply IH; assumption.
  Qed.

  Lemma validate_filter_refs_safe : forall igs0 igs1,
    Forall SafeIg igs0 -> validate_filter_refs igs0 = Some igs1 -> Forall SafeIg igs1.
  Proof.
    intros igs0 igs1 H0 H. unfold validate_filter_refs in H.
    destruct (fix_igs igs0 igs0) as [[l adds]|] eqn:Hf; try discriminate. inversion H; subst.
    destruct (fix_igs_safe _ _ _ _ H0 H0 Hf) as [Hl Ha]. apply apply_adds_safe; assumption.
  Qed.

  (* ---- AddRequiredFields / AddUniqueIndex: what they add are code constants ---- *)
  Definition SafeReq (rf : reqfield) : Prop :=
    match rf with (_, n, t) => safe U n = true /\ safe U t = true end.

  Lemma add_field_safe : forall n t g, safe U n = true -> safe U t = true -> SafeIg g ->
    SafeIg (add_field n t g).
  Proof.
    intros n t g Hn Ht [Hgn [[Htn [Hc [Hu Hix]]] [Hi Hb]]]. unfold add_field.
    repeat split; simpl; try assumption.
    - destruct (has_col n (ig_table g)); [assumption|]. apply Forall_app. split; [assumption|].
      constructor; [split; assumption|constructor].
    - destruct (has_bd n g); [assumption|]. apply Forall_app. split; [assumption|].
      constructor; [apply SafeFilter_no|constructor].
  Qed.

  Lemma add_required_fields_safe : forall req g, Forall SafeReq req -> SafeIg g ->
    SafeIg (add_required_fields req g).
  Proof.
    unfold add_required_fields. induction req as [|[[gd n] t] req IH]; intros g Hr Hg; simpl; [assumption|].
    apply Forall_cons_iff in Hr as [[Hn Ht] Hr]. apply IH; [assumption|].
    destruct (guard_holds gd g); [apply add_field_safe|]; assumption.
  Qed.

  Lemma add_unique_index_safe : forall possible t,
    Forall (fun s => safe U s = true) possible -> SafeTable t -> SafeTable (add_unique_index possible t).
  Proof.
    intros possible t Hp [Htn [Hc [Hu Hix]]]. unfold add_unique_index.
    destruct (negb (is_nil (t_unique t))); [repeat split; assumption|].
    destruct (is_nil _); [repeat split; assumption|].
    repeat split; simpl; try assumption. constructor; [|constructor].
    apply Forall_forall. intros x Hx. apply filter_In in Hx as [Hx _].
    rewrite Forall_forall in Hp. apply Hp. assumption.
  Qed.

  Definition SafeGen (G : gen) : Prop :=
    Forall SafeReq (g_required G) /\ Forall (fun s => safe U s = true) (g_possible G).

  Lemma fix_one_safe : forall G g g', SafeGen G -> SafeIg g -> fix_one G g = Some g' -> SafeIg g'.
  Proof.
    intros G g g' [Hreq Hpos] Hg H. unfold fix_one in H.
    destruct (negb _); try discriminate.
    destruct (validate_col_refs _); try discriminate. inversion H; subst; clear H.
    set (a := if is_nil (ig_agg g) then s_or else ig_agg g).
    assert (H1 : SafeIg (add_required_fields (g_required G) (with_agg g a))).
    { apply add_required_fields_safe; [assumption|]. destruct Hg as [Hn [Ht [Hi Hb]]].
      repeat split; simpl; try assumption; apply Ht. }
    destruct H1 as [Hn [Ht [Hi Hb]]]. repeat split; simpl; try assumption;
      apply add_unique_index_safe; assumption.
  Qed.

  Lemma fix_all_safe : forall G l l', SafeGen G -> Forall SafeIg l -> fix_all G l = Some l' ->
    Forall SafeIg l'.
  Proof.
    intros G. induction l as [|g l IH]; intros l' HG Hl H; simpl in H.
    - inversion H. constructor.
    - destruct (fix_one G g) as [g'|] eqn:Hg; try discriminate.
      destruct (fix_all G l) as [r'|] eqn:Hr; try discriminate. inversion H; subst.
      apply Forall_cons_iff in Hl as [Hhd Htl]. constructor.
      + eapply fix_one_safe; eassumption.
      + apply IH; auto.
  Qed.

  (* ValidateFix keeps a safe configuration safe *)
  Lemma validate_fix_safe : forall G c c', SafeGen G -> SafeCfg c ->
    validate_fix U G c = Some c' -> SafeCfg c'.
  Proof.
    intros G c c' HG [Hs Hi] H. unfold validate_fix in H.
    destruct (negb _); try discriminate.
    destruct (validate_filter_refs (integs c)) as [igs1|] eqn:H1; try discriminate.
    destruct (fix_all G igs1) as [igs2|] eqn:H2; try discriminate. inversion H; subst.
    split; simpl; [assumption|]. eapply fix_all_safe; [eassumption| |eassumption].
    eapply validate_filter_refs_safe; eassumption.
  Qed.

  Lemma validate_fix_checked : forall G c c', validate_fix U G c = Some c' ->
    check_user_input U (g_checked G) c = true.
  Proof.
    intros G c c' H. unfold validate_fix in H.
    destruct (check_user_input U (g_checked G) c); [reflexivity|discriminate].
  Qed.

  (* ---- code constants are safe when the classification knows ASCII ---- *)
  Definition ascii_ident_char (c : N) : bool :=
    ((97 <=? c) && (c <=? 122)) || ((48 <=? c) && (c <=? 57)) || (c =? 95) || (c =? 45).
  Definition ascii_ident (s : str) : bool := forallb ascii_ident_char s.
  Definition ascii_ok : Prop :=
    forall c, (97 <= c <= 122 -> is_letter U c = true) /\ (48 <= c <= 57 -> is_digit U c = true).

  Lemma ascii_ident_safe : forall s, ascii_ok -> ascii_ident s = true -> safe U s = true.
  Proof.
    intros s HA H. unfold ascii_ident in H. unfold safe. rewrite forallb_forall in *. intros c Hc.
    specialize (H c Hc). unfold ascii_ident_char in H. unfold ident_char.
    destruct (HA c) as [Hl Hd].
    apply orb_true_iff in H as [H|H]; [|rewrite H; apply orb_true_r].
    apply orb_true_iff in H as [H|H]; [|rewrite H; rewrite orb_true_r; reflexivity].
    apply orb_true_iff in H as [H|H]; apply andb_true_iff in H as [H1 H2];
      apply N.leb_le in H1; apply N.leb_le in H2.
    - rewrite Hl by lia. reflexivity.
    - rewrite Hd by lia. rewrite orb_true_r. reflexivity.
  Qed.

  Definition gen_ascii (G : gen) : bool :=
    forallb (fun rf => match rf with (_, n, t) => ascii_ident n && ascii_ident t end) (g_required G)
    && forallb ascii_ident (g_possible G).

  Lemma gen_ascii_safe : forall G, ascii_ok -> gen_ascii G = true -> SafeGen G.
  Proof.
    intros G HA H. unfold gen_ascii in H. apply andb_true_iff in H as [H1 H2]. split.
    - apply Forall_forall. intros [[gd n] t] Hin. rewrite forallb_forall in H1.
      specialize (H1 _ Hin). simpl in H1. apply andb_true_iff in H1 as [Hn Ht].
      split; apply ascii_ident_safe; assumption.
    - apply Forall_forall. intros s Hin. rewrite forallb_forall in H2.
      apply ascii_ident_safe; auto.
  Qed.
End Safe.
