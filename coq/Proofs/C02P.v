(* C02: rows and position commit atomically -- instantiation of the generic
   invariant proof (Proofs/TaskInvP.v) for arbitrary faults. *)
From Coq Require Import List NArith Bool Lia.
From Shovel Require Import Model.TaskTypes Model.TaskDb Model.Task Model.TaskNode Model.TaskSys
  Model.TaskSpec Proofs.TaskArithP Proofs.TaskDbP Proofs.TaskExecP Proofs.TaskLoadP Proofs.TaskInvP.
Import ListNotations.
Open Scope N_scope.

Definition Tr (_ : blk) : Prop := True.
Definition Tr2 (_ _ : N) : Prop := True.
Definition Tr1 (_ : N) : Prop := True.
Definition TrG (_ : list (list blk)) : Prop := True.

Lemma forall_true : forall {A} (l : list A), Forall (fun _ => True) l.
Proof. intros. apply Forall_forall. intros. exact I. Qed.

(* the unwound ghost is a prefix of the initial one *)
Lemma unw_prefix : forall RJ g0 p, unw RJ g0 p -> exists q, g0 = p ++ q.
Proof.
  intros RJ g0 p H. induction H as [|p b _ [q ->] _].
  - exists []. symmetry. apply app_nil_r.
  - exists (b :: q). rewrite <- app_assoc. reflexivity.
Qed.

Lemma cfg_self : forall c, cfg_ok c -> ~ In (t_ig c) (t_deps c).
Proof. intros c (_ & _ & _ & _ & _ & H). exact H. Qed.

Lemma W_true : forall c g, wf_ghost c g -> W c Tr g.
Proof. intros c g H. split; [exact H|apply forall_true]. Qed.

(* every committed state of a step -- under any fault plan, crash point and
   node answers that are numbered as requested -- satisfies TaskInv and leaves
   everything outside the pair untouched *)
Lemma converge_inv : forall c d s,
  cfg_ok c -> TaskInv c d -> trace_sat reply_ok (step c s d) ->
  Forall (fun e => TaskInv c (snd e) /\ outside c (snd e) = outside c d) (r_trace (step c s d))
  /\ TaskInv c (r_db (step c s d)) /\ outside c (r_db (step c s d)) = outside c d
  /\ (forall o, r_out (step c s d) = Fin o -> r_cs (step c s d) = None).
Proof.
  intros c d s Hc (g & Hpv & Hw) Ht.
  pose proof (S_converge c reply_ok (fun _ => True) True Tr Tr2 Tr1 TrG g (outside c d) d Hc
                (fun _ _ H => H)
                (fun _ _ _ => forall_true _)
                (fun _ _ _ => I) (fun _ _ _ _ => I) (cfg_self c Hc) (fun _ _ => I)
                (fun _ _ _ _ _ _ _ _ _ _ _ _ _ => I)
                eq_refl Hpv (W_true c g Hw)) as HS.
  destruct (HS s (forall_true s) Ht) as (A & B & C).
  split; [|split; [|split]].
  - eapply Forall_impl; [|exact A]. cbn. intros e He.
    split; [eapply Inv_TaskInv; exact He|apply He].
  - eapply Inv_TaskInv. exact B.
  - apply B.
  - intros o E. apply (C o E).
Qed.

(* reply assumption that also excludes the "commit went through but the
   connection died before the reply" fault *)
Definition reply_ok_nda (i : io) (r : reply) : Prop := reply_ok i r /\ r <> RFail KDropAfter.

(* a step that does not report success leaves the pair as it was or, after a
   committed unwind, at a strictly earlier position (a strict prefix of the
   batches) that again satisfies TaskInv *)
Lemma failed_state : forall c d s o,
  cfg_ok c -> TaskInv c d -> trace_sat reply_ok_nda (step c s d) ->
  r_out (step c s d) = Fin o -> o <> OConverged ->
  outside c (r_db (step c s d)) = outside c d
  /\ (pv c (r_db (step c s d)) = pv c d
      \/ exists p q, q <> [] /\ wf_ghost c (p ++ q) /\ pv c d = render c (p ++ q)
                     /\ pv c (r_db (step c s d)) = render c p).
Proof.
  intros c d s o Hc (g & Hpv & Hw) Ht Ho Hne.
  pose proof (S_converge c reply_ok_nda (fun _ => True) True Tr Tr2 Tr1 TrG g (outside c d) d Hc
                (fun _ _ H => proj1 H)
                (fun _ _ _ => forall_true _)
                (fun _ _ _ => I) (fun _ _ _ _ => I) (cfg_self c Hc) (fun _ _ => I)
                (fun _ _ _ _ _ _ _ _ _ _ _ _ _ => I)
                eq_refl Hpv (W_true c g Hw)) as HS.
  destruct (HS s (forall_true s) Ht) as (_ & B & C).
  destruct (C o Ho) as (_ & _ & Hidle & _).
  assert (Hnda : NDA reply_ok_nda) by (intros i r [_ H]; exact H).
  destruct (Hidle Hnda Hne) as (p & Hu & _ & Hp).
  split; [apply B|].
  destruct (unw_prefix _ _ _ Hu) as (q & ->).
  destruct q as [|b q].
  - left. etransitivity; [exact Hp|]. rewrite Hpv, app_nil_r. reflexivity.
  - right. exists p, (b :: q). split; [discriminate|]. split; [exact Hw|]. split; assumption.
Qed.

(* a step that reports success has committed exactly one new batch on top of
   a prefix of the old ones *)
Lemma converged_state : forall c d s,
  cfg_ok c -> TaskInv c d -> trace_sat reply_ok (step c s d) ->
  r_out (step c s d) = Fin OConverged ->
  exists p q bs, pv c d = render c (p ++ q) /\ wf_ghost c (p ++ [bs])
                 /\ pv c (r_db (step c s d)) = render c (p ++ [bs])
                 /\ bs <> [] /\ N.of_nat (length bs) <= t_batch c.
Proof.
  intros c d s Hc (g & Hpv & Hw) Ht Ho.
  pose proof (S_converge c reply_ok (fun _ => True) True Tr Tr2 Tr1 TrG g (outside c d) d Hc
                (fun _ _ H => H)
                (fun _ _ _ => forall_true _)
                (fun _ _ _ => I) (fun _ _ _ _ => I) (cfg_self c Hc) (fun _ _ => I)
                (fun _ _ _ _ _ _ _ _ _ _ _ _ _ => I)
                eq_refl Hpv (W_true c g Hw)) as HS.
  destruct (HS s (forall_true s) Ht) as (_ & _ & C).
  destruct (C _ Ho) as (_ & Hadv & _).
  destruct (Hadv eq_refl) as (p & bs & Hu & (Hne & Hlen & _ & _) & [Hwf _] & Hp).
  destruct (unw_prefix _ _ _ Hu) as (q & ->).
  exists p, q, bs. split; [exact Hpv|]. split; [exact Hwf|]. split; [exact Hp|]. split; assumption.
Qed.

(* process death = discard of the write set: the database after the crash is
   the last committed one, nothing of the open transaction survives *)
Lemma crash_rollback : forall u p s d cs,
  r_out (exec u p s d cs) = Crashed ->
  r_cs (exec u p s d cs) = None
  /\ r_db (exec u p s d cs) = last (map snd (r_trace (exec u p s d cs))) d.
Proof.
  intros u p s d cs H. split; [|apply exec_db_last].
  revert p d cs H. induction s as [|a s IH]; intros p d cs H.
  - destruct p; discriminate.
  - destruct p as [o|i k]; [discriminate|].
    destruct a; try reflexivity; rewrite exec_op in * by discriminate; cbn [r_cs r_out] in *;
      apply IH; exact H.
Qed.
