(* Lemmas about Model/Schema.v, part 2: the generated unique key.  For an
   integration in the "plain identity" domain the key cell of column k is the
   identity value k of the row; on well-formed chain data no two rows emitted
   at different positions conflict, and every emitted row conflicts with
   itself (no NULL part), i.e. a re-insert collides. *)
From Coq Require Import List NArith Bool String Ascii Lia FinFun.
From Shovel Require Import Base.Outcome Model.Config Model.Sql Model.Schema Proofs.ConfigP Proofs.SchemaP.
Import ListNotations.
Open Scope N_scope.

(* ---- generic list facts ---- *)
Lemma NoDup_app_disjoint : forall {A} (a b : list A),
  NoDup a -> NoDup b -> (forall x, In x a -> ~ In x b) -> NoDup (a ++ b).
Proof.
  induction a as [|x a IH]; simpl; intros b Ha Hb Hd; auto. inversion Ha; subst. constructor.
  - intro H. destruct (in_app_or _ _ _ H) as [H'|H']; [contradiction|]. exact (Hd x (or_introl eq_refl) H').
  - apply IH; [assumption|assumption|]. intros y Hy. apply Hd. right. exact Hy.
Qed.

Lemma NoDup_map_flat_map : forall {A B C K} (pr : B -> C) (kc : C -> K) (f : A -> list B) (ka : A -> K) l,
  NoDup (map ka l) -> (forall a, In a l -> NoDup (map pr (f a))) ->
  (forall a b, In a l -> In b (f a) -> kc (pr b) = ka a) -> NoDup (map pr (flat_map f l)).
Proof.
  intros A B C K pr kc f ka. induction l as [|a l IH]; simpl; intros Hk Hn Hkey; [constructor|].
  inversion Hk as [|? ? Hnot Hk']; subst. rewrite map_app. apply NoDup_app_disjoint.
  - apply Hn. left; reflexivity.
  - apply IH; auto.
  - intros x Hx Hx'. apply in_map_iff in Hx as [b [Hb Hin]]. apply in_map_iff in Hx' as [b' [Hb' Hin']].
    apply in_flat_map in Hin' as [a' [Ha' Hin']].
    assert (E1 : kc x = ka a) by (subst x; apply Hkey; auto).
    assert (E2 : kc x = ka a') by (rewrite <- Hb'; apply Hkey; auto).
    apply Hnot. rewrite <- E1, E2. apply in_map. exact Ha'.
Qed.

Lemma nodupN_NoDup : forall l, nodupN l = true -> NoDup l.
Proof.
  induction l as [|x l IH]; intros H; [constructor|]. unfold nodupN in H. simpl in H.
  apply andb_true_iff in H as [H1 H2]. constructor.
  - intro Hin. apply negb_true_iff in H1. assert (existsb (N.eqb x) l = true).
    { apply existsb_exists. exists x. split; auto. apply N.eqb_refl. } congruence.
  - apply IH. exact H2.
Qed.

Definition unwrap {A} (o : option (list A)) : list A := match o with Some y => y | None => [] end.

Lemma concat_opt_flat : forall {A} (l : list (option (list A))) cs,
  concat_opt l = Some cs -> cs = flat_map unwrap l.
Proof.
  induction l as [|o l IH]; simpl; intros cs H.
  - inversion H. reflexivity.
  - destruct o as [x|]; [|discriminate]. destruct (concat_opt l) as [y|]; [|discriminate].
    inversion H; subst. simpl. rewrite (IH y eq_refl). reflexivity.
Qed.
Lemma flat_map_unwrap_map : forall {A B} (F : A -> option (list B)) l,
  flat_map unwrap (map F l) = flat_map (fun x => unwrap (F x)) l.
Proof. induction l; simpl; auto. rewrite IHl. reflexivity. Qed.

(* ---- the emitted contexts as nested flat_maps ---- *)
Definition txl (g : integ) (bn : N) (t : atx) : list ctx := unwrap (tx_ctxs g bn t).

Lemma emit_flat : forall g bs cs, emit g bs = Some cs ->
  cs = flat_map (fun b => flat_map (txl g (b_num b)) (b_txs b)) bs.
Proof.
  intros g bs cs H. unfold emit in H. apply concat_opt_flat in H. subst cs.
  induction bs as [|b bs IH]; simpl; [reflexivity|].
  rewrite flat_map_app, flat_map_unwrap_map, IH. reflexivity.
Qed.

Definition logl (g : integ) (bn tn : N) (l : alog) : list ctx := unwrap (log_ctxs g bn tn l).

Lemma log_ctxs_fields : forall g bn tn l c, In c (logl g bn tn l) ->
  c_block c = bn /\ c_tx c = tn /\ c_log c = Some (l_idx l) /\ c_trace c = None /\
  (any_selected_not_indexed g = true -> c_abi c <> None).
Proof.
  intros g bn tn l c H. unfold logl, log_ctxs in H. destruct (negb (l_match l)); [contradiction|].
  destruct (l_rows l) as [|n].
  - destruct (any_selected_not_indexed g) eqn:E; [contradiction|]. simpl in H. destruct H as [H|[]]. subst c.
    simpl. repeat split; auto. discriminate.
  - cbn [unwrap] in H. apply in_map_iff in H as [i [Hc _]]. subst c. simpl. repeat split; auto. discriminate.
Qed.

Lemma tx_ctxs_fields : forall g bn t c, In c (txl g bn t) ->
  c_block c = bn /\ c_tx c = x_idx t /\
  match ig_shape g with
  | ShTx => c_log c = None /\ c_abi c = None /\ c_trace c = None
  | ShTrace => c_log c = None /\ c_abi c = None /\ c_trace c <> None
  | ShLog => c_log c <> None /\ c_trace c = None /\ (any_selected_not_indexed g = true -> c_abi c <> None)
  end.
Proof.
  intros g bn t c H. unfold txl, tx_ctxs in H. destruct (ig_shape g).
  - simpl in H. destruct (is_nil (ig_block g)); [contradiction|]. destruct H as [H|[]]. subst c. simpl. auto.
  - destruct (concat_opt (map (log_ctxs g bn (x_idx t)) (x_logs t))) as [cs|] eqn:E; [|contradiction].
    simpl in H. apply concat_opt_flat in E. rewrite flat_map_unwrap_map in E. subst cs.
    apply in_flat_map in H as [l [Hl Hc]].
    destruct (log_ctxs_fields g bn (x_idx t) l c Hc) as [H1 [H2 [H3 [H4 H5]]]].
    repeat split; auto. rewrite H3. discriminate.
  - simpl in H. destruct (negb (is_nil (selected (ig_inputs g)))); [contradiction|].
    apply in_map_iff in H as [a [Hc _]]. subst c. simpl. repeat split; auto. discriminate.
Qed.

(* ---- distinctness of the emitted contexts ---- *)
Section Distinct.
  Context {C : Type} (pr : ctx -> C) (kb kt : C -> N) (kl : C -> option N).
  Hypothesis Hkb : forall c, kb (pr c) = c_block c.
  Hypothesis Hkt : forall c, kt (pr c) = c_tx c.
  Hypothesis Hkl : forall c, kl (pr c) = c_log c.
  Variable g : integ.
  (* per log and per transaction of a trace integration the projection is injective *)
  Hypothesis Hlog : forall bn tn l, (any_selected_not_indexed g || Nat.leb (l_rows l) 1) = true ->
    NoDup (map pr (logl g bn tn l)).
  Hypothesis Htrace : forall bn tn (ts : list N), NoDup ts ->
    NoDup (map pr (map (fun a => {| c_block := bn; c_tx := tn; c_log := None; c_abi := None; c_trace := Some a |}) ts)).

  Lemma tx_distinct : forall bn t,
    (nodupN (map l_idx (x_logs t)) && nodupN (x_traces t)
     && forallb (fun l => any_selected_not_indexed g || Nat.leb (l_rows l) 1) (x_logs t)) = true ->
    NoDup (map pr (txl g bn t)).
  Proof.
    intros bn t H. apply andb_true_iff in H as [H H3]. apply andb_true_iff in H as [H1 H2].
    unfold txl, tx_ctxs. destruct (ig_shape g).
    - simpl. destruct (is_nil (ig_block g)); simpl; repeat constructor. intros [].
    - destruct (concat_opt (map (log_ctxs g bn (x_idx t)) (x_logs t))) as [cs|] eqn:E; [|constructor].
      simpl. apply concat_opt_flat in E. rewrite flat_map_unwrap_map in E. subst cs.
      apply (NoDup_map_flat_map pr kl (fun l => logl g bn (x_idx t) l) (fun l => Some (l_idx l))).
      + rewrite <- (map_map l_idx Some). apply FinFun.Injective_map_NoDup; [intros a b Hab; inversion Hab; auto|].
        apply nodupN_NoDup. exact H1.
      + intros l Hl. apply Hlog. rewrite forallb_forall in H3. apply H3. exact Hl.
      + intros l c Hl Hc. rewrite Hkl. apply (log_ctxs_fields g bn (x_idx t) l c Hc).
    - simpl. destruct (negb (is_nil (selected (ig_inputs g)))); [constructor|].
      apply Htrace. apply nodupN_NoDup. exact H2.
  Qed.

  Lemma emit_distinct : forall bs cs, wf_blocks g bs = true -> emit g bs = Some cs -> NoDup (map pr cs).
  Proof.
    intros bs cs Hwf He. apply emit_flat in He. subst cs. unfold wf_blocks in Hwf.
    apply andb_true_iff in Hwf as [Hb Hall]. rewrite forallb_forall in Hall.
    apply (NoDup_map_flat_map pr kb (fun b => flat_map (txl g (b_num b)) (b_txs b)) b_num).
    - apply nodupN_NoDup. exact Hb.
    - intros b Hin. specialize (Hall b Hin). apply andb_true_iff in Hall as [Ht Htx].
      rewrite forallb_forall in Htx.
      apply (NoDup_map_flat_map pr kt (txl g (b_num b)) x_idx).
      + apply nodupN_NoDup. exact Ht.
      + intros t Hti. apply tx_distinct. apply Htx. exact Hti.
      + intros t c Hti Hc. rewrite Hkt. apply (tx_ctxs_fields g (b_num b) t c Hc).
    - intros b c Hin Hc. apply in_flat_map in Hc as [t [Hti Hc]]. rewrite Hkb.
      apply (tx_ctxs_fields g (b_num b) t c Hc).
  Qed.
End Distinct.

Definition pr_noabi (c : ctx) := (c_block c, c_tx c, c_log c, c_trace c).

Lemma ctx_eq : forall a b, c_block a = c_block b -> c_tx a = c_tx b -> c_log a = c_log b ->
  c_abi a = c_abi b -> c_trace a = c_trace b -> a = b.
Proof. intros [] []; simpl; intros; subst; reflexivity. Qed.

Lemma emit_distinct_full : forall g bs cs, wf_blocks g bs = true -> emit g bs = Some cs -> NoDup cs.
Proof.
  intros g bs cs Hwf He. rewrite <- (map_id cs).
  apply (emit_distinct (fun c => c) c_block c_tx c_log) with (g := g) (bs := bs); auto.
  - intros bn tn l _. rewrite map_id. unfold logl, log_ctxs. destruct (negb (l_match l)); [constructor|].
    destruct (l_rows l) as [|n].
    + destruct (any_selected_not_indexed g); simpl; repeat constructor. intros [].
    + cbn [unwrap]. apply FinFun.Injective_map_NoDup; [|apply seq_NoDup].
      intros a b Hab. inversion Hab as [Hn]. apply Nnat.Nat2N.inj. exact Hn.
  - intros bn tn ts Hts. rewrite map_id. apply FinFun.Injective_map_NoDup; [|exact Hts].
    intros a b Hab. inversion Hab. reflexivity.
Qed.

Lemma emit_distinct_noabi : forall g bs cs, any_selected_not_indexed g = false ->
  wf_blocks g bs = true -> emit g bs = Some cs -> NoDup (map pr_noabi cs).
Proof.
  intros g bs cs Hn Hwf He.
  apply (emit_distinct pr_noabi (fun x => fst (fst (fst x))) (fun x => snd (fst (fst x))) (fun x => snd (fst x)))
    with (g := g) (bs := bs); auto.
  - intros bn tn l H. rewrite Hn in H. simpl in H. unfold logl, log_ctxs.
    destruct (negb (l_match l)); [constructor|]. destruct (l_rows l) as [|[|n]]; try discriminate.
    + rewrite Hn. simpl. repeat constructor. intros [].
    + simpl. repeat constructor. intros [].
  - intros bn tn ts Hts. rewrite map_map. apply FinFun.Injective_map_NoDup; [|exact Hts].
    intros a b Hab. inversion Hab. reflexivity.
Qed.

(* ---- the key cell of an identity column ---- *)
Lemma lookup_app_none : forall k (a b : row),
  (forall p, In p a -> str_eqb (fst p) k = false) -> lookup k (a ++ b) = lookup k b.
Proof.
  induction a as [|[n v] a IH]; simpl; intros b H; [reflexivity|].
  pose proof (H (n, v) (or_introl eq_refl)) as E. simpl in E. rewrite E. apply IH. intros p Hp. apply H. right. exact Hp.
Qed.

Lemma mem_false_neq : forall a k l, mem a l = false -> In k l -> str_eqb a k = false.
Proof.
  intros a k l Hm Hk. destruct (str_eqb a k) eqn:E; [|reflexivity].
  apply str_eqb_eq in E. subst. rewrite (In_mem _ _ Hk) in Hm. discriminate.
Qed.

Lemma cell_eqb_refl : forall c, cell_eqb c c = true.
Proof. destruct c; simpl; auto using str_eqb_refl, N.eqb_refl. Qed.
Lemma list_eqb_cell_refl : forall l, list_eqb cell_eqb l l = true.
Proof. induction l; simpl; auto. rewrite cell_eqb_refl, IHl. reflexivity. Qed.

Section KeyCell.
  Variables (possible u : list str) (g : integ) (src : str).
  Hypothesis Hplain : identity_plain possible u g = true.

  Lemma plain_parts :
    forallb (fun k => has_bd k g) u = true /\
    forallb (fun i => negb (mem (get_col (ig_table g) (i_col i)) possible)) (selected (ig_inputs g)) = true /\
    forallb (fun b => if mem (bd_name b) possible
                      then str_eqb (get_col (ig_table g) (bd_col b)) (bd_name b)
                      else negb (mem (get_col (ig_table g) (bd_col b)) possible)) (ig_block g) = true /\
    (mem n_log_idx u = true -> ig_shape g = ShLog) /\
    (mem n_abi_idx u = true -> ig_shape g = ShLog /\ any_selected_not_indexed g = true) /\
    (mem n_trace_idx u = true -> ig_shape g = ShTrace) /\
    (ig_shape g = ShTrace -> mem n_trace_idx u = true) /\
    (ig_shape g = ShLog -> mem n_log_idx u = true) /\
    (any_selected_not_indexed g = true -> mem n_abi_idx u = true) /\
    mem n_block_num u = true /\ mem n_tx_idx u = true /\
    forallb (fun k => mem k [n_ig_name; n_src_name; n_block_num; n_tx_idx; n_log_idx; n_abi_idx; n_trace_idx]) u = true /\
    forallb (fun k => mem k possible) u = true.
  Proof.
    unfold identity_plain in Hplain.
    apply andb_true_iff in Hplain as [Hplain P13]. apply andb_true_iff in Hplain as [Hplain P12].
    apply andb_true_iff in Hplain as [Hplain P11]. apply andb_true_iff in Hplain as [Hplain P10].
    apply andb_true_iff in Hplain as [Hplain P9]. apply andb_true_iff in Hplain as [Hplain P8].
    apply andb_true_iff in Hplain as [Hplain P7]. apply andb_true_iff in Hplain as [Hplain P6].
    apply andb_true_iff in Hplain as [Hplain P5]. apply andb_true_iff in Hplain as [Hplain P4].
    apply andb_true_iff in Hplain as [Hplain P3]. apply andb_true_iff in Hplain as [P1 P2].
    split; [exact P1|]. split; [exact P2|]. split; [exact P3|].
    split. { intros Hm. rewrite Hm in P4. simpl in P4. destruct (ig_shape g); auto; discriminate. }
    split. { intros Hm. rewrite Hm in P5. simpl in P5. apply andb_true_iff in P5 as [Q1 Q2].
             split; [destruct (ig_shape g); auto; discriminate|exact Q2]. }
    split. { intros Hm. rewrite Hm in P6. simpl in P6. destruct (ig_shape g); auto; discriminate. }
    split. { intros Hs. rewrite Hs in P7. exact P7. }
    split. { intros Hs. rewrite Hs in P8. exact P8. }
    split. { intros Hs. rewrite Hs in P9. simpl in P9. exact P9. }
    split; [exact P10|]. split; [exact P11|]. split; [exact P12|exact P13].
  Qed.

  Lemma lookup_block : forall c bl k, In k possible ->
    forallb (fun b => if mem (bd_name b) possible
                      then str_eqb (get_col (ig_table g) (bd_col b)) (bd_name b)
                      else negb (mem (get_col (ig_table g) (bd_col b)) possible)) bl = true ->
    existsb (fun b => str_eqb (bd_name b) k) bl = true ->
    lookup k (map (fun b => (get_col (ig_table g) (bd_col b), field_cell (ig_name g) src (bd_name b) c)) bl)
    = field_cell (ig_name g) src k c.
  Proof.
    intros c. induction bl as [|b bl IH]; intros k Hk Hall Hex; simpl in *; [discriminate|].
    apply andb_true_iff in Hall as [Hb Hall].
    destruct (mem (bd_name b) possible) eqn:Em.
    - apply str_eqb_eq in Hb. rewrite Hb. destruct (str_eqb (bd_name b) k) eqn:E.
      + apply str_eqb_eq in E. rewrite E. reflexivity.
      + simpl in Hex. apply IH; assumption.
    - apply negb_true_iff in Hb. rewrite (mem_false_neq _ k _ Hb Hk).
      rewrite (mem_false_neq _ k _ Em Hk) in Hex. simpl in Hex. apply IH; assumption.
  Qed.

  Lemma key_cell : forall c k, In k u ->
    lookup k (row_of g src c) = field_cell (ig_name g) src k c.
  Proof.
    intros c k Hk. destruct plain_parts as [Hbd [Hin [Hbl [_ [_ [_ [_ [_ [_ [_ [_ [_ Hpos]]]]]]]]]]]].
    assert (Hkp : In k possible).
    { rewrite forallb_forall in Hpos. apply mem_In. apply Hpos. exact Hk. }
    unfold row_of. rewrite lookup_app_none.
    - apply lookup_block; auto. rewrite forallb_forall in Hbd. apply (Hbd k Hk).
    - intros p Hp. apply in_map_iff in Hp as [i [Hp Hi]]. subst p. simpl.
      rewrite forallb_forall in Hin. specialize (Hin i Hi). apply negb_true_iff in Hin.
      apply (mem_false_neq _ k _ Hin Hkp).
  Qed.

  Lemma key_cells : forall c, key u (row_of g src c) = map (fun k => field_cell (ig_name g) src k c) u.
  Proof. intros c. unfold key. apply map_ext_in. intros k Hk. apply key_cell. exact Hk. Qed.

  (* field_cell on the seven names *)
  Lemma fc_block : forall c, field_cell (ig_name g) src n_block_num c = CNum (c_block c). Proof. reflexivity. Qed.
  Lemma fc_tx : forall c, field_cell (ig_name g) src n_tx_idx c = CNum (c_tx c). Proof. reflexivity. Qed.
  Lemma fc_log : forall c, field_cell (ig_name g) src n_log_idx c = opt_num (c_log c). Proof. reflexivity. Qed.
  Lemma fc_abi : forall c, field_cell (ig_name g) src n_abi_idx c = opt_num (c_abi c). Proof. reflexivity. Qed.
  Lemma fc_trace : forall c, field_cell (ig_name g) src n_trace_idx c = opt_num (c_trace c). Proof. reflexivity. Qed.

  Lemma list_eqb_map : forall (f h : str -> cell) l, list_eqb cell_eqb (map f l) (map h l) = true ->
    forall k, In k l -> cell_eqb (f k) (h k) = true.
  Proof.
    induction l as [|x l IH]; simpl; intros H k Hk; [contradiction|].
    apply andb_true_iff in H as [H1 H2]. destruct Hk as [Hk|Hk]; [subst; exact H1|auto].
  Qed.

  Lemma opt_num_eq : forall a b, cell_eqb (opt_num a) (opt_num b) = true -> is_null (opt_num a) = false -> a = b.
  Proof.
    intros [a|] [b|]; simpl; intros H Hn; try discriminate. apply N.eqb_eq in H. subst. reflexivity.
  Qed.

  (* a conflict between the keys of two emitted rows forces equal contexts
     (up to abi when the key has no abi column) *)
  Lemma conflict_fields : forall bs cs c1 c2,
    emit g bs = Some cs -> In c1 cs -> In c2 cs ->
    conflict (key u (row_of g src c1)) (key u (row_of g src c2)) = true ->
    c_block c1 = c_block c2 /\ c_tx c1 = c_tx c2 /\ c_log c1 = c_log c2 /\ c_trace c1 = c_trace c2 /\
    (mem n_abi_idx u = true -> c_abi c1 = c_abi c2).
  Proof.
    intros bs cs c1 c2 He H1 H2 Hc.
    destruct plain_parts as [_ [_ [_ [Plog [Pabi [Ptr [Ptr' [Plog' [_ [Pb [Pt _]]]]]]]]]]].
    unfold conflict in Hc. rewrite !key_cells in Hc. apply andb_true_iff in Hc as [Hnn Heq].
    pose proof (list_eqb_map _ _ _ Heq) as E0.
    assert (E : forall k, In k u -> cell_eqb (field_cell (ig_name g) src k c1) (field_cell (ig_name g) src k c2) = true)
      by (intros k Hk; exact (E0 k Hk)).
    assert (NN : forall k, In k u -> is_null (field_cell (ig_name g) src k c1) = false).
    { intros k Hk. rewrite forallb_forall in Hnn. apply negb_true_iff. apply Hnn. apply in_map_iff.
      exists k. split; auto. }
    assert (Fields : forall c, In c cs ->
              match ig_shape g with
              | ShTx => c_log c = None /\ c_abi c = None /\ c_trace c = None
              | ShTrace => c_log c = None /\ c_abi c = None /\ c_trace c <> None
              | ShLog => c_log c <> None /\ c_trace c = None /\ (any_selected_not_indexed g = true -> c_abi c <> None)
              end).
    { intros c Hc. rewrite (emit_flat _ _ _ He) in Hc. apply in_flat_map in Hc as [b [_ Hc]].
      apply in_flat_map in Hc as [t [_ Hc]]. apply (tx_ctxs_fields g (b_num b) t c Hc). }
    pose proof (Fields c1 H1) as F1. pose proof (Fields c2 H2) as F2.
    pose proof (E n_block_num (mem_In _ _ Pb)) as Eb. rewrite !fc_block in Eb. simpl in Eb. apply N.eqb_eq in Eb.
    pose proof (E n_tx_idx (mem_In _ _ Pt)) as Et. rewrite !fc_tx in Et. simpl in Et. apply N.eqb_eq in Et.
    split; [exact Eb|]. split; [exact Et|].
    assert (Elog : c_log c1 = c_log c2).
    { destruct (mem n_log_idx u) eqn:Em.
      - pose proof (E n_log_idx (mem_In _ _ Em)) as El. rewrite !fc_log in El.
        apply opt_num_eq; [exact El|]. rewrite <- fc_log. apply NN. apply mem_In. exact Em.
      - destruct (ig_shape g) eqn:Es.
        + destruct F1 as [F1 _]. destruct F2 as [F2 _]. congruence.
        + pose proof (Plog' eq_refl) as X. congruence.
        + destruct F1 as [F1 _]. destruct F2 as [F2 _]. congruence. }
    assert (Etr : c_trace c1 = c_trace c2).
    { destruct (mem n_trace_idx u) eqn:Em.
      - pose proof (E n_trace_idx (mem_In _ _ Em)) as El. rewrite !fc_trace in El.
        apply opt_num_eq; [exact El|]. rewrite <- fc_trace. apply NN. apply mem_In. exact Em.
      - destruct (ig_shape g) eqn:Es.
        + destruct F1 as [_ [_ F1]]. destruct F2 as [_ [_ F2]]. congruence.
        + destruct F1 as [_ [F1 _]]. destruct F2 as [_ [F2 _]]. congruence.
        + pose proof (Ptr' eq_refl) as X. congruence. }
    split; [exact Elog|]. split; [exact Etr|].
    intros Em. pose proof (E n_abi_idx (mem_In _ _ Em)) as El. rewrite !fc_abi in El.
    apply opt_num_eq; [exact El|]. rewrite <- fc_abi. apply NN. apply mem_In. exact Em.
  Qed.

  Lemma NoDup_nth_eq : forall {A} (l : list A) (d : A) i j, NoDup l ->
    (i < List.length l)%nat -> (j < List.length l)%nat -> nth i l d = nth j l d -> i = j.
  Proof. intros A l d i j H Hi Hj E. apply (proj1 (NoDup_nth l d) H i j Hi Hj E). Qed.

  Theorem key_separates_lemma : forall bs cs d i j,
    wf_blocks g bs = true -> emit g bs = Some cs ->
    (i < List.length cs)%nat -> (j < List.length cs)%nat -> i <> j ->
    conflict (key u (row_of g src (nth i cs d))) (key u (row_of g src (nth j cs d))) = false.
  Proof.
    intros bs cs d i j Hwf He Hi Hj Hne.
    destruct (conflict _ _) eqn:Hc; [|reflexivity]. exfalso. apply Hne.
    pose proof (conflict_fields bs cs _ _ He (nth_In cs d Hi) (nth_In cs d Hj) Hc) as [Eb [Et [El [Etr Ea]]]].
    destruct plain_parts as [_ [_ [_ [_ [_ [_ [_ [_ [Pabi' _]]]]]]]]].
    destruct (mem n_abi_idx u) eqn:Em.
    - apply (NoDup_nth_eq cs d i j (emit_distinct_full g bs cs Hwf He) Hi Hj).
      apply ctx_eq; auto.
    - assert (Hn : any_selected_not_indexed g = false).
      { destruct (any_selected_not_indexed g); [|reflexivity]. pose proof (Pabi' eq_refl) as X. congruence. }
      pose proof (emit_distinct_noabi g bs cs Hn Hwf He) as Hnd.
      assert (Hl : List.length (map pr_noabi cs) = List.length cs) by apply map_length.
      apply (NoDup_nth_eq (map pr_noabi cs) (pr_noabi d) i j Hnd); try (rewrite Hl; assumption).
      rewrite !map_nth. unfold pr_noabi. congruence.
  Qed.

  (* every emitted row has a key without NULL: inserting it again conflicts *)
  Theorem reinsert_collides_lemma : forall bs cs c, emit g bs = Some cs -> In c cs ->
    conflict (key u (row_of g src c)) (key u (row_of g src c)) = true.
  Proof.
    intros bs cs c He Hc.
    destruct plain_parts as [_ [_ [_ [Plog [Pabi [Ptr [_ [_ [_ [_ [_ [Pnames _]]]]]]]]]]]].
    assert (Fields : match ig_shape g with
              | ShTx => c_log c = None /\ c_abi c = None /\ c_trace c = None
              | ShTrace => c_log c = None /\ c_abi c = None /\ c_trace c <> None
              | ShLog => c_log c <> None /\ c_trace c = None /\ (any_selected_not_indexed g = true -> c_abi c <> None)
              end).
    { rewrite (emit_flat _ _ _ He) in Hc. apply in_flat_map in Hc as [b [_ Hc]].
      apply in_flat_map in Hc as [t [_ Hc]]. apply (tx_ctxs_fields g (b_num b) t c Hc). }
    unfold conflict. rewrite key_cells. apply andb_true_iff. split.
    - apply forallb_forall. intros x Hx. apply in_map_iff in Hx as [k [Hx Hk]]. subst x.
      rewrite forallb_forall in Pnames. pose proof (Pnames k Hk) as Hm. apply mem_In in Hm. simpl in Hm.
      destruct Hm as [Hm|[Hm|[Hm|[Hm|[Hm|[Hm|[Hm|[]]]]]]]]; subst k; try reflexivity.
      + rewrite fc_log. pose proof (Plog (In_mem _ _ Hk)) as Hs. rewrite Hs in Fields.
        destruct Fields as [F _]. destruct (c_log c); [reflexivity|contradiction].
      + rewrite fc_abi. destruct (Pabi (In_mem _ _ Hk)) as [Hs Hn]. rewrite Hs in Fields.
        destruct Fields as [_ [_ F]]. specialize (F Hn). destruct (c_abi c); [reflexivity|contradiction].
      + rewrite fc_trace. pose proof (Ptr (In_mem _ _ Hk)) as Hs. rewrite Hs in Fields.
        destruct Fields as [_ [_ F]]. destruct (c_trace c); [reflexivity|contradiction].
    - apply list_eqb_cell_refl.
  Qed.
End KeyCell.
