(* Proofs about Model/Bint.v (C17, and used by the ABI proofs). *)
From Coq Require Import List NArith ZArith Bool Lia ZifyN ZifyNat ZifyBool.
From Shovel Require Import Base.Outcome Model.Hex Model.Bint.
Import ListNotations.
Open Scope N_scope.
Ltac Zify.zify_post_hook ::= Z.div_mod_to_equations.

Definition dec_from (acc : N) (b : bytes) : N :=
  fold_left (fun acc x => (acc * 256 + x) mod two64) b acc.

Lemma decode64_dec_from b : decode64 b = dec_from 0 b.
Proof. reflexivity. Qed.

Lemma dec_from_app acc a b : dec_from acc (a ++ b) = dec_from (dec_from acc a) b.
Proof. unfold dec_from. apply fold_left_app. Qed.

Lemma dec_from_zeros m : dec_from 0 (repeat 0 m) = 0.
Proof.
  induction m as [|m IH]; [reflexivity|].
  cbn [repeat]. unfold dec_from in *. cbn [fold_left]. exact IH.
Qed.

Lemma be_length k n : length (be k n) = k.
Proof.
  revert n. induction k as [|k IH]; intros n; [reflexivity|].
  cbn [be]. rewrite app_length, IH. cbn. lia.
Qed.

Lemma be_wf k n : wf_bytes (be k n).
Proof.
  revert n. induction k as [|k IH]; intros n; [constructor|].
  cbn [be]. apply Forall_app. split; [apply IH|]. constructor; [lia|constructor].
Qed.

Lemma dec_from_be k : forall n acc,
  n < 256 ^ N.of_nat k -> acc * 256 ^ N.of_nat k + n < two64 ->
  dec_from acc (be k n) = acc * 256 ^ N.of_nat k + n.
Proof.
  induction k as [|k IH]; intros n acc Hn Hb.
  - cbn [be dec_from fold_left]. change (256 ^ N.of_nat 0) with 1 in *. lia.
  - cbn [be]. rewrite dec_from_app.
    rewrite Nat2N.inj_succ, N.pow_succ_r' in Hn, Hb |- *.
    set (P := 256 ^ N.of_nat k) in *.
    assert (HP : P <> 0) by (apply N.pow_nonzero; lia).
    rewrite IH; fold P.
    + unfold dec_from. cbn [fold_left]. unfold two64 in *.
      assert (E : (acc * P + n / 256) * 256 + n mod 256 = acc * (256 * P) + n) by lia.
      rewrite E. apply N.mod_small. exact Hb.
    + lia.
    + unfold two64 in *. nia.
Qed.

Lemma nbytes_fuel_bound f : forall n, n < 256 ^ N.of_nat f -> n < 256 ^ N.of_nat (nbytes_fuel f n).
Proof.
  induction f as [|f IH]; intros n Hn; [exact Hn|].
  cbn [nbytes_fuel]. destruct (n =? 0) eqn:E.
  - change (256 ^ N.of_nat 0) with 1. lia.
  - rewrite Nat2N.inj_succ, N.pow_succ_r' in Hn |- *.
    specialize (IH (n / 256)).
    assert (H : n / 256 < 256 ^ N.of_nat f) by lia.
    specialize (IH H). lia.
Qed.

Lemma nbytes_fuel_le f n : (nbytes_fuel f n <= f)%nat.
Proof.
  revert n. induction f as [|f IH]; intros n; [apply Nat.le_refl|].
  cbn [nbytes_fuel]. destruct (n =? 0); [lia|]. specialize (IH (n / 256)). lia.
Qed.

Lemma nbytes_bound n : n < two64 -> n < 256 ^ N.of_nat (nbytes n).
Proof. intros H. apply nbytes_fuel_bound. exact H. Qed.

Lemma nbytes_le_size n : (nbytes n <= size n)%nat.
Proof.
  unfold size. destruct (n =? 0) eqn:E; [|apply Nat.le_refl].
  assert (n = 0) by lia. subst. cbn. lia.
Qed.

Lemma pow256_le8 k : (k <= 8)%nat -> 256 ^ N.of_nat k <= two64.
Proof.
  intros H. change two64 with (256 ^ 8).
  apply N.pow_le_mono_r; lia.
Qed.

Lemma firstn_repeat_le {A} (x : A) k w : (k <= w)%nat -> firstn k (repeat x w) = repeat x k.
Proof.
  revert w. induction k as [|k IH]; intros w H; [reflexivity|].
  destruct w as [|w]; [lia|]. cbn [repeat firstn]. f_equal. apply IH. lia.
Qed.

(* Encode into a zeroed buffer of any width that is large enough, then Decode *)
Lemma encode_padded_roundtrip n w :
  n < two64 -> (size n <= w)%nat ->
  exists b, encode (Some (repeat 0 w)) n = Ok b /\ length b = w /\ wf_bytes b /\ decode64 b = n
            /\ b = repeat 0 (w - nbytes n) ++ be (nbytes n) n.
Proof.
  intros Hn Hw. unfold encode. rewrite repeat_length.
  replace (Nat.ltb w (size n)) with false by lia.
  pose proof (nbytes_le_size n) as Hle.
  rewrite firstn_repeat_le by lia.
  eexists. split; [reflexivity|]. split; [|split; [|split; [|reflexivity]]].
  - rewrite app_length, repeat_length, be_length. lia.
  - apply Forall_app. split; [|apply be_wf]. apply Forall_forall. intros x Hx.
    apply repeat_spec in Hx. subst. lia.
  - rewrite decode64_dec_from, dec_from_app, dec_from_zeros.
    rewrite dec_from_be; [lia | apply nbytes_bound; exact Hn | lia].
Qed.

Lemma encode_nil_roundtrip n :
  n < two64 -> exists b, encode None n = Ok b /\ length b = size n /\ decode64 b = n.
Proof.
  intros Hn. destruct (encode_padded_roundtrip n (size n) Hn (Nat.le_refl _)) as (b & He & Hl & _ & Hd & _).
  exists b. split; [|split; assumption]. exact He.
Qed.

Lemma encode_too_small n w : (w < size n)%nat -> encode (Some (repeat 0 w)) n = Panic.
Proof.
  intros H. unfold encode. rewrite repeat_length. replace (Nat.ltb w (size n)) with true by lia. reflexivity.
Qed.

(* a 32-byte word that holds a value below 2^64: 24 zero bytes then 8 bytes *)
Definition word_of (n : N) : bytes := repeat 0 24%nat ++ be 8 n.
Lemma word_of_length n : length (word_of n) = 32%nat.
Proof. unfold word_of. rewrite app_length, repeat_length, be_length. reflexivity. Qed.
Lemma decode64_word_of n : n < two64 -> decode64 (word_of n) = n.
Proof.
  intros H. unfold word_of. rewrite decode64_dec_from, dec_from_app, dec_from_zeros.
  rewrite dec_from_be; [lia | exact H | lia].
Qed.
