(* Bridge cached client -> row builder (Model/BridgeCacheRows.v for the
   vocabulary): the two premises the cache->task bridge left open --
   [op_keeps J] and [rows_canon] -- from assumptions on the NODE only. *)
From Coq Require Import List NArith Bool Arith Lia ZifyBool ZifyN ZifyNat Permutation.
From Shovel Require Import Base.Outcome.
From Shovel Require Model.Cache Model.Client Model.ClientSpec Model.CacheClient
  Proofs.ClientP Proofs.CacheClientP Proofs.BridgeClientTaskP Proofs.BridgeCacheTaskP.
From Shovel Require Import Model.BridgeCacheTask Model.BridgeCacheRows.
Import ListNotations.
Open Scope N_scope.
Arguments N.add : simpl never.
Arguments N.sub : simpl never.

Module B.
Import Client ClientSpec CacheClient ClientP CacheClientP BridgeCacheTask CR.

(* ---------- lists ---------- *)
Lemma nodup_key_inj {A} (f : A -> N) l a b :
  NoDup (map f l) -> In a l -> In b l -> f a = f b -> a = b.
Proof.
  induction l as [|x r IH]; intros Hnd Ha Hb E; [contradiction|].
  simpl in Hnd. inversion Hnd as [|? ? Hx Hr]; subst.
  destruct Ha as [<-|Ha]; destruct Hb as [<-|Hb]; auto.
  - exfalso. apply Hx. rewrite E. apply in_map. exact Hb.
  - exfalso. apply Hx. rewrite <- E. apply in_map. exact Ha.
Qed.

Lemma in_firstn {A} n : forall (l : list A) x, In x (firstn n l) -> In x l.
Proof.
  induction n as [|n IH]; intros [|y r] x H; simpl in H; try contradiction.
  destruct H as [H|H]; [left; exact H|right; apply IH; exact H].
Qed.

Lemma nodup_snoc {A} (l : list A) x : NoDup l -> ~ In x l -> NoDup (l ++ [x]).
Proof.
  intros Hn Hx. apply (Permutation_NoDup (Permutation_cons_append l x)). constructor; assumption.
Qed.

(* ---------- one transaction update ---------- *)
Lemma tx_part_new ct i : tx_part ct (new_tx i).
Proof.
  unfold tx_part, new_tx; simpl.
  split; [left; reflexivity|]. split; [left; reflexivity|]. split; [left; reflexivity|].
  split; [constructor|]. split; [intros x []|left; reflexivity].
Qed.

Lemma upd_txs_sub ctxs ct idx f :
  NoDup (map t_idx ctxs) -> In ct ctxs -> t_idx ct = idx ->
  (forall t, t_idx t = idx -> tx_part ct t -> tx_sub ct (f t)) ->
  forall txs, txs_sub ctxs txs ->
    txs_sub ctxs (upd_txs txs idx f)
    /\ forall i, In i (map t_idx (upd_txs txs idx f)) -> In i (map t_idx txs) \/ i = idx.
Proof.
  intros Hnd Hct Hidx Hf. induction txs as [|t r IH]; intros [Hn Hall].
  - simpl. assert (S : tx_sub ct (f (new_tx idx))) by (apply Hf; [reflexivity|apply tx_part_new]).
    split.
    + split; [constructor; [intros []|constructor]|]. intros t [<-|[]]. exists ct. auto.
    + intros i [<-|[]]. right. destruct S as [S _]. congruence.
  - simpl. destruct (t_idx t =? idx) eqn:E.
    + apply N.eqb_eq in E. destruct (Hall t (or_introl eq_refl)) as (ct' & Hct' & Hs).
      assert (Ec : ct' = ct).
      { apply (nodup_key_inj t_idx ctxs); auto. destruct Hs as [Hs _]. congruence. }
      subst ct'. destruct Hs as (_ & _ & Hp).
      assert (S : tx_sub ct (f t)) by (apply Hf; [exact E|exact Hp]).
      assert (Ei : t_idx (f t) = t_idx t) by (destruct S as [S _]; congruence).
      split.
      * split; [simpl; rewrite Ei; exact Hn|].
        intros x [<-|Hx]; [exists ct; auto|apply Hall; right; exact Hx].
      * intros i Hi. simpl in Hi. rewrite Ei in Hi. left. exact Hi.
    + apply N.eqb_neq in E. simpl in Hn. inversion Hn as [|? ? Hx Hr]; subst.
      destruct (IH (conj Hr (fun x Hx0 => Hall x (or_intror Hx0)))) as [[Hn' Hall'] Hidxs].
      split.
      * split.
        { simpl. constructor; [|exact Hn']. intros Hin. destruct (Hidxs _ Hin) as [H|H]; [contradiction|congruence]. }
        intros x [<-|Hx']; [apply Hall; left; reflexivity|apply Hall'; exact Hx'].
      * intros i [<-|Hi]; [left; left; reflexivity|].
        destruct (Hidxs _ Hi) as [H|H]; [left; right; exact H|right; exact H].
Qed.

Lemma fold_upd_sub {X} ctxs (idx : X -> N) (F : X -> tx -> tx) :
  NoDup (map t_idx ctxs) ->
  forall xs,
  (forall x, In x xs -> exists ct, In ct ctxs /\ t_idx ct = idx x
                         /\ forall t, t_idx t = idx x -> tx_part ct t -> tx_sub ct (F x t)) ->
  forall txs, txs_sub ctxs txs ->
    txs_sub ctxs (fold_left (fun txs x => upd_txs txs (idx x) (F x)) xs txs).
Proof.
  intros Hnd. induction xs as [|x r IH]; intros Hx txs Hs; simpl; [exact Hs|].
  apply IH; [intros y Hy; apply Hx; right; exact Hy|].
  destruct (Hx x (or_introl eq_refl)) as (ct & Hc & Hi & Hf).
  apply (upd_txs_sub ctxs ct (idx x) (F x) Hnd Hc Hi Hf txs Hs).
Qed.

(* ---------- Logs.Add ---------- *)
Lemma logs_add_nodup ls l : NoDup (map l_idx ls) -> NoDup (map l_idx (logs_add ls l)).
Proof.
  unfold logs_add. intros H. destruct (existsb (fun x => l_idx x =? l_idx l) ls) eqn:E; [exact H|].
  rewrite map_app. simpl. apply nodup_snoc; [exact H|]. intros Hin.
  apply in_map_iff in Hin. destruct Hin as (y & Hy & Hin).
  pose proof (existsb_false _ _ E y Hin) as Hf. simpl in Hf. rewrite Hy, N.eqb_refl in Hf. discriminate.
Qed.
Lemma logs_fold_nodup ls : forall base, NoDup (map l_idx base) -> NoDup (map l_idx (fold_left logs_add ls base)).
Proof. induction ls as [|l r IH]; intros base H; simpl; [exact H|]. apply IH. apply logs_add_nodup. exact H. Qed.

(* ---------- one block ---------- *)
Lemma blk_sub_upd cch b b' :
  blk_sub cch b -> b_num b' = b_num b -> b_hpl b' = b_hpl b ->
  (forall cb, nth_error cch (N.to_nat (b_num b)) = Some cb ->
              txs_sub (b_txs cb) (b_txs b) -> txs_sub (b_txs cb) (b_txs b')) ->
  blk_sub cch b'.
Proof.
  intros (cb & Hc & Hh & Ht) En Eh Hf. exists cb. rewrite En, Eh. split; [exact Hc|]. split; [exact Hh|].
  apply Hf; assumption.
Qed.

Lemma rcpt_block_sub cch rs b b' :
  citems_wf cch -> blk_sub cch b -> (forall r, In r rs -> rcpt_on cch r /\ r_bnum r = b_num b) ->
  rcpt_block repaired rs b = Ok b' -> blk_sub cch b'.
Proof.
  intros Hwf Hb Hrs H. unfold rcpt_block in H. apply bind_ok in H. destruct H as [b1 [Hh Hb1]].
  inversion Hb1; subst b'. clear Hb1. apply set_hashes_spec in Hh. destruct Hh as [h [-> _]].
  rewrite attach_rcpts_eq. apply (blk_sub_upd cch b); [exact Hb|reflexivity|reflexivity|].
  intros cb Hc Ht. simpl. destruct (Hwf cb (nth_error_In _ _ Hc)) as [Hnd Hit].
  apply (fold_upd_sub (b_txs cb) r_txidx apply_rcpt Hnd); [|exact Ht].
  intros r Hr. destruct (Hrs r Hr) as [(cb' & ct & Hc' & Hct & E1 & E2 & E3 & E4 & E5) En].
  rewrite En, Hc in Hc'. inversion Hc'; subst cb'. exists ct. split; [exact Hct|]. split; [auto|].
  intros t Hi (P1 & P2 & P3 & P4 & P5 & P6). destruct (Hit ct Hct) as [Hnl _].
  unfold tx_sub, tx_part, apply_rcpt; simpl. rewrite E2, E3, E4, E5.
  split; [congruence|]. split; [reflexivity|]. split; [right; reflexivity|]. split; [exact P2|].
  split; [right; reflexivity|]. split; [exact Hnl|]. split; [apply incl_refl|exact P6].
Qed.

Lemma log_group_sub cch ti g b b' :
  citems_wf cch -> blk_sub cch b -> g <> [] ->
  (forall x, In x g -> logr_on cch x /\ lr_bnum x = b_num b /\ lr_txidx x = ti) ->
  log_group repaired ti g b = Ok b' -> blk_sub cch b'.
Proof.
  intros Hwf Hb Hne Hg H. unfold log_group in H. apply bind_ok in H. destruct H as [b1 [Hh Hb1]].
  inversion Hb1; subst b'. clear Hb1. simpl in Hh. apply set_hashes_spec in Hh. destruct Hh as [h [-> _]].
  apply (blk_sub_upd cch b); [exact Hb|reflexivity|reflexivity|].
  intros cb Hc Ht. simpl. destruct (Hwf cb (nth_error_In _ _ Hc)) as [Hnd Hit].
  destruct g as [|x0 g']; [contradiction|].
  destruct (Hg x0 (or_introl eq_refl)) as [(cb' & ct & Hc' & Hct & E1 & E2 & E3) [En Ei]].
  rewrite En, Hc in Hc'. inversion Hc'; subst cb'.
  assert (Hall : forall x, In x (x0 :: g') -> In (lr_log x) (t_logs ct)).
  { intros x Hx. destruct (Hg x Hx) as [(cb2 & ct2 & Hc2 & Hct2 & F1 & F2 & F3) [En2 Ei2]].
    rewrite En2, Hc in Hc2. inversion Hc2; subst cb2.
    assert (ct2 = ct) by (apply (nodup_key_inj t_idx (b_txs cb)); auto; congruence). subst ct2. exact F3. }
  apply (upd_txs_sub (b_txs cb) ct ti _ Hnd Hct); [congruence| |exact Ht].
  intros t Hi (P1 & P2 & P3 & P4 & P5 & P6). unfold tx_sub, tx_part, with_tx_logs; simpl.
  split; [congruence|]. split; [exact E2|]. split; [exact P1|]. split; [exact P2|]. split; [exact P3|].
  split; [exact (logs_fold_nodup (lr_log x0 :: map lr_log g') (t_logs t) P4)|]. split; [|exact P6].
  intros y Hy. destruct (logs_fold_spec (lr_log x0 :: map lr_log g') (t_logs t)) as [F1 _].
  destruct (F1 y Hy) as [Hy1|Hy1]; [apply P5; exact Hy1|].
  change (In y (map lr_log (x0 :: g'))) in Hy1. apply in_map_iff in Hy1. destruct Hy1 as (x & <- & Hx).
  apply Hall. exact Hx.
Qed.

Lemma trace_block_sub cch ts b b' :
  citems_wf cch -> blk_sub cch b -> (forall x, In x ts -> tracer_on cch ts x /\ tr_bnum x = b_num b) ->
  trace_block repaired ts b = Ok b' -> blk_sub cch b'.
Proof.
  intros Hwf Hb Hts H. unfold trace_block in H. apply bind_ok in H. destruct H as [b1 [Hh Hb1]].
  inversion Hb1; subst b'. clear Hb1. simpl in Hh. apply set_hashes_spec in Hh. destruct Hh as [h [-> _]].
  rewrite attach_traces_eq. apply (blk_sub_upd cch b); [exact Hb|reflexivity|reflexivity|].
  intros cb Hc Ht. simpl. destruct (Hwf cb (nth_error_In _ _ Hc)) as [Hnd Hit].
  apply (fold_upd_sub (b_txs cb) idxT FT Hnd); [|exact Ht].
  intros [k g] Hkg. set (kf := fun t : tracer => (b_num b, tr_txidx t)) in *.
  destruct (group_by_spec kf ts) as (_ & G2 & _). destruct (G2 k g Hkg) as [Eg Hne].
  destruct g as [|x0 g']; [contradiction|].
  assert (Hx0 : In x0 (filter (fun x => key_eqb (kf x) k) ts)) by (rewrite <- Eg; left; reflexivity).
  apply filter_In in Hx0. destruct Hx0 as [Hin Hk]. apply key_eqb_eq in Hk.
  destruct (Hts x0 Hin) as [(cb' & ct & Hc' & Hct & E1 & E2 & E3) En].
  rewrite En, Hc in Hc'. inversion Hc'; subst cb'.
  exists ct. split; [exact Hct|]. unfold idxT; simpl. split; [rewrite <- Hk; simpl; auto|].
  intros t Hi (P1 & P2 & P3 & P4 & P5 & P6). destruct (Hit ct Hct) as [_ Hnum].
  unfold FT, tx_sub, tx_part, with_tx_traces; cbn [t_idx t_hash t_tft t_body t_rcpt t_logs t_traces snd fst hd].
  split; [rewrite Hi, <- Hk; simpl; auto|]. split; [exact E2|]. split; [exact P1|]. split; [exact P2|].
  split; [exact P3|]. split; [exact P4|]. split; [exact P5|]. right.
  rewrite Hnum. f_equal. rewrite <- E3, Eg. f_equal.
  apply filter_ext. intros y. unfold key_eqb, kf. rewrite <- Hk. simpl. rewrite N.eqb_refl, E1. reflexivity.
Qed.

(* ---------- the block list ---------- *)
Lemma bm_set_Forall (P : block -> Prop) n b' : forall bs, Forall P bs -> P b' -> Forall P (bm_set n b' bs).
Proof.
  induction bs as [|x r IH]; intros H Hb; simpl; [constructor|]. inversion H; subst.
  destruct (bm_get n r); [constructor; auto|]. destruct (b_num x =? n); constructor; auto.
Qed.

Lemma on_block_Forall (P : block -> Prop) n f bs bs' :
  Forall P bs -> (forall b b', b_num b = n -> P b -> f b = Ok b' -> P b') ->
  on_block n f bs = Ok bs' -> Forall P bs'.
Proof.
  intros H Hf Ho. apply on_block_ok in Ho. destruct Ho as (b & b' & Hg & Hfb & ->).
  apply bm_set_Forall; [exact H|]. rewrite Forall_forall in H.
  apply (Hf b b'); [eapply bm_get_num; eauto|apply H; eapply bm_get_In; eauto|exact Hfb].
Qed.

Definition keeps (P : block -> Prop) (f : bstep) : Prop :=
  forall bs bs', Forall P bs -> f bs = Ok bs' -> Forall P bs'.

Lemma run_steps_keeps P st : Forall (keeps P) st ->
  forall bs bs' ok, Forall P bs -> run_steps st bs = (bs', ok) -> Forall P bs'.
Proof.
  induction 1 as [|f r Hf _ IH]; intros bs bs' ok HP H; simpl in H.
  - inversion H; subst; exact HP.
  - destruct (f bs) as [bs1| |] eqn:E; try (inversion H; subst; exact HP).
    eapply IH; [|exact H]. eapply Hf; eauto.
Qed.

Section Steps.
Variable cch : list block.
Hypothesis Hwf : citems_wf cch.
Notation P := (blk_sub cch).

Lemma receipts_elem_keeps s l i e :
  (forall rs r, re_res e = Some rs -> In r rs -> rcpt_on cch r) ->
  keeps P (receipts_elem repaired s l i e).
Proof.
  intros He bs bs' HP H. unfold receipts_elem in H. simpl in H.
  destruct (re_res e) as [[|r0 rs]|] eqn:Er; [inversion H; subst; exact HP| |discriminate].
  destruct (forallb (fun r => r_bnum r =? s + N.of_nat i) (r0 :: rs)) eqn:Fa; [|discriminate].
  eapply on_block_Forall; [exact HP| |exact H]. intros b b' Hn Hb Hrb.
  eapply rcpt_block_sub; eauto. intros r Hr. split; [eapply He; eauto|].
  rewrite forallb_forall in Fa. specialize (Fa r Hr). apply N.eqb_eq in Fa. congruence.
Qed.

Lemma rsteps_keeps s l es : (forall e rs r, In e es -> re_res e = Some rs -> In r rs -> rcpt_on cch r) ->
  forall i, Forall (keeps P) (rsteps s l i es).
Proof.
  induction es as [|e r IH]; intros He i; simpl; constructor.
  - apply receipts_elem_keeps. intros rs x. apply He. left. reflexivity.
  - apply IH. intros e0 rs x Hin. apply He. right. exact Hin.
Qed.

Lemma gsteps_keeps ok :
  (forall x, In x ok -> logr_on cch x) ->
  Forall (keeps P) (gsteps (group_by (fun x => (lr_bnum x, lr_txidx x)) ok)).
Proof.
  intros Hok. set (kf := fun x : logr => (lr_bnum x, lr_txidx x)).
  destruct (group_by_spec kf ok) as (_ & G2 & _). unfold gsteps. apply Forall_forall.
  intros f Hf. apply in_map_iff in Hf. destruct Hf as ([k g] & <- & Hkg). simpl.
  destruct (G2 k g Hkg) as [Eg Hne]. intros bs bs' HP H.
  eapply on_block_Forall; [exact HP| |exact H]. intros b b' Hn Hb Hlg.
  eapply log_group_sub; eauto. intros x Hx. rewrite Eg in Hx. apply filter_In in Hx. destruct Hx as [Hin Hk].
  apply key_eqb_eq in Hk. split; [apply Hok; exact Hin|]. rewrite <- Hk in *. simpl in *. auto.
Qed.

Lemma traces_elem_keeps s i r :
  (forall e ts x, r = RBody e -> te_res e = Some ts -> In x ts -> tracer_on cch ts x) ->
  keeps P (traces_elem repaired s i r).
Proof.
  intros Hr bs bs' HP H. unfold traces_elem in H. simpl in H. destruct r as [|e]; [discriminate|].
  destruct (te_err e); [discriminate|]. destruct (te_res e) as [[|t0 ts]|] eqn:Et; try discriminate.
  destruct (forallb (fun t => tr_bnum t =? s + N.of_nat i) (t0 :: ts)) eqn:Fa; [|discriminate].
  eapply on_block_Forall; [exact HP| |exact H]. intros b b' Hn Hb Htb.
  eapply trace_block_sub; eauto. intros x Hx. split; [eapply Hr; eauto|].
  rewrite forallb_forall in Fa. specialize (Fa x Hx). apply N.eqb_eq in Fa. congruence.
Qed.

Lemma tsteps_keeps s n : forall i rs,
  (forall e ts x, In (RBody e) rs -> te_res e = Some ts -> In x ts -> tracer_on cch ts x) ->
  Forall (keeps P) (tsteps s i n rs).
Proof.
  induction n as [|n IH]; intros i rs Hrs; simpl; [constructor|]. destruct rs as [|r rest]; constructor.
  - intros bs bs' _ H. discriminate.
  - constructor.
  - apply traces_elem_keeps. intros e ts x ->. apply Hrs. left. reflexivity.
  - apply IH. intros e ts x Hin. apply Hrs. right. exact Hin.
Qed.

Lemma attach_p_keeps p s l w bs bs' ok :
  items_on cch w -> Forall P bs -> attach_p p s l w bs = (bs', ok) -> Forall P bs'.
Proof.
  intros (_ & _ & Hrc & Hlg & Htr) HP H. unfold attach_p in H.
  assert (S1 : forall bs1 ok1,
            (if use_receipts p then receipts_p s l (w_receipts w) bs
             else if use_logs p then logs_p s l (w_logs w) bs else (bs, true)) = (bs1, ok1) ->
            Forall P bs1).
  { intros bs1 ok1 E. destruct (use_receipts p); [|destruct (use_logs p)].
    - unfold receipts_p in E. destruct (w_receipts w) as [|es] eqn:Ew; [inversion E; subst; exact HP|].
      destruct (existsb re_err es); [inversion E; subst; exact HP|].
      destruct (length es <? N.to_nat l)%nat; [inversion E; subst; exact HP|].
      eapply run_steps_keeps; [|exact HP|exact E]. apply rsteps_keeps.
      intros e rs r Hin. apply (Hrc es e rs r eq_refl). eapply in_firstn; eauto.
    - unfold logs_p in E. destruct (w_logs w) as [|lb] eqn:Ew; [inversion E; subst; exact HP|].
      destruct (lb_len lb <? 2)%nat; [inversion E; subst; exact HP|].
      destruct (lb_herr lb); [inversion E; subst; exact HP|]. destruct (lb_lerr lb); [inversion E; subst; exact HP|].
      destruct (lb_hdr lb); [|inversion E; subst; exact HP].
      destruct (lb_logs lb) as [ls|] eqn:El; [|inversion E; subst; exact HP].
      destruct (hdr_skew _ _ _); [inversion E; subst; exact HP|].
      destruct (logs_scan repaired s l ls) as [okl| |] eqn:Es; try (inversion E; subst; exact HP).
      eapply run_steps_keeps; [|exact HP|exact E]. apply gsteps_keeps.
      intros x Hx. apply (Hlg lb ls x eq_refl El). destruct (logs_scan_spec _ _ _ _ Es) as [-> _].
      apply in_map. exact Hx.
    - inversion E; subst; exact HP. }
  destruct (if use_receipts p then _ else _) as [bs1 ok1] eqn:E1.
  pose proof (S1 _ _ eq_refl) as H1.
  destruct ok1; [|inversion H; subst; exact H1].
  destruct (use_traces p); [|inversion H; subst; exact H1].
  unfold traces_p in H. eapply run_steps_keeps; [|exact H1|exact H]. apply tsteps_keeps.
  intros e ts x Hin. apply Htr. exact Hin.
Qed.
End Steps.

(* (2) every call of an honest node keeps the invariant *)
Lemma op_keeps_Jit cch op :
  citems_wf cch -> items_on cch (cc_world op) -> op_keeps (Jit cch) op.
Proof.
  intros Hwf Hon. split.
  - intros fb Hfe F. destruct (fetch_blocks_spec _ _ _ _ F) as (RO & Hn & _ & Hk).
    destruct RO as (es & Er & Hne & Hlen & Hpos & Hfl & Hi).
    split; [exact Hn|]. split; [exact Hfl|]. split; [exact Hk|].
    apply Forall_forall. intros b Hb. apply In_nth_error in Hb. destruct Hb as [i Hb].
    assert (Hlt : (i < N.to_nat (cc_l op))%nat) by (rewrite <- Hfl; apply nth_error_Some; rewrite Hb; discriminate).
    destruct (Hi i Hlt) as (e & b0 & He & Hr & Hf & Hh & _). rewrite Hb in Hf. inversion Hf; subst b0.
    destruct Hon as (Hb1 & Hb2 & _).
    assert (HB : blocks_items cch (block_reply (cc_plan op) (cc_world op)))
      by (unfold block_reply; destruct (use_blocks (cc_plan op)); assumption).
    apply (HB es e b Er (nth_error_In _ _ He) Hr Hh).
  - intros bs bs' ok (Hn & Hl & Hk & HP) A.
    pose proof (attach_p_hdr _ _ _ _ _ _ _ Hn Hk A) as HH.
    split; [eapply numbered_proj; [apply map_hdr_num; exact HH|exact Hn]|].
    split; [rewrite <- Hl, <- (map_length hdr bs'), HH, map_length; reflexivity|].
    split; [eapply hashes_hdr; eauto|]. eapply attach_p_keeps; eauto.
Qed.

(* ================================================================== *)
(* (3) the rows premise                                                *)
(* ================================================================== *)
(* ---------- sorting by a key ---------- *)
Lemma ins_by_In {A} (key : A -> N) x y : forall l, In y (ins_by key x l) <-> y = x \/ In y l.
Proof.
  induction l as [|z r IH]; simpl.
  - split; [intros [H|[]]; auto|intros [H|[]]; auto].
  - destruct (key x <=? key z); simpl; [split; intros H; intuition congruence|].
    rewrite IH. split; intros H; intuition congruence.
Qed.
Lemma sort_by_In {A} (key : A -> N) y : forall l, In y (sort_by key l) <-> In y l.
Proof.
  induction l as [|z r IH]; simpl; [reflexivity|]. rewrite ins_by_In, IH. split; intros H; intuition congruence.
Qed.

Lemma ins_by_comm {A} (key : A -> N) x y : key x <> key y ->
  forall l, ins_by key x (ins_by key y l) = ins_by key y (ins_by key x l).
Proof.
  intros Hne. induction l as [|z r IH]; simpl.
  - destruct (key x <=? key y) eqn:E1; destruct (key y <=? key x) eqn:E2; try reflexivity; lia.
  - destruct (key y <=? key z) eqn:E1; destruct (key x <=? key z) eqn:E2; simpl;
      rewrite ?E1, ?E2;
      destruct (key x <=? key y) eqn:E3; destruct (key y <=? key x) eqn:E4; simpl; rewrite ?E1, ?E2;
      try reflexivity; try lia; f_equal; apply IH.
Qed.

Lemma sort_by_perm {A} (key : A -> N) (l l' : list A) :
  Permutation l l' -> NoDup (map key l) -> sort_by key l = sort_by key l'.
Proof.
  induction 1 as [|x l l' Hp IH|x y l|l l' l'' Hp1 IH1 Hp2 IH2]; intros Hnd.
  - reflexivity.
  - simpl. inversion Hnd; subst. rewrite IH; auto.
  - simpl. apply ins_by_comm. simpl in Hnd. inversion Hnd as [|? ? Hx _]; subst. intros E. apply Hx. left. auto.
  - rewrite IH1 by exact Hnd. apply IH2. eapply Permutation_NoDup; [apply Permutation_map; exact Hp1|exact Hnd].
Qed.

Lemma sort_by_set_eq {A} (key : A -> N) (l l' : list A) :
  NoDup (map key l) -> NoDup (map key l') -> (forall x, In x l <-> In x l') -> sort_by key l = sort_by key l'.
Proof.
  intros H1 H2 H. apply sort_by_perm; [|exact H1].
  apply NoDup_Permutation; [eapply NoDup_map_inv; eauto|eapply NoDup_map_inv; eauto|exact H].
Qed.

(* ---------- the view of a served block is the view of canon's block ---------- *)
Lemma vtx_idx keep t : t_idx (vtx keep t) = t_idx t.
Proof. reflexivity. Qed.
Lemma map_vtx_idx keep txs : map t_idx (map (vtx keep) txs) = map t_idx txs.
Proof. rewrite map_map. apply map_ext. intros; reflexivity. Qed.

Lemma served_vtx keep cb b t ct :
  (NoDup (map t_idx (b_txs cb)) /\ forall c, In c (b_txs cb) -> NoDup (map l_idx (t_logs c))) ->
  served keep cb b -> In t (b_txs b) -> In ct (b_txs cb) -> tx_sub ct t -> vtx keep t = vtx keep ct.
Proof.
  intros [Hnd Hnl] (_ & [Hnb Hall] & Hcomp) Ht Hct (Ei & Eh & _ & _ & _ & Hn & Hincl & _).
  unfold vtx. rewrite Ei, Eh. f_equal.
  apply sort_by_set_eq; [apply nodup_map_filter; exact Hn|apply nodup_map_filter; apply Hnl; exact Hct|].
  intros lg. rewrite !filter_In. split; intros [H1 H2]; (split; [|exact H2]).
  - apply Hincl. exact H1.
  - destruct (Hcomp ct lg Hct H1 H2) as (t' & Ht' & Ei' & Hl).
    assert (t' = t) by (apply (nodup_key_inj t_idx (b_txs b)); auto; congruence). subst t'. exact Hl.
Qed.

Lemma served_view keep cb b :
  (NoDup (map t_idx (b_txs cb)) /\ forall c, In c (b_txs cb) -> NoDup (map l_idx (t_logs c))) ->
  served keep cb b -> log_view keep b = log_view keep cb.
Proof.
  intros Hw Hs. pose proof Hs as (Hh & [Hnb Hall] & Hcomp). destruct Hw as [Hnd Hnl].
  unfold log_view, with_txs. unfold hdr in Hh. inversion Hh as [[E1 E2 E3 E4]]. rewrite E1, E2, E3, E4. f_equal.
  unfold vtxs. apply sort_by_set_eq.
  - apply nodup_map_filter. rewrite map_vtx_idx. exact Hnb.
  - apply nodup_map_filter. rewrite map_vtx_idx. exact Hnd.
  - intros x. rewrite !filter_In, !in_map_iff. split.
    + intros [(t & <- & Ht) Hne]. destruct (Hall t Ht) as (ct & Hct & Hsub).
      rewrite (served_vtx keep cb b t ct (conj Hnd Hnl) Hs Ht Hct Hsub) in *. split; [exists ct; auto|exact Hne].
    + intros [(ct & <- & Hct) Hne].
      assert (Hlg : exists lg, In lg (t_logs ct) /\ keep lg = true).
      { simpl in Hne. destruct (sort_by l_idx (filter keep (t_logs ct))) as [|lg r] eqn:E; [discriminate|].
        assert (Hin : In lg (sort_by l_idx (filter keep (t_logs ct)))) by (rewrite E; left; reflexivity).
        apply sort_by_In, filter_In in Hin. exists lg. exact Hin. }
      destruct Hlg as (lg & Hl & Hk). destruct (Hcomp ct lg Hct Hl Hk) as (t & Ht & Ei & _).
      destruct (Hall t Ht) as (ct' & Hct' & Hsub).
      assert (ct' = ct).
      { apply (nodup_key_inj t_idx (b_txs cb)); auto. destruct Hsub as [Hs1 _]. congruence. }
      subst ct'. rewrite <- (served_vtx keep cb b t ct (conj Hnd Hnl) Hs Ht Hct Hsub) in *.
      split; [exists t; auto|exact Hne].
Qed.

(* ---------- presence of a log in a block list, by block number ---------- *)
Definition present (bs : list block) (n i : N) (lg : log) : Prop :=
  exists b t, In b bs /\ b_num b = n /\ In t (b_txs b) /\ t_idx t = i /\ In lg (t_logs t).

Lemma upd_txs_survive (Q : tx -> Prop) idx f : (forall t, Q t -> Q (f t)) ->
  forall txs, (exists t, In t txs /\ Q t) -> exists t, In t (upd_txs txs idx f) /\ Q t.
Proof.
  intros Hf. induction txs as [|x r IH]; intros (t & Ht & Hq); [contradiction|]. simpl.
  destruct (t_idx x =? idx).
  - destruct Ht as [<-|Ht]; [exists (f x); split; [left; reflexivity|apply Hf; exact Hq]|].
    exists t. split; [right; exact Ht|exact Hq].
  - destruct Ht as [<-|Ht]; [exists x; split; [left; reflexivity|exact Hq]|].
    destruct (IH (ex_intro _ t (conj Ht Hq))) as (t' & Ht' & Hq'). exists t'. split; [right; exact Ht'|exact Hq'].
Qed.
Lemma fold_upd_survive {X} (Q : tx -> Prop) (idx : X -> N) (F : X -> tx -> tx) :
  (forall x t, Q t -> Q (F x t)) ->
  forall xs txs, (exists t, In t txs /\ Q t) ->
    exists t, In t (fold_left (fun txs x => upd_txs txs (idx x) (F x)) xs txs) /\ Q t.
Proof.
  intros Hf. induction xs as [|x r IH]; intros txs H; simpl; [exact H|].
  apply IH. apply upd_txs_survive; [apply Hf|exact H].
Qed.

Lemma trace_block_survive ts b b' i lg :
  trace_block repaired ts b = Ok b' ->
  (exists t, In t (b_txs b) /\ t_idx t = i /\ In lg (t_logs t)) ->
  exists t, In t (b_txs b') /\ t_idx t = i /\ In lg (t_logs t).
Proof.
  intros H Hex. unfold trace_block in H. apply bind_ok in H. destruct H as [b1 [Hh Hb1]].
  inversion Hb1; subst b'. clear Hb1. simpl in Hh. apply set_hashes_spec in Hh. destruct Hh as [h [-> _]].
  rewrite attach_traces_eq. simpl.
  apply (fold_upd_survive (fun t => t_idx t = i /\ In lg (t_logs t)) idxT FT); [|exact Hex].
  intros x t Hq. exact Hq.
Qed.

Lemma bm_set_In n b' : forall bs b0 x, bm_get n bs = Some b0 -> In x bs -> In x (bm_set n b' bs) \/ x = b0.
Proof.
  induction bs as [|y r IH]; intros b0 x Hg Hx; [contradiction|]. simpl in *.
  destruct (bm_get n r) as [z|] eqn:E.
  - inversion Hg; subst z. destruct Hx as [<-|Hx]; [left; left; reflexivity|].
    destruct (IH b0 x eq_refl Hx) as [H|H]; [left; right; exact H|right; exact H].
  - destruct (b_num y =? n); [|discriminate]. inversion Hg; subst y.
    destruct Hx as [<-|Hx]; [right; reflexivity|left; right; exact Hx].
Qed.
Lemma bm_set_has n b' : forall bs b0, bm_get n bs = Some b0 -> In b' (bm_set n b' bs).
Proof.
  induction bs as [|y r IH]; intros b0 Hg; [discriminate|]. simpl in *.
  destruct (bm_get n r) as [z|] eqn:E; [right; eapply IH; eauto|].
  destruct (b_num y =? n); [left; reflexivity|discriminate].
Qed.

Definition mono (f : bstep) : Prop :=
  forall bs bs' n i lg, f bs = Ok bs' -> present bs n i lg -> present bs' n i lg.

Lemma traces_elem_mono s i r : mono (traces_elem repaired s i r).
Proof.
  intros bs bs' n j lg H Hp. unfold traces_elem in H. simpl in H. destruct r as [|e]; [discriminate|].
  destruct (te_err e); [discriminate|]. destruct (te_res e) as [[|t0 ts]|]; try discriminate.
  destruct (forallb _ (t0 :: ts)); [|discriminate].
  apply on_block_ok in H. destruct H as (b0 & b0' & Hg & Hf & ->).
  destruct Hp as (b & t & Hb & Hn & Ht & Hi & Hl).
  destruct (bm_set_In _ b0' _ _ _ Hg Hb) as [Hin| ->].
  - exists b, t. auto.
  - destruct (trace_block_survive _ _ _ j lg Hf (ex_intro _ t (conj Ht (conj Hi Hl)))) as (t' & Ht' & Hi' & Hl').
    exists b0', t'. split; [eapply bm_set_has; eauto|]. split; [rewrite (trace_block_num _ _ _ _ Hf); exact Hn|auto].
Qed.

Lemma tsteps_mono s n : forall i rs, Forall mono (tsteps s i n rs).
Proof.
  induction n as [|n IH]; intros i rs; simpl; [constructor|]. destruct rs as [|r rest]; constructor.
  - intros bs bs' m j lg H. discriminate.
  - constructor.
  - apply traces_elem_mono.
  - apply IH.
Qed.

Lemma run_steps_mono st : Forall mono st ->
  forall bs bs' n i lg, run_steps st bs = (bs', true) -> present bs n i lg -> present bs' n i lg.
Proof.
  induction 1 as [|f r Hf _ IH]; intros bs bs' n i lg H Hp; simpl in H.
  - inversion H; subst; exact Hp.
  - destruct (f bs) as [bs1| |] eqn:E; try discriminate. eapply IH; [exact H|]. eapply Hf; eauto.
Qed.

(* ---------- a successful honest attach serves canon's logs ---------- *)
Lemma nth_cseg cch s l j : (j < N.to_nat l)%nat ->
  nth_error (cseg cch s l) j = nth_error cch (N.to_nat s + j).
Proof.
  intros Hlt. unfold cseg. rewrite BridgeCacheTaskP.nth_error_firstn', BridgeCacheTaskP.nth_error_skipn'.
  apply Nat.ltb_lt in Hlt. rewrite Hlt. reflexivity.
Qed.

Lemma Forall2_nth_intro {A C} (R : A -> C -> Prop) : forall l1 l2, length l1 = length l2 ->
  (forall j a c, nth_error l1 j = Some a -> nth_error l2 j = Some c -> R a c) -> Forall2 R l1 l2.
Proof.
  induction l1 as [|a r IH]; intros [|c q] Hl H; simpl in Hl; try discriminate; constructor.
  - apply (H 0%nat); reflexivity.
  - apply IH; [lia|]. intros j x y Hx Hy. apply (H (S j)); assumption.
Qed.

Section Served.
Variable cch : list block.
Hypothesis Hwf : citems_wf cch.
Variables (keep want : log -> bool) (p : plan) (s l : N) (w : world).
Hypothesis Hon : items_on cch w.
Hypothesis Hall : items_all cch want s l w.
Hypothesis Hkw : forall lg, keep lg = true -> want lg = true.
Hypothesis Hplan : use_receipts p || use_logs p = true.

(* stage 1 (receipts or logs) puts every wanted canon log where it belongs *)
Lemma stage1_present base mid :
  numbered s base -> length base = N.to_nat l ->
  attach1 repaired p s l w base = Ok mid -> Forall (blk_sub cch) mid ->
  forall n cb ct lg, s <= n < s + l -> nth_error cch (N.to_nat n) = Some cb -> In ct (b_txs cb) ->
    In lg (t_logs ct) -> keep lg = true -> present mid n (t_idx ct) lg.
Proof.
  intros Hn Hl H1 HPm n cb ct lg Hr Hc Hct Hlg Hk. destruct Hon as (_ & _ & Hrc & Hlgs & _).
  destruct Hall as [Ar Al]. destruct (Hwf cb (nth_error_In _ _ Hc)) as [Hnd Hit].
  unfold attach1 in H1. destruct (use_receipts p) eqn:Ur.
  - destruct (receipts_top_spec _ _ _ _ _ Hn Hl H1) as (_ & _ & es & Ew & _ & Hlen & Hi).
    set (i := (N.to_nat n - N.to_nat s)%nat). assert (Hlt : (i < N.to_nat l)%nat) by (unfold i; lia).
    destruct (Hi i Hlt) as (e & He & _ & rs & Ers & _ & _ & Hne).
    assert (En : s + N.of_nat i = n) by (unfold i; lia). rewrite En in Hne.
    assert (Hc' : nth_error cch (N.to_nat s + i) = Some cb) by (replace (N.to_nat s + i)%nat with (N.to_nat n) by (unfold i; lia); exact Hc).
    destruct (Ar es i e rs cb ct Ew Hlt He Ers Hc' Hct) as (r & Hr1 & Hr2).
    assert (Hrs : rs <> []) by (intros ->; contradiction).
    destruct (Hne Hrs) as (b & b' & _ & Hb' & Hnum & _ & _ & _ & _ & Hatt & _).
    destruct (Hatt r Hr1) as (t & r' & Ht & Hr' & Ei & (R1 & R2 & R3 & R4 & R5)).
    destruct (Hrc es e rs r' Ew (nth_error_In _ _ He) Ers Hr') as (cb2 & ct2 & Hc2 & Hct2 & F1 & F2 & F3 & F4 & F5).
    assert (Ebn : r_bnum r' = n).
    { destruct (Hi i Hlt) as (e0 & He0 & _ & rs0 & Ers0 & Hbn & _). rewrite He in He0. inversion He0; subst e0.
      rewrite Ers in Ers0. inversion Ers0; subst rs0. rewrite (Hbn r' Hr'). exact En. }
    rewrite Ebn, Hc in Hc2. inversion Hc2; subst cb2.
    assert (ct2 = ct) by (apply (nodup_key_inj t_idx (b_txs cb)); auto; congruence). subst ct2.
    exists b', t. split; [eapply nth_error_In; eauto|]. split; [exact Hnum|]. split; [exact Ht|].
    split; [congruence|]. rewrite R5, F5. exact Hlg.
  - destruct (use_logs p) eqn:Ul; [|discriminate].
    destruct (logs_top_spec _ _ _ _ _ Hn Hl H1) as (_ & Hlm & lb & ls & Ew & _ & _ & _ & _ & Els & _ & Hblk).
    destruct (Al lb (map Some ls) n cb ct lg Ew Els Hr Hc Hct Hlg (Hkw lg Hk)) as (x & Hx & X1 & X2 & X3).
    apply in_map_iff in Hx. destruct Hx as (x' & Ex & Hx). inversion Ex; subst x'. clear Ex.
    set (j := (N.to_nat n - N.to_nat s)%nat).
    assert (Hjb : exists b, nth_error base j = Some b).
    { destruct (nth_error base j) eqn:E; [eauto|]. apply nth_error_None in E. unfold j in E. lia. }
    destruct Hjb as (b & Hb). pose proof (numbered_nth _ _ _ _ Hn Hb) as Hbn.
    assert (Ebn : b_num b = n) by (rewrite Hbn; unfold j; lia).
    destruct (Hblk j b Hb) as (b' & Hb' & (L1 & _ & _ & _ & _ & _ & L7 & _)).
    assert (Hmine : In x (filter (fun l0 => lr_bnum l0 =? b_num b) ls)).
    { apply filter_In. split; [exact Hx|]. apply N.eqb_eq. congruence. }
    destruct (L7 x Hmine) as (t & y & Ht & Ei & Hy & Eidx).
    rewrite Forall_forall in HPm. destruct (HPm b' (nth_error_In _ _ Hb')) as (cb2 & Hc2 & _ & [_ Hsub]).
    rewrite L1, Ebn, Hc in Hc2. inversion Hc2; subst cb2.
    destruct (Hsub t Ht) as (ct2 & Hct2 & Es & _ & _ & _ & _ & _ & Hincl & _).
    assert (ct2 = ct) by (apply (nodup_key_inj t_idx (b_txs cb)); auto; congruence). subst ct2.
    assert (y = lg).
    { destruct (Hit ct Hct) as [Hnl _]. apply (nodup_key_inj l_idx (t_logs ct)); auto. congruence. }
    subst y. exists b', t. split; [eapply nth_error_In; eauto|]. split; [congruence|]. split; [exact Ht|].
    split; [congruence|exact Hy].
Qed.

Lemma attach_served base bs :
  Jit cch s l base -> map nhp base = map nhp (cseg cch s l) ->
  attach repaired p s l w base = Ok bs -> Forall2 (served keep) (cseg cch s l) bs.
Proof.
  intros (Hn & Hl & Hk & HP) Enhp Ha.
  (* the result: headers kept, invariant kept *)
  pose proof Ha as Hap. apply attach_p_spec in Hap.
  pose proof (attach_p_hdr _ _ _ _ _ _ _ Hn Hk Hap) as HH.
  pose proof (attach_p_keeps cch Hwf _ _ _ _ _ _ _ Hon HP Hap) as HPb.
  assert (Hnb : numbered s bs) by (eapply numbered_proj; [apply map_hdr_num; exact HH|exact Hn]).
  assert (Hlb : length bs = N.to_nat l) by (rewrite <- Hl, <- (map_length hdr bs), HH, map_length; reflexivity).
  (* stage 1 *)
  unfold attach in Ha. apply bind_ok in Ha. destruct Ha as (mid & H1 & H2).
  set (p1 := mkPlan (use_headers p) (use_blocks p) (use_receipts p) (use_logs p) false).
  assert (Hp1 : attach_p p1 s l w base = (mid, true)).
  { apply attach_p_spec. unfold attach. change (attach1 repaired p1 s l w base) with (attach1 repaired p s l w base).
    rewrite H1. simpl. unfold attach2. rewrite does_traces_repaired. reflexivity. }
  pose proof (attach_p_keeps cch Hwf _ _ _ _ _ _ _ Hon HP Hp1) as HPm.
  pose proof (stage1_present base mid Hn Hl H1 HPm) as Hpres.
  (* stage 2 keeps what is there *)
  assert (Hpres2 : forall n cb ct lg, s <= n < s + l -> nth_error cch (N.to_nat n) = Some cb -> In ct (b_txs cb) ->
            In lg (t_logs ct) -> keep lg = true -> present bs n (t_idx ct) lg).
  { intros n cb ct lg A1 A2 A3 A4 A5. pose proof (Hpres n cb ct lg A1 A2 A3 A4 A5) as Hm.
    unfold attach2 in H2. rewrite does_traces_repaired in H2. destruct (use_traces p).
    - unfold traces in H2. apply tsteps_spec in H2. eapply run_steps_mono; [apply tsteps_mono|exact H2|exact Hm].
    - inversion H2; subst. exact Hm. }
  assert (Hlc : length (cseg cch s l) = N.to_nat l)
    by (rewrite <- (map_length nhp (cseg cch s l)), <- Enhp, map_length; exact Hl).
  apply Forall2_nth_intro; [congruence|]. intros j cb b Hcb Hb.
  assert (Hlt : (j < N.to_nat l)%nat) by (rewrite <- Hlb; apply nth_error_Some; rewrite Hb; discriminate).
  rewrite (nth_cseg cch s l j Hlt) in Hcb.
  pose proof (numbered_nth _ _ _ _ Hnb Hb) as Ebn.
  rewrite Forall_forall in HPb. destruct (HPb b (nth_error_In _ _ Hb)) as (cb2 & Hc2 & Ehpl & Hsub).
  replace (N.to_nat (b_num b)) with (N.to_nat s + j)%nat in Hc2 by lia. rewrite Hcb in Hc2. inversion Hc2; subst cb2.
  split; [|split; [exact Hsub|]].
  - assert (E1 : nth_error (map nhp bs) j = nth_error (map nhp (cseg cch s l)) j).
    { rewrite <- Enhp. rewrite <- (BridgeCacheTaskP.CS.map_nhp _ _ HH). reflexivity. }
    rewrite !nth_error_map, Hb, (nth_cseg cch s l j Hlt), Hcb in E1. simpl in E1. inversion E1 as [E2].
    unfold nhp, hdr in *. simpl in E2. inversion E2. rewrite Ehpl. congruence.
  - intros ct lg Hct Hlg Hkp.
    destruct (Hpres2 (s + N.of_nat j) cb ct lg) as (b2 & t & Hb2 & Hn2 & Ht & Hi & Hl2); auto; [lia|replace (N.to_nat (s + N.of_nat j)) with (N.to_nat s + j)%nat by lia; exact Hcb|].
    apply In_nth_error in Hb2. destruct Hb2 as (j2 & Hb2). pose proof (numbered_nth _ _ _ _ Hnb Hb2) as E2.
    assert (j2 = j) by lia. subst j2. rewrite Hb in Hb2. inversion Hb2; subst b2. exists t. auto.
Qed.
End Served.

Lemma cseg_In cch s l cb : In cb (cseg cch s l) -> In cb cch.
Proof.
  unfold cseg. intros H. apply in_firstn in H. revert H. generalize (N.to_nat s). intros k. revert cch.
  induction k as [|k IH]; intros [|x r] H; simpl in H; try contradiction; [exact H|right; apply IH; exact H].
Qed.

Lemma rows_canon_honest cch keep want F op :
  citems_wf cch -> attach_on cch want (cc_s op) (cc_l op) (cc_world op) ->
  (forall lg, keep lg = true -> want lg = true) ->
  use_receipts (cc_plan op) || use_logs (cc_plan op) = true ->
  rows_canon (view_rowsf keep F) cch (Jit cch) op.
Proof.
  intros Hwf [Hon Hall] Hkw Hplan base bs HJ Enhp Ha.
  pose proof (attach_served cch Hwf keep want _ _ _ _ Hon Hall Hkw Hplan base bs HJ Enhp Ha) as HS.
  assert (G : forall l1 l2, Forall2 (served keep) l1 l2 -> (forall cb, In cb l1 -> In cb cch) ->
            map (view_rowsf keep F) l2 = map (view_rowsf keep F) l1).
  { induction 1 as [|cb b r q Hs _ IH]; intros Hin; [reflexivity|]. simpl. f_equal.
    - unfold view_rowsf. f_equal. apply served_view; [|exact Hs].
      destruct (Hwf cb (Hin cb (or_introl eq_refl))) as [Hnd Hit]. split; [exact Hnd|]. intros c Hc. apply Hit. exact Hc.
    - apply IH. intros c Hc. apply Hin. right. exact Hc. }
  apply G; [exact HS|]. intros cb. apply cseg_In.
Qed.

End B.

(* ================================================================== *)
(* (4) growth_reply from assumptions on the node only                  *)
(* ================================================================== *)
From Shovel Require Import Model.TaskTypes Model.TaskDb Model.Task Model.TaskNode Model.TaskSys Model.TaskSpec.

Section Growth.
Import CacheClient BridgeCacheTask CR.
Variable hid : bytes -> N.
Variable keep : Client.log -> bool.
Variable F : Client.block -> list (N * N).
Notation rowsf := (view_rowsf keep F).
Notation abs := (BridgeClientTaskP.abs hid rowsf).

Lemma honest_ops cch (wantf : ccop -> Client.log -> bool) ops :
  citems_wf cch ->
  Forall (fun o => world_on cch (cc_world o)
                   /\ attach_on cch (wantf o) (cc_s o) (cc_l o) (cc_world o)) ops ->
  Forall (fun o => world_on cch (cc_world o)) ops /\ Forall (op_keeps (Jit cch)) ops.
Proof.
  intros Hwf H. split; eapply Forall_impl; try exact H; simpl.
  - intros o [Hw _]. exact Hw.
  - intros o [_ [Hon _]]. apply B.op_keeps_Jit; assumption.
Qed.

Lemma cached_canon_seg_honest cch wantf mx ops i op bs :
  citems_wf cch ->
  Forall (fun o => world_on cch (cc_world o)
                   /\ attach_on cch (wantf o) (cc_s o) (cc_l o) (cc_world o)) ops ->
  (forall lg, keep lg = true -> wantf op lg = true) ->
  Client.use_receipts (cc_plan op) || Client.use_logs (cc_plan op) = true ->
  cached_result mx ops i op bs -> ClientSpec.fetches (cc_plan op) = true ->
  canon_seg true (canon hid rowsf cch) (cc_s op, cc_l op) (SegOk (map abs bs)).
Proof.
  intros Hwf Hops Hkw Hplan Hres Hfe. destruct (honest_ops cch wantf ops Hwf Hops) as [Hw Hk].
  apply (BridgeCacheTaskP.cached_canon_seg hid rowsf cch (Jit cch) mx ops i op bs Hw Hk); [|exact Hres|exact Hfe].
  destruct Hres as (cl & outs & _ & Hop & _). apply nth_error_In in Hop.
  rewrite Forall_forall in Hops. destruct (Hops op Hop) as [_ Hat].
  apply (B.rows_canon_honest cch keep (wantf op) F op Hwf Hat Hkw Hplan).
Qed.

Lemma cached_growth_reply_honest cch wantf ps rs :
  citems_wf cch ->
  Forall2 (honest_cache_answer hid keep F cch wantf) ps rs ->
  growth_reply true (canon hid rowsf cch) (RGet ps) (RSegs rs).
Proof.
  intros Hwf H. cbn [growth_reply]. induction H as [|pr r ps rs Hr _ IH]; constructor; [|exact IH].
  destruct r as [xs|k]; [|exact I].
  destruct Hr as (mx & ops & i & op & bs & Hops & Hkw & Hplan & Hres & Hf & Hs & Hl & ->).
  destruct pr as [s l]. simpl in Hs, Hl. subst s l. eapply cached_canon_seg_honest; eauto.
Qed.
End Growth.

(* ================================================================== *)
(* the example instance; the raw statement is false                    *)
(* ================================================================== *)
Module X.
Import Client ClientSpec CacheClient BridgeCacheTask CR EX.

Lemma ex_citems_wf : citems_wf ex_cch.
Proof.
  intros cb Hcb. vm_compute in Hcb.
  destruct Hcb as [<-|[<-|[<-|[<-|[]]]]]; (split; [vm_compute; repeat constructor; intros []|]); intros ct Hct;
    try contradiction.
  destruct Hct as [<-|[]]. split; [|reflexivity]. vm_compute. repeat constructor; [intros [H|[]]; discriminate|intros []].
Qed.

Lemma ex_blocks_fail cch : blocks_items cch RFail.
Proof. intros es e b E. discriminate. Qed.

Lemma ex_logs_on lg : In lg [mkLog 0 [7]; mkLog 1 [8]] -> logr_on ex_cch (mkLogr 2 [12] 0 [100] lg).
Proof.
  intros Hl. eexists. eexists. split; [vm_compute; reflexivity|]. split; [left; reflexivity|].
  split; [reflexivity|]. split; [reflexivity|]. exact Hl.
Qed.

Lemma ex_hdr_items : blocks_items ex_cch (hdr_reply (firstn 3 ex_cch) 1 2).
Proof.
  intros es e b E Hin Hr Hh. vm_compute in E. inversion E; subst es.
  destruct Hin as [<-|[<-|[]]]; vm_compute in Hr; inversion Hr; subst b;
    (eexists; split; [vm_compute; reflexivity|]; split; [reflexivity|]; split; [constructor|intros t []]).
Qed.

(* the logs part of items_all for a reply carrying exactly the canon logs that pass [want] *)
Lemma ex_logs_all (want : log -> bool) w ls :
  w_receipts w = RFail -> w_logs w = logs_reply ls ->
  (forall lg, In lg [mkLog 0 [7]; mkLog 1 [8]] -> want lg = true -> In lg ls) ->
  items_all ex_cch want 1 2 w.
Proof.
  intros Er El Hc. split.
  - intros es i e rs cb ct E. rewrite Er in E. discriminate.
  - intros lb ls0 n cb ct lg E1 E2 Hn Hcb Hct Hlg Hw. rewrite El in E1. inversion E1; subst lb. simpl in E2.
    inversion E2; subst ls0. clear E1 E2.
    assert (Hn' : n = 1 \/ n = 2) by lia. destruct Hn' as [-> | ->]; vm_compute in Hcb; inversion Hcb; subst cb.
    + contradiction.
    + destruct Hct as [<-|[]]. simpl in Hlg. exists (mkLogr 2 [12] 0 [100] lg).
      split; [apply in_map_iff; exists lg; split; [reflexivity|apply Hc; assumption]|]. repeat split.
Qed.

Lemma ex_attach_on_A : attach_on ex_cch keepA 1 2 (cc_world opA).
Proof.
  split.
  - split; [apply ex_blocks_fail|]. split; [apply ex_blocks_fail|]. split; [intros es e rs r E; discriminate|].
    split; [|intros e ts x []].
    intros lb ls x E1 E2 Hx. vm_compute in E1. inversion E1; subst lb. vm_compute in E2. inversion E2; subst ls.
    destruct Hx as [Hx|[]]. inversion Hx; subst x. apply ex_logs_on. left. reflexivity.
  - apply (ex_logs_all keepA _ [mkLog 0 [7]]); [reflexivity|reflexivity|].
    intros lg [<-|[<-|[]]] Hw; [left; reflexivity|vm_compute in Hw; discriminate].
Qed.

Lemma ex_attach_on_B : attach_on ex_cch keepB 1 2 (cc_world opB).
Proof.
  split.
  - split; [apply ex_blocks_fail|]. split; [apply ex_hdr_items|]. split; [intros es e rs r E; discriminate|].
    split; [|intros e ts x []].
    intros lb ls x E1 E2 Hx. vm_compute in E1. inversion E1; subst lb. vm_compute in E2. inversion E2; subst ls.
    destruct Hx as [Hx|[]]. inversion Hx; subst x. apply ex_logs_on. right. left. reflexivity.
  - apply (ex_logs_all keepB _ [mkLog 1 [8]]); [reflexivity|reflexivity|].
    intros lg [<-|[<-|[]]] Hw; [vm_compute in Hw; discriminate|left; reflexivity].
Qed.

Lemma ex_world_on_B : world_on ex_cch (cc_world opB).
Proof.
  exists (firstn 3 ex_cch). split; [vm_compute; repeat split|]. split; [apply BridgeCacheTaskP.blocks_of_fail|].
  intros es e b E Hin Hr Hh. vm_compute in E; inversion E; subst es.
  destruct Hin as [<-|[<-|[]]]; vm_compute in Hr; inversion Hr; subst b; eexists; split; vm_compute; reflexivity.
Qed.
Lemma ex_world_on_A : world_on ex_cch (cc_world opA).
Proof. exists ex_cch. split; [vm_compute; repeat split|]. split; apply BridgeCacheTaskP.blocks_of_fail. Qed.

(* the premises of [cached_growth_reply_honest] hold for the two readers *)
Lemma ex_honest_hyps :
  citems_wf ex_cch
  /\ Forall (fun o => world_on ex_cch (cc_world o)
                      /\ attach_on ex_cch (ex_wantf o) (cc_s o) (cc_l o) (cc_world o)) [opB; opA]
  /\ (forall lg, keepA lg = true -> ex_wantf opA lg = true)
  /\ use_receipts (cc_plan opA) || use_logs (cc_plan opA) = true
  /\ (exists bs, cached_result 3 [opB; opA] 1 opA bs)
  /\ fetches (cc_plan opA) = true.
Proof.
  split; [apply ex_citems_wf|]. split.
  - constructor; [split; [apply ex_world_on_B|apply ex_attach_on_B]|].
    constructor; [split; [apply ex_world_on_A|apply ex_attach_on_A]|constructor].
  - split; [intros lg H; exact H|]. split; [reflexivity|]. split; [|reflexivity].
    eexists. unfold cached_result. eexists. eexists. split; [vm_compute; reflexivity|]. split; reflexivity.
Qed.

(* a row function of the delivered block AS IT IS (here: one row per attached
   log, in stored order) does not satisfy the rows premise: the base is what
   reader B left in the segment, reader A's Logs.Add appends log 0 after log 1 *)
Lemma ex_raw_base_J : Jit ex_cch 1 2 raw_base.
Proof.
  split; [reflexivity|]. split; [reflexivity|]. split.
  - intros b [<-|[<-|[]]]; discriminate.
  - constructor; [|constructor; [|constructor]].
    + eexists. split; [vm_compute; reflexivity|]. split; [reflexivity|]. split; [constructor|intros t []].
    + eexists. split; [vm_compute; reflexivity|]. split; [reflexivity|]. split.
      * vm_compute. repeat constructor. intros [].
      * intros t [<-|[]]. eexists. split; [left; reflexivity|]. split; [reflexivity|]. split; [reflexivity|].
        unfold tx_part; simpl. split; [left; reflexivity|]. split; [left; reflexivity|]. split; [left; reflexivity|].
        split; [repeat constructor; intros []|]. split; [|left; reflexivity].
        intros x [<-|[]]. right. left. reflexivity.
Qed.

Lemma raw_rows_refuted : ~ rows_canon_raw_full.
Proof.
  intros H.
  assert (R : exists bs, attach repaired (cc_plan opA) 1 2 (cc_world opA) raw_base = Ok bs
                /\ map ex_rowsf bs <> map ex_rowsf (cseg ex_cch 1 2)).
  { eexists. split; [vm_compute; reflexivity|]. vm_compute. intros E. discriminate E. }
  destruct R as (bs & Ha & Hne). apply Hne.
  apply (H ex_rowsf ex_cch keepA opA ex_citems_wf ex_attach_on_A eq_refl raw_base bs ex_raw_base_J); [reflexivity|exact Ha].
Qed.

(* the filter condition [keep -> want] is necessary: an integration whose rows
   depend on ALL logs, served by a node answering a request that asked for
   B's logs only *)
Lemma ex_hdr_base_J : Jit ex_cch 1 2 hdr_base.
Proof.
  split; [reflexivity|]. split; [reflexivity|]. split.
  - intros b [<-|[<-|[]]]; discriminate.
  - constructor; [|constructor; [|constructor]];
      (eexists; split; [vm_compute; reflexivity|]; split; [reflexivity|]; split; [constructor|intros t []]).
Qed.

Lemma filter_cover_needed : ~ rows_canon_any_keep_full.
Proof.
  intros H.
  assert (R : exists bs, attach repaired (cc_plan opB) 1 2 (cc_world opB) hdr_base = Ok bs
                /\ map (view_rowsf (fun _ => true) ex_rowsf) bs
                   <> map (view_rowsf (fun _ => true) ex_rowsf) (cseg ex_cch 1 2)).
  { eexists. split; [vm_compute; reflexivity|]. vm_compute. intros E. discriminate E. }
  destruct R as (bs & Ha & Hne). apply Hne.
  apply (H (fun _ => true) keepB ex_rowsf ex_cch opB ex_citems_wf ex_attach_on_B eq_refl hdr_base bs ex_hdr_base_J);
    [reflexivity|exact Ha].
Qed.
End X.

(* ================================================================== *)
(* C11's builder: restricting a block to the declaration's logs        *)
(* ================================================================== *)
From Shovel Require Model.Filter Model.Rows Model.Pushdown Model.BridgeGateRows Proofs.BridgeGateRowsP Proofs.PushdownP.
Module V.
Import C11V.

Lemma filter_map_comm {A C} (f : A -> C) (p : C -> bool) : forall l,
  filter p (map f l) = map f (filter (fun x => p (f x)) l).
Proof. induction l as [|x r IH]; simpl; [reflexivity|]. destruct (p (f x)); simpl; rewrite IH; reflexivity. Qed.

Lemma conv_keep_logs rd pr b :
  BridgeGateRows.block_keep_logs pr (conv rd b) = conv rd (restrict (fun lg => pr (rd_log rd lg)) b).
Proof.
  unfold BridgeGateRows.block_keep_logs, conv, restrict, Client.with_txs. simpl. f_equal.
  rewrite !map_map. apply map_ext. intros t.
  unfold BridgeGateRows.tx_keep_logs, conv_tx, restrict_tx, Pushdown.tx_with_logs. simpl.
  rewrite filter_map_comm. reflexivity.
Qed.

Lemma conv_node_filter rd A T bs :
  Pushdown.node_filter A T (map (conv rd) bs)
  = map (conv rd) (map (restrict (fun lg => Pushdown.node_pass A T (rd_log rd lg))) bs).
Proof.
  unfold Pushdown.node_filter. rewrite !map_map. apply map_ext. intros b.
  unfold conv, restrict, Client.with_txs, Pushdown.block_with_txs. simpl. f_equal.
  rewrite !map_map. apply map_ext. intros t.
  unfold conv_tx, restrict_tx, Pushdown.tx_with_logs. simpl. rewrite filter_map_comm. reflexivity.
Qed.

(* C13 insert_ignores_undeclared_logs, on client-level blocks: Insert does not
   see the logs of other events that other integrations attached *)
Lemma c11_gate_restriction rd ed c dbs bs :
  Rows.insert Rows.fixed (BridgeGateRows.decl_of ed) c dbs (map (conv rd) (map (restrict (gate_keep rd ed)) bs))
  = Rows.insert Rows.fixed (BridgeGateRows.decl_of ed) c dbs (map (conv rd) bs).
Proof.
  rewrite <- (BridgeGateRowsP.insert_ignores_undeclared_l ed c dbs (map (conv rd) bs)).
  f_equal. unfold BridgeGateRows.keep_logs. rewrite !map_map. apply map_ext. intros b.
  symmetry. apply conv_keep_logs.
Qed.

(* C12 pushdown_loses_none, on client-level blocks: nor the canon logs its own
   eth_getLogs filter withheld *)
Lemma c11_pushdown_restriction rd d c dbs bs rows :
  Rows.indexing Rows.fixed d = Rows.IxLog -> wf_bytes (Rows.d_sighash d) ->
  (forall b t lg, In b bs -> In t (Client.b_txs b) -> In lg (Client.t_logs t) ->
     length (Filter.ob (Rows.l_addr (rd_log rd lg))) = 20%nat) ->
  Rows.insert Rows.fixed d c dbs (map (conv rd) bs) = Ok rows ->
  Rows.insert Rows.fixed d c dbs (map (conv rd) (map (restrict (push_keep rd d)) bs)) = Ok rows.
Proof.
  intros M W L H. unfold push_keep. rewrite <- conv_node_filter.
  apply PushdownP.restricted_same_rows; [exact M|exact W| |exact H].
  intros b t l Hb Ht Hl. apply in_map_iff in Hb. destruct Hb as (cb & <- & Hcb). simpl in Ht.
  apply in_map_iff in Ht. destruct Ht as (ct & <- & Hct). simpl in Hl.
  apply in_map_iff in Hl. destruct Hl as (lg & <- & Hlg). eapply L; eauto.
Qed.

(* the builder on the view is a row function of the theorem's form *)
Lemma c11_rowsf_is_view rd d c dbs keep :
  c11_rowsf rd d c dbs keep = CR.view_rowsf keep (BridgeRowsTask.rowsf_of (conv rd) d c dbs).
Proof. reflexivity. Qed.
End V.
