(* C10: safety of the (repaired) decoder on ARBITRARY input: no panic, fuel
   never exhausted, state invariant (rows of ncols cells, n <= len(collection)),
   cells inside the input, iteration / row / collection bounds.  One induction
   over the type tree ([scan_post]) carries all of them. *)
From Coq Require Import List NArith ZArith Bool Lia ZifyN ZifyNat ZifyBool.
From Shovel Require Import Base.Outcome Model.Hex Model.Bint Model.AbiType Model.AbiScan.
Import ListNotations.
Open Scope N_scope.
Ltac Zify.zify_post_hook ::= Z.div_mod_to_equations.
Arguments N.add : simpl never.
Arguments N.sub : simpl never.
Arguments N.mul : simpl never.
Arguments N.div : simpl never.
Arguments N.ltb : simpl never.
Arguments N.leb : simpl never.
Arguments N.eqb : simpl never.

(* ---- lists ---- *)
Lemma set_nth_length {A} n (x : A) l : length (set_nth n x l) = length l.
Proof.
  revert n. induction l as [|h t IH]; intros [|n]; cbn; auto.
Qed.

Lemma set_nth_Forall {A} (P : A -> Prop) n x l : Forall P l -> P x -> Forall P (set_nth n x l).
Proof.
  intros Hl Hx. revert n. induction Hl as [|h t Hh Ht IH]; intros [|n]; cbn; auto.
Qed.

Lemma firstn_set_nth_ge {A} n m (x : A) l : (n <= m)%nat -> firstn n (set_nth m x l) = firstn n l.
Proof.
  revert m l. induction n as [|n IH]; intros m l H; [reflexivity|].
  destruct l as [|h t]; destruct m as [|m]; cbn; try lia; try reflexivity.
  f_equal. apply IH. lia.
Qed.

Lemma firstn_set_nth_lt {A} n m (x : A) l : (m < n)%nat -> firstn n (set_nth m x l) = set_nth m x (firstn n l).
Proof.
  revert m l. induction n as [|n IH]; intros m l H; [lia|].
  destruct l as [|h t]; destruct m as [|m]; cbn; try reflexivity.
  f_equal. apply IH. lia.
Qed.

Lemma firstn_S_snoc {A} n (l : list A) d : (n < length l)%nat -> firstn (S n) l = firstn n l ++ [nth n l d].
Proof.
  revert l. induction n as [|n IH]; intros [|h t] H; cbn in *; try lia; [reflexivity|].
  f_equal. apply IH. lia.
Qed.

Lemma nth_set_nth_eq {A} n (x d : A) l : (n < length l)%nat -> nth n (set_nth n x l) d = x.
Proof.
  revert l. induction n as [|n IH]; intros [|h t] H; cbn in *; try lia; [reflexivity|].
  apply IH. lia.
Qed.

Lemma nth_error_Forall {A} (P : A -> Prop) l n x : Forall P l -> nth_error l n = Some x -> P x.
Proof.
  intros HF Hn. apply nth_error_In in Hn. rewrite Forall_forall in HF. auto.
Qed.

Lemma nth_error_firstn_lt {A} (l : list A) n i : (i < n)%nat -> nth_error (firstn n l) i = nth_error l i.
Proof.
  revert l i. induction n as [|n IH]; intros l i H; [lia|].
  destruct l as [|h t]; destruct i as [|i]; cbn; try reflexivity. apply IH. lia.
Qed.

Section P.
Variable D : bytes.
Variable ncols : nat.
Notation L := (L D).

Definition cell_ok (c : cell) : Prop := match c with Some (o, l) => o + l <= L /\ 0 < l | None => True end.
Definition cells_ok (r : row) : Prop := Forall cell_ok r.

(* the invariant between any two steps of a decoder *)
Definition Inv (s : st) : Prop :=
  length (single s) = ncols /\
  Forall (fun r => length r = ncols) (coll s) /\
  (nrows s <= length (coll s))%nat /\
  cells_ok (single s) /\
  Forall cells_ok (rows_out s).

Definition cur_ok (s : st) (c : cur) : Prop :=
  match c with CSingle => True | CRow i => (i < nrows s)%nat end.

(* what a step that started in [s] and may use up to [B] loop iterations returns *)
Definition post (s : st) (B : N) (r : sres) : Prop :=
  match r with
  | SOk s' | SErr s' =>
      Inv s' /\ (nrows s <= nrows s')%nat /\ iters s <= iters s' /\ iters s' <= iters s + B /\
      N.of_nat (nrows s') + iters s <= N.of_nat (nrows s) + iters s' /\
      (length (coll s') <= Nat.max (length (coll s)) (S (nrows s')))%nat /\
      (length (coll s) <= length (coll s'))%nat
  | SFuel | SPanic => False
  end.

Lemma post_refl s B : Inv s -> post s B (SOk s) /\ post s B (SErr s).
Proof. intros H. unfold post. split; (split; [exact H|]); repeat split; lia. Qed.

Lemma post_trans s s1 B1 B2 r :
  post s B1 (SOk s1) -> post s1 B2 r -> post s (B1 + B2) r.
Proof.
  unfold post. intros (I1 & a1 & b1 & c1 & d1 & e1 & f1).
  destruct r as [s2|s2| |]; auto; intros (I2 & a2 & b2 & c2 & d2 & e2 & f2); (split; [exact I2|]); repeat split; lia.
Qed.

Lemma post_weaken s B B' r : B <= B' -> post s B r -> post s B' r.
Proof.
  unfold post. intros HB. destruct r as [s2|s2| |]; auto; intros (I2 & a2 & b2 & c2 & d2 & e2 & f2);
    (split; [exact I2|]); repeat split; lia.
Qed.

Lemma post_err s B s1 : post s B (SOk s1) -> post s B (SErr s1).
Proof. exact (fun H => H). Qed.

Lemma cur_ok_mono s s' c : cur_ok s c -> (nrows s <= nrows s')%nat -> cur_ok s' c.
Proof. destruct c; cbn; auto; lia. Qed.

Lemma blank_length : length (blank ncols) = ncols.
Proof. apply repeat_length. Qed.
Lemma blank_ok : cells_ok (blank ncols).
Proof. unfold cells_ok, blank. apply Forall_forall. intros x Hx. apply repeat_spec in Hx. subst. exact I. Qed.

(* ---- put ---- *)
Lemma put_post s c p v B :
  Inv s -> cur_ok s c -> (p < ncols)%nat -> cell_ok (Some v) -> post s B (put s c p v).
Proof.
  intros (I1 & I2 & I3 & I4 & I5) Hc Hp Hv. unfold put. destruct c as [|i].
  - rewrite I1. replace (Nat.ltb p ncols) with true by lia.
    unfold post, with_single, Inv, rows_out; cbn. repeat split; auto; try lia.
    + rewrite set_nth_length. exact I1.
    + apply set_nth_Forall; assumption.
  - cbn in Hc.
    destruct (nth_error (coll s) i) as [r|] eqn:En.
    2:{ apply nth_error_None in En. lia. }
    assert (Hr : length r = ncols) by exact (nth_error_Forall _ _ _ _ I2 En).
    rewrite Hr. replace (Nat.ltb p ncols) with true by lia.
    unfold post, with_coll, Inv, rows_out in *; cbn. rewrite set_nth_length. repeat split; auto; try lia.
    + apply set_nth_Forall; [assumption|]. rewrite set_nth_length. exact Hr.
    + rewrite firstn_set_nth_lt by lia. apply set_nth_Forall; [assumption|].
      apply set_nth_Forall; [|assumption].
      eapply (nth_error_Forall _ (firstn (nrows s) (coll s)) i); [exact I5|].
      rewrite nth_error_firstn_lt by lia. exact En.
Qed.

(* ---- GetRow ---- *)
Lemma get_row_post s :
  Inv s ->
  exists s', get_row ncols s = Some (s', CRow (nrows s)) /\ Inv s' /\ nrows s' = S (nrows s) /\
             iters s' = iters s /\ single s' = single s /\
             (length (coll s') <= Nat.max (length (coll s)) (S (nrows s')))%nat /\
             (length (coll s) <= length (coll s'))%nat /\
             rows_out s' = rows_out s ++ [blank ncols].
Proof.
  intros (I1 & I2 & I3 & I4 & I5). unfold get_row.
  set (c1 := if Nat.leb (length (coll s)) (S (nrows s)) then coll s ++ [blank ncols] else coll s).
  assert (Hl : (nrows s < length c1)%nat).
  { unfold c1. destruct (Nat.leb (length (coll s)) (S (nrows s))) eqn:E.
    - rewrite app_length. cbn. lia.
    - apply Nat.leb_gt in E. lia. }
  assert (Hc1 : Forall (fun r => length r = ncols) c1).
  { unfold c1. destruct (Nat.leb _ _); [|assumption]. apply Forall_app. split; [assumption|].
    constructor; [apply blank_length|constructor]. }
  assert (Hf : firstn (nrows s) c1 = firstn (nrows s) (coll s)).
  { unfold c1. destruct (Nat.leb _ _); [|reflexivity]. rewrite firstn_app.
    replace (nrows s - length (coll s))%nat with O by lia. cbn. apply app_nil_r. }
  replace (Nat.ltb (nrows s) (length c1)) with true by lia.
  eexists. split; [reflexivity|].
  assert (Hro : rows_out (mkst (single s) (set_nth (nrows s) (blank ncols) c1) (S (nrows s)) (iters s))
                = rows_out s ++ [blank ncols]).
  { unfold rows_out; cbn [nrows coll]. rewrite (firstn_S_snoc _ _ (blank ncols)) by (rewrite set_nth_length; lia).
    rewrite firstn_set_nth_ge by lia. rewrite Hf. f_equal. f_equal. apply nth_set_nth_eq. lia. }
  unfold Inv; cbn [single coll nrows iters]. rewrite set_nth_length. repeat split; auto; try lia.
  - apply set_nth_Forall; [assumption|apply blank_length].
  - rewrite Hro. apply Forall_app. split; [assumption|]. constructor; [apply blank_ok|constructor].
  - unfold c1. destruct (Nat.leb (length (coll s)) (S (nrows s))) eqn:E; [rewrite app_length; cbn|]; lia.
  - unfold c1. destruct (Nat.leb _ _); [rewrite app_length; cbn|]; lia.
Qed.

Lemma tick_inv s : Inv s -> Inv (tick s).
Proof. intros H. exact H. Qed.

(* ---- slices ---- *)
Lemma sfrom_ok o a : a <= slen D o -> sfrom D o a = Ok (o + a).
Proof. intros H. unfold sfrom. replace (slen D o <? a) with false by lia. reflexivity. Qed.
Lemma srange_ok o a b : a <= b -> b <= slen D o -> srange D o a b = Ok (o + a, b - a).
Proof.
  intros H1 H2. unfold srange. replace (b <? a) with false by lia.
  replace (slen D o <? b) with false by lia. reflexivity.
Qed.
Lemma word_at_ok o a : a + 32 <= slen D o -> exists w, word_at D o a = Ok w.
Proof. intros H. unfold word_at. replace (slen D o <? a + 32) with false by lia. eauto. Qed.

Lemma size_static_select e : has_select e = true -> is_static e = true -> 32 <= size e.
Proof.
  induction e as [s|s|k e IH|fs IH] using aty_ind'; cbn [has_select is_static size]; intros Hs Hst.
  - lia.
  - discriminate.
  - destruct (k =? 0) eqn:E; [discriminate|]. specialize (IH Hs Hst). nia.
  - induction IH as [|f fs Hf _ IH2]; cbn in *; [discriminate|].
    apply andb_prop in Hst. destruct Hst as [Hst1 Hst2].
    destruct (has_select f) eqn:Ef; cbn in Hs.
    + specialize (Hf eq_refl Hst1). lia.
    + specialize (IH2 Hs Hst2). lia.
Qed.

Lemma step_ge e : has_select e = true -> 32 <= step e.
Proof.
  intros H. unfold step. destruct (is_static e) eqn:E; [apply size_static_select; assumption|lia].
Qed.

(* number of loop entries still possible when the cursor is at [pos] *)
Definition entries (o pos : N) : N := if pos <=? slen D o then (slen D o - pos) / 32 + 2 else 1.

Section Loop.
  Variable e : aty.
  Variable scan_e : st -> cur -> N -> sres.
  Variable Be : N.
  Hypothesis He : forall s c o, Inv s -> cur_ok s c -> o <= L -> post s Be (scan_e s c o).
  Hypothesis Hsel : has_select e = true.

  Lemma arr_body_post o c s0 pos start :
    Inv s0 -> cur_ok s0 c -> o <= L -> start <= slen D o ->
    post s0 (1 + Be) (arr_body D ncols e scan_e o c (tick s0) pos start) /\
    (forall s1, arr_body D ncols e scan_e o c (tick s0) pos start = SOk s1 ->
                pos + (if is_static e then 0 else 32) <= slen D o).
  Proof.
    intros HI Hc Ho Hst. unfold arr_body.
    assert (Ht : post s0 1 (SOk (tick s0))).
    { unfold post. split; [exact (tick_inv _ HI)|]. unfold tick; cbn. repeat split; lia. }
    assert (Hsc : exists s1 c1, (if is_arr e then Some (tick s0, c) else get_row ncols (tick s0)) = Some (s1, c1)
                                /\ post s0 1 (SOk s1) /\ cur_ok s1 c1).
    { destruct (is_arr e).
      - exists (tick s0), c. split; [reflexivity|]. split; [exact Ht|]. destruct c; cbn in *; auto.
      - destruct (get_row_post (tick s0) (tick_inv _ HI)) as (s1 & Hg & I1 & Hn & Hi & _ & Hl & Hl2 & _).
        exists s1, (CRow (nrows (tick s0))). split; [exact Hg|]. split.
        + unfold post. split; [exact I1|]. cbn in *. repeat split; lia.
        + cbn in *. lia. }
    destruct Hsc as (s1 & c1 & -> & Hp1 & Hc1).
    assert (HI1 : Inv s1) by (destruct Hp1 as (a & _); exact a).
    destruct (is_static e).
    - destruct (slen D o <? pos) eqn:E1.
      + split; [|discriminate]. eapply post_weaken; [|exact Hp1]. lia.
      + rewrite sfrom_ok by lia. cbn [lift]. split.
        * eapply post_trans; [exact Hp1|]. apply He; auto. unfold slen in *. lia.
        * intros _ _. lia.
    - destruct (slen D o <? pos + 32) eqn:E1.
      + split; [|discriminate]. eapply post_weaken; [|exact Hp1]. lia.
      + destruct (word_at_ok o pos) as [w ->]; [lia|]. cbn [lift].
        destruct (slen D o - start <? w) eqn:E2.
        * split; [|discriminate]. eapply post_weaken; [|exact Hp1]. lia.
        * rewrite sfrom_ok by lia. cbn [lift]. split.
          -- eapply post_trans; [exact Hp1|]. apply He; auto. unfold slen in *. lia.
          -- intros _ _. lia.
  Qed.

  Lemma arr_loop_post o c start : forall fuel i len pos s0,
    Inv s0 -> cur_ok s0 c -> o <= L -> start <= slen D o ->
    entries o pos <= N.of_nat fuel ->
    post s0 ((len - i) * (1 + Be)) (arr_loop D ncols e scan_e o c fuel i len pos start s0).
  Proof.
    induction fuel as [|fuel IH]; intros i len pos s0 HI Hc Ho Hst Hf.
    - exfalso. unfold entries in Hf. destruct (pos <=? slen D o); lia.
    - cbn [arr_loop]. destruct (len <=? i) eqn:El.
      + apply post_refl. exact HI.
      + destruct (arr_body_post o c s0 pos start HI Hc Ho Hst) as [Hb Hpos].
        destruct (arr_body D ncols e scan_e o c (tick s0) pos start) as [s1|s1| |] eqn:Eb.
        * replace ((len - i) * (1 + Be)) with ((1 + Be) + (len - (i + 1)) * (1 + Be)) by nia.
          eapply post_trans; [exact Hb|].
          assert (Hb' := Hb). destruct Hb' as (I1 & Hn & _).
          apply IH; auto.
          -- eapply cur_ok_mono; eassumption.
          -- specialize (Hpos s1 eq_refl). pose proof (step_ge e Hsel) as Hs.
             unfold entries in *. unfold step in *.
             destruct (is_static e);
               (replace (pos <=? slen D o) with true in Hf by lia;
                destruct (pos + _ <=? slen D o) eqn:E3; lia).
        * eapply post_weaken; [|exact Hb]. nia.
        * exact Hb.
        * exact Hb.
  Qed.
End Loop.

Lemma cost_tuple_cons f fs : cost (TTuple (f :: fs)) L = cost f L + cost (TTuple fs) L.
Proof. reflexivity. Qed.

Lemma sel_ok_arr k e : sel_ok ncols (TArr k e) -> sel_ok ncols e.
Proof. exact (fun H => H). Qed.
Lemma sel_ok_tuple fs : sel_ok ncols (TTuple fs) -> Forall (sel_ok ncols) fs.
Proof.
  unfold sel_ok. cbn [selected]. induction fs as [|f fs IH]; intros H; [constructor|].
  cbn in H. apply Forall_app in H. destruct H as [H1 H2]. constructor; auto.
Qed.

Lemma entries_init o pos : pos <= 32 -> o <= L -> entries o pos <= N.of_nat (fuel0 D).
Proof.
  intros Hp Ho. unfold entries, fuel0, slen, AbiScan.L in *. destruct (pos <=? _); lia.
Qed.

(* the one induction: every type tree, every state, every current row, every offset *)
Lemma scan_post t : sel_ok ncols t ->
  forall s c o, Inv s -> cur_ok s c -> o <= L -> post s (cost t L) (scan D ncols t s c o).
Proof.
  induction t as [sel|sel|k e IH|fs IH] using aty_ind'; intros Hsel s c o HI Hc Ho.
  - cbn [scan cost]. destruct (slen D o <? 32) eqn:E; [apply post_refl; assumption|].
    destruct sel as [p|]; [|apply post_refl; assumption].
    rewrite srange_ok by lia. cbn [lift].
    apply put_post; auto.
    + unfold sel_ok in Hsel. cbn in Hsel. inversion Hsel; assumption.
    + cbn. unfold slen in *. split; lia.
  - cbn [scan cost]. destruct (slen D o <? 32) eqn:E; [apply post_refl; assumption|].
    destruct (word_at_ok o 0) as [w ->]; [lia|]. cbn [lift].
    destruct (w =? 0) eqn:Ew; [apply post_refl; assumption|].
    destruct (slen D o - 32 <? w) eqn:E2; [apply post_refl; assumption|].
    destruct sel as [p|]; [|apply post_refl; assumption].
    rewrite srange_ok by lia. cbn [lift].
    apply put_post; auto.
    + unfold sel_ok in Hsel. cbn in Hsel. inversion Hsel; assumption.
    + cbn. unfold slen in *. split; lia.
  - cbn [scan cost]. destruct (has_select e) eqn:Es; cbn [negb]; [|apply post_refl; assumption].
    specialize (IH (sel_ok_arr _ _ Hsel)).
    destruct (k =? 0) eqn:Ek.
    + destruct (slen D o <? 32) eqn:E; [apply post_refl; assumption|].
      destruct (word_at_ok o 0) as [w ->]; [lia|]. cbn [lift].
      destruct ((slen D o - 32) / 32 <? w) eqn:E2; [apply post_refl; assumption|].
      eapply post_weaken; [|apply (arr_loop_post e (scan D ncols e) (cost e L) IH Es o c 32 (fuel0 D) 0 w 32 s); auto].
      * unfold slen, AbiScan.L in *. nia.
      * lia.
      * apply entries_init; lia.
    + eapply post_weaken; [|apply (arr_loop_post e (scan D ncols e) (cost e L) IH Es o c 0 (fuel0 D) 0 k 0 s); auto].
      * nia.
      * lia.
      * apply entries_init; lia.
  - cbn [scan]. destruct (existsb has_select fs); cbn [negb]; [|apply post_refl; assumption].
    apply sel_ok_tuple in Hsel.
    match goal with |- post _ _ (?F fs 0 s) =>
      cut (forall pos s0, Inv s0 -> cur_ok s0 c -> post s0 (cost (TTuple fs) L) (F fs pos s0));
        [intros HH; apply HH; assumption|] end.
    clear s HI Hc.
    induction IH as [|f fs Hf _ IH2]; intros pos s0 HI Hc; [apply post_refl; assumption|].
    inversion Hsel as [|? ? Hs1 Hs2]; subst. specialize (IH2 Hs2). specialize (Hf Hs1).
    rewrite cost_tuple_cons.
    destruct (is_static f).
    + destruct (slen D o <? pos) eqn:E1; [apply post_refl; assumption|].
      rewrite sfrom_ok by lia. cbn [lift].
      assert (Hp : post s0 (cost f L) (scan D ncols f s0 c (o + pos))).
      { apply Hf; auto. unfold slen in *. lia. }
      destruct (scan D ncols f s0 c (o + pos)) as [s1|s1| |] eqn:Es.
      * eapply post_trans; [exact Hp|]. assert (Hp' := Hp). destruct Hp' as (I1 & Hn & _).
        apply IH2; auto. eapply cur_ok_mono; eassumption.
      * eapply post_weaken; [|exact Hp]. lia.
      * exact Hp.
      * exact Hp.
    + destruct (slen D o <? pos + 32) eqn:E1; [apply post_refl; assumption|].
      destruct (word_at_ok o pos) as [w ->]; [lia|]. cbn [lift].
      destruct (slen D o <? w) eqn:E2; [apply post_refl; assumption|].
      rewrite sfrom_ok by lia. cbn [lift].
      assert (Hp : post s0 (cost f L) (scan D ncols f s0 c (o + w))).
      { apply Hf; auto. unfold slen in *. lia. }
      destruct (scan D ncols f s0 c (o + w)) as [s1|s1| |] eqn:Es.
      * eapply post_trans; [exact Hp|]. assert (Hp' := Hp). destruct Hp' as (I1 & Hn & _).
        apply IH2; auto. eapply cur_ok_mono; eassumption.
      * eapply post_weaken; [|exact Hp]. lia.
      * exact Hp.
      * exact Hp.
Qed.

(* ---- Result.Scan ---- *)
Lemma overlay_length sg r : length (overlay sg r) = length r.
Proof.
  revert r. induction sg as [|x sg IH]; intros [|y r]; cbn; auto.
Qed.

Lemma overlay_ok sg r : cells_ok sg -> cells_ok r -> cells_ok (overlay sg r).
Proof.
  intros Hs. revert r. induction Hs as [|x sg Hx Hsg IH]; intros [|y r] Hr; cbn; auto.
  inversion Hr as [|? ? Hy Hr']; subst. constructor; [|apply IH; assumption].
  destruct x as [[o l]|]; [|assumption]. destruct (0 <? l); assumption.
Qed.

Lemma map_first_length {A} n (f : A -> A) l : length (map_first n f l) = length l.
Proof. revert l. induction n as [|n IH]; intros [|x l]; cbn; auto. Qed.

Lemma map_first_Forall {A} (P : A -> Prop) n (f : A -> A) l :
  (forall x, P x -> P (f x)) -> Forall P l -> Forall P (map_first n f l).
Proof.
  intros Hf Hl. revert n. induction Hl as [|x l Hx Hl IH]; intros [|n]; cbn; auto.
Qed.

Lemma firstn_map_first {A} n (f : A -> A) l : firstn n (map_first n f l) = map f (firstn n l).
Proof. revert l. induction n as [|n IH]; intros [|x l]; cbn; auto. f_equal. apply IH. Qed.

Definition reset (s : st) : st := mkst (map (fun _ => None) (single s)) (coll s) 0 0.

Lemma reset_inv s : st_ok ncols s -> Inv (reset s).
Proof.
  intros (H1 & H2 & H3). unfold Inv, reset, rows_out; cbn. repeat split; auto; try lia.
  - rewrite map_length. exact H1.
  - apply Forall_forall. intros x Hx. apply in_map_iff in Hx. destruct Hx as (y & <- & _). exact I.
Qed.

Lemma Inv_st_ok s : Inv s -> st_ok ncols s.
Proof. intros (H1 & H2 & H3 & _). repeat split; assumption. Qed.

(* everything C10 asks of one call, for every type, every previous state of the
   decoder and every input *)
Lemma result_scan_safe t s : sel_ok ncols t -> st_ok ncols s ->
  match result_scan D ncols t s with
  | SOk s' =>
      st_ok ncols s' /\ Forall cells_ok (rows_out s') /\
      iters s' <= cost t L /\ N.of_nat (nrows s') <= N.max 1 (cost t L) /\ (1 <= nrows s')%nat /\
      (length (coll s') <= Nat.max (length (coll s)) (S (nrows s')))%nat
  | SErr s' =>
      st_ok ncols s' /\ iters s' <= cost t L /\ N.of_nat (nrows s') <= cost t L /\
      (length (coll s') <= Nat.max (length (coll s)) (S (nrows s')))%nat
  | SFuel | SPanic => False
  end.
Proof.
  intros Hsel Hs. unfold result_scan. fold (reset s).
  pose proof (reset_inv s Hs) as HI.
  assert (Ho : 0 <= L) by lia.
  pose proof (scan_post t Hsel (reset s) CSingle 0 HI I Ho) as Hp.
  destruct (scan D ncols t (reset s) CSingle 0) as [s1|s1| |]; try exact Hp.
  - destruct Hp as (I1 & Hn & Hi0 & Hi & Hr & Hl & Hl2). cbn in Hi0, Hi, Hr, Hl, Hl2, Hn.
    assert (Hs2 : exists s2, (if Nat.eqb (nrows s1) 0 then option_map fst (get_row ncols s1) else Some s1) = Some s2
                  /\ Inv s2 /\ iters s2 = iters s1 /\ (1 <= nrows s2)%nat /\
                  N.of_nat (nrows s2) <= N.max 1 (cost t L) /\
                  (length (coll s2) <= Nat.max (length (coll s)) (S (nrows s2)))%nat).
    { destruct (Nat.eqb (nrows s1) 0) eqn:E.
      - apply Nat.eqb_eq in E.
        destruct (get_row_post s1 I1) as (s2 & Hg & I2 & Hn2 & Hi2 & _ & Hl3 & _).
        exists s2. rewrite Hg. cbn [option_map fst]. split; [reflexivity|]. split; [exact I2|]. repeat split; lia.
      - apply Nat.eqb_neq in E. exists s1. split; [reflexivity|]. split; [exact I1|]. repeat split; lia. }
    destruct Hs2 as (s2 & -> & I2 & Hi2 & Hn2 & Hc2 & Hl3).
    destruct I2 as (J1 & J2 & J3 & J4 & J5).
    unfold st_ok, with_coll, rows_out; cbn. rewrite map_first_length. repeat split; auto; try lia.
    + apply map_first_Forall; [|assumption]. intros x Hx. rewrite overlay_length. exact Hx.
    + rewrite firstn_map_first. apply Forall_forall. intros x Hx. apply in_map_iff in Hx.
      destruct Hx as (y & <- & Hy). apply overlay_ok; [assumption|].
      unfold rows_out in J5. rewrite Forall_forall in J5. apply J5. exact Hy.
  - destruct Hp as (I1 & Hn & Hi0 & Hi & Hr & Hl & Hl2). cbn in Hi0, Hi, Hr, Hl, Hl2, Hn.
    split; [apply Inv_st_ok; assumption|]. repeat split; lia.
Qed.
End P.

(* ---- the statements of C10, for every input, type and decoder state ---- *)
Lemma scan_no_panic_l D ncols t s : sel_ok ncols t -> st_ok ncols s -> result_scan D ncols t s <> SPanic.
Proof.
  intros H1 H2 E. pose proof (result_scan_safe D ncols t s H1 H2) as H. rewrite E in H. exact H.
Qed.

Lemma scan_total_l D ncols t s : sel_ok ncols t -> st_ok ncols s -> result_scan D ncols t s <> SFuel.
Proof.
  intros H1 H2 E. pose proof (result_scan_safe D ncols t s H1 H2) as H. rewrite E in H. exact H.
Qed.

Lemma scan_cells_in_bounds_l D ncols t s s' : sel_ok ncols t -> st_ok ncols s ->
  result_scan D ncols t s = SOk s' ->
  forall r o l, In r (rows_out s') -> In (Some (o, l)) r -> o + l <= N.of_nat (length D) /\ 0 < l.
Proof.
  intros H1 H2 E r o l Hr Hc. pose proof (result_scan_safe D ncols t s H1 H2) as H. rewrite E in H.
  destruct H as (_ & Hcells & _). rewrite Forall_forall in Hcells. specialize (Hcells r Hr).
  unfold cells_ok in Hcells. rewrite Forall_forall in Hcells. exact (Hcells _ Hc).
Qed.

Lemma scan_cost_bound_l D ncols t s s' : sel_ok ncols t -> st_ok ncols s ->
  result_scan D ncols t s = SOk s' \/ result_scan D ncols t s = SErr s' ->
  iters s' <= cost t (N.of_nat (length D)) /\
  N.of_nat (nrows s') <= N.max 1 (cost t (N.of_nat (length D))) /\
  (length (coll s') <= Nat.max (length (coll s)) (S (nrows s')))%nat.
Proof.
  intros H1 H2 E. pose proof (result_scan_safe D ncols t s H1 H2) as H. unfold L in H.
  destruct E as [E|E]; rewrite E in H.
  - destruct H as (_ & _ & a & b & _ & c). repeat split; assumption.
  - destruct H as (_ & a & b & c). repeat split; try assumption. lia.
Qed.

Lemma scan_state_reusable_l D ncols t s s' : sel_ok ncols t -> st_ok ncols s ->
  result_scan D ncols t s = SOk s' \/ result_scan D ncols t s = SErr s' -> st_ok ncols s'.
Proof.
  intros H1 H2 E. pose proof (result_scan_safe D ncols t s H1 H2) as H.
  destruct E as [E|E]; rewrite E in H; destruct H as (a & _); exact a.
Qed.

Lemma new_result_ok ncols : st_ok ncols (new_result ncols).
Proof. unfold st_ok, new_result; cbn. rewrite repeat_length. repeat split; [constructor|lia]. Qed.

Lemma after_scans_ok ncols t inputs : sel_ok ncols t -> forall s, st_ok ncols s -> st_ok ncols (after_scans ncols t s inputs).
Proof.
  intros Hsel. induction inputs as [|d rest IH]; intros s Hs; [exact Hs|].
  cbn [after_scans]. apply IH.
  destruct (result_scan d ncols t s) as [s'|s'| |] eqn:E; try exact Hs.
  - apply (scan_state_reusable_l d ncols t s s' Hsel Hs). left. exact E.
  - apply (scan_state_reusable_l d ncols t s s' Hsel Hs). right. exact E.
Qed.
