(* C07 — the property statements assembled from Proofs/ClientP.v, the
   refutation of the same statements for the client as found (legacy), and
   concrete witnesses. *)
From Coq Require Import List Arith NArith Bool Lia.
From Shovel Require Import Base.Outcome Model.Client Model.ClientSpec Proofs.ClientP.
Import ListNotations.
Open Scope N_scope.

(* what the fetched base blocks are, said without reference to the client *)
Definition base_ok (p : plan) (s l : N) (w : world) (base : list block) : Prop :=
  (fetches p = true -> blocks_reply_ok s l (block_reply p w) base)
  /\ (fetches p = false -> base = numbers s l).

(* The full statement of C07 about a client [g] *)
Definition C07_full (g : plan -> N -> N -> world -> outcome (list block)) : Prop :=
  forall p s l w,
    g p s l w <> Panic
    /\ (corrupted p s l w -> g p s l w = Err)
    /\ forall bs, g p s l w = Ok bs ->
         map b_num bs = seqN s (N.to_nat l)
         /\ (fetches p = true -> linked bs /\ forall b, In b bs -> b_hash b <> [])
         /\ exists base, base_ok p s l w base /\ attach_faithful p s l w base bs.

Lemma get_faithful : forall p s l w bs, get p s l w = Ok bs ->
  exists base, base_ok p s l w base /\ attach_faithful p s l w base bs.
Proof.
  intros p s l w bs H. destruct (get_ok_structure _ _ _ _ _ H) as [base [Hf [_ [_ [mid [_ [S1 S2]]]]]]].
  exists base. split; [|exists mid; auto]. destruct (fetch_spec _ _ _ _ _ Hf) as [_ [_ [F1 F2]]].
  split; [intros Hfe; apply F1; exact Hfe | exact F2].
Qed.

Lemma C07_repaired : C07_full get.
Proof.
  intros p s l w. split; [apply get_no_panic|]. split; [apply get_rejects|].
  intros bs H. split; [eapply get_numbers; eauto|]. split; [intros Hf; eapply get_linked; eauto|].
  eapply get_faithful; eauto.
Qed.

(* ---- transport *)
Lemma transport : forall p s l w,
  (fetches p = true /\ block_reply p w = RFail)
  \/ (attach_kind p = AReceipts /\ w_receipts w = RFail)
  \/ (attach_kind p = ALogs /\ w_logs w = RFail)
  \/ (use_traces p = true /\ exists i, (i < N.to_nat l)%nat /\ nth_error (w_traces w) i = Some RFail) ->
  get p s l w = Err.
Proof.
  intros p s l w [[H1 H2]|[[H1 H2]|[[H1 H2]|[H1 [i [H2 H3]]]]]]; apply get_rejects.
  - apply CBlkFail; assumption.
  - apply CRcFail; assumption.
  - apply CLgFail; assumption.
  - eapply CTrFail; eauto.
Qed.

(* ---- Hash / Latest *)
Lemma head_total : forall r,
  latest r <> Panic /\ hash_of r <> Panic
  /\ (forall h, r = RBody h -> hr_err h = true \/ hr_res h = None -> latest r = Err /\ hash_of r = Err)
  /\ (r = RFail -> latest r = Err /\ hash_of r = Err)
  /\ (forall h n hs, r = RBody h -> hr_err h = false -> hr_res h = Some (n, hs) -> latest r = Ok (n, hs) /\ hash_of r = Ok hs).
Proof.
  intros r. unfold hash_of, latest, head_fx. simpl. split; [|split; [|split; [|split]]].
  - destruct r as [|h]; [discriminate|]. destruct (hr_err h); [discriminate|]. destruct (hr_res h); discriminate.
  - destruct r as [|h]; [discriminate|]. destruct (hr_err h); [discriminate|]. destruct (hr_res h); discriminate.
  - intros h -> [H|H]; rewrite H; [auto|]. destruct (hr_err h); auto.
  - intros ->. auto.
  - intros h n hs -> H1 H2. rewrite H1, H2. auto.
Qed.

(* ---- concrete replies: an honest world is accepted (the hypotheses are satisfiable) ... *)
Definition hb (n : N) (h p : N) : block := mkBlock n [h] [p] [n] [].
Definition pl_h : plan := mkPlan true false false false false.
Definition pl_r : plan := mkPlan false false true false false.
Definition pl_hl : plan := mkPlan true false false true false.
Definition pl_l : plan := mkPlan false false false true false.
Definition pl_t : plan := mkPlan false false false false true.
Definition pl_hr : plan := mkPlan true false true false false.
Definition w0 : world := mkWorld RFail RFail RFail RFail [].

Definition rc (bn h ti : N) : rcpt := mkRcpt bn [h] ti [ti + 100] [2] [1; 21000] [mkLog ti [7]].
Definition honest_hr : world :=
  mkWorld RFail
    (RBody [mkBelem false (Some (hb 5 51 50)); mkBelem false (Some (hb 6 61 51))])
    (RBody [mkRelem false (Some [rc 5 51 0; rc 5 51 1]); mkRelem false (Some [])]) RFail [].

Lemma honest_accepted :
  get pl_hr 5 2 honest_hr =
  Ok [mkBlock 5 [51] [50] [5]
        [mkTx 0 [100] [2] [] [1; 21000] [mkLog 0 [7]] []; mkTx 1 [101] [2] [] [1; 21000] [mkLog 1 [7]] []];
      mkBlock 6 [61] [51] [6] []].
Proof. vm_compute. reflexivity. Qed.

Ltac side := first [reflexivity | vm_compute; lia | vm_compute; discriminate | left; reflexivity | vm_compute; intros [? ?]; lia].

(* ... and, for the client AS FOUND, one accepted (or crashing) corrupted world per defect class *)
(* interior block renumbered, hashes still link: validate looked at first and last only *)
Definition w_renumber : world :=
  mkWorld RFail (RBody [mkBelem false (Some (hb 1 11 10)); mkBelem false (Some (hb 7 21 11)); mkBelem false (Some (hb 3 31 21))])
          RFail RFail [].
Lemma legacy_accepts_renumbered : corrupted pl_h 1 3 w_renumber /\ is_ok (legacy_get pl_h 1 3 w_renumber) = true
                                  /\ get pl_h 1 3 w_renumber = Err.
Proof.
  split; [|split; vm_compute; reflexivity].
  eapply (CBlkNumber pl_h 1 3 w_renumber _ 1%nat); side.
Qed.

(* "result":null for block 0 *)
Definition w_null0 : world := mkWorld RFail (RBody [mkBelem false None]) RFail RFail [].
Lemma legacy_accepts_null_block : corrupted pl_h 0 1 w_null0 /\ legacy_get pl_h 0 1 w_null0 = Ok [zero_block]
                                  /\ get pl_h 0 1 w_null0 = Err.
Proof.
  split; [|split; vm_compute; reflexivity].
  eapply (CBlkNull pl_h 0 1 w_null0 _ 0%nat); side.
Qed.

(* the receipts of block 5 delivered for block 5 and again for block 6 *)
Definition w_rcpt_dup : world :=
  mkWorld RFail RFail (RBody [mkRelem false (Some [rc 5 51 0]); mkRelem false (Some [rc 5 51 0])]) RFail [].
Lemma legacy_accepts_misplaced_receipts : corrupted pl_r 5 2 w_rcpt_dup /\ is_ok (legacy_get pl_r 5 2 w_rcpt_dup) = true
                                          /\ get pl_r 5 2 w_rcpt_dup = Err.
Proof.
  split; [|split; vm_compute; reflexivity].
  eapply (CRcNumber pl_r 5 2 w_rcpt_dup _ 1%nat); side.
Qed.

(* null receipts result: the block is returned without receipts *)
Definition w_rcpt_null : world := mkWorld RFail RFail (RBody [mkRelem false None]) RFail [].
Lemma legacy_accepts_null_receipts : corrupted pl_r 5 1 w_rcpt_null /\ is_ok (legacy_get pl_r 5 1 w_rcpt_null) = true
                                     /\ get pl_r 5 1 w_rcpt_null = Err.
Proof.
  split; [|split; vm_compute; reflexivity].
  eapply (CRcNull pl_r 5 1 w_rcpt_null _ 0%nat); side.
Qed.

(* trace_block(6) answered with the traces of block 5 *)
Definition tr5 : tracer := mkTracer 5 [51] 0 [100] [9].
Definition w_trace_other : world :=
  mkWorld RFail RFail RFail RFail [RBody (mkTelem false (Some [tr5])); RBody (mkTelem false (Some [tr5]))].
Lemma legacy_accepts_misplaced_traces : corrupted pl_t 5 2 w_trace_other /\ is_ok (legacy_get pl_t 5 2 w_trace_other) = true
                                        /\ get pl_t 5 2 w_trace_other = Err.
Proof.
  split; [|split; vm_compute; reflexivity].
  eapply (CTrNumber pl_t 5 2 w_trace_other 1%nat); side.
Qed.

(* a log naming another block hash than the fetched header: the header hash is overwritten *)
Definition w_skew : world :=
  mkWorld RFail (RBody [mkBelem false (Some (hb 5 51 50))]) RFail
          (RBody (mkLbatch 2 false (Some [51]) false (Some [Some (mkLogr 5 [99] 0 [100] (mkLog 0 [7]))]))) [].
Lemma legacy_accepts_hash_skew :
  corrupted pl_hl 5 1 w_skew
  /\ legacy_get pl_hl 5 1 w_skew = Ok [mkBlock 5 [99] [50] [5] [mkTx 0 [100] [] [] [] [mkLog 0 [7]] []]]
  /\ get pl_hl 5 1 w_skew = Err.
Proof.
  split; [|split; vm_compute; reflexivity].
  eapply (CLgHash pl_hl 5 1 w_skew _ _ _ _ _ _ 0%nat); side.
Qed.

(* a logs batch of one element: index out of range *)
Definition w_logs_short : world := mkWorld RFail RFail RFail (RBody (mkLbatch 1 false (Some [51]) false None)) [].
Lemma legacy_panics_on_short_logs_batch : legacy_get pl_l 5 1 w_logs_short = Panic /\ get pl_l 5 1 w_logs_short = Err.
Proof. split; vm_compute; reflexivity. Qed.

(* headers of one chain (block 5 = 0x33), then the logs batch answered from another chain (its header of block 5
   = 0x63) in which block 5 has no matching log: nothing names a hash, the block is returned as empty *)
Definition w_reorg_empty : world :=
  mkWorld RFail (RBody [mkBelem false (Some (hb 5 51 50))]) RFail
          (RBody (mkLbatch 2 false (Some [99]) false (Some []))) [].
Lemma legacy_accepts_logs_of_other_chain :
  corrupted pl_hl 5 1 w_reorg_empty
  /\ legacy_get pl_hl 5 1 w_reorg_empty = Ok [hb 5 51 50]
  /\ get pl_hl 5 1 w_reorg_empty = Err.
Proof.
  split; [|split; vm_compute; reflexivity].
  eapply (CLgHeaderHash pl_hl 5 1 w_reorg_empty); side.
Qed.

Lemma legacy_head_panics : legacy_latest (RBody (mkHreply false None)) = Panic.
Proof. reflexivity. Qed.

Lemma C07_legacy_refuted : ~ C07_full legacy_get.
Proof.
  intros H. destruct (H pl_h 1 3 w_renumber) as [_ [H2 _]].
  destruct legacy_accepts_renumbered as [Hc [Hok _]]. rewrite (H2 Hc) in Hok. discriminate.
Qed.
