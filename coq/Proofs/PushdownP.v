(* Lemmas for C12: emitted rows = accepted candidates; operator semantics;
   soundness of the address/topic pushdown. *)
From Coq Require Import String Ascii List NArith ZArith Bool Lia ZifyBool ZifyN ZifyNat.
From Shovel Require Import Base.Outcome Model.Hex Model.Filter Model.Rows Model.Pushdown
     Proofs.HexP Proofs.FilterP Proofs.RowsP.
Import ListNotations.
Open Scope N_scope.
Local Arguments N.add : simpl never.
Local Arguments N.sub : simpl never.
Local Arguments N.mul : simpl never.
Local Arguments N.leb : simpl never.
Local Arguments N.ltb : simpl never.

(* ================= emitted iff accepted ================= *)
Lemma loop_post_decisions k dbs fo cds cells fr' rel :
  loop_post k dbs fo cds frs0 cells fr' rel ->
  exists rs, decisions dbs fo cds cells rs /\ frs_accept fr' = agg k (somes rs).
Proof.
  intros [rs [E [L1 [L2 Hn]]]]. exists rs. split.
  - split; [exact L1|]. split; [exact L2|]. intros j cd v r Hc Hv Hr.
    destruct (Hn j cd Hc) as [v' [r' [Hv' [Hr' [_ R]]]]]. congruence.
  - rewrite E, frs_steps_somes. apply frs_fold_agg.
Qed.

Definition accepted (k : bool) (c : list gval * list (option bool)) : bool := agg k (somes (snd c)).

Lemma data_cands vr d dbs e topics : forall srows i out,
  concatM_i (fun i srow =>
               do r <- data_cells vr (kind_is_and (d_agg d)) dbs e topics srow i (coldefs d) 1 0 frs0;
               Ok (emit r)) i srows = Ok out ->
  exists cands, length cands = length srows /\
    Forall (fun c => decisions dbs (cd_filter true) (coldefs d) (fst c) (snd c)) cands /\
    out = map fst (filter (accepted (kind_is_and (d_agg d))) cands).
Proof.
  induction srows as [|srow rest IH]; intros i out H; simpl in H.
  - injection H as <-. exists []. repeat split. constructor.
  - inv_bind_as H hr Hhr. inv_bind_as Hhr c Hc. injection Hhr as <-.
    inv_bind_as H o Ho. injection H as <-.
    destruct (IH _ _ Ho) as [cands [L [F E]]]. destruct c as [cells fr].
    apply data_cells_inv in Hc. apply loop_post_decisions in Hc. destruct Hc as [rs [D A]].
    exists ((cells, rs) :: cands). split; [simpl; congruence|]. split; [constructor; assumption|].
    simpl. unfold accepted at 1. simpl. unfold emit. simpl. rewrite A.
    destruct (agg (kind_is_and (d_agg d)) (somes rs)); simpl; rewrite E; reflexivity.
Qed.

Lemma emit_data vr d dbs e l rows :
  process_log vr d dbs e l = Ok rows -> gate d l = true -> l_data l <> [] ->
  exists srows cands, l_scan l = Ok srows /\ length cands = length srows /\
    Forall (fun c => decisions dbs (cd_filter true) (coldefs d) (fst c) (snd c)) cands /\
    rows = map fst (filter (accepted (kind_is_and (d_agg d))) cands).
Proof.
  unfold process_log. intros H G D. rewrite G in H. simpl in H.
  apply is_nil_false in D. rewrite D in H. inv_bind_as H srows Hs.
  apply data_cands in H. destruct H as [cands [L [F E]]]. exists srows, cands. auto.
Qed.

Lemma emit_nodata vr d dbs e l rows :
  process_log vr d dbs e l = Ok rows -> gate d l = true -> l_data l = [] ->
  exists cells rs, decisions dbs (cd_filter false) (coldefs d) cells rs /\
    rows = if agg (kind_is_and (d_agg d)) (somes rs) then [cells] else [].
Proof.
  intros H G D. destruct (process_log_nodata _ _ _ _ _ _ H G D) as [[cells fr] [Hc ->]].
  apply nodata_cells_inv in Hc. apply loop_post_decisions in Hc. destruct Hc as [rs [Dc A]].
  exists cells, rs. split; [exact Dc|]. unfold emit. simpl. rewrite A. reflexivity.
Qed.

Lemma emit_tx d dbs e rows :
  process_tx d dbs e = Ok rows -> num_selected d = 0%nat -> (0 < num_bd d)%nat ->
  exists cells rs, decisions dbs (fun cd => Some (bd_filter (cd_bd cd))) (coldefs d) cells rs /\
    rows = if agg (kind_is_and (d_agg d)) (somes rs) then [cells] else [].
Proof.
  unfold process_tx. intros H Z P. rewrite Z in H. simpl in H.
  replace (0 <? num_bd d)%nat with true in H by lia.
  inv_bind_as H c Hc. injection H as <-. destruct c as [cells fr].
  apply tx_cells_inv in Hc. apply loop_post_decisions in Hc. destruct Hc as [rs [Dc A]].
  exists cells, rs. split; [exact Dc|]. unfold emit. simpl. rewrite A. reflexivity.
Qed.

(* ================= aggregation ================= *)
Lemma agg_and rs : agg true rs = true <-> forall b, In b rs -> b = true.
Proof.
  unfold agg. destruct rs as [|b0 rs]; [split; [intros _ b []|reflexivity]|].
  rewrite forallb_forall. reflexivity.
Qed.

Lemma agg_or rs : agg false rs = true <-> rs = [] \/ In true rs.
Proof.
  unfold agg. destruct rs as [|b0 rs]; [split; [left; reflexivity|reflexivity]|].
  rewrite existsb_exists. split.
  - intros [b [Hb ->]]. right. exact Hb.
  - intros [H|H]; [discriminate|]. exists true. split; [exact H|reflexivity].
Qed.

(* filter_agg: "and" in any letter case is conjunction; everything else --
   "or", the empty string -- is disjunction *)
Lemma kind_and : kind_is_and (s2b "and") = true /\ kind_is_and (s2b "AND") = true /\ kind_is_and (s2b "And") = true.
Proof. repeat split. Qed.
Lemma kind_or a : to_lower a <> s2b "and" -> kind_is_and a = false.
Proof. intros H. unfold kind_is_and. apply bytes_eqb_neq. exact H. Qed.
(* config.ValidateFix: an empty filter_agg becomes "or" *)
Definition validate_agg (a : bytes) : bytes := if is_nil a then s2b "or" else a.
Lemma validated_default_or : kind_is_and (validate_agg []) = false /\ kind_is_and [] = false.
Proof. split; reflexivity. Qed.

(* ================= operators ================= *)
Definition is_active (f : flt) : Prop := is_nil (f_args f) && is_nil (f_ref_ig f) = false.

Lemma op_is_eq f s : f_op f = s2b s -> forall s', op_is f s' = bytes_eqb (s2b s) (s2b s').
Proof. intros E s'. unfold op_is. rewrite E. reflexivity. Qed.

Lemma existsb_prop {A} (p : A -> bool) l : existsb p l = true <-> exists a, In a l /\ p a = true.
Proof. apply existsb_exists. Qed.

(* byte strings *)
Lemma sem_bytes_contains dbs f o : is_active f -> f_op f = s2b "contains" -> f_ref_table f = [] ->
  exists b, filter_result dbs f (VBytes o) = Ok (Some b) /\
    (b = true <-> exists a p q, In a (f_args f) /\ ob o = p ++ decode_hex a ++ q).
Proof.
  intros A E T. unfold filter_result. rewrite A, E, T.
  change (has_suffix (s2b "contains") (s2b "contains")) with true.
  change (has_prefix (s2b "!") (s2b "contains")) with false. cbn [negb is_nil bind].
  eexists. split; [reflexivity|]. rewrite existsb_exists. split.
  - intros [a [Ha C]]. apply contains_spec in C. destruct C as [p [q C]]. exists a, p, q. auto.
  - intros [a [p [q [Ha C]]]]. exists a. split; [exact Ha|]. apply contains_spec. exists p, q. exact C.
Qed.

Lemma sem_bytes_not_contains dbs f o : is_active f -> f_op f = s2b "!contains" -> f_ref_table f = [] ->
  exists b, filter_result dbs f (VBytes o) = Ok (Some b) /\
    (b = true <-> ~ exists a p q, In a (f_args f) /\ ob o = p ++ decode_hex a ++ q).
Proof.
  intros A E T. unfold filter_result. rewrite A, E, T.
  change (has_suffix (s2b "contains") (s2b "!contains")) with true.
  change (has_prefix (s2b "!") (s2b "!contains")) with true. cbn [negb is_nil bind].
  eexists. split; [reflexivity|]. rewrite negb_true_iff, <- not_true_iff_false, existsb_exists. split.
  - intros N [a [p [q [Ha C]]]]. apply N. exists a. split; [exact Ha|]. apply contains_spec. exists p, q. exact C.
  - intros N [a [Ha C]]. apply N. apply contains_spec in C. destruct C as [p [q C]]. exists a, p, q. auto.
Qed.

Lemma sem_bytes_eq dbs f o : is_active f -> f_op f = s2b "eq" ->
  exists b, filter_result dbs f (VBytes o) = Ok (Some b) /\
    (b = true <-> exists a, In a (f_args f) /\ ob o = decode_hex a).
Proof.
  intros A E. unfold filter_result. rewrite A, !(op_is_eq f "eq" E), E.
  change (has_suffix (s2b "contains") (s2b "eq")) with false.
  change (bytes_eqb (s2b "eq") (s2b "eq")) with true. cbn match.
  eexists. split; [reflexivity|]. rewrite existsb_exists. split.
  - intros [a [Ha C]]. apply bytes_eqb_eq in C. exists a. auto.
  - intros [a [Ha C]]. exists a. split; [exact Ha|]. apply bytes_eqb_eq. exact C.
Qed.

Lemma sem_bytes_ne dbs f o : is_active f -> f_op f = s2b "ne" ->
  exists b, filter_result dbs f (VBytes o) = Ok (Some b) /\
    (b = true <-> forall a, In a (f_args f) -> ob o <> decode_hex a).
Proof.
  intros A E. unfold filter_result. rewrite A, !(op_is_eq f "ne" E), E.
  change (has_suffix (s2b "contains") (s2b "ne")) with false.
  change (bytes_eqb (s2b "ne") (s2b "eq")) with false.
  change (bytes_eqb (s2b "ne") (s2b "ne")) with true. cbn match.
  eexists. split; [reflexivity|]. rewrite negb_true_iff, <- not_true_iff_false, existsb_exists. split.
  - intros N a Ha C. apply N. exists a. split; [exact Ha|]. apply bytes_eqb_eq. exact C.
  - intros N [a [Ha C]]. apply bytes_eqb_eq in C. exact (N a Ha C).
Qed.

(* an address against address-long arguments: containment is equality *)
Lemma sem_addr_contains_eq b a : length b = length (decode_hex a) ->
  contains b (decode_hex a) = bytes_eqb b (decode_hex a).
Proof. apply contains_same_length. Qed.

(* reference filters *)
Lemma sem_ref dbs f o (neg : bool) : is_active f -> f_ref_table f <> [] ->
  f_op f = (if neg then s2b "!contains" else s2b "contains") ->
  match db_lookup dbs (f_ref_table f) (f_ref_col f) with
  | Some vs => exists b, filter_result dbs f (VBytes o) = Ok (Some b) /\
                 (b = true <-> if neg then ~ In (ob o) vs else In (ob o) vs)
  | None => filter_result dbs f (VBytes o) = Err
  end.
Proof.
  intros A T E. unfold filter_result. rewrite A, E.
  apply is_nil_false in T. rewrite T.
  destruct neg.
  - change (has_suffix (s2b "contains") (s2b "!contains")) with true.
    change (has_prefix (s2b "!") (s2b "!contains")) with true. cbn match.
    destruct (db_lookup dbs (f_ref_table f) (f_ref_col f)) as [vs|]; [|reflexivity].
    eexists. split; [reflexivity|]. rewrite negb_true_iff, <- not_true_iff_false, mem_In. reflexivity.
  - change (has_suffix (s2b "contains") (s2b "contains")) with true.
    change (has_prefix (s2b "!") (s2b "contains")) with false. cbn match.
    destruct (db_lookup dbs (f_ref_table f) (f_ref_col f)) as [vs|]; [|reflexivity].
    eexists. split; [reflexivity|]. apply mem_In.
Qed.

(* strings *)
Lemma sem_str dbs f s : is_active f ->
  (f_op f = s2b "contains" -> exists b, filter_result dbs f (VStr s) = Ok (Some b) /\ (b = true <-> In s (f_args f))) /\
  (f_op f = s2b "!contains" -> exists b, filter_result dbs f (VStr s) = Ok (Some b) /\ (b = true <-> ~ In s (f_args f))) /\
  (forall a r, f_op f = s2b "eq" -> f_args f = a :: r ->
     exists b, filter_result dbs f (VStr s) = Ok (Some b) /\ (b = true <-> s = a)) /\
  (forall a r, f_op f = s2b "ne" -> f_args f = a :: r ->
     exists b, filter_result dbs f (VStr s) = Ok (Some b) /\ (b = true <-> s <> a)).
Proof.
  intros A. unfold filter_result. rewrite A. repeat split.
  - intros E. rewrite !(op_is_eq f _ E). cbn. eexists. split; [reflexivity|apply mem_In].
  - intros E. rewrite !(op_is_eq f _ E). cbn. eexists. split; [reflexivity|].
    rewrite negb_true_iff, <- not_true_iff_false, mem_In. reflexivity.
  - intros a r E Ar. rewrite !(op_is_eq f _ E), Ar. cbn. eexists. split; [reflexivity|apply bytes_eqb_eq].
  - intros a r E Ar. rewrite !(op_is_eq f _ E), Ar. cbn. eexists. split; [reflexivity|].
    rewrite negb_true_iff. apply bytes_eqb_neq.
Qed.

(* 64-bit and 256-bit unsigned integers against the first argument *)
Lemma sem_num_gen (mk : N -> gval) (parse : bytes -> option N) dbs f n a r i :
  (forall m, filter_result dbs f (mk m) =
     if is_nil (f_args f) && is_nil (f_ref_ig f) then Ok None else
     match f_args f with
     | [] => Panic
     | a :: _ => match parse a with
                 | None => Err
                 | Some i => if op_is f "eq" then Ok (Some (m =? i))
                             else if op_is f "ne" then Ok (Some (negb (m =? i)))
                             else if op_is f "gt" then Ok (Some (i <? m))
                             else if op_is f "lt" then Ok (Some (m <? i))
                             else Ok None
                 end
     end) ->
  f_args f = a :: r -> parse a = Some i ->
  (f_op f = s2b "eq" -> exists b, filter_result dbs f (mk n) = Ok (Some b) /\ (b = true <-> n = i)) /\
  (f_op f = s2b "ne" -> exists b, filter_result dbs f (mk n) = Ok (Some b) /\ (b = true <-> n <> i)) /\
  (f_op f = s2b "gt" -> exists b, filter_result dbs f (mk n) = Ok (Some b) /\ (b = true <-> i < n)) /\
  (f_op f = s2b "lt" -> exists b, filter_result dbs f (mk n) = Ok (Some b) /\ (b = true <-> n < i)).
Proof.
  intros U Ar P. rewrite U, Ar, P. cbn [is_nil andb].
  repeat split; intros E; rewrite !(op_is_eq f _ E); cbn; eexists; (split; [reflexivity|]); lia.
Qed.

Lemma sem_u64 dbs f n a r i : f_args f = a :: r -> parse_u64 a = Some i ->
  (f_op f = s2b "eq" -> exists b, filter_result dbs f (VU64 n) = Ok (Some b) /\ (b = true <-> n = i)) /\
  (f_op f = s2b "ne" -> exists b, filter_result dbs f (VU64 n) = Ok (Some b) /\ (b = true <-> n <> i)) /\
  (f_op f = s2b "gt" -> exists b, filter_result dbs f (VU64 n) = Ok (Some b) /\ (b = true <-> i < n)) /\
  (f_op f = s2b "lt" -> exists b, filter_result dbs f (VU64 n) = Ok (Some b) /\ (b = true <-> n < i)).
Proof. apply (sem_num_gen VU64 parse_u64). intros m. reflexivity. Qed.

Lemma sem_u256 dbs f n a r i : f_args f = a :: r -> parse_u256 a = Some i ->
  (f_op f = s2b "eq" -> exists b, filter_result dbs f (VU256 n) = Ok (Some b) /\ (b = true <-> n = i)) /\
  (f_op f = s2b "ne" -> exists b, filter_result dbs f (VU256 n) = Ok (Some b) /\ (b = true <-> n <> i)) /\
  (f_op f = s2b "gt" -> exists b, filter_result dbs f (VU256 n) = Ok (Some b) /\ (b = true <-> i < n)) /\
  (f_op f = s2b "lt" -> exists b, filter_result dbs f (VU256 n) = Ok (Some b) /\ (b = true <-> n < i)).
Proof. apply (sem_num_gen VU256 parse_u256). intros m. reflexivity. Qed.

(* an argument that is not a decimal number in range is an error, never a comparison *)
Lemma sem_num_bad_arg dbs f n a r : f_args f = a :: r ->
  (parse_u64 a = None -> filter_result dbs f (VU64 n) = Err) /\
  (parse_u256 a = None -> filter_result dbs f (VU256 n) = Err).
Proof. intros Ar. unfold filter_result. rewrite Ar. cbn [is_nil andb]. split; intros ->; reflexivity. Qed.

(* values of the other dynamic types (bool, signed integers, eth.Byte, int, nil) are not filtered *)
Lemma sem_other dbs f v : kind_of v = KOther -> filter_result dbs f v = Ok None.
Proof.
  unfold filter_result. destruct (is_nil (f_args f) && is_nil (f_ref_ig f)); [reflexivity|].
  destruct v; simpl; try discriminate; reflexivity.
Qed.

(* ================= pushdown ================= *)
Lemma decode_hex_wf s : wf_bytes (decode_hex s).
Proof.
  unfold decode_hex. generalize (if Nat.odd (length (strip0x s)) then 48 :: strip0x s else strip0x s).
  intros src. unfold wf_bytes.
  assert (G : forall n (src : bytes), (length src <= n)%nat -> Forall (fun x => x < 256) (fst (hex_pairs src))).
  { induction n as [|n IH]; intros [|p [|q r]] L; simpl in *; try constructor; try lia.
    destruct (nibble p) as [a|] eqn:Ea; [|constructor].
    destruct (nibble q) as [b|] eqn:Eb; [|constructor].
    specialize (IH r). destruct (hex_pairs r) as [l ok]. simpl in *. constructor; [|apply IH; lia].
    apply nibble_lt16 in Ea, Eb. lia. }
  apply (G (length src)). lia.
Qed.

Lemma decode_norm a : decode_hex (norm_addr a) = decode_hex a.
Proof. unfold norm_addr. apply decode_hex_encode_hex_l. apply decode_hex_wf. Qed.

Lemma topic_sound vr d dbs e l rows :
  process_log vr d dbs e l = Ok rows -> rows <> [] -> wf_bytes (d_sighash d) ->
  topics_pass (push_topics d) (l_topics l) = true.
Proof.
  intros H Hne W. destruct rows as [|r rows]; [contradiction|].
  pose proof (process_log_gate _ _ _ _ _ _ r H (or_introl eq_refl)) as G.
  unfold gate in G. apply andb_true_iff in G. destruct G as [G1 G2].
  destruct (l_topics l) as [|x hr]; [simpl in G1; discriminate|].
  simpl in G2. apply bytes_eqb_eq in G2. unfold push_topics. simpl.
  rewrite decode_hex_encode_hex_l by exact W. rewrite G2, bytes_eqb_refl. reflexivity.
Qed.

Lemma get_field_log_addr e l : e_l e = Some l -> get_field e (s2b "log_addr") = Ok (VBytes (l_addr l)).
Proof. intros H. unfold get_field. simpl. rewrite H. reflexivity. Qed.

(* facts about an emitted row that the pushdown argument needs *)
Lemma row_facts d dbs e l rows r :
  process_log fixed d dbs e l = Ok rows -> In r rows ->
  exists rs br,
    agg (kind_is_and (d_agg d)) (somes rs) = true /\ length rs = length (coldefs d) /\
    forall j cd rr, nth_error (coldefs d) j = Some cd -> nth_error rs j = Some rr ->
      exists v, nth_error r j = Some v /\ result_rel dbs (cd_filter br cd) v rr /\
        (cd_indexed cd = false -> cd_is_bd cd = true -> fld (bd_name (cd_bd cd)) "abi_idx" = false ->
         get_field e (bd_name (cd_bd cd)) = Ok v).
Proof.
  intros H Hr. destruct (process_log_origin _ _ _ _ _ _ _ H Hr) as [_ [[_ X]|[_ X]]].
  - destruct X as [srows [i [srow [fr [_ [_ [Hd A]]]]]]].
    apply data_cells_inv in Hd. destruct Hd as [rs [E [L1 [L2 Hn]]]].
    exists rs, true. split; [rewrite <- A, E, frs_steps_somes; symmetry; apply frs_fold_agg|].
    split; [exact L2|]. intros j cd rr Hc Hrr.
    destruct (Hn j cd Hc) as [v [r' [Hv [Hr' [Rel Res]]]]]. rewrite Hrr in Hr'. injection Hr' as <-.
    exists v. split; [exact Hv|]. split; [exact Res|].
    intros I B Ab. unfold data_cell_rel in Rel. rewrite I, B, Ab in Rel. exact Rel.
  - destruct X as [fr [Hd A]].
    apply nodata_cells_inv in Hd. destruct Hd as [rs [E [L1 [L2 Hn]]]].
    exists rs, false. split; [rewrite <- A, E, frs_steps_somes; symmetry; apply frs_fold_agg|].
    split; [exact L2|]. intros j cd rr Hc Hrr.
    destruct (Hn j cd Hc) as [v [r' [Hv [Hr' [Rel Res]]]]]. rewrite Hrr in Hr'. injection Hr' as <-.
    exists v. split; [exact Hv|]. split; [exact Res|].
    intros I B Ab. unfold nodata_cell_rel in Rel. rewrite I in Rel. apply Rel.
Qed.

Lemma input_coldefs_In cols ins : forall n cd,
  In cd (input_coldefs cols ins n) ->
  exists inp, In inp ins /\ selected inp = true /\ cd_input cd = inp /\ cd_bd cd = empty_bd.
Proof.
  induction ins as [|x r IH]; intros n cd H; simpl in H; [destruct H|].
  destruct (selected x) eqn:S.
  - destruct H as [<-|H].
    + exists x. simpl. auto.
    + destruct (IH _ _ H) as [inp [Hi R]]. exists inp. split; [right; exact Hi|exact R].
  - destruct (IH _ _ H) as [inp [Hi R]]. exists inp. split; [right; exact Hi|exact R].
Qed.

Lemma coldefs_In d cd : In cd (coldefs d) ->
  (exists inp, In inp (d_inputs d) /\ selected inp = true /\ cd_input cd = inp /\ cd_bd cd = empty_bd)
  \/ (exists bd, In bd (d_block d) /\ cd = bd_coldef (d_table_cols d) bd).
Proof.
  unfold coldefs. intros H. apply in_app_or in H. destruct H as [H|H].
  - left. eapply input_coldefs_In. exact H.
  - right. apply in_map_iff in H. destruct H as [bd [E Hb]]. exists bd. auto.
Qed.

(* the filter of a coldef, when it is active, is a declared one *)
Lemma cd_filter_active d br cd f :
  In cd (coldefs d) -> cd_filter br cd = Some f -> active f = true ->
  (exists inp, In inp (d_inputs d) /\ selected inp = true /\ f = i_filter inp)
  \/ (exists bd, In bd (d_block d) /\ cd = bd_coldef (d_table_cols d) bd /\ f = bd_filter bd
                 /\ cd_is_bd cd = true /\ (br && fld (bd_name bd) "abi_idx" = false)).
Proof.
  intros Hin Hf Ha. destruct (coldefs_In d cd Hin) as [[inp [Hi [S [E1 E2]]]]|[bd [Hb ->]]].
  - left. exists inp. split; [exact Hi|]. split; [exact S|].
    unfold cd_filter, cd_indexed, cd_is_bd in Hf. rewrite E1, E2 in Hf. simpl in Hf.
    destruct (i_indexed inp); injection Hf as <-; reflexivity.
  - unfold cd_filter, cd_indexed, cd_is_bd in Hf. simpl in Hf.
    destruct (negb (is_nil (bd_name bd))) eqn:Eb.
    + destruct (br && fld (bd_name bd) "abi_idx") eqn:Ea; [discriminate|]. injection Hf as <-.
      right. exists bd. unfold cd_is_bd. simpl. auto.
    + injection Hf as <-. discriminate.
Qed.

Lemma active_result dbs f v b : filter_result dbs f v = Ok (Some b) -> active f = true.
Proof.
  unfold filter_result, active. destruct (f_args f); destruct (f_ref_ig f); simpl; try reflexivity.
  discriminate.
Qed.

Lemma filter_length_le {A} (p : A -> bool) l : (length (filter p l) <= length l)%nat.
Proof. induction l as [|x l IH]; simpl; [lia|]. destruct (p x); simpl; lia. Qed.

Lemma filter_sub_all {A} (p q : A -> bool) l :
  (forall x, p x = true -> q x = true) ->
  length (filter p l) = length (filter q l) -> forall x, In x l -> q x = true -> p x = true.
Proof.
  intros Hpq. induction l as [|y l IH]; intros L x Hx Hq; [destruct Hx|]. simpl in L.
  assert (Le : (length (filter p l) <= length (filter q l))%nat).
  { clear -Hpq. induction l as [|z l IH]; simpl; [lia|].
    destruct (p z) eqn:P; [rewrite (Hpq z P); simpl; lia|]. destruct (q z); simpl; lia. }
  destruct (p y) eqn:P.
  - rewrite (Hpq y P) in L. simpl in L. destruct Hx as [<-|Hx]; [exact P|]. apply IH; [lia|exact Hx|exact Hq].
  - destruct (q y) eqn:Q; simpl in L; [lia|].
    destruct Hx as [<-|Hx]; [congruence|]. apply IH; assumption.
Qed.

Lemma pos_addr_parts bd : pos_addr bd = true ->
  active (bd_filter bd) = true /\ bd_name bd = s2b "log_addr" /\
  (op_is (bd_filter bd) "contains" || op_is (bd_filter bd) "eq") = true /\
  f_args (bd_filter bd) <> [] /\ f_ref_table (bd_filter bd) = [] /\
  (forall a, In a (f_args (bd_filter bd)) -> length (decode_hex a) = 20%nat).
Proof.
  unfold pos_addr, addr_filter, is_log_addr, fld. intros P.
  apply andb_true_iff in P. destruct P as [P1 P2]. apply andb_true_iff in P1. destruct P1 as [Pa Pl].
  apply andb_true_iff in P2. destruct P2 as [P2 Pf]. apply andb_true_iff in P2. destruct P2 as [P2 Pt].
  apply andb_true_iff in P2. destruct P2 as [Po Pn].
  split; [exact Pa|]. split; [apply bytes_eqb_eq; exact Pl|]. split; [exact Po|].
  split; [apply is_nil_false; exact Pn|].
  split; [destruct (f_ref_table (bd_filter bd)); [reflexivity|discriminate]|].
  intros a Ha. rewrite forallb_forall in Pf. apply Nat.eqb_eq. apply Pf. exact Ha.
Qed.

(* a positive address filter always decides *)
Lemma pos_addr_decides dbs bd o rr : pos_addr bd = true ->
  filter_result dbs (bd_filter bd) (VBytes o) = Ok rr -> exists b, rr = Some b.
Proof.
  intros P Fr. destruct (pos_addr_parts bd P) as [_ [_ [_ [Hn [Ht _]]]]].
  unfold filter_result in Fr. destruct (f_args (bd_filter bd)); [contradiction Hn; reflexivity|].
  simpl in Fr. rewrite Ht in Fr. simpl in Fr.
  destruct (has_suffix (s2b "contains") (f_op (bd_filter bd))).
  - injection Fr as <-. eexists. reflexivity.
  - destruct (op_is (bd_filter bd) "eq"); [injection Fr as <-; eexists; reflexivity|].
    destruct (op_is (bd_filter bd) "ne"); injection Fr as <-; eexists; reflexivity.
Qed.

Lemma pos_addr_hit dbs bd o :
  pos_addr bd = true -> filter_result dbs (bd_filter bd) (VBytes o) = Ok (Some true) ->
  length (ob o) = 20%nat ->
  existsb (fun a => bytes_eqb (decode_hex a) (ob o)) (map norm_addr (f_args (bd_filter bd))) = true.
Proof.
  intros P0 R L. destruct (pos_addr_parts bd P0) as [_ [_ [P [Hn [T Hlen]]]]].
  assert (Act : is_active (bd_filter bd)).
  { unfold is_active. destruct (f_args (bd_filter bd)); [contradiction Hn; reflexivity|reflexivity]. }
  assert (M : exists a, In a (f_args (bd_filter bd)) /\ ob o = decode_hex a).
  { apply orb_true_iff in P. destruct P as [P|P]; unfold op_is in P; apply bytes_eqb_eq in P.
    - destruct (sem_bytes_contains dbs _ o Act P T) as [b [Hb Hiff]]. rewrite Hb in R. injection R as ->.
      destruct (proj1 Hiff eq_refl) as [a [p [q [Ha C]]]]. exists a. split; [exact Ha|].
      specialize (Hlen a Ha).
      assert (Hl : length (ob o) = (length p + (length (decode_hex a) + length q))%nat)
        by (rewrite C, !app_length; reflexivity).
      assert (p = []) by (destruct p; [reflexivity|simpl in Hl; lia]).
      assert (q = []) by (destruct q; [reflexivity|simpl in Hl; lia]).
      subst. simpl in C. rewrite app_nil_r in C. exact C.
    - destruct (sem_bytes_eq dbs _ o Act P) as [b [Hb Hiff]]. rewrite Hb in R. injection R as ->.
      apply Hiff. reflexivity. }
  destruct M as [a [Ha C]]. apply existsb_exists. exists (norm_addr a).
  split; [apply in_map; exact Ha|]. rewrite decode_norm, C. apply bytes_eqb_refl.
Qed.

Lemma somes_In {A} (x : A) l : In (Some x) l <-> In x (somes l).
Proof.
  induction l as [|[y|] l IH]; simpl; [tauto| |].
  - rewrite <- IH. split; intros [H|H]; auto; [left; congruence|left; congruence].
  - rewrite <- IH. split; [intros [H|H]; [discriminate|exact H]|auto].
Qed.

Lemma address_sound d dbs e l rows :
  process_log fixed d dbs e l = Ok rows -> rows <> [] -> e_l e = Some l ->
  length (ob (l_addr l)) = 20%nat ->
  node_addr_pass (push_addrs d) l = true.
Proof.
  intros H Hne El L20. unfold node_addr_pass, push_addrs.
  destruct (filter pos_addr (d_block d)) as [|bd0 pos'] eqn:Epos; [reflexivity|].
  set (pos := bd0 :: pos') in *. cbn [is_nil].
  destruct (negb (bytes_eqb (to_lower (d_agg d)) (s2b "and")) && negb (length pos =? num_filters d)%nat) eqn:Econd;
    [reflexivity|].
  destruct rows as [|r rows]; [contradiction|].
  destruct (row_facts _ _ _ _ _ r H (or_introl eq_refl)) as [rs [br [Agg [Lrs Hn]]]].
  (* it is enough to find a positive log_addr entry whose decision is true *)
  assert (Goal' : exists bd, In bd pos /\ filter_result dbs (bd_filter bd) (VBytes (l_addr l)) = Ok (Some true)).
  { assert (Hbd : forall bd, In bd (d_block d) -> pos_addr bd = true ->
              exists j rr, nth_error (coldefs d) j = Some (bd_coldef (d_table_cols d) bd)
                           /\ nth_error rs j = Some rr
                           /\ filter_result dbs (bd_filter bd) (VBytes (l_addr l)) = Ok rr).
    { intros bd Hb P. apply In_nth_error in Hb. destruct Hb as [k Hk].
      pose proof (coldefs_bd_nth d k bd Hk) as N.
      assert (Hlt : (num_selected d + k < length rs)%nat)
        by (rewrite Lrs; apply nth_error_Some; congruence).
      destruct (nth_error rs (num_selected d + k)) as [rr|] eqn:Er; [|apply nth_error_None in Er; lia].
      destruct (Hn _ _ _ N Er) as [v [_ [Res G]]].
      destruct (pos_addr_parts bd P) as [_ [Pl _]].
      assert (Hne' : bd_name bd <> []) by (rewrite Pl; discriminate).
      destruct (bd_coldef_flags (d_table_cols d) bd Hne') as [F1 F2].
      assert (Ab : fld (bd_name (cd_bd (bd_coldef (d_table_cols d) bd))) "abi_idx" = false)
        by (simpl; rewrite Pl; reflexivity).
      specialize (G F1 F2 Ab). simpl in G. rewrite Pl, (get_field_log_addr e l El) in G.
      injection G as <-.
      unfold result_rel, cd_filter in Res. rewrite F1, F2 in Res. simpl in Ab. simpl in Res.
      rewrite Ab, andb_false_r in Res.
      exists (num_selected d + k)%nat, rr. auto. }
    assert (Hpos0 : In bd0 (d_block d) /\ pos_addr bd0 = true).
    { apply filter_In. rewrite Epos. left. reflexivity. }
    destruct (kind_is_and (d_agg d)) eqn:K.
    - (* and: every decision is true, in particular bd0's *)
      destruct Hpos0 as [Hb0 P0]. destruct (Hbd bd0 Hb0 P0) as [j [rr [_ [Er Fr]]]].
      exists bd0. split; [left; reflexivity|].
      destruct (pos_addr_decides dbs bd0 _ _ P0 Fr) as [b ->].
      rewrite Fr. do 2 f_equal. apply (proj1 (agg_and _) Agg). apply somes_In.
      eapply nth_error_In. exact Er.
    - (* or: all active filters are positive log_addr entries *)
      unfold kind_is_and in K. rewrite K in Econd. cbn [negb andb] in Econd.
      apply negb_false_iff in Econd. apply Nat.eqb_eq in Econd.
      unfold num_filters in Econd.
      assert (Sub : forall x, pos_addr x = true -> active (bd_filter x) = true).
      { intros x Px. apply (pos_addr_parts x Px). }
      assert (Le : (length (filter pos_addr (d_block d)) <=
                    length (filter (fun bd => active (bd_filter bd)) (d_block d)))%nat).
      { clear -Sub. induction (d_block d) as [|z bl IH]; simpl; [lia|].
        destruct (pos_addr z) eqn:P; [rewrite (Sub z P); simpl; lia|].
        destruct (active (bd_filter z)); simpl; lia. }
      fold pos in Econd. rewrite <- Epos in Econd.
      assert (NoIn : filter (fun i => active (i_filter i)) (filter selected (d_inputs d)) = []).
      { destruct (filter (fun i => active (i_filter i)) (filter selected (d_inputs d))); [reflexivity|].
        simpl in Econd. lia. }
      rewrite NoIn in Econd. simpl in Econd.
      pose proof (filter_sub_all pos_addr (fun bd => active (bd_filter bd)) (d_block d) Sub Econd) as AllPos.
      (* some decision is true *)
      apply agg_or in Agg. destruct Agg as [Agg|Agg].
      { exfalso. destruct Hpos0 as [Hb0 P0]. destruct (Hbd bd0 Hb0 P0) as [j [rr [_ [Er Fr]]]].
        destruct (pos_addr_decides dbs bd0 _ _ P0 Fr) as [b ->].
        apply nth_error_In, somes_In in Er. rewrite Agg in Er. destruct Er. }
      apply somes_In, In_nth_error in Agg. destruct Agg as [j Er].
      assert (Hlt : (j < length (coldefs d))%nat) by (rewrite <- Lrs; apply nth_error_Some; congruence).
      destruct (nth_error (coldefs d) j) as [cd|] eqn:Ec; [|apply nth_error_None in Ec; lia].
      destruct (Hn _ _ _ Ec Er) as [v [_ [Res G]]].
      destruct (cd_filter br cd) as [f|] eqn:Ef; [|simpl in Res; discriminate].
      simpl in Res. pose proof (active_result _ _ _ _ Res) as Act.
      destruct (cd_filter_active d br cd f (nth_error_In _ _ Ec) Ef Act)
        as [[inp [Hi [S ->]]]|[bd [Hb [-> [-> [B Ab]]]]]].
      { exfalso. assert (In inp (filter (fun i => active (i_filter i)) (filter selected (d_inputs d)))).
        { apply filter_In. split; [apply filter_In; auto|exact Act]. }
        rewrite NoIn in H0. destruct H0. }
      pose proof (AllPos bd Hb Act) as P.
      destruct (Hbd bd Hb P) as [j' [rr' [_ [_ Fr]]]].
      exists bd. split; [rewrite <- Epos; apply filter_In; auto|].
      (* the value in column j is the log address *)
      destruct (pos_addr_parts bd P) as [_ [Pl _]].
      assert (Ab' : fld (bd_name (cd_bd (bd_coldef (d_table_cols d) bd))) "abi_idx" = false)
        by (simpl; rewrite Pl; reflexivity).
      specialize (G eq_refl B Ab'). simpl in G. rewrite Pl, (get_field_log_addr e l El) in G.
      injection G as <-. exact Res. }
  destruct Goal' as [bd [Hin Fr]].
  assert (P : pos_addr bd = true).
  { rewrite <- Epos in Hin. apply filter_In in Hin. apply Hin. }
  pose proof (pos_addr_hit dbs bd (l_addr l) P Fr L20) as Hit.
  apply existsb_exists in Hit. destruct Hit as [a [Ha Ea]].
  change (is_nil pos) with false. cbn match. apply orb_true_iff. right.
  apply existsb_exists. exists a. split; [|exact Ea].
  apply in_flat_map. exists bd. split; [exact Hin|exact Ha].
Qed.

Lemma pushdown_statement_fixed : pushdown_statement push_addrs.
Proof. unfold pushdown_statement. intros. eapply address_sound; eassumption. Qed.

(* ================= unrepaired Filter(): witnesses ================= *)
Definition addr_a : bytes := repeat 170 20.
Definition addr_b : bytes := repeat 187 20.
Definition p_flt (op : string) (args : list bytes) : flt :=
  {| f_op := s2b op; f_args := args; f_ref_ig := []; f_ref_table := []; f_ref_col := [] |}.
(* event E(uint256 indexed a), a selected; log_addr filtered *)
Definition p_decl (agg : string) (fa : flt) (fl : flt) : decl :=
  {| d_name := s2b "ig";
     d_inputs := [{| i_indexed := true; i_type := s2b "uint256"; i_column := s2b "a"; i_filter := fa |}];
     d_block := [{| bd_name := s2b "log_addr"; bd_column := s2b "log_addr"; bd_filter := fl |}];
     d_table_cols := [s2b "a"; s2b "log_addr"]; d_agg := s2b agg; d_sighash := [7] |}.
Definition p_log : logr :=
  {| l_idx := 0; l_addr := Some addr_b; l_topics := [[7]; word_of_N 5]; l_data := []; l_scan := Ok [[]] |}.
Definition p_env (d : decl) : env := mk_env w_ctx d w_block w_tx (Some p_log) None.

(* "log_addr !contains A": a log of B is accepted, the node (asked for A only) withholds it *)
Definition p_decl_neg : decl := p_decl "" no_filter (p_flt "!contains" [encode_hex addr_a]).
Lemma legacy_pushdown_neg_witness :
  process_log fixed p_decl_neg [] (p_env p_decl_neg) p_log = Ok [[VU256 5; VBytes (Some addr_b)]]
  /\ node_addr_pass (legacy_push_addrs p_decl_neg) p_log = false
  /\ node_addr_pass (push_addrs p_decl_neg) p_log = true.
Proof. repeat split; vm_compute; reflexivity. Qed.

(* "log_addr contains A" OR "a eq 5": accepted through the second filter, withheld by the node *)
Definition p_decl_or : decl :=
  p_decl "or" (p_flt "eq" [s2b "5"]) (p_flt "contains" [encode_hex addr_a]).
Lemma legacy_pushdown_or_witness :
  process_log fixed p_decl_or [] (p_env p_decl_or) p_log = Ok [[VU256 5; VBytes (Some addr_b)]]
  /\ node_addr_pass (legacy_push_addrs p_decl_or) p_log = false
  /\ node_addr_pass (push_addrs p_decl_or) p_log = true.
Proof. repeat split; vm_compute; reflexivity. Qed.

Lemma legacy_pushdown_refuted_l : ~ pushdown_statement legacy_push_addrs.
Proof.
  intros S.
  assert (P : process_log fixed p_decl_neg [] (p_env p_decl_neg) p_log = Ok [[VU256 5; VBytes (Some addr_b)]])
    by apply legacy_pushdown_neg_witness.
  assert (X : node_addr_pass (legacy_push_addrs p_decl_neg) p_log = true).
  { apply (S _ _ _ _ _ P); [discriminate|reflexivity|reflexivity]. }
  vm_compute in X. discriminate.
Qed.

(* with "and", or as the only filter, a positive address filter is still pushed down *)
Lemma pushdown_still_applies :
  push_addrs (p_decl "and" (p_flt "eq" [s2b "5"]) (p_flt "contains" [encode_hex addr_a])) = [encode_hex addr_a]
  /\ push_addrs (p_decl "" no_filter (p_flt "contains" [encode_hex addr_a; encode_hex addr_b]))
     = [encode_hex addr_a; encode_hex addr_b]
  /\ push_addrs (p_decl "or" no_filter (p_flt "eq" [encode_hex addr_a])) = [encode_hex addr_a].
Proof. repeat split; vm_compute; reflexivity. Qed.

(* ================= end to end: the restricted chain yields the same rows ================= *)
Lemma data_cells_env vr k dbs e e' topics srow i :
  (forall name, get_field e name = get_field e' name) ->
  forall cds ictr actr fr,
    data_cells vr k dbs e topics srow i cds ictr actr fr = data_cells vr k dbs e' topics srow i cds ictr actr fr.
Proof.
  intros G. induction cds as [|cd rest IH]; intros ictr actr fr; simpl; [reflexivity|].
  destruct (i_indexed (cd_input cd)).
  - destruct (nth_error topics (if lg_topic vr then ictr else cd_topic cd)); [|reflexivity].
    destruct (accept k dbs (i_filter (cd_input cd)) (dbtype vr (i_type (cd_input cd)) (Some b)) fr); simpl;
      [rewrite IH|..]; reflexivity.
  - destruct (cd_is_bd cd).
    + destruct (fld (bd_name (cd_bd cd)) "abi_idx"); [rewrite IH; reflexivity|].
      rewrite G. destruct (get_field e' (bd_name (cd_bd cd))) as [v| |]; simpl; try reflexivity.
      destruct (accept k dbs (bd_filter (cd_bd cd)) v fr); simpl; [rewrite IH|..]; reflexivity.
    + destruct (nth_error srow actr) as [c|]; [|reflexivity].
      destruct (accept k dbs (i_filter (cd_input cd)) (dbtype vr (i_type (cd_input cd)) c) fr); simpl;
        [rewrite IH|..]; reflexivity.
Qed.

Lemma nodata_cells_env vr k dbs e e' topics :
  (forall name, get_field e name = get_field e' name) ->
  forall cds j fr, nodata_cells vr k dbs e topics cds j fr = nodata_cells vr k dbs e' topics cds j fr.
Proof.
  intros G. induction cds as [|cd rest IH]; intros j fr; simpl; [reflexivity|].
  destruct (i_indexed (cd_input cd)).
  - destruct (nth_error topics (if lg_topic vr then S j else cd_topic cd)); [|reflexivity].
    destruct (accept k dbs (i_filter (cd_input cd)) (dbtype vr (i_type (cd_input cd)) (Some b)) fr); simpl;
      [rewrite IH|..]; reflexivity.
  - destruct (cd_is_bd cd); [|reflexivity].
    rewrite G. destruct (get_field e' (bd_name (cd_bd cd))) as [v| |]; simpl; try reflexivity.
    destruct (accept k dbs (bd_filter (cd_bd cd)) v fr); simpl; [rewrite IH|..]; reflexivity.
Qed.

Lemma concatM_i_ext {A B} (f g : nat -> A -> outcome (list B)) l : forall i,
  (forall n x, f n x = g n x) -> concatM_i f i l = concatM_i g i l.
Proof.
  induction l as [|x r IH]; intros i H; simpl; [reflexivity|]. rewrite H, (IH (S i) H). reflexivity.
Qed.

Lemma process_log_env vr d dbs e e' l :
  (forall name, get_field e name = get_field e' name) ->
  process_log vr d dbs e l = process_log vr d dbs e' l.
Proof.
  intros G. unfold process_log. destruct (negb (gate d l)); [reflexivity|].
  destruct (negb (is_nil (l_data l))).
  - destruct (l_scan l) as [srows| |]; simpl; try reflexivity.
    apply concatM_i_ext. intros n srow. rewrite (data_cells_env vr _ dbs e e' _ _ _ G). reflexivity.
  - rewrite (nodata_cells_env vr _ dbs e e' _ G). reflexivity.
Qed.

Lemma get_field_restricted c d b t ts ls l a name :
  get_field (mk_env c d (block_with_txs b ts) (tx_with_logs t ls) l a) name
  = get_field (mk_env c d b t l a) name.
Proof. reflexivity. Qed.

(* replacing each step by one that succeeds with the same result *)
Lemma concatM_same {A B} (f g : A -> outcome (list B)) l : forall out,
  concatM f l = Ok out -> (forall x o, In x l -> f x = Ok o -> g x = Ok o) -> concatM g l = Ok out.
Proof.
  induction l as [|x r IH]; intros out H S; [exact H|].
  rewrite concatM_cons in *. inv_bind_as H a Ha. inv_bind_as H b Hb. injection H as <-.
  rewrite (S x a (or_introl eq_refl) Ha). simpl.
  rewrite (IH b Hb); [reflexivity|]. intros y o Hy. apply S. right. exact Hy.
Qed.

(* dropping elements that contribute nothing *)
Lemma concatM_filter {A B} (f : A -> outcome (list B)) (p : A -> bool) l : forall out,
  concatM f l = Ok out -> (forall x o, In x l -> p x = false -> f x = Ok o -> o = []) ->
  concatM f (filter p l) = Ok out.
Proof.
  induction l as [|x r IH]; intros out H S; [exact H|].
  rewrite concatM_cons in H. inv_bind_as H a Ha. inv_bind_as H b Hb. injection H as <-.
  assert (Hr : concatM f (filter p r) = Ok b).
  { apply IH; [exact Hb|]. intros y o Hy. apply S. right. exact Hy. }
  simpl. destruct (p x) eqn:P.
  - rewrite concatM_cons, Ha, Hr. reflexivity.
  - rewrite (S x a (or_introl eq_refl) P Ha). exact Hr.
Qed.

Lemma restricted_same_rows d c dbs blocks rows :
  indexing fixed d = IxLog -> wf_bytes (d_sighash d) ->
  (forall b t l, In b blocks -> In t (b_txs b) -> In l (t_logs t) -> length (ob (l_addr l)) = 20%nat) ->
  insert fixed d c dbs blocks = Ok rows ->
  insert fixed d c dbs (node_filter (push_addrs d) (push_topics d) blocks) = Ok rows.
Proof.
  intros M W L H. unfold insert in *. rewrite M in *. unfold node_filter.
  rewrite concatM_map. eapply concatM_same; [exact H|].
  intros b ob Hb Hob. cbn [b_txs block_with_txs]. rewrite concatM_map.
  eapply concatM_same; [exact Hob|].
  intros t ot Ht Hot. cbn [t_logs tx_with_logs].
  rewrite (concatM_ext _ (fun l => process_log fixed d dbs (mk_env c d b t (Some l) None) l)).
  - apply concatM_filter; [exact Hot|].
    intros l o Hl P Hp. destruct o as [|r o]; [reflexivity|]. exfalso.
    unfold node_pass in P. apply andb_false_iff in P. destruct P as [P|P].
    + rewrite (address_sound d dbs _ l (r :: o) Hp) in P; [discriminate|discriminate|reflexivity|].
      apply (L b t l); assumption.
    + rewrite (topic_sound fixed d dbs _ l (r :: o) Hp) in P; [discriminate|discriminate|exact W].
  - intros l _. apply process_log_env. intros name. apply get_field_restricted.
Qed.
