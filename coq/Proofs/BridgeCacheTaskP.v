(* Bridge cached client -> task layer: what a task receives THROUGH the segment
   cache and the head cache satisfies the premises [reply_ok] / [growth_reply]
   of the task theorems (Model/BridgeCacheTask.v for the vocabulary).
   Composition of C08's [ccrun_validated] (cached_get_validated), the head
   cache theorems, C07's lemmas and the client->task bridge. *)
From Coq Require Import List NArith Bool Arith Lia ZifyBool ZifyN ZifyNat.
From Shovel Require Import Base.Outcome.
From Shovel Require Model.Cache Model.Client Model.ClientSpec Model.CacheClient Model.HeadCache
  Proofs.CacheP Proofs.ClientP Proofs.CacheClientP Proofs.HeadCacheP Proofs.BridgeClientTaskP.
From Shovel Require Model.TaskTypes Model.TaskDb Model.Task Model.TaskNode Model.TaskSys Model.TaskSpec.
From Shovel Require Model.BridgeCacheTask.
Import ListNotations.
Open Scope N_scope.
Arguments N.add : simpl never.
Arguments N.sub : simpl never.

(* ---------- lists ---------- *)
Lemma nth_error_firstn' {A} n : forall (l : list A) i,
  nth_error (firstn n l) i = if (i <? n)%nat then nth_error l i else None.
Proof.
  induction n as [|n IH]; intros l i.
  - simpl. destruct i; reflexivity.
  - destruct l as [|x r]; [destruct i; simpl; [reflexivity|destruct (S i <? S n)%nat; reflexivity]|].
    destruct i as [|i]; [reflexivity|]. simpl firstn.
    simpl nth_error. rewrite IH. reflexivity.
Qed.
Lemma nth_error_skipn' {A} k : forall (l : list A) i, nth_error (skipn k l) i = nth_error l (k + i).
Proof.
  induction k as [|k IH]; intros l i; [reflexivity|].
  destruct l as [|x r]; [destruct i; reflexivity|]. simpl. apply IH.
Qed.
Lemma nth_error_ext' {A} : forall (l1 l2 : list A), (forall i, nth_error l1 i = nth_error l2 i) -> l1 = l2.
Proof.
  induction l1 as [|x r IH]; intros [|y q] H.
  - reflexivity.
  - specialize (H 0%nat). discriminate.
  - specialize (H 0%nat). discriminate.
  - pose proof (H 0%nat) as H0. inversion H0. f_equal. apply IH. intros i. apply (H (S i)).
Qed.
Lemma Forall2_nth {A B} (R : A -> B -> Prop) l1 l2 : Forall2 R l1 l2 ->
  forall i a b, nth_error l1 i = Some a -> nth_error l2 i = Some b -> R a b.
Proof.
  induction 1 as [|x y r q Hxy _ IH]; intros i a b Ha Hb; [destruct i; discriminate|].
  destruct i as [|i]; simpl in Ha, Hb; [congruence|]. eapply IH; eauto.
Qed.

(* ================================================================== *)
(* Client side: everything in the vocabulary of Client.v / CacheClient *)
(* ================================================================== *)
Module CS.
Import Cache Client ClientSpec CacheClient CacheP ClientP CacheClientP BridgeCacheTask.

Lemma prefix_nth {A} : forall (v c : list A) i x,
  TaskSpec.is_prefix_of v c -> nth_error v i = Some x -> nth_error c i = Some x.
Proof.
  induction v as [|a v IH]; intros c i x Hp Hn; [destruct i; discriminate|].
  destruct c as [|b c]; [contradiction|]. destruct Hp as [-> Hp].
  destruct i as [|i]; [exact Hn|]. simpl in *. eapply IH; eauto.
Qed.

Lemma map_nhp (a b : list block) : map hdr a = map hdr b -> map nhp a = map nhp b.
Proof.
  intros H. unfold nhp. rewrite <- (map_map hdr fst a), <- (map_map hdr fst b), H. reflexivity.
Qed.

(* from the cached_get_validated conclusions to one statement per call *)
Lemma F2_worlds (P : world -> Prop) (R : ccop -> outcome (list block) -> Prop) :
  (forall op ws out, (forall bs, out = Ok bs -> validated op ws bs) -> Forall P ws -> R op out) ->
  forall ops ws outs, Forall P ws -> Forall (fun o => P (cc_world o)) ops ->
  Forall2 (fun op_ws out => forall bs, out = Ok bs -> validated (fst op_ws) (snd op_ws) bs)
          (combine ops (worlds_upto ws ops)) outs ->
  Forall2 R ops outs.
Proof.
  intros HR ops. induction ops as [|op r IH]; intros ws outs Hws Hops H; simpl in H.
  - inversion H. constructor.
  - inversion H as [|x out l outs' Hx Hr]; subst. inversion Hops as [|? ? Hw Hops']; subst.
    assert (Hws' : Forall P (ws ++ [cc_world op])).
    { apply Forall_app. split; [exact Hws|]. constructor; [exact Hw|constructor]. }
    constructor.
    + apply (HR op (ws ++ [cc_world op]) out); [exact Hx|exact Hws'].
    + apply (IH (ws ++ [cc_world op])); assumption.
Qed.

(* a blocks/headers reply of a version that is a prefix of canon, accepted by
   blocks()/headers(): the range lies inside canon and the accepted blocks are
   canon's, header by header *)
Lemma reply_on_canon cch v s l r fb :
  TaskSpec.is_prefix_of v cch -> blocks_of v r -> blocks_reply_ok s l r fb ->
  s + l <= N.of_nat (length cch) /\ map nhp fb = map nhp (cseg cch s l).
Proof.
  intros Hp Hb (es & -> & Hne & Hlen & Hpos & Hfl & Hi).
  assert (A : forall i, (i < N.to_nat l)%nat ->
            exists b x, nth_error fb i = Some b /\ nth_error cch (N.to_nat s + i) = Some x /\ nhp b = nhp x).
  { intros i Hlt. destruct (Hi i Hlt) as (e & b & He & Hr & Hf & Hh & Hn).
    destruct (Hb es e b eq_refl (nth_error_In _ _ He) Hr Hh) as (x & Hx & E).
    exists b, x. split; [exact Hf|]. split; [|exact E].
    apply (prefix_nth _ _ _ _ Hp). rewrite Hn in Hx.
    replace (N.to_nat s + i)%nat with (N.to_nat (s + N.of_nat i)) by lia. exact Hx. }
  split.
  - destruct (A (N.to_nat l - 1)%nat) as (b & x & _ & Hx & _); [lia|].
    assert (Hlt : (N.to_nat s + (N.to_nat l - 1) < length cch)%nat)
      by (apply nth_error_Some; rewrite Hx; discriminate).
    lia.
  - apply nth_error_ext'. intros i. rewrite !nth_error_map. unfold cseg.
    rewrite nth_error_firstn', nth_error_skipn'. destruct (i <? N.to_nat l)%nat eqn:E.
    + apply Nat.ltb_lt in E. destruct (A i E) as (b & x & Hb1 & Hx & Ebx). rewrite Hb1, Hx. simpl. f_equal. exact Ebx.
    + apply Nat.ltb_ge in E. assert (Hnone : nth_error fb i = None) by (apply nth_error_None; lia).
      rewrite Hnone. reflexivity.
Qed.

Lemma world_block_reply cch p w : world_on cch w ->
  exists v, TaskSpec.is_prefix_of v cch /\ blocks_of v (block_reply p w).
Proof.
  intros (v & Hp & Hb & Hh). exists v. split; [exact Hp|]. unfold block_reply. destruct (use_blocks p); assumption.
Qed.

(* growth, header part, from C08's [validated] alone *)
Lemma validated_on_canon cch op ws bs :
  Forall (world_on cch) ws -> fetches (cc_plan op) = true -> validated op ws bs ->
  cc_s op + cc_l op <= N.of_nat (length cch) /\ map nhp bs = map nhp (cseg cch (cc_s op) (cc_l op)).
Proof.
  intros Hws Hfe (Hnum & Hlk & base & Ha & Hfa & _ & Hb).
  destruct (Hb Hfe) as (w0 & fb & Hin & F & RO & E).
  rewrite Forall_forall in Hws. destruct (world_block_reply cch (cc_plan op) w0 (Hws _ Hin)) as (v & Hp & Hbo).
  destruct (reply_on_canon _ _ _ _ _ _ Hp Hbo RO) as [Hle Hfb].
  split; [exact Hle|].
  destruct (fetched_facts _ _ _ _ _ F E) as (_ & Hn & _ & _ & Hk).
  apply attach_p_spec in Ha. pose proof (attach_p_hdr _ _ _ _ _ _ _ Hn Hk Ha) as HH.
  rewrite (map_nhp _ _ HH), (map_nhp _ _ E). exact Hfb.
Qed.

(* ---------- any invariant of segment contents is carried by the caches ---------- *)
Section Inv.
Variable J : N -> N -> list block -> Prop.

Definition seg_J (c : cache (list block)) : Prop :=
  forall sid sg bs, nth_error (c_heap c) sid = Some sg -> sg_data sg = Some bs ->
    J (fst (sg_key sg)) (snd (sg_key sg)) bs.

Definition handed (op : ccop) (bs : list block) : Prop :=
  exists base, J (cc_s op) (cc_l op) base
    /\ attach repaired (cc_plan op) (cc_s op) (cc_l op) (cc_world op) base = Ok bs.

Lemma via_cache_J op r c c' res :
  fetches (cc_plan op) = true -> r = block_reply (cc_plan op) (cc_world op) ->
  op_keeps J op -> map_okD c -> seg_J c -> via_cache op r c = Some (c', res) ->
  map_okD c' /\ seg_J c' /\ forall bs, res = Ok bs -> handed op bs.
Proof.
  intros Hf -> [Ka Kb] M S H. unfold via_cache in H. unfold handed.
  set (p := cc_plan op) in *. set (s := cc_s op) in *. set (l := cc_l op) in *. set (w := cc_world op) in *.
  destruct (lookup (s, l) (cc_kept op) c) as [[[c1 sid] cr]|] eqn:L; [|discriminate].
  destruct (map_okD_lookup _ _ _ _ _ _ M L) as (M1 & (sg1 & N1 & K1) & OLD).
  assert (S1 : seg_J c1).
  { intros i sg bs N0 Dd. destruct (lookup_spec _ _ _ _ _ _ L) as (_ & _ & L3 & L4 & _ & _).
    destruct cr.
    - destruct (L4 eq_refl) as [Hh Hs]. rewrite Hh in N0.
      destruct (Nat.lt_ge_cases i (length (c_heap c))) as [Hlt|Hge].
      + rewrite nth_error_app1 in N0 by auto. eapply S; eauto.
      + rewrite nth_error_app2 in N0 by auto. destruct (i - length (c_heap c))%nat as [|j]; simpl in N0.
        * inversion N0; subst sg. discriminate.
        * destruct j; discriminate.
    - destruct (L3 eq_refl) as [Hh _]. rewrite Hh in N0. eapply S; eauto. }
  unfold read_f in H.
  destruct (read sid (fetch_value (getter_outcome s l (block_reply p w))) c1) as [[[c2 ret] asked]|] eqn:Rd; [|discriminate].
  destruct (read_spec _ _ _ _ _ _ Rd) as (sg & N0 & R1 & R2 & R3 & R4 & R5).
  assert (SG : sg = sg1) by congruence. subst sg1.
  assert (LT : (sid < length (c_heap c1))%nat) by (eapply nth_error_lt; eauto).
  assert (M2 : map_okD c2).
  { pose proof (map_okD_upd c1 sid sg (sg_nreads sg + 1)
                 (if asked then fetch_value (getter_outcome s l (block_reply p w)) else sg_data sg) M1 N0) as Hm.
    intros k sid0 Hin. rewrite R2 in Hin. specialize (Hm k sid0 Hin). simpl in Hm. rewrite R3. exact Hm. }
  assert (S2 : seg_J c2).
  { intros i sg0 bs N2 Dd. rewrite R3 in N2. destruct (Nat.eq_dec sid i) as [<-|Hne].
    - rewrite nth_error_upd_eq in N2 by auto. inversion N2; subst sg0. simpl in *.
      destruct asked.
      + apply getter_accepted in Dd. rewrite K1. simpl. apply Ka; [exact Hf|exact Dd].
      + eapply S1; eauto.
    - rewrite nth_error_upd_neq in N2 by auto. eapply S1; eauto. }
  destruct ret as [bs|].
  - assert (N2 : exists sg2, nth_error (c_heap c2) sid = Some sg2 /\ sg_data sg2 = Some bs /\ sg_key sg2 = (s, l)).
    { rewrite R3. eexists. split; [apply nth_error_upd_eq; auto|]. simpl. split; auto.
      destruct asked; [destruct (R5 eq_refl); congruence|destruct (R4 eq_refl); congruence]. }
    destruct N2 as (sg2 & N2 & D2 & K2).
    pose proof (S2 _ _ _ N2 D2) as Jb. rewrite K2 in Jb. simpl in Jb.
    destruct (attach_p p s l w bs) as [bs' ok] eqn:A. inversion H; subst c' res. clear H.
    pose proof (Kb _ _ _ Jb A) as Jb'.
    split; [|split].
    + unfold set_seg_data. rewrite N2. apply map_okD_upd; auto.
    + intros i sg0 bs0 N3 Dd. unfold set_seg_data in N3. rewrite N2 in N3. simpl in N3.
      destruct (Nat.eq_dec sid i) as [<-|Hne].
      * rewrite nth_error_upd_eq in N3 by (eapply nth_error_lt; eauto). inversion N3; subst sg0. simpl in *.
        inversion Dd; subst bs0. rewrite K2. exact Jb'.
      * rewrite nth_error_upd_neq in N3 by auto. eapply S2; eauto.
    + intros bs0 E0. destruct ok; [|discriminate]. inversion E0; subst bs0. clear E0.
      apply attach_p_spec in A. exists bs. split; assumption.
  - inversion H; subst c' res. clear H. split; auto. split; auto. intros bs0 E0; discriminate.
Qed.

Record J_inv (cl : cclient) : Prop := {
  ji_bm : map_okD (cc_b cl); ji_hm : map_okD (cc_h cl);
  ji_bs : seg_J (cc_b cl); ji_hs : seg_J (cc_h cl)
}.

Lemma ccget_J op cl cl' res :
  op_keeps J op -> J_inv cl -> ccget op cl = Some (cl', res) ->
  J_inv cl' /\ forall bs, res = Ok bs -> fetches (cc_plan op) = true -> handed op bs.
Proof.
  intros K [Bm Hm Bs Hs] H. unfold ccget in H.
  destruct (use_blocks (cc_plan op)) eqn:Ub.
  - destruct (via_cache op (w_blocks (cc_world op)) (cc_b cl)) as [[c r]|] eqn:V; [|discriminate].
    inversion H; subst cl' res. clear H.
    destruct (via_cache_J op (w_blocks (cc_world op)) (cc_b cl) c r) as (M' & S' & VV); auto.
    + unfold fetches. rewrite Ub. reflexivity.
    + unfold block_reply. rewrite Ub. reflexivity.
    + split; [constructor; simpl; auto|]. intros bs E _. apply VV. exact E.
  - destruct (use_headers (cc_plan op)) eqn:Uh.
    + destruct (via_cache op (w_headers (cc_world op)) (cc_h cl)) as [[c r]|] eqn:V; [|discriminate].
      inversion H; subst cl' res. clear H.
      destruct (via_cache_J op (w_headers (cc_world op)) (cc_h cl) c r) as (M' & S' & VV); auto.
      * unfold fetches. rewrite Ub, Uh. reflexivity.
      * unfold block_reply. rewrite Ub. reflexivity.
      * split; [constructor; simpl; auto|]. intros bs E _. apply VV. exact E.
    + destruct (attach_p _ _ _ _ _) as [bs' ok] eqn:A. inversion H; subst cl' res. clear H.
      split; [constructor; auto|]. intros bs _ Hfe. unfold fetches in Hfe. rewrite Ub, Uh in Hfe. discriminate.
Qed.

Lemma ccrun_J_gen ops : forall cl cl' outs,
  J_inv cl -> Forall (op_keeps J) ops -> ccrun cl ops = Some (cl', outs) ->
  Forall2 (fun op out => forall bs, out = Ok bs -> fetches (cc_plan op) = true -> handed op bs) ops outs.
Proof.
  induction ops as [|op r IH]; intros cl cl' outs I K H; simpl in H.
  - inversion H; subst. constructor.
  - destruct (ccget op cl) as [[cl1 res]|] eqn:G; [|discriminate].
    destruct (ccrun cl1 r) as [[cl2 outs']|] eqn:R; [|discriminate].
    inversion H; subst cl' outs. clear H. inversion K as [|? ? K1 K2]; subst.
    destruct (ccget_J _ _ _ _ K1 I G) as [I1 V]. constructor; [exact V|]. eapply IH; eauto.
Qed.

Lemma J_inv_init mx : J_inv (new_cclient mx).
Proof.
  constructor; simpl.
  - intros k sid [].
  - intros k sid [].
  - intros sid sg bs H. destruct sid; discriminate.
  - intros sid sg bs H. destruct sid; discriminate.
Qed.

Lemma ccrun_J mx ops cl outs :
  Forall (op_keeps J) ops -> ccrun (new_cclient mx) ops = Some (cl, outs) ->
  Forall2 (fun op out => forall bs, out = Ok bs -> fetches (cc_plan op) = true -> handed op bs) ops outs.
Proof. intros K H. eapply ccrun_J_gen; eauto. apply J_inv_init. Qed.
End Inv.

(* the header invariant: a segment of key (s, l) holds canon's blocks s..s+l-1,
   header by header, numbered, every hash known *)
Definition Jh (cch : list block) (s l : N) (bs : list block) : Prop :=
  numbered s bs /\ hashes_known bs /\ s + l <= N.of_nat (length cch) /\ map nhp bs = map nhp (cseg cch s l).

Lemma op_keeps_Jh cch (J : N -> N -> list block -> Prop) op :
  world_on cch (cc_world op) -> op_keeps J op ->
  op_keeps (fun s l bs => J s l bs /\ Jh cch s l bs) op.
Proof.
  intros Hw [Ka Kb]. split.
  - intros fb Hfe F. split; [apply Ka; assumption|].
    destruct (fetch_blocks_spec _ _ _ _ F) as (RO & Hn & _ & Hk).
    destruct (world_block_reply cch (cc_plan op) _ Hw) as (v & Hp & Hbo).
    destruct (reply_on_canon _ _ _ _ _ _ Hp Hbo RO) as [Hle Hfb].
    repeat split; assumption.
  - intros bs bs' ok [Jb (Hn & Hk & Hle & E)] A. split; [eapply Kb; eauto|].
    pose proof (attach_p_hdr _ _ _ _ _ _ _ Hn Hk A) as HH.
    split; [eapply numbered_proj; [apply map_hdr_num; exact HH|exact Hn]|].
    split; [eapply hashes_hdr; eauto|]. split; [exact Hle|]. rewrite (map_nhp _ _ HH). exact E.
Qed.

(* growth, full: headers AND rows *)
Lemma handed_on_canon cch rowsf (J : N -> N -> list block -> Prop) op bs :
  rows_canon rowsf cch J op ->
  handed (fun s l b => J s l b /\ Jh cch s l b) op bs ->
  cc_s op + cc_l op <= N.of_nat (length cch)
  /\ map nhp bs = map nhp (cseg cch (cc_s op) (cc_l op))
  /\ map rowsf bs = map rowsf (cseg cch (cc_s op) (cc_l op)).
Proof.
  intros Hr (base & [Jb (Hn & Hk & Hle & E)] & Ha).
  split; [exact Hle|]. split.
  - apply attach_p_spec in Ha. pose proof (attach_p_hdr _ _ _ _ _ _ _ Hn Hk Ha) as HH.
    rewrite (map_nhp _ _ HH). exact E.
  - apply (Hr base bs Jb E Ha).
Qed.

Lemma cached_result_F2 (R : ccop -> outcome (list block) -> Prop) mx ops i op bs :
  (forall cl outs, ccrun (new_cclient mx) ops = Some (cl, outs) -> Forall2 R ops outs) ->
  cached_result mx ops i op bs -> R op (Ok bs).
Proof.
  intros HF (cl & outs & Hrun & Hop & Hout). eapply Forall2_nth; [apply (HF _ _ Hrun)|exact Hop|exact Hout].
Qed.

Lemma cached_validated mx ops i op bs :
  cached_result mx ops i op bs -> exists ws, validated op ws bs.
Proof.
  intros Hres.
  refine (cached_result_F2 (fun op out => forall bs, out = Ok bs -> exists ws, validated op ws bs) mx ops i op bs
            _ Hres bs eq_refl).
  intros cl outs Hrun. apply (F2_worlds (fun _ => True)) with (ws := []).
  - intros o ws out H _ b E. exists ws. apply H. exact E.
  - constructor.
  - apply Forall_forall. intros; exact I.
  - eapply ccrun_validated; eauto.
Qed.

Lemma cached_headers_on_canon cch mx ops i op bs :
  Forall (fun o => world_on cch (cc_world o)) ops ->
  cached_result mx ops i op bs -> fetches (cc_plan op) = true ->
  cc_s op + cc_l op <= N.of_nat (length cch) /\ map nhp bs = map nhp (cseg cch (cc_s op) (cc_l op)).
Proof.
  intros Hw Hres Hfe.
  refine (cached_result_F2 (fun op out => forall bs, out = Ok bs -> fetches (cc_plan op) = true ->
            cc_s op + cc_l op <= N.of_nat (length cch) /\ map nhp bs = map nhp (cseg cch (cc_s op) (cc_l op)))
          mx ops i op bs _ Hres bs eq_refl Hfe).
  intros cl outs Hrun. apply (F2_worlds (world_on cch)) with (ws := []).
  - intros o ws out H Hws b E Hf. apply (validated_on_canon cch o ws b Hws Hf). apply H. exact E.
  - constructor.
  - exact Hw.
  - eapply ccrun_validated; eauto.
Qed.

Lemma cached_all_on_canon cch rowsf (J : N -> N -> list block -> Prop) mx ops i op bs :
  Forall (fun o => world_on cch (cc_world o)) ops -> Forall (op_keeps J) ops -> rows_canon rowsf cch J op ->
  cached_result mx ops i op bs -> fetches (cc_plan op) = true ->
  cc_s op + cc_l op <= N.of_nat (length cch)
  /\ map nhp bs = map nhp (cseg cch (cc_s op) (cc_l op))
  /\ map rowsf bs = map rowsf (cseg cch (cc_s op) (cc_l op)).
Proof.
  intros Hw Hk Hr Hres Hfe. apply (handed_on_canon cch rowsf J op bs Hr).
  refine (cached_result_F2 (fun op out => forall bs, out = Ok bs -> fetches (cc_plan op) = true ->
            handed (fun s l b => J s l b /\ Jh cch s l b) op bs) mx ops i op bs _ Hres bs eq_refl Hfe).
  intros cl outs Hrun. eapply ccrun_J; [|exact Hrun].
  rewrite Forall_forall in *. intros o Ho. apply op_keeps_Jh; auto.
Qed.
End CS.

(* ================================================================== *)
(* Task side                                                           *)
(* ================================================================== *)
From Shovel Require Proofs.TaskLoadP.
Import TaskTypes TaskDb Task TaskNode TaskSys TaskSpec BridgeCacheTask.

Section Bridge.
Variable hid : bytes -> N.
Variable rowsf : Client.block -> list (N * N).
Notation abs := (BridgeClientTaskP.abs hid rowsf).

(* (1) numbering, through the caches *)
Lemma cached_seg_numbered mx ops i op bs :
  cached_result mx ops i op bs ->
  seg_numbered (CacheClient.cc_s op, CacheClient.cc_l op) (SegOk (map abs bs)).
Proof.
  intros H. destruct (CS.cached_validated _ _ _ _ _ H) as (ws & Hn & _).
  cbn [seg_numbered fst snd]. rewrite map_map.
  rewrite (map_ext _ Client.b_num) by (intros; reflexivity). rewrite Hn. apply BridgeClientTaskP.seqN_nums.
Qed.

Lemma cached_reply_ok ps rs :
  Forall2 (cache_answer hid rowsf) ps rs -> reply_ok (RGet ps) (RSegs rs).
Proof.
  intros H. cbn [reply_ok]. induction H as [|pr r ps rs Hr _ IH]; constructor; [|exact IH].
  destruct r as [xs|k]; [|exact I]. destruct Hr as (mx & ops & i & op & bs & Hres & Hs & Hl & ->).
  destruct pr as [s l]. simpl in Hs, Hl. subst s l. apply (cached_seg_numbered _ _ _ _ _ Hres).
Qed.

(* internal linkage (the premise of the reorg theorems), through the caches *)
Lemma cached_seg_linked mx ops i op bs :
  (forall h, hid h = 0 <-> h = []) ->
  cached_result mx ops i op bs -> ClientSpec.fetches (CacheClient.cc_plan op) = true ->
  chain_ok (map abs bs) = true /\ Forall (fun b => b_hash b <> 0) (map abs bs).
Proof.
  intros hid_nil H Hf. destruct (CS.cached_validated _ _ _ _ _ H) as (ws & Hn & Hlk & _).
  destruct (Hlk Hf) as [Hl Hk]. rewrite BridgeClientTaskP.seqN_nums in Hn. split.
  - destruct bs as [|b0 bs]; [reflexivity|]. cbn [map chain_ok].
    apply BridgeClientTaskP.linked_abs; [exact Hl|].
    assert (El : N.to_nat (CacheClient.cc_l op) = length (b0 :: bs))
      by (rewrite <- (map_length Client.b_num), Hn; symmetry; apply TaskLoadP.nums_from_length).
    rewrite El in Hn. cbn [map length nums_from] in Hn. inversion Hn as [[Hb Hr]].
    first [reflexivity | exact Hr | rewrite Hb; exact Hr].
  - apply Forall_forall. intros x Hx. apply in_map_iff in Hx. destruct Hx as (b & <- & Hb).
    cbn [BridgeClientTaskP.abs b_hash]. intros E. apply hid_nil in E. revert E. apply Hk. exact Hb.
Qed.

(* ---------- canon ---------- *)
Lemma abs_eq : forall (a b : list Client.block),
  map nhp a = map nhp b -> map rowsf a = map rowsf b -> map abs a = map abs b.
Proof.
  induction a as [|x r IH]; intros [|y q] H1 H2; simpl in *; try discriminate; [reflexivity|].
  inversion H1 as [[E1 E2 E3 Er]]. inversion H2 as [[R1 Rr]]. f_equal; [|apply IH; assumption].
  unfold BridgeClientTaskP.abs. rewrite E1, E2, E3, R1. reflexivity.
Qed.

Lemma abs_same3 : forall (a b : list Client.block), map nhp a = map nhp b ->
  Forall2 (fun x y => b_num x = b_num y /\ b_hash x = b_hash y /\ b_parent x = b_parent y) (map abs a) (map abs b).
Proof.
  induction a as [|x r IH]; intros [|y q] H1; simpl in *; try discriminate; constructor.
  - inversion H1 as [[E1 E2 E3 Er]]. simpl. rewrite E1, E2, E3. auto.
  - inversion H1. apply IH. assumption.
Qed.

Lemma segment_canon cch s l : segment (canon hid rowsf cch) s l = map abs (cseg cch s l).
Proof. unfold segment, canon, cseg. rewrite skipn_map, firstn_map. reflexivity. Qed.
Lemma height_canon cch : height (canon hid rowsf cch) = N.of_nat (length cch).
Proof. unfold height, canon. rewrite map_length. reflexivity. Qed.

Lemma cwf_from_abs : (forall h, hid h = 0 <-> h = []) ->
  forall c n ph, cwf_from n ph c -> wf_from n (hid ph) (map abs c).
Proof.
  intros hid_nil. induction c as [|b r IH]; intros n ph H; [exact I|].
  destruct H as (H1 & H2 & H3 & H4). cbn [map wf_from BridgeClientTaskP.abs b_num b_hash b_parent].
  split; [exact H1|]. split; [intros E; apply hid_nil in E; contradiction|]. split; [rewrite H3; reflexivity|].
  apply IH. exact H4.
Qed.
Lemma canon_wf cch : (forall h, hid h = 0 <-> h = []) -> cchain_wf cch ->
  wf_chain (canon hid rowsf cch) /\ height (canon hid rowsf cch) = N.of_nat (length cch).
Proof.
  intros hid_nil H. split; [|apply height_canon]. destruct cch as [|g r]; [contradiction|].
  destruct H as (H1 & H2 & H3). cbn [canon map wf_chain BridgeClientTaskP.abs b_num b_hash].
  split; [exact H1|]. split; [intros E; apply hid_nil in E; contradiction|]. apply cwf_from_abs; assumption.
Qed.

(* (2) growth: headers from cached_get_validated alone *)
Lemma cached_growth_headers cch mx ops i op bs :
  Forall (fun o => world_on cch (CacheClient.cc_world o)) ops ->
  cached_result mx ops i op bs -> ClientSpec.fetches (CacheClient.cc_plan op) = true ->
  CacheClient.cc_s op + CacheClient.cc_l op <= height (canon hid rowsf cch)
  /\ Forall2 (fun x y => b_num x = b_num y /\ b_hash x = b_hash y /\ b_parent x = b_parent y)
             (map abs bs) (segment (canon hid rowsf cch) (CacheClient.cc_s op) (CacheClient.cc_l op)).
Proof.
  intros Hw Hres Hf. destruct (CS.cached_headers_on_canon cch _ _ _ _ _ Hw Hres Hf) as [Hle E].
  rewrite height_canon, segment_canon. split; [exact Hle|]. apply abs_same3. exact E.
Qed.

(* (2) growth: the whole partition *)
Lemma cached_canon_seg cch J mx ops i op bs :
  Forall (fun o => world_on cch (CacheClient.cc_world o)) ops -> Forall (op_keeps J) ops ->
  rows_canon rowsf cch J op ->
  cached_result mx ops i op bs -> ClientSpec.fetches (CacheClient.cc_plan op) = true ->
  canon_seg true (canon hid rowsf cch) (CacheClient.cc_s op, CacheClient.cc_l op) (SegOk (map abs bs)).
Proof.
  intros Hw Hk Hr Hres Hf.
  destruct (CS.cached_all_on_canon cch rowsf J _ _ _ _ _ Hw Hk Hr Hres Hf) as (Hle & E & Er).
  cbn [canon_seg fst snd view]. rewrite height_canon, segment_canon. split; [exact Hle|]. apply abs_eq; assumption.
Qed.

Lemma cached_growth_reply cch J ps rs :
  Forall2 (growth_cache_answer hid rowsf cch J) ps rs ->
  growth_reply true (canon hid rowsf cch) (RGet ps) (RSegs rs).
Proof.
  intros H. cbn [growth_reply]. induction H as [|pr r ps rs Hr _ IH]; constructor; [|exact IH].
  destruct r as [xs|k]; [|exact I].
  destruct Hr as (mx & ops & i & op & bs & Hw & Hk & Hrc & Hres & Hf & Hs & Hl & ->).
  destruct pr as [s l]. simpl in Hs, Hl. subst s l. eapply cached_canon_seg; eauto.
Qed.

(* (3) head cache *)
Lemma head_on_blk cch p : head_on cch p ->
  exists b, blk_at (canon hid rowsf cch) (fst p) = Some b /\ b_hash b = hid (snd p).
Proof.
  intros (x & Hx & Hh). exists (abs x). split.
  - unfold blk_at, canon. rewrite nth_error_map, Hx. reflexivity.
  - cbn [BridgeClientTaskP.abs b_hash]. rewrite Hh. reflexivity.
Qed.
Lemma head_on_lt cch p : head_on cch p -> fst p < N.of_nat (length cch).
Proof.
  intros (x & Hx & _). assert (Hlt : (N.to_nat (fst p) < length cch)%nat) by (apply nth_error_Some; rewrite Hx; discriminate).
  lia.
Qed.
Lemma head_on_32 cch p : hashes32 cch -> head_on cch p -> length (snd p) = 32%nat.
Proof. intros H32 (x & Hx & <-). apply H32. eapply nth_error_In; eauto. Qed.

(* a whole Latest call of a sequential client (hit or miss path) *)
Lemma head_latest_on_canon cch hs mx ops1 n src st' m h asked started :
  hashes32 cch ->
  (forall p, In p (HeadCache.l_announced (ops1 ++ [HeadCache.LLatest n src])) -> head_on cch p) ->
  HeadCache.h_latest n src (fst (HeadCache.l_run (HeadCache.head_init mx) ops1)) = (st', Some (m, h), asked, started) ->
  growth_reply hs (canon hid rowsf cch) (RLatest n) (RHead m (hid h))
  /\ (N.of_nat (length cch) <= nmax -> reply_ok (RLatest n) (RHead m (hid h))).
Proof.
  intros H32 Hann Hl.
  assert (Hin : In (m, h) (HeadCache.l_announced (ops1 ++ [HeadCache.LLatest n src]))).
  { eapply HeadCacheP.latest_pair_announced; [|exact Hl].
    intros p Hp. apply (head_on_32 cch p H32). apply Hann. rewrite HeadCacheP.l_announced_app.
    apply in_or_app. left. exact Hp. }
  pose proof (Hann _ Hin) as Ho. split.
  - cbn [growth_reply]. apply (head_on_blk cch (m, h) Ho).
  - intros Hb. cbn [reply_ok]. pose proof (head_on_lt cch (m, h) Ho) as Hlt. simpl in Hlt. lia.
Qed.

(* a hit under ANY interleaving of announcements, poller failures and reads *)
Lemma head_hit_on_canon cch hs mx ops1 n st' m h :
  hashes32 cch ->
  (forall m' h', In (HeadCache.HUpdate m' h') ops1 -> head_on cch (m', h')) ->
  HeadCache.h_step (fst (HeadCache.h_run (HeadCache.head_init mx) ops1)) (HeadCache.HGet n) = (st', HeadCache.OHit m h) ->
  growth_reply hs (canon hid rowsf cch) (RLatest n) (RHead m (hid h))
  /\ (N.of_nat (length cch) <= nmax -> reply_ok (RLatest n) (RHead m (hid h))).
Proof.
  intros H32 Hann Hl.
  assert (Hin : In (HeadCache.HUpdate m h) ops1).
  { eapply HeadCacheP.pair_announced; [|exact Hl]. intros m' h' Hp. apply (head_on_32 cch (m', h') H32). apply Hann. exact Hp. }
  pose proof (Hann _ _ Hin) as Ho. split.
  - cbn [growth_reply]. apply (head_on_blk cch (m, h) Ho).
  - intros Hb. cbn [reply_ok]. pose proof (head_on_lt cch (m, h) Ho) as Hlt. simpl in Hlt. lia.
Qed.

(* the miss path under any interleaving: the caller gets the source's direct
   answer, whatever the cache holds *)
Lemma head_miss_is_source n src st st' r asked started :
  HeadCache.h_latest n src st = (st', r, asked, started) -> asked = true -> r = src.
Proof.
  unfold HeadCache.h_latest. intros H Ha.
  destruct (HeadCache.h_step _ (HeadCache.HGet n)) as [st1 o].
  destruct o; try (destruct src as [[m h]|]; inversion H; subst; reflexivity).
  inversion H; subst. discriminate.
Qed.
End Bridge.

(* ---------- without a rows premise the growth statement is false ---------- *)
Lemma ex_hid_nil : forall h, ex_hid h = 0 <-> h = [].
Proof. intros [|x r]; simpl; split; intros H; try reflexivity; try discriminate. lia. Qed.

Lemma blocks_of_fail v : blocks_of v Client.RFail.
Proof. intros es e b E. discriminate. Qed.

Lemma ex_world_on n : (n = 3 \/ n = 4)%nat -> world_on ex_cch (ex_world n).
Proof.
  intros Hn. exists (firstn n ex_cch). split; [destruct Hn; subst n; vm_compute; repeat split|].
  split; [apply blocks_of_fail|].
  intros es e b E Hin Hr Hh. destruct Hn; subst n; vm_compute in E; inversion E; subst es;
    (destruct Hin as [<-|[<-|[]]]; vm_compute in Hr; inversion Hr; subst b;
     eexists; split; vm_compute; reflexivity).
Qed.

Lemma ex_fail_world_on rc : world_on ex_cch (Client.mkWorld Client.RFail Client.RFail rc Client.RFail []).
Proof. exists ex_cch. split; [vm_compute; repeat split|]. split; apply blocks_of_fail. Qed.

Lemma growth_needs_rows_premise : ~ cached_growth_unconditional_full.
Proof.
  intros H.
  assert (R : exists bs, cached_result 3 [ex_op1; ex_op2_bad] 1 ex_op2_bad bs
                /\ map (BridgeClientTaskP.abs ex_hid ex_rowsf) bs <> segment (canon ex_hid ex_rowsf ex_cch) 1 2).
  { eexists. split.
    - unfold cached_result. eexists. eexists. split; [vm_compute; reflexivity|]. split; reflexivity.
    - vm_compute. intros E. congruence. }
  destruct R as (bs & Hres & Hne).
  assert (C : canon_seg true (canon ex_hid ex_rowsf ex_cch) (1, 2)
                (SegOk (map (BridgeClientTaskP.abs ex_hid ex_rowsf) bs))).
  { apply (H ex_hid ex_rowsf ex_cch 3 [ex_op1; ex_op2_bad] 1%nat ex_op2_bad bs ex_hid_nil); [|exact Hres|reflexivity].
    constructor; [apply (ex_world_on 3); auto|]. constructor; [apply ex_fail_world_on|constructor]. }
  destruct C as [_ C]. apply Hne. exact C.
Qed.

(* ---------- the premises of the growth theorem are satisfiable ---------- *)
Lemma ex_growth_hyps :
  Forall (fun o => world_on ex_cch (CacheClient.cc_world o)) [ex_op_h; ex_op_h]
  /\ Forall (op_keeps ex_J) [ex_op_h; ex_op_h]
  /\ rows_canon ex_rowsf ex_cch ex_J ex_op_h
  /\ (exists bs, cached_result 3 [ex_op_h; ex_op_h] 1 ex_op_h bs)
  /\ ClientSpec.fetches (CacheClient.cc_plan ex_op_h) = true
  /\ cchain_wf ex_cch /\ cchain_wf ex_cch32 /\ hashes32 ex_cch32.
Proof.
  assert (W : world_on ex_cch (CacheClient.cc_world ex_op_h)).
  { exists (firstn 3 ex_cch). split; [vm_compute; repeat split|]. split; [apply blocks_of_fail|].
    intros es e b E Hin Hr Hh. vm_compute in E; inversion E; subst es.
    destruct Hin as [<-|[<-|[]]]; vm_compute in Hr; inversion Hr; subst b; eexists; split; vm_compute; reflexivity. }
  assert (K : op_keeps ex_J ex_op_h).
  { split.
    - intros fb _ F. vm_compute in F. inversion F; subst fb. repeat constructor.
    - intros bs bs' ok Jb A. unfold CacheClient.attach_p in A. simpl in A. inversion A; subst. exact Jb. }
  split; [constructor; [exact W|constructor; [exact W|constructor]]|].
  split; [constructor; [exact K|constructor; [exact K|constructor]]|]. split; [|split; [|split; [reflexivity|split]]].
  - intros base bs Jb E Ha. unfold Client.attach, Client.attach1, Client.attach2, Client.does_traces in Ha.
    simpl in Ha. inversion Ha; subst bs. clear Ha.
    destruct base as [|b1 [|b2 [|b3 r]]]; vm_compute in E; try discriminate.
    inversion Jb as [|? ? T1 Jb1]; subst. inversion Jb1 as [|? ? T2 _]; subst.
    unfold ex_rowsf. simpl. rewrite T1, T2. reflexivity.
  - eexists. unfold cached_result. eexists. eexists. split; [vm_compute; reflexivity|]. split; reflexivity.
  - vm_compute. repeat split; discriminate.
  - split; [vm_compute; repeat split; discriminate|]. intros x Hx. vm_compute in Hx. repeat (destruct Hx as [<-|Hx]; [reflexivity|]). contradiction.
Qed.
