(* C03: reorg convergence -- safety part, for ARBITRARY histories of
   well-formed chain versions: every answer of the node may come from a
   different version (per call, per partition of a load). *)
From Coq Require Import List NArith Bool Lia ZifyBool ZifyN ZifyNat.
From Shovel Require Import Model.TaskTypes Model.TaskDb Model.Task Model.TaskNode Model.TaskSys
  Model.TaskSpec Proofs.TaskArithP Proofs.TaskDbP Proofs.TaskExecP Proofs.TaskLoadP Proofs.TaskInvP
  Proofs.TaskLegacyP Proofs.TaskStepP Proofs.TaskChainP.
Import ListNotations.
Open Scope N_scope.

Section Hist.
Variable c : tcfg.
Variable H : list chain.
Hypothesis Hc : cfg_ok c.
Hypothesis HH : history_ok H.

Notation Gh := (node_ans true H).
Notation BPh := (in_history H).
Definition HPh (n h : N) : Prop := hash_ans H n h.
Definition HDh (_ : N) : Prop := True.
Definition RJh (p : list batch) : Prop := ~ stable H p.

Lemma Gh_ok : forall i r, Gh i r -> reply_ok i r.
Proof.
  intros i r Hg. destruct i, r; try exact I; cbn in *.
  - destruct Hg as (ch & b & Hin & Hb & _). destruct (HH ch Hin) as [_ Hs].
    apply blk_at_height in Hb. lia.
  - induction Hg as [|p sr ps rs Hp _ IH]; constructor; [|exact IH].
    destruct sr as [bs|k]; [|exact I]. cbn in *. destruct Hp as (ch & Hin & Hs & ->).
    destruct (HH ch Hin) as [Hw _]. unfold has_segment in Hs.
    replace (snd p) with (N.of_nat (N.to_nat (snd p))) at 1 by lia.
    apply (segment_facts true); [exact Hw|lia].
Qed.

Lemma on_chain_in_history : forall ch b, In ch H -> on_chain true ch b -> in_history H b.
Proof. intros ch b Hin (x & Hx & ->). exists ch. split; [exact Hin|exact Hx]. Qed.

Lemma Gh_bp : forall ps rs, Gh (RGet ps) (RSegs rs) -> Forall BPh (concat (map seg_blocks rs)).
Proof.
  intros ps rs Hg. cbn in Hg. induction Hg as [|p sr ps rs Hp _ IH]; [constructor|].
  cbn [map concat]. apply Forall_app. split; [|exact IH].
  destruct sr as [bs|k]; [|constructor]. cbn in *. destruct Hp as (ch & Hin & Hs & ->).
  destruct (HH ch Hin) as [Hw _]. unfold has_segment in Hs.
  replace (snd p) with (N.of_nat (N.to_nat (snd p))) by lia.
  eapply Forall_impl; [intros b; apply (on_chain_in_history ch b Hin)|].
  apply (segment_facts true); [exact Hw|lia].
Qed.

Lemma Gh_hp : forall n h, Gh (RHash n) (RHashV h) -> HPh n h.
Proof. intros n h Hg. exact Hg. Qed.
Lemma Gh_hd : forall k n h, Gh (RLatest k) (RHead n h) -> HDh n.
Proof. intros. exact I. Qed.

(* a reorg is detected only when the last indexed block is missing from some
   version: never below the fork of every version *)
Lemma reorg_justified : forall p ln lh f,
  W c BPh p -> pos_of c HPh HDh p ln lh -> BPh f -> b_num f = ln + 1 -> b_parent f <> 0 ->
  lh <> b_parent f -> RJh p.
Proof.
  intros p ln lh f Hw Hpos (ch & Hin & Hf) Hn Hp Hl Hst. apply Hl. clear Hl.
  unfold stable in Hst. unfold pos_of, gpos in Hpos.
  destruct (rev p) as [|b r]; [destruct Hst|]. destruct Hpos as [-> ->].
  specialize (Hst ch Hin). destruct (HH ch Hin) as [Hwf _].
  rewrite Hn in Hf. destruct (wf_chain_at ch _ f Hwf Hf) as (_ & _ & Hpar).
  replace (b_num (last_blk b) + 1 - 1) with (b_num (last_blk b)) in Hpar by lia.
  symmetry. apply (Hpar _ ltac:(lia) Hst).
Qed.

Lemma reorg_justified' : forall p ln lh ps segs f,
  W c BPh p -> pos_of c HPh HDh p ln lh -> Gh (RGet ps) (RSegs segs) -> In f (concat (map seg_blocks segs)) ->
  b_num f = ln + 1 -> b_parent f <> 0 -> lh <> b_parent f -> RJh p.
Proof.
  intros p ln lh ps segs f Hw Hpos Hg Hin. apply (reorg_justified p ln lh f Hw Hpos).
  pose proof (Gh_bp ps segs Hg) as Hb. rewrite Forall_forall in Hb. apply Hb. exact Hin.
Qed.

Lemma K_inv : forall g d0 x, Inv c True BPh HPh HDh RJh g (outside c d0) d0 x -> TaskInvH c H x.
Proof.
  intros g d0 x (_ & [(p & _ & [Hwp Hbp] & E)|(p & bs & _ & _ & [Hwp Hbp] & E)] & _);
    (eexists; split; [exact E|split; assumption]).
Qed.

(* invariant: every committed state is the rendering of a well-formed ghost
   whose blocks all belong to versions of the history *)
Lemma hist_all : forall g d s,
  pv c d = render c g -> wf_ghost c g -> Forall BPh (concat g) -> trace_sat Gh (step c s d) ->
  Forall (fun e => TaskInvH c H (snd e)) (r_trace (step c s d))
  /\ TaskInvH c H (r_db (step c s d)).
Proof.
  intros g d s Hpv Hw Hon Ht.
  destruct (step_all c Gh (fun _ => True) True BPh HPh HDh RJh Hc Gh_ok Gh_bp Gh_hp Gh_hd (fun _ _ => I) reorg_justified' g d s Hpv
                     (conj Hw Hon) (Forall_True s) Ht) as (A & B & _).
  split; [|eapply K_inv; exact B]. eapply Forall_impl; [|exact A]. intros e. apply K_inv.
Qed.

(* ---------- I4: the indexed blocks are hash-linked ---------- *)
Lemma weak_strong : forall l prev,
  linked_from prev l = true -> Forall BPh l -> strong_from prev l.
Proof.
  induction l as [|b l IH]; intros prev Hl Hb; [exact I|].
  cbn [linked_from] in Hl. apply andb_prop in Hl. destruct Hl as [Hl H3].
  apply andb_prop in Hl. destruct Hl as [H1 H2]. apply N.eqb_eq in H1.
  inversion Hb as [|? ? (ch & Hin & Hx) Hb']; subst. cbn [strong_from].
  split; [exact H1|]. split; [|apply IH; assumption].
  destruct (HH ch Hin) as [Hwf _].
  destruct (blk_at_prev ch (b_num prev) b ltac:(rewrite <- H1; exact Hx)) as (y & Hy).
  destruct (wf_chain_at ch (b_num b) b Hwf Hx) as (_ & _ & Hpar).
  rewrite H1 in Hpar. replace (b_num prev + 1 - 1) with (b_num prev) in Hpar by lia.
  specialize (Hpar y ltac:(lia) Hy).
  destruct (wf_chain_at ch (b_num prev) y Hwf Hy) as (_ & Hne & _).
  apply orb_prop in H2. destruct H2 as [H2|H2]; apply N.eqb_eq in H2; [congruence|].
  symmetry. exact H2.
Qed.

Lemma linked_lemma : forall d, TaskInvH c H d ->
  exists g, pv c d = render c g /\ wf_ghost c g /\ strong_linked (concat g).
Proof.
  intros d (g & Hpv & Hw & Hb). exists g. split; [exact Hpv|]. split; [exact Hw|].
  destruct Hw as (_ & Hch & _). destruct (concat g) as [|f l]; [exact I|].
  inversion Hb; subst. apply weak_strong; assumption.
Qed.

(* ---------- cursor on the final chain => table canonical ---------- *)
Lemma blk_at_in : forall ch n x, blk_at ch n = Some x -> In x ch.
Proof. intros ch n x Hx. unfold blk_at in Hx. eapply nth_error_In. exact Hx. Qed.

Lemma strong_from_app : forall l1 l2 prev, strong_from prev (l1 ++ l2) ->
  strong_from prev l1 /\ strong_from (last l1 prev) l2.
Proof.
  induction l1 as [|b l1 IH]; intros l2 prev Hs; [split; [exact I|exact Hs]|].
  cbn [app strong_from] in Hs. destruct Hs as (A & B & C). destruct (IH l2 b C) as [D E].
  split; [cbn; repeat split; assumption|].
  destruct l1 as [|b' l1']; [exact E|].
  change (last (b :: b' :: l1') prev) with (last (b' :: l1') prev).
  rewrite (last_default _ prev b) by discriminate. exact E.
Qed.

Section Final.
Variable final : chain.
Hypothesis Hfin : In final H.
Hypothesis Hid : hash_identifies H.

(* walking back from a block that is final's: every earlier one is final's too *)
Lemma back_on_final : forall l z,
  strong_linked (l ++ [z]) -> Forall BPh (l ++ [z]) -> blk_at final (b_num z) = Some z ->
  Forall (fun b => blk_at final (b_num b) = Some b) (l ++ [z]).
Proof.
  intros l. induction l as [|y l IH] using rev_ind; intros z Hs Hb Hz.
  - constructor; [exact Hz|constructor].
  - rewrite <- app_assoc in *. cbn [app] in *.
    (* y is the predecessor of z *)
    assert (Hyz : b_num z = b_num y + 1 /\ b_parent z = b_hash y).
    { destruct l as [|a l']; cbn [app strong_linked strong_from] in Hs.
      - destruct Hs as (A & B & _). split; assumption.
      - apply strong_from_app in Hs. destruct Hs as [_ Hs].
        cbn [strong_from] in Hs. destruct Hs as (_ & _ & A & B & _).
        destruct l' as [|a' l'']; cbn in *; split; assumption. }
    destruct Hyz as [Hn Hp].
    destruct (HH final Hfin) as [Hwf _].
    rewrite Hn in Hz. destruct (blk_at_prev final (b_num y) z Hz) as (y' & Hy').
    destruct (wf_chain_at final _ z Hwf Hz) as (_ & _ & Hpar).
    replace (b_num y + 1 - 1) with (b_num y) in Hpar by lia.
    specialize (Hpar y' ltac:(lia) Hy').
    assert (Hby : BPh y).
    { rewrite Forall_forall in Hb. apply Hb. apply in_or_app. right. left. reflexivity. }
    destruct Hby as (ch & Hin & Hy).
    assert (Ey : y = y').
    { apply (Hid ch final y y' Hin Hfin (blk_at_in _ _ _ Hy) (blk_at_in _ _ _ Hy')). congruence. }
    subst y'.
    replace (l ++ y :: [z]) with ((l ++ [y]) ++ [z]) by (rewrite <- app_assoc; reflexivity).
    apply Forall_app. split; [|constructor; [rewrite Hn; exact Hz|constructor]].
    apply IH.
    + replace (l ++ y :: [z]) with ((l ++ [y]) ++ [z]) in Hs by (rewrite <- app_assoc; reflexivity).
      destruct (l ++ [y]) as [|a r] eqn:E; [destruct l; discriminate|].
      cbn [app strong_linked] in Hs |- *. apply strong_from_app in Hs. apply Hs.
    + replace (l ++ y :: [z]) with ((l ++ [y]) ++ [z]) in Hb by (rewrite <- app_assoc; reflexivity).
      apply Forall_app in Hb. apply Hb.
    + exact Hy'.
Qed.

Lemma canonical_lemma : forall d n h x,
  TaskInvH c H d ->
  newest (t_src c) (t_ig c) (d_curs d) = Some (n, h) ->
  blk_at final n = Some x -> b_hash x = h ->
  exists m k, d_rows (pv c d) = rows_of c (segment final m k)
              /\ 1 <= k /\ m + k = n + 1 /\ m + k <= height final.
Proof.
  intros d n h x Hi Hn Hx Hh. destruct (linked_lemma d Hi) as (g & Hpv & Hw & Hs).
  destruct Hi as (g' & Hpv' & Hw' & Hb').
  assert (Hg : gpos g' = Some (n, h)).
  { rewrite <- Hn, <- newest_pv, Hpv'. symmetry. apply newest_render. exact Hw'. }
  clear g Hpv Hw Hs.
  assert (Hs : strong_linked (concat g')).
  { destruct Hw' as (_ & Hch & _). destruct (concat g') as [|f l]; [exact I|].
    inversion Hb'; subst. apply weak_strong; assumption. }
  unfold gpos in Hg. destruct (rev g') as [|b r] eqn:Er; [discriminate|]. inversion Hg; subst.
  apply (f_equal (@rev _)) in Er. rewrite rev_involutive in Er. cbn [rev] in Er.
  pose proof Hw' as (Hne & Hch & _). rewrite Forall_forall in Hne.
  assert (Hbn : b <> []) by (apply Hne; rewrite Er; apply in_or_app; right; left; reflexivity).
  destruct (exists_last Hbn) as (b' & z & Eb).
  assert (Ez : last_blk b = z) by (rewrite Eb; apply last_blk_last).
  assert (Ec : concat g' = (concat (rev r) ++ b') ++ [z]).
  { rewrite Er, concat_snoc, Eb, app_assoc. reflexivity. }
  rewrite Ec in Hs, Hb'.
  assert (Hzx : z = x).
  { assert (Hbz : BPh z) by (rewrite Forall_forall in Hb'; apply Hb'; apply in_or_app; right; left; reflexivity).
    destruct Hbz as (ch & Hin & Hz).
    apply (Hid ch final z x Hin Hfin (blk_at_in _ _ _ Hz) (blk_at_in _ _ _ Hx)). congruence. }
  rewrite Ez in *. subst x.
  destruct (HH final Hfin) as [Hwf _].
  destruct (wf_chain_at final _ z Hwf Hx) as (Hnz & _ & _).
  pose proof (back_on_final _ z Hs Hb' Hx) as Hon.
  assert (Hon' : Forall (on_chain true final) (concat g')).
  { rewrite Ec. eapply Forall_impl; [|exact Hon]. intros y Hy. exists y. split; [exact Hy|reflexivity]. }
  destruct (concat g') as [|f l] eqn:Ecg; [destruct (concat (rev r) ++ b'); discriminate|].
  pose proof (chain_nums f l Hch) as Hnums.
  destruct (on_chain_run true final _ _ _ Hon' Hnums) as [A B]. specialize (B ltac:(discriminate)).
  exists (b_num f), (N.of_nat (length (f :: l))).
  assert (Hlast : b_num z + 1 = b_num f + N.of_nat (length (f :: l))).
  { assert (El : last_blk (f :: l) = z).
    { rewrite Ec. apply last_blk_last. }
    destruct (length (f :: l)) as [|k] eqn:El'; [discriminate|].
    rewrite <- El, (nums_from_last k (b_num f) (f :: l) Hnums). lia. }
  split; [rewrite Hpv'; cbn [render d_rows]; rewrite Ecg, A at 1; reflexivity|].
  split; [cbn [length]; lia|]. split; [lia|]. exact B.
Qed.
End Final.
End Hist.

(* ---------- the unwind removes exactly the last batch ---------- *)
Definition unwind_ws (c : tcfg) (p : list batch) (b : list blk) : list wop :=
  [WDelCur (t_src c) (t_ig c) (b_num (last_blk b));
   WDelRows (t_tbl c) (t_src c) (t_ig c)
            (match gpos p with Some (n, _) => n + 1 | None => 0 end)].
(* what the pinned code issued: rows >= the deleted position only *)
Definition legacy_unwind_ws (c : tcfg) (b : list blk) : list wop :=
  [WDelCur (t_src c) (t_ig c) (b_num (last_blk b));
   WDelRows (t_tbl c) (t_src c) (t_ig c) (b_num (last_blk b))].

Lemma unwind_exact : forall c p b, wf_ghost c (p ++ [b]) ->
  apply_ws (unwind_ws c p b) (render c (p ++ [b])) = render c p.
Proof.
  intros c p b Hw. unfold unwind_ws, apply_ws. cbn [fold_left].
  rewrite del_cur_render by exact Hw.
  assert (Hwp : wf_ghost c p) by (eapply wf_ghost_prefix; exact Hw).
  destruct (gpos p) as [[n h]|] eqn:Gp.
  - apply del_rows_render; [exact Hw| |].
    + intros x Hx. pose proof (ghost_below_pos c p n h Hwp Gp x Hx). lia.
    + intros x Hx. destruct Hw as (Hne & Hch & _). rewrite concat_snoc in Hch.
      unfold gpos in Gp. destruct (rev p) as [|q r] eqn:Er; [discriminate|]. inversion Gp; subst.
      apply (f_equal (@rev _)) in Er. rewrite rev_involutive in Er. cbn [rev] in Er.
      assert (Hq : q <> []).
      { rewrite Forall_forall in Hne. apply Hne. rewrite Er. apply in_or_app. left.
        apply in_or_app. right. left. reflexivity. }
      assert (Hin : In (last_blk q) (concat p)).
      { rewrite Er. apply (in_concat_batch _ q); [apply in_or_app; right; left; reflexivity|].
        apply last_blk_in. exact Hq. }
      pose proof (chain_ok_app_lt _ _ Hch _ _ Hin Hx). lia.
  - assert (p = []).
    { unfold gpos in Gp. destruct (rev p) eqn:Er; [|discriminate].
      apply (f_equal (@rev _)) in Er. rewrite rev_involutive in Er. exact Er. }
    subst p. apply del_rows_render; [exact Hw| |].
    + intros x [].
    + intros x _. lia.
Qed.

(* legacy: a batch of three blocks keeps the rows of its first two *)
Definition lw_cfg : tcfg := Task 1 1 2 3 1 0 3 1 [] true true.
Definition lw_batch : list blk := [Blk 4 104 103 [(1,14)]; Blk 5 105 104 [(1,15)]; Blk 6 106 105 [(1,16)]].
Lemma legacy_unwind_leaves_rows :
  apply_ws (legacy_unwind_ws lw_cfg lw_batch) (render lw_cfg [lw_batch])
  = Db [] [Row 3 1 2 4 1 14; Row 3 1 2 5 1 15]
  /\ apply_ws (unwind_ws lw_cfg [] lw_batch) (render lw_cfg [lw_batch]) = Db [] [].
Proof. vm_compute. split; reflexivity. Qed.

(* ---------- below the fork nothing is touched ---------- *)
Lemma unw_keeps_stable : forall H g p,
  unw (fun q => ~ stable H q) g p ->
  forall p0 q0, g = p0 ++ q0 -> stable H p0 -> exists q, p = p0 ++ q.
Proof.
  intros H g p Hu. induction Hu as [|p b _ IH Hrj]; intros p0 q0 Eg Hst.
  - exists q0. exact Eg.
  - destruct (IH p0 q0 Eg Hst) as (q & Eq).
    destruct q as [|x q'] using rev_ind.
    + rewrite app_nil_r in Eq. subst p0. contradiction.
    + clear IHq'. rewrite app_assoc in Eq. apply app_inj_tail in Eq. destruct Eq as [Ep _].
      exists q'. exact Ep.
Qed.

Section Below.
Variable c : tcfg.
Variable H : list chain.
Hypothesis Hc : cfg_ok c.
Hypothesis HH : history_ok H.

(* if the batches [p0] of the ghost end in a block that every version of the
   history contains (they lie below every fork), every committed state of the
   step still begins with exactly these batches: their cursors and rows are
   never deleted or rewritten *)
Lemma below_fork : forall p0 q0 d s,
  pv c d = render c (p0 ++ q0) -> wf_ghost c (p0 ++ q0) -> Forall (in_history H) (concat (p0 ++ q0)) ->
  stable H p0 -> trace_sat (node_ans true H) (step c s d) ->
  Forall (fun e => exists q, pv c (snd e) = render c (p0 ++ q)) (r_trace (step c s d))
  /\ exists q, pv c (r_db (step c s d)) = render c (p0 ++ q).
Proof.
  intros p0 q0 d s Hpv Hw Hon Hst Ht.
  destruct (step_all c (node_ans true H) (fun _ => True) True (in_history H) (HPh H) HDh (RJh H) Hc (Gh_ok H HH)
                     (Gh_bp H HH) (Gh_hp H) (Gh_hd H) (fun _ _ => I) (reorg_justified' c H HH)
                     (p0 ++ q0) d s Hpv (conj Hw Hon) (Forall_True s) Ht) as (A & B & _).
  assert (K : forall x, Inv c True (in_history H) (HPh H) HDh (RJh H) (p0 ++ q0) (outside c d) d x ->
                        exists q, pv c x = render c (p0 ++ q)).
  { intros x (_ & [(p & Hu & _ & E)|(p & bs & Hu & _ & _ & E)] & _);
      destruct (unw_keeps_stable H _ _ Hu p0 q0 eq_refl Hst) as (q & ->).
    - exists q. exact E.
    - exists (q ++ [bs]). rewrite app_assoc. exact E. }
  split; [|apply K; exact B]. eapply Forall_impl; [|exact A]. intros e. apply K.
Qed.
End Below.

(* TaskInvH over whole runs: any number of steps, any faults, every answer
   from any version of the history (stale answers included) *)
Lemma hist_runs : forall c H, cfg_ok c -> history_ok H -> forall ss d,
  TaskInvH c H d -> runs_sat (node_ans true H) c ss d ->
  Forall (TaskInvH c H) (run_dbs c ss d) /\ TaskInvH c H (run_end c ss d).
Proof.
  intros c H Hc HH ss. induction ss as [|s ss IH]; intros d Hi Hs; [split; [constructor|exact Hi]|].
  destruct Hs as [Ht Hs]. destruct Hi as (g & Hpv & Hw & Hon).
  destruct (hist_all c H Hc HH g d s Hpv Hw Hon Ht) as [A B].
  destruct (IH _ B Hs) as [C D]. split.
  - cbn [run_dbs]. apply Forall_app. split; [|exact C].
    apply Forall_forall. intros x Hx. apply in_map_iff in Hx. destruct Hx as (e & <- & He).
    rewrite Forall_forall in A. apply (A e He).
  - unfold run_end in *. cbn [run_steps]. fold (step c s d).
    destruct (run_steps repaired c ss (r_db (step c s d))) as [d' os] eqn:E. cbn [fst] in *. exact D.
Qed.
