(* Bridge ABI decoder (C09) -> unique key (C16): the row-count law of
   Result.Scan derived from Model/AbiScan.v, its instantiation on chains whose
   decodings are the decoder model's ([chain_with_scan]), and the key bridge's
   main theorem without the premise [single_row_scans]. *)
From Coq Require Import String List NArith ZArith Bool Lia ZifyN ZifyNat ZifyBool.
From Shovel Require Import Base.Outcome Model.Hex Model.Bint Model.AbiType Model.AbiScan Model.AbiEnc
     Model.AbiParse Model.Filter Model.Rows Model.RowsAbi Model.BridgeRowsTask Model.BridgeKey
     Model.BridgeScanRows.
From Shovel Require Import Proofs.AbiScanP Proofs.AbiEncP Proofs.BridgeKeyP.
From Shovel Require Model.Config Model.ConfigGen Model.TaskTypes Model.TaskSpec.
Import ListNotations.
Open Scope N_scope.
Arguments N.add : simpl never.
Arguments N.sub : simpl never.
Arguments N.mul : simpl never.
Arguments N.div : simpl never.
Arguments N.ltb : simpl never.
Arguments N.leb : simpl never.
Arguments N.eqb : simpl never.
Arguments N.pow : simpl never.

(* ================= 1. the row-count law on arbitrary input ================= *)
Section Law.
Variable D : bytes.
Variable ncols : nat.

(* n <= len(collection) *)
Definition lenok (s : st) : Prop := (nrows s <= length (coll s))%nat.

(* what a successful step adds *)
Definition adds (s s' : st) (n : nat) : Prop :=
  nrows s' = (nrows s + n)%nat /\ (lenok s -> lenok s').

Lemma adds_refl s : adds s s 0.
Proof. split; [lia|auto]. Qed.

Lemma adds_trans s s1 s2 n m k : adds s s1 n -> adds s1 s2 m -> k = (n + m)%nat -> adds s s2 k.
Proof. intros [a1 b1] [a2 b2] ->. split; [lia|auto]. Qed.

Lemma tick_adds s : adds s (tick s) 0.
Proof. unfold adds, lenok, tick; cbn. split; [lia|auto]. Qed.

Lemma put_adds s c p v s' : put s c p v = SOk s' -> adds s s' 0.
Proof.
  unfold put. destruct c as [|i].
  - destruct (Nat.ltb p (length (single s))); [|discriminate]. intros [= <-].
    unfold adds, lenok, with_single; cbn. split; [lia|auto].
  - destruct (nth_error (coll s) i) as [r|]; [|discriminate].
    destruct (Nat.ltb p (length r)); [|discriminate]. intros [= <-].
    unfold adds, lenok, with_coll; cbn. rewrite set_nth_length. split; [lia|auto].
Qed.

Lemma get_row_adds s s' c : get_row ncols s = Some (s', c) -> adds s s' 1.
Proof.
  unfold get_row.
  set (c1 := if Nat.leb (length (coll s)) (S (nrows s)) then coll s ++ [blank ncols] else coll s).
  destruct (Nat.ltb (nrows s) (length c1)) eqn:E; [|discriminate]. intros [= <- _].
  unfold adds, lenok; cbn. rewrite set_nth_length. split; [lia|]. intros _. apply Nat.ltb_lt in E. lia.
Qed.

Definition Prc (t : aty) : Prop :=
  forall s c o s', scan D ncols t s c o = SOk s' -> adds s s' (row_count D t o).

Section Loop.
  Variable e : aty.
  Hypothesis He : Prc e.

  Definition per_elem (o h : N) (i : N) : nat :=
    ((if is_arr e then 0 else 1) + row_count D e (elem_off D e o h i))%nat.

  Lemma arr_body_adds o c s0 h i s1 :
    arr_body D ncols e (scan D ncols e) o c (tick s0) (h + i * step e) h = SOk s1 ->
    adds s0 s1 (per_elem o h i).
  Proof.
    unfold arr_body, per_elem, elem_off, step. intros H.
    assert (Hsc : exists s2 c2, (if is_arr e then Some (tick s0, c) else get_row ncols (tick s0)) = Some (s2, c2)
                                /\ adds s0 s2 (if is_arr e then 0 else 1)).
    { destruct (is_arr e).
      - exists (tick s0), c. split; [reflexivity|]. apply tick_adds.
      - destruct (get_row ncols (tick s0)) as [[s2 c2]|] eqn:Eg; [|discriminate].
        exists s2, c2. split; [reflexivity|]. apply get_row_adds in Eg.
        eapply adds_trans; [apply tick_adds|exact Eg|reflexivity]. }
    destruct Hsc as (s2 & c2 & Eq & Ha). rewrite Eq in H.
    destruct (is_static e).
    - destruct (slen D o <? h + i * size e); [discriminate|].
      unfold sfrom in H. destruct (slen D o <? h + i * size e); [discriminate|]. cbn [lift] in H.
      apply He in H. eapply adds_trans; [exact Ha|exact H|reflexivity].
    - destruct (slen D o <? h + i * 32 + 32); [discriminate|].
      unfold word_at in H. destruct (slen D o <? h + i * 32 + 32); [discriminate|]. cbn [lift] in H.
      fold (rd D (o + (h + i * 32))) in H.
      destruct (slen D o - h <? rd D (o + (h + i * 32))); [discriminate|].
      unfold sfrom in H. destruct (slen D o <? h + rd D (o + (h + i * 32))); [discriminate|]. cbn [lift] in H.
      apply He in H. eapply adds_trans; [exact Ha|exact H|reflexivity].
  Qed.

  Lemma arr_loop_adds o c h : forall fuel i len s0 s',
    arr_loop D ncols e (scan D ncols e) o c fuel i len (h + i * step e) h s0 = SOk s' ->
    adds s0 s' (nsum (N.to_nat (len - i)) i (per_elem o h)).
  Proof.
    induction fuel as [|fuel IH]; intros i len s0 s' H; [discriminate|].
    cbn [arr_loop] in H. destruct (len <=? i) eqn:El.
    - injection H as <-. replace (N.to_nat (len - i)) with O by lia. apply adds_refl.
    - destruct (arr_body D ncols e (scan D ncols e) o c (tick s0) (h + i * step e) h) as [s1|s1| |] eqn:Eb;
        try discriminate.
      apply arr_body_adds in Eb.
      replace (h + i * step e + step e) with (h + (i + 1) * step e) in H by lia.
      apply IH in H.
      replace (N.to_nat (len - i)) with (S (N.to_nat (len - (i + 1)))) by lia.
      cbn [nsum]. eapply adds_trans; [exact Eb|exact H|reflexivity].
  Qed.
End Loop.

Lemma scan_adds t : Prc t.
Proof.
  induction t as [sel|sel|k e IH|fs IH] using aty_ind'; intros s c o s' H.
  - cbn [scan] in H. cbn [row_count]. destruct (slen D o <? 32); [discriminate|].
    destruct sel as [p|]; [|injection H as <-; apply adds_refl].
    destruct (srange D o 0 32) as [r| |]; cbn [lift] in H; try discriminate.
    eapply put_adds; exact H.
  - cbn [scan] in H. cbn [row_count]. destruct (slen D o <? 32); [discriminate|].
    destruct (word_at D o 0) as [w| |]; cbn [lift] in H; try discriminate.
    destruct (w =? 0); [injection H as <-; apply adds_refl|].
    destruct (slen D o - 32 <? w); [discriminate|].
    destruct sel as [p|]; [|injection H as <-; apply adds_refl].
    destruct (srange D o 32 (32 + w)) as [r| |]; cbn [lift] in H; try discriminate.
    eapply put_adds; exact H.
  - cbn [scan] in H. cbn [row_count]. destruct (has_select e); cbn [negb] in *;
      [|injection H as <-; apply adds_refl].
    unfold arr_len, arr_hd. destruct (k =? 0) eqn:Ek.
    + destruct (slen D o <? 32) eqn:E32; [discriminate|].
      unfold word_at in H. replace (slen D o <? 0 + 32) with false in H by lia. cbn [lift] in H.
      replace (o + 0) with o in H by lia. fold (rd D o) in H.
      destruct ((slen D o - 32) / 32 <? rd D o); [discriminate|].
      pose proof (arr_loop_adds e IH o c 32 (fuel0 D) 0 (rd D o) s s') as HL.
      replace (32 + 0 * step e) with 32 in HL by lia. specialize (HL H).
      replace (rd D o - 0) with (rd D o) in HL by lia. exact HL.
    + pose proof (arr_loop_adds e IH o c 0 (fuel0 D) 0 k s s') as HL.
      replace (0 + 0 * step e) with 0 in HL by lia. specialize (HL H).
      replace (k - 0) with k in HL by lia. exact HL.
  - cbn [scan] in H. cbn [row_count]. destruct (existsb has_select fs); cbn [negb] in *;
      [|injection H as <-; apply adds_refl].
    revert H.
    match goal with |- ?F fs 0 s = _ -> adds _ _ (?G fs 0) =>
      cut (forall pos s0, F fs pos s0 = SOk s' -> adds s0 s' (G fs pos));
        [intros HH; apply HH|] end.
    clear s.
    induction IH as [|f fs Hf _ IH2]; intros pos s0 H; [injection H as <-; apply adds_refl|].
    destruct (is_static f).
    + destruct (slen D o <? pos); [discriminate|].
      unfold sfrom in H. destruct (slen D o <? pos); [discriminate|]. cbn [lift] in H.
      destruct (scan D ncols f s0 c (o + pos)) as [s1|s1| |] eqn:Es; try discriminate.
      apply Hf in Es. apply IH2 in H. eapply adds_trans; [exact Es|exact H|reflexivity].
    + destruct (slen D o <? pos + 32); [discriminate|].
      unfold word_at in H. destruct (slen D o <? pos + 32); [discriminate|]. cbn [lift] in H.
      fold (rd D (o + pos)) in H.
      destruct (slen D o <? rd D (o + pos)); [discriminate|].
      unfold sfrom in H. destruct (slen D o <? rd D (o + pos)); [discriminate|]. cbn [lift] in H.
      destruct (scan D ncols f s0 c (o + rd D (o + pos))) as [s1|s1| |] eqn:Es; try discriminate.
      apply Hf in Es. apply IH2 in H. eapply adds_trans; [exact Es|exact H|reflexivity].
Qed.

(* Result.Scan: Len() and the number of rows handed out *)
Lemma result_scan_len t s s' :
  result_scan D ncols t s = SOk s' ->
  nrows s' = scan_len D t /\ length (rows_out s') = scan_len D t /\ length (vrows D s') = scan_len D t.
Proof.
  unfold result_scan, scan_len. intros H.
  destruct (scan D ncols t _ CSingle 0) as [s1|s1| |] eqn:Es; try discriminate.
  apply scan_adds in Es. destruct Es as [En El]. cbn [nrows] in En.
  assert (Hl1 : lenok s1) by (apply El; unfold lenok; cbn; lia).
  assert (Hs2 : exists s2, (if Nat.eqb (nrows s1) 0 then option_map fst (get_row ncols s1) else Some s1) = Some s2
                           /\ nrows s2 = Nat.max 1 (row_count D t 0) /\ lenok s2).
  { destruct (Nat.eqb (nrows s1) 0) eqn:E0.
    - destruct (get_row ncols s1) as [[s2 c2]|] eqn:Eg; cbn [option_map] in H; [|discriminate].
      exists s2. split; [reflexivity|]. apply get_row_adds in Eg. destruct Eg as [a b].
      apply Nat.eqb_eq in E0. split; [lia|auto].
    - exists s1. split; [reflexivity|]. apply Nat.eqb_neq in E0. split; [lia|assumption]. }
  destruct Hs2 as (s2 & Eq & Hn & Hl). rewrite Eq in H. injection H as <-.
  assert (Hr : length (rows_out (with_coll s2 (map_first (nrows s2) (overlay (single s2)) (coll s2))))
               = Nat.max 1 (row_count D t 0)).
  { unfold rows_out, with_coll; cbn [nrows coll]. rewrite firstn_length, map_first_length.
    unfold lenok in Hl. lia. }
  split; [exact Hn|]. split; [exact Hr|]. unfold vrows. rewrite map_length. exact Hr.
Qed.
End Law.

(* no selected leaf under an array: scan creates no row *)
Lemma row_count_no_sel_arr D t : no_sel_arr t = true -> forall o, row_count D t o = O.
Proof.
  induction t as [sel|sel|k e IH|fs IH] using aty_ind'; intros Hn o; cbn [row_count]; try reflexivity.
  - cbn [no_sel_arr] in Hn. rewrite Hn. reflexivity.
  - destruct (existsb has_select fs); cbn [negb]; [|reflexivity].
    cbn [no_sel_arr] in Hn. generalize 0 as pos.
    induction IH as [|f fs Hf _ IH2]; intros pos; [reflexivity|].
    cbn [forallb] in Hn. apply andb_true_iff in Hn. destruct Hn as [H1 H2].
    rewrite (Hf H1), (IH2 H2). reflexivity.
Qed.

(* nsum of a constant / pointwise equal summands *)
Lemma nsum_ext n : forall i g g', (forall j, g j = g' j) -> nsum n i g = nsum n i g'.
Proof. induction n as [|n IH]; intros i g g' H; cbn [nsum]; [reflexivity|]. rewrite H, (IH _ g g' H). reflexivity. Qed.
Lemma nsum_const n c : forall i, nsum n i (fun _ => c) = (n * c)%nat.
Proof. induction n as [|n IH]; intros i; cbn [nsum]; [reflexivity|]. rewrite IH. lia. Qed.

(* a one-level array (element not an array, no selected array inside it): one
   row per element *)
Lemma row_count_flat_array D k e o :
  has_select e = true -> is_arr e = false -> no_sel_arr e = true ->
  row_count D (TArr k e) o = N.to_nat (arr_len D k o).
Proof.
  intros Hs Ha Hn. cbn [row_count]. rewrite Hs, Ha. cbn [negb].
  rewrite (nsum_ext _ _ _ (fun _ => 1%nat)).
  - rewrite nsum_const. lia.
  - intros j. rewrite row_count_no_sel_arr by exact Hn. reflexivity.
Qed.

(* an array of arrays creates no row of its own: the sum of its elements' counts *)
Lemma row_count_array_of_arrays D k e o :
  has_select e = true -> is_arr e = true ->
  row_count D (TArr k e) o
  = nsum (N.to_nat (arr_len D k o)) 0 (fun i => row_count D e (elem_off D e o (arr_hd k) i)).
Proof. intros Hs Ha. cbn [row_count]. rewrite Hs, Ha. reflexivity. Qed.

(* ================= 2. declarations without a selected data input ================= *)
Lemma parse_array_has_select lg : forall fuel elm s t,
  parse_array lg fuel elm s = Ok t -> has_select t = has_select elm.
Proof.
  induction fuel as [|fuel IH]; intros elm s t H; [discriminate|].
  cbn [parse_array] in H. destruct (negb (contains_byte RBR s)); [injection H as <-; reflexivity|].
  destruct s as [|x [|y r]]; try discriminate.
  - destruct (if lg then _ else _) as [|n ns] eqn:En.
    + destruct (parse_array lg fuel elm _) as [e| |] eqn:Ep; cbn [bind] in H; try discriminate.
      injection H as <-. cbn [has_select]. eapply IH; exact Ep.
    + destruct (atoi (n :: ns)) as [k|]; [|discriminate].
      destruct (parse_array lg fuel elm _) as [e| |] eqn:Ep; cbn [bind] in H; try discriminate.
      injection H as <-. cbn [has_select]. eapply IH; exact Ep.
  - destruct (if lg then _ else _) as [|n ns] eqn:En.
    + destruct (parse_array lg fuel elm _) as [e| |] eqn:Ep; cbn [bind] in H; try discriminate.
      injection H as <-. cbn [has_select]. eapply IH; exact Ep.
    + destruct (atoi (n :: ns)) as [k|]; [|discriminate].
      destruct (parse_array lg fuel elm _) as [e| |] eqn:Ep; cbn [bind] in H; try discriminate.
      injection H as <-. cbn [has_select]. eapply IH; exact Ep.
Qed.

Lemma abi_type_leaf_has_select lg ix ty col pos p t :
  abi_type lg (Inp ix ty [] col) pos = Ok (p, t) -> has_select t = col.
Proof.
  cbn [abi_type bind fst snd]. intros H.
  destruct (parse_array lg (S (length ty)) _ ty) as [t0| |] eqn:Ep; cbn [bind] in H; try discriminate.
  injection H as _ <-. rewrite (parse_array_has_select _ _ _ _ _ Ep).
  destruct (leaf_dynamic lg ty); destruct col; reflexivity.
Qed.

Lemma event_fields_no_data lg : forall ins pos fs,
  existsb is_data ins = false ->
  event_fields lg (map inp_of ins) pos = Ok fs -> existsb has_select fs = false.
Proof.
  induction ins as [|i ins IH]; intros pos fs Hd H.
  - injection H as <-. reflexivity.
  - cbn [existsb] in Hd. apply orb_false_iff in Hd. destruct Hd as [Hi Hd].
    cbn [map event_fields] in H. unfold inp_of at 1 in H. cbn [AbiParse.i_indexed] in H.
    destruct (Rows.i_indexed i) eqn:Eix.
    + eapply IH; eassumption.
    + fold (inp_of i) in H. unfold inp_of at 1 in H.
      destruct (abi_type lg _ pos) as [[p t]| |] eqn:Ea; cbn [bind] in H; try discriminate.
      cbn [fst snd] in H.
      destruct (event_fields lg (map inp_of ins) p) as [r| |] eqn:Er; cbn [bind] in H; try discriminate.
      injection H as <-. cbn [existsb].
      rewrite (abi_type_leaf_has_select _ _ _ _ _ _ _ Ea), (IH _ _ Hd Er).
      unfold is_data in Hi. rewrite Eix in Hi. cbn [negb] in Hi. rewrite andb_true_r in Hi. rewrite Hi. reflexivity.
Qed.

(* no selected non-indexed input: the decoder type is a tuple none of whose
   fields has a selected leaf *)
Lemma abi_ty_no_data d t :
  has_data d = false -> abi_ty d = Ok t -> exists fs, t = TTuple fs /\ existsb has_select fs = false.
Proof.
  unfold has_data, abi_ty, event_type, event_of_decl. cbn [ev_inputs]. intros Hd H.
  destruct (event_fields false (map inp_of (d_inputs d)) 0) as [fs| |] eqn:Ef; cbn [bind] in H; try discriminate.
  injection H as <-. exists fs. split; [reflexivity|]. eapply event_fields_no_data; eassumption.
Qed.

Lemma selected_nosel t : has_select t = false -> AbiType.selected t = [].
Proof.
  induction t as [sel|sel|k e IH|fs IH] using aty_ind'; cbn [has_select AbiType.selected]; intros H.
  - destruct sel; [discriminate|reflexivity].
  - destruct sel; [discriminate|reflexivity].
  - auto.
  - induction IH as [|f fs Hf _ IH2]; [reflexivity|]. cbn [existsb] in H. apply orb_false_iff in H.
    destruct H as [H1 H2]. cbn [flat_map]. rewrite (Hf H1), (IH2 H2). reflexivity.
Qed.

(* ... on which Result.Scan succeeds on EVERY input (the tuple guard returns
   before a byte is read) and hands out exactly one row, without cells *)
Lemma scan_rows_no_data d data t :
  has_data d = false -> abi_ty d = Ok t -> scan_rows d data = Ok [[]].
Proof.
  intros Hd Ht. destruct (abi_ty_no_data d t Hd Ht) as (fs & -> & Hs).
  unfold scan_rows. rewrite Ht.
  assert (Hn : ncols_of (TTuple fs) = O).
  { unfold ncols_of. rewrite selected_nosel; [reflexivity|]. exact Hs. }
  rewrite Hn. unfold result_scan, new_result. cbn [repeat single coll map scan]. rewrite Hs. cbn [negb].
  reflexivity.
Qed.

Lemma no_selected_data_input_one_row_l d data srows :
  has_data d = false -> scan_rows d data = Ok srows -> length srows = 1%nat.
Proof.
  intros Hd H. destruct (abi_ty d) as [t| |] eqn:Et.
  - rewrite (scan_rows_no_data d data t Hd Et) in H. injection H as <-. reflexivity.
  - unfold scan_rows in H. rewrite Et in H. discriminate.
  - unfold scan_rows in H. rewrite Et in H. discriminate.
Qed.

(* the same through the general law (does not use the shape of new_result) *)
Lemma no_selected_leaf_one_row_l D ncols t s s' :
  has_select t = false -> result_scan D ncols t s = SOk s' -> length (vrows D s') = 1%nat.
Proof.
  intros Hs H. destruct (result_scan_len D ncols t s s' H) as (_ & _ & ->).
  unfold scan_len. replace (row_count D t 0) with O; [reflexivity|].
  destruct t as [sel|sel|k e|fs]; cbn [row_count]; try reflexivity; cbn [has_select] in Hs; rewrite Hs; reflexivity.
Qed.

(* ================= 3. chains decoded by the model ================= *)
Lemma chain_with_scan_log d blocks b t l :
  In b (chain_with_scan d blocks) -> In t (b_txs b) -> In l (t_logs t) ->
  l_scan l = scan_rows d (l_data l).
Proof.
  unfold chain_with_scan. intros Hb Ht Hl.
  apply in_map_iff in Hb. destruct Hb as (b0 & <- & _). cbn [b_txs] in Ht.
  apply in_map_iff in Ht. destruct Ht as (t0 & <- & _). cbn [t_logs] in Hl.
  apply in_map_iff in Hl. destruct Hl as (l0 & <- & _). reflexivity.
Qed.

Lemma chain_with_scan_single_row_scans_l d blocks :
  Forall (single_row_scans d) (chain_with_scan d blocks).
Proof.
  apply Forall_forall. intros b Hb Hd t l srows Ht Hl Hs.
  rewrite (chain_with_scan_log d blocks b t l Hb Ht Hl) in Hs.
  rewrite (no_selected_data_input_one_row_l d _ _ Hd Hs). lia.
Qed.

Lemma cws_length d bs : length (chain_with_scan d bs) = length bs.
Proof. apply map_length. Qed.

Lemma cws_numbered d : forall bs n, numbered_from n bs -> numbered_from n (chain_with_scan d bs).
Proof.
  induction bs as [|b r IH]; intros n H; [exact I|].
  destruct H as (A & B & C). cbn [chain_with_scan map numbered_from b_num b_hash].
  split; [exact A|]. split; [exact B|]. apply IH. exact C.
Qed.

Lemma cws_chain_wf d bs : rows_chain_wf bs -> rows_chain_wf (chain_with_scan d bs).
Proof.
  intros [Hne Hn]. split; [|apply cws_numbered; exact Hn].
  intros E. apply Hne. apply (f_equal (@length _)) in E. rewrite cws_length in E.
  destruct bs; [reflexivity|discriminate].
Qed.

Lemma cws_wf_items d bs : Forall wf_items bs -> Forall wf_items (chain_with_scan d bs).
Proof.
  intros H. unfold chain_with_scan. apply Forall_forall. intros b Hb.
  apply in_map_iff in Hb. destruct Hb as (b0 & <- & Hb0).
  rewrite Forall_forall in H. destruct (H b0 Hb0) as [Hn Hf].
  unfold wf_items. cbn [b_txs]. split.
  - rewrite map_map. cbn [t_idx]. exact Hn.
  - apply Forall_forall. intros t Ht. apply in_map_iff in Ht. destruct Ht as (t0 & <- & Ht0).
    rewrite Forall_forall in Hf. destruct (Hf t0 Ht0) as [Hl Ha]. cbn [t_logs t_traces]. split; [|exact Ha].
    rewrite map_map. cbn [with_scan l_idx]. exact Hl.
Qed.

(* the key bridge's main theorem, the decoder premise discharged *)
Lemma configured_index_is_task_key_decoded_l :
  forall g g' dcl ctx dbs blocks (c : TaskTypes.tcfg) (d : TaskTypes.db),
  user_plain g = true -> Config.t_unique (Config.ig_table g) = [] ->
  Config.fix_one ConfigGen.G g = Some g' -> same_decl g' dcl ->
  rows_chain_wf blocks -> Forall wf_items blocks ->
  inserts_ok dcl ctx dbs (chain_with_scan dcl blocks) -> N.of_nat (List.length blocks) < TaskSpec.nmax ->
  TaskSpec.TaskInvG c (inst_chain dcl ctx dbs (chain_with_scan dcl blocks)) d ->
  exists u, Config.t_unique (Config.ig_table g') = [u] /\
  forall r r', In r (TaskTypes.d_rows (TaskSpec.pv c d)) -> In r' (TaskTypes.d_rows (TaskSpec.pv c d)) ->
  exists gr gr',
    TaskTypes.r_val r = enc_row gr /\ TaskTypes.r_val r' = enc_row gr'
    /\ Forall not_null (uproj dcl u gr) /\ Forall not_null (uproj dcl u gr')
    /\ (uproj dcl u gr = uproj dcl u gr'
        <-> TaskTypes.r_bnum r = TaskTypes.r_bnum r' /\ TaskTypes.r_key r = TaskTypes.r_key r').
Proof.
  intros g g' dcl ctx dbs blocks c d Hp Hu Hf Hsd Hwf Hit Hins Hlen Hinv.
  apply (configured_index_is_task_key_lemma g g' dcl ctx dbs (chain_with_scan dcl blocks) c d); auto.
  - apply cws_chain_wf. exact Hwf.
  - apply cws_wf_items. exact Hit.
  - apply chain_with_scan_single_row_scans_l.
  - rewrite cws_length. exact Hlen.
Qed.

(* ================= 4. the count on the bytes of an encoding = the count on the value ================= *)
Fixpoint tfields (D : bytes) (o : N) (fs : list aty) (pos : N) : nat :=
  match fs with
  | [] => O
  | f :: fs' =>
      Nat.add (row_count D f (if is_static f then o + pos else o + rd D (o + pos)))
              (tfields D o fs' (pos + (if is_static f then size f else 32)))
  end.
Fixpoint tvals (fs : list aty) (vs : list aval) : nat :=
  match vs, fs with v :: vs', f :: fs' => (val_rows f v + tvals fs' vs')%nat | _, _ => O end.

Lemma row_count_tuple D fs o :
  row_count D (TTuple fs) o = if negb (existsb has_select fs) then O else tfields D o fs 0.
Proof.
  cbn [row_count]. destruct (negb (existsb has_select fs)); [reflexivity|].
  generalize 0 as pos. induction fs as [|f fs IH]; intros pos; [reflexivity|].
  cbn [tfields]. rewrite <- IH. reflexivity.
Qed.
Lemma val_rows_tuple fs vs :
  val_rows (TTuple fs) (VTuple vs) = if existsb has_select fs then tvals fs vs else O.
Proof.
  cbn [val_rows]. destruct (existsb has_select fs); [|reflexivity].
  revert fs. induction vs as [|v vs IH]; intros [|f fs]; try reflexivity.
  cbn [tvals]. rewrite <- IH. reflexivity.
Qed.

Lemma rd_At D a n : At D a (word32 n) -> n < two64 -> rd D a = n.
Proof.
  intros H Hn. unfold rd. pose proof (At_read _ _ _ H) as Hr. rewrite word32_length in Hr. rewrite Hr.
  apply decode64_word32. exact Hn.
Qed.

Lemma two64_val : two64 = 18446744073709551616.
Proof. reflexivity. Qed.

Section Val.
Variable D : bytes.
Hypothesis HL : L D < 2 ^ 63.

Lemma L_lt64 : L D < two64.
Proof. rewrite two64_val. change (2 ^ 63) with 9223372036854775808 in HL. lia. Qed.

Definition Pv (t : aty) : Prop :=
  forall v o, has_type t v -> At D o (enc t v) -> row_count D t o = val_rows t v.

Lemma hsum_amembers e vs : Forall (has_type e) vs ->
  hsum (amembers e vs) = N.of_nat (length vs) * step e.
Proof.
  intros Hvs. induction Hvs as [|v vs Hv _ IH]; [reflexivity|].
  change (hsum (amembers e (v :: vs))) with (hsz (dyn_ty e, enc e v) + hsum (amembers e vs)).
  rewrite IH. unfold hsz, step. cbn [fst snd length]. rewrite is_static_dyn.
  destruct (dyn_ty e) eqn:Ed; cbn [negb]; [lia|]. rewrite (static_size e v Ed Hv). lia.
Qed.

Lemma arr_elems_count e (IHe : Pv e) o h vs :
  Forall (has_type e) vs -> At D (o + h) (enc_seq (amembers e vs)) ->
  forall rest done, vs = done ++ rest ->
  nsum (length rest) (N.of_nat (length done))
       (fun i => Nat.add (if is_arr e then O else 1%nat) (row_count D e (elem_off D e o h i)))
  = fold_right (fun v a => ((if is_arr e then 0 else 1) + val_rows e v + a)%nat) O rest.
Proof.
  intros Hvs HA. induction rest as [|v rest IH]; intros done Hsplit; [reflexivity|].
  cbn [length nsum fold_right].
  assert (Hv : has_type e v).
  { rewrite Hsplit in Hvs. apply Forall_app in Hvs. destruct Hvs as [_ H2]. inversion H2; assumption. }
  assert (Hdone : Forall (has_type e) done).
  { rewrite Hsplit in Hvs. apply Forall_app in Hvs. destruct Hvs as [H1 _]. exact H1. }
  assert (Hms : amembers e vs = amembers e done ++ ((dyn_ty e, enc e v) : member) :: amembers e rest).
  { rewrite Hsplit. unfold amembers. rewrite map_app. reflexivity. }
  assert (Hel : row_count D e (elem_off D e o h (N.of_nat (length done))) = val_rows e v).
  { apply IHe; [exact Hv|]. unfold elem_off. rewrite Hms in HA.
    pose proof (hsum_amembers e done Hdone) as Hh. unfold step in Hh.
    rewrite is_static_dyn in *. destruct (dyn_ty e) eqn:Ed; cbn [negb] in *.
    - destruct (enc_seq_dynamic D (o + h) _ _ _ HA) as [Hw Ht]. rewrite <- Hms in Hw, Ht.
      set (w := hsum (amembers e vs) + blen (tails (amembers e done))) in *.
      pose proof (At_len _ _ _ Ht) as Hl2. pose proof L_lt64 as H64.
      rewrite (rd_At D _ w).
      + replace (o + (h + w)) with (o + h + w) by lia. exact Ht.
      + rewrite Hh in Hw. replace (o + (h + N.of_nat (length done) * 32)) with (o + h + N.of_nat (length done) * 32) by lia.
        exact Hw.
      + lia.
    - pose proof (enc_seq_static D (o + h) _ _ _ HA) as Ht. rewrite Hh in Ht.
      replace (o + (h + N.of_nat (length done) * size e)) with (o + h + N.of_nat (length done) * size e) by lia.
      exact Ht. }
  rewrite Hel. specialize (IH (done ++ [v])). rewrite app_length in IH. cbn [length] in IH.
  replace (N.of_nat (length done) + 1) with (N.of_nat (length done + 1)) by lia.
  rewrite IH by (rewrite <- app_assoc; exact Hsplit). lia.
Qed.

Lemma val_arr k e : Pv e -> Pv (TArr k e).
Proof.
  intros IHe v o Ht HA. apply ht_arr in Ht. destruct Ht as (vs & -> & Hk & Hvs).
  cbn [row_count val_rows]. destruct (has_select e) eqn:Es; cbn [negb]; [|reflexivity].
  rewrite enc_arr in HA. pose proof (At_len _ _ _ HA) as Hlen. rewrite blen_app in Hlen.
  pose proof L_lt64 as H64. pose proof (amembers_heads D H64 e vs Es Hvs) as Hh.
  assert (Hn : arr_len D k o = N.of_nat (length vs)).
  { unfold arr_len. destruct (k =? 0) eqn:Ek.
    - apply rd_At; [apply At_app_l in HA; exact HA|lia].
    - destruct Hk as [Hk|Hk]; [subst k; discriminate|]. subst k. reflexivity. }
  rewrite Hn, Nat2N.id.
  assert (HA' : At D (o + arr_hd k) (enc_seq (amembers e vs))).
  { unfold arr_hd. destruct (k =? 0).
    - apply At_app_r in HA. rewrite blen_word32 in HA. exact HA.
    - cbn [app] in HA. replace (o + 0) with o by lia. exact HA. }
  exact (arr_elems_count e IHe o (arr_hd k) vs Hvs HA' vs [] eq_refl).
Qed.

Lemma val_tuple fs : Forall Pv fs -> Pv (TTuple fs).
Proof.
  intros IH v o Ht HA. apply ht_tuple in Ht. destruct Ht as (vs & -> & Hvs).
  rewrite row_count_tuple, val_rows_tuple. destruct (existsb has_select fs); cbn [negb]; [|reflexivity].
  rewrite enc_tuple in HA. pose proof L_lt64 as H64.
  cut (forall frest vrest fdone vdone,
         Forall2 has_type frest vrest -> Forall Pv frest -> length fdone = length vdone ->
         At D o (enc_seq (tmembers (fdone ++ frest) (vdone ++ vrest))) ->
         tfields D o frest (hsum (tmembers fdone vdone)) = tvals frest vrest).
  { intros HH. apply (HH fs vs [] []); auto. }
  clear IH Hvs HA. clear vs fs. intros frest vrest fdone vdone Hvs. revert fdone vdone.
  induction Hvs as [|f v frest vrest Hfv Hvs IHl]; intros fdone vdone IH Hlen HA; [reflexivity|].
  inversion IH as [|? ? Pf IHr]; subst.
  assert (Hms : tmembers (fdone ++ f :: frest) (vdone ++ v :: vrest)
                = tmembers fdone vdone ++ ((dyn_ty f, enc f v) : member) :: tmembers frest vrest).
  { rewrite (tmembers_app D H64) by exact Hlen. reflexivity. }
  assert (Hnext : tmembers (fdone ++ f :: frest) (vdone ++ v :: vrest)
                  = tmembers ((fdone ++ [f]) ++ frest) ((vdone ++ [v]) ++ vrest)).
  { rewrite <- !app_assoc. reflexivity. }
  assert (Hlen' : length (fdone ++ [f]) = length (vdone ++ [v])) by (rewrite !app_length; cbn; lia).
  assert (Hpos : hsum (tmembers (fdone ++ [f]) (vdone ++ [v]))
                 = hsum (tmembers fdone vdone) + (if is_static f then size f else 32)).
  { rewrite (tmembers_app D H64) by exact Hlen. rewrite hsum_app. cbn [tmembers]. unfold hsum at 2. cbn [fold_right].
    unfold hsz. cbn [fst snd]. rewrite is_static_dyn. destruct (dyn_ty f) eqn:Ed; cbn [negb]; [lia|].
    rewrite (static_size f v Ed Hfv). lia. }
  cbn [tfields tvals]. rewrite <- Hpos.
  rewrite (IHl (fdone ++ [f]) (vdone ++ [v]) IHr Hlen') by (rewrite <- Hnext; exact HA).
  f_equal. apply Pf; [exact Hfv|]. rewrite Hms in HA.
  rewrite is_static_dyn. destruct (dyn_ty f) eqn:Ed; cbn [negb].
  - destruct (enc_seq_dynamic D o _ _ _ HA) as [Hw Ht]. rewrite <- Hms in Hw, Ht.
    set (w := hsum _ + blen (tails (tmembers fdone vdone))) in *.
    pose proof (At_len _ _ _ Ht) as Hl2.
    rewrite (rd_At D _ w); [exact Ht|exact Hw|lia].
  - exact (enc_seq_static D o _ _ _ HA).
Qed.

Lemma row_count_val t : Pv t.
Proof.
  induction t as [sel|sel|k e IH|fs IH] using aty_ind'.
  - intros v o Ht _. apply ht_word in Ht. destruct Ht as (w & -> & _). reflexivity.
  - intros v o Ht _. apply ht_dyn in Ht. destruct Ht as (b & ->). reflexivity.
  - apply val_arr. exact IH.
  - apply val_tuple. exact IH.
Qed.
End Val.

Lemma row_count_of_encoding_l D o t v :
  has_type t v -> L D < 2 ^ 63 ->
  (exists pre post, D = pre ++ enc t v ++ post /\ N.of_nat (length pre) = o) ->
  row_count D t o = val_rows t v.
Proof.
  intros Ht HL HA. apply (row_count_val D HL t v o Ht).
  destruct HA as (pre & post & E & Hp). exists pre, post. split; [exact E|exact Hp].
Qed.

(* every type (outside the row rule's domain too), every well-typed value,
   trailing bytes, every previous decoder state: IF Result.Scan returns
   without error THEN it hands out max(1, val_rows) rows *)
Lemma scan_enc_row_count_l ncols t v rest s s' :
  has_type t v -> N.of_nat (length (enc t v ++ rest)) < 2 ^ 63 ->
  result_scan (enc t v ++ rest) ncols t s = SOk s' ->
  length (vrows (enc t v ++ rest) s') = Nat.max 1 (val_rows t v).
Proof.
  intros Ht HL H. destruct (result_scan_len _ _ _ _ _ H) as (_ & _ & ->). unfold scan_len.
  rewrite (row_count_val (enc t v ++ rest) HL t v 0 Ht (At_whole _ _)). reflexivity.
Qed.

(* on the row rule's domain the value-level count is the number of element rows *)
Lemma val_rows_nosel t v : has_select t = false -> val_rows t v = O.
Proof.
  intros H. destruct t as [sel|sel|k e|fs]; destruct v as [w|b|vs|vs]; try reflexivity;
    cbn [val_rows]; cbn [has_select] in H; rewrite H; reflexivity.
Qed.

Lemma val_rows_no_sel_arr t : forall v, no_sel_arr t = true -> val_rows t v = O.
Proof.
  induction t as [sel|sel|k e IH|fs IH] using aty_ind'; intros v Hn.
  - destruct v; reflexivity.
  - destruct v; reflexivity.
  - apply val_rows_nosel. cbn [no_sel_arr] in Hn. cbn [has_select]. apply negb_true_iff in Hn. exact Hn.
  - destruct v as [w|b|vs|vs]; try reflexivity. rewrite val_rows_tuple.
    destruct (existsb has_select fs); [|reflexivity]. cbn [no_sel_arr] in Hn. revert vs.
    induction IH as [|f fs Hf _ IH2]; intros [|v vs]; try reflexivity.
    cbn [forallb] in Hn. apply andb_true_iff in Hn. destruct Hn as [H1 H2].
    cbn [tvals]. rewrite (Hf v H1), (IH2 H2 vs). reflexivity.
Qed.

Lemma val_rows_elem_rows t : forall v, dom t = true -> val_rows t v = length (elem_rows t v).
Proof.
  induction t as [sel|sel|k e IH|fs IH] using aty_ind'; intros v Hd.
  - destruct v; reflexivity.
  - destruct v; reflexivity.
  - destruct v as [w|b|vs|vs]; try reflexivity. cbn [val_rows elem_rows dom] in *.
    destruct (has_select e) eqn:Es; [|reflexivity]. destruct (is_arr e) eqn:Ea.
    + induction vs as [|v vs IH2]; [reflexivity|]. cbn [fold_right flat_map].
      rewrite app_length, IH2, (IH v Hd). lia.
    + rewrite map_length. induction vs as [|v vs IH2]; [reflexivity|]. cbn [fold_right length].
      rewrite IH2, (val_rows_no_sel_arr e v Hd). lia.
  - destruct v as [w|b|vs|vs]; try reflexivity. rewrite val_rows_tuple, elem_rows_tuple. cbn [dom] in Hd.
    destruct (existsb has_select fs) eqn:Es.
    + clear Es. revert vs. induction IH as [|f fs Hf _ IH2]; intros [|v vs]; try reflexivity.
      cbn [forallb] in Hd. apply andb_true_iff in Hd. destruct Hd as [H1 H2].
      cbn [tvals ter]. rewrite app_length, (Hf v H1), (IH2 H2 vs). reflexivity.
    + rewrite <- elem_rows_tuple, elem_rows_nosel by exact Es. reflexivity.
Qed.

(* ================= 5. the statements of Properties/C09.v ================= *)
Lemma scan_row_count_l D ncols t :
  (forall s c o s', scan D ncols t s c o = SOk s' -> nrows s' = (nrows s + row_count D t o)%nat)
  /\ (forall s s', result_scan D ncols t s = SOk s' ->
        nrows s' = Nat.max 1 (row_count D t 0)
        /\ length (vrows D s') = Nat.max 1 (row_count D t 0)
        /\ (no_sel_arr t = true -> length (vrows D s') = 1%nat)).
Proof.
  split.
  - intros s c o s' H. exact (proj1 (scan_adds D ncols t s c o s' H)).
  - intros s s' H. destruct (result_scan_len D ncols t s s' H) as (A & _ & B). unfold scan_len in *.
    split; [exact A|]. split; [exact B|]. intros Hn. rewrite B, (row_count_no_sel_arr D t Hn 0). reflexivity.
Qed.

Lemma row_count_shapes_l D :
  (forall t o, no_sel_arr t = true -> row_count D t o = O)
  /\ (forall k e o, has_select e = false -> row_count D (TArr k e) o = O)
  /\ (forall k e o, has_select e = true -> is_arr e = false -> no_sel_arr e = true ->
        row_count D (TArr k e) o = N.to_nat (arr_len D k o))
  /\ (forall k e o, has_select e = true -> is_arr e = true ->
        row_count D (TArr k e) o
        = nsum (N.to_nat (arr_len D k o)) 0 (fun i => row_count D e (elem_off D e o (arr_hd k) i)))
  /\ (forall k e o, has_select e = true -> is_arr e = false ->
        row_count D (TArr k e) o
        = nsum (N.to_nat (arr_len D k o)) 0 (fun i => S (row_count D e (elem_off D e o (arr_hd k) i)))).
Proof.
  split; [intros t o H; apply row_count_no_sel_arr; exact H|].
  split; [intros k e o H; cbn [row_count]; rewrite H; reflexivity|].
  split; [intros k e o; apply row_count_flat_array|].
  split; [intros k e o; apply row_count_array_of_arrays|].
  intros k e o Hs Ha. cbn [row_count]. rewrite Hs, Ha. reflexivity.
Qed.

Lemma no_selected_data_input_one_row_full d data :
  has_data d = false ->
  (forall t, abi_ty d = Ok t -> scan_rows d data = Ok [[]])
  /\ (forall srows, scan_rows d data = Ok srows -> length srows = 1%nat).
Proof.
  intros Hd. split.
  - intros t Ht. exact (scan_rows_no_data d data t Hd Ht).
  - intros srows H. exact (no_selected_data_input_one_row_l d data srows Hd H).
Qed.
