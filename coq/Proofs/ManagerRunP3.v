(* Proofs about part (ii) of Model/Manager.v, continued: in the repaired code a
   restart request is never lost (C20). *)
From Coq Require Import List Arith PeanoNat NArith Bool Lia.
From Shovel Require Import Base.Outcome Model.Manager Proofs.ManagerRunP.
Import ListNotations.

Definition qr (y : run) : bool := queued y && r_restarted y.
Definition nq (s : state) : nat := List.length (filter qr (runs s)).
Definition is_locked_pc (p : rpc) : bool := match p with RLocked => true | _ => false end.
(* a Run started by Restart that owns the lock but has not yet taken itself off tm.waiting *)
Definition pend (s : state) : nat :=
  match lock s with
  | Some h => match nth_error (runs s) h with
              | Some x => if is_locked_pc (r_pc x) && r_restarted x then 1 else 0
              | None => 0
              end
  | None => 0
  end.

Definition b2n (b : bool) : nat := if b then 1 else 0.

Lemma count_upd : forall {A} (f : A -> bool) l i x x',
  nth_error l i = Some x ->
  List.length (filter f (upd l i x')) + b2n (f x) = List.length (filter f l) + b2n (f x').
Proof.
  intros A f l. induction l as [|a l IH]; intros [|i] x x' H; simpl in *; try discriminate.
  - inversion H; subst. destruct (f x), (f x'); simpl; lia.
  - specialize (IH _ _ x' H). destruct (f a); simpl; lia.
Qed.
Lemma count_snoc : forall {A} (f : A -> bool) l x,
  List.length (filter f (l ++ [x])) = List.length (filter f l) + b2n (f x).
Proof.
  intros A f l x. induction l as [|a l IH]; simpl.
  - destruct (f x); reflexivity.
  - destruct (f a); simpl; rewrite IH; reflexivity.
Qed.
Lemma existsb_count : forall {A} (f : A -> bool) l, existsb f l = true <-> 0 < List.length (filter f l).
Proof.
  intros A f l. induction l as [|a l IH]; simpl; [split; [discriminate | lia]|].
  destruct (f a); simpl; [split; [lia | reflexivity] | exact IH].
Qed.

Lemma count_upd_qr : forall l i x x',
  nth_error l i = Some x ->
  List.length (filter qr (upd l i x')) + b2n (queued x && r_restarted x)
  = List.length (filter qr l) + b2n (queued x' && r_restarted x').
Proof. intros l i x x' H. exact (count_upd qr l i x x' H). Qed.

Definition SK (s : state) : Prop :=
  forall h x, lock s = Some h -> nth_error (runs s) h = Some x ->
    owns_channel Fixed (r_pc x) = true -> 0 < nq s -> is_closed s (cur s) = true.

Lemma signal_kept_SK : forall s, signal_kept Fixed s = true <-> SK s.
Proof.
  intro s. unfold signal_kept, SK. split.
  - intros H h x Hl Hx Ho Hq. rewrite Hl, Hx, Ho in H. simpl in H.
    assert (He : existsb (fun y => queued y && r_restarted y) (runs s) = true) by (apply existsb_count; exact Hq).
    rewrite He in H. exact H.
  - intro H. destruct (lock s) as [h|] eqn:Hl; [|reflexivity].
    destruct (nth_error (runs s) h) as [x|] eqn:Hx; [|reflexivity].
    destruct (owns_channel Fixed (r_pc x)) eqn:Ho; [|reflexivity]. simpl.
    destruct (existsb (fun y => queued y && r_restarted y) (runs s)) eqn:He; [|reflexivity].
    apply (H h x); try assumption; try reflexivity. apply existsb_count. exact He.
Qed.

Definition InvW (s : state) : Prop := waiting s = nq s + pend s /\ SK s.

Lemma invw_ext : forall s s',
  lock s' = lock s -> runs s' = runs s -> cur s' = cur s -> closed s' = closed s -> waiting s' = waiting s ->
  InvW s -> InvW s'.
Proof.
  intros s s' El Er Ec Ecl Ew [HW HS]. unfold InvW, SK, nq, pend, is_closed in *.
  rewrite El, Er, Ec, Ecl, Ew. split; assumption.
Qed.

Lemma invw_init : InvW init.
Proof. split; [reflexivity|]. intros h x H. discriminate. Qed.

(* the lock owner moves between two program points past the channel replacement *)
Lemma invw_move : forall s s' r x x',
  Inv s -> InvW s -> nth_error (runs s) r = Some x -> holding (r_pc x) = true ->
  runs s' = upd (runs s) r x' -> lock s' = lock s -> cur s' = cur s -> closed s' = closed s ->
  waiting s' = waiting s ->
  queued x = false -> queued x' = false ->
  is_locked_pc (r_pc x) = false -> is_locked_pc (r_pc x') = false ->
  (owns_channel Fixed (r_pc x') = true -> owns_channel Fixed (r_pc x) = true) ->
  InvW s'.
Proof.
  intros s s' r x x' HI [HW HS] Hx Hh Er El Ec Ecl Ew Hq Hq' Hp Hp' Ho.
  assert (Hlock : lock s = Some r) by (apply (I_hold s HI _ _ Hx Hh)).
  assert (Hnq : nq s' = nq s).
  { unfold nq. rewrite Er. pose proof (count_upd_qr (runs s) r x x' Hx) as Hc.
    rewrite Hq, Hq' in Hc. simpl in Hc. lia. }
  split.
  - rewrite Ew, Hnq, HW. f_equal. unfold pend. rewrite El, Hlock, Er, Hx, (nth_upd_eq _ _ _ _ Hx), Hp, Hp'. reflexivity.
  - intros h y Hl Hy Hoy Hqy. rewrite El, Hlock in Hl. inversion Hl; subst h.
    rewrite Er, (nth_upd_eq _ _ _ _ Hx) in Hy. inversion Hy; subst y.
    unfold is_closed. rewrite Ecl, Ec. apply (HS r x Hlock Hx (Ho Hoy)). rewrite <- Hnq. exact Hqy.
Qed.

Lemma invw_step : forall s a, Inv s -> InvW s -> InvW (step Fixed s a).
Proof.
  intros s a HI HW. unfold step. destruct (crashed s); [exact HW|].
  destruct a as [| |k|k|r|r|r res|r|r|r|t|t dn].
  - apply (invw_ext s); try reflexivity. exact HW.
  - apply (invw_ext s); try reflexivity. exact HW.
  - (* ARestartClose *)
    destruct (nth_error (rsts s) k) as [[[| |] kv]|]; try exact HW.
    destruct HW as [HWc HS].
    assert (Hpend : forall s', lock s' = lock s -> runs s' = runs s ++ [new_run s true] -> pend s' = pend s).
    { intros s' El Er. unfold pend. rewrite El, Er. destruct (lock s) as [h|] eqn:Hl; [|reflexivity].
      destruct (I_lock s HI _ Hl) as [x [Hx _]]. rewrite (nth_snoc_old _ _ _ _ Hx), Hx. reflexivity. }
    assert (Hnq : forall s', runs s' = runs s ++ [new_run s true] -> nq s' = S (nq s)).
    { intros s' Er. unfold nq. rewrite Er, count_snoc. simpl. lia. }
    destruct (is_closed s (cur s)) eqn:Hcl; simpl.
    + split; simpl.
      * rewrite Hnq by reflexivity. rewrite Hpend by reflexivity. simpl. lia.
      * intros h x Hl Hx Ho Hq. simpl. exact Hcl.
    + split; simpl.
      * rewrite Hnq by reflexivity. rewrite Hpend by reflexivity. simpl. lia.
      * intros h x Hl Hx Ho Hq. unfold is_closed. simpl. rewrite Nat.eqb_refl. reflexivity.
  - (* ARestartReturn *)
    destruct (nth_error (rsts s) k) as [[[|r|] kv]|]; try exact HW.
    destruct (nth_error (runs s) r) as [x|]; try exact HW.
    destruct (r_ec x); exact HW.
  - (* ALock *)
    destruct (lock s) eqn:Hlk; [exact HW|].
    destruct (nth_error (runs s) r) as [x|] eqn:Hx; [|exact HW].
    destruct (r_pc x) eqn:Hpc; try exact HW.
    destruct HW as [HWc HS]. split; simpl.
    + unfold nq, pend. simpl. rewrite (nth_upd_eq _ _ _ _ Hx). simpl.
      pose proof (count_upd_qr (runs s) r x (with_pc x RLocked) Hx) as Hc.
      unfold queued in Hc. simpl in Hc. rewrite Hpc in Hc. simpl in Hc.
      unfold nq, pend in HWc. rewrite Hlk in HWc. destruct (r_restarted x); simpl in *; lia.
    + intros h y Hl Hy Ho Hq. inversion Hl; subst h. simpl in Hy. rewrite (nth_upd_eq _ _ _ _ Hx) in Hy.
      inversion Hy; subst y. discriminate.
  - (* AReplace *)
    destruct (nth_error (runs s) r) as [x|] eqn:Hx; [|exact HW].
    cbv zeta. destruct (r_pc x) eqn:Hpc; try exact HW.
    assert (Hlock : lock s = Some r) by (apply (I_hold s HI _ _ Hx); rewrite Hpc; reflexivity).
    destruct HW as [HWc HS].
    assert (Hnq : forall s', runs s' = upd (runs s) r (with_pc x RLoad) -> nq s' = nq s).
    { intros s' Er. unfold nq. rewrite Er. pose proof (count_upd_qr (runs s) r x (with_pc x RLoad) Hx) as Hc.
      unfold queued in Hc. simpl in Hc. rewrite Hpc in Hc. simpl in Hc. lia. }
    assert (Hp : pend s = b2n (r_restarted x)).
    { unfold pend. rewrite Hlock, Hx, Hpc. simpl. destruct (r_restarted x); reflexivity. }
    unfold replace_chan.
    set (w := if r_restarted x then Nat.pred (waiting s) else waiting s).
    assert (Hw : w = nq s).
    { unfold w. rewrite HWc, Hp. destruct (r_restarted x); simpl; lia. }
    split; simpl.
    + rewrite Hnq by reflexivity. unfold pend. simpl. rewrite Hlock, (nth_upd_eq _ _ _ _ Hx). simpl. lia.
    + intros h y Hl Hy Ho Hq. rewrite Hnq in Hq by reflexivity. unfold is_closed. simpl.
      assert (Hlt : Nat.ltb 0 w = true) by (apply Nat.ltb_lt; lia). rewrite Hlt. simpl. rewrite Nat.eqb_refl. reflexivity.
  - (* ALoad *)
    destruct (nth_error (runs s) r) as [x|] eqn:Hx; [|exact HW].
    destruct (r_pc x) eqn:Hpc; try exact HW.
    eapply (invw_move s _ r x); [exact HI | exact HW | exact Hx | rewrite Hpc; reflexivity | reflexivity | reflexivity
      | reflexivity | reflexivity | reflexivity | | | | | ];
      unfold queued; rewrite ?Hpc; simpl; try reflexivity; destruct res; reflexivity.
  - (* ASignal *)
    destruct (nth_error (runs s) r) as [x|] eqn:Hx; [|exact HW].
    destruct (r_pc x) eqn:Hpc; try exact HW;
      (eapply (invw_move s _ r x); [exact HI | exact HW | exact Hx | rewrite Hpc; reflexivity | reflexivity | reflexivity
        | reflexivity | reflexivity | reflexivity | | | | | ]);
      unfold queued; rewrite ?Hpc; simpl; try reflexivity; try discriminate.
  - (* ASpawn *)
    destruct (nth_error (runs s) r) as [x|] eqn:Hx; [|exact HW].
    destruct (r_pc x) eqn:Hpc; try exact HW.
    eapply (invw_move s _ r x); [exact HI | exact HW | exact Hx | rewrite Hpc; reflexivity | reflexivity | reflexivity
      | reflexivity | reflexivity | reflexivity | | | | | ];
      unfold queued; rewrite ?Hpc; simpl; reflexivity.
  - (* AUnlock *)
    destruct (nth_error (runs s) r) as [x|] eqn:Hx; [|exact HW].
    assert (Hrel : holding (r_pc x) = true -> queued x = false -> is_locked_pc (r_pc x) = false ->
              InvW {| lock := None; cur := cur s; nch := nch s; closed := closed s; waiting := waiting s;
                      crashed := false; ver := ver s; lv := lv s;
                      runs := upd (runs s) r (with_pc x RDone); rsts := rsts s; tasks := tasks s |}).
    { intros Hh Hq Hp. destruct HW as [HWc HS].
      assert (Hlock : lock s = Some r) by (apply (I_hold s HI _ _ Hx Hh)).
      split; simpl.
      - unfold nq, pend. simpl. pose proof (count_upd_qr (runs s) r x (with_pc x RDone) Hx) as Hc.
        rewrite Hq in Hc. unfold queued in Hc. simpl in Hc.
        unfold nq, pend in HWc. rewrite Hlock, Hx, Hp in HWc. simpl in HWc. lia.
      - intros h y Hl. discriminate. }
    destruct (r_pc x) eqn:Hpc; try exact HW.
    + destruct (all_exited s r); [|exact HW]. apply Hrel; unfold queued; rewrite ?Hpc; reflexivity.
    + apply Hrel; unfold queued; rewrite ?Hpc; reflexivity.
  - (* ATaskCheck *)
    destruct (nth_error (tasks s) t) as [[g [| |]]|]; exact HW.
  - (* ATaskStep *)
    destruct (nth_error (tasks s) t) as [[g [| |]]|]; exact HW.
Qed.

(* Repaired code, ALL schedules: whenever a Run started by Restart is queued
   behind a generation that has installed its restart channel, that channel
   is closed -- the generation's tasks return at their next check and the
   queued Run gets the lock.  (The code as found violates this: see
   legacy_signal_lost_l.) *)
Lemma restart_signal_never_lost_l : forall sched, signal_kept Fixed (exec Fixed init sched) = true.
Proof.
  intro sched. apply signal_kept_SK.
  assert (H : forall s, Inv s -> InvW s -> InvW (exec Fixed s sched)).
  { induction sched as [|a sched IH]; intros s H1 HW; simpl; [exact HW|].
    apply IH; [apply inv_step; exact H1 | apply invw_step; assumption]. }
  apply (H init inv_init invw_init).
Qed.

(* and tm.waiting counts exactly the Runs started by Restart that have not
   taken over yet *)
Lemma waiting_counts_queued_l : forall sched,
  let s := exec Fixed init sched in waiting s = nq s + pend s.
Proof.
  intros sched s.
  assert (H : forall s0, Inv s0 -> InvW s0 -> InvW (exec Fixed s0 sched)).
  { induction sched as [|a sched' IH]; intros s0 H1 HW; simpl; [exact HW|].
    apply IH; [apply inv_step; exact H1 | apply invw_step; assumption]. }
  apply (H init inv_init invw_init).
Qed.
