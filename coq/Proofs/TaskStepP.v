(* One step of the repaired Task.Converge, in detail: what a step that reports
   success has written (position it resumed from, numbers of the new blocks,
   bounds by batch size, stop and dependency position) and what Done means.
   Parametric in the assumption on node answers [G] and the ghost predicates
   [BP] (blocks served), [HP] (hash answers), [HD] (head answers). *)
From Coq Require Import List NArith Bool Lia ZifyBool ZifyN ZifyNat.
From Shovel Require Import Model.TaskTypes Model.TaskDb Model.Task Model.TaskNode Model.TaskSys
  Model.TaskSpec Proofs.TaskArithP Proofs.TaskDbP Proofs.TaskExecP Proofs.TaskLoadP Proofs.TaskInvP.
Import ListNotations.
Open Scope N_scope.

Lemma Forall_True : forall {A} (l : list A), Forall (fun _ => True) l.
Proof. intros. apply Forall_forall. intros. exact I. Qed.

Lemma cfg_self : forall c, cfg_ok c -> ~ In (t_ig c) (t_deps c).
Proof. intros c (_ & _ & _ & _ & _ & H). exact H. Qed.

Lemma unw_prefix : forall RJ g0 p, unw RJ g0 p -> exists q, g0 = p ++ q.
Proof.
  intros RJ g0 p H. induction H as [|p b _ [q ->] _].
  - exists []. symmetry. apply app_nil_r.
  - exists (b :: q). rewrite <- app_assoc. reflexivity.
Qed.

(* everything a dependency query with full count tells *)
Lemma lower_min : forall l acc n h,
  fold_left lower l acc = Some (n, h) ->
  (forall x, In x l -> n <= fst x) /\ (forall m k, acc = Some (m, k) -> n <= m).
Proof.
  induction l as [|x l IH]; intros acc n h H; cbn [fold_left] in H.
  - split; [intros x []|]. intros m k E. rewrite E in H. inversion H. lia.
  - destruct (IH _ _ _ H) as [A B]. split.
    + intros y [<-|Hy]; [|apply A; exact Hy].
      unfold lower in B. destruct acc as [[m k]|].
      * destruct (N.ltb_spec (fst x) m).
        -- specialize (B (fst x) (snd x)). destruct x. cbn in *. apply B. reflexivity.
        -- specialize (B m k eq_refl). lia.
      * destruct x as [a b]. specialize (B a b eq_refl). cbn. lia.
    + intros m k E. subst acc. unfold lower in B.
      destruct (N.ltb_spec (fst x) m).
      * destruct x as [a b]. specialize (B a b eq_refl). cbn in *. lia.
      * apply (B m k eq_refl).
Qed.

Lemma dep_latest_all : forall s deps cs,
  length (dep_latest s deps cs) = length deps ->
  forall i, In i deps -> exists nh, newest s i cs = Some nh /\ In nh (dep_latest s deps cs).
Proof.
  intros s deps cs. induction deps as [|j deps IH]; intros Hl i Hi; [destruct Hi|].
  cbn [dep_latest] in *.
  assert (Hle : (length (dep_latest s deps cs) <= length deps)%nat).
  { clear. induction deps as [|k deps IH]; cbn [dep_latest length]; [lia|].
    destruct (newest s k cs); cbn [length]; lia. }
  destruct (newest s j cs) as [nh|] eqn:E.
  - cbn [length] in Hl. destruct Hi as [<-|Hi].
    + exists nh. split; [exact E|left; reflexivity].
    + destruct (IH ltac:(lia) i Hi) as (x & A & B). exists x. split; [exact A|right; exact B].
  - cbn [length] in Hl. lia.
Qed.

Lemma in_ins_N_inv : forall x y l, x = y \/ In x l -> In x (ins_N y l).
Proof.
  intros x y l. induction l as [|z l IH]; cbn [ins_N]; intros H.
  - destruct H as [->|[]]. left. reflexivity.
  - destruct (y <=? z).
    + destruct H as [->|H]; [left; reflexivity|right; exact H].
    + destruct H as [->|[->|H]]; [right; apply IH; left; reflexivity|left; reflexivity|right; apply IH; right; exact H].
Qed.

Lemma in_dedup_inv : forall x l, In x l -> In x (dedup l).
Proof.
  intros x l. induction l as [|y l IH]; intros H; [exact H|]. cbn [dedup].
  destruct (existsb (N.eqb y) l) eqn:E.
  - destruct H as [<-|H]; [|apply IH; exact H]. apply existsb_exists in E.
    destruct E as (z & Hz & Ez). apply N.eqb_eq in Ez. subst z. apply IH. exact Hz.
  - destruct H as [<-|H]; [left; reflexivity|right; apply IH; exact H].
Qed.

Lemma in_distinct_deps_inv : forall x l, In x l -> In x (distinct_deps l).
Proof.
  intros x l H. unfold distinct_deps, sort_N. apply in_dedup_inv in H.
  induction (dedup l) as [|y r IH]; [exact H|]. cbn [fold_right]. apply in_ins_N_inv.
  destruct H as [<-|H]; [left; reflexivity|right; apply IH; exact H].
Qed.

(* C05: a dependency reading with full count means EVERY referenced
   integration has a cursor, and none of them is below the reading *)
Lemma dep_query_full : forall s deps cs dn dh,
  dep_query s deps cs = Some (dn, dh, N.of_nat (length (distinct_deps deps))) ->
  forall i, In i deps -> exists n h, newest s i cs = Some (n, h) /\ dn <= n.
Proof.
  intros s deps cs dn dh H i Hi. unfold dep_query in H.
  destruct (fold_left lower (dep_latest s (distinct_deps deps) cs) None) as [[n0 h0]|] eqn:F; [|discriminate].
  inversion H as [[E1 E2 E3]]. subst n0 h0. apply Nat2N.inj in E3.
  destruct (dep_latest_all s (distinct_deps deps) cs E3 i (in_distinct_deps_inv i deps Hi)) as ([n h] & A & B).
  exists n, h. split; [exact A|]. destruct (lower_min _ _ _ _ F) as [L _]. apply (L (n, h) B).
Qed.

Section Step.
Variable c : tcfg.
Variable G : io -> reply -> Prop.
Variable SA : ans -> Prop.
Variable FD : Prop.
Variable BP : blk -> Prop.
Variable HP : N -> N -> Prop.
Variable HD : N -> Prop.
Variable RJ : list batch -> Prop.
Hypothesis Hc : cfg_ok c.
Hypothesis G_ok : forall i r, G i r -> reply_ok i r.
Hypothesis G_bp : forall ps rs, G (RGet ps) (RSegs rs) -> Forall BP (concat (map seg_blocks rs)).
Hypothesis G_hp : forall n h, G (RHash n) (RHashV h) -> HP n h.
Hypothesis G_hd : forall k n h, G (RLatest k) (RHead n h) -> HD n.
Hypothesis H_fd : forall x, SA (AReply (RDep x)) -> FD.
Hypothesis H_rj : forall p ln lh ps segs f,
  W c BP p -> pos_of c HP HD p ln lh -> G (RGet ps) (RSegs segs) -> In f (concat (map seg_blocks segs)) ->
  b_num f = ln + 1 -> b_parent f <> 0 -> lh <> b_parent f -> RJ p.

Variable g : list batch.
Variable d : db.
Variable s : list ans.
Hypothesis Hpv : pv c d = render c g.
Hypothesis Hw : W c BP g.
Hypothesis Hsa : Forall SA s.
Hypothesis Ht : trace_sat G (step c s d).

Lemma step_all :
  Forall (fun e => Inv c FD BP HP HD RJ g (outside c d) d (snd e)) (r_trace (step c s d))
  /\ Inv c FD BP HP HD RJ g (outside c d) d (r_db (step c s d))
  /\ forall o, r_out (step c s d) = Fin o ->
               Qstep c G FD BP HP HD RJ g d o (r_db (step c s d)) (r_cs (step c s d)).
Proof.
  exact (S_converge c G SA FD BP HP HD RJ g (outside c d) d Hc G_ok G_bp G_hp G_hd (cfg_self c Hc) H_fd H_rj
                    eq_refl Hpv Hw s Hsa Ht).
Qed.

(* what a successful step wrote *)
Lemma step_converged : r_out (step c s d) = Fin OConverged ->
  exists p q bs ln lh,
    g = p ++ q /\ unw RJ g p
    /\ pv c (r_db (step c s d)) = render c (p ++ [bs]) /\ W c BP (p ++ [bs])
    /\ pos_of c HP HD p ln lh
    /\ map b_num bs = nums_from (ln + 1) (length bs)
    /\ bs <> [] /\ N.of_nat (length bs) <= t_batch c
    /\ Forall (fun x => dep_bound c FD d (b_num x)) bs.
Proof.
  intros Ho. destruct step_all as (_ & _ & C). destruct (C _ Ho) as (_ & Hadv & _).
  destruct (Hadv eq_refl) as (p & bs & Hu & (Hne & Hlen & (ln & lh & Hpos & Hn) & Hdep) & Hwf & Hp).
  destruct (unw_prefix _ _ _ Hu) as (q & E).
  exists p, q, bs, ln, lh. repeat split; try assumption; apply Hwf.
Qed.

(* what any other outcome left, when COMMIT replies are never lost *)
Lemma step_not_converged : forall o,
  (forall i r, G i r -> r <> RFail KDropAfter) ->
  r_out (step c s d) = Fin o -> o <> OConverged ->
  exists p q, g = p ++ q /\ unw RJ g p /\ pv c (r_db (step c s d)) = render c p.
Proof.
  intros o Hnda Ho Hne. destruct step_all as (_ & _ & C). destruct (C _ Ho) as (_ & _ & Hidle & _).
  destruct (Hidle Hnda Hne) as (p & Hu & _ & Hp). destruct (unw_prefix _ _ _ Hu) as (q & E).
  exists p, q. repeat split; assumption.
Qed.

(* outcomes other than success and failure commit nothing at all *)
Lemma step_quiet : forall o,
  r_out (step c s d) = Fin o -> o <> OConverged -> o <> OFailed -> r_db (step c s d) = d.
Proof.
  intros o Ho H1 H2. destruct step_all as (_ & _ & C). destruct (C _ Ho) as (_ & _ & _ & Hq & _).
  apply Hq; assumption.
Qed.

Lemma step_done : r_out (step c s d) = Fin ODone ->
  r_db (step c s d) = d /\ 0 < t_stop c
  /\ exists p q ln lh, g = p ++ q /\ pos_of c HP HD p ln lh /\ t_stop c <= ln.
Proof.
  intros Ho. split; [apply (step_quiet ODone Ho); discriminate|].
  destruct step_all as (_ & _ & C). destruct (C _ Ho) as (_ & _ & _ & _ & Hd).
  destruct (Hd eq_refl) as (Hs & p & ln & lh & Hu & _ & Hpos & Hle).
  split; [exact Hs|]. destruct (unw_prefix _ _ _ Hu) as (q & E).
  exists p, q, ln, lh. repeat split; assumption.
Qed.

End Step.
