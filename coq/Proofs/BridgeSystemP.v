(* Bridge: whole-system composition (Model/BridgeSystem.v).
   1. the system invariant of C04 (Proofs/TaskSysP.v) with the growth
      invariant TaskInvG of C01 in place of TaskInv: every task against ITS OWN
      canonical chain, any interleaving, faults, crashes;
   2. nothing is ever stored outside the pairs of the system's tasks;
   3. the tasks the manager model loads (C20) form such a system; with the
      rows->task bridge (C01/C11) every pair's table is the declared
      projection, every stored row has exactly one owner;
   4. the premise on schedules is satisfiable for every order of moves
      ([gen_sched]); a concrete two-integration system. *)
From Coq Require Import List NArith Bool Lia ZifyBool ZifyN ZifyNat.
From Shovel Require Import Base.Outcome.
From Shovel Require Model.Manager Model.Filter Model.Rows Model.RowsAbi Proofs.ManagerLoadP
  Proofs.BridgeManagerTaskP Proofs.BridgeRowsTaskP.
From Shovel Require Import Model.TaskTypes Model.TaskDb Model.Task Model.TaskNode Model.TaskSys
  Model.TaskSpec Proofs.TaskArithP Proofs.TaskDbP Proofs.TaskExecP Proofs.TaskLoadP Proofs.TaskInvP
  Proofs.TaskStepP Proofs.TaskChainP Proofs.C04P Proofs.C02P Proofs.C01P Proofs.TaskSysP
  Model.BridgeRowsTask Model.BridgeSystem.
Import ListNotations.
Open Scope N_scope.

Arguments N.add : simpl never.
Arguments N.sub : simpl never.
Arguments N.mul : simpl never.
Arguments N.leb : simpl never.
Arguments N.eqb : simpl never.

(* ================= 1. the growth invariant of the system ================= *)
Lemma TaskInvG_pv : forall c canon x y, pv c x = pv c y -> TaskInvG c canon x -> TaskInvG c canon y.
Proof.
  intros c canon x y E (g & Hp & Hw & Hon). exists g. split; [rewrite <- E; exact Hp|split; assumption].
Qed.

Lemma TaskInvG_TaskInv : forall c canon d, TaskInvG c canon d -> TaskInv c d.
Proof. intros c canon d (g & Hp & Hw & _). exists g. split; assumption. Qed.

Lemma converge_safeG : forall c canon d,
  cfg_ok c -> wf_chain canon -> height canon < nmax -> TaskInvG c canon d ->
  safe (t_uniq c) (TaskInvG c canon) (growth_reply (t_hashes c) canon) SAall (converge c) d None Qclosed.
Proof.
  intros c canon d Hc Hwf Hsm (g & Hpv & Hw & Hon).
  pose proof (S_converge c (growth_reply (t_hashes c) canon) SAall True (on_chain (t_hashes c) canon)
                (HPg canon) (HDg canon) RJg g (outside c d) d Hc
                (Gg_ok c canon Hwf Hsm) (Gg_bp c canon Hwf Hsm) (Gg_hp c canon) (Gg_hd c canon)
                (cfg_self c Hc) (fun _ _ => I) (no_reorg' c canon Hwf Hsm)
                eq_refl Hpv (conj Hw Hon)) as HS.
  eapply safe_mono; [| |exact HS].
  - intros x (_ & [(p & _ & [Hwp Hbp] & E)|(p & bs & _ & _ & [Hwp Hbp] & E)] & _);
      (eexists; split; [exact E|split; assumption]).
  - intros o x y Hq. apply Hq.
Qed.

Section SysG.
Variable ch : tcfg -> chain.

Definition chain_good (c : tcfg) : Prop := wf_chain (ch c) /\ height (ch c) < nmax.

Definition task_goodG (d : db) (t : tstate) : Prop :=
  cfg_ok (ts_cfg t) /\ chain_good (ts_cfg t) /\ cs_own (ts_cfg t) (ts_cs t)
  /\ match ts_prog t with
     | None => ts_cs t = None /\ TaskInvG (ts_cfg t) (ch (ts_cfg t)) d
     | Some p => all_ops (keyed (ts_cfg t)) p
                 /\ safe (t_uniq (ts_cfg t)) (TaskInvG (ts_cfg t) (ch (ts_cfg t)))
                         (growth_reply (t_hashes (ts_cfg t)) (ch (ts_cfg t))) SAall p d (ts_cs t) Qclosed
     end.

Lemma task_goodG_inv : forall d t, task_goodG d t -> TaskInvG (ts_cfg t) (ch (ts_cfg t)) d.
Proof.
  intros d t (_ & _ & _ & H). destruct (ts_prog t); [|apply H].
  destruct H as [_ H]. apply (safe_now _ _ _ _ _ _ _ _ H).
Qed.

Lemma task_goodG_ok : forall d t, task_goodG d t -> ts_ok t.
Proof.
  intros d t (_ & _ & Hown & H). split; [exact Hown|]. destruct (ts_prog t); [apply H|exact I].
Qed.

Lemma task_goodG_pv : forall d d' t,
  pv (ts_cfg t) d' = pv (ts_cfg t) d -> task_goodG d t -> task_goodG d' t.
Proof.
  intros d d' t E (Hc & Hch & Hown & H). split; [exact Hc|]. split; [exact Hch|]. split; [exact Hown|].
  destruct (ts_prog t) as [p|].
  - destruct H as [Hk Hs]. split; [exact Hk|]. intros s _ Ht.
    apply (safe_pv (t_uniq (ts_cfg t)) (ts_cfg t) (TaskInvG (ts_cfg t) (ch (ts_cfg t)))
                   (growth_reply (t_hashes (ts_cfg t)) (ch (ts_cfg t))) Qclosed
                   (TaskInvG_pv (ts_cfg t) (ch (ts_cfg t))) (fun _ _ _ _ _ H => H)
                   s p d d' (ts_cs t) Hk Hown E Hs Ht).
  - destruct H as [A B]. split; [exact A|].
    apply (TaskInvG_pv _ _ d d'); [symmetry; exact E|exact B].
Qed.

Lemma task_move_goodG : forall d a t, a <> ACrash -> task_goodG d t ->
  match ts_prog t with
  | Some (Op i k) => growth_reply (t_hashes (ts_cfg t)) (ch (ts_cfg t)) i
                                  (snd (step_op (t_uniq (ts_cfg t)) d (ts_cs t) i a))
  | _ => True
  end ->
  task_goodG (fst (task_move d a t)) (snd (task_move d a t)).
Proof.
  intros d a t Ha (Hc & Hch & Hown & H) Hr. unfold task_move. destruct (ts_prog t) as [[o|i k]|].
  - destruct H as [_ Hs]. cbn [fst snd]. split; [exact Hc|]. split; [exact Hch|]. split; [exact Hown|].
    cbn [ts_prog ts_cs ts_cfg].
    split; [apply (safe_ret_inv _ _ _ _ _ _ _ _ Hs)|apply (safe_now _ _ _ _ _ _ _ _ Hs)].
  - destruct H as [[Hki Hkk] Hs].
    pose proof (safe_step _ _ _ _ _ _ _ _ _ a Hs Ha I Hr) as Hs1.
    destruct (step_op_frame (t_uniq (ts_cfg t)) (ts_cfg t) d (ts_cs t) i a Hki Hown) as [_ Hown1].
    destruct (step_op (t_uniq (ts_cfg t)) d (ts_cs t) i a) as [[d1 cs1] r]. cbn [fst snd] in *.
    split; [exact Hc|]. split; [exact Hch|]. split; [exact Hown1|]. cbn [ts_prog ts_cs ts_cfg].
    split; [apply Hkk|exact Hs1].
  - destruct H as [Hn Hi]. cbn [fst snd]. split; [exact Hc|]. split; [exact Hch|]. split; [exact Hown|].
    cbn [ts_prog ts_cs ts_cfg].
    split; [apply K_converge|]. rewrite Hn. destruct Hch as [Hwf Hsm]. apply converge_safeG; assumption.
Qed.

Lemma move_task_goodG : forall tid a ts d, a <> ACrash ->
  Forall (task_goodG d) ts -> NoDup (pairs ts) ->
  (forall t, In t ts -> t_id (ts_cfg t) = tid ->
     match ts_prog t with
     | Some (Op i k) => growth_reply (t_hashes (ts_cfg t)) (ch (ts_cfg t)) i
                                     (snd (step_op (t_uniq (ts_cfg t)) d (ts_cs t) i a))
     | _ => True
     end) ->
  Forall (task_goodG (fst (move_task tid a d ts))) (snd (move_task tid a d ts)).
Proof.
  intros tid a ts. induction ts as [|t ts IH]; intros d Ha Hg Hnd Hr; [constructor|].
  inversion Hg as [|? ? Ht Hts]; subst. inversion Hnd as [|? ? Hnin Hnd']; subst.
  cbn [move_task]. destruct (N.eqb_spec (t_id (ts_cfg t)) tid) as [E|E].
  - pose proof (task_move_goodG d a t Ha Ht (Hr t (or_introl eq_refl) E)) as Hm.
    destruct (task_move_ok d a t Ha (task_goodG_ok _ _ Ht)) as (_ & Hcfg & Hout).
    destruct (task_move d a t) as [d1 t1]. cbn [fst snd] in *.
    constructor; [exact Hm|].
    apply Forall_forall. intros t2 Ht2. rewrite Forall_forall in Hts.
    apply (task_goodG_pv d d1 t2); [|apply Hts; exact Ht2].
    assert (Hne : (t_src (ts_cfg t), t_ig (ts_cfg t)) <> (t_src (ts_cfg t2), t_ig (ts_cfg t2))).
    { intros Eq. apply Hnin. unfold pairs. apply in_map_iff. exists t2. split; [symmetry; exact Eq|exact Ht2]. }
    unfold pv. rewrite <- (restrict_outside (ts_cfg t) _ _ d1 Hne), Hout. apply restrict_outside. exact Hne.
  - assert (Hok : Forall ts_ok ts) by (eapply Forall_impl; [|exact Hts]; intros x; apply task_goodG_ok).
    destruct (move_task_ok tid a ts d Ha Hok) as (_ & _ & Hfr).
    specialize (IH d Ha Hts Hnd' (fun t2 H2 => Hr t2 (or_intror H2))).
    destruct (move_task tid a d ts) as [d1 ts1]. cbn [fst snd] in *.
    constructor; [|exact IH].
    apply (task_goodG_pv d d1 t); [|exact Ht]. unfold pv. apply Hfr.
    intros t2 Ht2 _ Eq. apply Hnin. unfold pairs. apply in_map_iff. exists t2. split; [exact Eq|exact Ht2].
Qed.

Definition sys_goodG (st : sys) : Prop :=
  Forall (task_goodG (s_db st)) (s_tasks st) /\ NoDup (pairs (s_tasks st)).

Lemma sys_step_goodG : forall st m, sys_goodG st -> move_growth ch st m -> sys_goodG (sys_step st m).
Proof.
  intros st [tid a] [Hg Hnd] Hm. unfold move_growth in Hm. cbn [fst snd] in Hm.
  destruct (match a with ACrash => true | _ => false end) eqn:Ea.
  - destruct a; try discriminate. unfold sys_step. cbn [snd s_db s_tasks]. split.
    + unfold crash_all. apply Forall_forall. intros t Ht. apply in_map_iff in Ht.
      destruct Ht as (t0 & <- & Ht0). rewrite Forall_forall in Hg. pose proof (Hg t0 Ht0) as H0.
      destruct H0 as (Hc & Hch & _ & _). split; [exact Hc|]. split; [exact Hch|]. split; [exact I|].
      cbn [ts_prog ts_cs ts_cfg].
      split; [reflexivity|apply task_goodG_inv; apply Hg; exact Ht0].
    + cbn [s_tasks]. rewrite (pairs_cfg (s_tasks st)); [exact Hnd|]. unfold crash_all. rewrite map_map. reflexivity.
  - assert (Hna : a <> ACrash) by (destruct a; congruence).
    destruct Hm as [Hm|Hm]; [congruence|].
    assert (E : sys_step st (tid, a)
                = Sys (fst (move_task tid a (s_db st) (s_tasks st))) (snd (move_task tid a (s_db st) (s_tasks st)))).
    { unfold sys_step. cbn [fst snd]. destruct a; try discriminate;
        destruct (move_task tid _ (s_db st) (s_tasks st)); reflexivity. }
    rewrite E. split; cbn [s_db s_tasks].
    + apply move_task_goodG; assumption.
    + assert (Hok : Forall ts_ok (s_tasks st)) by (eapply Forall_impl; [|exact Hg]; intros x; apply task_goodG_ok).
      destruct (move_task_ok tid a (s_tasks st) (s_db st) Hna Hok) as (_ & Hcfg & _).
      rewrite (pairs_cfg _ _ Hcfg). exact Hnd.
Qed.

Lemma sys_states_goodG : forall sch st, sys_goodG st -> sched_growth ch sch st ->
  Forall sys_goodG (sys_states sch st).
Proof.
  induction sch as [|m sch IH]; intros st Hg Hs; cbn [sys_states]; [constructor; [exact Hg|constructor]|].
  destruct Hs as [Hm Hs]. constructor; [exact Hg|]. apply IH; [apply sys_step_goodG; assumption|exact Hs].
Qed.

Lemma sys_init_goodG : forall cfgs d,
  Forall cfg_ok cfgs -> NoDup (map pair_of cfgs) -> Forall chain_good cfgs ->
  Forall (fun c => TaskInvG c (ch c) d) cfgs ->
  sys_goodG (sys_init cfgs d).
Proof.
  intros cfgs d Hc Hnd Hch Hi. unfold sys_goodG, sys_init. cbn [s_db s_tasks]. split.
  - apply Forall_forall. intros t Ht. apply in_map_iff in Ht. destruct Ht as (c & <- & Hin).
    rewrite Forall_forall in Hc, Hi, Hch. split; [apply Hc; exact Hin|]. split; [apply Hch; exact Hin|].
    split; [exact I|].
    cbn [ts_prog ts_cs ts_cfg]. split; [reflexivity|apply Hi; exact Hin].
  - unfold pairs. rewrite map_map. cbn [ts_cfg]. exact Hnd.
Qed.

(* the configurations of the tasks never change *)
Lemma states_cfgs : forall sch st0 st1, In st1 (sys_states sch st0) -> sys_ok st0 ->
  map ts_cfg (s_tasks st1) = map ts_cfg (s_tasks st0).
Proof.
  induction sch as [|m sch IH]; intros st0 st1 H1 Hok; cbn [sys_states] in H1.
  - destruct H1 as [<-|[]]. reflexivity.
  - destruct H1 as [<-|H1]; [reflexivity|].
    destruct (sys_step_ok st0 m Hok) as (A & B & _). rewrite (IH _ _ H1 A). exact B.
Qed.

Lemma init_cfgs : forall cfgs d, map ts_cfg (s_tasks (sys_init cfgs d)) = cfgs.
Proof. intros. unfold sys_init. cbn [s_tasks]. rewrite map_map. cbn [ts_cfg]. apply map_id. Qed.

(* THE SYSTEM GROWTH INVARIANT *)
Lemma system_growth_inv_lemma : forall cfgs d sch,
  Forall cfg_ok cfgs -> NoDup (map pair_of cfgs) ->
  Forall (fun c => wf_chain (ch c) /\ height (ch c) < nmax) cfgs ->
  Forall (fun c => TaskInvG c (ch c) d) cfgs ->
  sched_growth ch sch (sys_init cfgs d) ->
  forall st, In st (sys_states sch (sys_init cfgs d)) ->
  forall c, In c cfgs -> TaskInvG c (ch c) (s_db st).
Proof.
  intros cfgs d sch Hc Hnd Hch Hi Hs st Hst c Hin.
  pose proof (sys_states_goodG sch _ (sys_init_goodG cfgs d Hc Hnd Hch Hi) Hs) as Hall.
  rewrite Forall_forall in Hall. destruct (Hall st Hst) as [Hg _].
  pose proof (states_cfgs sch _ st Hst (sys_init_ok cfgs d)) as E. rewrite init_cfgs in E.
  assert (Hc_in : In c (map ts_cfg (s_tasks st))) by (rewrite E; exact Hin).
  apply in_map_iff in Hc_in. destruct Hc_in as (t & <- & Ht).
  rewrite Forall_forall in Hg. apply task_goodG_inv. apply Hg. exact Ht.
Qed.

(* a growth schedule is a schedule of C04 *)
Lemma move_growth_ok : forall st m,
  Forall (fun t => chain_good (ts_cfg t)) (s_tasks st) -> move_growth ch st m -> move_ok st m.
Proof.
  intros st m Hch [Hm|Hm]; [left; exact Hm|right]. intros t Ht Hid. specialize (Hm t Ht Hid).
  rewrite Forall_forall in Hch. destruct (Hch t Ht) as [Hwf Hsm].
  destruct (ts_prog t) as [[o|i k]|]; try exact I. eapply Gg_ok; eassumption.
Qed.
End SysG.

(* ================= 2. nothing outside the pairs of the tasks ================= *)
Lemma restrict_rows_in : forall s i d r, In r (d_rows d) -> r_src r = s -> r_ig r = i ->
  In r (d_rows (restrict s i d)).
Proof.
  intros s i d r Hin <- <-. unfold restrict. cbn [d_rows]. apply filter_In. split; [exact Hin|].
  unfold row_of. rewrite !N.eqb_refl. reflexivity.
Qed.
Lemma restrict_curs_in : forall s i d x, In x (d_curs d) -> c_src x = s -> c_ig x = i ->
  In x (d_curs (restrict s i d)).
Proof.
  intros s i d x Hin <- <-. unfold restrict. cbn [d_curs]. apply filter_In. split; [exact Hin|].
  unfold cur_of. rewrite !N.eqb_refl. reflexivity.
Qed.

Lemma pair_in_dec : forall (p : N * N) l, In p l \/ ~ In p l.
Proof.
  intros p l. induction l as [|q l IH]; [right; intros []|].
  destruct IH as [IH|IH]; [left; right; exact IH|].
  destruct p as [p1 p2], q as [q1 q2].
  destruct (N.eq_dec q1 p1) as [E1|E1]; [destruct (N.eq_dec q2 p2) as [E2|E2]|].
  - left. left. congruence.
  - right. intros [H|H]; [congruence|exact (IH H)].
  - right. intros [H|H]; [congruence|exact (IH H)].
Qed.

(* a pair that is no task's pair keeps the restriction it had initially *)
Lemma foreign_pair_frozen : forall cfgs s i sch st0, sys_ok st0 ->
  map ts_cfg (s_tasks st0) = cfgs -> ~ In (s, i) (map pair_of cfgs) ->
  forall st, In st (sys_states sch st0) -> restrict s i (s_db st) = restrict s i (s_db st0).
Proof.
  intros cfgs s i. induction sch as [|m sch IH]; intros st0 Hok Hcf Hnin st Hst; cbn [sys_states] in Hst.
  - destruct Hst as [<-|[]]. reflexivity.
  - destruct Hst as [<-|Hst]; [reflexivity|].
    destruct (sys_step_ok st0 m Hok) as (A & B & C).
    rewrite (IH (sys_step st0 m) A (eq_trans B Hcf) Hnin st Hst). apply C.
    intros t Ht _ Eq. apply Hnin. rewrite <- Hcf, map_map. apply in_map_iff. exists t.
    split; [exact Eq|exact Ht].
Qed.

Lemma owned_lemma : forall cfgs d sch, owned_by cfgs d ->
  forall st, In st (sys_states sch (sys_init cfgs d)) -> owned_by cfgs (s_db st).
Proof.
  intros cfgs d sch [Hr Hc] st Hst. split.
  - intros r Hin. destruct (pair_in_dec (r_src r, r_ig r) (map pair_of cfgs)) as [H|H]; [exact H|exfalso].
    pose proof (foreign_pair_frozen cfgs (r_src r) (r_ig r) sch _ (sys_init_ok cfgs d) (init_cfgs cfgs d) H st Hst) as E.
    pose proof (restrict_rows_in _ _ _ r Hin eq_refl eq_refl) as Hin'. rewrite E in Hin'.
    unfold sys_init, restrict in Hin'. cbn [s_db d_rows] in Hin'. apply filter_In in Hin'.
    apply H. apply Hr. apply Hin'.
  - intros x Hin. destruct (pair_in_dec (c_src x, c_ig x) (map pair_of cfgs)) as [H|H]; [exact H|exfalso].
    pose proof (foreign_pair_frozen cfgs (c_src x) (c_ig x) sch _ (sys_init_ok cfgs d) (init_cfgs cfgs d) H st Hst) as E.
    pose proof (restrict_curs_in _ _ _ x Hin eq_refl eq_refl) as Hin'. rewrite E in Hin'.
    unfold sys_init, restrict in Hin'. cbn [s_db d_curs] in Hin'. apply filter_In in Hin'.
    apply H. apply Hc. apply Hin'.
Qed.

(* ================= 3. the system a configuration defines ================= *)
Definition rest_of (w : world) (t : Manager.task) : BridgeManagerTaskP.tl_rest :=
  {| BridgeManagerTaskP.x_id := w_id w t; BridgeManagerTaskP.x_tbl := w_tbl w t;
     BridgeManagerTaskP.x_deps := w_deps w t; BridgeManagerTaskP.x_hashes := w_hashes w t;
     BridgeManagerTaskP.x_uniq := w_uniq w t |}.

Lemma sys_cfg_is_to_tcfg : forall w t,
  sys_cfg w t = BridgeManagerTaskP.to_tcfg (w_enc w) (rest_of w) t.
Proof. reflexivity. Qed.

Lemma loaded_pairs_nodup : forall w fs ds fi di ts,
  BridgeManagerTaskP.injective (w_enc w) -> Manager.load_tasks fs ds fi di = Ok ts ->
  NoDup (map pair_of (sys_cfgs w ts)).
Proof.
  intros w fs ds fi di ts Hinj Hl.
  exact (BridgeManagerTaskP.loaded_tasks_have_distinct_pairs_l (w_enc w) (rest_of w) fs ds fi di ts Hinj Hl).
Qed.

Lemma nodup_map_eq : forall {A B} (f : A -> B) l a b,
  NoDup (map f l) -> In a l -> In b l -> f a = f b -> a = b.
Proof.
  intros A B f l. induction l as [|x l IH]; intros a b Hnd Ha Hb E; [destruct Ha|].
  cbn [map] in Hnd. inversion Hnd as [|? ? Hn Hnd']; subst.
  destruct Ha as [<-|Ha], Hb as [<-|Hb].
  - reflexivity.
  - exfalso. apply Hn. rewrite E. apply in_map. exact Hb.
  - exfalso. apply Hn. rewrite <- E. apply in_map. exact Ha.
  - apply IH; assumption.
Qed.

Lemma find_unique : forall {A} (p : A -> bool) l a,
  In a l -> p a = true -> (forall b, In b l -> p b = true -> b = a) -> find p l = Some a.
Proof.
  intros A p l. induction l as [|x l IH]; intros a Ha Hp Hu; [destruct Ha|]. cbn [find].
  destruct (p x) eqn:Px.
  - f_equal. apply Hu; [left; reflexivity|exact Px].
  - destruct Ha as [->|Ha]; [congruence|]. apply IH; [exact Ha|exact Hp|].
    intros b Hb. apply Hu. right. exact Hb.
Qed.

Lemma pair_eqb_eq : forall a b : N * N, pair_eqb a b = true <-> a = b.
Proof.
  intros [a1 a2] [b1 b2]. unfold pair_eqb. cbn [fst snd]. rewrite andb_true_iff, !N.eqb_eq.
  split; [intros [-> ->]; reflexivity|intros E; inversion E; split; reflexivity].
Qed.

Lemma chain_of_in : forall w ts t, NoDup (map pair_of (sys_cfgs w ts)) -> In t ts ->
  chain_of w ts (sys_cfg w t) = sys_chain w t.
Proof.
  intros w ts t Hnd Hin. unfold chain_of.
  rewrite (find_unique _ ts t Hin); [reflexivity|apply pair_eqb_eq; reflexivity|].
  intros b Hb E. apply pair_eqb_eq in E. unfold sys_cfgs in Hnd. rewrite map_map in Hnd.
  apply (nodup_map_eq (fun x => pair_of (sys_cfg w x)) ts b t Hnd Hb Hin E).
Qed.

Lemma loaded_chain_of : forall w fs ds fi di ts t,
  BridgeManagerTaskP.injective (w_enc w) -> Manager.load_tasks fs ds fi di = Ok ts -> In t ts ->
  chain_of w ts (sys_cfg w t) = sys_chain w t.
Proof.
  intros w fs ds fi di ts t Hinj Hl Hin.
  apply chain_of_in; [exact (loaded_pairs_nodup w fs ds fi di ts Hinj Hl)|exact Hin].
Qed.

Lemma scan_length : forall d bs, length (RowsAbi.chain_with_scan d bs) = length bs.
Proof. intros. unfold RowsAbi.chain_with_scan. apply map_length. Qed.

Lemma scan_numbered : forall d bs n, numbered_from n bs -> numbered_from n (RowsAbi.chain_with_scan d bs).
Proof.
  intros d. induction bs as [|b r IH]; intros n H; [exact I|].
  destruct H as (A & B & C). cbn [RowsAbi.chain_with_scan map numbered_from Rows.b_num Rows.b_hash].
  split; [exact A|]. split; [exact B|]. apply IH. exact C.
Qed.

Lemma scan_wf : forall d bs, rows_chain_wf bs -> rows_chain_wf (RowsAbi.chain_with_scan d bs).
Proof.
  intros d bs [Hne Hn]. split; [|apply scan_numbered; exact Hn].
  intros E. apply Hne. apply (f_equal (@length _)) in E. rewrite scan_length in E.
  destruct bs; [reflexivity|discriminate].
Qed.

Section Loaded.
Variable w : world.
Variables (fs ds : list Manager.source) (fi di : list Manager.integration) (ts : list Manager.task).
Hypothesis Hinj : BridgeManagerTaskP.injective (w_enc w).
Hypothesis Hload : Manager.load_tasks fs ds fi di = Ok ts.
Hypothesis Hw : world_ok w ts.

Lemma loaded_cfg_ok : forall t, In t ts -> cfg_ok (sys_cfg w t).
Proof.
  intros t Hin. destruct (Hw t Hin) as (A & B & C & D & _).
  destruct (BridgeManagerTaskP.loaded_tasks_batch_conc_pos_l fs ds fi di ts t Hload Hin) as [E F].
  unfold cfg_ok, sys_cfg. cbn [t_batch t_conc t_start t_stop t_ig t_deps].
  repeat split; assumption.
Qed.

Lemma loaded_chain_good : forall t, In t ts ->
  wf_chain (sys_chain w t) /\ height (sys_chain w t) < nmax.
Proof.
  intros t Hin. destruct (Hw t Hin) as (_ & _ & _ & _ & Hwf & Hlen & _).
  destruct (BridgeRowsTaskP.inst_chain_ok (sys_decl w t) (sys_ctx t) (w_dbs w) (sys_rchain w t)
              (scan_wf _ _ Hwf)) as (A & B & _).
  unfold sys_chain. split; [exact A|]. rewrite B. unfold sys_rchain. rewrite scan_length. exact Hlen.
Qed.

Lemma empty_invG : forall c canon, TaskInvG c canon (Db [] []).
Proof.
  intros c canon. exists []. split; [reflexivity|]. split; [|constructor].
  split; [constructor|]. split; [reflexivity|constructor].
Qed.

Lemma loaded_invG : forall sch,
  sched_growth (chain_of w ts) sch (sys_start w ts) ->
  forall st, In st (sys_states sch (sys_start w ts)) ->
  forall t, In t ts -> TaskInvG (sys_cfg w t) (sys_chain w t) (s_db st).
Proof.
  intros sch Hs st Hst t Hin.
  pose proof (loaded_pairs_nodup w fs ds fi di ts Hinj Hload) as Hnd.
  rewrite <- (chain_of_in w ts t Hnd Hin).
  apply (system_growth_inv_lemma (chain_of w ts) (sys_cfgs w ts) (Db [] []) sch); try assumption.
  - apply Forall_forall. intros c Hc. apply in_map_iff in Hc. destruct Hc as (t0 & <- & H0).
    apply loaded_cfg_ok. exact H0.
  - apply Forall_forall. intros c Hc. apply in_map_iff in Hc. destruct Hc as (t0 & <- & H0).
    rewrite (chain_of_in w ts t0 Hnd H0). apply loaded_chain_good. exact H0.
  - apply Forall_forall. intros c _. apply empty_invG.
  - unfold sys_cfgs. apply in_map. exact Hin.
Qed.

(* every pair's table is the declared projection, in every state visited *)
Lemma system_projection_lemma : forall sch,
  sched_growth (chain_of w ts) sch (sys_start w ts) ->
  forall st, In st (sys_states sch (sys_start w ts)) ->
  forall t, In t ts -> declared_projection_of w t (s_db st).
Proof.
  intros sch Hs st Hst t Hin. pose proof (loaded_invG sch Hs st Hst t Hin) as Hinv.
  destruct (Hw t Hin) as (_ & _ & _ & _ & _ & Hlen & Hok).
  assert (Hlen' : N.of_nat (length (sys_rchain w t)) < nmax) by (unfold sys_rchain; rewrite scan_length; exact Hlen).
  pose proof (BridgeRowsTaskP.declared_projection (sys_decl w t) (sys_ctx t) (w_dbs w) (sys_rchain w t)
                (sys_cfg w t) (s_db st) Hok Hlen' Hinv) as H.
  unfold declared_projection_of. cbv zeta.
  replace (length (w_raw w (Manager.t_src t))) with (length (sys_rchain w t))
    by (unfold sys_rchain; apply scan_length).
  exact H.
Qed.

(* every stored row and every cursor has exactly one owner among the loaded
   tasks, and the row is a declared row of THAT task's declaration *)
Lemma system_owner_lemma : forall sch,
  sched_growth (chain_of w ts) sch (sys_start w ts) ->
  forall st, In st (sys_states sch (sys_start w ts)) ->
  (forall r, In r (d_rows (s_db st)) ->
     exists t, In t ts
       /\ row_of (t_src (sys_cfg w t)) (t_ig (sys_cfg w t)) r = true
       /\ (forall t', In t' ts -> row_of (t_src (sys_cfg w t')) (t_ig (sys_cfg w t')) r = true -> t' = t)
       /\ exists b k gr, In b (sys_rchain w t) /\ r = trow_of (sys_cfg w t) (Rows.b_num b) (k, gr)
                         /\ declared_row (sys_decl w t) (sys_ctx t) (w_dbs w) b k gr)
  /\ (forall x, In x (d_curs (s_db st)) ->
        exists t, In t ts /\ cur_of (t_src (sys_cfg w t)) (t_ig (sys_cfg w t)) x = true).
Proof.
  intros sch Hs st Hst.
  pose proof (loaded_pairs_nodup w fs ds fi di ts Hinj Hload) as Hnd.
  assert (Hown : owned_by (sys_cfgs w ts) (Db [] [])) by (split; intros ? []).
  destruct (owned_lemma (sys_cfgs w ts) (Db [] []) sch Hown st Hst) as [Hr Hc]. split.
  - intros r Hin. pose proof (Hr r Hin) as Hp. unfold sys_cfgs in Hp. rewrite map_map in Hp.
    apply in_map_iff in Hp. destruct Hp as (t & Ep & Ht).
    pose proof (f_equal fst Ep) as E1. pose proof (f_equal snd Ep) as E2. unfold pair_of in E1, E2. cbn [fst snd] in E1, E2.
    exists t. split; [exact Ht|].
    assert (Hrow : row_of (t_src (sys_cfg w t)) (t_ig (sys_cfg w t)) r = true)
      by (unfold row_of; rewrite E1, E2, !N.eqb_refl; reflexivity).
    split; [exact Hrow|]. split.
    + intros t' Ht' Hrow'. unfold row_of in Hrow'. apply andb_prop in Hrow'. destruct Hrow' as [A B].
      apply N.eqb_eq in A, B. unfold sys_cfgs in Hnd. rewrite map_map in Hnd.
      apply (nodup_map_eq (fun x => pair_of (sys_cfg w x)) ts t' t Hnd Ht' Ht).
      unfold pair_of. rewrite E1, E2, <- A, <- B. reflexivity.
    + pose proof (loaded_invG sch Hs st Hst t Ht) as Hinv.
      destruct (Hw t Ht) as (_ & _ & _ & _ & _ & Hlen & Hok).
      assert (Hlen' : N.of_nat (length (sys_rchain w t)) < nmax)
        by (unfold sys_rchain; rewrite scan_length; exact Hlen).
      apply (BridgeRowsTaskP.stored_row_declared (sys_decl w t) (sys_ctx t) (w_dbs w) (sys_rchain w t)
               (sys_cfg w t) (s_db st) Hok Hlen' Hinv).
      unfold pv, restrict. cbn [d_rows]. apply filter_In. split; [exact Hin|exact Hrow].
  - intros x Hin. pose proof (Hc x Hin) as Hp. unfold sys_cfgs in Hp. rewrite map_map in Hp.
    apply in_map_iff in Hp. destruct Hp as (t & Ep & Ht).
    pose proof (f_equal fst Ep) as E1. pose proof (f_equal snd Ep) as E2. unfold pair_of in E1, E2. cbn [fst snd] in E1, E2.
    exists t. split; [exact Ht|]. unfold cur_of. rewrite E1, E2, !N.eqb_refl. reflexivity.
Qed.
End Loaded.

(* ================= 4. the premise on schedules is satisfiable ================= *)
Lemma growth_fail : forall hs ch o k, growth_reply hs ch o (RFail k).
Proof. intros hs ch o k. destruct o; exact I. Qed.

Lemma honest_growth : forall hs ch o, wf_chain ch -> growth_reply hs ch o (honest hs ch o).
Proof.
  intros hs ch o Hwf. destruct o; try exact I.
  - (* RLatest *) cbn [honest]. destruct (blk_at ch (height ch - 1)) as [b|] eqn:E; [|exact I].
    cbn [growth_reply]. exists b. destruct (wf_chain_at ch _ b Hwf E) as (En & _). rewrite En.
    split; [exact E|reflexivity].
  - (* RHash *) cbn [honest]. destruct (blk_at ch n) as [b|] eqn:E; [|exact I].
    cbn [growth_reply]. exists b. split; [exact E|reflexivity].
  - (* RGet *) cbn [honest growth_reply]. induction parts as [|p ps IH]; [constructor|].
    cbn [map]. constructor; [|exact IH].
    destruct (N.leb_spec (fst p + snd p) (height ch)) as [H|H]; [|exact I].
    cbn [canon_seg]. split; [exact H|reflexivity].
Qed.

Lemma step_op_fault_reply : forall u d cs i k, snd (step_op u d cs i (AReply (RFail k))) = RFail k.
Proof.
  intros u d cs i k. unfold step_op. destruct (is_db_op i); [|reflexivity].
  assert (E : forced_dep i (AReply (RFail k)) = None) by reflexivity. rewrite E.
  unfold fault. destruct k; try (destruct i; reflexivity).
  destruct (db_step u d cs i) as [[d1 cs1] r1]. reflexivity.
Qed.

Lemma step_op_auto_growth : forall hs ch u d cs i, is_db_op i = true ->
  growth_reply hs ch i (snd (step_op u d cs i AAuto)).
Proof. intros hs ch u d cs i H. destruct i; try discriminate H; exact I. Qed.

Lemma step_op_node_reply : forall u d cs i r, is_db_op i = false ->
  snd (step_op u d cs i (AReply r)) = r.
Proof. intros u d cs i r H. unfold step_op. rewrite H. reflexivity. Qed.

Lemma gen_sched_growth : forall ch cfgs,
  NoDup (map t_id cfgs) -> (forall c, In c cfgs -> wf_chain (ch c)) ->
  forall who st, sys_ok st -> map ts_cfg (s_tasks st) = cfgs ->
  sched_growth ch (gen_sched ch who st) st.
Proof.
  intros ch cfgs Hnd Hwf. induction who as [|[tid j] who IH]; intros st Hok Hcf; [exact I|].
  cbn [gen_sched sched_growth]. split.
  - unfold move_growth. cbn [fst snd]. destruct j as [| |k]; cbn [inj_ans].
    + (* honest *) right. intros t Ht Hid.
      assert (Hf : find (fun t0 => t_id (ts_cfg t0) =? tid) (s_tasks st) = Some t).
      { apply find_unique; [exact Ht|apply N.eqb_eq; exact Hid|]. intros b Hb Eb. apply N.eqb_eq in Eb.
        rewrite <- Hcf, map_map in Hnd.
        apply (nodup_map_eq (fun x => t_id (ts_cfg x)) (s_tasks st) b t Hnd Hb Ht). congruence. }
      unfold honest_ans. rewrite Hf. destruct (ts_prog t) as [[o|i k]|]; try exact I.
      destruct (is_db_op i) eqn:Hdb; [apply step_op_auto_growth; exact Hdb|].
      rewrite step_op_node_reply by exact Hdb. apply honest_growth. apply Hwf. rewrite <- Hcf.
      apply in_map. exact Ht.
    + left. reflexivity.
    + right. intros t Ht Hid. destruct (ts_prog t) as [[o|i k0]|]; try exact I.
      rewrite step_op_fault_reply. apply growth_fail.
  - destruct (sys_step_ok st (tid, inj_ans ch st tid j) Hok) as (A & B & _).
    apply IH; [exact A|rewrite B; exact Hcf].
Qed.

(* for every loaded system and every order of moves / crashes / faults there
   is a schedule satisfying the premise of the theorems *)
Lemma loaded_gen_sched_growth : forall w fs ds fi di ts who,
  BridgeManagerTaskP.injective (w_enc w) -> Manager.load_tasks fs ds fi di = Ok ts -> world_ok w ts ->
  NoDup (map (w_id w) ts) ->
  sched_growth (chain_of w ts) (gen_sched (chain_of w ts) who (sys_start w ts)) (sys_start w ts).
Proof.
  intros w fs ds fi di ts who Hinj Hl Hw Hid.
  pose proof (loaded_pairs_nodup w fs ds fi di ts Hinj Hl) as Hnd.
  apply (gen_sched_growth (chain_of w ts) (sys_cfgs w ts)).
  - unfold sys_cfgs. rewrite map_map. exact Hid.
  - intros c Hc. apply in_map_iff in Hc. destruct Hc as (t & <- & Ht).
    rewrite (chain_of_in w ts t Hnd Ht). apply (loaded_chain_good w ts Hw t Ht).
  - apply sys_init_ok.
  - apply init_cfgs.
Qed.

(* ---------- the concrete system ---------- *)
Lemma ex_load : Manager.load_tasks ex_file_srcs [] ex_file_igs [] = Ok ex_loaded.
Proof. vm_compute. reflexivity. Qed.

Lemma hid_injective : BridgeManagerTaskP.injective (w_enc ex_world).
Proof. intros a b H. apply (proj1 (proj2 (proj2 BridgeRowsTaskP.encodings_injective))). exact H. Qed.

Lemma ex_world_ok : world_ok ex_world ex_loaded.
Proof.
  intros t Ht. vm_compute in Ht. destruct Ht as [<-|[<-|[]]].
  - split; [vm_compute; reflexivity|]. split; [vm_compute; reflexivity|]. split; [vm_compute; reflexivity|].
    split; [intros []|]. split; [split; [discriminate|apply BridgeRowsTaskP.numbered_fromb_ok; vm_compute; reflexivity]|].
    split; [vm_compute; reflexivity|].
    intros b Hb. vm_compute in Hb.
    repeat (destruct Hb as [<-|Hb]; [eexists; vm_compute; reflexivity|]). destruct Hb.
  - split; [vm_compute; reflexivity|]. split; [vm_compute; reflexivity|]. split; [vm_compute; reflexivity|].
    split; [intros []|]. split; [split; [discriminate|apply BridgeRowsTaskP.numbered_fromb_ok; vm_compute; reflexivity]|].
    split; [vm_compute; reflexivity|].
    intros b Hb. vm_compute in Hb.
    repeat (destruct Hb as [<-|Hb]; [eexists; vm_compute; reflexivity|]). destruct Hb.
Qed.

Lemma ex_sched_growth :
  sched_growth (chain_of ex_world ex_loaded) ex_sched (sys_start ex_world ex_loaded).
Proof.
  apply (loaded_gen_sched_growth ex_world ex_file_srcs [] ex_file_igs [] ex_loaded ex_who
           hid_injective ex_load ex_world_ok).
  vm_compute. repeat constructor; intros F; repeat (destruct F as [F|F]; try discriminate F); exact F.
Qed.

Lemma sys_run_in_states : forall sch st, In (sys_run sch st) (sys_states sch st).
Proof.
  induction sch as [|m sch IH]; intros st; [left; reflexivity|].
  cbn [sys_states]. right. unfold sys_run in *. cbn [fold_left]. apply IH.
Qed.

(* the final database of the interleaved run (146 moves: the two tasks
   alternate op by op; one injected error; one process death) holds exactly the
   two declared projections of blocks 1..2 and nothing else *)
Lemma ex_final :
  let d := s_db (sys_run ex_sched (sys_start ex_world ex_loaded)) in
  let ca := sys_cfg ex_world ex_ta in
  let cb := sys_cfg ex_world ex_tb in
  ex_loaded = [ex_ta; ex_tb] /\ pair_of ca <> pair_of cb /\ t_tbl ca = 3 /\ t_tbl cb = 4
  /\ d_rows d
     = concat (map (declared_rows ca ex_decl (sys_ctx ex_ta) []) (rsegment (sys_rchain ex_world ex_ta) 1 2))
       ++ concat (map (declared_rows cb ex2_decl (sys_ctx ex_tb) []) (rsegment (sys_rchain ex_world ex_tb) 1 2))
  /\ d_rows d
     = [ trow_of ca 1 (Key 0 (Some 0) (Some 0%nat) None,
           [Filter.VU256 5; Filter.VU256 9; Filter.VU64 1; Filter.VU64 0; Filter.VU64 0; Filter.VInt Z0]);
         trow_of ca 2 (Key 3 (Some 5) (Some 0%nat) None,
           [Filter.VU256 6; Filter.VU256 10; Filter.VU64 2; Filter.VU64 3; Filter.VU64 5; Filter.VInt Z0]);
         trow_of cb 1 (Key 0 (Some 1) None None,
           [Filter.VU256 11; Filter.VU64 1; Filter.VU64 0; Filter.VU64 1]);
         trow_of cb 2 (Key 3 (Some 4) None None,
           [Filter.VU256 12; Filter.VU64 2; Filter.VU64 3; Filter.VU64 4]) ]
  /\ map (fun x => (c_ig x, c_num x)) (d_curs d) = [(t_ig ca, 1); (t_ig ca, 2); (t_ig cb, 1); (t_ig cb, 2)].
Proof. vm_compute. repeat split; try reflexivity. discriminate. Qed.

(* ---------- the premise is needed ---------- *)
Lemma sched_growth_ok : forall ch cfgs,
  (forall c, In c cfgs -> wf_chain (ch c) /\ height (ch c) < nmax) ->
  forall sch st, sys_ok st -> map ts_cfg (s_tasks st) = cfgs ->
  sched_growth ch sch st -> sched_ok sch st.
Proof.
  intros ch cfgs Hch. induction sch as [|m sch IH]; intros st Hok Hcf Hs; [exact I|].
  destruct Hs as [Hm Hs]. cbn [sched_ok]. split.
  - apply (move_growth_ok ch); [|exact Hm]. apply Forall_forall. intros t Ht. apply Hch.
    rewrite <- Hcf. apply in_map. exact Ht.
  - destruct (sys_step_ok st m Hok) as (A & B & _). apply IH; [exact A|rewrite B; exact Hcf|exact Hs].
Qed.

Lemma ex_swapped_sched_ok : sched_ok ex_swapped_sched (sys_start ex_world ex_loaded).
Proof.
  assert (Hg : forall c, In c (sys_cfgs ex_world ex_loaded) -> wf_chain (ex_swapped c) /\ height (ex_swapped c) < nmax).
  { assert (Ha : In ex_ta ex_loaded) by (vm_compute; left; reflexivity).
    assert (Hb : In ex_tb ex_loaded) by (vm_compute; right; left; reflexivity).
    intros c _. unfold ex_swapped. destruct (t_id c =? 1).
    - apply (loaded_chain_good ex_world ex_loaded ex_world_ok ex_tb Hb).
    - apply (loaded_chain_good ex_world ex_loaded ex_world_ok ex_ta Ha). }
  apply (sched_growth_ok ex_swapped (sys_cfgs ex_world ex_loaded) Hg);
    [apply sys_init_ok|apply init_cfgs|].
  apply (gen_sched_growth ex_swapped (sys_cfgs ex_world ex_loaded)).
  - vm_compute. repeat constructor; intros F; repeat (destruct F as [F|F]; try discriminate F); exact F.
  - intros c Hc. apply Hg. exact Hc.
  - apply sys_init_ok.
  - apply init_cfgs.
Qed.

Lemma projection_from_sched_ok_refuted : ~ projection_from_sched_ok.
Proof.
  intros H.
  assert (Ha : In ex_ta ex_loaded) by (vm_compute; left; reflexivity).
  specialize (H ex_world ex_file_srcs [] ex_file_igs [] ex_loaded ex_swapped_sched
                hid_injective ex_load ex_world_ok ex_swapped_sched_ok ex_ta Ha).
  destruct H as [[L _]|(m & k & n & h & rows & Hk & Hmk & Hnew & Hn & Hrows & _)].
  - vm_compute in L. discriminate L.
  - vm_compute in Hnew. injection Hnew as <- _.
    assert (Hc : (m = 2 /\ k = 1) \/ (m = 1 /\ k = 2) \/ (m = 0 /\ k = 3)) by lia.
    destruct Hc as [[-> ->]|[[-> ->]|[-> ->]]]; vm_compute in Hrows; discriminate Hrows.
Qed.
