(* Bridge: system-level composition across restarts (Model/BridgeRestart.v).
   1. one generation from ANY start database satisfying the invariant of the
      universe keeps it in every state, and does not write pairs it does not run;
   2. (1) of the brief: the loaded system from any start database [start_ok];
   3. any list of generations, each started on the last committed database of
      the previous one;
   4. task level: the growth invariant survives an extension of the chain;
   5. the concrete three-generation restart. *)
From Coq Require Import List NArith Bool Lia ZifyBool ZifyN ZifyNat.
From Shovel Require Import Base.Outcome.
From Shovel Require Model.Manager Model.Filter Model.Rows Model.RowsAbi Proofs.ManagerLoadP
  Proofs.BridgeManagerTaskP Proofs.BridgeRowsTaskP.
From Shovel Require Import Model.TaskTypes Model.TaskDb Model.Task Model.TaskNode Model.TaskSys
  Model.TaskSpec Proofs.TaskDbP Proofs.TaskInvP Proofs.C04P Proofs.C01P Proofs.TaskSysP
  Model.BridgeRowsTask Model.BridgeSystem Proofs.BridgeSystemP Model.BridgeRestart.
Import ListNotations.
Open Scope N_scope.

Arguments N.add : simpl never.
Arguments N.sub : simpl never.
Arguments N.mul : simpl never.
Arguments N.leb : simpl never.
Arguments N.eqb : simpl never.

Lemma world_ok_incl : forall w U ts, world_ok w U -> incl ts U -> world_ok w ts.
Proof. intros w U ts Hw Hi t Ht. apply Hw. apply Hi. exact Ht. Qed.

Lemma proj_of_inv : forall w U t d, world_ok w U -> In t U ->
  TaskInvG (sys_cfg w t) (sys_chain w t) d -> declared_projection_of w t d.
Proof.
  intros w U t d Hw Hin Hinv.
  destruct (Hw t Hin) as (_ & _ & _ & _ & _ & Hlen & Hok).
  assert (Hlen' : N.of_nat (length (sys_rchain w t)) < nmax) by (unfold sys_rchain; rewrite scan_length; exact Hlen).
  pose proof (BridgeRowsTaskP.declared_projection (sys_decl w t) (sys_ctx t) (w_dbs w) (sys_rchain w t)
                (sys_cfg w t) d Hok Hlen' Hinv) as H.
  unfold declared_projection_of. cbv zeta.
  replace (length (w_raw w (Manager.t_src t))) with (length (sys_rchain w t))
    by (unfold sys_rchain; apply scan_length).
  exact H.
Qed.

(* rows / cursors stay inside the pairs of a LARGER set of configurations *)
Lemma owned_super : forall cfgsU cfgs d sch, owned_by cfgsU d ->
  incl (map pair_of cfgs) (map pair_of cfgsU) ->
  forall st, In st (sys_states sch (sys_init cfgs d)) -> owned_by cfgsU (s_db st).
Proof.
  intros cfgsU cfgs d sch [Hr Hc] Hincl st Hst. split.
  - intros r Hin. destruct (pair_in_dec (r_src r, r_ig r) (map pair_of cfgs)) as [H|H]; [apply Hincl; exact H|].
    pose proof (foreign_pair_frozen cfgs (r_src r) (r_ig r) sch _ (sys_init_ok cfgs d) (init_cfgs cfgs d) H st Hst) as E.
    pose proof (restrict_rows_in _ _ _ r Hin eq_refl eq_refl) as Hin'. rewrite E in Hin'.
    unfold sys_init, restrict in Hin'. cbn [s_db d_rows] in Hin'. apply filter_In in Hin'.
    apply Hr. apply Hin'.
  - intros x Hin. destruct (pair_in_dec (c_src x, c_ig x) (map pair_of cfgs)) as [H|H]; [apply Hincl; exact H|].
    pose proof (foreign_pair_frozen cfgs (c_src x) (c_ig x) sch _ (sys_init_ok cfgs d) (init_cfgs cfgs d) H st Hst) as E.
    pose proof (restrict_curs_in _ _ _ x Hin eq_refl eq_refl) as Hin'. rewrite E in Hin'.
    unfold sys_init, restrict in Hin'. cbn [s_db d_curs] in Hin'. apply filter_In in Hin'.
    apply Hc. apply Hin'.
Qed.

(* ================= 1. one generation, any start ================= *)
Lemma gen_frame : forall w ts d sch s i,
  ~ In (s, i) (map pair_of (sys_cfgs w ts)) ->
  forall st, In st (sys_states sch (sys_from w ts d)) -> restrict s i (s_db st) = restrict s i d.
Proof.
  intros w ts d sch s i Hnin st Hst.
  exact (foreign_pair_frozen (sys_cfgs w ts) s i sch _ (sys_init_ok (sys_cfgs w ts) d)
           (init_cfgs (sys_cfgs w ts) d) Hnin st Hst).
Qed.

Lemma gen_step : forall w U g d,
  BridgeManagerTaskP.injective (w_enc w) ->
  NoDup (map pair_of (sys_cfgs w U)) -> world_ok w U ->
  univ_ok w U d -> gen_ok w U g d ->
  forall st, In st (sys_states (g_sched g) (sys_from w (g_tasks g) d)) -> univ_ok w U (s_db st).
Proof.
  intros w U [ts sch] d Hinj HndU Hw [Hinv Hown] ((fs & ds & fi & di & Hload) & Hincl & Hs) st Hst.
  cbn [g_tasks g_sched] in *.
  pose proof (loaded_pairs_nodup w fs ds fi di ts Hinj Hload) as Hnd.
  pose proof (world_ok_incl w U ts Hw Hincl) as Hwts.
  assert (Hrun : forall t, In t ts -> TaskInvG (sys_cfg w t) (sys_chain w t) (s_db st)).
  { intros t Hin. rewrite <- (chain_of_in w ts t Hnd Hin).
    apply (system_growth_inv_lemma (chain_of w ts) (sys_cfgs w ts) d sch); try assumption.
    - apply Forall_forall. intros c Hc. apply in_map_iff in Hc. destruct Hc as (t0 & <- & H0).
      apply (loaded_cfg_ok w fs ds fi di ts Hload Hwts). exact H0.
    - apply Forall_forall. intros c Hc. apply in_map_iff in Hc. destruct Hc as (t0 & <- & H0).
      rewrite (chain_of_in w ts t0 Hnd H0). apply (loaded_chain_good w ts Hwts). exact H0.
    - apply Forall_forall. intros c Hc. apply in_map_iff in Hc. destruct Hc as (t0 & <- & H0).
      rewrite (chain_of_in w ts t0 Hnd H0). apply Hinv. apply Hincl. exact H0.
    - unfold sys_cfgs. apply in_map. exact Hin. }
  split.
  - intros t HtU.
    destruct (pair_in_dec (pair_of (sys_cfg w t)) (map pair_of (sys_cfgs w ts))) as [H|H].
    + unfold sys_cfgs in H. rewrite map_map in H. apply in_map_iff in H. destruct H as (t' & E & Ht').
      unfold sys_cfgs in HndU. rewrite map_map in HndU.
      pose proof (nodup_map_eq (fun x => pair_of (sys_cfg w x)) U t' t HndU (Hincl t' Ht') HtU E) as ->.
      apply Hrun. exact Ht'.
    + apply (TaskInvG_pv (sys_cfg w t) (sys_chain w t) d (s_db st)); [|apply Hinv; exact HtU].
      unfold pv. symmetry. apply (gen_frame w ts d sch); [exact H|exact Hst].
  - apply (owned_super (sys_cfgs w U) (sys_cfgs w ts) d sch Hown); [|exact Hst].
    intros p Hp. unfold sys_cfgs in *. rewrite map_map in *. apply in_map_iff in Hp.
    destruct Hp as (t & <- & Ht). apply in_map_iff. exists t. split; [reflexivity|apply Hincl; exact Ht].
Qed.

(* ================= 2. the loaded system from any start database ================= *)
Lemma start_univ : forall w ts d, NoDup (map pair_of (sys_cfgs w ts)) ->
  (start_ok w ts d <-> univ_ok w ts d).
Proof.
  intros w ts d Hnd. unfold start_ok, univ_ok.
  split; intros [A B]; (split; [|exact B]); intros t Ht.
  - rewrite <- (chain_of_in w ts t Hnd Ht). apply A. exact Ht.
  - rewrite (chain_of_in w ts t Hnd Ht). apply A. exact Ht.
Qed.

Lemma from_any_start_lemma : forall w fs ds fi di ts d0,
  BridgeManagerTaskP.injective (w_enc w) ->
  Manager.load_tasks fs ds fi di = Ok ts -> world_ok w ts ->
  start_ok w ts d0 ->
  forall sch, sched_growth (chain_of w ts) sch (sys_init (sys_cfgs w ts) d0) ->
  forall st, In st (sys_states sch (sys_init (sys_cfgs w ts) d0)) ->
  (forall t, In t ts -> declared_projection_of w t (s_db st)) /\ start_ok w ts (s_db st).
Proof.
  intros w fs ds fi di ts d0 Hinj Hload Hw H0 sch Hs st Hst.
  pose proof (loaded_pairs_nodup w fs ds fi di ts Hinj Hload) as Hnd.
  assert (Hu : univ_ok w ts (s_db st)).
  { apply (gen_step w ts (Gen ts sch) d0 Hinj Hnd Hw); [apply start_univ; assumption| |exact Hst].
    split; [exists fs, ds, fi, di; exact Hload|]. split; [apply incl_refl|exact Hs]. }
  split; [|apply start_univ; assumption].
  intros t Ht. apply (proj_of_inv w ts t _ Hw Ht). apply Hu. exact Ht.
Qed.

Lemma from_any_start_flat : forall w fs ds fi di ts d0,
  BridgeManagerTaskP.injective (w_enc w) ->
  Manager.load_tasks fs ds fi di = Ok ts -> world_ok w ts ->
  (forall t, In t ts -> TaskInvG (sys_cfg w t) (chain_of w ts (sys_cfg w t)) d0) ->
  owned_by (sys_cfgs w ts) d0 ->
  forall sch, sched_growth (chain_of w ts) sch (sys_init (sys_cfgs w ts) d0) ->
  forall st, In st (sys_states sch (sys_init (sys_cfgs w ts) d0)) ->
  (forall t, In t ts -> declared_projection_of w t (s_db st))
  /\ (forall t, In t ts -> TaskInvG (sys_cfg w t) (chain_of w ts (sys_cfg w t)) (s_db st))
  /\ owned_by (sys_cfgs w ts) (s_db st).
Proof.
  intros w fs ds fi di ts d0 Hinj Hl Hw Hi Ho sch Hs st Hst.
  destruct (from_any_start_lemma w fs ds fi di ts d0 Hinj Hl Hw (conj Hi Ho) sch Hs st Hst) as [A [B C]].
  split; [exact A|]. split; [exact B|exact C].
Qed.

(* ================= 3. any list of generations ================= *)
Lemma gens_lemma : forall w U,
  BridgeManagerTaskP.injective (w_enc w) ->
  NoDup (map pair_of (sys_cfgs w U)) -> world_ok w U ->
  forall gs d0, univ_ok w U d0 -> gens_ok w U gs d0 ->
  (forall g d st, In (g, d, st) (gens_visited w gs d0) ->
     univ_ok w U d
     /\ In st (sys_states (g_sched g) (sys_from w (g_tasks g) d))
     /\ (forall t, In t U -> declared_projection_of w t (s_db st))
     /\ (forall s i, ~ In (s, i) (map pair_of (sys_cfgs w (g_tasks g))) ->
           restrict s i (s_db st) = restrict s i d)
     /\ univ_ok w U (s_db st))
  /\ univ_ok w U (gens_end w gs d0).
Proof.
  intros w U Hinj Hnd Hw. induction gs as [|g gs IH]; intros d0 H0 Hok.
  - split; [intros g d st []|exact H0].
  - destruct Hok as [Hg Hrest]. cbn [gens_visited gens_end].
    assert (Hend : univ_ok w U (gen_end w g d0)).
    { apply (gen_step w U g d0 Hinj Hnd Hw H0 Hg). apply sys_run_in_states. }
    destruct (IH (gen_end w g d0) Hend Hrest) as [IH1 IH2]. split; [|exact IH2].
    intros g' d st Hin. apply in_app_or in Hin. destruct Hin as [Hin|Hin]; [|apply IH1; exact Hin].
    apply in_map_iff in Hin. destruct Hin as (st0 & E & Hst). inversion E; subst g' d st0.
    pose proof (gen_step w U g d0 Hinj Hnd Hw H0 Hg st Hst) as Hu.
    split; [exact H0|]. split; [exact Hst|]. split; [|split; [|exact Hu]].
    + intros t Ht. apply (proj_of_inv w U t _ Hw Ht). apply Hu. exact Ht.
    + intros s i Hn. apply (gen_frame w (g_tasks g) d0 (g_sched g)); [exact Hn|exact Hst].
Qed.

Lemma empty_univ_ok : forall w U, univ_ok w U (Db [] []).
Proof. intros w U. split; [intros t _; apply empty_invG|split; intros ? []]. Qed.

(* ================= 4. chain extension, task level ================= *)
Lemma on_chain_ext : forall hs ch ext b, on_chain hs ch b -> on_chain hs (ch ++ ext) b.
Proof.
  intros hs ch ext b (x & E & ->). exists x. split; [|reflexivity].
  unfold blk_at in *. rewrite nth_error_app1; [exact E|]. apply nth_error_Some. rewrite E. discriminate.
Qed.

Lemma TaskInvG_chain_ext : forall c canon ext d, TaskInvG c canon d -> TaskInvG c (canon ++ ext) d.
Proof.
  intros c canon ext d (g & Hp & Hw & Hon). exists g. split; [exact Hp|]. split; [exact Hw|].
  eapply Forall_impl; [|exact Hon]. intros b. apply on_chain_ext.
Qed.

(* ---------- generations with growing chains ---------- *)
Lemma inst_from_app : forall d c dbs a b p,
  exists q, inst_from d c dbs p (a ++ b) = inst_from d c dbs p a ++ inst_from d c dbs q b.
Proof.
  intros d c dbs a b. induction a as [|x a IH]; intros p; [exists p; reflexivity|].
  destruct (IH (bhash_id x)) as [q E]. exists q. cbn [app inst_from]. rewrite E. reflexivity.
Qed.

Lemma sys_cfg_prefix : forall w w' t, raw_prefix w w' -> sys_cfg w' t = sys_cfg w t.
Proof.
  intros w w' t (E1 & E2 & E3 & E4 & E5 & E6 & _). unfold sys_cfg. rewrite E1, E2, E3, E4, E5, E6. reflexivity.
Qed.

Lemma sys_cfgs_prefix : forall w w' ts, raw_prefix w w' -> sys_cfgs w' ts = sys_cfgs w ts.
Proof. intros w w' ts H. unfold sys_cfgs. apply map_ext. intros t. apply sys_cfg_prefix. exact H. Qed.

Lemma sys_chain_prefix : forall w w' t, raw_prefix w w' -> exists e, sys_chain w' t = sys_chain w t ++ e.
Proof.
  intros w w' t (_ & _ & _ & _ & _ & _ & Ed & Eb & Hraw).
  unfold sys_chain, sys_rchain, sys_decl. rewrite Ed, Eb. destruct (Hraw (Manager.t_src t)) as [ext ->].
  unfold RowsAbi.chain_with_scan. rewrite map_app. unfold inst_chain.
  destruct (inst_from_app (w_decl w (Manager.t_ig t)) (sys_ctx t) (w_dbs w)
              (RowsAbi.chain_with_scan (w_decl w (Manager.t_ig t)) (w_raw w (Manager.t_src t)))
              (RowsAbi.chain_with_scan (w_decl w (Manager.t_ig t)) ext) 0) as [q E].
  eexists. exact E.
Qed.

Lemma univ_ok_grow : forall w w' U d, raw_prefix w w' -> univ_ok w U d -> univ_ok w' U d.
Proof.
  intros w w' U d Hp [A B]. split.
  - intros t Ht. rewrite (sys_cfg_prefix w w' t Hp). destruct (sys_chain_prefix w w' t Hp) as [e ->].
    apply TaskInvG_chain_ext. apply A. exact Ht.
  - rewrite (sys_cfgs_prefix w w' U Hp). exact B.
Qed.

Lemma gens_grow_lemma : forall U gs w d0,
  BridgeManagerTaskP.injective (w_enc w) ->
  NoDup (map pair_of (sys_cfgs w U)) ->
  univ_ok w U d0 -> gens_ok_grow w U gs d0 ->
  forall w' g d st, In (w', g, d, st) (gens_visited_grow gs d0) ->
    univ_ok w' U d
    /\ In st (sys_states (g_sched g) (sys_from w' (g_tasks g) d))
    /\ (forall t, In t U -> declared_projection_of w' t (s_db st))
    /\ (forall s i, ~ In (s, i) (map pair_of (sys_cfgs w' (g_tasks g))) ->
          restrict s i (s_db st) = restrict s i d)
    /\ univ_ok w' U (s_db st).
Proof.
  intros U. induction gs as [|[w1 g] gs IH]; intros w d0 Hinj Hnd H0 Hok w' g' d st Hin; [destruct Hin|].
  destruct Hok as (Hp & Hw & Hg & Hrest). cbn [gens_visited_grow] in Hin.
  assert (Hinj1 : BridgeManagerTaskP.injective (w_enc w1)).
  { destruct Hp as (E1 & _). rewrite E1. exact Hinj. }
  assert (Hnd1 : NoDup (map pair_of (sys_cfgs w1 U))) by (rewrite (sys_cfgs_prefix w w1 U Hp); exact Hnd).
  pose proof (univ_ok_grow w w1 U d0 Hp H0) as H1.
  apply in_app_or in Hin. destruct Hin as [Hin|Hin].
  - apply in_map_iff in Hin. destruct Hin as (st0 & E & Hst). inversion E; subst w' g' d st0.
    pose proof (gen_step w1 U g d0 Hinj1 Hnd1 Hw H1 Hg st Hst) as Hu.
    split; [exact H1|]. split; [exact Hst|]. split; [|split; [|exact Hu]].
    + intros t Ht. apply (proj_of_inv w1 U t _ Hw Ht). apply Hu. exact Ht.
    + intros s i Hn. apply (gen_frame w1 (g_tasks g) d0 (g_sched g)); [exact Hn|exact Hst].
  - apply (IH w1 (gen_end w1 g d0) Hinj1 Hnd1); [|exact Hrest|exact Hin].
    apply (gen_step w1 U g d0 Hinj1 Hnd1 Hw H1 Hg). apply sys_run_in_states.
Qed.

(* the premise on schedules is satisfiable for every generation, from any start *)
Lemma gen_of_ok : forall w U fs ds fi di ts who d,
  BridgeManagerTaskP.injective (w_enc w) ->
  Manager.load_tasks fs ds fi di = Ok ts -> incl ts U -> world_ok w U ->
  NoDup (map (w_id w) ts) ->
  gen_ok w U (gen_of w ts who d) d.
Proof.
  intros w U fs ds fi di ts who d Hinj Hl Hi Hw Hid.
  split; [exists fs, ds, fi, di; exact Hl|]. split; [exact Hi|].
  cbn [g_tasks g_sched gen_of].
  pose proof (loaded_pairs_nodup w fs ds fi di ts Hinj Hl) as Hnd.
  apply (gen_sched_growth (chain_of w ts) (sys_cfgs w ts)).
  - unfold sys_cfgs. rewrite map_map. exact Hid.
  - intros c Hc. apply in_map_iff in Hc. destruct Hc as (t & <- & Ht).
    rewrite (chain_of_in w ts t Hnd Ht).
    apply (loaded_chain_good w ts (world_ok_incl _ _ _ Hw Hi) t Ht).
  - apply sys_init_ok.
  - apply init_cfgs.
Qed.

(* ================= 5. the concrete restart ================= *)
Lemma ex_load_b : Manager.load_tasks ex_file_srcs [] ex_file_igs_b [] = Ok ex_loaded_b.
Proof. vm_compute. reflexivity. Qed.

Lemma ex_pairs_nodup : NoDup (map pair_of (sys_cfgs ex_world ex_loaded)).
Proof. exact (loaded_pairs_nodup ex_world ex_file_srcs [] ex_file_igs [] ex_loaded hid_injective ex_load). Qed.

Lemma ex_gen_ok : forall fs fi ts who d,
  Manager.load_tasks fs [] fi [] = Ok ts -> incl ts ex_loaded -> NoDup (map (w_id ex_world) ts) ->
  gen_ok ex_world ex_loaded (ex_gen_of ts who d) d.
Proof.
  intros fs fi ts who d Hl Hi Hid. split; [exists fs, [], fi, []; exact Hl|]. split; [exact Hi|].
  cbn [g_tasks g_sched ex_gen_of].
  pose proof (loaded_pairs_nodup ex_world fs [] fi [] ts hid_injective Hl) as Hnd.
  apply (gen_sched_growth (chain_of ex_world ts) (sys_cfgs ex_world ts)).
  - unfold sys_cfgs. rewrite map_map. exact Hid.
  - intros c Hc. apply in_map_iff in Hc. destruct Hc as (t & <- & Ht).
    rewrite (chain_of_in ex_world ts t Hnd Ht).
    apply (loaded_chain_good ex_world ts (world_ok_incl _ _ _ ex_world_ok Hi) t Ht).
  - apply sys_init_ok.
  - apply init_cfgs.
Qed.

Lemma ex_gens_ok : gens_ok ex_world ex_loaded ex_gens ex_d0.
Proof.
  assert (Hid : NoDup (map (w_id ex_world) ex_loaded)).
  { vm_compute. repeat constructor; intros F; repeat (destruct F as [F|F]; try discriminate F); exact F. }
  assert (Hidb : NoDup (map (w_id ex_world) ex_loaded_b)).
  { vm_compute. repeat constructor; intros F; repeat (destruct F as [F|F]; try discriminate F); exact F. }
  assert (Hib : incl ex_loaded_b ex_loaded).
  { intros t Ht. vm_compute in Ht. destruct Ht as [<-|[]]. vm_compute. right. left. reflexivity. }
  cbn [gens_ok ex_gens]. split; [|split; [|split; [|exact I]]].
  - exact (ex_gen_ok _ _ ex_loaded _ ex_d0 ex_load (incl_refl _) Hid).
  - exact (ex_gen_ok _ _ ex_loaded_b _ ex_d1 ex_load_b Hib Hidb).
  - exact (ex_gen_ok _ _ ex_loaded _ ex_d2 ex_load (incl_refl _) Hid).
Qed.

Lemma ex_restart_hyps :
  BridgeManagerTaskP.injective (w_enc ex_world)
  /\ NoDup (map pair_of (sys_cfgs ex_world ex_loaded))
  /\ world_ok ex_world ex_loaded
  /\ univ_ok ex_world ex_loaded ex_d0
  /\ gens_ok ex_world ex_loaded ex_gens ex_d0.
Proof.
  exact (conj hid_injective (conj ex_pairs_nodup (conj ex_world_ok
          (conj (empty_univ_ok ex_world ex_loaded) ex_gens_ok)))).
Qed.

Lemma ex_restart_run :
  let ca := sys_cfg ex_world ex_ta in
  let cb := sys_cfg ex_world ex_tb in
  let pa := concat (map (declared_rows ca ex_decl (sys_ctx ex_ta) []) (rsegment (sys_rchain ex_world ex_ta) 1 1)) in
  let pb := concat (map (declared_rows cb ex2_decl (sys_ctx ex_tb) []) (rsegment (sys_rchain ex_world ex_tb) 1 1)) in
  let fa := concat (map (declared_rows ca ex_decl (sys_ctx ex_ta) []) (rsegment (sys_rchain ex_world ex_ta) 1 2)) in
  let fb := concat (map (declared_rows cb ex2_decl (sys_ctx ex_tb) []) (rsegment (sys_rchain ex_world ex_tb) 1 2)) in
  g_tasks ex_g1 = [ex_ta; ex_tb] /\ g_tasks ex_g2 = [ex_tb] /\ g_tasks ex_g3 = [ex_ta; ex_tb]
  /\ length (g_sched ex_g1) = 32%nat
  /\ open_tx (sys_run (g_sched ex_g1) (sys_from ex_world ex_loaded ex_d0)) = [true; true]
  /\ d_rows (pv ca ex_d1) = pa /\ d_rows (pv cb ex_d1) = pb /\ pa <> [] /\ pb <> []
  /\ pv ca ex_d2 = pv ca ex_d1 /\ d_rows (pv cb ex_d2) = fb
  /\ d_rows (pv ca (gens_end ex_world ex_gens ex_d0)) = fa
  /\ d_rows (pv cb (gens_end ex_world ex_gens ex_d0)) = fb
  /\ length (d_rows (gens_end ex_world ex_gens ex_d0)) = (length fa + length fb)%nat
  /\ map (fun x => (c_ig x, c_num x)) (d_curs (gens_end ex_world ex_gens ex_d0))
     = [(t_ig ca, 1); (t_ig cb, 1); (t_ig cb, 2); (t_ig ca, 2)]
  /\ pv ca (gens_end ex_world ex_gens ex_d0) = pv ca (s_db (sys_run ex_sched (sys_start ex_world ex_loaded)))
  /\ pv cb (gens_end ex_world ex_gens ex_d0) = pv cb (s_db (sys_run ex_sched (sys_start ex_world ex_loaded))).
Proof. vm_compute. repeat split; try reflexivity; discriminate. Qed.

(* ---------- growing chains, concrete ---------- *)
Lemma ex_world1_ok : world_ok ex_world1 ex_loaded.
Proof.
  intros t Ht. vm_compute in Ht. destruct Ht as [<-|[<-|[]]].
  - split; [vm_compute; reflexivity|]. split; [vm_compute; reflexivity|]. split; [vm_compute; reflexivity|].
    split; [intros []|]. split; [split; [discriminate|apply BridgeRowsTaskP.numbered_fromb_ok; vm_compute; reflexivity]|].
    split; [vm_compute; reflexivity|].
    intros b Hb. vm_compute in Hb.
    repeat (destruct Hb as [<-|Hb]; [eexists; vm_compute; reflexivity|]). destruct Hb.
  - split; [vm_compute; reflexivity|]. split; [vm_compute; reflexivity|]. split; [vm_compute; reflexivity|].
    split; [intros []|]. split; [split; [discriminate|apply BridgeRowsTaskP.numbered_fromb_ok; vm_compute; reflexivity]|].
    split; [vm_compute; reflexivity|].
    intros b Hb. vm_compute in Hb.
    repeat (destruct Hb as [<-|Hb]; [eexists; vm_compute; reflexivity|]). destruct Hb.
Qed.

Lemma ex_grow_hyps :
  BridgeManagerTaskP.injective (w_enc ex_world1)
  /\ NoDup (map pair_of (sys_cfgs ex_world1 ex_loaded))
  /\ univ_ok ex_world1 ex_loaded ex_d0
  /\ gens_ok_grow ex_world1 ex_loaded ex_grow ex_d0.
Proof.
  assert (Hid : NoDup (map (w_id ex_world) ex_loaded)).
  { vm_compute. repeat constructor; intros F; repeat (destruct F as [F|F]; try discriminate F); exact F. }
  split; [exact hid_injective|]. split; [exact ex_pairs_nodup|]. split; [apply empty_univ_ok|].
  cbn [gens_ok_grow ex_grow]. split; [|split; [exact ex_world1_ok|split; [|split; [|split; [exact ex_world_ok|split; [|exact I]]]]]].
  - repeat (split; [reflexivity|]). intros s. exists []. symmetry. apply app_nil_r.
  - exact (gen_of_ok ex_world1 ex_loaded _ _ _ _ ex_loaded _ ex_d0 hid_injective ex_load (incl_refl _) ex_world1_ok Hid).
  - repeat (split; [reflexivity|]). intros s. exists (skipn 2 ex_sys_raw). reflexivity.
  - exact (gen_of_ok ex_world ex_loaded _ _ _ _ ex_loaded _ ex_e1 hid_injective ex_load (incl_refl _) ex_world_ok Hid).
Qed.

Lemma ex_grow_run :
  let ca := sys_cfg ex_world ex_ta in
  let cb := sys_cfg ex_world ex_tb in
  d_rows (pv ca ex_e1)
  = concat (map (declared_rows ca ex_decl (sys_ctx ex_ta) []) (rsegment (sys_rchain ex_world1 ex_ta) 1 1))
  /\ d_rows (pv cb ex_e1)
  = concat (map (declared_rows cb ex2_decl (sys_ctx ex_tb) []) (rsegment (sys_rchain ex_world1 ex_tb) 1 1))
  /\ length (d_rows ex_e1) = 2%nat
  /\ d_rows (pv ca ex_e2)
  = concat (map (declared_rows ca ex_decl (sys_ctx ex_ta) []) (rsegment (sys_rchain ex_world ex_ta) 1 2))
  /\ d_rows (pv cb ex_e2)
  = concat (map (declared_rows cb ex2_decl (sys_ctx ex_tb) []) (rsegment (sys_rchain ex_world ex_tb) 1 2))
  /\ length (d_rows ex_e2) = 4%nat.
Proof. vm_compute. repeat split; reflexivity. Qed.
